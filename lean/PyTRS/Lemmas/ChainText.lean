/-
C02 — the LEXICAL link: from the canonical text of a chain of aliquot components to the components.
-/
import PyTRS.Lemmas.Tiling
import PyTRS.Props.C02Depth
namespace PyTRS
open PyTRS.Aliquot PyTRS.Tiling

/-- canonical rendering of one component: its name followed by "½" (halves) or "¼" (quarters) -/
def compText (c : Comp) : Str := c.str ++ (if c.isHalf then ['½'] else ['¼'])

/-- canonical rendering of a chain, in TEXT order (smallest component first): [N, NE] ↦ "N½NE¼" -/
def chainText (chain : List Comp) : Str := chain.flatMap compText

theorem C02_matchHere_comp (c : Comp) (prev : Option Char) (rest : Str) (pos : Nat) (adv : Bool) :
    matchHere Gen.single_aliquot_unpacker_regex ⟨prev, compText c ++ rest, pos, []⟩ adv =
      some ⟨pos, pos + (compText c).length,
        [(1, pos, pos + (compText c).length), (2, pos, pos + c.str.length)]⟩ := by
  have h2 : ¬ (pos + 1 + 1 = pos) := by omega
  have h3 : ¬ (pos + 1 + 1 + 1 = pos) := by omega
  cases c <;>
    simp [h2, h3, matchHere, Gen.single_aliquot_unpacker_regex, Rx.seqs, Rx.alts, Rx.m, repLoop, compText, Comp.str,
      Comp.isHalf, Gen.cs_93662873, Gen.cs_7fef0bbd, Gen.cs_a29a1d71, Gen.cs_48cdb0ff, CharSet.mem, canMore]

/-- on the empty text the pattern does not match -/
theorem C02_matchHere_nil (prev : Option Char) (pos : Nat) (adv : Bool) :
    matchHere Gen.single_aliquot_unpacker_regex ⟨prev, [], pos, []⟩ adv = none := by
  simp [matchHere, Gen.single_aliquot_unpacker_regex, Rx.seqs, Rx.alts, Rx.m, repLoop]

theorem C02_advance_append_snd (pre : Str) : ∀ (p : Option Char) (rest : Str),
    (advance p (pre ++ rest) pre.length).2 = rest := by
  induction pre with
  | nil => intro p rest; cases rest <;> rfl
  | cons c t ih => intro p rest; exact ih (some c) rest

theorem C02_slice_mid (pre mid post : Str) :
    slice (pre ++ (mid ++ post)) pre.length (pre.length + mid.length) = mid := by
  simp [slice, List.take_append]

theorem C02_group2_eq (a b x y p q : Nat) (t : Str) :
    Match.group? ⟨a, b, [(1, x, y), (2, p, q)]⟩ t 2 = some (slice t p q) := by
  simp [Match.group?, Match.span?, List.find?]

theorem C02_chainText_cons (c : Comp) (cs : List Comp) : chainText (c :: cs) = compText c ++ chainText cs := by
  simp [chainText]

theorem C02_compText_eq (c : Comp) : compText c = c.str ++ (if c.isHalf then ['½'] else ['¼']) := rfl

/-- the tokeniser loop on the canonical text of a chain, started anywhere (`pre` = the text already consumed) -/
theorem C02_finditerAux_chain (chain : List Comp) : ∀ (pre : Str) (prev : Option Char) (fuel : Nat) (adv : Bool),
    chain.length < fuel →
    (finditerAux Gen.single_aliquot_unpacker_regex fuel prev (chainText chain) pre.length adv).filterMap
        (fun m => m.group? (pre ++ chainText chain) 2) = chain.map Comp.str := by
  induction chain with
  | nil =>
    intro pre prev fuel adv h
    obtain ⟨f, rfl⟩ : ∃ f, fuel = f + 1 := ⟨fuel - 1, by simp at h; omega⟩
    simp [chainText, finditerAux, scan, C02_matchHere_nil]
  | cons c cs ih =>
    intro pre prev fuel adv h
    obtain ⟨f, rfl⟩ : ∃ f, fuel = f + 1 := ⟨fuel - 1, by simp at h; omega⟩
    have hf : cs.length < f := by simpa using h
    rw [C02_chainText_cons]
    unfold finditerAux
    unfold scan
    rw [C02_matchHere_comp]
    simp only []
    have hadv : advance prev (compText c ++ chainText cs) (pre.length + (compText c).length - pre.length) =
        ((advance prev (compText c ++ chainText cs) (compText c).length).1, chainText cs) := by
      rw [Nat.add_sub_cancel_left]
      exact Prod.ext rfl (C02_advance_append_snd _ _ _)
    rw [hadv]
    simp only [List.filterMap_cons]
    have hg : Match.group? ⟨pre.length, pre.length + (compText c).length,
          [(1, pre.length, pre.length + (compText c).length), (2, pre.length, pre.length + c.str.length)]⟩
          (pre ++ (compText c ++ chainText cs)) 2 = some c.str := by
      rw [C02_group2_eq, C02_compText_eq, List.append_assoc, C02_slice_mid]
    rw [hg]
    have := ih (pre ++ compText c) (advance prev (compText c ++ chainText cs) (compText c).length).1 f
      (pre.length + (compText c).length == pre.length) hf
    rw [List.length_append, List.append_assoc] at this
    simp only [List.map_cons]
    rw [this]

theorem C02_compText_length (c : Comp) : 2 ≤ (compText c).length := by
  cases c <;> simp [compText, Comp.str, Comp.isHalf]

theorem C02_chainText_length (chain : List Comp) : 2 * chain.length ≤ (chainText chain).length := by
  induction chain with
  | nil => simp [chainText]
  | cons c cs ih =>
    rw [C02_chainText_cons, List.length_append, List.length_cons]
    have := C02_compText_length c
    omega

theorem C02_finditer_zero (r : Rx) (text : Str) :
    r.finditer text = finditerAux r (2 * text.length + 2) none text 0 false := by
  simp [Rx.finditer, cursorAt]

/-- **C02_componentsOf_canonical** (no side condition): on the canonical text of a chain of ANY length the tokeniser
    returns exactly the component names, in text order. -/
theorem C02_componentsOf_canonical (chain : List Comp) :
    Aliquot.componentsOf (chainText chain) = chain.map Comp.str := by
  have hgi : ((Gen.single_aliquot_unpacker_regex_groups.find? (fun g => g.1 == "aliquot_no_frac")).map (·.2)
      |>.getD 0) = 2 := by decide
  unfold Aliquot.componentsOf
  simp only [hgi]
  rw [C02_finditer_zero]
  have h := C02_finditerAux_chain chain [] none (2 * (chainText chain).length + 2) false
    (by have := C02_chainText_length chain; omega)
  simpa using h

example : Aliquot.componentsOf (S "N½NE¼") = [S "N", S "NE"] := by decide +kernel
example : Aliquot.componentsOf (S "S½N½SW¼") = [S "S", S "N", S "SW"] := by decide +kernel
example : chainText [.N, .NE] = S "N½NE¼" := by decide
example : Aliquot.componentsOf (chainText [.S, .N, .SW]) = [S "S", S "N", S "SW"] :=
  C02_componentsOf_canonical [.S, .N, .SW]

/-- "ALL" alone (not a `Comp`; the existing theorem `C02_all` treats it separately) -/
theorem C02_componentsOf_ALL : Aliquot.componentsOf (S "ALL") = [S "ALL"] := by decide +kernel

/-! ### end-to-end corollaries about TEXT

`parseAliquot` reverses the token list, and `parseComponents`/`region` take components LARGEST FIRST; the text is
written smallest first.  So the region described by the text `chainText chain` is `region chain.reverse`. -/

theorem C02_parseAliquot_canonical (chain : List Comp) (a : DepthArgs) :
    Aliquot.parseAliquot (chainText chain) a = parseComponents (chain.reverse.map Comp.str) a := by
  unfold Aliquot.parseAliquot
  rw [C02_componentsOf_canonical, List.map_reverse]

theorem C02_reverse_ne_nil {α : Type} {l : List α} (h : l ≠ []) : l.reverse ≠ [] := by
  simpa using h

/-- **total**: on the canonical text of a non-empty chain `parse_aliquot` returns (the standardisation loop terminates) -/
theorem C02_parseAliquot_canonical_total (chain : List Comp) (a : DepthArgs) (hne : chain ≠ [])
    (hd : a.qqDepth = none) (hmin : 1 ≤ a.qqMin)
    (hmax : a.qqMax = none ∨ (∃ m, a.qqMax = some m ∧ a.qqMin ≤ m)) :
    ∃ pieces, Aliquot.parseAliquot (chainText chain) a = some pieces := by
  rw [C02_parseAliquot_canonical]
  exact C02_total chain.reverse a (C02_reverse_ne_nil hne) hd hmin hmax

/-- **tiling**: the pieces returned for the canonical text tile exactly the region the text describes -/
theorem C02_parseAliquot_canonical_tiling (chain : List Comp) (a : DepthArgs) (hne : chain ≠ [])
    (hd : a.qqDepth = none) (hmin : 1 ≤ a.qqMin)
    (hmax : a.qqMax = none ∨ (∃ m, a.qqMax = some m ∧ a.qqMin ≤ m)) :
    ∃ pieces, Aliquot.parseAliquot (chainText chain) a = some pieces ∧
      let R := match a.qqMax with | none => region chain.reverse | some m => (region chain.reverse).trunc m.toNat
      (∀ p ∈ pieces, ∃ b, pieceBox p = some b ∧ b.inside R) ∧
      pieces.Pairwise (fun p q => ∀ bp bq, pieceBox p = some bp → pieceBox q = some bq → ¬ bp.overlaps bq) ∧
      (∀ D, (∀ p ∈ pieces, ∀ b, pieceBox p = some b → b.xs.length ≤ D ∧ b.ys.length ≤ D) →
            ((pieces.filterMap pieceBox).map (Box.area D)).sum = R.area D) := by
  obtain ⟨pieces, h⟩ := C02_parseAliquot_canonical_total chain a hne hd hmin hmax
  refine ⟨pieces, h, ?_⟩
  rw [C02_parseAliquot_canonical] at h
  exact C02_tiling chain.reverse a pieces (C02_reverse_ne_nil hne) hd hmin hmax h

/-- **depth**: every piece is divided at least to the minimum depth, never beyond the maximum, no half under
    `breakHalves` -/
theorem C02_parseAliquot_canonical_depth (chain : List Comp) (a : DepthArgs) (hne : chain ≠ [])
    (hd : a.qqDepth = none) (hmin : 1 ≤ a.qqMin)
    (hmax : a.qqMax = none ∨ (∃ m, a.qqMax = some m ∧ a.qqMin ≤ m)) :
    ∃ pieces, Aliquot.parseAliquot (chainText chain) a = some pieces ∧
      ∀ p ∈ pieces, ∃ cs, pieceComps p = some cs ∧
        a.qqMin.toNat ≤ cs.length ∧ (∀ c ∈ cs.take a.qqMin.toNat, c.isHalf = false) ∧
        (∀ m, a.qqMax = some m → cs.length ≤ m.toNat) ∧ (a.breakHalves = true → ∀ c ∈ cs, c.isHalf = false) := by
  obtain ⟨pieces, h⟩ := C02_parseAliquot_canonical_total chain a hne hd hmin hmax
  refine ⟨pieces, h, ?_⟩
  rw [C02_parseAliquot_canonical] at h
  exact C02_depth chain.reverse a pieces (C02_reverse_ne_nil hne) hd hmin hmax h

/-- **qq_depth = d**: exactly `d` components per piece, all quarters, tiling the region truncated to depth `d` -/
theorem C02_parseAliquot_canonical_qq_depth (chain : List Comp) (a : DepthArgs) (d : Int) (hne : chain ≠ [])
    (hd : a.qqDepth = some d) (h1 : 1 ≤ d) :
    ∃ pieces, Aliquot.parseAliquot (chainText chain) a = some pieces ∧
      let R := (region chain.reverse).trunc d.toNat
      (∀ p ∈ pieces, ∃ b, pieceBox p = some b ∧ b.inside R) ∧
      pieces.Pairwise (fun p q => ∀ bp bq, pieceBox p = some bp → pieceBox q = some bq → ¬ bp.overlaps bq) ∧
      (∀ D, (∀ p ∈ pieces, ∀ b, pieceBox p = some b → b.xs.length ≤ D ∧ b.ys.length ≤ D) →
            ((pieces.filterMap pieceBox).map (Box.area D)).sum = R.area D) ∧
      (∀ p ∈ pieces, ∃ cs, pieceComps p = some cs ∧ cs.length = d.toNat ∧ ∀ c ∈ cs, c.isHalf = false) := by
  obtain ⟨pieces, h⟩ := C02_total chain.reverse
    { qqMin := d, qqMax := some d, qqDepth := none, breakHalves := a.breakHalves } (C02_reverse_ne_nil hne) rfl h1
    (Or.inr ⟨d, rfl, Int.le_refl d⟩)
  rw [← C02_qq_depth_is_min_max _ a d hd] at h
  refine ⟨pieces, by rw [C02_parseAliquot_canonical]; exact h, ?_⟩
  exact C02_tiling_qq_depth chain.reverse a d pieces (C02_reverse_ne_nil hne) hd h1 h

/-- the text "ALL": the whole section, divided exactly to the minimum depth -/
theorem C02_parseAliquot_ALL (a : DepthArgs) (hd : a.qqDepth = none) (hmin : 1 ≤ a.qqMin)
    (hmax : a.qqMax = none ∨ (∃ m, a.qqMax = some m ∧ a.qqMin ≤ m)) :
    ∃ pieces, Aliquot.parseAliquot (S "ALL") a = some pieces ∧
      (∀ p ∈ pieces, ∃ b, pieceBox p = some b ∧ b.inside ⟨[], []⟩) ∧
      pieces.Pairwise (fun p q => ∀ bp bq, pieceBox p = some bp → pieceBox q = some bq → ¬ bp.overlaps bq) ∧
      (∀ D, (∀ p ∈ pieces, ∀ b, pieceBox p = some b → b.xs.length ≤ D ∧ b.ys.length ≤ D) →
            ((pieces.filterMap pieceBox).map (Box.area D)).sum = Box.area D ⟨[], []⟩) ∧
      (∀ p ∈ pieces, ∃ cs, pieceComps p = some cs ∧ cs.length = a.qqMin.toNat ∧ ∀ c ∈ cs, c.isHalf = false) := by
  unfold Aliquot.parseAliquot
  rw [C02_componentsOf_ALL]
  exact C02_all a hd hmin hmax

/-! ### non-vacuity of the end-to-end theorems -/

/-- "N½NE¼" with the default depth arguments (min 2, no max): the hypotheses are satisfiable … -/
example : ∃ pieces, Aliquot.parseAliquot (chainText [.N, .NE]) {} = some pieces ∧
      (∀ p ∈ pieces, ∃ b, pieceBox p = some b ∧ b.inside (region [.NE, .N])) ∧
      pieces.Pairwise (fun p q => ∀ bp bq, pieceBox p = some bp → pieceBox q = some bq → ¬ bp.overlaps bq) ∧
      (∀ D, (∀ p ∈ pieces, ∀ b, pieceBox p = some b → b.xs.length ≤ D ∧ b.ys.length ≤ D) →
            ((pieces.filterMap pieceBox).map (Box.area D)).sum = (region [.NE, .N]).area D) :=
  C02_parseAliquot_canonical_tiling [.N, .NE] {} (by decide) rfl (by decide) (Or.inl rfl)
/-- … and this is what Python returns for it -/
example : Aliquot.parseAliquot (S "N½NE¼") {} = some [S "NENE", S "NWNE"] := by decide +kernel
example : Aliquot.parseAliquot (S "S½N½SW¼") { qqMin := 2, qqMax := some 3 } = some [S "S2NESW", S "S2NWSW"] := by
  decide +kernel
example :=
  C02_parseAliquot_canonical_depth [.S, .N, .SW] { qqMin := 2, qqMax := some 3 } (by decide) rfl (by decide)
    (Or.inr ⟨3, rfl, by decide⟩)
example :=
  C02_parseAliquot_canonical_qq_depth [.W, .SE] { qqDepth := some 3 } 3 (by decide) rfl (by decide)

/-! ### what the fraction glyphs are needed for (observations OUTSIDE the canonical text; not defects of the theorem)

Without the glyphs the greedy `[NESW]{1,2}` runs across component boundaries, and the pattern is case-sensitive. -/
example : Aliquot.componentsOf (S "NNE") = [S "NN", S "E"] := by decide +kernel      -- not [N, NE]
example : Aliquot.componentsOf (S "N½NE") = [S "N", S "NE"] := by decide +kernel    -- a final glyph may be omitted
example : Aliquot.componentsOf (S "n½ne¼") = [] := by decide +kernel                 -- lower case: no token at all

#print axioms C02_matchHere_comp
#print axioms C02_finditerAux_chain
#print axioms C02_componentsOf_canonical
#print axioms C02_componentsOf_ALL
#print axioms C02_parseAliquot_canonical
#print axioms C02_parseAliquot_canonical_total
#print axioms C02_parseAliquot_canonical_tiling
#print axioms C02_parseAliquot_canonical_depth
#print axioms C02_parseAliquot_canonical_qq_depth
#print axioms C02_parseAliquot_ALL

end PyTRS
