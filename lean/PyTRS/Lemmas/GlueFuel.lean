/-
C03 — FUEL ADEQUACY for the glue loops.  Python's `while True:` loops are modelled in `PyTRS/Model/*.lean` with a fuel
argument; running out of fuel is a distinct outcome (`diverged := true`, `none`, or silently stopping).  This file
proves that the fuel the model supplies always suffices, i.e. the out-of-fuel branch is never taken:

* Part 0: generic facts about a successful match — it is at least `minWidth` wide, every recorded capture ends inside
  the searched window, captures of groups with a body of `minWidth ≥ 1` are non-empty (`Rx.m_prog2`, `search_caps`);
  a pattern of `minWidth ≥ 1` finds nothing in an empty window (`search_empty_window`).
* Part 1: `unpack_sections` / `unpack_lots` (`C03_unpackSections_fuel`, `C03_unpackLots_fuel`).  NB the next `endpos`
  of these loops is the start of the *intervener* group (`startOfRightmost`), which is non-empty.
* Part 2: `gen_flags_chunk` (`C03_genFlagsChunk_fuel`; also `C03_genFlagsChunk_guard_dead`: the model's extra
  "context did not advance" exit, which Python does not have, is never taken on the regenerated trigger table).
* Part 3: `cleanup_desc` (`C03_cleanupDesc_fuel`) and `reduce_whitespace` (`C03_reduceWhitespace_fuel`; measure
  length + number of tabs and carriage returns — a pass may keep the length but then removes one of those).
* Part 4: the two extraction loops of `TractParser.parse` (`C03_extractLots_fuel`, `C03_extractAliquots_fuel`): every
  lot match contains a decimal digit, every aliquot match a `½`/`¼`, the patch `;;` contains neither
  (`Rx.mustHit`, sound by `Rx.m_progHit`).
-/
import PyTRS.Lemmas.RxBounds
import PyTRS.Lemmas.RxFuel
import PyTRS.Lemmas.Within
import PyTRS.Lemmas.RxSplit
import PyTRS.Lemmas.Slices
import PyTRS.Props.C16
import PyTRS.Model.Plss
namespace PyTRS
open PyTRS.Unpack

/-! ## Part 0 — captures and widths of a successful match -/

/-- every group whose index is `good` has a body of `minWidth ≥ 1` (also inside look-arounds) -/
def Rx.wideGrps (good : Nat → Bool) : Rx → Bool
  | .eps | .fail | .chr _ | .behind _ | .wordb _ | .eos | .bos => true
  | .seq a b | .alt a b => a.wideGrps good && b.wideGrps good
  | .rep r _ _ => r.wideGrps good
  | .grp i r => (!good i || decide (r.minWidth ≥ 1)) && r.wideGrps good
  | .ahead r | .nahead r => r.wideGrps good

/-- every recorded capture ends inside the searched text (`E` = its end), and the captures of `good` groups are
non-empty.  (Captures recorded inside a look-ahead may end right of the match, hence `E` and not the cursor.) -/
def CapsOK (good : Nat → Bool) (E : Nat) (caps : List (Nat × Nat × Nat)) : Prop :=
  ∀ c ∈ caps, c.2.2 ≤ E ∧ (good c.1 = true → c.2.1 < c.2.2)

theorem CapsOK.nil (good : Nat → Bool) (E : Nat) : CapsOK good E [] := by
  intro c hc; cases hc

/-- G1 strengthened: the continuation is reached after consuming at least `w` characters, with good captures -/
def Prog2 (good : Nat → Bool) (w : Nat) {R : Type} (f : St → (St → Option R) → Option R) : Prop :=
  ∀ s k x, CapsOK good (s.pos + s.rest.length) s.caps → f s k = some x →
    ∃ s', St.Ext s s' ∧ s.pos + w ≤ s'.pos ∧ CapsOK good (s.pos + s.rest.length) s'.caps ∧ k s' = some x

theorem repLoop_prog2 {R : Type} (good : Nat → Bool) (w : Nat) (body : St → (St → Option R) → Option R)
    (hb : Prog2 good w body) (lo : Nat) (hi : Option Nat) :
    ∀ (fuel count : Nat) (last : Option Nat), Prog2 good ((lo - count) * w) (repLoop body lo hi fuel count last) := by
  intro fuel
  induction fuel with
  | zero => intro count last s k x _ h; simp [repLoop] at h
  | succ n ih =>
    intro count last s k x hc h
    rw [repLoop_succ] at h
    by_cases h1 : count < lo
    · simp only [h1, if_true] at h
      obtain ⟨s1, e1, w1, c1, hk1⟩ := hb s _ x hc h
      have hE := e1.pos_bound
      rw [← hE] at c1
      obtain ⟨s2, e2, w2, c2, hk2⟩ := ih _ _ s1 k x c1 hk1
      rw [hE] at c2
      refine ⟨s2, e1.trans e2, ?_, c2, hk2⟩
      have : lo - count = (lo - (count + 1)) + 1 := by omega
      rw [this, Nat.succ_mul]
      omega
    · have h0 : lo - count = 0 := by omega
      rw [h0, Nat.zero_mul]
      simp only [h1, if_false] at h
      by_cases h2 : (canMore hi count && last != some s.pos) = true
      · simp only [h2, if_true] at h
        cases hb' : body s (fun s' => repLoop body lo hi n (count + 1) (some s.pos) s' k) with
        | some r =>
          rw [hb'] at h
          cases h
          obtain ⟨s1, e1, w1, c1, hk1⟩ := hb s _ _ hc hb'
          have hE := e1.pos_bound
          rw [← hE] at c1
          obtain ⟨s2, e2, w2, c2, hk2⟩ := ih _ _ s1 k _ c1 hk1
          rw [hE] at c2
          have := e1.pos_le
          have := e2.pos_le
          exact ⟨s2, e1.trans e2, by omega, c2, hk2⟩
        | none =>
          rw [hb'] at h
          exact ⟨s, St.Ext.refl s, by omega, hc, h⟩
      · simp only [h2] at h
        exact ⟨s, St.Ext.refl s, by omega, hc, h⟩

theorem Rx.m_prog2 (good : Nat → Bool) : ∀ (r : Rx), r.wideGrps good = true → ∀ {R : Type},
    Prog2 good r.minWidth (r.m (R := R)) := by
  intro r
  induction r with
  | eps => intro _ R s k x hc h; simp only [Rx.m] at h; exact ⟨s, St.Ext.refl s, by simp [Rx.minWidth], hc, h⟩
  | fail => intro _ R s k x hc h; simp [Rx.m] at h
  | chr cs =>
    intro _ R s k x hc h
    simp only [Rx.m] at h
    split at h
    · rename_i c t hrest
      split at h
      · exact ⟨{ prev := some c, rest := t, pos := s.pos + 1, caps := s.caps },
          ⟨[c], by simp [hrest], by simp⟩, by simp [Rx.minWidth], hc, h⟩
      · cases h
    · cases h
  | seq a b iha ihb =>
    intro hw R s k x hc h
    simp only [Rx.wideGrps, Bool.and_eq_true] at hw
    simp only [Rx.m] at h
    obtain ⟨s1, e1, w1, c1, h1⟩ := iha hw.1 s _ x hc h
    have hE := e1.pos_bound
    rw [← hE] at c1
    obtain ⟨s2, e2, w2, c2, h2⟩ := ihb hw.2 s1 k x c1 h1
    rw [hE] at c2
    exact ⟨s2, e1.trans e2, by simp only [Rx.minWidth]; omega, c2, h2⟩
  | alt a b iha ihb =>
    intro hw R s k x hc h
    simp only [Rx.wideGrps, Bool.and_eq_true] at hw
    simp only [Rx.m] at h
    split at h
    · rename_i r hr
      cases h
      obtain ⟨s1, e1, w1, c1, h1⟩ := iha hw.1 s k _ hc hr
      exact ⟨s1, e1, by simp only [Rx.minWidth]; omega, c1, h1⟩
    · obtain ⟨s1, e1, w1, c1, h1⟩ := ihb hw.2 s k x hc h
      exact ⟨s1, e1, by simp only [Rx.minWidth]; omega, c1, h1⟩
  | rep r lo hi ih =>
    intro hw R s k x hc h
    simp only [Rx.wideGrps] at hw
    simp only [Rx.m] at h
    have := repLoop_prog2 good r.minWidth _ (ih hw) lo hi _ 0 none s k x hc h
    simpa [Rx.minWidth] using this
  | grp i r ih =>
    intro hw R s k x hc h
    simp only [Rx.wideGrps, Bool.and_eq_true, Bool.or_eq_true, Bool.not_eq_true', decide_eq_true_eq] at hw
    simp only [Rx.m] at h
    obtain ⟨s1, e1, w1, c1, h1⟩ := ih hw.2 s _ x hc h
    refine ⟨_, e1.caps _, by simpa [Rx.minWidth] using w1, ?_, h1⟩
    intro c hcm
    simp only [List.mem_cons] at hcm
    rcases hcm with rfl | hcm
    · have hE := e1.pos_bound
      refine ⟨by simp only []; omega, ?_⟩
      intro hg
      simp only [] at hg ⊢
      rcases hw.1 with hgi | hwd
      · rw [hgi] at hg; cases hg
      · omega
    · exact c1 c hcm
  | ahead r ih =>
    intro hw R s k x hc h
    simp only [Rx.wideGrps] at hw
    simp only [Rx.m] at h
    split at h
    · rename_i s' hs'
      obtain ⟨s1, e1, w1, c1, h1⟩ := ih hw (R := St) s some s' hc hs'
      cases h1
      exact ⟨_, (St.Ext.refl s).caps _, by simp [Rx.minWidth], c1, h⟩
    · cases h
  | nahead r _ =>
    intro _ R s k x hc h
    simp only [Rx.m] at h
    split at h
    · cases h
    · exact ⟨s, St.Ext.refl s, by simp [Rx.minWidth], hc, h⟩
  | behind cs =>
    intro _ R s k x hc h
    simp only [Rx.m] at h
    split at h
    · split at h
      · exact ⟨s, St.Ext.refl s, by simp [Rx.minWidth], hc, h⟩
      · cases h
    · cases h
  | wordb w =>
    intro _ R s k x hc h
    simp only [Rx.m] at h
    split at h
    · exact ⟨s, St.Ext.refl s, by simp [Rx.minWidth], hc, h⟩
    · cases h
  | eos =>
    intro _ R s k x hc h
    simp only [Rx.m] at h
    split at h
    · exact ⟨s, St.Ext.refl s, by simp [Rx.minWidth], hc, h⟩
    · split at h
      · exact ⟨s, St.Ext.refl s, by simp [Rx.minWidth], hc, h⟩
      · cases h
    · cases h
  | bos =>
    intro _ R s k x hc h
    simp only [Rx.m] at h
    split at h
    · exact ⟨s, St.Ext.refl s, by simp [Rx.minWidth], hc, h⟩
    · cases h

/-- a match found at a cursor: at least `minWidth` wide, inside the remaining text, captures inside the text and
(for `good` groups) non-empty -/
theorem matchHere_caps (good : Nat → Bool) (r : Rx) (hw : r.wideGrps good = true) (s : St) (adv : Bool) (m : Match)
    (hc : CapsOK good (s.pos + s.rest.length) s.caps) (h : matchHere r s adv = some m) :
    m.start = s.pos ∧ m.start + r.minWidth ≤ m.stop ∧ m.stop ≤ s.pos + s.rest.length
      ∧ CapsOK good (s.pos + s.rest.length) m.caps := by
  unfold matchHere at h
  obtain ⟨s', e, w, c, hk⟩ := Rx.m_prog2 good r hw s _ m hc h
  split at hk
  · cases hk
  · cases hk
    have hb := e.pos_bound
    exact ⟨rfl, w, by simp only []; omega, c⟩

theorem scan_caps (good : Nat → Bool) (r : Rx) (hw : r.wideGrps good = true) :
    ∀ (rest : List Char) (prev : Option Char) (pos : Nat) (adv : Bool) (m : Match),
    scan r prev rest pos adv = some m →
      pos ≤ m.start ∧ m.start + r.minWidth ≤ m.stop ∧ m.stop ≤ pos + rest.length
        ∧ CapsOK good (pos + rest.length) m.caps := by
  intro rest
  induction rest with
  | nil =>
    intro prev pos adv m h
    rw [scan] at h
    split at h
    · rename_i m' hm
      cases h
      have := matchHere_caps good r hw _ adv m (CapsOK.nil _ _) hm
      simp only [List.length_nil] at this ⊢
      exact ⟨by omega, this.2.1, this.2.2.1, this.2.2.2⟩
    · cases h
  | cons c t ih =>
    intro prev pos adv m h
    rw [scan] at h
    split at h
    · rename_i m' hm
      cases h
      have := matchHere_caps good r hw _ adv m (CapsOK.nil _ _) hm
      simp only [List.length_cons] at this ⊢
      exact ⟨by omega, this.2.1, this.2.2.1, this.2.2.2⟩
    · have := ih (some c) (pos + 1) false m h
      simp only [List.length_cons]
      have e : pos + (t.length + 1) = pos + 1 + t.length := by omega
      rw [e]
      exact ⟨by omega, this.2.1, this.2.2.1, this.2.2.2⟩

/-- `search(text, pos, endpos)`: the match is at least `minWidth` wide and lies in `[pos, min endpos |text|]`; every
capture ends at or before `min endpos |text|`; captures of `good` groups are non-empty -/
theorem search_caps (good : Nat → Bool) (r : Rx) (hw : r.wideGrps good = true) (text : List Char) (pos endpos : Nat)
    (m : Match) (h : r.search text pos endpos = some m) :
    pos ≤ m.start ∧ m.start + r.minWidth ≤ m.stop ∧ m.stop ≤ min endpos text.length
      ∧ CapsOK good (min endpos text.length) m.caps := by
  unfold Rx.search at h
  split at h
  · cases h
  · rename_i hpos
    simp only [cursorAt] at h
    have := scan_caps good r hw _ _ pos false m h
    simp only [List.length_drop, List.length_take] at this
    have e : pos + (min endpos text.length - pos) = min endpos text.length := by omega
    rw [e] at this
    exact this

theorem Rx.wideGrps_none (r : Rx) : r.wideGrps (fun _ => false) = true := by
  induction r <;> simp_all [Rx.wideGrps]

/-- a successful search is at least `minWidth` wide -/
theorem search_width (r : Rx) (text : List Char) (pos endpos : Nat) (m : Match)
    (h : r.search text pos endpos = some m) : m.start + r.minWidth ≤ m.stop :=
  (search_caps _ r r.wideGrps_none text pos endpos m h).2.1

/-- a pattern that cannot match the empty string finds nothing in an empty window -/
theorem search_empty_window (r : Rx) (hw : r.minWidth ≥ 1) (text : List Char) (pos : Nat) :
    r.search text pos pos = none := by
  cases h : r.search text pos pos with
  | none => rfl
  | some m =>
    have h1 := search_width r text pos pos m h
    have h2 := search_bounds r text pos pos m h
    omega

/-! ## Part 1 — the unpackers -/

theorem multisec_wide : multisec.rx.wideGrps (fun g => g == 8) = true ∧ multisec.rx.minWidth ≥ 1 := by
  decide +kernel

theorem multilot_wide : multilot.rx.wideGrps (fun g => g == 11) = true ∧ multilot.rx.minWidth ≥ 1 := by
  decide +kernel

/-- what both loops need: after a successful search in `txt[0:endpos]`, the place where the next search ends is
strictly left of `endpos` -/
theorem startOfRightmost_lt (p : Pat) (i : Nat) (hi : p.idx? "intervener" = some i)
    (hw : p.rx.wideGrps (fun g => g == i) = true) (hmw : p.rx.minWidth ≥ 1)
    (txt : Str) (endpos : Nat) (mo : Match) (h : p.rx.search txt 0 endpos = some mo) :
    startOfRightmost p mo < endpos := by
  have hs := search_caps _ p.rx hw txt 0 endpos mo h
  unfold startOfRightmost
  have hhas : p.has "intervener" = true := by simp [Pat.has, hi]
  simp only [hhas, Bool.not_true, Bool.false_eq_true, if_false]
  simp only [Pat.start?, hi]
  cases hsp : mo.span? i with
  | none => simp only [Option.map_none]; omega
  | some ab =>
    simp only [Option.map_some]
    unfold Match.span? at hsp
    split at hsp
    · cases hsp; simp only []; omega
    · split at hsp
      · rename_i c hc
        cases hsp
        have hmem := List.mem_of_find?_eq_some hc
        have hg := List.find?_some hc
        have := hs.2.2.2 c hmem
        have h2 := this.2 (by simpa using hg)
        omega
      · cases hsp

theorem secLoop_fuel (txt : Str) : ∀ (fuel endpos : Nat) (st : SecLoopSt), endpos + 1 ≤ fuel →
    (secLoop txt fuel endpos st).2 = false := by
  intro fuel
  induction fuel with
  | zero => intro endpos st h; omega
  | succ n ih =>
    intro endpos st h
    rw [secLoop]
    cases hs : multisec.rx.search txt 0 endpos with
    | none => rfl
    | some mo =>
      simp only []
      apply ih
      have hlt := startOfRightmost_lt multisec 8 (by decide) multisec_wide.1 multisec_wide.2 txt endpos mo hs
      split <;> omega

theorem lotLoop_fuel (txt : Str) : ∀ (fuel endpos : Nat) (st : LotLoopSt), endpos + 1 ≤ fuel →
    (lotLoop txt fuel endpos st).2 = false := by
  intro fuel
  induction fuel with
  | zero => intro endpos st h; omega
  | succ n ih =>
    intro endpos st h
    rw [lotLoop]
    cases hs : multilot.rx.search txt 0 endpos with
    | none => rfl
    | some mo =>
      simp only []
      apply ih
      have hlt := startOfRightmost_lt multilot 11 (by decide) multilot_wide.1 multilot_wide.2 txt endpos mo hs
      split <;> omega

/-- `unpack_sections`: the `while True` loop never runs out of the fuel the model gives it -/
theorem C03_unpackSections_fuel (txt : Str) : (Unpack.unpackSections txt).diverged = false := by
  unfold unpackSections
  exact secLoop_fuel txt _ _ _ (by omega)

example : (Unpack.unpackSections "Sections 1 - 3, 5".toList).diverged = false := C03_unpackSections_fuel _

/-- `unpack_lots`: likewise -/
theorem C03_unpackLots_fuel (txt : Str) : (Unpack.unpackLots txt).diverged = false := by
  unfold unpackLots
  exact lotLoop_fuel txt _ _ _ (by omega)

example : (Unpack.unpackLots "Lots 1 - 3, 5(39.80)".toList).diverged = false := C03_unpackLots_fuel _

/-! ## Part 2 — trigger scanning (`gen_flags_chunk`) -/

section Trigger
open PyTRS.Plss

theorem extendContext_succ (p : Pat) (chunk : Str) (rcx fuel lastEnd : Nat) :
    extendContext p chunk rcx (fuel + 1) lastEnd =
      match p.rx.search chunk lastEnd (min chunk.length (lastEnd + rcx)) with
      | none => lastEnd
      | some m => extendContext p chunk rcx fuel m.stop := rfl

/-- the inner loop only moves right -/
theorem extendContext_ge (p : Pat) (chunk : Str) (rcx : Nat) : ∀ (fuel lastEnd : Nat),
    lastEnd ≤ extendContext p chunk rcx fuel lastEnd := by
  intro fuel
  induction fuel with
  | zero => intro lastEnd; exact Nat.le_refl _
  | succ n ih =>
    intro lastEnd
    rw [extendContext_succ]
    cases hs : p.rx.search chunk lastEnd (min chunk.length (lastEnd + rcx)) with
    | none => exact Nat.le_refl _
    | some m =>
      have hb := search_bounds _ _ _ _ _ hs
      have := ih m.stop
      simp only []
      omega

/-- … and every further match of a pattern that cannot match the empty string ends strictly further right (and inside
the chunk), so `|chunk| + 1 - lastEnd` units of fuel are enough: one more changes nothing -/
theorem extendContext_fuel_succ (p : Pat) (hw : p.rx.minWidth ≥ 1) (chunk : Str) (rcx : Nat) :
    ∀ (fuel lastEnd : Nat), fuel ≥ chunk.length + 1 - lastEnd →
      extendContext p chunk rcx (fuel + 1) lastEnd = extendContext p chunk rcx fuel lastEnd := by
  intro fuel
  induction fuel with
  | zero =>
    intro lastEnd h
    rw [extendContext_succ]
    cases hs : p.rx.search chunk lastEnd (min chunk.length (lastEnd + rcx)) with
    | none => rfl
    | some m =>
      have hb := search_bounds _ _ _ _ _ hs
      omega
  | succ n ih =>
    intro lastEnd h
    rw [extendContext_succ, extendContext_succ p chunk rcx n]
    cases hs : p.rx.search chunk lastEnd (min chunk.length (lastEnd + rcx)) with
    | none => rfl
    | some m =>
      have hb := search_bounds _ _ _ _ _ hs
      have hwd := search_width _ _ _ _ _ hs
      simp only []
      apply ih
      omega

theorem extendContext_fuel_add (p : Pat) (hw : p.rx.minWidth ≥ 1) (chunk : Str) (rcx fuel lastEnd : Nat)
    (h : fuel ≥ chunk.length + 1 - lastEnd) (e : Nat) :
    extendContext p chunk rcx (fuel + e) lastEnd = extendContext p chunk rcx fuel lastEnd := by
  induction e with
  | zero => rfl
  | succ e ih => rw [← Nat.add_assoc, extendContext_fuel_succ p hw chunk rcx (fuel + e) lastEnd (by omega), ih]

/-- `triggerScan` with `e` extra units of fuel in its inner loop -/
def triggerScanF (e : Nat) (p : Pat) (flag : Str) (chunk : Str) (lc rcx : Nat) : Nat → Nat → List (Str × Str)
  | 0, _ => []
  | fuel+1, startPos =>
    match p.rx.search chunk startPos chunk.length with
    | none => []
    | some startMo =>
      let finalEnd := extendContext p chunk rcx (chunk.length + 2 + e) startMo.stop
      let i := startMo.start - lc
      let j := min (finalEnd + rcx) chunk.length
      let ctx := S "<" ++ pyStrip (pyReplace (slice chunk i j) (S "\n") (S " ")) ++ S ">"
      if j ≤ startPos && j ≤ startMo.start then [(flag, ctx)]
      else (flag, ctx) :: triggerScanF e p flag chunk lc rcx fuel j

theorem triggerScanF_eq (e : Nat) (p : Pat) (hw : p.rx.minWidth ≥ 1) (flag : Str) (chunk : Str) (lc rcx : Nat) :
    ∀ (fuel startPos : Nat),
      triggerScanF e p flag chunk lc rcx fuel startPos = triggerScan p flag chunk lc rcx fuel startPos := by
  intro fuel
  induction fuel with
  | zero => intro startPos; rfl
  | succ n ih =>
    intro startPos
    rw [triggerScanF, triggerScan]
    cases hs : p.rx.search chunk startPos chunk.length with
    | none => rfl
    | some startMo =>
      simp only []
      rw [extendContext_fuel_add p hw chunk rcx (chunk.length + 2) startMo.stop (by omega) e, ih]

theorem triggerScan_succ (p : Pat) (flag : Str) (chunk : Str) (lc rcx fuel startPos : Nat) :
    triggerScan p flag chunk lc rcx (fuel + 1) startPos =
      match p.rx.search chunk startPos chunk.length with
      | none => []
      | some startMo =>
        let finalEnd := extendContext p chunk rcx (chunk.length + 2) startMo.stop
        let i := startMo.start - lc
        let j := min (finalEnd + rcx) chunk.length
        let ctx := S "<" ++ pyStrip (pyReplace (slice chunk i j) (S "\n") (S " ")) ++ S ">"
        if j ≤ startPos && j ≤ startMo.start then [(flag, ctx)]
        else (flag, ctx) :: triggerScan p flag chunk lc rcx fuel j := rfl

/-- the outer loop: `|chunk| + 1 - startPos` units of fuel are enough (the next search starts strictly further right
and never beyond the end of the chunk) -/
theorem triggerScan_fuel_succ (p : Pat) (flag : Str) (chunk : Str) (lc rcx : Nat) :
    ∀ (fuel startPos : Nat), fuel ≥ chunk.length + 1 - startPos →
      triggerScan p flag chunk lc rcx (fuel + 1) startPos = triggerScan p flag chunk lc rcx fuel startPos := by
  intro fuel
  induction fuel with
  | zero =>
    intro startPos h
    rw [triggerScan_succ]
    cases hs : p.rx.search chunk startPos chunk.length with
    | none => rfl
    | some m =>
      have hb := search_bounds _ _ _ _ _ hs
      omega
  | succ n ih =>
    intro startPos h
    rw [triggerScan_succ, triggerScan_succ p flag chunk lc rcx n]
    cases hs : p.rx.search chunk startPos chunk.length with
    | none => rfl
    | some m =>
      have hb := search_bounds _ _ _ _ _ hs
      simp only []
      split
      · rfl
      · rename_i hg
        congr 1
        apply ih
        simp only [Bool.and_eq_true, decide_eq_true_eq] at hg
        omega

theorem triggerScan_fuel_add (p : Pat) (flag : Str) (chunk : Str) (lc rcx fuel startPos : Nat)
    (h : fuel ≥ chunk.length + 1 - startPos) (e : Nat) :
    triggerScan p flag chunk lc rcx (fuel + e) startPos = triggerScan p flag chunk lc rcx fuel startPos := by
  induction e with
  | zero => rfl
  | succ e ih => rw [← Nat.add_assoc, triggerScan_fuel_succ p flag chunk lc rcx (fuel + e) startPos (by omega), ih]

/-- FUEL ADEQUACY of the trigger scan: extra fuel in both loops changes nothing -/
theorem triggerScanF_fuel (e : Nat) (p : Pat) (hw : p.rx.minWidth ≥ 1) (flag : Str) (chunk : Str) (lc rcx : Nat)
    (fuel startPos : Nat) (h : fuel ≥ chunk.length + 1 - startPos) :
    triggerScanF e p flag chunk lc rcx (fuel + e) startPos = triggerScan p flag chunk lc rcx fuel startPos := by
  rw [triggerScanF_eq e p hw, triggerScan_fuel_add p flag chunk lc rcx fuel startPos h e]

/-- the model's extra exit "the context did not advance" (which Python does not have: it would loop for ever) is dead
code for a pattern that cannot match the empty string: the scan without it computes the same -/
def triggerScanU (p : Pat) (flag : Str) (chunk : Str) (lc rcx : Nat) : Nat → Nat → List (Str × Str)
  | 0, _ => []
  | fuel+1, startPos =>
    match p.rx.search chunk startPos chunk.length with
    | none => []
    | some startMo =>
      let finalEnd := extendContext p chunk rcx (chunk.length + 2) startMo.stop
      let i := startMo.start - lc
      let j := min (finalEnd + rcx) chunk.length
      let ctx := S "<" ++ pyStrip (pyReplace (slice chunk i j) (S "\n") (S " ")) ++ S ">"
      (flag, ctx) :: triggerScanU p flag chunk lc rcx fuel j

theorem triggerScan_guard_dead (p : Pat) (hw : p.rx.minWidth ≥ 1) (flag : Str) (chunk : Str) (lc rcx : Nat) :
    ∀ (fuel startPos : Nat),
      triggerScan p flag chunk lc rcx fuel startPos = triggerScanU p flag chunk lc rcx fuel startPos := by
  intro fuel
  induction fuel with
  | zero => intro startPos; rfl
  | succ n ih =>
    intro startPos
    rw [triggerScan_succ, triggerScanU]
    cases hs : p.rx.search chunk startPos chunk.length with
    | none => rfl
    | some m =>
      have hb := search_bounds _ _ _ _ _ hs
      have hwd := search_width _ _ _ _ _ hs
      have hge := extendContext_ge p chunk rcx (chunk.length + 2) m.stop
      simp only []
      split
      · rename_i hg
        simp only [Bool.and_eq_true, decide_eq_true_eq] at hg
        omega
      · rw [ih]

/-- `gen_flags_chunk` with `e` extra units of fuel in both loops of every row -/
def genFlagsChunkF (e : Nat) (chunk : Str) (fl : Tract.Flags) : Tract.Flags :=
  let found : List (Str × Str) := Gen.GEN_FLAGS_TABLE.flatMap (fun row =>
    triggerScanF e (findPat row.1) (S row.2.1) chunk row.2.2.1 row.2.2.2 (chunk.length + 2 + e) 0)
  { fl with w := fl.w ++ found.map (fun fc => PyVal.str fc.1),
            wl := fl.wl ++ found.map (fun fc => PyVal.tup [.str fc.1, .str fc.2]) }

theorem flatMap_congr_mem {α β : Type} (l : List α) (f g : α → List β) (h : ∀ a ∈ l, f a = g a) :
    l.flatMap f = l.flatMap g := by
  induction l with
  | nil => rfl
  | cons a t ih =>
    simp only [List.flatMap_cons]
    rw [h a (by simp), ih (fun b hb => h b (by simp [hb]))]

/-- FUEL ADEQUACY of `gen_flags_chunk` on the regenerated trigger table -/
theorem C03_genFlagsChunk_fuel (e : Nat) (chunk : Str) (fl : Tract.Flags) :
    genFlagsChunkF e chunk fl = genFlagsChunk chunk fl := by
  unfold genFlagsChunkF genFlagsChunk
  have hall := C16_trigger_patterns_consume
  rw [List.all_eq_true] at hall
  have : Gen.GEN_FLAGS_TABLE.flatMap (fun row =>
      triggerScanF e (findPat row.1) (S row.2.1) chunk row.2.2.1 row.2.2.2 (chunk.length + 2 + e) 0)
    = Gen.GEN_FLAGS_TABLE.flatMap (fun row =>
      triggerScan (findPat row.1) (S row.2.1) chunk row.2.2.1 row.2.2.2 (chunk.length + 2) 0) := by
    apply flatMap_congr_mem
    intro row hrow
    have hw := hall row hrow
    simp only [decide_eq_true_eq] at hw
    exact triggerScanF_fuel e _ hw _ chunk _ _ _ 0 (by omega)
  simp only [this]

/-- … and on that table the model's "no progress" exit is never taken -/
theorem C03_genFlagsChunk_guard_dead (chunk : Str) (fl : Tract.Flags) :
    genFlagsChunk chunk fl =
      (let found : List (Str × Str) := Gen.GEN_FLAGS_TABLE.flatMap (fun row =>
          triggerScanU (findPat row.1) (S row.2.1) chunk row.2.2.1 row.2.2.2 (chunk.length + 2) 0)
       { fl with w := fl.w ++ found.map (fun fc => PyVal.str fc.1),
                 wl := fl.wl ++ found.map (fun fc => PyVal.tup [.str fc.1, .str fc.2]) }) := by
  unfold genFlagsChunk
  have hall := C16_trigger_patterns_consume
  rw [List.all_eq_true] at hall
  have : Gen.GEN_FLAGS_TABLE.flatMap (fun row =>
      triggerScan (findPat row.1) (S row.2.1) chunk row.2.2.1 row.2.2.2 (chunk.length + 2) 0)
    = Gen.GEN_FLAGS_TABLE.flatMap (fun row =>
      triggerScanU (findPat row.1) (S row.2.1) chunk row.2.2.1 row.2.2.2 (chunk.length + 2) 0) := by
    apply flatMap_congr_mem
    intro row hrow
    have hw := hall row hrow
    simp only [decide_eq_true_eq] at hw
    exact triggerScan_guard_dead _ hw _ chunk _ _ _ 0
  simp only [this]

example : genFlagsChunkF 7 "NE/4, including the well, less and except the road".toList {}
    = genFlagsChunk "NE/4, including the well, less and except the road".toList {} := C03_genFlagsChunk_fuel _ _ _

end Trigger

/-! ## Part 3 — `cleanup_desc` -/

section Cleanup
open PyTRS.Plss

/-- a text transformation that never lengthens and, when it keeps the length, keeps the text -/
def Shrinks (f : Str → Str) : Prop := ∀ t, (f t).length ≤ t.length ∧ ((f t).length = t.length → f t = t)

theorem Shrinks.id : Shrinks (fun t => t) := fun _ => ⟨Nat.le_refl _, fun _ => rfl⟩

theorem Shrinks.comp {f g : Str → Str} (hf : Shrinks f) (hg : Shrinks g) : Shrinks (fun t => g (f t)) := by
  intro t
  have h1 := hf t
  have h2 := hg (f t)
  show (g (f t)).length ≤ t.length ∧ ((g (f t)).length = t.length → g (f t) = t)
  refine ⟨by omega, ?_⟩
  intro h
  have e1 : f t = t := h1.2 (by omega)
  have e2 : g (f t) = f t := h2.2 (by omega)
  rw [e2, e1]

theorem Shrinks.foldl {α : Type} (f : Str → α → Str) (hf : ∀ a, Shrinks (fun t => f t a)) (l : List α) :
    Shrinks (fun t => l.foldl f t) := by
  induction l with
  | nil => exact Shrinks.id
  | cons a as ih => exact Shrinks.comp (hf a) ih

theorem lstripBy_shrinks (p : Char → Bool) : Shrinks (lstripBy p) := by
  intro s
  refine ⟨lstripBy_length_le p s, ?_⟩
  cases s with
  | nil => intro _; rfl
  | cons c t =>
    rw [lstripBy]
    split
    · intro h
      have := lstripBy_length_le p t
      simp only [List.length_cons] at h
      omega
    · intro _; rfl

theorem rstripBy_shrinks (p : Char → Bool) : Shrinks (rstripBy p) := by
  intro s
  refine ⟨rstripBy_length_le p s, ?_⟩
  intro h
  unfold rstripBy at h ⊢
  have := (lstripBy_shrinks p s.reverse).2 (by simpa using h)
  rw [this, List.reverse_reverse]

theorem stripBy_shrinks (p : Char → Bool) : Shrinks (stripBy p) := by
  intro s
  unfold stripBy
  exact (Shrinks.comp (lstripBy_shrinks p) (rstripBy_shrinks p)) s

theorem cleanupStep_shrinks : Shrinks cleanupStep := by
  unfold cleanupStep
  apply Shrinks.comp (f := fun text => Gen.CLEANUP_STRIPS.foldl _ text) (g := fun text => cullList.foldl _ text)
  · apply Shrinks.foldl
    intro s
    by_cases h1 : (s.1 == "lstrip") = true
    · simp only [h1, if_true]; exact lstripBy_shrinks _
    · by_cases h2 : (s.1 == "rstrip") = true
      · simp only [h1, h2, if_true]; exact rstripBy_shrinks _
      · simp only [h1, h2]; exact stripBy_shrinks _
  · apply Shrinks.foldl
    intro cull t
    dsimp only
    split
    · refine ⟨by simp only [List.length_take]; omega, ?_⟩
      intro h
      simp only [List.length_take] at h
      apply List.take_of_length_le
      omega
    · exact ⟨Nat.le_refl _, fun _ => rfl⟩

/-- a substitute-until-stable loop over a shrinking step stops within `|text| + 1` passes -/
theorem untilStable_shrinks (f : Str → Str) (hf : Shrinks f) : ∀ (fuel : Nat) (t : Str), fuel ≥ t.length + 1 →
    (Tract.untilStable f fuel t).isSome = true := by
  intro fuel
  induction fuel with
  | zero => intro t h; omega
  | succ n ih =>
    intro t h
    rw [Tract.untilStable]
    by_cases hc : (f t == t) = true
    · simp [hc]
    · simp only [hc]
      apply ih
      have := hf t
      have hne : f t ≠ t := by simpa using hc
      have : (f t).length ≠ t.length := fun e => hne (this.2 e)
      omega

/-- `cleanup_desc`: the loop always reaches its fixed point within the fuel the model gives it -/
theorem C03_cleanupDesc_fuel (text : Str) :
    (Tract.untilStable Plss.cleanupStep (text.length + 3) text).isSome = true :=
  untilStable_shrinks _ cleanupStep_shrinks _ _ (by omega)

example : (Tract.untilStable Plss.cleanupStep ("..the NE/4 of, and ".toList.length + 3) "..the NE/4 of, and ".toList).isSome
    = true := C03_cleanupDesc_fuel _

end Cleanup

/-! ## Part 4 — the extraction loops of the tract parser -/

section Extract
open PyTRS.Tract

/-- `cs ⊆ D` as sets of code points, checked range by range -/
def CharSet.subset (cs D : CharSet) : Bool := cs.all (fun r => D.any (fun d => d.1 ≤ r.1 && r.2 ≤ d.2))

theorem CharSet.mem_of_subset {cs D : CharSet} (h : cs.subset D = true) {c : Char} (hc : cs.mem c = true) :
    D.mem c = true := by
  unfold CharSet.mem at hc ⊢
  unfold CharSet.subset at h
  rw [List.any_eq_true] at hc ⊢
  obtain ⟨r, hr, hrc⟩ := hc
  rw [List.all_eq_true] at h
  have := h r hr
  rw [List.any_eq_true] at this
  obtain ⟨d, hd, hdr⟩ := this
  refine ⟨d, hd, ?_⟩
  simp only [Bool.and_eq_true, decide_eq_true_eq] at hrc hdr ⊢
  omega

/-- every successful match of the pattern consumes at least one character of `D` -/
def Rx.mustHit (D : CharSet) : Rx → Bool
  | .chr cs => cs.subset D
  | .seq a b => a.mustHit D || b.mustHit D
  | .alt a b => a.mustHit D && b.mustHit D
  | .rep r lo _ => decide (lo ≥ 1) && r.mustHit D
  | .grp _ r => r.mustHit D
  | .eps | .fail | .ahead _ | .nahead _ | .behind _ | .wordb _ | .eos | .bos => false

/-- `s'` is reached from `s` by consuming `c`, and if `hit` then `c` contains a character of `D` -/
def St.ExtHit (D : CharSet) (hit : Bool) (s s' : St) : Prop :=
  ∃ c : List Char, s.rest = c ++ s'.rest ∧ s'.pos = s.pos + c.length ∧ (hit = true → ∃ ch ∈ c, D.mem ch = true)

theorem St.ExtHit.refl (D : CharSet) (s : St) : St.ExtHit D false s s :=
  ⟨[], by simp, by simp, by intro h; cases h⟩

theorem St.ExtHit.trans {D : CharSet} {h1 h2 : Bool} {a b c : St} (e1 : St.ExtHit D h1 a b) (e2 : St.ExtHit D h2 b c) :
    St.ExtHit D (h1 || h2) a c := by
  obtain ⟨x, hx1, hx2, hx3⟩ := e1
  obtain ⟨y, hy1, hy2, hy3⟩ := e2
  refine ⟨x ++ y, by rw [hx1, hy1, List.append_assoc], by rw [hy2, hx2, List.length_append]; omega, ?_⟩
  intro h
  rw [Bool.or_eq_true] at h
  rcases h with h | h
  · obtain ⟨ch, hm, hd⟩ := hx3 h
    exact ⟨ch, List.mem_append_left _ hm, hd⟩
  · obtain ⟨ch, hm, hd⟩ := hy3 h
    exact ⟨ch, List.mem_append_right _ hm, hd⟩

theorem St.ExtHit.weaken {D : CharSet} {h1 h2 : Bool} {a b : St} (e : St.ExtHit D h1 a b) (h : h2 = true → h1 = true) :
    St.ExtHit D h2 a b := by
  obtain ⟨x, hx1, hx2, hx3⟩ := e
  exact ⟨x, hx1, hx2, fun h' => hx3 (h h')⟩

theorem St.ExtHit.caps {D : CharSet} {h : Bool} {a b : St} (e : St.ExtHit D h a b) (cs : List (Nat × Nat × Nat)) :
    St.ExtHit D h a { b with caps := cs } := e

def ProgHit (D : CharSet) (hit : Bool) {R : Type} (f : St → (St → Option R) → Option R) : Prop :=
  ∀ s k x, f s k = some x → ∃ s', St.ExtHit D hit s s' ∧ k s' = some x

theorem repLoop_progHit {R : Type} (D : CharSet) (hit : Bool) (body : St → (St → Option R) → Option R)
    (hb : ProgHit D hit body) (lo : Nat) (hi : Option Nat) :
    ∀ (fuel count : Nat) (last : Option Nat),
      ProgHit D (decide (count < lo) && hit) (repLoop body lo hi fuel count last) := by
  intro fuel
  induction fuel with
  | zero => intro count last s k x h; simp [repLoop] at h
  | succ n ih =>
    intro count last s k x h
    rw [repLoop_succ] at h
    by_cases h1 : count < lo
    · simp only [h1, if_true] at h
      obtain ⟨s1, e1, hk1⟩ := hb s _ x h
      obtain ⟨s2, e2, hk2⟩ := ih _ _ s1 k x hk1
      refine ⟨s2, (e1.trans e2).weaken ?_, hk2⟩
      intro hh
      simp only [Bool.and_eq_true] at hh
      simp [hh.2]
    · simp only [h1, if_false] at h
      have hf : (decide (count < lo) && hit) = false := by simp [h1]
      rw [hf]
      by_cases h2 : (canMore hi count && last != some s.pos) = true
      · simp only [h2, if_true] at h
        cases hb' : body s (fun s' => repLoop body lo hi n (count + 1) (some s.pos) s' k) with
        | some r =>
          rw [hb'] at h
          cases h
          obtain ⟨s1, e1, hk1⟩ := hb s _ _ hb'
          obtain ⟨s2, e2, hk2⟩ := ih _ _ s1 k _ hk1
          exact ⟨s2, (e1.trans e2).weaken (by intro hh; cases hh), hk2⟩
        | none =>
          rw [hb'] at h
          exact ⟨s, St.ExtHit.refl D s, h⟩
      · simp only [h2] at h
        exact ⟨s, St.ExtHit.refl D s, h⟩

/-- soundness of `mustHit` -/
theorem Rx.m_progHit (D : CharSet) : ∀ (r : Rx) {R : Type}, ProgHit D (r.mustHit D) (r.m (R := R)) := by
  intro r
  induction r with
  | eps => intro R s k x h; simp only [Rx.m] at h; exact ⟨s, St.ExtHit.refl D s, h⟩
  | fail => intro R s k x h; simp [Rx.m] at h
  | chr cs =>
    intro R s k x h
    simp only [Rx.m] at h
    split at h
    · rename_i c t hrest
      split at h
      · rename_i hmem
        refine ⟨{ prev := some c, rest := t, pos := s.pos + 1, caps := s.caps },
          ⟨[c], by simp [hrest], by simp, ?_⟩, h⟩
        intro hh
        simp only [Rx.mustHit] at hh
        exact ⟨c, by simp, CharSet.mem_of_subset hh hmem⟩
      · cases h
    · cases h
  | seq a b iha ihb =>
    intro R s k x h
    simp only [Rx.m] at h
    obtain ⟨s1, e1, h1⟩ := iha s _ x h
    obtain ⟨s2, e2, h2⟩ := ihb s1 k x h1
    exact ⟨s2, e1.trans e2, h2⟩
  | alt a b iha ihb =>
    intro R s k x h
    simp only [Rx.m] at h
    split at h
    · rename_i r hr
      cases h
      obtain ⟨s1, e1, h1⟩ := iha s k _ hr
      exact ⟨s1, e1.weaken (by simp only [Rx.mustHit, Bool.and_eq_true]; exact fun hh => hh.1), h1⟩
    · obtain ⟨s1, e1, h1⟩ := ihb s k x h
      exact ⟨s1, e1.weaken (by simp only [Rx.mustHit, Bool.and_eq_true]; exact fun hh => hh.2), h1⟩
  | rep r lo hi ih =>
    intro R s k x h
    simp only [Rx.m] at h
    obtain ⟨s1, e1, h1⟩ := repLoop_progHit D _ _ ih lo hi _ 0 none s k x h
    refine ⟨s1, e1.weaken ?_, h1⟩
    simp only [Rx.mustHit, Bool.and_eq_true, decide_eq_true_eq]
    exact fun hh => ⟨by omega, hh.2⟩
  | grp i r ih =>
    intro R s k x h
    simp only [Rx.m] at h
    obtain ⟨s1, e1, h1⟩ := ih s _ x h
    exact ⟨_, e1.caps _, h1⟩
  | ahead r _ =>
    intro R s k x h
    simp only [Rx.m] at h
    split at h
    · exact ⟨_, (St.ExtHit.refl D s).caps _, h⟩
    · cases h
  | nahead r _ =>
    intro R s k x h
    simp only [Rx.m] at h
    split at h
    · cases h
    · exact ⟨s, St.ExtHit.refl D s, h⟩
  | behind cs =>
    intro R s k x h
    simp only [Rx.m] at h
    split at h
    · split at h
      · exact ⟨s, St.ExtHit.refl D s, h⟩
      · cases h
    · cases h
  | wordb w =>
    intro R s k x h
    simp only [Rx.m] at h
    split at h
    · exact ⟨s, St.ExtHit.refl D s, h⟩
    · cases h
  | eos =>
    intro R s k x h
    simp only [Rx.m] at h
    split at h
    · exact ⟨s, St.ExtHit.refl D s, h⟩
    · split at h
      · exact ⟨s, St.ExtHit.refl D s, h⟩
      · cases h
    · cases h
  | bos =>
    intro R s k x h
    simp only [Rx.m] at h
    split at h
    · exact ⟨s, St.ExtHit.refl D s, h⟩
    · cases h

/-- the consumed span of a match found at a cursor contains a character of `D` -/
theorem matchHere_hit (D : CharSet) (r : Rx) (hr : r.mustHit D = true) (s : St) (adv : Bool) (m : Match)
    (h : matchHere r s adv = some m) :
    m.start = s.pos ∧ ∃ c tail, s.rest = c ++ tail ∧ m.stop = m.start + c.length ∧ ∃ ch ∈ c, D.mem ch = true := by
  unfold matchHere at h
  obtain ⟨s', ⟨c, hc1, hc2, hc3⟩, hk⟩ := Rx.m_progHit D r s _ m h
  split at hk
  · cases hk
  · cases hk
    exact ⟨rfl, c, s'.rest, hc1, hc2, hc3 hr⟩

theorem scan_hit (D : CharSet) (r : Rx) (hr : r.mustHit D = true) :
    ∀ (rest : List Char) (prev : Option Char) (pos : Nat) (adv : Bool) (m : Match),
    scan r prev rest pos adv = some m →
      pos ≤ m.start ∧ ∃ c tail, rest.drop (m.start - pos) = c ++ tail ∧ m.stop = m.start + c.length
        ∧ ∃ ch ∈ c, D.mem ch = true := by
  intro rest
  induction rest with
  | nil =>
    intro prev pos adv m h
    rw [scan] at h
    split at h
    · rename_i m' hm
      cases h
      obtain ⟨h1, c, tail, h2, h3, h4⟩ := matchHere_hit D r hr _ adv m hm
      simp only [] at h1 h2
      exact ⟨by omega, c, tail, by simpa [h1] using h2, h3, h4⟩
    · cases h
  | cons a t ih =>
    intro prev pos adv m h
    rw [scan] at h
    split at h
    · rename_i m' hm
      cases h
      obtain ⟨h1, c, tail, h2, h3, h4⟩ := matchHere_hit D r hr _ adv m hm
      simp only [] at h1 h2
      exact ⟨by omega, c, tail, by simpa [h1] using h2, h3, h4⟩
    · obtain ⟨h1, c, tail, h2, h3, h4⟩ := ih (some a) (pos + 1) false m h
      refine ⟨by omega, c, tail, ?_, h3, h4⟩
      have : m.start - pos = (m.start - (pos + 1)) + 1 := by omega
      rw [this, List.drop_succ_cons]
      exact h2

/-- number of characters of `D` in a text -/
def hits (D : CharSet) (t : Str) : Nat := t.countP (fun c => D.mem c)

theorem hits_le_length (D : CharSet) (t : Str) : hits D t ≤ t.length := List.countP_le_length

theorem hits_append (D : CharSet) (a b : Str) : hits D (a ++ b) = hits D a + hits D b := by
  unfold hits; exact List.countP_append

theorem hits_pos (D : CharSet) (c : Str) (h : ∃ ch ∈ c, D.mem ch = true) : 1 ≤ hits D c := by
  obtain ⟨ch, hm, hd⟩ := h
  unfold hits
  exact List.countP_pos_iff.mpr ⟨ch, hm, by simpa using hd⟩

/-- a search over the whole text: replacing the matched span by a patch without `D`-characters strictly decreases the
number of `D`-characters -/
theorem search_patch_hits (D : CharSet) (r : Rx) (hr : r.mustHit D = true) (text patch : Str) (hp : hits D patch = 0)
    (m : Match) (h : r.search text = some m) :
    hits D (text.take m.start ++ patch ++ text.drop m.stop) < hits D text := by
  unfold Rx.search at h
  split at h
  · cases h
  · simp only [cursorAt, List.take_length, List.drop_zero] at h
    obtain ⟨_, c, tail, h2, h3, h4⟩ := scan_hit D r hr _ _ 0 false m h
    simp only [Nat.sub_zero] at h2
    have hsplit : text = text.take m.start ++ (c ++ tail) := by rw [← h2, List.take_append_drop]
    have hdrop : text.drop m.stop = tail := by
      have hb := scan_bounds r _ _ 0 false m h
      have hl : (text.take m.start).length = m.start := by
        rw [List.length_take]; omega
      conv => lhs; rw [hsplit]
      rw [h3, ← List.append_assoc]
      have : (List.take m.start text ++ c).length = m.start + c.length := by
        rw [List.length_append, hl]
      rw [← this, List.drop_left]
    rw [hdrop]
    conv => rhs; rw [hsplit]
    simp only [hits_append, hp]
    have := hits_pos D c h4
    omega

def digitsD : CharSet := Gen.cs_940665b9
def fracD : CharSet := Gen.cs_ec6bba2a ++ Gen.cs_a7428032

/-- every match of the lot pattern contains a decimal digit; every match of the aliquot pattern contains ½ or ¼ -/
theorem extract_patterns_mustHit :
    multilotWithAliquot.rx.mustHit digitsD = true ∧ aliquotUnpacker.rx.mustHit fracD = true
    ∧ hits digitsD ";;".toList = 0 ∧ hits fracD ";;".toList = 0 := by
  decide +kernel

theorem extractLots_fuel : ∀ (fuel : Nat) (remaining : Str) (acc : List (Str × Option Str)),
    fuel ≥ hits digitsD remaining + 1 → extractLots fuel remaining acc ≠ none := by
  intro fuel
  induction fuel with
  | zero => intro remaining acc h; omega
  | succ n ih =>
    intro remaining acc h
    rw [extractLots]
    cases hs : multilotWithAliquot.rx.search remaining with
    | none => simp
    | some mo =>
      simp only []
      apply ih
      have := search_patch_hits digitsD _ extract_patterns_mustHit.1 remaining ";;".toList
        extract_patterns_mustHit.2.2.1 mo hs
      omega

theorem extractAliquots_fuel : ∀ (fuel : Nat) (remaining : Str) (acc : List Str),
    fuel ≥ hits fracD remaining + 1 → extractAliquots fuel remaining acc ≠ none := by
  intro fuel
  induction fuel with
  | zero => intro remaining acc h; omega
  | succ n ih =>
    intro remaining acc h
    rw [extractAliquots]
    cases hs : aliquotUnpacker.rx.search remaining with
    | none => simp
    | some mo =>
      simp only []
      apply ih
      have := search_patch_hits fracD _ extract_patterns_mustHit.2.1 remaining ";;".toList
        extract_patterns_mustHit.2.2.2 mo hs
      omega

/-- the first extraction loop of `TractParser.parse` never runs out of the fuel the model gives it -/
theorem C03_extractLots_fuel (text : Str) : extractLots (text.length + 2) text [] ≠ none :=
  extractLots_fuel _ _ _ (by have := hits_le_length digitsD text; omega)

/-- … nor does the second -/
theorem C03_extractAliquots_fuel (rem1 : Str) : extractAliquots (rem1.length + 2) rem1 [] ≠ none :=
  extractAliquots_fuel _ _ _ (by have := hits_le_length fracD rem1; omega)

/-- so neither of the two extraction `diverged` exits of `tractParseRaw` is ever taken -/
theorem C03_extraction_total (text : Str) :
    ∃ rem1 lotBlocks, extractLots (text.length + 2) text [] = some (rem1, lotBlocks) ∧
      ∃ rem2 aliquotBlocks, extractAliquots (rem1.length + 2) rem1 [] = some (rem2, aliquotBlocks) := by
  cases h1 : extractLots (text.length + 2) text [] with
  | none => exact absurd h1 (C03_extractLots_fuel text)
  | some r1 =>
    obtain ⟨rem1, lotBlocks⟩ := r1
    refine ⟨rem1, lotBlocks, rfl, ?_⟩
    cases h2 : extractAliquots (rem1.length + 2) rem1 [] with
    | none => exact absurd h2 (C03_extractAliquots_fuel rem1)
    | some r2 => exact ⟨r2.1, r2.2, rfl⟩

example : extractLots ("Lots 1 - 3, N½".toList.length + 2) "Lots 1 - 3, N½".toList [] ≠ none := C03_extractLots_fuel _
example : extractAliquots ("N½, SE¼".toList.length + 2) "N½, SE¼".toList [] ≠ none := C03_extractAliquots_fuel _

end Extract

/-! ## Part 3b — `reduce_whitespace` -/

section Whitespace
open PyTRS.Plss

/-- every character a successful match consumes belongs to `D` -/
def Rx.onlyIn (D : CharSet) : Rx → Bool
  | .chr cs => cs.subset D
  | .seq a b | .alt a b => a.onlyIn D && b.onlyIn D
  | .rep r _ _ | .grp _ r => r.onlyIn D
  | .eps | .fail | .ahead _ | .nahead _ | .behind _ | .wordb _ | .eos | .bos => true

/-- `s'` is reached from `s` by consuming `c`, and if `b` then `c` consists of characters of `D` -/
def St.ExtAll (D : CharSet) (b : Bool) (s s' : St) : Prop :=
  ∃ c : List Char, s.rest = c ++ s'.rest ∧ s'.pos = s.pos + c.length ∧ (b = true → ∀ ch ∈ c, D.mem ch = true)

theorem St.ExtAll.refl (D : CharSet) (b : Bool) (s : St) : St.ExtAll D b s s :=
  ⟨[], by simp, by simp, by intro _ ch h; cases h⟩

theorem St.ExtAll.trans {D : CharSet} {h1 h2 : Bool} {a b c : St} (e1 : St.ExtAll D h1 a b) (e2 : St.ExtAll D h2 b c) :
    St.ExtAll D (h1 && h2) a c := by
  obtain ⟨x, hx1, hx2, hx3⟩ := e1
  obtain ⟨y, hy1, hy2, hy3⟩ := e2
  refine ⟨x ++ y, by rw [hx1, hy1, List.append_assoc], by rw [hy2, hx2, List.length_append]; omega, ?_⟩
  intro h ch hm
  rw [Bool.and_eq_true] at h
  rcases List.mem_append.mp hm with hm | hm
  · exact hx3 h.1 ch hm
  · exact hy3 h.2 ch hm

theorem St.ExtAll.weaken {D : CharSet} {h1 h2 : Bool} {a b : St} (e : St.ExtAll D h1 a b) (h : h2 = true → h1 = true) :
    St.ExtAll D h2 a b := by
  obtain ⟨x, hx1, hx2, hx3⟩ := e
  exact ⟨x, hx1, hx2, fun h' => hx3 (h h')⟩

theorem St.ExtAll.caps {D : CharSet} {h : Bool} {a b : St} (e : St.ExtAll D h a b) (cs : List (Nat × Nat × Nat)) :
    St.ExtAll D h a { b with caps := cs } := e

def ProgAll (D : CharSet) (b : Bool) {R : Type} (f : St → (St → Option R) → Option R) : Prop :=
  ∀ s k x, f s k = some x → ∃ s', St.ExtAll D b s s' ∧ k s' = some x

theorem repLoop_progAll {R : Type} (D : CharSet) (b : Bool) (body : St → (St → Option R) → Option R)
    (hb : ProgAll D b body) (lo : Nat) (hi : Option Nat) :
    ∀ (fuel count : Nat) (last : Option Nat), ProgAll D b (repLoop body lo hi fuel count last) := by
  intro fuel
  induction fuel with
  | zero => intro count last s k x h; simp [repLoop] at h
  | succ n ih =>
    intro count last s k x h
    rw [repLoop_succ] at h
    by_cases h1 : count < lo
    · simp only [h1, if_true] at h
      obtain ⟨s1, e1, hk1⟩ := hb s _ x h
      obtain ⟨s2, e2, hk2⟩ := ih _ _ s1 k x hk1
      exact ⟨s2, (e1.trans e2).weaken (by intro hh; simp [hh]), hk2⟩
    · simp only [h1, if_false] at h
      by_cases h2 : (canMore hi count && last != some s.pos) = true
      · simp only [h2, if_true] at h
        cases hb' : body s (fun s' => repLoop body lo hi n (count + 1) (some s.pos) s' k) with
        | some r =>
          rw [hb'] at h
          cases h
          obtain ⟨s1, e1, hk1⟩ := hb s _ _ hb'
          obtain ⟨s2, e2, hk2⟩ := ih _ _ s1 k _ hk1
          exact ⟨s2, (e1.trans e2).weaken (by intro hh; simp [hh]), hk2⟩
        | none =>
          rw [hb'] at h
          exact ⟨s, St.ExtAll.refl D b s, h⟩
      · simp only [h2] at h
        exact ⟨s, St.ExtAll.refl D b s, h⟩

/-- soundness of `onlyIn` -/
theorem Rx.m_progAll (D : CharSet) : ∀ (r : Rx) {R : Type}, ProgAll D (r.onlyIn D) (r.m (R := R)) := by
  intro r
  induction r with
  | eps => intro R s k x h; simp only [Rx.m] at h; exact ⟨s, St.ExtAll.refl D _ s, h⟩
  | fail => intro R s k x h; simp [Rx.m] at h
  | chr cs =>
    intro R s k x h
    simp only [Rx.m] at h
    split at h
    · rename_i c t hrest
      split at h
      · rename_i hmem
        refine ⟨{ prev := some c, rest := t, pos := s.pos + 1, caps := s.caps },
          ⟨[c], by simp [hrest], by simp, ?_⟩, h⟩
        intro hh ch hch
        simp only [Rx.onlyIn] at hh
        simp only [List.mem_singleton] at hch
        subst hch
        exact CharSet.mem_of_subset hh hmem
      · cases h
    · cases h
  | seq a b iha ihb =>
    intro R s k x h
    simp only [Rx.m] at h
    obtain ⟨s1, e1, h1⟩ := iha s _ x h
    obtain ⟨s2, e2, h2⟩ := ihb s1 k x h1
    exact ⟨s2, e1.trans e2, h2⟩
  | alt a b iha ihb =>
    intro R s k x h
    simp only [Rx.m] at h
    split at h
    · rename_i r hr
      cases h
      obtain ⟨s1, e1, h1⟩ := iha s k _ hr
      exact ⟨s1, e1.weaken (by simp only [Rx.onlyIn, Bool.and_eq_true]; exact fun hh => hh.1), h1⟩
    · obtain ⟨s1, e1, h1⟩ := ihb s k x h
      exact ⟨s1, e1.weaken (by simp only [Rx.onlyIn, Bool.and_eq_true]; exact fun hh => hh.2), h1⟩
  | rep r lo hi ih =>
    intro R s k x h
    simp only [Rx.m] at h
    exact repLoop_progAll D _ _ ih lo hi _ 0 none s k x h
  | grp i r ih =>
    intro R s k x h
    simp only [Rx.m] at h
    obtain ⟨s1, e1, h1⟩ := ih s _ x h
    exact ⟨_, e1.caps _, h1⟩
  | ahead r _ =>
    intro R s k x h
    simp only [Rx.m] at h
    split at h
    · exact ⟨_, (St.ExtAll.refl D _ s).caps _, h⟩
    · cases h
  | nahead r _ =>
    intro R s k x h
    simp only [Rx.m] at h
    split at h
    · cases h
    · exact ⟨s, St.ExtAll.refl D _ s, h⟩
  | behind cs =>
    intro R s k x h
    simp only [Rx.m] at h
    split at h
    · split at h
      · exact ⟨s, St.ExtAll.refl D _ s, h⟩
      · cases h
    · cases h
  | wordb w =>
    intro R s k x h
    simp only [Rx.m] at h
    split at h
    · exact ⟨s, St.ExtAll.refl D _ s, h⟩
    · cases h
  | eos =>
    intro R s k x h
    simp only [Rx.m] at h
    split at h
    · exact ⟨s, St.ExtAll.refl D _ s, h⟩
    · split at h
      · exact ⟨s, St.ExtAll.refl D _ s, h⟩
      · cases h
    · cases h
  | bos =>
    intro R s k x h
    simp only [Rx.m] at h
    split at h
    · exact ⟨s, St.ExtAll.refl D _ s, h⟩
    · cases h

/-- what the three structural predicates say about the text a match consumed -/
def SpanOK (r : Rx) (D D' : CharSet) (c : Str) : Prop :=
  r.minWidth ≤ c.length ∧ (r.mustHit D = true → ∃ ch ∈ c, D.mem ch = true)
    ∧ (r.onlyIn D' = true → ∀ ch ∈ c, D'.mem ch = true)

theorem prefix_eq_take {l c tail : List Char} (h : l = c ++ tail) : c = l.take c.length := by
  rw [h, List.take_left]

theorem matchHere_span (D D' : CharSet) (r : Rx) (s : St) (hs : s.caps = []) (adv : Bool) (m : Match)
    (h : matchHere r s adv = some m) :
    m.start = s.pos ∧ m.start ≤ m.stop ∧ m.stop ≤ s.pos + s.rest.length
      ∧ SpanOK r D D' (s.rest.take (m.stop - m.start)) := by
  have hb := matchHere_bounds r s adv m h
  have hw := matchHere_caps _ r r.wideGrps_none s adv m (by rw [hs]; exact CapsOK.nil _ _) h
  refine ⟨hb.1, hb.2.1, hb.2.2.1, ?_, ?_, ?_⟩
  · rw [List.length_take]; omega
  · intro hr
    obtain ⟨_, c, tail, h2, h3, h4⟩ := matchHere_hit D r hr s adv m h
    have : m.stop - m.start = c.length := by omega
    rw [this, ← prefix_eq_take h2]
    exact h4
  · intro hr
    unfold matchHere at h
    obtain ⟨s', ⟨c, hc1, hc2, hc3⟩, hk⟩ := Rx.m_progAll D' r s _ m h
    split at hk
    · cases hk
    · cases hk
      have : s'.pos - s.pos = c.length := by omega
      simp only []
      rw [this, ← prefix_eq_take hc1]
      exact hc3 hr

theorem scan_span (D D' : CharSet) (r : Rx) :
    ∀ (rest : List Char) (prev : Option Char) (pos : Nat) (adv : Bool) (m : Match),
    scan r prev rest pos adv = some m →
      pos ≤ m.start ∧ m.start ≤ m.stop ∧ m.stop ≤ pos + rest.length
        ∧ SpanOK r D D' ((rest.drop (m.start - pos)).take (m.stop - m.start)) := by
  intro rest
  induction rest with
  | nil =>
    intro prev pos adv m h
    rw [scan] at h
    split at h
    · rename_i m' hm
      cases h
      obtain ⟨h1, h2, h3, h4⟩ := matchHere_span D D' r _ rfl adv m hm
      simp only [] at h1 h3 h4
      refine ⟨by omega, h2, h3, ?_⟩
      have : m.start - pos = 0 := by omega
      rw [this, List.drop_zero]
      exact h4
    · cases h
  | cons a t ih =>
    intro prev pos adv m h
    rw [scan] at h
    split at h
    · rename_i m' hm
      cases h
      obtain ⟨h1, h2, h3, h4⟩ := matchHere_span D D' r _ rfl adv m hm
      simp only [] at h1 h3 h4
      refine ⟨by omega, h2, h3, ?_⟩
      have : m.start - pos = 0 := by omega
      rw [this, List.drop_zero]
      exact h4
    · obtain ⟨h1, h2, h3, h4⟩ := ih (some a) (pos + 1) false m h
      refine ⟨by omega, h2, by simp only [List.length_cons]; omega, ?_⟩
      have : m.start - pos = (m.start - (pos + 1)) + 1 := by omega
      rw [this, List.drop_succ_cons]
      exact h4

/-- the matches of a `finditer` over `text`, seen from position `i` on: in order, inside the text, not overlapping,
each span satisfying `P` -/
inductive Chain (text : Str) (P : Str → Prop) : Nat → List Match → Prop
  | nil (i : Nat) : Chain text P i []
  | cons (i : Nat) (m : Match) (ms : List Match) (h1 : i ≤ m.start) (h2 : m.start ≤ m.stop)
      (h3 : m.stop ≤ text.length) (hp : P (slice text m.start m.stop)) (hr : Chain text P m.stop ms) :
      Chain text P i (m :: ms)

theorem drop_take_eq_slice (text : Str) (pos a b : Nat) (h : pos ≤ a) :
    ((text.drop pos).drop (a - pos)).take (b - a) = slice text a b := by
  unfold slice
  rw [List.drop_drop, List.drop_take]
  have : pos + (a - pos) = a := by omega
  rw [this]

theorem finditerAux_chain (D D' : CharSet) (r : Rx) (text : Str) :
    ∀ (fuel : Nat) (prev : Option Char) (rest : List Char) (pos : Nat) (adv : Bool),
      rest = text.drop pos → pos ≤ text.length →
      Chain text (SpanOK r D D') pos (finditerAux r fuel prev rest pos adv) := by
  intro fuel
  induction fuel with
  | zero => intro prev rest pos adv _ _; exact Chain.nil _
  | succ n ih =>
    intro prev rest pos adv hrest hpos
    cases hs : scan r prev rest pos adv with
    | none => rw [finditerAux_none r n prev rest pos adv hs]; exact Chain.nil _
    | some m =>
      obtain ⟨p', hp'⟩ := finditerAux_some r n prev rest pos adv m hs
      rw [hp']
      obtain ⟨h1, h2, h3, h4⟩ := scan_span D D' r rest prev pos adv m hs
      have hlen : m.stop ≤ text.length := by
        rw [hrest, List.length_drop] at h3; omega
      refine Chain.cons pos m _ h1 h2 hlen ?_ ?_
      · rw [hrest, drop_take_eq_slice text pos m.start m.stop h1] at h4
        exact h4
      · apply ih
        · rw [hrest, List.drop_drop]
          congr 1
          omega
        · exact hlen

theorem finditer_chain (D D' : CharSet) (r : Rx) (text : Str) :
    Chain text (SpanOK r D D') 0 (r.finditer text) := by
  rw [finditer_default]
  exact finditerAux_chain D D' r text _ none text 0 false (by simp) (Nat.zero_le _)

/-- what `re.sub` returns from position `i` on, given the remaining matches -/
def subBody (text : Str) (f : Match → Str) : List Match → Nat → Str
  | [], i => text.drop i
  | m :: ms, i => slice text i m.start ++ f m ++ subBody text f ms m.stop

theorem subgo_eq (text : Str) (f : Match → Str) : ∀ (ms : List Match) (i : Nat) (acc : Str),
    Rx.subWith.go text f ms i acc = acc ++ subBody text f ms i := by
  intro ms
  induction ms with
  | nil => intro i acc; rfl
  | cons m ms ih =>
    intro i acc
    rw [Rx.subWith.go, ih, subBody]
    simp only [List.append_assoc]

theorem sub_eq_body (r : Rx) (repl text : Str) :
    r.sub repl text = subBody text (fun _ => repl) (r.finditer text) 0 := by
  unfold Rx.sub Rx.subWith
  simp only [subgo_eq, List.nil_append]

/-- length plus number of `D`-characters -/
def mu (D : CharSet) (t : Str) : Nat := t.length + hits D t

theorem mu_append (D : CharSet) (a b : Str) : mu D (a ++ b) = mu D a + mu D b := by
  unfold mu; rw [hits_append, List.length_append]; omega

theorem drop_eq_slice_append (t : Str) (i a : Nat) (h : i ≤ a) (ha : a ≤ t.length) :
    t.drop i = slice t i a ++ t.drop a := by
  have h1 : t.drop i = slice t i t.length := by unfold slice; rw [List.take_length]
  have h2 : t.drop a = slice t a t.length := by unfold slice; rw [List.take_length]
  rw [h1, h2, slice_append t i a t.length h ha]

/-- a transformation that never increases `μ` and, when it keeps `μ`, keeps the text -/
def ShrinksBy (μ : Str → Nat) (f : Str → Str) : Prop := ∀ t, μ (f t) ≤ μ t ∧ (μ (f t) = μ t → f t = t)

theorem ShrinksBy.comp {μ : Str → Nat} {f g : Str → Str} (hf : ShrinksBy μ f) (hg : ShrinksBy μ g) :
    ShrinksBy μ (fun t => g (f t)) := by
  intro t
  have h1 := hf t
  have h2 := hg (f t)
  show μ (g (f t)) ≤ μ t ∧ (μ (g (f t)) = μ t → g (f t) = t)
  refine ⟨by omega, ?_⟩
  intro h
  have e1 : f t = t := h1.2 (by omega)
  have e2 : g (f t) = f t := h2.2 (by omega)
  rw [e2, e1]

theorem untilStable_shrinksBy (μ : Str → Nat) (f : Str → Str) (hf : ShrinksBy μ f) :
    ∀ (fuel : Nat) (t : Str), fuel ≥ μ t + 1 → (Tract.untilStable f fuel t).isSome = true := by
  intro fuel
  induction fuel with
  | zero => intro t h; omega
  | succ n ih =>
    intro t h
    rw [Tract.untilStable]
    by_cases hc : (f t == t) = true
    · simp [hc]
    · simp only [hc]
      apply ih
      have := hf t
      have hne : f t ≠ t := by simpa using hc
      have : μ (f t) ≠ μ t := fun e => hne (this.2 e)
      omega

theorem subBody_mu (D : CharSet) (text repl : Str) (P : Str → Prop)
    (hP : ∀ c, P c → mu D repl ≤ mu D c ∧ (mu D repl = mu D c → repl = c)) :
    ∀ (ms : List Match) (i : Nat), Chain text P i ms →
      mu D (subBody text (fun _ => repl) ms i) ≤ mu D (text.drop i)
        ∧ (mu D (subBody text (fun _ => repl) ms i) = mu D (text.drop i) →
            subBody text (fun _ => repl) ms i = text.drop i) := by
  intro ms i h
  induction h with
  | nil i => exact ⟨Nat.le_refl _, fun _ => rfl⟩
  | cons i m ms h1 h2 h3 hp hr ih =>
    have e : text.drop i = slice text i m.start ++ (slice text m.start m.stop ++ text.drop m.stop) := by
      rw [drop_eq_slice_append text i m.start h1 (by omega),
        drop_eq_slice_append text m.start m.stop h2 h3]
    have hp' := hP _ hp
    rw [subBody, e]
    simp only [mu_append, List.append_assoc]
    refine ⟨by omega, ?_⟩
    intro heq
    have e1 : mu D repl = mu D (slice text m.start m.stop) := by omega
    have e2 : mu D (subBody text (fun _ => repl) ms m.stop) = mu D (text.drop m.stop) := by omega
    rw [ih.2 e2, hp'.2 e1]

/-- `re.sub(r, repl, ·)` does not increase `μ`, and keeps the text when it keeps `μ` — provided each single
replacement does -/
theorem sub_shrinksBy (D D' : CharSet) (r : Rx) (repl : Str)
    (hP : ∀ c, SpanOK r D D' c → mu D repl ≤ mu D c ∧ (mu D repl = mu D c → repl = c)) :
    ShrinksBy (mu D) (r.sub repl) := by
  intro text
  rw [sub_eq_body]
  have := subBody_mu D text repl _ hP _ 0 (finditer_chain D D' r text)
  simpa using this

/-- tab and carriage return: the characters `reduce_whitespace` turns into others of the same length -/
def wsD : CharSet := [(9, 9), (13, 13)]

theorem mem_single {n : Nat} {ch : Char} (h : CharSet.mem [(n, n)] ch = true) : ch = Char.ofNat n := by
  simp only [CharSet.mem, List.any_cons, List.any_nil, Bool.or_false, Bool.and_eq_true, decide_eq_true_eq] at h
  have : ch.toNat = n := by omega
  rw [← this, Char.ofNat_toNat]

theorem mu_ge_length (D : CharSet) (c : Str) : c.length ≤ mu D c := by unfold mu; omega

theorem ws0 : ShrinksBy (mu wsD) (Gen.inl_plss_preprocess_reduce_whitespace_0.sub (S " ")) := by
  apply sub_shrinksBy wsD Gen.cs_519b193f
  intro c ⟨hw, _, ha⟩
  have hw' : 1 ≤ c.length := hw
  have ha' := ha (by decide)
  have hr : mu wsD (S " ") = 1 := by decide
  have := mu_ge_length wsD c
  refine ⟨by omega, ?_⟩
  intro heq
  match c, hw', ha', heq with
  | [x], _, ha', _ =>
    have := mem_single (ha' x (by simp))
    rw [this]; rfl
  | x :: y :: t, _, _, heq =>
    have := mu_ge_length wsD (x :: y :: t)
    simp only [List.length_cons] at this
    omega

theorem ws_strict (r : Rx) (repl : Str) (hw : r.minWidth ≥ 1) (hh : r.mustHit wsD = true) (hr : mu wsD repl ≤ 1) :
    ShrinksBy (mu wsD) (r.sub repl) := by
  apply sub_shrinksBy wsD []
  intro c ⟨hw', hh', _⟩
  have := hits_pos wsD c (hh' hh)
  have hlt : mu wsD repl < mu wsD c := by unfold mu at hr ⊢; omega
  exact ⟨by omega, fun e => by omega⟩

theorem ws1 : ShrinksBy (mu wsD) (Gen.inl_plss_preprocess_reduce_whitespace_1.sub (S " ")) :=
  ws_strict _ _ (by decide) (by decide) (by decide)

theorem ws2 : ShrinksBy (mu wsD) (Gen.inl_plss_preprocess_reduce_whitespace_2.sub (S "\n")) :=
  ws_strict _ _ (by decide) (by decide) (by decide)

theorem ws3 : ShrinksBy (mu wsD) (Gen.inl_plss_preprocess_reduce_whitespace_3.sub (S "\n\n")) := by
  apply sub_shrinksBy wsD Gen.cs_4e017fa7
  intro c ⟨hw, _, ha⟩
  have hw' : 2 ≤ c.length := hw
  have ha' := ha (by decide)
  have hr : mu wsD (S "\n\n") = 2 := by decide
  have := mu_ge_length wsD c
  refine ⟨by omega, ?_⟩
  intro heq
  match c, hw', ha', heq with
  | [x, y], _, ha', _ =>
    have hx := mem_single (ha' x (by simp))
    have hy := mem_single (ha' y (by simp))
    rw [hx, hy]; rfl
  | x :: y :: z :: t, _, _, heq =>
    have := mu_ge_length wsD (x :: y :: z :: t)
    simp only [List.length_cons] at this
    omega

theorem ws4 : ShrinksBy (mu wsD) (Gen.inl_plss_preprocess_reduce_whitespace_4.sub []) := by
  apply sub_shrinksBy wsD []
  intro c ⟨hw, _, _⟩
  have hw' : 1 ≤ c.length := hw
  have hr : mu wsD [] = 0 := by decide
  have := mu_ge_length wsD c
  exact ⟨by omega, fun e => by omega⟩

theorem reduceWhitespaceStep_shrinks : ShrinksBy (mu wsD) reduceWhitespaceStep := by
  have h := ShrinksBy.comp (ShrinksBy.comp (ShrinksBy.comp (ShrinksBy.comp ws0 ws1) ws2) ws3) ws4
  intro t
  unfold reduceWhitespaceStep
  exact h t

/-- `reduce_whitespace`: every pass that changes the text shortens it or turns a tab / carriage return into a space /
line feed, so the loop reaches its fixed point within `2·|t| + 1` passes — the model's `2·|t| + 8` are enough -/
theorem C03_reduceWhitespace_fuel (t : Str) : (Plss.reduceWhitespace t).isSome = true := by
  unfold reduceWhitespace
  apply untilStable_shrinksBy _ _ reduceWhitespaceStep_shrinks
  have := hits_le_length wsD (pyStrip t)
  unfold mu
  omega

example : (Plss.reduceWhitespace "  T154N-R97W \t\t Sec 14:\r\n\n\n  NE/4  ".toList).isSome = true :=
  C03_reduceWhitespace_fuel _

end Whitespace

/-! ### sanity: with too little fuel the loops DO run dry, so the theorems are about the fuel actually supplied -/

example : (Unpack.secLoop "Sections 1 - 3, 5".toList 2 17 {}).2 = true := by decide +kernel
example : (Unpack.secLoop "Sections 1 - 3, 5".toList 4 17 {}).2 = false := by decide +kernel
example : Tract.extractAliquots 2 "N½, SE¼".toList [] = none := by decide +kernel
example : (Tract.extractAliquots 3 "N½, SE¼".toList []).isSome = true := by decide +kernel
example : (Tract.untilStable Plss.reduceWhitespaceStep 1 " \t a".toList).isSome = false := by decide +kernel

#print axioms C03_unpackSections_fuel
#print axioms C03_unpackLots_fuel
#print axioms C03_genFlagsChunk_fuel
#print axioms C03_genFlagsChunk_guard_dead
#print axioms C03_cleanupDesc_fuel
#print axioms C03_reduceWhitespace_fuel
#print axioms C03_extractLots_fuel
#print axioms C03_extractAliquots_fuel
#print axioms C03_extraction_total

end PyTRS
