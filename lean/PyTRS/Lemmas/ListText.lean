/-
C05 — the lexical premise `LexList` DISCHARGED for section / lot lists of EVERY length: the canonical rendering
"Sections 1 - 3, 5, 9 - 7" / "Lots 1 - 3, 5, 9 - 7" of every non-empty item list (and every mixture of the supported
separators) expands to exactly the numbers it denotes.

Route A of the task: `LexList (secView txt) …` / `LexList (lotView txt) …` are established by induction over the token list
(right to left over the search windows, left to right inside the greedy `(intervener+ number)*` loop of the pattern), and fed
to `C05_sections_expand` / `C05_lots_expand` (Lemmas/Elided.lean, Props/C05Lists.lean).

* Part A — more rules for the first-path calculus of Lemmas/CanonTwprge (`Leads` / `Eats`): `IterChain` and `Leads.iter` (a greedy
  loop `(r){lo,}` with an ARBITRARY body follows a chain of first-path iterations), `Eats.nahead_chr`, literal words (`eats_lit`),
  failing rules (`FailsOn.chr_seq`, `FailsOn.run_short`), `Leads.seq_skip`, `segChain` (a loop over a list of segments).
* Part B — the regenerated patterns decomposed BY POSITION (`Rx.pick`; no generated character-set name occurs; every class fact
  is decided by evaluation): the intervener `\s*([/.,;:]|through|and|&)\s*(?!\s)` shared by `multisec_regex` / `multilot_regex`
  on each of the words `, ; - through thru to and &` (`IvWord`), `(intervener)+` on a run of words (`eats_ivRx`).
  A separator (`Sep`) is: an optional blank, a run of such words each followed by one blank, and optionally the REPEATED KEYWORD
  "Section(s) " / "Lot(s) " (`Kw`).
* Part C/D — sections: one iteration of the repeated group (`eatsT_secBody`), the whole loop (`secChain`), the head, the whole
  pattern (`sec_match_single/multi`), what `secLoop` observes in every search window (`sec_view_first/more`), `C05_seclist_lexlist`.
* Part E — the same for lots (`multilot_regex`: the blanks after a number belong to the number, "Lot" needs backtracking).
* Part F/G — the WHOLE results (`unpackSections_full`, `unpackLots_full`): list, flags, flag lines, acreages, no divergence.

Main theorems (all `C05_…`): token level `C05_seclist_lexlist`, `C05_seclist_tokens_expand`, `C05_lotlist_lexlist`,
`C05_lotlist_tokens_expand`; styled lists (any mixture of separators, keyword singular or plural, keyword repeated or not)
`C05_styled_sections_expand/_full/_lexlist/_warning_iff`, `C05_styled_lots_expand/_full/_warning_iff`; uniform styles
`C05_uniform_sections_full`, `C05_uniform_lots_full`; canonical lists `C05_canonical_sections_expand/_full/_warning_iff`,
`C05_canonical_lots_expand/_full/_warning_iff`.
-/
import PyTRS.Lemmas.CanonTwprge
import PyTRS.Lemmas.DigitShape
set_option linter.unusedSimpArgs false
set_option linter.unusedVariables false
namespace PyTRS
open PyTRS.Unpack

/-! ## Part A — more rules for the first-path calculus (`Leads` / `Eats` of Lemmas/CanonTwprge) -/

/-- successive iterations of a loop body along first paths, each consuming something, up to a state from which the
    body has no path at all -/
inductive IterChain (r : Rx) : St → St → Nat → Prop
  | stop (s : St) (h : Fails r s) : IterChain r s s 0
  | step {s s1 s2 : St} {n : Nat} (h1 : Leads r s s1) (hp : s.pos < s1.pos) (hr : s1.rest.length < s.rest.length)
      (h2 : IterChain r s1 s2 n) : IterChain r s s2 (n + 1)

theorem IterChain.len_le {r : Rx} {s s' : St} {n : Nat} (h : IterChain r s s' n) : n ≤ s.rest.length := by
  induction h with
  | stop s h => exact Nat.zero_le _
  | step h1 hp hr h2 ih => omega

theorem repAll_chain (r : Rx) (lo : Nat) {s s' : St} {n : Nat} (h : IterChain r s s' n) :
    ∀ (fuel count : Nat) (last : Option Nat), n < fuel → lo ≤ count + n → (∀ l, last = some l → l < s.pos) →
      (repAll r.all lo none fuel count last s).head? = some s' := by
  induction h with
  | stop s hf =>
    intro fuel count last hfuel hlo hlast
    obtain ⟨f, rfl⟩ : ∃ f, fuel = f + 1 := ⟨fuel - 1, by omega⟩
    have h1 : ¬ count < lo := by omega
    unfold Fails at hf
    rw [repAll]
    simp only [h1, if_false, hf, List.flatMap_nil, List.nil_append]
    split <;> rfl
  | @step s s1 s2 n h1 hp hr h2 ih =>
    intro fuel count last hfuel hlo hlast
    obtain ⟨f, rfl⟩ : ∃ f, fuel = f + 1 := ⟨fuel - 1, by omega⟩
    obtain ⟨tl, htl⟩ := h1.cons
    rw [repAll]
    by_cases hc : count < lo
    · simp only [hc, if_true, htl, List.flatMap_cons, List.head?_append]
      rw [ih f (count + 1) last (by omega) (by omega) (fun l hl => by have := hlast l hl; omega)]
      rfl
    · have hl : (last != some s.pos) = true := by
        cases last with
        | none => rfl
        | some l => have := hlast l rfl; simp only [bne_iff_ne, ne_eq, Option.some.injEq]; omega
      simp only [hc, if_false, canMore, hl, Bool.and_self, if_true, htl, List.flatMap_cons, List.head?_append]
      rw [ih f (count + 1) (some s.pos) (by omega) (by omega) (fun l hl => by cases hl; exact hp)]
      rfl

/-- the greedy loop `(r){lo,}` follows a chain of first-path iterations to its end -/
theorem Leads.iter {r : Rx} {lo : Nat} {s s' : St} {n : Nat} (h : IterChain r s s' n) (hlo : lo ≤ n) :
    Leads (.rep r lo none) s s' := by
  unfold Leads
  simp only [Rx.all]
  exact repAll_chain r lo h _ 0 none (by have := h.len_le; omega) (by omega) (fun l hl => by cases hl)

/-- `(r)+` with exactly one iteration -/
theorem Eats.plus1 {r : Rx} {seg tail : List Char} {f : Nat → Caps → Caps} (h : Eats r seg tail f) (hne : seg ≠ [])
    (hf : FailsOn r tail) : Eats (.rep r 1 none) seg tail f := by
  intro prev pos caps
  have hl : 0 < seg.length := List.length_pos_iff.2 hne
  refine Leads.iter (n := 1) (.step (h prev pos caps) ?_ ?_ (.stop _ (hf _ _ _))) (Nat.le_refl _)
  · show pos < pos + seg.length
    omega
  · show tail.length < (seg ++ tail).length
    rw [List.length_append]; omega

/-- `(r)+` with exactly two iterations -/
theorem Eats.plus2 {r : Rx} {seg1 seg2 tail : List Char} {f1 f2 : Nat → Caps → Caps} (h1 : Eats r seg1 (seg2 ++ tail) f1)
    (h2 : Eats r seg2 tail f2) (hne1 : seg1 ≠ []) (hne2 : seg2 ≠ []) (hf : FailsOn r tail) :
    Eats (.rep r 1 none) (seg1 ++ seg2) tail (fun pos caps => f2 (pos + seg1.length) (f1 pos caps)) := by
  intro prev pos caps
  have hl1 : 0 < seg1.length := List.length_pos_iff.2 hne1
  have hl2 : 0 < seg2.length := List.length_pos_iff.2 hne2
  have e1 := h1 prev pos caps
  have e2 := h2 (lastOr prev seg1) (pos + seg1.length) (f1 pos caps)
  have := Leads.iter (lo := 1) (n := 2) (.step e1 (by show pos < pos + seg1.length; omega)
    (by show (seg2 ++ tail).length < (seg1 ++ (seg2 ++ tail)).length; simp only [List.length_append]; omega)
    (.step e2 (by show pos + seg1.length < pos + seg1.length + seg2.length; omega)
      (by show tail.length < (seg2 ++ tail).length; simp only [List.length_append]; omega) (.stop _ (hf _ _ _)))) (by omega)
  rw [List.append_assoc, lastOr_append, List.length_append, ← Nat.add_assoc]
  exact this

/-- `(?!c)` where the next character (if any) is not in the class -/
theorem Eats.nahead_chr (cs : CharSet) (tail : List Char) (h : StopAt cs tail) :
    Eats (.nahead (.chr cs)) [] tail (fun _ caps => caps) := by
  intro prev pos caps
  unfold Leads
  have := Fails.chr cs ⟨prev, tail, pos, caps⟩ h
  unfold Fails at this
  simp only [Rx.all] at this ⊢
  simp [this, lastOr]

/-- a literal word: one class per character -/
def litRx : List CharSet → Rx
  | [] => .eps
  | [c] => .chr c
  | c :: cs => .seq (.chr c) (litRx cs)

def litFits : List CharSet → List Char → Bool
  | [], [] => true
  | cs :: r, c :: t => cs.mem c && litFits r t
  | _, _ => false

theorem eats_lit : ∀ (css : List CharSet) (w tail : List Char), litFits css w = true →
    Eats (litRx css) w tail (fun _ caps => caps)
  | [], [], tail, _ => Eats.eps tail
  | [cs], [c], tail, h => by
    simp only [litFits, Bool.and_true] at h
    exact Eats.chr cs c tail h
  | cs :: cs_0f512a0d :: r, c :: t, tail, h => by
    simp only [litFits, Bool.and_eq_true] at h
    have h1 := Eats.chr cs c (t ++ tail) h.1
    have h2 := eats_lit (cs_0f512a0d :: r) t tail h.2
    exact (Eats.seq h1 h2).cast rfl (fun _ _ => rfl)
  | [], _ :: _, _, h => by simp [litFits] at h
  | _ :: _, [], _, h => by simp [litFits] at h
  | [cs], c :: d :: t, _, h => by simp [litFits] at h

/-- a sequence starting with a single class fails if what follows that class fails -/
theorem FailsOn.chr_seq (cs : CharSet) (c : Char) (t : List Char) (b : Rx) (hb : FailsOn b t) :
    FailsOn (.seq (.chr cs) b) (c :: t) := by
  intro prev pos caps
  apply Fails.seq_all
  intro s1 hs1
  simp only [Rx.all] at hs1
  by_cases hc : cs.mem c = true
  · simp only [hc, if_true, List.mem_singleton] at hs1
    subst hs1
    exact hb _ _ _
  · simp [hc] at hs1

theorem repAll_chr_short (cs : CharSet) (lo : Nat) (hi : Option Nat) :
    ∀ (run tail : List Char) (fuel count : Nat) (last : Option Nat) (prev : Option Char) (pos : Nat) (caps : Caps),
      (∀ c ∈ run, cs.mem c = true) → StopAt cs tail → count + run.length < lo →
      repAll (Rx.chr cs).all lo hi fuel count last ⟨prev, run ++ tail, pos, caps⟩ = [] := by
  intro run
  induction run with
  | nil =>
    intro tail fuel count last prev pos caps _ hstop hlt
    cases fuel with
    | zero => rfl
    | succ f =>
      have h1 : count < lo := by simp only [List.length_nil, Nat.add_zero] at hlt; exact hlt
      have hb : (Rx.chr cs).all ⟨prev, tail, pos, caps⟩ = [] := Fails.chr cs _ hstop
      rw [repAll]
      simp only [h1, if_true, List.nil_append, hb, List.flatMap_nil]
  | cons c run ih =>
    intro tail fuel count last prev pos caps hall hstop hlt
    cases fuel with
    | zero => rfl
    | succ f =>
      have h1 : count < lo := by simp only [List.length_cons] at hlt; omega
      have hc : cs.mem c = true := hall c (by simp)
      have hb : (Rx.chr cs).all ⟨prev, (c :: run) ++ tail, pos, caps⟩ = [⟨some c, run ++ tail, pos + 1, caps⟩] := by
        simp [Rx.all, hc]
      rw [repAll]
      simp only [h1, if_true, hb, List.flatMap_cons, List.flatMap_nil, List.append_nil]
      exact ih tail f (count + 1) last (some c) (pos + 1) caps (fun x hx => hall x (by simp [hx])) hstop
        (by simp only [List.length_cons] at hlt; omega)

/-- `[class]{lo,..}` fails on a maximal run that is too short -/
theorem FailsOn.run_short (cs : CharSet) (lo : Nat) (hi : Option Nat) (run tail : List Char)
    (hall : ∀ c ∈ run, cs.mem c = true) (hstop : StopAt cs tail) (hlt : run.length < lo) :
    FailsOn (.rep (.chr cs) lo hi) (run ++ tail) := by
  intro prev pos caps
  unfold Fails
  simp only [Rx.all]
  exact repAll_chr_short cs lo hi run tail _ 0 none prev pos caps hall hstop (by omega)

/-! ## Part B — the shared intervener sub-pattern and the regenerated `multisec_regex`, decomposed by position
(no character set is mentioned by its generated name: they are picked out of the regenerated terms, and every fact about them is
decided by evaluation) -/

/-- follow a path into a pattern: `0` = left operand / body, anything else = right operand -/
def Rx.pick : Rx → List Nat → Rx
  | r, [] => r
  | .seq a _, 0 :: p => a.pick p
  | .seq _ b, _ :: p => b.pick p
  | .alt a _, 0 :: p => a.pick p
  | .alt _ b, _ :: p => b.pick p
  | .grp _ r, _ :: p => r.pick p
  | .rep r _ _, _ :: p => r.pick p
  | .nahead r, _ :: p => r.pick p
  | .ahead r, _ :: p => r.pick p
  | _, _ :: _ => .fail

def Rx.set : Rx → CharSet
  | .chr c => c
  | _ => []

/-- `through_regex` without its group: `[\-–—]|th[rough]{3,6}(?:\.|(?!\.))|thru(?:\.|(?!\.))|to` -/
def thruB : Rx := Gen.through_regex.pick [0]
def dashS : CharSet := (thruB.pick [0]).set
def tS : CharSet := (thruB.pick [1, 0, 0]).set
def hS : CharSet := (thruB.pick [1, 0, 1, 0]).set
def roughS : CharSet := (thruB.pick [1, 0, 1, 1, 0, 0]).set
def dotS : CharSet := (thruB.pick [1, 0, 1, 1, 1, 0]).set
def rS : CharSet := (thruB.pick [1, 1, 0, 1, 1, 0]).set
def uS : CharSet := (thruB.pick [1, 1, 0, 1, 1, 1, 0]).set
def oS : CharSet := (thruB.pick [1, 1, 1, 1]).set

/-- `(?:\.|(?!\.))` -/
def dotAlt : Rx := .alt (.chr dotS) (.nahead (.chr dotS))
def th1 : Rx := .seq (.chr tS) (.seq (.chr hS) (.seq (.rep (.chr roughS) 3 (some 6)) dotAlt))
def th2 : Rx := .seq (.chr tS) (.seq (.chr hS) (.seq (.chr rS) (.seq (.chr uS) dotAlt)))
def thTo : Rx := .seq (.chr tS) (.chr oS)

theorem thruB_eq : thruB = .alt (.chr dashS) (.alt th1 (.alt th2 thTo)) := rfl
theorem through_regex_eq : Gen.through_regex = .grp 1 thruB := rfl

/-- the body of `multisec_regex`'s repeated group, and its intervener -/
def secB : Rx := Gen.multisec_regex.pick [1, 0, 0, 0]
def secI : Rx := secB.pick [0, 0, 0, 0]
def wsS : CharSet := (secI.pick [0, 0]).set
def punctS : CharSet := (secI.pick [1, 0, 0, 0, 0]).set
/-- `and|&` -/
def andB : Rx := secI.pick [1, 0, 0, 1, 1, 0]
def aS : CharSet := (andB.pick [0, 0]).set
def nS : CharSet := (andB.pick [0, 1, 0]).set
def dS : CharSet := (andB.pick [0, 1, 1]).set
def ampS : CharSet := (andB.pick [1]).set

theorem andB_eq : andB = .alt (.seq (.chr aS) (.seq (.chr nS) (.chr dS))) (.chr ampS) := rfl

def wsStar : Rx := .rep (.chr wsS) 0 none

/-- the alternatives of one intervener, groups numbered from `g` -/
def ivG (g : Nat) : Rx :=
  .grp g (.alt (.grp (g + 1) (.chr punctS)) (.alt (.grp (g + 2) (.grp (g + 3) thruB)) (.grp (g + 4) andB)))

/-- `\s*( [/.,;:] | through | and )\s*(?!\s)` -/
def ivI (g : Nat) : Rx := .seq wsStar (.seq (ivG g) (.seq wsStar (.nahead (.chr wsS))))

/-- `(intervener)+` -/
def ivRx (g7 g8 g9 : Nat) : Rx := .rep (.grp g7 (.grp g8 (ivI g9))) 1 none

def digitS : CharSet := (Gen.multisec_regex.pick [0, 0, 0, 1, 1, 1, 1, 0, 0]).set
def numRx (g : Nat) : Rx := .grp g (.rep (.chr digitS) 1 (some 3))

/-- the word "Section" (first alternative) and the other alternatives -/
def secKw : Rx := Gen.multisec_regex.pick [0, 0, 0, 0, 0, 0]
def secKwRest : Rx := Gen.multisec_regex.pick [0, 0, 0, 0, 0, 1]
def sS : CharSet := (Gen.multisec_regex.pick [0, 0, 0, 1, 0, 0, 0]).set
def d1S : CharSet := (Gen.multisec_regex.pick [0, 0, 0, 1, 1, 0, 0]).set
def d2S : CharSet := (Gen.multisec_regex.pick [0, 0, 0, 1, 1, 1, 0, 0]).set
def colonS : CharSet := (Gen.multisec_regex.pick [1, 1, 0, 0, 1]).set
/-- the optional repeated word "Section(s)" before a number on the right -/
def secOW : Rx := secB.pick [1, 0]

def secHead : Rx :=
  .grp 1 (.grp 2 (.seq (.grp 3 (.alt secKw secKwRest)) (.seq (.rep (.grp 4 (.chr sS)) 0 (some 1))
    (.seq (.rep (.chr d1S) 0 (some 1)) (.seq (.rep (.chr d2S) 0 none) (numRx 5))))))
def secBody : Rx := .seq (ivRx 7 8 9) (.seq secOW (.seq wsStar (numRx 17)))
def secColon : Rx := .rep (.grp 18 (.seq wsStar (.chr colonS))) 0 (some 1)

theorem multisec_decomp : Gen.multisec_regex = .seq secHead (.seq (.rep (.grp 6 secBody) 0 none) secColon) := rfl

theorem secKw_eq : secKw = litRx secKw.chrSets := rfl

/-! ### `EatsJ`: `Eats` where the captures added are not tracked (they end up BELOW the ones that are read) -/

def EatsJ (r : Rx) (seg tail : List Char) : Prop := ∃ J : Nat → Caps, Eats r seg tail (fun pos caps => J pos ++ caps)

theorem EatsJ.of_id {r : Rx} {seg tail : List Char} (h : Eats r seg tail (fun _ caps => caps)) : EatsJ r seg tail :=
  ⟨fun _ => [], h.cast rfl (fun _ _ => rfl)⟩

theorem EatsJ.seq {a b : Rx} {s1 s2 tail : List Char} (h1 : EatsJ a s1 (s2 ++ tail)) (h2 : EatsJ b s2 tail) :
    EatsJ (.seq a b) (s1 ++ s2) tail := by
  obtain ⟨J1, h1⟩ := h1
  obtain ⟨J2, h2⟩ := h2
  exact ⟨fun pos => J2 (pos + s1.length) ++ J1 pos, (Eats.seq h1 h2).cast rfl (fun _ _ => by simp)⟩

theorem EatsJ.seq' {a b : Rx} {s1 s2 T tail : List Char} (h1 : EatsJ a s1 T) (h2 : EatsJ b s2 tail) (hT : T = s2 ++ tail) :
    EatsJ (.seq a b) (s1 ++ s2) tail := by
  subst hT; exact EatsJ.seq h1 h2

theorem EatsJ.grp {r : Rx} {seg tail : List Char} (i : Nat) (h : EatsJ r seg tail) : EatsJ (.grp i r) seg tail := by
  obtain ⟨J, h⟩ := h
  exact ⟨fun pos => (i, pos, pos + seg.length) :: J pos, (Eats.grp i h).cast rfl (fun _ _ => rfl)⟩

theorem EatsJ.alt_l {a b : Rx} {seg tail : List Char} (h : EatsJ a seg tail) : EatsJ (.alt a b) seg tail := by
  obtain ⟨J, h⟩ := h
  exact ⟨J, Eats.alt_l h⟩

theorem EatsJ.alt_r {a b : Rx} {seg tail : List Char} (hf : FailsOn a (seg ++ tail)) (h : EatsJ b seg tail) :
    EatsJ (.alt a b) seg tail := by
  obtain ⟨J, h⟩ := h
  exact ⟨J, Eats.alt_r hf h⟩

theorem EatsJ.cast {r : Rx} {seg seg' tail : List Char} (h : EatsJ r seg tail) (hs : seg = seg') : EatsJ r seg' tail := hs ▸ h

theorem EatsJ.chr (cs : CharSet) (c : Char) (tail : List Char) (hc : cs.mem c = true) : EatsJ (.chr cs) [c] tail :=
  EatsJ.of_id (Eats.chr cs c tail hc)

/-! ### the words an intervener can consist of -/

inductive IvWord where
  | comma | semi | dash | through | thru | to | and | amp
  deriving DecidableEq, Repr

def IvWord.text : IvWord → Str
  | .comma => [',']
  | .semi => [';']
  | .dash => ['-']
  | .through => ['t', 'h', 'r', 'o', 'u', 'g', 'h']
  | .thru => ['t', 'h', 'r', 'u']
  | .to => ['t', 'o']
  | .and => ['a', 'n', 'd']
  | .amp => ['&']

/-- is it a through-connective -/
def IvWord.isThru : IvWord → Bool
  | .dash | .through | .thru | .to => true
  | _ => false

theorem thruB_first_facts : thruB.nullable = false ∧
    thruB.firstSets.all (fun cs => !cs.mem 'a' && !cs.mem '&') = true := by decide +kernel

theorem eatsJ_dotAlt (t : Str) : EatsJ dotAlt [] (' ' :: t) :=
  EatsJ.of_id (Eats.alt_r (FailsOn.chr _ _ (StopAt.cons (by decide +kernel)))
    (Eats.nahead_chr dotS _ (StopAt.cons (by decide +kernel))))

/-- the through-alternatives on each through-word followed by a blank -/
theorem eatsJ_thruB (w : IvWord) (hw : w.isThru = true) (t : Str) : EatsJ thruB w.text (' ' :: t) := by
  rw [thruB_eq]
  cases w with
  | dash => exact EatsJ.alt_l (EatsJ.chr dashS '-' _ (by decide +kernel))
  | through =>
    refine EatsJ.alt_r (FailsOn.chr _ _ (StopAt.cons (by decide +kernel))) (EatsJ.alt_l ?_)
    have hrun := EatsJ.of_id (Eats.run roughS 3 (some 6) ['r', 'o', 'u', 'g', 'h'] (' ' :: t)
      (by intro c hc; simp only [List.mem_cons, List.not_mem_nil, or_false] at hc
          rcases hc with rfl | rfl | rfl | rfl | rfl <;> decide +kernel)
      (Or.inr (StopAt.cons (by decide +kernel))) (by decide) (fun h hh => by cases hh; decide))
    exact (EatsJ.seq (EatsJ.chr tS 't' _ (by decide +kernel)) (EatsJ.seq (EatsJ.chr hS 'h' _ (by decide +kernel))
      (EatsJ.seq hrun (eatsJ_dotAlt t)))).cast rfl
  | thru =>
    refine EatsJ.alt_r (FailsOn.chr _ _ (StopAt.cons (by decide +kernel))) (EatsJ.alt_r ?_ (EatsJ.alt_l ?_))
    · -- `th[rough]{3,6}`: only "ru" is available
      refine FailsOn.chr_seq _ _ _ _ (FailsOn.chr_seq _ _ _ _ (FailsOn.seq_l ?_))
      exact FailsOn.run_short roughS 3 (some 6) ['r', 'u'] (' ' :: t)
        (by intro c hc; simp only [List.mem_cons, List.not_mem_nil, or_false] at hc
            rcases hc with rfl | rfl <;> decide +kernel)
        (StopAt.cons (by decide +kernel)) (by decide)
    · exact (EatsJ.seq (EatsJ.chr tS 't' _ (by decide +kernel)) (EatsJ.seq (EatsJ.chr hS 'h' _ (by decide +kernel))
        (EatsJ.seq (EatsJ.chr rS 'r' _ (by decide +kernel)) (EatsJ.seq (EatsJ.chr uS 'u' _ (by decide +kernel))
          (eatsJ_dotAlt t))))).cast rfl
  | to =>
    refine EatsJ.alt_r (FailsOn.chr _ _ (StopAt.cons (by decide +kernel))) (EatsJ.alt_r ?_ (EatsJ.alt_r ?_ ?_))
    · exact FailsOn.chr_seq _ _ _ _ (FailsOn.seq_l (FailsOn.chr _ _ (StopAt.cons (by decide +kernel))))
    · exact FailsOn.chr_seq _ _ _ _ (FailsOn.seq_l (FailsOn.chr _ _ (StopAt.cons (by decide +kernel))))
    · exact (EatsJ.seq (EatsJ.chr tS 't' _ (by decide +kernel)) (EatsJ.chr oS 'o' _ (by decide +kernel))).cast rfl
  | comma => cases hw
  | semi => cases hw
  | and => cases hw
  | amp => cases hw

/-- `and|&` -/
theorem eatsJ_andB (w : IvWord) (hw : w = .and ∨ w = .amp) (t : Str) : EatsJ andB w.text t := by
  rw [andB_eq]
  rcases hw with rfl | rfl
  · exact EatsJ.alt_l ((EatsJ.seq (EatsJ.chr aS 'a' _ (by decide +kernel)) (EatsJ.seq (EatsJ.chr nS 'n' _ (by decide +kernel))
      (EatsJ.chr dS 'd' _ (by decide +kernel)))).cast rfl)
  · exact EatsJ.alt_r (FailsOn.seq_l (FailsOn.chr _ _ (StopAt.cons (by decide +kernel))))
      (EatsJ.chr ampS '&' _ (by decide +kernel))

/-- the alternatives of an intervener on each word followed by a blank -/
theorem eatsJ_ivG (g : Nat) (w : IvWord) (t : Str) : EatsJ (ivG g) w.text (' ' :: t) := by
  unfold ivG
  by_cases hp : w = .comma ∨ w = .semi
  · refine EatsJ.grp g (EatsJ.alt_l (EatsJ.grp _ ?_))
    rcases hp with rfl | rfl
    · exact EatsJ.chr punctS ',' _ (by decide +kernel)
    · exact EatsJ.chr punctS ';' _ (by decide +kernel)
  · have hnp : FailsOn (.grp (g + 1) (.chr punctS)) (w.text ++ ' ' :: t) := by
      refine FailsOn.grp _ (FailsOn.chr _ _ ?_)
      cases w <;> first | exact absurd (Or.inl rfl) hp | exact absurd (Or.inr rfl) hp | exact StopAt.cons (by decide +kernel)
    refine EatsJ.grp g (EatsJ.alt_r hnp ?_)
    by_cases ht : w.isThru = true
    · exact EatsJ.alt_l (EatsJ.grp _ (EatsJ.grp _ (eatsJ_thruB w ht t)))
    · have ha : w = .and ∨ w = .amp := by
        cases w <;> simp_all [IvWord.isThru]
      refine EatsJ.alt_r (FailsOn.grp _ (FailsOn.grp _ (FailsOn.of_first thruB_first_facts.1 ?_))) (EatsJ.grp _ (eatsJ_andB w ha _))
      intro c hc cs hcs
      have := List.all_eq_true.1 thruB_first_facts.2 cs hcs
      simp only [Bool.and_eq_true, Bool.not_eq_true'] at this
      rcases ha with rfl | rfl
      · simp only [IvWord.text, List.cons_append, List.head?_cons, Option.some.injEq] at hc; subst hc; exact this.1
      · simp only [IvWord.text, List.cons_append, List.head?_cons, Option.some.injEq] at hc; subst hc; exact this.2

/-! ### one intervener, then `(intervener)+` over a list of words -/

def leadStr (lead : Bool) : Str := if lead then [' '] else []

theorem leadStr_ws (lead : Bool) : ∀ c ∈ leadStr lead, wsS.mem c = true := by
  intro c hc
  cases lead
  · cases hc
  · simp only [leadStr, if_true, List.mem_singleton] at hc; subst hc; decide +kernel

theorem IvWord.head_not_ws (w : IvWord) (t : Str) : StopAt wsS (w.text ++ t) := by
  cases w <;> exact StopAt.cons (by decide +kernel)

theorem IvWord.text_ne (w : IvWord) : w.text ≠ [] := by cases w <;> simp [IvWord.text]

/-- one intervener: optional leading blank, the word, one blank; what follows is not white space -/
theorem eatsJ_ivI (g : Nat) (lead : Bool) (w : IvWord) (tail : Str) (htail : StopAt wsS tail) :
    EatsJ (ivI g) (leadStr lead ++ w.text ++ [' ']) tail := by
  have h4 : EatsJ (.nahead (.chr wsS)) [] tail := EatsJ.of_id (Eats.nahead_chr wsS tail htail)
  have h3 : EatsJ wsStar [' '] ([] ++ tail) := EatsJ.of_id (eats_dead wsS [' '] ([] ++ tail)
    (by intro c hc; simp only [List.mem_singleton] at hc; subst hc; decide +kernel) htail)
  have h34 := EatsJ.seq h3 h4
  have h2 : EatsJ (ivG g) w.text (([' '] ++ []) ++ tail) := eatsJ_ivG g w tail
  have h234 := EatsJ.seq h2 h34
  have h1 : EatsJ wsStar (leadStr lead) ((w.text ++ ([' '] ++ [])) ++ tail) :=
    EatsJ.of_id (eats_dead wsS (leadStr lead) _ (leadStr_ws lead) (by rw [List.append_assoc]; exact w.head_not_ws _))
  exact (EatsJ.seq h1 h234).cast (by simp)

def ivX (g7 g8 g9 : Nat) : Rx := .grp g7 (.grp g8 (ivI g9))

theorem ivX_nullable (g7 g8 g9 : Nat) : (ivX g7 g8 g9).nullable = false := rfl
theorem ivX_firstSets (g7 g8 g9 : Nat) : (ivX g7 g8 g9).firstSets = (ivX 0 0 0).firstSets := rfl
theorem ivX0_first : (ivX 0 0 0).firstSets.all (fun cs => asciiDigits.disj cs) = true := by decide +kernel

/-- starts with an ASCII digit -/
def DigitHead (tail : Str) : Prop := ∃ c t, tail = c :: t ∧ asciiDigits.mem c = true

theorem DigitHead.not_ws {tail : Str} (h : DigitHead tail) : StopAt wsS tail := by
  obtain ⟨c, t, rfl, hc⟩ := h
  exact StopAt.cons (CharSet.disj_mem (by decide +kernel) hc)

/-- what may follow a run of interveners: no white space, and nothing another intervener could start with -/
def IvStop (tail : Str) : Prop := ∀ c, tail.head? = some c → ∀ cs ∈ (ivX 0 0 0).firstSets, cs.mem c = false

theorem ivX0_ws_first : wsS ∈ (ivX 0 0 0).firstSets := by decide +kernel

theorem IvStop.not_ws {tail : Str} (h : IvStop tail) : StopAt wsS tail := fun c hc => h c hc wsS ivX0_ws_first

theorem DigitHead.ivStop {tail : Str} (h : DigitHead tail) : IvStop tail := by
  obtain ⟨c, t, rfl, hc⟩ := h
  intro x hx cs hcs
  simp only [List.head?_cons, Option.some.injEq] at hx
  subst hx
  exact CharSet.disj_mem (List.all_eq_true.1 ivX0_first cs hcs) hc

theorem failsOn_ivX (g7 g8 g9 : Nat) (tail : Str) (h : IvStop tail) : FailsOn (ivX g7 g8 g9) tail :=
  FailsOn.of_first (ivX_nullable g7 g8 g9) (by rw [ivX_firstSets]; exact h)

theorem eats_ivX (g7 g8 g9 : Nat) (lead : Bool) (w : IvWord) (tail : Str) (htail : StopAt wsS tail) :
    ∃ J : Nat → Caps, Eats (ivX g7 g8 g9) (leadStr lead ++ w.text ++ [' ']) tail
      (fun pos caps => (g7, pos, pos + (leadStr lead ++ w.text ++ [' ']).length) ::
        (g8, pos, pos + (leadStr lead ++ w.text ++ [' ']).length) :: (J pos ++ caps)) := by
  obtain ⟨J, h⟩ := eatsJ_ivI g9 lead w tail htail
  exact ⟨J, (Eats.grp g7 (Eats.grp g8 h)).cast rfl (fun _ _ => rfl)⟩

/-- the text of a run of interveners -/
def ivText (lead : Bool) (ws : List IvWord) : Str := leadStr lead ++ ws.flatMap (fun w => w.text ++ [' '])

theorem ivText_cons (lead : Bool) (w : IvWord) (ws : List IvWord) :
    ivText lead (w :: ws) = (leadStr lead ++ w.text ++ [' ']) ++ ivText false ws := by
  simp [ivText, leadStr]

theorem ivText_single (lead : Bool) (w : IvWord) : ivText lead [w] = leadStr lead ++ w.text ++ [' '] := by
  simp [ivText]

theorem ivText_not_ws (w : IvWord) (ws : List IvWord) (t : Str) : StopAt wsS (ivText false (w :: ws) ++ t) := by
  rw [ivText_cons]
  simp only [leadStr, Bool.false_eq_true, if_false, List.nil_append, List.append_assoc]
  exact w.head_not_ws _

/-- where the LAST intervener of the run starts -/
def ivOff (lead : Bool) (pre : List IvWord) : Nat := if pre = [] then 0 else (ivText lead pre).length

theorem ivChain (g7 g8 g9 : Nat) (last : IvWord) (tail : Str) (htail : IvStop tail) : ∀ (pre : List IvWord) (lead : Bool),
    ∃ J : Nat → Caps, ∀ (prev : Option Char) (pos : Nat) (caps : Caps),
      IterChain (ivX g7 g8 g9) ⟨prev, ivText lead (pre ++ [last]) ++ tail, pos, caps⟩
        ⟨lastOr prev (ivText lead (pre ++ [last])), tail, pos + (ivText lead (pre ++ [last])).length,
          (g7, pos + ivOff lead pre, pos + (ivText lead (pre ++ [last])).length) ::
          (g8, pos + ivOff lead pre, pos + (ivText lead (pre ++ [last])).length) :: (J pos ++ caps)⟩ (pre.length + 1) := by
  intro pre
  induction pre with
  | nil =>
    intro lead
    obtain ⟨J, h⟩ := eats_ivX g7 g8 g9 lead last tail htail.not_ws
    refine ⟨J, fun prev pos caps => ?_⟩
    have hne : 0 < (leadStr lead ++ last.text ++ [' ']).length := by simp only [List.length_append, List.length_cons, List.length_nil]; omega
    simp only [List.nil_append, ivText_single, ivOff, if_true, Nat.add_zero, List.length_nil]
    refine .step (h prev pos caps) ?_ ?_ (.stop _ (failsOn_ivX g7 g8 g9 tail htail _ _ _))
    · show pos < pos + _
      omega
    · show tail.length < (_ ++ tail).length
      rw [List.length_append]; omega
  | cons w pre ih =>
    intro lead
    obtain ⟨J', hJ'⟩ := ih false
    obtain ⟨J1, h1⟩ := eats_ivX g7 g8 g9 lead w (ivText false (pre ++ [last]) ++ tail) (by
      cases pre with
      | nil => exact ivText_not_ws last [] tail
      | cons v pre' => exact ivText_not_ws v (pre' ++ [last]) tail)
    have hne : 0 < (leadStr lead ++ w.text ++ [' ']).length := by
      simp only [List.length_append, List.length_cons, List.length_nil]; omega
    have htxt : ivText lead (w :: pre ++ [last]) = (leadStr lead ++ w.text ++ [' ']) ++ ivText false (pre ++ [last]) :=
      ivText_cons lead w _
    have hoff : ivOff lead (w :: pre) = (leadStr lead ++ w.text ++ [' ']).length + ivOff false pre := by
      unfold ivOff
      rw [if_neg (by simp), ivText_cons, List.length_append]
      by_cases hp : pre = []
      · subst hp; simp [ivText, leadStr]
      · rw [if_neg hp]
    generalize leadStr lead ++ w.text ++ [' '] = seg1 at h1 hne htxt hoff
    refine ⟨fun pos => J' (pos + seg1.length) ++ ((g7, pos, pos + seg1.length) :: (g8, pos, pos + seg1.length) :: J1 pos),
      fun prev pos caps => ?_⟩
    have e1 := h1 prev pos caps
    have e2 := hJ' (lastOr prev seg1) (pos + seg1.length) ((g7, pos, pos + seg1.length) :: (g8, pos, pos + seg1.length) :: (J1 pos ++ caps))
    have key : IterChain (ivX g7 g8 g9) ⟨prev, seg1 ++ (ivText false (pre ++ [last]) ++ tail), pos, caps⟩
        ⟨lastOr (lastOr prev seg1) (ivText false (pre ++ [last])), tail, pos + seg1.length + (ivText false (pre ++ [last])).length,
          (g7, pos + seg1.length + ivOff false pre, pos + seg1.length + (ivText false (pre ++ [last])).length) ::
          (g8, pos + seg1.length + ivOff false pre, pos + seg1.length + (ivText false (pre ++ [last])).length) ::
          (J' (pos + seg1.length) ++ ((g7, pos, pos + seg1.length) :: (g8, pos, pos + seg1.length) :: (J1 pos ++ caps)))⟩
        (pre.length + 1 + 1) := by
      refine .step e1 ?_ ?_ e2
      · show pos < pos + seg1.length
        omega
      · show (ivText false (pre ++ [last]) ++ tail).length < (seg1 ++ (ivText false (pre ++ [last]) ++ tail)).length
        simp only [List.length_append]; omega
    rw [htxt, hoff, List.append_assoc, lastOr_append, List.length_append]
    simp only [← Nat.add_assoc, List.append_assoc, List.cons_append, List.length_cons]
    exact key

/-- `(intervener)+` on a run of words: the captures of the outer groups are those of the LAST intervener -/
theorem eats_ivRx (g7 g8 g9 : Nat) (lead : Bool) (pre : List IvWord) (last : IvWord) (tail : Str) (htail : IvStop tail) :
    ∃ J : Nat → Caps, Eats (ivRx g7 g8 g9) (ivText lead (pre ++ [last])) tail
      (fun pos caps => (g7, pos + ivOff lead pre, pos + (ivText lead (pre ++ [last])).length) ::
        (g8, pos + ivOff lead pre, pos + (ivText lead (pre ++ [last])).length) :: (J pos ++ caps)) := by
  obtain ⟨J, h⟩ := ivChain g7 g8 g9 last tail htail pre lead
  exact ⟨J, fun prev pos caps => Leads.iter (h prev pos caps) (by omega)⟩

/-! ### `EatsT`: the newest captures (`top`) are tracked, older ones added by the same pattern are not -/

def EatsT (r : Rx) (seg tail : List Char) (top : Nat → Caps) : Prop :=
  ∃ J : Nat → Caps, Eats r seg tail (fun pos caps => top pos ++ (J pos ++ caps))

theorem EatsT.toJ {r : Rx} {seg tail : List Char} {top : Nat → Caps} (h : EatsT r seg tail top) : EatsJ r seg tail := by
  obtain ⟨J, h⟩ := h
  exact ⟨fun pos => top pos ++ J pos, h.cast rfl (fun _ _ => by simp)⟩

/-- generic: a greedy loop over a list of segments, each eaten by one iteration; the captures of the last one stay on top -/
theorem segChain (X : Rx) (Good : Str → Prop) (junk lastSeg : Str) (top : Nat → Caps)
    (hstop : FailsOn X junk) (hlast : EatsT X lastSeg junk top) (hne : lastSeg ≠ []) (hgood : Good (lastSeg ++ junk)) :
    ∀ (segs : List Str), (∀ seg ∈ segs, seg ≠ [] ∧ ∀ tail, Good tail → EatsJ X seg tail ∧ Good (seg ++ tail)) →
      ∃ J : Nat → Caps, ∀ (prev : Option Char) (pos : Nat) (caps : Caps),
        IterChain X ⟨prev, (segs.flatten ++ lastSeg) ++ junk, pos, caps⟩
          ⟨lastOr prev (segs.flatten ++ lastSeg), junk, pos + (segs.flatten ++ lastSeg).length,
            top (pos + segs.flatten.length) ++ (J pos ++ caps)⟩ (segs.length + 1) := by
  intro segs
  induction segs with
  | nil =>
    intro _
    obtain ⟨J, h⟩ := hlast
    refine ⟨J, fun prev pos caps => ?_⟩
    have hl : 0 < lastSeg.length := List.length_pos_iff.2 hne
    simp only [List.flatten_nil, List.nil_append, List.length_nil, Nat.add_zero]
    refine .step (h prev pos caps) ?_ ?_ (.stop _ (hstop _ _ _))
    · show pos < pos + lastSeg.length
      omega
    · show junk.length < (lastSeg ++ junk).length
      simp only [List.length_append]; omega
  | cons seg segs ih =>
    intro hall
    have hall' : ∀ sg ∈ segs, sg ≠ [] ∧ ∀ tail, Good tail → EatsJ X sg tail ∧ Good (sg ++ tail) :=
      fun sg hsg => hall sg (by simp [hsg])
    have hg : Good (segs.flatten ++ (lastSeg ++ junk)) := by
      clear ih hall
      induction segs with
      | nil => simpa using hgood
      | cons sg segs ih2 =>
        have := (hall' sg (by simp)).2 _ (ih2 (fun x hx => hall' x (by simp [hx])))
        simpa using this.2
    obtain ⟨J', hJ'⟩ := ih hall'
    obtain ⟨hsne, hs⟩ := hall seg (by simp)
    obtain ⟨⟨J1, h1⟩, _⟩ := hs _ hg
    have hl : 0 < seg.length := List.length_pos_iff.2 hsne
    refine ⟨fun pos => J' (pos + seg.length) ++ J1 pos, fun prev pos caps => ?_⟩
    have e1 := h1 prev pos caps
    have e2 := hJ' (lastOr prev seg) (pos + seg.length) (J1 pos ++ caps)
    have key : IterChain X ⟨prev, seg ++ (segs.flatten ++ (lastSeg ++ junk)), pos, caps⟩
        ⟨lastOr (lastOr prev seg) (segs.flatten ++ lastSeg), junk, pos + seg.length + (segs.flatten ++ lastSeg).length,
          top (pos + seg.length + segs.flatten.length) ++ (J' (pos + seg.length) ++ (J1 pos ++ caps))⟩ (segs.length + 1 + 1) := by
      refine .step e1 ?_ ?_ (by rw [← List.append_assoc]; exact e2)
      · show pos < pos + seg.length
        omega
      · show (segs.flatten ++ (lastSeg ++ junk)).length < (seg ++ (segs.flatten ++ (lastSeg ++ junk))).length
        simp only [List.length_append]; omega
    simp only [List.flatten_cons, List.append_assoc, lastOr_append, List.length_append, List.length_cons, ← Nat.add_assoc] at key ⊢
    exact key

/-! ### section / lot numbers as written: one to three ASCII digits -/

def NumStr (d : Str) : Prop := IsDigits d ∧ 1 ≤ d.length ∧ d.length ≤ 3

theorem NumStr.ne {d : Str} (h : NumStr d) : d ≠ [] := by
  intro e; have := h.2.1; rw [e] at this; simp at this

theorem NumStr.digitHead {d : Str} (h : NumStr d) (tail : Str) : DigitHead (d ++ tail) :=
  IsDigits.head_digit h.1 h.ne tail

theorem eats_num (g : Nat) (d tail : Str) (hd : NumStr d) (ht : StopAt digitS tail) :
    Eats (numRx g) d tail (fun pos caps => (g, pos, pos + d.length) :: caps) :=
  Eats.grp g (Eats.run digitS 1 (some 3) d tail (fun c hc => CharSet.sub_mem (by decide +kernel) (hd.1 c hc)) (Or.inr ht) hd.2.1
    (fun h hh => by cases hh; exact hd.2.2))

/-- contains no character of the pattern's digit class -/
def NoDigit (t : Str) : Prop := ∀ c ∈ t, digitS.mem c = false

/-! ### separators: an optional blank, then a run of intervener words, each followed by one blank -/

def secKwText (plural : Bool) : Str := ['S', 'e', 'c', 't', 'i', 'o', 'n'] ++ ((if plural then ['s'] else []) ++ [' '])
def lotKwText (plural : Bool) : Str := ['L', 'o', 't'] ++ ((if plural then ['s'] else []) ++ [' '])

/-- the keyword optionally repeated before a number on the right: "Section(s) " / "Lot(s) " -/
inductive Kw where
  | none
  | sec (plural : Bool)
  | lot (plural : Bool)
  deriving Repr, DecidableEq

def Kw.text : Kw → Str
  | .none => []
  | .sec pl => secKwText pl
  | .lot pl => lotKwText pl

/-- usable in a section list / in a lot list -/
def Kw.okSec : Kw → Prop
  | .lot _ => False
  | _ => True
def Kw.okLot : Kw → Prop
  | .sec _ => False
  | _ => True

structure Sep where
  lead : Bool
  pre : List IvWord
  last : IvWord
  kw : Kw := .none
  deriving Repr

/-- the interveners of the separator -/
def Sep.ivs (s : Sep) : Str := ivText s.lead (s.pre ++ [s.last])
def Sep.text (s : Sep) : Str := s.ivs ++ s.kw.text
/-- offset of the last intervener within the separator, as `multisec_regex` sees it -/
def Sep.cut (s : Sep) : Nat := ivOff s.lead s.pre
def Sep.isThru (s : Sep) : Bool := s.last.isThru

theorem IvWord.head_not_digit (w : IvWord) (t : Str) : StopAt digitS (w.text ++ t) := by
  cases w <;> exact StopAt.cons (by decide +kernel)

theorem ivText_head_not_digit (lead : Bool) (w : IvWord) (ws : List IvWord) (t : Str) : StopAt digitS (ivText lead (w :: ws) ++ t) := by
  rw [ivText_cons]
  cases lead
  · simp only [leadStr, Bool.false_eq_true, if_false, List.nil_append, List.append_assoc]
    exact w.head_not_digit _
  · simp only [leadStr, if_true, List.cons_append, List.nil_append]
    exact StopAt.cons (by decide +kernel)

theorem Sep.head_not_digit (s : Sep) (t : Str) : StopAt digitS (s.text ++ t) := by
  unfold Sep.text Sep.ivs
  rw [List.append_assoc]
  cases h : s.pre with
  | nil => exact ivText_head_not_digit _ _ _ _
  | cons w ws => exact ivText_head_not_digit _ _ _ _

theorem Sep.ivs_ne (s : Sep) : s.ivs ≠ [] := by
  unfold Sep.ivs
  intro h
  have := congrArg List.length h
  cases hp : s.pre <;> simp [hp, ivText, IvWord.text_ne] at this

theorem Sep.text_ne (s : Sep) : s.text ≠ [] := by
  unfold Sep.text
  simp [s.ivs_ne]

theorem Sep.cut_lt_ivs (s : Sep) : s.cut < s.ivs.length := by
  unfold Sep.cut Sep.ivs ivOff
  split
  · next h => rw [h]; simp only [ivText, List.nil_append, List.flatMap_cons, List.flatMap_nil, List.length_append, List.length_cons, List.length_nil]; omega
  · simp [ivText]

theorem Sep.cut_lt (s : Sep) : s.cut < s.text.length := by
  have := s.cut_lt_ivs
  simp only [Sep.text, List.length_append]
  omega

/-! ### one iteration of the repeated group of `multisec_regex` -/

theorem secOW_eq : secOW = .rep (secOW.pick [0]) 0 (some 1) := rfl

theorem eats_secOW_none (tail : Str) (h : DigitHead tail) : Eats secOW [] tail (fun _ caps => caps) := by
  rw [secOW_eq]
  exact Eats.opt_none (failsOn_digit_first _ (by decide +kernel) (by decide +kernel) tail h)

theorem secKw_fits : litFits secKw.chrSets ['S', 'e', 'c', 't', 'i', 'o', 'n'] = true := by decide +kernel

/-- the repeated keyword of `multisec_regex`: `((Section|…)(s)?)?` -/
def secOWkw : Rx := secOW.pick [0, 0, 0, 0, 0]
def secOWrest : Rx := secOW.pick [0, 0, 0, 0, 1]
theorem secOW_struct : secOW = .rep (.grp 14 (.seq (.grp 15 (.alt secOWkw secOWrest)) (.rep (.grp 16 (.chr sS)) 0 (some 1)))) 0 (some 1) := rfl
theorem secOWkw_eq : secOWkw = litRx secKw.chrSets := rfl

/-- the captures the repeated keyword adds (sections) -/
def secOWcaps (plural : Bool) (p : Nat) : Caps :=
  (14, p, p + (7 + (if plural then 1 else 0))) :: ((if plural then [(16, p + 7, p + 8)] else []) ++ [(15, p, p + 7)])

theorem eats_secOW_some (plural : Bool) (t : Str) :
    Eats secOW (['S', 'e', 'c', 't', 'i', 'o', 'n'] ++ (if plural then ['s'] else [])) (' ' :: t)
      (fun pos caps => secOWcaps plural pos ++ caps) := by
  rw [secOW_struct]
  cases plural with
  | false =>
    have hP : Eats (.rep (.grp 16 (.chr sS)) 0 (some 1)) [] (' ' :: t) (fun _ caps => caps) :=
      Eats.opt_none (FailsOn.grp 16 (FailsOn.chr sS _ (StopAt.cons (by decide +kernel))))
    have hW : Eats (.grp 15 (.alt secOWkw secOWrest)) ['S', 'e', 'c', 't', 'i', 'o', 'n'] ([] ++ ' ' :: t)
        (fun pos caps => (15, pos, pos + 7) :: caps) :=
      Eats.grp 15 (Eats.alt_l (by rw [secOWkw_eq]; exact eats_lit _ _ _ secKw_fits))
    refine (Eats.opt_some (Eats.grp 14 (Eats.seq hW hP))).cast (by simp) (fun pos caps => ?_)
    simp [secOWcaps]
  | true =>
    have hP : Eats (.rep (.grp 16 (.chr sS)) 0 (some 1)) ['s'] (' ' :: t) (fun pos caps => (16, pos, pos + 1) :: caps) :=
      Eats.opt_some (Eats.grp 16 (Eats.chr sS 's' _ (by decide +kernel)))
    have hW : Eats (.grp 15 (.alt secOWkw secOWrest)) ['S', 'e', 'c', 't', 'i', 'o', 'n'] (['s'] ++ ' ' :: t)
        (fun pos caps => (15, pos, pos + 7) :: caps) :=
      Eats.grp 15 (Eats.alt_l (by rw [secOWkw_eq]; exact eats_lit _ _ _ secKw_fits))
    refine (Eats.opt_some (Eats.grp 14 (Eats.seq hW hP))).cast (by simp) (fun pos caps => ?_)
    simp [secOWcaps]

/-- the captures of the repeated keyword, by kind -/
def Kw.secCaps : Kw → Nat → Caps
  | .sec pl, p => secOWcaps pl p
  | _, _ => []

def secTop (s : Sep) (d : Str) (P : Nat) : Caps :=
  [(6, P, P + (s.text ++ d).length), (17, P + s.text.length, P + s.text.length + d.length)] ++
    (s.kw.secCaps (P + s.ivs.length) ++ [(7, P + s.cut, P + s.ivs.length), (8, P + s.cut, P + s.ivs.length)])

theorem ivStop_S (t : Str) : IvStop ('S' :: t) := by
  intro c hc cs hcs
  simp only [List.head?_cons, Option.some.injEq] at hc
  subst hc
  have h : (ivX 0 0 0).firstSets.all (fun cs => !cs.mem 'S') = true := by decide +kernel
  simpa using List.all_eq_true.1 h cs hcs

theorem eatsT_secBody (s : Sep) (d tail : Str) (hk : s.kw.okSec) (hd : NumStr d) (ht : StopAt digitS tail) :
    EatsT (.grp 6 secBody) (s.text ++ d) tail (secTop s d) := by
  have hN := eats_num 17 d tail hd ht
  cases hkw : s.kw with
  | lot pl => rw [hkw] at hk; exact hk.elim
  | none =>
    obtain ⟨J, h1⟩ := eats_ivRx 7 8 9 s.lead s.pre s.last (([] ++ ([] ++ d)) ++ tail) (hd.digitHead tail).ivStop
    have hOW := eats_secOW_none (([] ++ d) ++ tail) (hd.digitHead tail)
    have hWS := eats_dead wsS [] (d ++ tail) (fun c hc => by cases hc) (hd.digitHead tail).not_ws
    have h := Eats.grp 6 (Eats.seq h1 (Eats.seq hOW (Eats.seq hWS hN)))
    refine ⟨J, h.cast (by simp [Sep.text, Sep.ivs, hkw, Kw.text]) (fun pos caps => ?_)⟩
    simp [secTop, Sep.text, Sep.ivs, Sep.cut, hkw, Kw.text, Kw.secCaps, Nat.add_assoc]
  | sec pl =>
    have hWS := eats_dead wsS [' '] (d ++ tail) (by intro c hc; simp only [List.mem_singleton] at hc; subst hc; decide +kernel)
      (hd.digitHead tail).not_ws
    have hOW : Eats secOW (['S', 'e', 'c', 't', 'i', 'o', 'n'] ++ (if pl then ['s'] else [])) (([' '] ++ d) ++ tail)
        (fun pos caps => secOWcaps pl pos ++ caps) := eats_secOW_some pl (d ++ tail)
    obtain ⟨J, h1⟩ := eats_ivRx 7 8 9 s.lead s.pre s.last
      (((['S', 'e', 'c', 't', 'i', 'o', 'n'] ++ (if pl then ['s'] else [])) ++ ([' '] ++ d)) ++ tail) (ivStop_S _)
    have h := Eats.grp 6 (Eats.seq h1 (Eats.seq hOW (Eats.seq hWS hN)))
    refine ⟨J, h.cast (by simp [Sep.text, Sep.ivs, hkw, Kw.text, secKwText]) (fun pos caps => ?_)⟩
    cases pl <;> simp [secTop, Sep.text, Sep.ivs, Sep.cut, hkw, Kw.text, Kw.secCaps, secKwText, secOWcaps, Nat.add_assoc]

theorem secBody_mustHit : (Rx.grp 6 secBody).mustHitP (fun cs => cs == digitS) = true := by decide +kernel

theorem fails_secBody_noDigit (junk : Str) (hj : NoDigit junk) : FailsOn (.grp 6 secBody) junk := by
  intro prev pos caps
  refine Fails.of_noHit secBody_mustHit ?_
  intro c hc cs hcs
  have : cs = digitS := by simpa using hcs
  rw [this]; exact hj c hc

theorem NoDigit.stop {junk : Str} (h : NoDigit junk) : StopAt digitS junk := StopAt.of_forall h

/-- a token of a section list / of a lot list: a number of one to three digits after a separator with a fitting keyword -/
def SecTok (t : Sep × Str) : Prop := NumStr t.2 ∧ t.1.kw.okSec
def LotTok (t : Sep × Str) : Prop := NumStr t.2 ∧ t.1.kw.okLot

/-- the text of the tokens after the first number -/
def bodyText (rest : List (Sep × Str)) : Str := (rest.map (fun t => t.1.text ++ t.2)).flatten

theorem bodyText_append (a b : List (Sep × Str)) : bodyText (a ++ b) = bodyText a ++ bodyText b := by
  simp [bodyText]

theorem bodyText_single (s : Sep) (d : Str) : bodyText [(s, d)] = s.text ++ d := by simp [bodyText]

/-- the greedy loop of `multisec_regex` over all the tokens after the first number -/
theorem secChain (junk : Str) (hj : NoDigit junk) (s : Sep) (d : Str) (hd : SecTok (s, d)) (pre : List (Sep × Str))
    (hpre : ∀ t ∈ pre, SecTok t) :
    ∃ J : Nat → Caps, ∀ (prev : Option Char) (pos : Nat) (caps : Caps),
      IterChain (.grp 6 secBody) ⟨prev, bodyText (pre ++ [(s, d)]) ++ junk, pos, caps⟩
        ⟨lastOr prev (bodyText (pre ++ [(s, d)])), junk, pos + (bodyText (pre ++ [(s, d)])).length,
          secTop s d (pos + (bodyText pre).length) ++ (J pos ++ caps)⟩ (pre.length + 1) := by
  have := segChain (.grp 6 secBody) (StopAt digitS) junk (s.text ++ d) (secTop s d) (fails_secBody_noDigit junk hj)
    (eatsT_secBody s d junk hd.2 hd.1 hj.stop) (by simp [Sep.text_ne]) (by rw [List.append_assoc]; exact s.head_not_digit _)
    (pre.map (fun t => t.1.text ++ t.2)) (by
      intro seg hseg
      simp only [List.mem_map] at hseg
      obtain ⟨t, ht, rfl⟩ := hseg
      refine ⟨by simp [Sep.text_ne], fun tail htail => ⟨(eatsT_secBody t.1 t.2 tail (hpre t ht).2 (hpre t ht).1 htail).toJ, ?_⟩⟩
      rw [List.append_assoc]; exact t.1.head_not_digit _)
  simpa [bodyText_append, bodyText_single, bodyText] using this

/-! ### the head of `multisec_regex`: the word "Section(s)", one blank, the first number -/

def secHeadCaps (plural : Bool) (k0 pos : Nat) : Caps :=
  [(1, pos, pos + ((secKwText plural).length + k0)), (2, pos, pos + ((secKwText plural).length + k0)),
   (5, pos + (secKwText plural).length, pos + (secKwText plural).length + k0)] ++
    ((if plural then [(4, pos + 7, pos + 8)] else []) ++ [(3, pos, pos + 7)])

theorem digit_not_d2 (tail : Str) (h : DigitHead tail) : StopAt d2S tail := by
  obtain ⟨c, t, rfl, hc⟩ := h
  exact StopAt.cons (CharSet.disj_mem (by decide +kernel) hc)

theorem eats_secHead (plural : Bool) (d0 tail : Str) (hd : NumStr d0) (ht : StopAt digitS tail) :
    Eats secHead (secKwText plural ++ d0) tail (fun pos caps => secHeadCaps plural d0.length pos ++ caps) := by
  have hN := eats_num 5 d0 tail hd ht
  have hD2 := eats_dead d2S [] (d0 ++ tail) (fun c hc => by cases hc) (digit_not_d2 _ (hd.digitHead tail))
  have hD1 : Eats (.rep (.chr d1S) 0 (some 1)) [' '] (([] ++ d0) ++ tail) (fun _ caps => caps) :=
    Eats.opt_some (Eats.chr d1S ' ' _ (by decide +kernel))
  have h3 := Eats.seq hD1 (Eats.seq hD2 hN)
  cases plural with
  | false =>
    have hP : Eats (.rep (.grp 4 (.chr sS)) 0 (some 1)) [] (([' '] ++ ([] ++ d0)) ++ tail) (fun _ caps => caps) :=
      Eats.opt_none (FailsOn.grp 4 (FailsOn.chr sS _ (StopAt.cons (by decide +kernel))))
    have hW : Eats (.grp 3 (.alt secKw secKwRest)) ['S', 'e', 'c', 't', 'i', 'o', 'n'] (([] ++ ([' '] ++ ([] ++ d0))) ++ tail)
        (fun pos caps => (3, pos, pos + 7) :: caps) :=
      Eats.grp 3 (Eats.alt_l (by rw [secKw_eq]; exact eats_lit _ _ _ secKw_fits))
    have h := Eats.grp 1 (Eats.grp 2 (Eats.seq hW (Eats.seq hP h3)))
    refine h.cast (by simp [secKwText]) (fun pos caps => ?_)
    simp [secHeadCaps, secKwText, Nat.add_assoc]
    omega
  | true =>
    have hP : Eats (.rep (.grp 4 (.chr sS)) 0 (some 1)) ['s'] (([' '] ++ ([] ++ d0)) ++ tail) (fun pos caps => (4, pos, pos + 1) :: caps) :=
      Eats.opt_some (Eats.grp 4 (Eats.chr sS 's' _ (by decide +kernel)))
    have hW : Eats (.grp 3 (.alt secKw secKwRest)) ['S', 'e', 'c', 't', 'i', 'o', 'n'] ((['s'] ++ ([' '] ++ ([] ++ d0))) ++ tail)
        (fun pos caps => (3, pos, pos + 7) :: caps) :=
      Eats.grp 3 (Eats.alt_l (by rw [secKw_eq]; exact eats_lit _ _ _ secKw_fits))
    have h := Eats.grp 1 (Eats.grp 2 (Eats.seq hW (Eats.seq hP h3)))
    refine h.cast (by simp [secKwText]) (fun pos caps => ?_)
    simp [secHeadCaps, secKwText, Nat.add_assoc]
    omega

/-! ### the whole pattern on the text of a list -/

/-- what may follow the list inside the searched window: nothing the pattern could continue with -/
def JunkOK (junk : Str) : Prop := ∀ c ∈ junk, digitS.mem c = false ∧ colonS.mem c = false

theorem JunkOK.noDigit {junk : Str} (h : JunkOK junk) : NoDigit junk := fun c hc => (h c hc).1

theorem JunkOK.nil : JunkOK [] := fun _ h => by cases h

theorem secColon_mustHit : (Rx.grp 18 (.seq wsStar (.chr colonS))).mustHitP (fun cs => cs == colonS) = true := by decide +kernel

theorem leads_secColon (junk : Str) (hj : JunkOK junk) (prev : Option Char) (pos : Nat) (caps : Caps) :
    Leads secColon ⟨prev, junk, pos, caps⟩ ⟨prev, junk, pos, caps⟩ := by
  refine Leads.opt_none (Fails.of_noHit secColon_mustHit ?_)
  intro c hc cs hcs
  have : cs = colonS := by simpa using hcs
  rw [this]; exact (hj c hc).2

/-- the text of a list: keyword, first number, then separator + number for every further token -/
def secTokText (plural : Bool) (d0 : Str) (rest : List (Sep × Str)) : Str := (secKwText plural ++ d0) ++ bodyText rest

theorem body_stop (rest : List (Sep × Str)) (junk : Str) (hj : NoDigit junk) : StopAt digitS (bodyText rest ++ junk) := by
  cases rest with
  | nil => exact hj.stop
  | cons t r =>
    simp only [bodyText, List.map_cons, List.flatten_cons, List.append_assoc]
    exact t.1.head_not_digit _

theorem sec_match_single (plural : Bool) (d0 junk : Str) (hd : NumStr d0) (hj : JunkOK junk) :
    matchHere Gen.multisec_regex ⟨none, secTokText plural d0 [] ++ junk, 0, []⟩ false =
      some ⟨0, (secTokText plural d0 []).length, secHeadCaps plural d0.length 0⟩ := by
  have h1 := eats_secHead plural d0 junk hd hj.noDigit.stop none 0 []
  have h2 : Leads (.rep (.grp 6 secBody) 0 none) _ _ :=
    Leads.iter (lo := 0) (.stop _ (fails_secBody_noDigit junk hj.noDigit (lastOr none (secKwText plural ++ d0))
      (0 + (secKwText plural ++ d0).length) (secHeadCaps plural d0.length 0 ++ []))) (Nat.le_refl _)
  have h3 := leads_secColon junk hj (lastOr none (secKwText plural ++ d0)) (0 + (secKwText plural ++ d0).length)
    (secHeadCaps plural d0.length 0 ++ [])
  have h := Leads.seq h1 (Leads.seq h2 h3)
  rw [multisec_decomp]
  have := matchHere_of_leads false (by simpa [secTokText, bodyText] using h) (Or.inl rfl)
  simpa [secTokText, bodyText] using this

theorem sec_match_multi (plural : Bool) (d0 : Str) (pre : List (Sep × Str)) (s : Sep) (d junk : Str) (hd0 : NumStr d0)
    (hpre : ∀ t ∈ pre, SecTok t) (hd : SecTok (s, d)) (hj : JunkOK junk) :
    ∃ older : Caps, matchHere Gen.multisec_regex ⟨none, secTokText plural d0 (pre ++ [(s, d)]) ++ junk, 0, []⟩ false =
      some ⟨0, (secTokText plural d0 (pre ++ [(s, d)])).length, secTop s d (secTokText plural d0 pre).length ++ older⟩ := by
  obtain ⟨J, hc⟩ := secChain junk hj.noDigit s d hd pre hpre
  refine ⟨J (0 + (secKwText plural ++ d0).length) ++ (secHeadCaps plural d0.length 0 ++ []), ?_⟩
  have h1 := eats_secHead plural d0 (bodyText (pre ++ [(s, d)]) ++ junk) hd0 (body_stop _ _ hj.noDigit) none 0 []
  have h2 := Leads.iter (lo := 0) (hc (lastOr none (secKwText plural ++ d0)) (0 + (secKwText plural ++ d0).length)
    (secHeadCaps plural d0.length 0 ++ [])) (Nat.zero_le _)
  have h3 := leads_secColon junk hj (lastOr (lastOr none (secKwText plural ++ d0)) (bodyText (pre ++ [(s, d)])))
    (0 + (secKwText plural ++ d0).length + (bodyText (pre ++ [(s, d)])).length)
    (secTop s d (0 + (secKwText plural ++ d0).length + (bodyText pre).length) ++
      (J (0 + (secKwText plural ++ d0).length) ++ (secHeadCaps plural d0.length 0 ++ [])))
  have h := Leads.seq h1 (Leads.seq h2 h3)
  rw [multisec_decomp]
  have := matchHere_of_leads false (by simpa only [secTokText, List.append_assoc] using h) (Or.inl rfl)
  simpa only [secTokText, List.append_assoc, List.length_append, Nat.zero_add, Nat.add_assoc] using this

/-! ## Part C — what one iteration of the unpacker loop observes -/

theorem search_window (r : Rx) (a b : Str) : r.search (a ++ b) 0 a.length = scan r none a 0 false := by
  simp [Rx.search, cursorAt]

theorem scan_of_matchHere {r : Rx} {prev : Option Char} {rest : Str} {pos : Nat} {adv : Bool} {m : Match}
    (h : matchHere r ⟨prev, rest, pos, []⟩ adv = some m) : scan r prev rest pos adv = some m := by
  cases rest <;> simp [scan, h]

theorem multisec_pat_facts : multisec.has "intervener" = true ∧ multisec.has "secnum_rightmost" = true ∧
    multisec.idx? "secnum_rightmost" = some 17 ∧ multisec.idx? "secnum" = some 5 ∧
    multisec.idx? "intervener" = some 8 := by decide +kernel

/-- a match in which the groups `secnum_rightmost` (17) and `intervener` (8) participated -/
theorem secView_multi (txt : Str) (e : Nat) (st sp : Nat) (caps : Caps) (a b c e' : Nat)
    (hm : multisec.rx.search txt 0 e = some ⟨st, sp, caps⟩)
    (h17 : caps.find? (fun x => x.1 == 17) = some (17, a, b)) (h8 : caps.find? (fun x => x.1 == 8) = some (8, c, e')) :
    secView txt e = some ((pyInt? (slice txt a b)).getD 0, true, c,
      (Gen.through_regex.search (pyStrip (slice txt c e'))).isSome) := by
  obtain ⟨f1, f2, f3, f4, f5⟩ := multisec_pat_facts
  unfold secView
  rw [hm]
  simp [getRightmost, isMulti, startOfRightmost, thruRightmost, Pat.group, Pat.start?, f1, f2, f3, f4, f5, Match.group?,
    Match.span?, h17, h8]

/-- a match of the head only -/
theorem secView_single (txt : Str) (e : Nat) (st sp : Nat) (plural : Bool) (k0 pos : Nat)
    (hm : multisec.rx.search txt 0 e = some ⟨st, sp, secHeadCaps plural k0 pos⟩) :
    secView txt e = some ((pyInt? (slice txt (pos + (secKwText plural).length) (pos + (secKwText plural).length + k0))).getD 0,
      false, st, false) := by
  obtain ⟨f1, f2, f3, f4, f5⟩ := multisec_pat_facts
  unfold secView
  rw [hm]
  cases plural <;>
  simp [getRightmost, isMulti, startOfRightmost, thruRightmost, Pat.group, Pat.start?, f1, f2, f3, f4, f5, Match.group?,
    Match.span?, List.find?, secHeadCaps]

theorem secView_zero (txt : Str) : secView txt 0 = none := by
  have h : multisec.rx.search txt 0 0 = none := by
    have : Gen.multisec_regex.search txt 0 0 = scan Gen.multisec_regex none [] 0 false := by simp [Rx.search, cursorAt]
    show Gen.multisec_regex.search txt 0 0 = none
    rw [this]
    decide +kernel
  unfold secView
  rw [h]

/-- the value of a number as written -/
def tokVal (d : Str) : Int := Int.ofNat (digitsNat d)

theorem NumStr.pyInt {d : Str} (h : NumStr d) : (pyInt? d).getD 0 = tokVal d := by
  rw [pyInt_ascii d h.1 h.ne]; rfl

/-- the through-test on the text of the last intervener of a separator -/
theorem thru_of_word (l : Bool) (w : IvWord) : (Gen.through_regex.search (pyStrip (ivText l [w]))).isSome = w.isThru := by
  cases l <;> cases w <;> decide +kernel

theorem Sep.ivs_split (s : Sep) : ∃ l, s.ivs = s.ivs.take s.cut ++ ivText l [s.last] ∧ (s.ivs.take s.cut).length = s.cut := by
  unfold Sep.ivs Sep.cut ivOff
  by_cases hp : s.pre = []
  · refine ⟨s.lead, ?_, ?_⟩ <;> simp [hp]
  · have e : ivText s.lead (s.pre ++ [s.last]) = ivText s.lead s.pre ++ ivText false [s.last] := by simp [ivText, leadStr]
    refine ⟨false, ?_, ?_⟩
    · rw [if_neg hp, e, List.take_left']; rfl
    · rw [if_neg hp, e, List.take_left']; rfl

theorem Kw.chars_ok (k : Kw) : ∀ c ∈ k.text, digitS.mem c = false ∧ colonS.mem c = false := by
  have h : k.text.all (fun c => !digitS.mem c && !colonS.mem c) = true := by
    cases k with
    | none => rfl
    | sec pl => cases pl <;> decide +kernel
    | lot pl => cases pl <;> decide +kernel
  intro c hc
  simpa using List.all_eq_true.1 h c hc

theorem IvWord.chars_ok (w : IvWord) : ∀ c ∈ w.text, digitS.mem c = false ∧ colonS.mem c = false := by
  have h : w.text.all (fun c => !digitS.mem c && !colonS.mem c) = true := by cases w <;> decide +kernel
  intro c hc
  simpa using List.all_eq_true.1 h c hc

theorem ivText_chars_ok (l : Bool) (ws : List IvWord) : ∀ c ∈ ivText l ws, digitS.mem c = false ∧ colonS.mem c = false := by
  intro c hc
  simp only [ivText, List.mem_append, List.mem_flatMap, List.mem_singleton] at hc
  rcases hc with hc | ⟨w, _, hc | hc⟩
  · cases l <;> simp [leadStr] at hc
    subst hc; decide +kernel
  · exact w.chars_ok c hc
  · subst hc; decide +kernel

theorem Sep.chars_ok (s : Sep) : ∀ c ∈ s.text, digitS.mem c = false ∧ colonS.mem c = false := by
  intro c hc
  rcases List.mem_append.1 hc with hc | hc
  · exact ivText_chars_ok _ _ c hc
  · exact s.kw.chars_ok c hc

/-- where the search window of the next iteration ends inside the tokens still to the right -/
def cutOf : List (Sep × Str) → Nat
  | [] => 0
  | t :: _ => t.1.cut
def junkOf : List (Sep × Str) → Str
  | [] => []
  | t :: _ => t.1.ivs.take t.1.cut

theorem junkOf_ok (suf : List (Sep × Str)) : JunkOK (junkOf suf) := by
  cases suf with
  | nil => exact JunkOK.nil
  | cons t r => exact fun c hc => t.1.chars_ok c (List.mem_append_left _ (List.mem_of_mem_take hc))

theorem junkOf_length (suf : List (Sep × Str)) : (junkOf suf).length = cutOf suf := by
  cases suf with
  | nil => rfl
  | cons t r =>
    obtain ⟨l, _, h⟩ := t.1.ivs_split
    exact h

theorem junkOf_prefix (suf : List (Sep × Str)) : ∃ after, bodyText suf = junkOf suf ++ after := by
  cases suf with
  | nil => exact ⟨[], rfl⟩
  | cons t r =>
    refine ⟨t.1.ivs.drop t.1.cut ++ t.1.kw.text ++ t.2 ++ bodyText r, ?_⟩
    simp only [bodyText, junkOf, Sep.text, List.map_cons, List.flatten_cons, List.append_assoc]
    rw [← List.append_assoc (List.take _ _), List.take_append_drop]

theorem secTokText_append (plural : Bool) (d0 : Str) (a b : List (Sep × Str)) :
    secTokText plural d0 (a ++ b) = secTokText plural d0 a ++ bodyText b := by
  simp [secTokText, bodyText_append]

/-- the first iteration that sees only the head: the first number, not multi -/
theorem sec_view_first (plural : Bool) (d0 : Str) (suf : List (Sep × Str)) (hd : NumStr d0) :
    secView (secTokText plural d0 suf) ((secTokText plural d0 []).length + cutOf suf) = some (tokVal d0, false, 0, false) := by
  obtain ⟨after, haft⟩ := junkOf_prefix suf
  have htxt : secTokText plural d0 suf = (secTokText plural d0 [] ++ junkOf suf) ++ after := by
    rw [show suf = [] ++ suf from rfl, secTokText_append, haft, List.nil_append, List.append_assoc]
  have hm := scan_of_matchHere (sec_match_single plural d0 (junkOf suf) hd (junkOf_ok suf))
  have hs : multisec.rx.search (secTokText plural d0 suf) 0 ((secTokText plural d0 []).length + cutOf suf) =
      some ⟨0, (secTokText plural d0 []).length, secHeadCaps plural d0.length 0⟩ := by
    rw [htxt, ← junkOf_length, ← List.length_append]
    exact (search_window _ _ _).trans hm
  rw [secView_single _ _ _ _ plural d0.length 0 hs]
  have hsl : slice (secTokText plural d0 suf) (0 + (secKwText plural).length) (0 + (secKwText plural).length + d0.length) = d0 :=
    slice_at _ (secKwText plural) d0 (bodyText suf) _ _ (by simp [secTokText]) (by simp) (by simp)
  rw [hsl, hd.pyInt]

theorem secTop_find (s : Sep) (d : Str) (P : Nat) (older : Caps) :
    (secTop s d P ++ older).find? (fun x => x.1 == 17) = some (17, P + s.text.length, P + s.text.length + d.length) ∧
    (secTop s d P ++ older).find? (fun x => x.1 == 8) = some (8, P + s.cut, P + s.ivs.length) := by
  cases hk : s.kw with
  | none => simp [secTop, hk, Kw.secCaps, List.find?]
  | lot pl => simp [secTop, hk, Kw.secCaps, List.find?]
  | sec pl => cases pl <;> simp [secTop, hk, Kw.secCaps, secOWcaps, List.find?]

/-- an iteration that sees `pre ++ [(s, d)]`: the number `d`, multi, next window ends where the last intervener of `s` starts -/
theorem sec_view_more (plural : Bool) (d0 : Str) (pre : List (Sep × Str)) (s : Sep) (d : Str) (suf : List (Sep × Str))
    (hd0 : NumStr d0) (hpre : ∀ t ∈ pre, SecTok t) (hd : SecTok (s, d)) :
    secView (secTokText plural d0 (pre ++ (s, d) :: suf)) ((secTokText plural d0 (pre ++ [(s, d)])).length + cutOf suf) =
      some (tokVal d, true, (secTokText plural d0 pre).length + s.cut, s.isThru) := by
  obtain ⟨after, haft⟩ := junkOf_prefix suf
  have htxt : secTokText plural d0 (pre ++ (s, d) :: suf) = (secTokText plural d0 (pre ++ [(s, d)]) ++ junkOf suf) ++ after := by
    rw [show pre ++ (s, d) :: suf = (pre ++ [(s, d)]) ++ suf by simp, secTokText_append, haft, List.append_assoc]
  obtain ⟨older, hmm⟩ := sec_match_multi plural d0 pre s d (junkOf suf) hd0 hpre hd (junkOf_ok suf)
  have hm := scan_of_matchHere hmm
  have hs : multisec.rx.search (secTokText plural d0 (pre ++ (s, d) :: suf)) 0
      ((secTokText plural d0 (pre ++ [(s, d)])).length + cutOf suf) =
      some ⟨0, (secTokText plural d0 (pre ++ [(s, d)])).length, secTop s d (secTokText plural d0 pre).length ++ older⟩ := by
    rw [htxt, ← junkOf_length, ← List.length_append]
    exact (search_window _ _ _).trans hm
  obtain ⟨h17, h8⟩ := secTop_find s d (secTokText plural d0 pre).length older
  rw [secView_multi _ _ _ _ _ _ _ _ _ hs h17 h8]
  obtain ⟨l, hsplit, hlen⟩ := s.ivs_split
  have hfull : secTokText plural d0 (pre ++ (s, d) :: suf) = secTokText plural d0 pre ++ (s.text ++ (d ++ bodyText suf)) := by
    rw [secTokText_append]; simp [bodyText]
  have hsl1 : slice (secTokText plural d0 (pre ++ (s, d) :: suf)) ((secTokText plural d0 pre).length + s.text.length)
      ((secTokText plural d0 pre).length + s.text.length + d.length) = d :=
    slice_at _ (secTokText plural d0 pre ++ s.text) d (bodyText suf) _ _ (by rw [hfull]; simp) (by simp) (by simp)
  have hivl : s.ivs.length = s.cut + (ivText l [s.last]).length := by
    conv => lhs; rw [hsplit]
    rw [List.length_append, hlen]
  have hsl2 : slice (secTokText plural d0 (pre ++ (s, d) :: suf)) ((secTokText plural d0 pre).length + s.cut)
      ((secTokText plural d0 pre).length + s.ivs.length) = ivText l [s.last] :=
    slice_at _ (secTokText plural d0 pre ++ s.ivs.take s.cut) (ivText l [s.last]) (s.kw.text ++ (d ++ bodyText suf)) _ _
      (by rw [hfull, Sep.text]; conv => lhs; rw [hsplit]
          simp only [List.append_assoc]) (by simp [hlen])
      (by rw [List.length_append, hlen, hivl]; omega)
  rw [hsl1, hsl2, hd.1.pyInt, thru_of_word]
  rfl

/-! ## Part D — the lexical premise `LexList` for the text of every token list, and the expansion theorems for sections -/

/-- the tokens as the loop meets them, in reading order -/
def tokList (d0 : Str) (rest : List (Sep × Str)) : List (Int × Bool) :=
  (tokVal d0, false) :: rest.map (fun t => (tokVal t.2, t.1.isThru))

theorem tokList_snoc (d0 : Str) (pre : List (Sep × Str)) (t : Sep × Str) :
    (tokList d0 (pre ++ [t])).reverse = (tokVal t.2, t.1.isThru) :: (tokList d0 pre).reverse := by
  simp [tokList]

/-- reading the text right to left meets exactly the tokens: at every window end the loop will use -/
theorem sec_lexlist_aux (plural : Bool) (d0 : Str) (hd0 : NumStr d0) : ∀ (rp suf : List (Sep × Str)),
    (∀ t ∈ rp, SecTok t) →
    LexList (secView (secTokText plural d0 (rp.reverse ++ suf))) ((secTokText plural d0 rp.reverse).length + cutOf suf)
      (tokList d0 rp.reverse).reverse := by
  intro rp
  induction rp with
  | nil =>
    intro suf _
    exact .last _ (tokVal d0) false 0 (sec_view_first plural d0 suf hd0) (secView_zero _)
  | cons t rp ih =>
    intro suf hrp
    obtain ⟨s, d⟩ := t
    have hd : SecTok (s, d) := hrp (s, d) (by simp)
    have hrp' : ∀ t ∈ rp, SecTok t := fun t ht => hrp t (by simp [ht])
    have hv := sec_view_more plural d0 rp.reverse s d suf hd0 (fun t ht => hrp' t (by simpa using ht)) hd
    have ih' := ih ((s, d) :: suf) hrp'
    rw [List.reverse_cons, tokList_snoc, List.append_assoc]
    show LexList (secView (secTokText plural d0 (rp.reverse ++ (s, d) :: suf))) _ _
    refine .more _ (tokVal d) s.isThru ((secTokText plural d0 rp.reverse).length + s.cut) _ hv ?_ ih'
    rw [secTokText_append, List.length_append, bodyText_single, List.length_append]
    have := s.cut_lt
    omega

theorem C05_seclist_lexlist (plural : Bool) (d0 : Str) (rest : List (Sep × Str)) (hd0 : NumStr d0) (hrest : ∀ t ∈ rest, SecTok t) :
    LexList (secView (secTokText plural d0 rest)) (secTokText plural d0 rest).length (tokList d0 rest).reverse := by
  have := sec_lexlist_aux plural d0 hd0 rest.reverse [] (fun t ht => hrest t (by simpa using ht))
  simpa [cutOf] using this

theorem expand_nonneg (items : List Item) (h : ∀ t ∈ tokens items, 0 ≤ t.1) : ∀ n ∈ expand items, 0 ≤ n := by
  induction items with
  | nil => intro n hn; simp [expand] at hn
  | cons it r ih =>
    intro n hn
    rw [expand_cons, List.mem_append] at hn
    rw [tokens_cons] at h
    rcases hn with hn | hn
    · cases it with
      | single m =>
        simp only [Item.expand, List.mem_singleton] at hn
        subst hn
        exact h (n, false) (by simp [Item.tokens])
      | range a b =>
        have ha := h (a, false) (by simp [Item.tokens])
        have hb := h (b, true) (by simp [Item.tokens])
        have := (C05_range_expand_mem a b n).1 hn
        simp only at ha hb
        omega
    · exact ih (fun t ht => h t (by simp [ht])) n hn

theorem tokVal_nonneg (d : Str) : 0 ≤ tokVal d := by simp [tokVal]

/-- TOKEN LEVEL: for every keyword form, first number and list of (separator, number) whose through-flags are those of an item
    list, `unpackSections` returns the expansion of the items -/
theorem C05_seclist_tokens_expand (plural : Bool) (d0 : Str) (rest : List (Sep × Str)) (hd0 : NumStr d0)
    (hrest : ∀ t ∈ rest, SecTok t) (items : List Item) (hitems : tokens items = tokList d0 rest) :
    (unpackSections (secTokText plural d0 rest)).secList = (expand items).map pad2 ∧
      (unpackSections (secTokText plural d0 rest)).diverged = false := by
  refine C05_sections_expand _ items (by rw [hitems]; exact C05_seclist_lexlist plural d0 rest hd0 hrest) ?_
  refine expand_nonneg items ?_
  rw [hitems]
  intro t ht
  simp only [tokList, List.mem_cons, List.mem_map] at ht
  rcases ht with rfl | ⟨x, _, rfl⟩ <;> exact tokVal_nonneg _

/-! ### item lists and their renderings -/

/-- numbers that can be written with one to three digits -/
def Item.Small : Item → Prop
  | .single n => 0 ≤ n ∧ n < 1000
  | .range a b => (0 ≤ a ∧ a < 1000) ∧ (0 ≤ b ∧ b < 1000)

theorem numStr_intToStr (n : Int) (h : 0 ≤ n ∧ n < 1000) : NumStr (intToStr n) ∧ tokVal (intToStr n) = n := by
  obtain ⟨m, rfl⟩ := Int.eq_ofNat_of_zero_le h.1
  have hm : m < 1000 := by omega
  rw [show ((m : Nat) : Int) = Int.ofNat m from rfl, intToStr_ofNat]
  have hd := natToStr_isDigits m
  have hl := natToStr_len_lt_1000 m hm
  refine ⟨⟨hd, hl⟩, ?_⟩
  have h1 := pyInt_natToStr m
  rw [pyInt_ascii _ hd (natToStr_ne_nil m)] at h1
  simp only [Option.some.injEq] at h1
  exact h1

/-- the tokens of one item: the separator `sep` before it, and (for a range) the through-separator `w` inside it -/
def itemToks (sep w : Sep) : Item → List (Sep × Str)
  | .single n => [(sep, intToStr n)]
  | .range a b => [(sep, intToStr a), (w, intToStr b)]

/-- a list of items, each with the separator written before it (ignored for the first item) and the through-separator
    written inside it (ignored for a single number) -/
abbrev Styled := List (Sep × Sep × Item)

def Styled.items (l : Styled) : List Item := l.map (·.2.2)
def Styled.toks (l : Styled) : List (Sep × Str) := l.flatMap (fun p => itemToks p.1 p.2.1 p.2.2)

/-- separators between items are not through-words, separators inside ranges are, numbers have one to three digits, repeated
    keywords are of the kind `ok` (`Kw.okSec` for section lists, `Kw.okLot` for lot lists) -/
def Styled.Valid (ok : Kw → Prop) (l : Styled) : Prop :=
  ∀ p ∈ l, p.1.isThru = false ∧ p.2.1.isThru = true ∧ p.2.2.Small ∧ ok p.1.kw ∧ ok p.2.1.kw

/-- the text: keyword, then the tokens with the very first separator dropped -/
def Styled.secText (plural : Bool) (l : Styled) : Str :=
  match l.toks with
  | [] => []
  | t :: rest => secTokText plural t.2 rest

theorem Styled.toks_cons (p : Sep × Sep × Item) (l : Styled) :
    Styled.toks (p :: l) = itemToks p.1 p.2.1 p.2.2 ++ Styled.toks l := by
  simp [Styled.toks]

theorem itemToks_head (sep w : Sep) (it : Item) : ∃ d more, itemToks sep w it = (sep, d) :: more := by
  cases it with
  | single n => exact ⟨_, _, rfl⟩
  | range a b => exact ⟨_, _, rfl⟩

theorem itemToks_props (ok : Kw → Prop) (sep w : Sep) (it : Item) (hs : sep.isThru = false) (hw : w.isThru = true) (hsm : it.Small)
    (hks : ok sep.kw) (hkw : ok w.kw) :
    (∀ t ∈ itemToks sep w it, NumStr t.2 ∧ ok t.1.kw) ∧ (itemToks sep w it).map (fun t => (tokVal t.2, t.1.isThru)) = it.tokens := by
  cases it with
  | single n =>
    obtain ⟨hn, hv⟩ := numStr_intToStr n hsm
    refine ⟨?_, ?_⟩
    · intro t ht
      simp only [itemToks, List.mem_singleton] at ht
      subst ht; exact ⟨hn, hks⟩
    · simp only [itemToks, List.map_cons, List.map_nil, Item.tokens, hv, hs]
  | range a b =>
    obtain ⟨hna, hva⟩ := numStr_intToStr a hsm.1
    obtain ⟨hnb, hvb⟩ := numStr_intToStr b hsm.2
    refine ⟨?_, ?_⟩
    · intro t ht
      simp only [itemToks, List.mem_cons, List.not_mem_nil, or_false] at ht
      rcases ht with rfl | rfl
      · exact ⟨hna, hks⟩
      · exact ⟨hnb, hkw⟩
    · simp only [itemToks, List.map_cons, List.map_nil, Item.tokens, hva, hvb, hs, hw]

theorem Styled.toks_props (ok : Kw → Prop) (l : Styled) (hv : l.Valid ok) :
    (∀ t ∈ l.toks, NumStr t.2 ∧ ok t.1.kw) ∧ l.toks.map (fun t => (tokVal t.2, t.1.isThru)) = tokens l.items := by
  induction l with
  | nil => exact ⟨fun t ht => by simp [Styled.toks] at ht, rfl⟩
  | cons p l ih =>
    obtain ⟨h1, h2⟩ := ih (fun q hq => hv q (by simp [hq]))
    obtain ⟨hs, hw, hsm, hk1, hk2⟩ := hv p (by simp)
    obtain ⟨g1, g2⟩ := itemToks_props ok p.1 p.2.1 p.2.2 hs hw hsm hk1 hk2
    rw [Styled.toks_cons]
    refine ⟨?_, ?_⟩
    · intro t ht
      rcases List.mem_append.1 ht with ht | ht
      · exact g1 t ht
      · exact h1 t ht
    · rw [List.map_append, g2, h2]
      show _ = tokens (p.2.2 :: Styled.items l)
      rw [tokens_cons]

/-- STYLED LISTS (any mixture of the supported separators): `unpackSections` returns the expansion -/
theorem C05_styled_sections_expand (plural : Bool) (l : Styled) (hne : l ≠ []) (hv : l.Valid Kw.okSec) :
    (unpackSections (l.secText plural)).secList = (expand l.items).map pad2 ∧
      (unpackSections (l.secText plural)).diverged = false := by
  obtain ⟨h1, h2⟩ := l.toks_props Kw.okSec hv
  cases l with
  | nil => exact absurd rfl hne
  | cons p l' =>
  obtain ⟨d, more, hd⟩ := itemToks_head p.1 p.2.1 p.2.2
  have hs := (hv p (by simp)).1
  cases htk : Styled.toks (p :: l') with
  | nil => rw [Styled.toks_cons, hd] at htk; cases htk
  | cons t rest =>
    have hfirst : t.1.isThru = false := by
      rw [Styled.toks_cons, hd, List.cons_append, List.cons.injEq] at htk
      rw [← htk.1]; exact hs
    rw [htk] at h1 h2
    simp only [Styled.secText, htk]
    refine C05_seclist_tokens_expand plural t.2 rest (h1 t (by simp)).1 (fun x hx => h1 x (by simp [hx])) (Styled.items (p :: l')) ?_
    rw [← h2]
    simp [tokList, hfirst]

/-! ### the canonical rendering: `Sections 1 - 3, 5, 9 - 7` -/

def commaSep : Sep := ⟨false, [], .comma, .none⟩
def dashSep : Sep := ⟨true, [], .dash, .none⟩

theorem commaSep_text : commaSep.text = [',', ' '] := rfl
theorem dashSep_text : dashSep.text = [' ', '-', ' '] := rfl

def itemText : Item → Str
  | .single n => intToStr n
  | .range a b => intToStr a ++ [' ', '-', ' '] ++ intToStr b

/-- `"Sections " + ", ".join(items)` -/
def secListText (items : List Item) : Str := "Sections ".toList ++ [',', ' '].intercalate (items.map itemText)

def canonStyled (items : List Item) : Styled := items.map (fun it => (commaSep, dashSep, it))

theorem canon_body (items : List Item) (hne : items ≠ []) :
    bodyText (canonStyled items).toks = [',', ' '] ++ [',', ' '].intercalate (items.map itemText) := by
  induction items with
  | nil => exact absurd rfl hne
  | cons it r ih =>
    have hit : bodyText (itemToks commaSep dashSep it) = [',', ' '] ++ itemText it := by
      cases it <;> simp [itemToks, bodyText, itemText, commaSep_text, dashSep_text]
    have hsplit : (canonStyled (it :: r)).toks = itemToks commaSep dashSep it ++ (canonStyled r).toks := by
      simp [canonStyled, Styled.toks]
    rw [hsplit, bodyText_append, hit]
    cases r with
    | nil => simp [canonStyled, Styled.toks, bodyText, List.intercalate]
    | cons it2 r2 =>
      rw [ih (by simp)]
      simp only [List.map_cons, List.intercalate_cons_cons, List.append_assoc]

theorem sections_kw : "Sections ".toList = secKwText true := by decide

theorem secListText_cons (it : Item) (r : List Item) : secListText (it :: r) = (canonStyled (it :: r)).secText true := by
  have hb := canon_body (it :: r) (by simp)
  obtain ⟨d, more, hd⟩ := itemToks_head commaSep dashSep it
  have hsplit : (canonStyled (it :: r)).toks = (commaSep, d) :: (more ++ (canonStyled r).toks) := by
    rw [show canonStyled (it :: r) = (commaSep, dashSep, it) :: canonStyled r from rfl, Styled.toks_cons, hd]
    simp only [List.cons_append]
  rw [hsplit] at hb
  simp only [bodyText, List.map_cons, List.flatten_cons, commaSep_text, List.cons_append, List.nil_append,
    List.cons.injEq, true_and] at hb
  unfold Styled.secText
  simp only [hsplit]
  unfold secListText secTokText bodyText
  rw [List.map_cons, ← hb, sections_kw, List.append_assoc]

theorem secListText_eq (items : List Item) (hne : items ≠ []) : secListText items = (canonStyled items).secText true := by
  cases items with
  | nil => exact absurd rfl hne
  | cons it r => exact secListText_cons it r

theorem canonStyled_valid (ok : Kw → Prop) (hok : ok .none) (items : List Item) (h : ∀ it ∈ items, it.Small) :
    (canonStyled items).Valid ok := by
  intro p hp
  simp only [canonStyled, List.mem_map] at hp
  obtain ⟨it, hit, rfl⟩ := hp
  exact ⟨rfl, rfl, h it hit, hok, hok⟩

theorem canonStyled_items (items : List Item) : (canonStyled items).items = items := by
  induction items with
  | nil => rfl
  | cons it r ih => simp only [canonStyled, Styled.items, List.map_cons, List.cons.injEq, true_and] at ih ⊢; exact ih

/-- THE CANONICAL SECTION LIST, every length: `Sections ` + the items joined by `, `, an item being `n` or `a - b` with numbers
    0 … 999 written without padding, denotes exactly the expansion of the items (ranges in either direction, duplicates kept) -/
theorem C05_canonical_sections_expand (items : List Item) (hne : items ≠ []) (hsmall : ∀ it ∈ items, it.Small) :
    (unpackSections (secListText items)).secList = (expand items).map pad2 ∧
      (unpackSections (secListText items)).diverged = false := by
  rw [secListText_eq items hne]
  have := C05_styled_sections_expand true (canonStyled items) (by simpa [canonStyled] using hne) (canonStyled_valid Kw.okSec trivial items hsmall)
  rwa [canonStyled_items] at this

/-! ## Part E — lots: the regenerated `multilot_regex` -/

def lotLW : Rx := Gen.multilot_regex.pick [0, 0, 1, 0, 0]
def lS : CharSet := (lotLW.pick [0, 0]).set
def lotBehindS : CharSet := match Gen.multilot_regex.pick [0, 0, 0, 0, 0] with | .behind c => c | _ => []
def lotWordS : CharSet := match Gen.multilot_regex.pick [0, 0, 0, 0, 1] with | .wordb c => c | _ => []
/-- the acreage sub-pattern `\(\d{0,3}\.?\d{0,6}\)|\[…\]` -/
def acrRx : Rx := Gen.multilot_regex.pick [0, 0, 1, 0, 1, 1, 1, 1, 1, 1, 0, 0, 0]

/-- `(L\.?|Lt\.?|Lot)` -/
def lotKw : Rx := .grp 4 (.seq (.chr lS) (.alt (.rep (.chr dotS) 0 (some 1)) (.alt (.seq (.chr tS) (.rep (.chr dotS) 0 (some 1))) (.seq (.chr oS) (.chr tS)))))
/-- `\s*(?!\s)(acreage)?` -/
def lotTail (g : Nat) : Rx := .seq wsStar (.seq (.nahead (.chr wsS)) (.rep (.grp g (.grp (g + 1) acrRx)) 0 (some 1)))
def lotRest : Rx := .seq (.rep (.grp 5 (.chr sS)) 0 (some 1)) (.seq wsStar (.seq (numRx 6) (lotTail 7)))
def lotG3 : Rx := .grp 3 (.seq lotKw lotRest)
def lotG2 : Rx := .grp 2 (.alt (.behind lotBehindS) (.wordb lotWordS))
def lotOW : Rx := Gen.multilot_regex.pick [1, 0, 0, 1, 0]
def lotBody : Rx := .seq (ivRx 10 11 12) (.seq lotOW (.seq wsStar (.seq (numRx 20) (lotTail 21))))

theorem multilot_decomp : Gen.multilot_regex = .seq (.grp 1 (.seq lotG2 lotG3)) (.rep (.grp 9 lotBody) 0 none) := rfl

theorem lotKw_all (prev : Option Char) (tail : Str) (pos : Nat) (caps : Caps) :
    lotKw.all ⟨prev, 'L' :: 'o' :: 't' :: tail, pos, caps⟩ =
      [⟨some 'L', 'o' :: 't' :: tail, pos + 1, (4, pos, pos + 1) :: caps⟩, ⟨some 't', tail, pos + 3, (4, pos, pos + 3) :: caps⟩] := by
  have h1 : lS.mem 'L' = true := by decide +kernel
  have h2 : dotS.mem 'o' = false := by decide +kernel
  have h3 : tS.mem 'o' = false := by decide +kernel
  have h4 : oS.mem 'o' = true := by decide +kernel
  have h5 : tS.mem 't' = true := by decide +kernel
  simp [lotKw, Rx.all, h1, h2, h3, h4, h5, repAll, canMore]

/-- the first path of `a` cannot be continued by `b`, the second can -/
theorem Leads.seq_skip {a b : Rx} {s s1 s2 s3 : St} {tl : List St} (ha : a.all s = s1 :: s2 :: tl) (hf : Fails b s1)
    (h2 : Leads b s2 s3) : Leads (.seq a b) s s3 := by
  obtain ⟨t2, e2⟩ := h2.cons
  unfold Fails at hf
  unfold Leads
  simp only [Rx.all, ha, List.flatMap_cons, hf, List.nil_append, e2, List.cons_append, List.head?_cons]

/-- what may follow a lot number and its trailing blanks: no white space, no digit, no opening bracket of an acreage -/
def LotStop (tail : Str) : Prop :=
  ∀ c, tail.head? = some c → wsS.mem c = false ∧ digitS.mem c = false ∧ acrRx.firstSets.all (fun cs => !cs.mem c) = true

theorem LotStop.nil : LotStop [] := fun _ h => by cases h

theorem LotStop.ws {tail : Str} (h : LotStop tail) : StopAt wsS tail := fun c hc => (h c hc).1
theorem LotStop.digit {tail : Str} (h : LotStop tail) : StopAt digitS tail := fun c hc => (h c hc).2.1

theorem IvWord.lotStop (w : IvWord) (t : Str) : LotStop (w.text ++ t) := by
  intro c hc
  cases w <;> simp only [IvWord.text, List.cons_append, List.head?_cons, Option.some.injEq] at hc <;> subst hc <;> decide +kernel

theorem ivText_lotStop (w : IvWord) (ws : List IvWord) (t : Str) : LotStop (ivText false (w :: ws) ++ t) := by
  rw [ivText_cons]
  simp only [leadStr, Bool.false_eq_true, if_false, List.nil_append, List.append_assoc]
  exact w.lotStop _

theorem acrRx_nullable : acrRx.nullable = false := by decide +kernel

/-- `\s*(?!\s)(acreage)?` eats the blanks after a number -/
theorem eats_lotTail (g : Nat) (lead : Bool) (tail : Str) (ht : LotStop tail) :
    Eats (lotTail g) (leadStr lead) tail (fun _ caps => caps) := by
  have h1 := eats_dead wsS (leadStr lead) ([] ++ ([] ++ tail)) (leadStr_ws lead) ht.ws
  have h2 := Eats.nahead_chr wsS ([] ++ tail) ht.ws
  have h3 : Eats (.rep (.grp g (.grp (g + 1) acrRx)) 0 (some 1)) [] tail (fun _ caps => caps) := by
    refine Eats.opt_none (FailsOn.grp _ (FailsOn.grp _ (FailsOn.of_first acrRx_nullable ?_)))
    intro c hc cs hcs
    have := List.all_eq_true.1 (ht c hc).2.2 cs hcs
    simpa using this
  exact (Eats.seq h1 (Eats.seq h2 h3)).cast (by simp) (fun _ _ => rfl)

/-- the interveners of the separator without the leading blank (which belongs to the previous number's trailing `\s*`) -/
def Sep.civ (s : Sep) : Str := ivText false (s.pre ++ [s.last])
/-- the separator without its leading blank -/
def Sep.core (s : Sep) : Str := s.civ ++ s.kw.text
/-- offset of the last intervener within the separator, as `multilot_regex` sees it -/
def Sep.lotCut (s : Sep) : Nat := (ivText s.lead s.pre).length

theorem Sep.text_core (s : Sep) : s.text = leadStr s.lead ++ s.core := by
  simp [Sep.text, Sep.ivs, Sep.core, Sep.civ, ivText, leadStr]

theorem lotOW_eq : lotOW = .rep (lotOW.pick [0]) 0 (some 1) := rfl

theorem eats_lotOW_none (tail : Str) (h : DigitHead tail) : Eats lotOW [] tail (fun _ caps => caps) := by
  rw [lotOW_eq]
  exact Eats.opt_none (failsOn_digit_first _ (by decide +kernel) (by decide +kernel) tail h)

/-- the repeated keyword of `multilot_regex`: `((L\.?|Lt\.?|Lot)(s)?)?`; all its paths on "Lot" / "Lots" -/
def lotKw' (g : Nat) : Rx := .grp g (.seq (.chr lS) (.alt (.rep (.chr dotS) 0 (some 1)) (.alt (.seq (.chr tS) (.rep (.chr dotS) 0 (some 1))) (.seq (.chr oS) (.chr tS)))))
theorem lotOW_struct : lotOW = .rep (.grp 17 (.seq (lotKw' 18) (.rep (.grp 19 (.chr sS)) 0 (some 1)))) 0 (some 1) := rfl

theorem lotOW_all_sing (prev : Option Char) (c : Char) (tail : Str) (pos : Nat) (caps : Caps) (hc : sS.mem c = false) :
    lotOW.all ⟨prev, 'L' :: 'o' :: 't' :: c :: tail, pos, caps⟩ =
      [⟨some 'L', 'o' :: 't' :: c :: tail, pos + 1, (17, pos, pos + 1) :: (18, pos, pos + 1) :: caps⟩,
       ⟨some 't', c :: tail, pos + 3, (17, pos, pos + 3) :: (18, pos, pos + 3) :: caps⟩,
       ⟨prev, 'L' :: 'o' :: 't' :: c :: tail, pos, caps⟩] := by
  have h1 : lS.mem 'L' = true := by decide +kernel
  have h2 : dotS.mem 'o' = false := by decide +kernel
  have h3 : tS.mem 'o' = false := by decide +kernel
  have h4 : oS.mem 'o' = true := by decide +kernel
  have h5 : tS.mem 't' = true := by decide +kernel
  have h6 : sS.mem 'o' = false := by decide +kernel
  rw [lotOW_struct]
  simp [lotKw', Rx.all, h1, h2, h3, h4, h5, h6, hc, repAll, canMore]

theorem lotOW_all_plur (prev : Option Char) (tail : Str) (pos : Nat) (caps : Caps) :
    lotOW.all ⟨prev, 'L' :: 'o' :: 't' :: 's' :: tail, pos, caps⟩ =
      [⟨some 'L', 'o' :: 't' :: 's' :: tail, pos + 1, (17, pos, pos + 1) :: (18, pos, pos + 1) :: caps⟩,
       ⟨some 's', tail, pos + 4, (17, pos, pos + 4) :: (19, pos + 3, pos + 4) :: (18, pos, pos + 3) :: caps⟩,
       ⟨some 't', 's' :: tail, pos + 3, (17, pos, pos + 3) :: (18, pos, pos + 3) :: caps⟩,
       ⟨prev, 'L' :: 'o' :: 't' :: 's' :: tail, pos, caps⟩] := by
  have h1 : lS.mem 'L' = true := by decide +kernel
  have h2 : dotS.mem 'o' = false := by decide +kernel
  have h3 : tS.mem 'o' = false := by decide +kernel
  have h4 : oS.mem 'o' = true := by decide +kernel
  have h5 : tS.mem 't' = true := by decide +kernel
  have h6 : sS.mem 'o' = false := by decide +kernel
  have h7 : sS.mem 's' = true := by decide +kernel
  rw [lotOW_struct]
  simp [lotKw', Rx.all, h1, h2, h3, h4, h5, h6, h7, repAll, canMore]

/-- the captures the repeated keyword adds (lots) -/
def lotOWcaps (plural : Bool) (p : Nat) : Caps :=
  if plural then [(17, p, p + 4), (19, p + 3, p + 4), (18, p, p + 3)] else [(17, p, p + 3), (18, p, p + 3)]

def Kw.lotCaps : Kw → Nat → Caps
  | .lot pl, p => lotOWcaps pl p
  | _, _ => []

/-- what follows the optional keyword in the repeated group of `multilot_regex` -/
def lotRest2 : Rx := .seq wsStar (.seq (numRx 20) (lotTail 21))

theorem lotBody_eq : lotBody = .seq (ivRx 10 11 12) (.seq lotOW lotRest2) := rfl

theorem lotRest2_first : lotRest2.nullable = false ∧ lotRest2.firstSets.all (fun cs => !cs.mem 'o') = true := by decide +kernel

/-- the repeated keyword "Lot(s)" and what follows it: the first path of the keyword group ("L" alone) cannot be continued -/
theorem eats_lotOW_some (plural : Bool) (seg tail : Str) (f : Nat → Caps → Caps) (h : Eats lotRest2 (' ' :: seg) tail f) :
    Eats (.seq lotOW lotRest2) ((['L', 'o', 't'] ++ (if plural then ['s'] else [])) ++ ' ' :: seg) tail
      (fun pos caps => f (pos + (3 + (if plural then 1 else 0))) (lotOWcaps plural pos ++ caps)) := by
  intro prev pos caps
  have hfail : ∀ (x : Str) (p : Option Char) (q : Nat) (c : Caps), Fails lotRest2 ⟨p, 'o' :: x, q, c⟩ := by
    intro x p q c
    refine FailsOn.of_first lotRest2_first.1 ?_ _ _ _
    intro ch hch cs hcs
    simp only [List.head?_cons, Option.some.injEq] at hch
    subst hch
    simpa using List.all_eq_true.1 lotRest2_first.2 cs hcs
  cases plural with
  | false =>
    have hall := lotOW_all_sing prev ' ' (seg ++ tail) pos caps (by decide +kernel)
    have h2 := h (some 't') (pos + 3) ((17, pos, pos + 3) :: (18, pos, pos + 3) :: caps)
    have := Leads.seq_skip hall (hfail _ _ _ _) h2
    have e : pos + (3 + (seg.length + 1)) = pos + (seg.length + 4) := by omega
    simpa [lotOWcaps, lastOr, Nat.add_assoc, e] using this
  | true =>
    have hall := lotOW_all_plur prev (' ' :: (seg ++ tail)) pos caps
    have h2 := h (some 's') (pos + 4) ((17, pos, pos + 4) :: (19, pos + 3, pos + 4) :: (18, pos, pos + 3) :: caps)
    have := Leads.seq_skip hall (hfail _ _ _ _) h2
    have e : pos + (4 + (seg.length + 1)) = pos + (seg.length + 5) := by omega
    simpa [lotOWcaps, lastOr, Nat.add_assoc, e] using this

def lotTop (s : Sep) (d : Str) (nl : Bool) (P : Nat) : Caps :=
  [(9, P, P + (s.core ++ d ++ leadStr nl).length), (20, P + s.core.length, P + s.core.length + d.length)] ++
    (s.kw.lotCaps (P + s.civ.length) ++
      [(10, P + ivOff false s.pre, P + s.civ.length), (11, P + ivOff false s.pre, P + s.civ.length)])

theorem ivStop_L (t : Str) : IvStop ('L' :: t) := by
  intro c hc cs hcs
  simp only [List.head?_cons, Option.some.injEq] at hc
  subst hc
  have h : (ivX 0 0 0).firstSets.all (fun cs => !cs.mem 'L') = true := by decide +kernel
  simpa using List.all_eq_true.1 h cs hcs

/-- one iteration of the repeated group of `multilot_regex` -/
theorem eatsT_lotBody (s : Sep) (d : Str) (nl : Bool) (tail : Str) (hk : s.kw.okLot) (hd : NumStr d) (ht : LotStop tail) :
    EatsT (.grp 9 lotBody) (s.core ++ d ++ leadStr nl) tail (lotTop s d nl) := by
  have hT := eats_lotTail 21 nl tail ht
  have hstop : StopAt digitS (leadStr nl ++ tail) := by
    cases nl
    · exact ht.digit
    · exact StopAt.cons (by decide +kernel)
  have hN := eats_num 20 d (leadStr nl ++ tail) hd hstop
  rw [lotBody_eq]
  cases hkw : s.kw with
  | sec pl => rw [hkw] at hk; exact hk.elim
  | none =>
    have hWS := eats_dead wsS [] ((d ++ leadStr nl) ++ tail) (fun c hc => by cases hc)
      (by rw [List.append_assoc]; exact (hd.digitHead _).not_ws)
    have hOW := eats_lotOW_none (([] ++ (d ++ leadStr nl)) ++ tail) (by simpa using hd.digitHead (leadStr nl ++ tail))
    obtain ⟨J, h1⟩ := eats_ivRx 10 11 12 false s.pre s.last (([] ++ ([] ++ (d ++ leadStr nl))) ++ tail)
      (by simpa using (hd.digitHead (leadStr nl ++ tail)).ivStop)
    have hR : Eats lotRest2 ([] ++ (d ++ leadStr nl)) tail _ := Eats.seq hWS (Eats.seq hN hT)
    have h := Eats.grp 9 (Eats.seq h1 (Eats.seq hOW hR))
    refine ⟨J, h.cast (by simp [Sep.core, Sep.civ, hkw, Kw.text]) (fun pos caps => ?_)⟩
    simp [lotTop, Sep.core, Sep.civ, hkw, Kw.text, Kw.lotCaps, Nat.add_assoc]
  | lot pl =>
    have hWS := eats_dead wsS [' '] ((d ++ leadStr nl) ++ tail)
      (by intro c hc; simp only [List.mem_singleton] at hc; subst hc; decide +kernel)
      (by rw [List.append_assoc]; exact (hd.digitHead _).not_ws)
    have hR : Eats lotRest2 ([' '] ++ (d ++ leadStr nl)) tail _ := Eats.seq hWS (Eats.seq hN hT)
    have hOW := eats_lotOW_some pl (d ++ leadStr nl) tail _ hR
    obtain ⟨J, h1⟩ := eats_ivRx 10 11 12 false s.pre s.last
      ((((['L', 'o', 't'] ++ (if pl then ['s'] else [])) ++ ' ' :: (d ++ leadStr nl))) ++ tail) (ivStop_L _)
    have h := Eats.grp 9 (Eats.seq h1 hOW)
    refine ⟨J, h.cast (by simp [Sep.core, Sep.civ, hkw, Kw.text, lotKwText]) (fun pos caps => ?_)⟩
    cases pl <;> simp [lotTop, Sep.core, Sep.civ, hkw, Kw.text, Kw.lotCaps, lotKwText, lotOWcaps, Nat.add_assoc]

theorem lotBody_mustHit : (Rx.grp 9 lotBody).mustHitP (fun cs => cs == digitS) = true := by decide +kernel

theorem fails_lotBody_noDigit (junk : Str) (hj : NoDigit junk) : FailsOn (.grp 9 lotBody) junk := by
  intro prev pos caps
  refine Fails.of_noHit lotBody_mustHit ?_
  intro c hc cs hcs
  have : cs = digitS := by simpa using hcs
  rw [this]; exact hj c hc

/-! ### the head of `multilot_regex`: the word "Lot(s)", one blank, the first number, its trailing blanks -/

def lotHeadCaps (plural : Bool) (k0 nl : Nat) : Caps :=
  [(1, 0, (lotKwText plural).length + k0 + nl), (3, 0, (lotKwText plural).length + k0 + nl),
   (6, (lotKwText plural).length, (lotKwText plural).length + k0)] ++
    ((if plural then [(5, 3, 4)] else []) ++ [(4, 0, 3), (2, 0, 0)])

theorem lotRest_first : lotRest.nullable = false ∧ lotRest.firstSets.all (fun cs => !cs.mem 'o') = true := by decide +kernel

theorem eats_lotRest (plural : Bool) (d0 : Str) (nl : Bool) (tail : Str) (hd : NumStr d0) (ht : LotStop tail) :
    Eats lotRest (((if plural then ['s'] else []) ++ [' ']) ++ d0 ++ leadStr nl) tail
      (fun pos caps => (6, pos + ((if plural then ['s'] else []) ++ [' ']).length,
          pos + ((if plural then ['s'] else []) ++ [' ']).length + d0.length) ::
        ((if plural then [(5, pos, pos + 1)] else []) ++ caps)) := by
  have hT := eats_lotTail 7 nl tail ht
  have hstop : StopAt digitS (leadStr nl ++ tail) := by
    cases nl
    · exact ht.digit
    · exact StopAt.cons (by decide +kernel)
  have hN := eats_num 6 d0 (leadStr nl ++ tail) hd hstop
  have hWS := eats_dead wsS [' '] ((d0 ++ leadStr nl) ++ tail)
    (by intro c hc; simp only [List.mem_singleton] at hc; subst hc; decide +kernel)
    (by rw [List.append_assoc]; exact (hd.digitHead _).not_ws)
  have h3 := Eats.seq hWS (Eats.seq hN hT)
  cases plural with
  | false =>
    have hP : Eats (.rep (.grp 5 (.chr sS)) 0 (some 1)) [] (([' '] ++ (d0 ++ leadStr nl)) ++ tail) (fun _ caps => caps) :=
      Eats.opt_none (FailsOn.grp 5 (FailsOn.chr sS _ (StopAt.cons (by decide +kernel))))
    refine (Eats.seq hP h3).cast (by simp) (fun pos caps => ?_)
    simp
  | true =>
    have hP : Eats (.rep (.grp 5 (.chr sS)) 0 (some 1)) ['s'] (([' '] ++ (d0 ++ leadStr nl)) ++ tail)
        (fun pos caps => (5, pos, pos + 1) :: caps) :=
      Eats.opt_some (Eats.grp 5 (Eats.chr sS 's' _ (by decide +kernel)))
    refine (Eats.seq hP h3).cast (by simp) (fun pos caps => ?_)
    simp [Nat.add_assoc]

theorem leads_lotG2 (t : Str) : Leads lotG2 ⟨none, 'L' :: t, 0, []⟩ ⟨none, 'L' :: t, 0, [(2, 0, 0)]⟩ := by
  have h : lotWordS.mem 'L' = true := by decide +kernel
  simp [Leads, lotG2, Rx.all, isWord, h]

/-- the head of the pattern at the start of the text -/
theorem leads_lotHead (plural : Bool) (d0 : Str) (nl : Bool) (tail : Str) (hd : NumStr d0) (ht : LotStop tail) :
    Leads (.grp 1 (.seq lotG2 lotG3)) ⟨none, (lotKwText plural ++ d0 ++ leadStr nl) ++ tail, 0, []⟩
      ⟨lastOr none (lotKwText plural ++ d0 ++ leadStr nl), tail, (lotKwText plural ++ d0 ++ leadStr nl).length,
        lotHeadCaps plural d0.length (leadStr nl).length⟩ := by
  have hR := eats_lotRest plural d0 nl tail hd ht (some 't') 3 [(4, 0, 3), (2, 0, 0)]
  have hfail : Fails lotRest ⟨some 'L', 'o' :: 't' :: ((((if plural then ['s'] else []) ++ [' ']) ++ d0 ++ leadStr nl) ++ tail), 1,
      [(4, 0, 1), (2, 0, 0)]⟩ := by
    refine FailsOn.of_first lotRest_first.1 ?_ _ _ _
    intro c hc cs hcs
    simp only [List.head?_cons, Option.some.injEq] at hc
    subst hc
    simpa using List.all_eq_true.1 lotRest_first.2 cs hcs
  have hK := Leads.seq_skip (lotKw_all none ((((if plural then ['s'] else []) ++ [' ']) ++ d0 ++ leadStr nl) ++ tail) 0 [(2, 0, 0)])
    hfail hR
  have h3 : Leads lotG3 _ _ := Leads.grp 3 hK
  have h2 := leads_lotG2 ('o' :: 't' :: ((((if plural then ['s'] else []) ++ [' ']) ++ d0 ++ leadStr nl) ++ tail))
  have h := Leads.grp 1 (Leads.seq h2 h3)
  have htxt : (lotKwText plural ++ d0 ++ leadStr nl) ++ tail =
      'L' :: 'o' :: 't' :: ((((if plural then ['s'] else []) ++ [' ']) ++ d0 ++ leadStr nl) ++ tail) := by
    simp [lotKwText]
  have hlo : lastOr none (lotKwText plural ++ d0 ++ leadStr nl) =
      lastOr (some 't') (((if plural then ['s'] else []) ++ [' ']) ++ d0 ++ leadStr nl) := by
    simp [lotKwText, lastOr]
  rw [htxt, hlo]
  unfold Leads at h ⊢
  rw [h]
  cases plural <;> simp [lotHeadCaps, lotKwText] <;> omega

/-! ### the text of a lot list, cut into the segments the iterations of the repeated group eat -/

def lotTokText (plural : Bool) (d0 : Str) (rest : List (Sep × Str)) : Str := (lotKwText plural ++ d0) ++ bodyText rest

/-- the leading blank of the first separator (`l` when there is none) -/
def headLead : List (Sep × Str) → Bool → Bool
  | [], l => l
  | t :: _, _ => t.1.lead

/-- one segment per token: the separator without its leading blank, the number, the leading blank of the NEXT separator -/
def lotSegs : List (Sep × Str) → Bool → List Str
  | [], _ => []
  | t :: r, l => (t.1.core ++ t.2 ++ leadStr (headLead r l)) :: lotSegs r l

theorem lotSegs_body (rest : List (Sep × Str)) (l : Bool) :
    bodyText rest ++ leadStr l = leadStr (headLead rest l) ++ (lotSegs rest l).flatten := by
  induction rest with
  | nil => simp [bodyText, headLead, lotSegs]
  | cons t r ih =>
    have : bodyText (t :: r) = t.1.text ++ t.2 ++ bodyText r := by simp [bodyText]
    rw [this, List.append_assoc, ih, Sep.text_core]
    simp [headLead, lotSegs]

theorem headLead_snoc (pre : List (Sep × Str)) (t : Sep × Str) (l : Bool) : headLead (pre ++ [t]) l = headLead pre t.1.lead := by
  cases pre <;> rfl

theorem lotSegs_snoc (pre : List (Sep × Str)) (t : Sep × Str) (l : Bool) :
    lotSegs (pre ++ [t]) l = lotSegs pre t.1.lead ++ [t.1.core ++ t.2 ++ leadStr l] := by
  induction pre with
  | nil => simp [lotSegs, headLead]
  | cons p pre ih => simp only [List.cons_append, lotSegs, ih, headLead_snoc]

theorem lotSegs_mem (pre : List (Sep × Str)) (l : Bool) (seg : Str) (h : seg ∈ lotSegs pre l) :
    ∃ t ∈ pre, ∃ b, seg = t.1.core ++ t.2 ++ leadStr b := by
  induction pre with
  | nil => simp [lotSegs] at h
  | cons p pre ih =>
    simp only [lotSegs, List.mem_cons] at h
    rcases h with rfl | h
    · exact ⟨p, by simp, _, rfl⟩
    · obtain ⟨t, ht, b, hb⟩ := ih h
      exact ⟨t, by simp [ht], b, hb⟩

theorem Sep.core_lotStop (s : Sep) (t : Str) : LotStop (s.core ++ t) := by
  unfold Sep.core Sep.civ
  rw [List.append_assoc]
  cases hp : s.pre with
  | nil => exact ivText_lotStop _ _ _
  | cons w ws => exact ivText_lotStop _ _ _

theorem Sep.civ_ne (s : Sep) : s.civ ≠ [] := by
  intro h
  have := congrArg List.length h
  cases hp : s.pre <;> simp [Sep.civ, hp, ivText, leadStr, IvWord.text_ne] at this

theorem Sep.core_ne (s : Sep) : s.core ≠ [] := by
  unfold Sep.core
  simp [s.civ_ne]

/-- the greedy loop of `multilot_regex` over all the tokens after the first number -/
theorem lotChain (junk : Str) (hj : NoDigit junk) (hjs : LotStop junk) (s : Sep) (d : Str) (l : Bool) (hd : LotTok (s, d))
    (pre : List (Sep × Str)) (hpre : ∀ t ∈ pre, LotTok t) :
    ∃ J : Nat → Caps, ∀ (prev : Option Char) (pos : Nat) (caps : Caps),
      IterChain (.grp 9 lotBody) ⟨prev, ((lotSegs pre s.lead).flatten ++ (s.core ++ d ++ leadStr l)) ++ junk, pos, caps⟩
        ⟨lastOr prev ((lotSegs pre s.lead).flatten ++ (s.core ++ d ++ leadStr l)), junk,
          pos + ((lotSegs pre s.lead).flatten ++ (s.core ++ d ++ leadStr l)).length,
          lotTop s d l (pos + (lotSegs pre s.lead).flatten.length) ++ (J pos ++ caps)⟩ ((lotSegs pre s.lead).length + 1) := by
  refine segChain (.grp 9 lotBody) LotStop junk (s.core ++ d ++ leadStr l) (lotTop s d l) (fails_lotBody_noDigit junk hj)
    (eatsT_lotBody s d l junk hd.2 hd.1 hjs) (by simp [Sep.core_ne]) (by rw [List.append_assoc, List.append_assoc]; exact s.core_lotStop _)
    (lotSegs pre s.lead) ?_
  intro seg hseg
  obtain ⟨t, ht, b, rfl⟩ := lotSegs_mem pre s.lead seg hseg
  refine ⟨by simp [Sep.core_ne], fun tail htail => ⟨(eatsT_lotBody t.1 t.2 b tail (hpre t ht).2 (hpre t ht).1 htail).toJ, ?_⟩⟩
  rw [List.append_assoc, List.append_assoc]; exact t.1.core_lotStop _

/-! ### the whole pattern on the text of a lot list -/

theorem lot_match_single (plural : Bool) (d0 : Str) (l : Bool) (junk : Str) (hd : NumStr d0) (hj : NoDigit junk) (hjs : LotStop junk) :
    matchHere Gen.multilot_regex ⟨none, (lotTokText plural d0 [] ++ leadStr l) ++ junk, 0, []⟩ false =
      some ⟨0, (lotTokText plural d0 [] ++ leadStr l).length, lotHeadCaps plural d0.length (leadStr l).length⟩ := by
  have h1 := leads_lotHead plural d0 l junk hd hjs
  have h2 : Leads (.rep (.grp 9 lotBody) 0 none) _ _ :=
    Leads.iter (lo := 0) (.stop _ (fails_lotBody_noDigit junk hj (lastOr none (lotKwText plural ++ d0 ++ leadStr l))
      (lotKwText plural ++ d0 ++ leadStr l).length (lotHeadCaps plural d0.length (leadStr l).length))) (Nat.le_refl _)
  have h := Leads.seq h1 h2
  rw [multilot_decomp]
  have := matchHere_of_leads false h (Or.inl rfl)
  simpa [lotTokText, bodyText] using this

theorem lot_match_multi (plural : Bool) (d0 : Str) (pre : List (Sep × Str)) (s : Sep) (d : Str) (l : Bool) (junk : Str)
    (hd0 : NumStr d0) (hpre : ∀ t ∈ pre, LotTok t) (hd : LotTok (s, d)) (hj : NoDigit junk) (hjs : LotStop junk) :
    ∃ (older : Caps) (stop : Nat), matchHere Gen.multilot_regex
        ⟨none, (lotTokText plural d0 (pre ++ [(s, d)]) ++ leadStr l) ++ junk, 0, []⟩ false =
      some ⟨0, stop, lotTop s d l ((lotTokText plural d0 pre).length + (leadStr s.lead).length) ++ older⟩ := by
  obtain ⟨J, hc⟩ := lotChain junk hj hjs s d l hd pre hpre
  let hl := headLead pre s.lead
  have hbody : bodyText (pre ++ [(s, d)]) ++ leadStr l = leadStr hl ++ ((lotSegs pre s.lead).flatten ++ (s.core ++ d ++ leadStr l)) := by
    rw [lotSegs_body, headLead_snoc, lotSegs_snoc]; simp [hl]
  have hbody2 : bodyText pre ++ leadStr s.lead = leadStr hl ++ (lotSegs pre s.lead).flatten := lotSegs_body pre s.lead
  have hP : (lotTokText plural d0 pre).length + (leadStr s.lead).length =
      (lotKwText plural ++ d0 ++ leadStr hl).length + (lotSegs pre s.lead).flatten.length := by
    have := congrArg List.length hbody2
    simp only [List.length_append] at this
    simp only [lotTokText, List.length_append]
    omega
  have hstop : LotStop (((lotSegs pre s.lead).flatten ++ (s.core ++ d ++ leadStr l)) ++ junk) := by
    cases hpre' : pre with
    | nil => simp only [lotSegs, List.flatten_nil, List.nil_append, List.append_assoc]; exact s.core_lotStop _
    | cons t r => simp only [lotSegs, List.flatten_cons, List.append_assoc]; exact t.1.core_lotStop _
  have h1 := leads_lotHead plural d0 hl _ hd0 hstop
  have h2 := Leads.iter (lo := 0) (hc (lastOr none (lotKwText plural ++ d0 ++ leadStr hl)) (lotKwText plural ++ d0 ++ leadStr hl).length
    (lotHeadCaps plural d0.length (leadStr hl).length)) (Nat.zero_le _)
  have h := Leads.seq h1 h2
  have htxt : (lotTokText plural d0 (pre ++ [(s, d)]) ++ leadStr l) ++ junk =
      (lotKwText plural ++ d0 ++ leadStr hl) ++ (((lotSegs pre s.lead).flatten ++ (s.core ++ d ++ leadStr l)) ++ junk) := by
    simp only [lotTokText, List.append_assoc]
    rw [← List.append_assoc (bodyText _), hbody]
    simp only [List.append_assoc]
  refine ⟨J (lotKwText plural ++ d0 ++ leadStr hl).length ++ lotHeadCaps plural d0.length (leadStr hl).length,
    (lotKwText plural ++ d0 ++ leadStr hl).length + ((lotSegs pre s.lead).flatten ++ (s.core ++ d ++ leadStr l)).length, ?_⟩
  rw [multilot_decomp, htxt, hP]
  exact matchHere_of_leads false h (Or.inl rfl)

/-! ### what one iteration of the lot unpacker loop observes -/

theorem multilot_pat_facts : multilot.has "intervener" = true ∧ multilot.has "lotnum_rightmost" = true ∧
    multilot.idx? "lotnum_rightmost" = some 20 ∧ multilot.idx? "lotnum" = some 6 ∧
    multilot.idx? "intervener" = some 11 := by decide +kernel

theorem lotView_multi (txt : Str) (e : Nat) (st sp : Nat) (caps : Caps) (a b c e' : Nat)
    (hm : multilot.rx.search txt 0 e = some ⟨st, sp, caps⟩)
    (h20 : caps.find? (fun x => x.1 == 20) = some (20, a, b)) (h11 : caps.find? (fun x => x.1 == 11) = some (11, c, e')) :
    lotView txt e = some ((pyInt? (slice txt a b)).getD 0, true, c,
      (Gen.through_regex.search (pyStrip (slice txt c e'))).isSome) := by
  obtain ⟨f1, f2, f3, f4, f5⟩ := multilot_pat_facts
  unfold lotView
  rw [hm]
  simp [getRightmost, isMulti, startOfRightmost, thruRightmost, Pat.group, Pat.start?, f1, f2, f3, f4, f5, Match.group?,
    Match.span?, h20, h11]

theorem lotView_single (txt : Str) (e : Nat) (st sp : Nat) (plural : Bool) (k0 nl : Nat)
    (hm : multilot.rx.search txt 0 e = some ⟨st, sp, lotHeadCaps plural k0 nl⟩) :
    lotView txt e = some ((pyInt? (slice txt (lotKwText plural).length ((lotKwText plural).length + k0))).getD 0,
      false, st, false) := by
  obtain ⟨f1, f2, f3, f4, f5⟩ := multilot_pat_facts
  unfold lotView
  rw [hm]
  cases plural <;>
  simp [getRightmost, isMulti, startOfRightmost, thruRightmost, Pat.group, Pat.start?, f1, f2, f3, f4, f5, Match.group?,
    Match.span?, List.find?, lotHeadCaps]

theorem lotView_zero (txt : Str) : lotView txt 0 = none := by
  have h : multilot.rx.search txt 0 0 = none := by
    have : Gen.multilot_regex.search txt 0 0 = scan Gen.multilot_regex none [] 0 false := by simp [Rx.search, cursorAt]
    show Gen.multilot_regex.search txt 0 0 = none
    rw [this]
    decide +kernel
  unfold lotView
  rw [h]

/-- where the window of the next iteration ends inside the tokens still to the right (lots) -/
def lotCutOf : List (Sep × Str) → Nat
  | [] => 0
  | t :: _ => t.1.lotCut
/-- the interveners of the next separator that lie inside the window -/
def lotJunk : List (Sep × Str) → Str
  | [] => []
  | t :: _ => ivText false t.1.pre

theorem lotJunk_noDigit (suf : List (Sep × Str)) : NoDigit (lotJunk suf) := by
  cases suf with
  | nil => exact fun _ h => by cases h
  | cons t r => exact fun c hc => (ivText_chars_ok false _ c hc).1

theorem lotJunk_stop (suf : List (Sep × Str)) : LotStop (lotJunk suf) := by
  cases suf with
  | nil => exact LotStop.nil
  | cons t r =>
    simp only [lotJunk]
    cases hp : t.1.pre with
    | nil => exact LotStop.nil
    | cons w ws => have := ivText_lotStop w ws []; simpa using this

theorem lot_window (suf : List (Sep × Str)) :
    ∃ after, bodyText suf = (leadStr (headLead suf false) ++ lotJunk suf) ++ after ∧
      (leadStr (headLead suf false) ++ lotJunk suf).length = lotCutOf suf := by
  cases suf with
  | nil => exact ⟨[], by simp [bodyText, headLead, lotJunk, leadStr], by simp [headLead, lotJunk, leadStr, lotCutOf]⟩
  | cons t r =>
    obtain ⟨⟨lead, pre, last, kw⟩, d⟩ := t
    refine ⟨ivText false [last] ++ kw.text ++ d ++ bodyText r, ?_, ?_⟩
    · cases lead <;> simp [bodyText, headLead, lotJunk, Sep.text, Sep.ivs, ivText, leadStr]
    · cases lead <;> simp [headLead, lotJunk, lotCutOf, Sep.lotCut, ivText, leadStr]

theorem lotTokText_append (plural : Bool) (d0 : Str) (a b : List (Sep × Str)) :
    lotTokText plural d0 (a ++ b) = lotTokText plural d0 a ++ bodyText b := by
  simp [lotTokText, bodyText_append]

theorem lot_view_first (plural : Bool) (d0 : Str) (suf : List (Sep × Str)) (hd : NumStr d0) :
    lotView (lotTokText plural d0 suf) ((lotTokText plural d0 []).length + lotCutOf suf) = some (tokVal d0, false, 0, false) := by
  obtain ⟨after, haft, hlen⟩ := lot_window suf
  have htxt : lotTokText plural d0 suf = ((lotTokText plural d0 [] ++ leadStr (headLead suf false)) ++ lotJunk suf) ++ after := by
    rw [show suf = [] ++ suf from rfl, lotTokText_append, haft]; simp only [List.nil_append, List.append_assoc]
  have hm := scan_of_matchHere (lot_match_single plural d0 (headLead suf false) (lotJunk suf) hd (lotJunk_noDigit suf) (lotJunk_stop suf))
  have hs : multilot.rx.search (lotTokText plural d0 suf) 0 ((lotTokText plural d0 []).length + lotCutOf suf) =
      some ⟨0, (lotTokText plural d0 [] ++ leadStr (headLead suf false)).length,
        lotHeadCaps plural d0.length (leadStr (headLead suf false)).length⟩ := by
    rw [htxt, ← hlen, ← List.length_append, ← List.append_assoc]
    exact (search_window _ _ _).trans hm
  rw [lotView_single _ _ _ _ plural d0.length _ hs]
  have hsl : slice (lotTokText plural d0 suf) (lotKwText plural).length ((lotKwText plural).length + d0.length) = d0 :=
    slice_at _ (lotKwText plural) d0 (bodyText suf) _ _ (by simp [lotTokText]) rfl rfl
  rw [hsl, hd.pyInt]

theorem Sep.core_split (s : Sep) : s.civ = ivText false s.pre ++ ivText false [s.last] ∧ (ivText false s.pre).length = ivOff false s.pre := by
  constructor
  · simp [Sep.civ, ivText, leadStr]
  · unfold ivOff
    split
    · next h => simp [h, ivText, leadStr]
    · rfl

theorem Sep.lotCut_eq (s : Sep) : s.lotCut = (leadStr s.lead).length + ivOff false s.pre := by
  rw [← s.core_split.2]
  simp [Sep.lotCut, ivText, leadStr]

theorem Sep.lotCut_lt (s : Sep) : s.lotCut < s.text.length := by
  rw [s.lotCut_eq, s.text_core, List.length_append, ← s.core_split.2, Sep.core, List.length_append]
  have := congrArg List.length s.core_split.1
  simp only [List.length_append] at this
  have h2 : 0 < (ivText false [s.last]).length := by
    simp only [ivText, List.flatMap_cons, List.flatMap_nil, List.length_append, List.length_cons, List.length_nil]; omega
  omega

theorem lotTop_find (s : Sep) (d : Str) (nl : Bool) (P : Nat) (older : Caps) :
    (lotTop s d nl P ++ older).find? (fun x => x.1 == 20) = some (20, P + s.core.length, P + s.core.length + d.length) ∧
    (lotTop s d nl P ++ older).find? (fun x => x.1 == 11) = some (11, P + ivOff false s.pre, P + s.civ.length) := by
  cases hk : s.kw with
  | none => simp [lotTop, hk, Kw.lotCaps, List.find?]
  | sec pl => simp [lotTop, hk, Kw.lotCaps, List.find?]
  | lot pl => cases pl <;> simp [lotTop, hk, Kw.lotCaps, lotOWcaps, List.find?]

theorem lot_view_more (plural : Bool) (d0 : Str) (pre : List (Sep × Str)) (s : Sep) (d : Str) (suf : List (Sep × Str))
    (hd0 : NumStr d0) (hpre : ∀ t ∈ pre, LotTok t) (hd : LotTok (s, d)) :
    lotView (lotTokText plural d0 (pre ++ (s, d) :: suf)) ((lotTokText plural d0 (pre ++ [(s, d)])).length + lotCutOf suf) =
      some (tokVal d, true, (lotTokText plural d0 pre).length + s.lotCut, s.isThru) := by
  obtain ⟨after, haft, hlen⟩ := lot_window suf
  have htxt : lotTokText plural d0 (pre ++ (s, d) :: suf) =
      ((lotTokText plural d0 (pre ++ [(s, d)]) ++ leadStr (headLead suf false)) ++ lotJunk suf) ++ after := by
    rw [show pre ++ (s, d) :: suf = (pre ++ [(s, d)]) ++ suf by simp, lotTokText_append, haft]; simp only [List.append_assoc]
  obtain ⟨older, stop, hmm⟩ := lot_match_multi plural d0 pre s d (headLead suf false) (lotJunk suf) hd0 hpre hd
    (lotJunk_noDigit suf) (lotJunk_stop suf)
  have hm := scan_of_matchHere hmm
  have hs : multilot.rx.search (lotTokText plural d0 (pre ++ (s, d) :: suf)) 0
      ((lotTokText plural d0 (pre ++ [(s, d)])).length + lotCutOf suf) =
      some ⟨0, stop, lotTop s d (headLead suf false) ((lotTokText plural d0 pre).length + (leadStr s.lead).length) ++ older⟩ := by
    rw [htxt, ← hlen, ← List.length_append, ← List.append_assoc]
    exact (search_window _ _ _).trans hm
  obtain ⟨h20, h11⟩ := lotTop_find s d (headLead suf false) ((lotTokText plural d0 pre).length + (leadStr s.lead).length) older
  rw [lotView_multi _ _ _ _ _ _ _ _ _ hs h20 h11]
  obtain ⟨hcs, hcl⟩ := s.core_split
  have hfull : lotTokText plural d0 (pre ++ (s, d) :: suf) =
      (lotTokText plural d0 pre ++ leadStr s.lead) ++ (s.core ++ (d ++ bodyText suf)) := by
    rw [lotTokText_append]; simp [bodyText, Sep.text_core]
  have hsl1 : slice (lotTokText plural d0 (pre ++ (s, d) :: suf))
      ((lotTokText plural d0 pre).length + (leadStr s.lead).length + s.core.length)
      ((lotTokText plural d0 pre).length + (leadStr s.lead).length + s.core.length + d.length) = d :=
    slice_at _ ((lotTokText plural d0 pre ++ leadStr s.lead) ++ s.core) d (bodyText suf) _ _ (by rw [hfull]; simp)
      (by simp only [List.length_append] <;> omega) (by simp only [List.length_append] <;> omega)
  have hsl2 : slice (lotTokText plural d0 (pre ++ (s, d) :: suf))
      ((lotTokText plural d0 pre).length + (leadStr s.lead).length + ivOff false s.pre)
      ((lotTokText plural d0 pre).length + (leadStr s.lead).length + s.civ.length) = ivText false [s.last] :=
    slice_at _ ((lotTokText plural d0 pre ++ leadStr s.lead) ++ ivText false s.pre) (ivText false [s.last])
      (s.kw.text ++ (d ++ bodyText suf)) _ _
      (by rw [hfull, Sep.core, hcs]; simp only [List.append_assoc]) (by simp only [List.length_append, hcl] <;> omega)
      (by rw [hcs]; simp only [List.length_append, hcl] <;> omega)
  rw [hsl1, hsl2, hd.1.pyInt, thru_of_word, s.lotCut_eq, Nat.add_assoc]
  rfl

/-! ### the lexical premise and the expansion theorems for lots -/

theorem lot_lexlist_aux (plural : Bool) (d0 : Str) (hd0 : NumStr d0) : ∀ (rp suf : List (Sep × Str)),
    (∀ t ∈ rp, LotTok t) →
    LexList (lotView (lotTokText plural d0 (rp.reverse ++ suf))) ((lotTokText plural d0 rp.reverse).length + lotCutOf suf)
      (tokList d0 rp.reverse).reverse := by
  intro rp
  induction rp with
  | nil =>
    intro suf _
    exact .last _ (tokVal d0) false 0 (lot_view_first plural d0 suf hd0) (lotView_zero _)
  | cons t rp ih =>
    intro suf hrp
    obtain ⟨s, d⟩ := t
    have hd : LotTok (s, d) := hrp (s, d) (by simp)
    have hrp' : ∀ t ∈ rp, LotTok t := fun t ht => hrp t (by simp [ht])
    have hv := lot_view_more plural d0 rp.reverse s d suf hd0 (fun t ht => hrp' t (by simpa using ht)) hd
    have ih' := ih ((s, d) :: suf) hrp'
    rw [List.reverse_cons, tokList_snoc, List.append_assoc]
    show LexList (lotView (lotTokText plural d0 (rp.reverse ++ (s, d) :: suf))) _ _
    refine .more _ (tokVal d) s.isThru ((lotTokText plural d0 rp.reverse).length + s.lotCut) _ hv ?_ ih'
    rw [lotTokText_append, List.length_append, bodyText_single, List.length_append]
    have := s.lotCut_lt
    omega

theorem C05_lotlist_lexlist (plural : Bool) (d0 : Str) (rest : List (Sep × Str)) (hd0 : NumStr d0) (hrest : ∀ t ∈ rest, LotTok t) :
    LexList (lotView (lotTokText plural d0 rest)) (lotTokText plural d0 rest).length (tokList d0 rest).reverse := by
  have := lot_lexlist_aux plural d0 hd0 rest.reverse [] (fun t ht => hrest t (by simpa using ht))
  simpa [lotCutOf] using this

/-- TOKEN LEVEL, lots -/
theorem C05_lotlist_tokens_expand (plural : Bool) (d0 : Str) (rest : List (Sep × Str)) (hd0 : NumStr d0)
    (hrest : ∀ t ∈ rest, LotTok t) (items : List Item) (hitems : tokens items = tokList d0 rest) :
    (unpackLots (lotTokText plural d0 rest)).lotList = (expand items).map lotName ∧
      (unpackLots (lotTokText plural d0 rest)).diverged = false :=
  C05_lots_expand _ items (by rw [hitems]; exact C05_lotlist_lexlist plural d0 rest hd0 hrest)

def Styled.lotText (plural : Bool) (l : Styled) : Str :=
  match l.toks with
  | [] => []
  | t :: rest => lotTokText plural t.2 rest

/-- STYLED LISTS, lots -/
theorem C05_styled_lots_expand (plural : Bool) (l : Styled) (hne : l ≠ []) (hv : l.Valid Kw.okLot) :
    (unpackLots (l.lotText plural)).lotList = (expand l.items).map lotName ∧
      (unpackLots (l.lotText plural)).diverged = false := by
  obtain ⟨h1, h2⟩ := l.toks_props Kw.okLot hv
  cases l with
  | nil => exact absurd rfl hne
  | cons p l' =>
  obtain ⟨d, more, hd⟩ := itemToks_head p.1 p.2.1 p.2.2
  have hs := (hv p (by simp)).1
  cases htk : Styled.toks (p :: l') with
  | nil => rw [Styled.toks_cons, hd] at htk; cases htk
  | cons t rest =>
    have hfirst : t.1.isThru = false := by
      rw [Styled.toks_cons, hd, List.cons_append, List.cons.injEq] at htk
      rw [← htk.1]; exact hs
    rw [htk] at h1 h2
    simp only [Styled.lotText, htk]
    refine C05_lotlist_tokens_expand plural t.2 rest (h1 t (by simp)).1 (fun x hx => h1 x (by simp [hx])) (Styled.items (p :: l')) ?_
    rw [← h2]
    simp [tokList, hfirst]

/-- `"Lots " + ", ".join(items)` -/
def lotListText (items : List Item) : Str := "Lots ".toList ++ [',', ' '].intercalate (items.map itemText)

theorem lots_kw : "Lots ".toList = lotKwText true := by decide

theorem lotListText_cons (it : Item) (r : List Item) : lotListText (it :: r) = (canonStyled (it :: r)).lotText true := by
  have hb := canon_body (it :: r) (by simp)
  obtain ⟨d, more, hd⟩ := itemToks_head commaSep dashSep it
  have hsplit : (canonStyled (it :: r)).toks = (commaSep, d) :: (more ++ (canonStyled r).toks) := by
    rw [show canonStyled (it :: r) = (commaSep, dashSep, it) :: canonStyled r from rfl, Styled.toks_cons, hd]
    simp only [List.cons_append]
  rw [hsplit] at hb
  simp only [bodyText, List.map_cons, List.flatten_cons, commaSep_text, List.cons_append, List.nil_append,
    List.cons.injEq, true_and] at hb
  unfold Styled.lotText
  simp only [hsplit]
  unfold lotListText lotTokText bodyText
  rw [List.map_cons, ← hb, lots_kw, List.append_assoc]

/-- THE CANONICAL LOT LIST, every length -/
theorem C05_canonical_lots_expand (items : List Item) (hne : items ≠ []) (hsmall : ∀ it ∈ items, it.Small) :
    (unpackLots (lotListText items)).lotList = (expand items).map lotName ∧
      (unpackLots (lotListText items)).diverged = false := by
  cases items with
  | nil => exact absurd rfl hne
  | cons it r =>
    rw [lotListText_cons]
    have := C05_styled_lots_expand true (canonStyled (it :: r)) (by simp [canonStyled]) (canonStyled_valid Kw.okLot trivial _ hsmall)
    rwa [canonStyled_items] at this

/-! ## Part F — the whole result of `unpackSections`, flags included -/

/-- one iteration of `secLoop`, given what it observes -/
def secAbsStep (st : SecLoopSt) (t : Int × Bool) : SecLoopSt := { secRangeStep st t.1 with foundThrough := t.2 }

/-- under the lexical reading the loop is the fold of `secAbsStep` over the tokens — the WHOLE state, flags included -/
theorem secLoop_fold (txt : Str) (ts : List (Int × Bool)) (e fuel : Nat) (h : LexList (secView txt) e ts)
    (hf : ts.length < fuel) (st : SecLoopSt) : secLoop txt fuel e st = (ts.foldl secAbsStep st, false) := by
  induction h generalizing fuel st with
  | done e h =>
    obtain ⟨f, rfl⟩ : ∃ f, fuel = f + 1 := ⟨fuel - 1, by simp at hf; omega⟩
    rw [secLoop_succ, h]
    rfl
  | last e n thru start h h0 =>
    obtain ⟨f, rfl⟩ : ∃ f, fuel = f + 2 := ⟨fuel - 2, by simp at hf; omega⟩
    rw [secLoop_succ, h]
    simp only [Bool.false_eq_true, if_false]
    rw [secLoop_succ, h0]
    rfl
  | more e n thru start rest h hlt hr ih =>
    obtain ⟨f, rfl⟩ : ∃ f, fuel = f + 1 := ⟨fuel - 1, by simp at hf; omega⟩
    rw [secLoop_succ, h]
    simp only [if_true]
    rw [ih f (by simp at hf; omega)]
    rfl

def secFlag : Str := "nonsequential_sections".toList

/-- the warning a range raises: none when ascending -/
def Item.secFlags : Item → List PyVal
  | .single _ => []
  | .range a b => if a < b then [] else [.str secFlag]

def Item.secFlagLines : Item → List PyVal
  | .single _ => []
  | .range a b => if a < b then [] else
      [.tup [.str secFlag, .str (secFlag ++ "<".toList ++ intToStr a ++ " - ".toList ++ intToStr b ++ ">".toList)]]

theorem sec_fold_items (items : List Item) (hpad : ∀ n ∈ expand items, pyInt? (pad2 n) = some n) :
    (tokens items).reverse.foldl secAbsStep {} =
      ⟨((expand items).reverse).map pad2, false, items.reverse.flatMap Item.secFlags, items.reverse.flatMap Item.secFlagLines⟩ := by
  induction items with
  | nil => rfl
  | cons it rest ih =>
    have hrest : ∀ n ∈ expand rest, pyInt? (pad2 n) = some n := by
      intro n hn; apply hpad; rw [expand_cons]; simp [hn]
    rw [tokens_cons, List.reverse_append, List.foldl_append, ih hrest, expand_cons, List.reverse_append, List.reverse_cons,
      List.flatMap_append, List.flatMap_append]
    cases it with
    | single n => simp [Item.tokens, Item.expand, secAbsStep, secRangeStep, Item.secFlags, Item.secFlagLines]
    | range a b =>
      have hb : pyInt? (pad2 b) = some b := by
        apply hpad; rw [expand_cons]; simp [mem_expand_range_right]
      have hexp : (Item.expand (.range a b)).reverse = b :: (elidedRange a b).1 := (cons_elidedRange a b).symm
      have hfl := elidedRange_flag a b
      simp only [Item.tokens, List.reverse_cons, List.reverse_nil, List.nil_append, List.cons_append, List.foldl_cons,
        List.foldl_nil, secAbsStep, secRangeStep, Bool.false_eq_true, if_false, if_true, List.getLast?_append,
        List.getLast?_singleton, Option.some_or, Option.getD_some, hb, hexp, List.map_append, List.map_cons, List.flatMap_cons,
        List.flatMap_nil, List.append_nil, Item.secFlags, Item.secFlagLines]
      by_cases hab : a < b
      · simp only [hfl, hab, decide_true, if_true, List.append_nil, List.append_assoc, List.cons_append, List.nil_append]
      · simp only [hfl, hab, decide_false, Bool.false_eq_true, if_false, List.append_assoc, List.cons_append,
          List.nil_append]
        rfl

/-- the whole `SecResult` under the lexical reading -/
theorem unpackSections_full (txt : Str) (items : List Item)
    (h : LexList (secView txt) txt.length (tokens items).reverse) (hnn : ∀ n ∈ expand items, 0 ≤ n) :
    (unpackSections txt).secList = (expand items).map pad2 ∧
    (unpackSections txt).flags = items.reverse.flatMap Item.secFlags ∧
    (unpackSections txt).flagLines = items.reverse.flatMap Item.secFlagLines ∧
    (unpackSections txt).diverged = false := by
  have hlen := h.length_le
  have hfold := secLoop_fold txt _ txt.length (txt.length + 2) h (by omega) {}
  rw [sec_fold_items items (fun n hn => pyInt?_pad2 n (hnn n hn))] at hfold
  unfold unpackSections
  rw [hfold]
  simp

theorem secFlags_mem_iff (items : List Item) :
    PyVal.str secFlag ∈ items.reverse.flatMap Item.secFlags ↔ ∃ it ∈ items, ∃ a b, it = .range a b ∧ ¬ a < b := by
  simp only [List.mem_flatMap, List.mem_reverse]
  constructor
  · rintro ⟨it, hit, hf⟩
    cases it with
    | single n => simp [Item.secFlags] at hf
    | range a b =>
      refine ⟨_, hit, a, b, rfl, ?_⟩
      intro hab
      simp [Item.secFlags, hab] at hf
  · rintro ⟨it, hit, a, b, rfl, hab⟩
    exact ⟨_, hit, by simp [Item.secFlags, hab]⟩

/-- the lexical premise for every styled list (sections) -/
theorem C05_styled_sections_lexlist (plural : Bool) (l : Styled) (hne : l ≠ []) (hv : l.Valid Kw.okSec) :
    LexList (secView (l.secText plural)) (l.secText plural).length (tokens l.items).reverse ∧ ∀ n ∈ expand l.items, 0 ≤ n := by
  obtain ⟨h1, h2⟩ := l.toks_props Kw.okSec hv
  cases l with
  | nil => exact absurd rfl hne
  | cons p l' =>
  obtain ⟨d, more, hd⟩ := itemToks_head p.1 p.2.1 p.2.2
  have hs := (hv p (by simp)).1
  cases htk : Styled.toks (p :: l') with
  | nil => rw [Styled.toks_cons, hd] at htk; cases htk
  | cons t rest =>
    have hfirst : t.1.isThru = false := by
      rw [Styled.toks_cons, hd, List.cons_append, List.cons.injEq] at htk
      rw [← htk.1]; exact hs
    rw [htk] at h1 h2
    have hitems : tokens (Styled.items (p :: l')) = tokList t.2 rest := by
      rw [← h2]; simp [tokList, hfirst]
    simp only [Styled.secText, htk]
    refine ⟨by rw [hitems]; exact C05_seclist_lexlist plural t.2 rest (h1 t (by simp)).1 (fun x hx => h1 x (by simp [hx])), ?_⟩
    refine expand_nonneg _ ?_
    rw [hitems]
    intro x hx
    simp only [tokList, List.mem_cons, List.mem_map] at hx
    rcases hx with rfl | ⟨y, _, rfl⟩ <;> exact tokVal_nonneg _

/-- STYLED SECTION LISTS, the whole result: the list, the flags (one `nonsequential_sections` per range that does not
    ascend, right to left), the flag lines, no divergence -/
theorem C05_styled_sections_full (plural : Bool) (l : Styled) (hne : l ≠ []) (hv : l.Valid Kw.okSec) :
    (unpackSections (l.secText plural)).secList = (expand l.items).map pad2 ∧
    (unpackSections (l.secText plural)).flags = l.items.reverse.flatMap Item.secFlags ∧
    (unpackSections (l.secText plural)).flagLines = l.items.reverse.flatMap Item.secFlagLines ∧
    (unpackSections (l.secText plural)).diverged = false := by
  obtain ⟨h, hnn⟩ := C05_styled_sections_lexlist plural l hne hv
  exact unpackSections_full _ _ h hnn

/-- CANONICAL SECTION LISTS, the whole result -/
theorem C05_canonical_sections_full (items : List Item) (hne : items ≠ []) (hsmall : ∀ it ∈ items, it.Small) :
    (unpackSections (secListText items)).secList = (expand items).map pad2 ∧
    (unpackSections (secListText items)).flags = items.reverse.flatMap Item.secFlags ∧
    (unpackSections (secListText items)).flagLines = items.reverse.flatMap Item.secFlagLines ∧
    (unpackSections (secListText items)).diverged = false := by
  rw [secListText_eq items hne]
  have := C05_styled_sections_full true (canonStyled items) (by simpa [canonStyled] using hne) (canonStyled_valid Kw.okSec trivial items hsmall)
  rwa [canonStyled_items] at this

/-- the non-sequential warning is raised exactly when some range does not ascend -/
theorem C05_canonical_sections_warning_iff (items : List Item) (hne : items ≠ []) (hsmall : ∀ it ∈ items, it.Small) :
    PyVal.str "nonsequential_sections".toList ∈ (unpackSections (secListText items)).flags ↔
      ∃ it ∈ items, ∃ a b, it = .range a b ∧ ¬ a < b := by
  rw [(C05_canonical_sections_full items hne hsmall).2.1]
  exact secFlags_mem_iff items

theorem C05_styled_sections_warning_iff (plural : Bool) (l : Styled) (hne : l ≠ []) (hv : l.Valid Kw.okSec) :
    PyVal.str "nonsequential_sections".toList ∈ (unpackSections (l.secText plural)).flags ↔
      ∃ it ∈ l.items, ∃ a b, it = .range a b ∧ ¬ a < b := by
  rw [(C05_styled_sections_full plural l hne hv).2.1]
  exact secFlags_mem_iff l.items

/-! ## Part G — the whole result of `unpackLots` (list, acreages, flags) for texts without brackets -/

/-- no opening bracket of an acreage anywhere in the text -/
def NoBracket (txt : Str) : Prop := ∀ c ∈ txt, acrRx.firstSets.all (fun cs => !cs.mem c) = true

theorem lotAcres_mustHit : Gen.lot_acres_unpacker_regex.mustHitP (fun cs => acrRx.firstSets.contains cs) = true := by
  decide +kernel

/-- without brackets the acreage look-up finds nothing, whatever the match -/
theorem acreage_none (txt : Str) (h : NoBracket txt) (mo : Match) : getRightmostAcreage mo txt = none := by
  have hs : lotAcresUnpacker.rx.search txt (startOfRightmost multilot mo) mo.stop = none := by
    show Gen.lot_acres_unpacker_regex.search txt _ _ = none
    unfold Rx.search
    split
    · rfl
    · simp only [cursorAt]
      refine scan_none_of_noHit lotAcres_mustHit _ _ _ _ ?_
      intro c hc cs hcs
      have hc' : c ∈ txt := List.mem_of_mem_take (List.mem_of_mem_drop hc)
      have := List.all_eq_true.1 (h c hc') cs (by simpa using hcs)
      simpa using this
  unfold getRightmostAcreage
  simp only [hs]

def setW : Option Nat → LotLoopSt → LotLoopSt
  | none, st => st
  | some k, st => { st with wordLotEncountered := k }

def lotAbsStep (st : LotLoopSt) (t : Int × Bool) : LotLoopSt := { lotRangeStep st t.1 with foundThrough := t.2 }

theorem lotLoop_succ_core (txt : Str) (hacr : ∀ mo, getRightmostAcreage mo txt = none) (fuel e : Nat) (st : LotLoopSt) :
    match lotView txt e with
    | none => lotLoop txt (fuel + 1) e st = (st, false)
    | some (n, multi, start, thru) =>
      ∃ w : Option Nat, lotLoop txt (fuel + 1) e st = lotLoop txt fuel (if multi then start else 0) (setW w (lotAbsStep st (n, thru))) := by
  rw [lotLoop]
  unfold lotView
  cases multilot.rx.search txt 0 e with
  | none => rfl
  | some mo =>
    simp only [hacr mo, lotAcreStep]
    by_cases hw : ((multilot.group mo txt "word_lot_rightmost").isSome && !thruRightmost multilot mo txt) = true
    · refine ⟨some (lotRangeStep st ((pyInt? ((getRightmost multilot "lot" mo txt).getD [])).getD 0)).working.length, ?_⟩
      simp only [hw, if_true]
      rfl
    · refine ⟨none, ?_⟩
      simp only [hw]
      rfl

/-- agreement on everything but `wordLotEncountered` -/
def SameCore (a b : LotLoopSt) : Prop :=
  a.working = b.working ∧ a.foundThrough = b.foundThrough ∧ a.lotAcres = b.lotAcres ∧ a.flags = b.flags ∧ a.flagLines = b.flagLines

theorem SameCore.step {a b : LotLoopSt} (h : SameCore a b) (w : Option Nat) (t : Int × Bool) :
    SameCore (setW w (lotAbsStep a t)) (lotAbsStep b t) := by
  obtain ⟨h1, h2, h3, h4, h5⟩ := h
  cases w <;> simp only [setW, lotAbsStep, lotRangeStep, h1, h2, h4, h5] <;> (split <;> (try split) <;> simp_all [SameCore])

theorem lotLoop_fold (txt : Str) (hacr : ∀ mo, getRightmostAcreage mo txt = none) (ts : List (Int × Bool)) (e fuel : Nat)
    (h : LexList (lotView txt) e ts) (hf : ts.length < fuel) (st st' : LotLoopSt) (hc : SameCore st st') :
    SameCore (lotLoop txt fuel e st).1 (ts.foldl lotAbsStep st') ∧ (lotLoop txt fuel e st).2 = false := by
  induction h generalizing fuel st st' with
  | done e h =>
    obtain ⟨f, rfl⟩ : ∃ f, fuel = f + 1 := ⟨fuel - 1, by simp at hf; omega⟩
    have := lotLoop_succ_core txt hacr f e st
    rw [h] at this
    rw [this]
    exact ⟨hc, rfl⟩
  | last e n thru start h h0 =>
    obtain ⟨f, rfl⟩ : ∃ f, fuel = f + 2 := ⟨fuel - 2, by simp at hf; omega⟩
    have h1 := lotLoop_succ_core txt hacr (f + 1) e st
    rw [h] at h1
    obtain ⟨w, h1⟩ := h1
    simp only [Bool.false_eq_true, if_false] at h1
    have h2 := lotLoop_succ_core txt hacr f 0 (setW w (lotAbsStep st (n, thru)))
    rw [h0] at h2
    rw [h1, h2]
    exact ⟨hc.step w (n, thru), rfl⟩
  | more e n thru start rest h hlt hr ih =>
    obtain ⟨f, rfl⟩ : ∃ f, fuel = f + 1 := ⟨fuel - 1, by simp at hf; omega⟩
    have h1 := lotLoop_succ_core txt hacr f e st
    rw [h] at h1
    obtain ⟨w, h1⟩ := h1
    simp only [if_true] at h1
    rw [h1]
    exact ih f (by simp at hf; omega) _ _ (hc.step w (n, thru))

def lotFlag : Str := "nonsequential_lots".toList

def Item.lotFlags : Item → List PyVal
  | .single _ => []
  | .range a b => if a < b then [] else [.str lotFlag]

def Item.lotFlagLines : Item → List PyVal
  | .single _ => []
  | .range a b => if a < b then [] else
      [.tup [.str lotFlag, .str (lotFlag ++ "<".toList ++ intToStr a ++ " - ".toList ++ intToStr b ++ ">".toList)]]

theorem lot_fold_items (items : List Item) :
    (tokens items).reverse.foldl lotAbsStep {} =
      ⟨(expand items).reverse, false, 0, [], items.reverse.flatMap Item.lotFlags, items.reverse.flatMap Item.lotFlagLines⟩ := by
  induction items with
  | nil => rfl
  | cons it rest ih =>
    rw [tokens_cons, List.reverse_append, List.foldl_append, ih, expand_cons, List.reverse_append, List.reverse_cons,
      List.flatMap_append, List.flatMap_append]
    cases it with
    | single n => simp [Item.tokens, Item.expand, lotAbsStep, lotRangeStep, Item.lotFlags, Item.lotFlagLines]
    | range a b =>
      have hexp : (Item.expand (.range a b)).reverse = b :: (elidedRange a b).1 := (cons_elidedRange a b).symm
      have hfl := elidedRange_flag a b
      simp only [Item.tokens, List.reverse_cons, List.reverse_nil, List.nil_append, List.cons_append, List.foldl_cons,
        List.foldl_nil, lotAbsStep, lotRangeStep, Bool.false_eq_true, if_false, if_true, List.getLast?_append,
        List.getLast?_singleton, Option.some_or, Option.getD_some, hexp, List.flatMap_cons,
        List.flatMap_nil, List.append_nil, Item.lotFlags, Item.lotFlagLines]
      by_cases hab : a < b
      · simp only [hfl, hab, decide_true, if_true, List.append_nil, List.append_assoc, List.cons_append, List.nil_append]
      · simp only [hfl, hab, decide_false, Bool.false_eq_true, if_false, List.append_assoc, List.cons_append,
          List.nil_append]
        rfl

/-- the whole `LotResult` (but `aliquotsThrough`) under the lexical reading, for a text without brackets -/
theorem unpackLots_full (txt : Str) (hnb : NoBracket txt) (items : List Item)
    (h : LexList (lotView txt) txt.length (tokens items).reverse) :
    (unpackLots txt).lotList = (expand items).map lotName ∧
    (unpackLots txt).lotAcres = [] ∧
    (unpackLots txt).flags = items.reverse.flatMap Item.lotFlags ∧
    (unpackLots txt).flagLines = items.reverse.flatMap Item.lotFlagLines ∧
    (unpackLots txt).diverged = false := by
  have hlen := h.length_le
  obtain ⟨⟨h1, h2, h3, h4, h5⟩, hdv⟩ := lotLoop_fold txt (acreage_none txt hnb) _ txt.length (txt.length + 2) h (by omega) {} {}
    ⟨rfl, rfl, rfl, rfl, rfl⟩
  rw [lot_fold_items] at h1 h2 h3 h4 h5
  unfold unpackLots
  simp only [h1, h3, h4, h5, hdv]
  simp

def noBr (c : Char) : Bool := acrRx.firstSets.all (fun cs => !cs.mem c)

theorem noBr_digit {c : Char} (h : asciiDigits.mem c = true) : noBr c = true := by
  have hd : acrRx.firstSets.all (fun cs => asciiDigits.disj cs) = true := by decide +kernel
  simp only [noBr, List.all_eq_true, Bool.not_eq_true'] at hd ⊢
  exact fun cs hcs => CharSet.disj_mem (hd cs hcs) h

theorem IvWord.noBr (w : IvWord) : ∀ c ∈ w.text, PyTRS.noBr c = true := by
  have h : w.text.all PyTRS.noBr = true := by cases w <;> decide +kernel
  exact fun c hc => List.all_eq_true.1 h c hc

theorem Kw.noBr (k : Kw) : ∀ c ∈ k.text, PyTRS.noBr c = true := by
  have h : k.text.all PyTRS.noBr = true := by
    cases k with
    | none => rfl
    | sec pl => cases pl <;> decide +kernel
    | lot pl => cases pl <;> decide +kernel
  exact fun c hc => List.all_eq_true.1 h c hc

theorem Sep.noBr (s : Sep) : ∀ c ∈ s.text, PyTRS.noBr c = true := by
  intro c hc
  rcases List.mem_append.1 hc with hc | hc
  · simp only [Sep.ivs, ivText, List.mem_append, List.mem_flatMap, List.mem_singleton] at hc
    rcases hc with hc | ⟨w, _, hc | hc⟩
    · cases hl : s.lead <;> simp [leadStr, hl] at hc
      subst hc; decide +kernel
    · exact w.noBr c hc
    · subst hc; decide +kernel
  · exact s.kw.noBr c hc

theorem lotTokText_noBracket (plural : Bool) (d0 : Str) (rest : List (Sep × Str)) (hd0 : NumStr d0)
    (hrest : ∀ t ∈ rest, NumStr t.2) : NoBracket (lotTokText plural d0 rest) := by
  intro c hc
  show noBr c = true
  simp only [lotTokText, bodyText, List.mem_append, List.mem_flatten, List.mem_map] at hc
  rcases hc with (hc | hc) | ⟨seg, ⟨t, ht, rfl⟩, hc⟩
  · have h : (lotKwText plural).all noBr = true := by cases plural <;> decide +kernel
    exact List.all_eq_true.1 h c hc
  · exact noBr_digit (hd0.1 c hc)
  · rcases List.mem_append.1 hc with hc | hc
    · exact t.1.noBr c hc
    · exact noBr_digit ((hrest t ht).1 c hc)

theorem lotFlags_mem_iff (items : List Item) :
    PyVal.str lotFlag ∈ items.reverse.flatMap Item.lotFlags ↔ ∃ it ∈ items, ∃ a b, it = .range a b ∧ ¬ a < b := by
  simp only [List.mem_flatMap, List.mem_reverse]
  constructor
  · rintro ⟨it, hit, hf⟩
    cases it with
    | single n => simp [Item.lotFlags] at hf
    | range a b =>
      refine ⟨_, hit, a, b, rfl, ?_⟩
      intro hab
      simp [Item.lotFlags, hab] at hf
  · rintro ⟨it, hit, a, b, rfl, hab⟩
    exact ⟨_, hit, by simp [Item.lotFlags, hab]⟩

/-- STYLED LOT LISTS, the whole result (but `aliquotsThrough`): the list, no acreages, the flags (one `nonsequential_lots`
    per range that does not ascend, right to left), the flag lines, no divergence -/
theorem C05_styled_lots_full (plural : Bool) (l : Styled) (hne : l ≠ []) (hv : l.Valid Kw.okLot) :
    (unpackLots (l.lotText plural)).lotList = (expand l.items).map lotName ∧
    (unpackLots (l.lotText plural)).lotAcres = [] ∧
    (unpackLots (l.lotText plural)).flags = l.items.reverse.flatMap Item.lotFlags ∧
    (unpackLots (l.lotText plural)).flagLines = l.items.reverse.flatMap Item.lotFlagLines ∧
    (unpackLots (l.lotText plural)).diverged = false := by
  obtain ⟨h1, h2⟩ := l.toks_props Kw.okLot hv
  cases l with
  | nil => exact absurd rfl hne
  | cons p l' =>
  obtain ⟨d, more, hd⟩ := itemToks_head p.1 p.2.1 p.2.2
  have hs := (hv p (by simp)).1
  cases htk : Styled.toks (p :: l') with
  | nil => rw [Styled.toks_cons, hd] at htk; cases htk
  | cons t rest =>
    have hfirst : t.1.isThru = false := by
      rw [Styled.toks_cons, hd, List.cons_append, List.cons.injEq] at htk
      rw [← htk.1]; exact hs
    rw [htk] at h1 h2
    have hitems : tokens (Styled.items (p :: l')) = tokList t.2 rest := by
      rw [← h2]; simp [tokList, hfirst]
    simp only [Styled.lotText, htk]
    have hd0 := (h1 t (by simp)).1
    have hrest : ∀ x ∈ rest, LotTok x := fun x hx => h1 x (by simp [hx])
    exact unpackLots_full _ (lotTokText_noBracket plural t.2 rest hd0 (fun x hx => (hrest x hx).1)) _
      (by rw [hitems]; exact C05_lotlist_lexlist plural t.2 rest hd0 hrest)

/-- CANONICAL LOT LISTS, the whole result -/
theorem C05_canonical_lots_full (items : List Item) (hne : items ≠ []) (hsmall : ∀ it ∈ items, it.Small) :
    (unpackLots (lotListText items)).lotList = (expand items).map lotName ∧
    (unpackLots (lotListText items)).lotAcres = [] ∧
    (unpackLots (lotListText items)).flags = items.reverse.flatMap Item.lotFlags ∧
    (unpackLots (lotListText items)).flagLines = items.reverse.flatMap Item.lotFlagLines ∧
    (unpackLots (lotListText items)).diverged = false := by
  cases items with
  | nil => exact absurd rfl hne
  | cons it r =>
    rw [lotListText_cons]
    have := C05_styled_lots_full true (canonStyled (it :: r)) (by simp [canonStyled]) (canonStyled_valid Kw.okLot trivial _ hsmall)
    rwa [canonStyled_items] at this

theorem C05_canonical_lots_warning_iff (items : List Item) (hne : items ≠ []) (hsmall : ∀ it ∈ items, it.Small) :
    PyVal.str "nonsequential_lots".toList ∈ (unpackLots (lotListText items)).flags ↔
      ∃ it ∈ items, ∃ a b, it = .range a b ∧ ¬ a < b := by
  rw [(C05_canonical_lots_full items hne hsmall).2.2.1]
  exact lotFlags_mem_iff items

theorem C05_styled_lots_warning_iff (plural : Bool) (l : Styled) (hne : l ≠ []) (hv : l.Valid Kw.okLot) :
    PyVal.str "nonsequential_lots".toList ∈ (unpackLots (l.lotText plural)).flags ↔
      ∃ it ∈ l.items, ∃ a b, it = .range a b ∧ ¬ a < b := by
  rw [(C05_styled_lots_full plural l hne hv).2.2.1]
  exact lotFlags_mem_iff l.items

/-! ### uniform styles: one through-word in every range, a different separator before the last item -/

/-- ` w ` -/
def wordSep (w : IvWord) : Sep := ⟨true, [], w, .none⟩

/-- the items `init ++ [last]`, joined by `, `, with `ls` (for instance ` and `, ` & `, `, and `, `, Section `) before the last one,
    ranges written `a w b` -/
def uniformStyled (w : IvWord) (ls : Sep) (init : List Item) (last : Item) : Styled :=
  init.map (fun it => (commaSep, wordSep w, it)) ++ [(ls, wordSep w, last)]

theorem uniformStyled_items (w : IvWord) (ls : Sep) (init : List Item) (last : Item) :
    (uniformStyled w ls init last).items = init ++ [last] := by
  induction init with
  | nil => rfl
  | cons it r ih =>
    simp only [uniformStyled, Styled.items, List.map_cons, List.cons_append, List.map_append, List.map_nil, List.cons.injEq,
      true_and] at ih ⊢
    exact ih

theorem uniformStyled_valid (ok : Kw → Prop) (hok : ok .none) (w : IvWord) (hw : w.isThru = true) (ls : Sep)
    (hls : ls.isThru = false) (hk : ok ls.kw) (init : List Item) (last : Item) (hsmall : ∀ it ∈ init ++ [last], it.Small) :
    (uniformStyled w ls init last).Valid ok := by
  intro p hp
  simp only [uniformStyled, List.mem_append, List.mem_map, List.mem_singleton] at hp
  rcases hp with ⟨it, hit, rfl⟩ | rfl
  · exact ⟨rfl, hw, hsmall it (by simp [hit]), hok, hok⟩
  · exact ⟨hls, hw, hsmall last (by simp), hk, hok⟩

/-- sections with `through` / `thru` / `to` / `-` in the ranges and any non-through separator before the last item -/
theorem C05_uniform_sections_full (plural : Bool) (w : IvWord) (hw : w.isThru = true) (ls : Sep) (hls : ls.isThru = false)
    (hk : ls.kw.okSec) (init : List Item) (last : Item) (hsmall : ∀ it ∈ init ++ [last], it.Small) :
    (unpackSections ((uniformStyled w ls init last).secText plural)).secList = (expand (init ++ [last])).map pad2 ∧
    (unpackSections ((uniformStyled w ls init last).secText plural)).flags = (init ++ [last]).reverse.flatMap Item.secFlags ∧
    (unpackSections ((uniformStyled w ls init last).secText plural)).flagLines = (init ++ [last]).reverse.flatMap Item.secFlagLines ∧
    (unpackSections ((uniformStyled w ls init last).secText plural)).diverged = false := by
  have := C05_styled_sections_full plural (uniformStyled w ls init last) (by simp [uniformStyled])
    (uniformStyled_valid Kw.okSec trivial w hw ls hls hk init last hsmall)
  rwa [uniformStyled_items] at this

theorem C05_uniform_lots_full (plural : Bool) (w : IvWord) (hw : w.isThru = true) (ls : Sep) (hls : ls.isThru = false)
    (hk : ls.kw.okLot) (init : List Item) (last : Item) (hsmall : ∀ it ∈ init ++ [last], it.Small) :
    (unpackLots ((uniformStyled w ls init last).lotText plural)).lotList = (expand (init ++ [last])).map lotName ∧
    (unpackLots ((uniformStyled w ls init last).lotText plural)).lotAcres = [] ∧
    (unpackLots ((uniformStyled w ls init last).lotText plural)).flags = (init ++ [last]).reverse.flatMap Item.lotFlags ∧
    (unpackLots ((uniformStyled w ls init last).lotText plural)).flagLines = (init ++ [last]).reverse.flatMap Item.lotFlagLines ∧
    (unpackLots ((uniformStyled w ls init last).lotText plural)).diverged = false := by
  have := C05_styled_lots_full plural (uniformStyled w ls init last) (by simp [uniformStyled])
    (uniformStyled_valid Kw.okLot trivial w hw ls hls hk init last hsmall)
  rwa [uniformStyled_items] at this

/-! ## non-vacuity -/

section Examples
set_option maxRecDepth 100000

/-- the canonical text is what one expects -/
example : secListText [.range 1 3, .single 5, .range 9 7, .range 5 5, .single 100] = S "Sections 1 - 3, 5, 9 - 7, 5 - 5, 100" := by
  decide +kernel

example : lotListText [.range 1 3, .single 5, .range 9 7] = S "Lots 1 - 3, 5, 9 - 7" := by decide +kernel

/-- the hypotheses of the canonical theorems hold of a real list; the conclusion is what Python returns -/
example : (unpackSections (S "Sections 1 - 3, 5, 9 - 7, 5 - 5, 100")).secList =
    [S "01", S "02", S "03", S "05", S "09", S "08", S "07", S "05", S "100"] := by
  have h := (C05_canonical_sections_expand [.range 1 3, .single 5, .range 9 7, .range 5 5, .single 100] (by simp)
    (by intro it hit; simp only [List.mem_cons, List.not_mem_nil, or_false] at hit
        rcases hit with rfl | rfl | rfl | rfl | rfl <;> simp [Item.Small])).1
  have ht : secListText [.range 1 3, .single 5, .range 9 7, .range 5 5, .single 100] = S "Sections 1 - 3, 5, 9 - 7, 5 - 5, 100" := by
    decide +kernel
  rw [ht] at h
  rw [h]
  decide +kernel

/-- a styled list: "Section 1 thru 3, 12to 10 and 5, and 20 through 22" -/
def exStyled : Styled :=
  [(commaSep, ⟨true, [], .thru, .none⟩, .range 1 3), (commaSep, ⟨false, [], .to, .none⟩, .range 12 10),
   (⟨true, [], .and, .none⟩, dashSep, .single 5), (⟨false, [.comma], .and, .none⟩, ⟨true, [], .through, .none⟩, .range 20 22)]

example : exStyled.secText false = S "Section 1 thru 3, 12to 10 and 5, and 20 through 22" := by decide +kernel
example : exStyled.lotText true = S "Lots 1 thru 3, 12to 10 and 5, and 20 through 22" := by decide +kernel

example : exStyled.Valid Kw.okSec ∧ exStyled.Valid Kw.okLot := by
  constructor <;> intro p hp <;> simp only [exStyled, List.mem_cons, List.not_mem_nil, or_false] at hp <;>
    rcases hp with rfl | rfl | rfl | rfl <;> simp [Sep.isThru, IvWord.isThru, commaSep, dashSep, Item.Small, Kw.okSec, Kw.okLot]

/-- the keyword repeated: "Section 1, Section 2 through Sections 4 and Section 9" / "Lots 1, Lot 2 through Lots 4 and Lot 9" -/
def exKwSec : Styled :=
  [(commaSep, dashSep, .single 1), (⟨false, [], .comma, .sec false⟩, ⟨true, [], .through, .sec true⟩, .range 2 4),
   (⟨true, [], .and, .sec false⟩, dashSep, .single 9)]
def exKwLot : Styled :=
  [(commaSep, dashSep, .single 1), (⟨false, [], .comma, .lot false⟩, ⟨true, [], .through, .lot true⟩, .range 2 4),
   (⟨true, [], .and, .lot false⟩, dashSep, .single 9)]

example : exKwSec.secText false = S "Section 1, Section 2 through Sections 4 and Section 9" := by decide +kernel
example : exKwLot.lotText true = S "Lots 1, Lot 2 through Lots 4 and Lot 9" := by decide +kernel

example : exKwSec.Valid Kw.okSec := by
  intro p hp
  simp only [exKwSec, List.mem_cons, List.not_mem_nil, or_false] at hp
  rcases hp with rfl | rfl | rfl <;> simp [Sep.isThru, IvWord.isThru, commaSep, dashSep, Item.Small, Kw.okSec]

example : exKwLot.Valid Kw.okLot := by
  intro p hp
  simp only [exKwLot, List.mem_cons, List.not_mem_nil, or_false] at hp
  rcases hp with rfl | rfl | rfl <;> simp [Sep.isThru, IvWord.isThru, commaSep, dashSep, Item.Small, Kw.okLot]

/-- the lexical premise itself, for a list of four tokens -/
example : LexList (secView (S "Sections 1 - 3, 5, 9")) 20 [(9, false), (5, false), (3, true), (1, false)] := by
  have h := C05_seclist_lexlist true ['1'] [(dashSep, ['3']), (commaSep, ['5']), (commaSep, ['9'])]
    (by refine ⟨?_, by decide, by decide⟩; intro c hc; simp only [List.mem_singleton] at hc; subst hc; decide)
    (by intro t ht; simp only [List.mem_cons, List.not_mem_nil, or_false] at ht
        rcases ht with rfl | rfl | rfl <;>
          (refine ⟨⟨?_, by decide, by decide⟩, trivial⟩; intro c hc; simp only [List.mem_singleton] at hc; subst hc; decide))
  have ht : secTokText true ['1'] [(dashSep, ['3']), (commaSep, ['5']), (commaSep, ['9'])] = S "Sections 1 - 3, 5, 9" := by decide +kernel
  rw [ht] at h
  exact h

/-- the keyword-repeat path of the theorems, on a real text: the result is what Python returns -/
example : (unpackSections (S "Section 1, Section 2 through Sections 4 and Section 9")).secList =
    [S "01", S "02", S "03", S "04", S "09"] := by
  have hv : exKwSec.Valid Kw.okSec := by
    intro p hp
    simp only [exKwSec, List.mem_cons, List.not_mem_nil, or_false] at hp
    rcases hp with rfl | rfl | rfl <;> simp [Sep.isThru, IvWord.isThru, commaSep, dashSep, Item.Small, Kw.okSec]
  have h := (C05_styled_sections_expand false exKwSec (by simp [exKwSec]) hv).1
  have ht : exKwSec.secText false = S "Section 1, Section 2 through Sections 4 and Section 9" := by decide +kernel
  rw [ht] at h
  rw [h]
  decide +kernel

example : (unpackLots (S "Lots 1, Lot 2 through Lots 4 and Lot 9")).lotList = [S "L1", S "L2", S "L3", S "L4", S "L9"] := by
  have hv : exKwLot.Valid Kw.okLot := by
    intro p hp
    simp only [exKwLot, List.mem_cons, List.not_mem_nil, or_false] at hp
    rcases hp with rfl | rfl | rfl <;> simp [Sep.isThru, IvWord.isThru, commaSep, dashSep, Item.Small, Kw.okLot]
  have h := (C05_styled_lots_expand true exKwLot (by simp [exKwLot]) hv).1
  have ht : exKwLot.lotText true = S "Lots 1, Lot 2 through Lots 4 and Lot 9" := by decide +kernel
  rw [ht] at h
  rw [h]
  decide +kernel

/-- "Sections 1 thru 3, 7, and 12 thru 10": the uniform style, with the flag of the descending range -/
example : (uniformStyled .thru ⟨false, [.comma], .and, .none⟩ [.range 1 3, .single 7] (.range 12 10)).secText true =
    S "Sections 1 thru 3, 7, and 12 thru 10" := by decide +kernel

end Examples

#print axioms Leads.iter
#print axioms segChain
#print axioms eats_ivRx
#print axioms sec_match_single
#print axioms sec_match_multi
#print axioms lot_match_single
#print axioms lot_match_multi
#print axioms C05_seclist_lexlist
#print axioms C05_seclist_tokens_expand
#print axioms C05_lotlist_lexlist
#print axioms C05_lotlist_tokens_expand
#print axioms C05_styled_sections_expand
#print axioms C05_styled_sections_lexlist
#print axioms C05_styled_sections_full
#print axioms C05_styled_sections_warning_iff
#print axioms C05_styled_lots_expand
#print axioms C05_styled_lots_full
#print axioms C05_styled_lots_warning_iff
#print axioms C05_canonical_sections_expand
#print axioms C05_canonical_sections_full
#print axioms C05_canonical_sections_warning_iff
#print axioms C05_canonical_lots_expand
#print axioms C05_canonical_lots_full
#print axioms C05_canonical_lots_warning_iff
#print axioms unpackSections_full
#print axioms C05_uniform_sections_full
#print axioms C05_uniform_lots_full
#print axioms unpackLots_full

end PyTRS
