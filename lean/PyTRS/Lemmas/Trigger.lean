/-
C10 (last clause) — "Exception, limitation, depth, inclusion and wellbore wording in the text always raises the
corresponding warning with the triggering words in its context."   (`ChunkParser.gen_flags_chunk`; model
`Plss.extendContext` / `triggerScan` / `genFlagsChunk`.)

Engine level — for EVERY chunk text; about the five patterns only what is decided on the regenerated table:
`minWidth ≥ 1` (`C16_trigger_patterns_consume`), pairwise different flags, and "no match starts or ends with white
space" (`C10_trigger_patterns_edges`, by the structural predicates `Rx.firstOut` / `Rx.lastOut`, proved sound for the
backtracking matcher in `Rx.m_progE`).

* §0  `search` = the match at the leftmost cursor at which `matchAt` succeeds (`Trig.search_some_iff`, `…_none_iff`).
* §1  the windows of the scan (`trigWindows`, fuel-free description `WinsFrom`; bounds, order, coverage).
* §2  edges of a match.   §3  the context string shows every span inside the window that has non-blank ends.
* §4  `C10_trigger_contexts_of_flag` (the lines of one flag = the contexts of its windows),
      `C10_trigger_raises_flag` (flag added ⇔ the pattern matches somewhere in the chunk),
      `C10_first_trigger_in_context`, `C10_every_uncut_trigger_in_context` (inside a window ⇔ not cut by the context).
* §5  lift to `chunkParser` / `plssParser` / `descParse`: the description and every tract carry the flag.
* §6  `C10_cut_trigger_witness`: the known finding (a trigger cut by the context is not reported), on the model.
-/
import PyTRS.Lemmas.GlueFuel
import PyTRS.Lemmas.FlagPipe
import PyTRS.Model.Objects
namespace PyTRS
open PyTRS.Unpack PyTRS.Plss PyTRS.Obj

/-! ## 0. `search` = the leftmost cursor at which `matchAt` succeeds -/

theorem Trig.matchAt_start (r : Rx) (text : List Char) (a e : Nat) (m : Match)
    (h : r.matchAt text a e = some m) : m.start = a := by
  unfold Rx.matchAt at h
  split at h
  · cases h
  · simp only [cursorAt] at h
    exact (matchHere_bounds r _ false m h).1

theorem Trig.scan_unfold (r : Rx) (prev : Option Char) (rest : List Char) (pos : Nat) (adv : Bool) :
    scan r prev rest pos adv =
      match matchHere r ⟨prev, rest, pos, []⟩ adv with
      | some m => some m
      | none =>
        match rest with
        | [] => none
        | c :: t => scan r (some c) t (pos + 1) false := by
  rw [scan.eq_def]
  rfl

theorem Trig.search_unfold (r : Rx) (text : List Char) (pos e : Nat) (h : pos ≤ min e text.length) :
    r.search text pos e =
      match r.matchAt text pos e with
      | some m => some m
      | none => if pos < min e text.length then r.search text (pos + 1) e else none := by
  unfold Rx.search Rx.matchAt
  have h1 : ¬ pos > min e text.length := by omega
  simp only [h1, if_false, cursorAt]
  rw [Trig.scan_unfold]
  cases hm : matchHere r ⟨if (pos == 0) = true then none else (List.take e text)[pos - 1]?, List.drop pos (List.take e text), pos, []⟩ false with
  | some m => rfl
  | none =>
    simp only []
    by_cases h2 : pos < min e text.length
    · have h3 : ¬ pos + 1 > min e text.length := by omega
      simp only [h2, h3, if_true, if_false]
      have hlen : pos < (List.take e text).length := by simpa [List.length_take] using h2
      rw [List.drop_eq_getElem_cons hlen]
      simp only [Nat.add_sub_cancel, Nat.succ_ne_zero, beq_iff_eq, if_false]
      rw [List.getElem?_eq_getElem hlen]
    · simp only [h2, if_false]
      have : List.drop pos (List.take e text) = [] := by
        apply List.drop_eq_nil_of_le
        simp only [List.length_take]; omega
      rw [this]

/-- what `search` returns: the match at the leftmost cursor in `[pos, min e |text|]` at which the pattern matches -/
theorem Trig.search_spec (r : Rx) (text : List Char) (e : Nat) : ∀ (d pos : Nat), pos + d = min e text.length →
    match r.search text pos e with
    | some m => pos ≤ m.start ∧ m.start ≤ min e text.length ∧ r.matchAt text m.start e = some m ∧
        ∀ a, pos ≤ a → a < m.start → r.matchAt text a e = none
    | none => ∀ a, pos ≤ a → a ≤ min e text.length → r.matchAt text a e = none := by
  intro d
  induction d with
  | zero =>
    intro pos hd
    rw [Trig.search_unfold r text pos e (by omega)]
    cases hm : r.matchAt text pos e with
    | some m =>
      have hs := Trig.matchAt_start r text pos e m hm
      simp only []
      refine ⟨by omega, by omega, by rw [hs]; exact hm, fun a h1 h2 => by omega⟩
    | none =>
      have : ¬ pos < min e text.length := by omega
      simp only [this, if_false]
      intro a h1 h2
      have : a = pos := by omega
      rw [this]; exact hm
  | succ n ih =>
    intro pos hd
    rw [Trig.search_unfold r text pos e (by omega)]
    cases hm : r.matchAt text pos e with
    | some m =>
      have hs := Trig.matchAt_start r text pos e m hm
      simp only []
      refine ⟨by omega, by omega, by rw [hs]; exact hm, fun a h1 h2 => by omega⟩
    | none =>
      have : pos < min e text.length := by omega
      simp only [this, if_true]
      have := ih (pos + 1) (by omega)
      cases hs : r.search text (pos + 1) e with
      | some m =>
        rw [hs] at this
        simp only [] at this ⊢
        obtain ⟨h1, h2, h3, h4⟩ := this
        refine ⟨by omega, h2, h3, ?_⟩
        intro a ha1 ha2
        by_cases hap : a = pos
        · rw [hap]; exact hm
        · exact h4 a (by omega) ha2
      | none =>
        rw [hs] at this
        simp only [] at this ⊢
        intro a ha1 ha2
        by_cases hap : a = pos
        · rw [hap]; exact hm
        · exact this a (by omega) ha2

theorem Trig.search_some_iff (r : Rx) (text : List Char) (pos e : Nat) (m : Match) :
    r.search text pos e = some m ↔
      pos ≤ m.start ∧ m.start ≤ min e text.length ∧ r.matchAt text m.start e = some m ∧
        ∀ a, pos ≤ a → a < m.start → r.matchAt text a e = none := by
  by_cases hp : pos ≤ min e text.length
  · have hspec := Trig.search_spec r text e (min e text.length - pos) pos (by omega)
    constructor
    · intro h
      rw [h] at hspec
      exact hspec
    · rintro ⟨h1, h2, h3, h4⟩
      cases hs : r.search text pos e with
      | none =>
        rw [hs] at hspec
        have := hspec m.start h1 h2
        rw [h3] at this; cases this
      | some m' =>
        rw [hs] at hspec
        obtain ⟨g1, g2, g3, g4⟩ := hspec
        rcases Nat.lt_trichotomy m'.start m.start with hlt | heq | hgt
        · have := h4 m'.start g1 hlt
          rw [g3] at this; cases this
        · rw [heq, h3] at g3
          exact g3.symm
        · have := g4 m.start h1 hgt
          rw [h3] at this; cases this
  · constructor
    · intro h
      have := search_bounds r text pos e m h
      omega
    · rintro ⟨h1, h2, _, _⟩
      omega

theorem Trig.search_none_iff (r : Rx) (text : List Char) (pos e : Nat) :
    r.search text pos e = none ↔ ∀ a, pos ≤ a → a ≤ min e text.length → r.matchAt text a e = none := by
  by_cases hp : pos ≤ min e text.length
  · have hspec := Trig.search_spec r text e (min e text.length - pos) pos (by omega)
    constructor
    · intro h
      rw [h] at hspec
      exact hspec
    · intro h
      cases hs : r.search text pos e with
      | none => rfl
      | some m =>
        rw [hs] at hspec
        obtain ⟨g1, g2, g3, _⟩ := hspec
        have := h m.start g1 g2
        rw [g3] at this; cases this
  · constructor
    · intro _ a h1 h2
      omega
    · intro _
      unfold Rx.search
      have : pos > min e text.length := by omega
      simp only [this, if_true]

theorem Trig.matchAt_bounds (r : Rx) (text : List Char) (a e : Nat) (m : Match)
    (h : r.matchAt text a e = some m) :
    m.start = a ∧ a ≤ min e text.length ∧ m.start + r.minWidth ≤ m.stop ∧ m.stop ≤ min e text.length := by
  unfold Rx.matchAt at h
  split at h
  · cases h
  · rename_i hp
    simp only [cursorAt] at h
    have := matchHere_caps (fun _ => false) r r.wideGrps_none _ false m (CapsOK.nil _ _) h
    simp only [List.length_drop, List.length_take] at this
    omega

/-! ## 1. The windows of the trigger scan -/

/-- one reported context: the trigger `[a, b)` that opened it and the window `[i, j)` of the chunk it shows -/
structure TrigWin where
  a : Nat
  b : Nat
  i : Nat
  j : Nat
  deriving Repr, DecidableEq

/-- the context string of a window: line breaks become blanks, stripped, wrapped in `<…>` -/
def trigCtx (chunk : Str) (i j : Nat) : Str :=
  S "<" ++ pyStrip (pyReplace (slice chunk i j) (S "\n") (S " ")) ++ S ">"

/-- the windows of the `while True` loop of `gen_flags_chunk` for one pattern, from `startPos` on -/
def trigWindows (p : Pat) (chunk : Str) (lc rc : Nat) : Nat → Nat → List TrigWin
  | 0, _ => []
  | fuel+1, s =>
    match p.rx.search chunk s chunk.length with
    | none => []
    | some m =>
      let j := min (extendContext p chunk rc (chunk.length + 2) m.stop + rc) chunk.length
      ⟨m.start, m.stop, m.start - lc, j⟩ :: trigWindows p chunk lc rc fuel j

theorem Trig.triggerScanU_eq (p : Pat) (flag chunk : Str) (lc rc : Nat) : ∀ (fuel s : Nat),
    triggerScanU p flag chunk lc rc fuel s =
      (trigWindows p chunk lc rc fuel s).map (fun w => (flag, trigCtx chunk w.i w.j)) := by
  intro fuel
  induction fuel with
  | zero => intro s; rfl
  | succ n ih =>
    intro s
    rw [triggerScanU, trigWindows]
    cases hs : p.rx.search chunk s chunk.length with
    | none => rfl
    | some m =>
      simp only [List.map_cons]
      rw [ih]
      rfl

/-- the scan of one pattern reports exactly the contexts of its windows, in order -/
theorem Trig.triggerScan_eq (p : Pat) (hw : p.rx.minWidth ≥ 1) (flag chunk : Str) (lc rc fuel s : Nat) :
    triggerScan p flag chunk lc rc fuel s =
      (trigWindows p chunk lc rc fuel s).map (fun w => (flag, trigCtx chunk w.i w.j)) := by
  rw [triggerScan_guard_dead p hw, Trig.triggerScanU_eq]

/-- fuel-free description of the window list: each window is opened by the leftmost match at or after the end of the
previous one; after the last window the pattern matches nowhere -/
def WinsFrom (p : Pat) (chunk : Str) (lc rc : Nat) : Nat → List TrigWin → Prop
  | s, [] => p.rx.search chunk s chunk.length = none
  | s, w :: rest => ∃ m, p.rx.search chunk s chunk.length = some m ∧
      w = ⟨m.start, m.stop, m.start - lc, min (extendContext p chunk rc (chunk.length + 2) m.stop + rc) chunk.length⟩ ∧
      WinsFrom p chunk lc rc w.j rest

theorem Trig.trigWindows_spec (p : Pat) (hw : p.rx.minWidth ≥ 1) (chunk : Str) (lc rc : Nat) :
    ∀ (fuel s : Nat), fuel ≥ chunk.length + 1 - s → WinsFrom p chunk lc rc s (trigWindows p chunk lc rc fuel s) := by
  intro fuel
  induction fuel with
  | zero =>
    intro s h
    simp only [trigWindows, WinsFrom]
    cases hs : p.rx.search chunk s chunk.length with
    | none => rfl
    | some m =>
      have := search_bounds _ _ _ _ _ hs
      omega
  | succ n ih =>
    intro s h
    rw [trigWindows]
    cases hs : p.rx.search chunk s chunk.length with
    | none => simpa [WinsFrom] using hs
    | some m =>
      simp only [WinsFrom]
      refine ⟨m, hs, rfl, ?_⟩
      apply ih
      have hb := search_bounds _ _ _ _ _ hs
      have hwd := search_width _ _ _ _ _ hs
      have hge := extendContext_ge p chunk rc (chunk.length + 2) m.stop
      omega

/-- every window is opened by a real match `[a, b)` of the pattern at or after the scan position, contains it, ends
inside the chunk, and starts `lc` characters before it -/
theorem Trig.wins_bounds (p : Pat) (hw : p.rx.minWidth ≥ 1) (chunk : Str) (lc rc : Nat) :
    ∀ (ws : List TrigWin) (s : Nat), WinsFrom p chunk lc rc s ws → ∀ w ∈ ws,
      s ≤ w.a ∧ w.a < w.b ∧ w.b ≤ w.j ∧ w.j ≤ chunk.length ∧ w.i = w.a - lc ∧
      ∃ m, p.rx.matchAt chunk w.a chunk.length = some m ∧ m.stop = w.b := by
  intro ws
  induction ws with
  | nil => intro s _ w hm; cases hm
  | cons w0 rest ih =>
    intro s h w hm
    obtain ⟨m, hs, hweq, hrest⟩ := h
    have hb := search_bounds _ _ _ _ _ hs
    have hwd := search_width _ _ _ _ _ hs
    have hge := extendContext_ge p chunk rc (chunk.length + 2) m.stop
    have h0 : s ≤ w0.a ∧ w0.a < w0.b ∧ w0.b ≤ w0.j ∧ w0.j ≤ chunk.length ∧ w0.i = w0.a - lc := by
      rw [hweq]; dsimp only; omega
    rcases List.mem_cons.1 hm with rfl | hm
    · refine ⟨h0.1, h0.2.1, h0.2.2.1, h0.2.2.2.1, h0.2.2.2.2, m, ?_, ?_⟩
      · have := ((Trig.search_some_iff _ _ _ _ _).1 hs).2.2.1
        rw [hweq]; exact this
      · rw [hweq]
    · have := ih w0.j hrest w hm
      refine ⟨by omega, this.2⟩

/-- the windows follow each other: the trigger that opens a window starts at or after the end of every earlier window
(so the ends `j` are strictly increasing and the spans `[a, j)` are pairwise disjoint) -/
theorem Trig.wins_pairwise (p : Pat) (hw : p.rx.minWidth ≥ 1) (chunk : Str) (lc rc : Nat) :
    ∀ (ws : List TrigWin) (s : Nat), WinsFrom p chunk lc rc s ws → ws.Pairwise (fun w w' => w.j ≤ w'.a) := by
  intro ws
  induction ws with
  | nil => intro s _; exact List.Pairwise.nil
  | cons w0 rest ih =>
    intro s h
    obtain ⟨m, hs, hweq, hrest⟩ := h
    refine List.Pairwise.cons ?_ (ih w0.j hrest)
    intro w' hw'
    exact (Trig.wins_bounds p hw chunk lc rc rest w0.j hrest w' hw').1

/-- every match of the pattern that starts at or after the scan position starts inside the span `[a, j)` of a window;
the match that starts exactly at `a` is the trigger that opened the window -/
theorem Trig.wins_cover (p : Pat) (chunk : Str) (lc rc : Nat) :
    ∀ (ws : List TrigWin) (s : Nat), WinsFrom p chunk lc rc s ws →
      ∀ (a : Nat) (m : Match), s ≤ a → p.rx.matchAt chunk a chunk.length = some m →
        ∃ w ∈ ws, w.a ≤ a ∧ a < w.j ∧ (a = w.a → m.stop = w.b) := by
  intro ws
  induction ws with
  | nil =>
    intro s h a m hsa hm
    simp only [WinsFrom] at h
    have hb := Trig.matchAt_bounds _ _ _ _ _ hm
    have := (Trig.search_none_iff _ _ _ _).1 h a hsa hb.2.1
    rw [hm] at this; cases this
  | cons w0 rest ih =>
    intro s h a m hsa hm
    obtain ⟨m0, hs, hweq, hrest⟩ := h
    obtain ⟨g1, g2, g3, g4⟩ := (Trig.search_some_iff _ _ _ _ _).1 hs
    have ha0 : w0.a = m0.start := by rw [hweq]
    have hb0 : w0.b = m0.stop := by rw [hweq]
    by_cases hlt : a < m0.start
    · have := g4 a hsa hlt
      rw [hm] at this; cases this
    · by_cases hj : a < w0.j
      · refine ⟨w0, List.mem_cons_self, by omega, hj, ?_⟩
        intro hea
        rw [hea, ha0, g3] at hm
        cases hm
        exact hb0.symm
      · obtain ⟨w, hwm, hw1, hw2, hw3⟩ := ih w0.j hrest a m (by omega) hm
        exact ⟨w, List.mem_cons_of_mem _ hwm, hw1, hw2, hw3⟩

/-! ## 2. The edges of a match: first and last consumed character outside a character set

Structural predicates `Rx.firstOut D` / `Rx.lastOut D` ("whenever a match of the pattern consumes anything, its first /
last character is not in `D`"), sound for the backtracking matcher; together with `minWidth ≥ 1` they say that a match
neither starts nor ends with a character of `D`.  Used with `D` = Python's white space: the context string is
`strip()`ped, which must not eat into the triggering words. -/

def CharSet.avoids (cs D : CharSet) : Bool :=
  cs.all (fun r => D.all (fun q => decide (r.2 < q.1) || decide (q.2 < r.1)))

theorem CharSet.not_mem_of_avoids {cs D : CharSet} (h : cs.avoids D = true) {c : Char} (hc : cs.mem c = true) :
    D.mem c = false := by
  cases hd : D.mem c with
  | false => rfl
  | true =>
    unfold CharSet.mem at hc hd
    unfold CharSet.avoids at h
    rw [List.any_eq_true] at hc hd
    obtain ⟨r, hr, hrc⟩ := hc
    obtain ⟨q, hq, hqc⟩ := hd
    rw [List.all_eq_true] at h
    have := h r hr
    rw [List.all_eq_true] at this
    have := this q hq
    simp only [Bool.and_eq_true, Bool.or_eq_true, decide_eq_true_eq] at hrc hqc this
    omega

def Rx.firstOut (D : CharSet) : Rx → Bool
  | .chr cs => cs.avoids D
  | .seq a b => a.firstOut D && (decide (a.minWidth ≥ 1) || b.firstOut D)
  | .alt a b => a.firstOut D && b.firstOut D
  | .rep r _ _ => r.firstOut D
  | .grp _ r => r.firstOut D
  | .eps | .fail | .ahead _ | .nahead _ | .behind _ | .wordb _ | .eos | .bos => true

def Rx.lastOut (D : CharSet) : Rx → Bool
  | .chr cs => cs.avoids D
  | .seq a b => b.lastOut D && (decide (b.minWidth ≥ 1) || a.lastOut D)
  | .alt a b => a.lastOut D && b.lastOut D
  | .rep r _ _ => r.lastOut D
  | .grp _ r => r.lastOut D
  | .eps | .fail | .ahead _ | .nahead _ | .behind _ | .wordb _ | .eos | .bos => true

/-- `s'` is reached from `s` by consuming `c`, at least `w` characters; if `f` the first and if `l` the last character
of `c` (when there is one) is outside `D` -/
def St.ExtE (D : CharSet) (w : Nat) (f l : Bool) (s s' : St) : Prop :=
  ∃ c : List Char, s.rest = c ++ s'.rest ∧ s'.pos = s.pos + c.length ∧ w ≤ c.length ∧
    (f = true → ∀ ch, c.head? = some ch → D.mem ch = false) ∧
    (l = true → ∀ ch, c.getLast? = some ch → D.mem ch = false)

theorem St.ExtE.refl (D : CharSet) (f l : Bool) (s : St) : St.ExtE D 0 f l s s :=
  ⟨[], by simp, by simp, by simp, (by intro _ ch h; cases h), (by intro _ ch h; cases h)⟩

theorem St.ExtE.trans {D : CharSet} {w1 w2 : Nat} {f1 l1 f2 l2 : Bool} {a b c : St}
    (e1 : St.ExtE D w1 f1 l1 a b) (e2 : St.ExtE D w2 f2 l2 b c) :
    St.ExtE D (w1 + w2) (f1 && (decide (w1 ≥ 1) || f2)) (l2 && (decide (w2 ≥ 1) || l1)) a c := by
  obtain ⟨x, hx1, hx2, hx3, hx4, hx5⟩ := e1
  obtain ⟨y, hy1, hy2, hy3, hy4, hy5⟩ := e2
  refine ⟨x ++ y, by rw [hx1, hy1, List.append_assoc], by rw [hy2, hx2, List.length_append]; omega,
    by rw [List.length_append]; omega, ?_, ?_⟩
  · intro h ch hch
    simp only [Bool.and_eq_true, Bool.or_eq_true, decide_eq_true_eq] at h
    cases x with
    | nil =>
      simp only [List.nil_append] at hch
      simp only [List.length_nil] at hx3
      rcases h.2 with h2 | h2
      · omega
      · exact hy4 h2 ch hch
    | cons d t =>
      simp only [List.cons_append, List.head?_cons] at hch
      exact hx4 h.1 ch (by simpa using hch)
  · intro h ch hch
    simp only [Bool.and_eq_true, Bool.or_eq_true, decide_eq_true_eq] at h
    rw [List.getLast?_append] at hch
    cases hyl : y.getLast? with
    | none =>
      have hyn : y = [] := List.getLast?_eq_none_iff.1 hyl
      subst hyn
      rw [hyl] at hch
      simp only [Option.none_or] at hch
      simp only [List.length_nil] at hy3
      rcases h.2 with h2 | h2
      · omega
      · exact hx5 h2 ch hch
    | some d =>
      rw [hyl] at hch
      simp only [Option.some_or, Option.some.injEq] at hch
      subst hch
      exact hy5 h.1 d hyl

theorem St.ExtE.weaken {D : CharSet} {w w' : Nat} {f l f' l' : Bool} {a b : St} (e : St.ExtE D w f l a b)
    (hw : w' ≤ w) (hf : f' = true → f = true) (hl : l' = true → l = true) : St.ExtE D w' f' l' a b := by
  obtain ⟨x, hx1, hx2, hx3, hx4, hx5⟩ := e
  exact ⟨x, hx1, hx2, by omega, fun h => hx4 (hf h), fun h => hx5 (hl h)⟩

theorem St.ExtE.caps {D : CharSet} {w : Nat} {f l : Bool} {a b : St} (e : St.ExtE D w f l a b)
    (cs : List (Nat × Nat × Nat)) : St.ExtE D w f l a { b with caps := cs } := e

def ProgE (D : CharSet) (w : Nat) (f l : Bool) {R : Type} (fn : St → (St → Option R) → Option R) : Prop :=
  ∀ s k x, fn s k = some x → ∃ s', St.ExtE D w f l s s' ∧ k s' = some x

theorem repLoop_progE {R : Type} (D : CharSet) (w : Nat) (f l : Bool) (body : St → (St → Option R) → Option R)
    (hb : ProgE D w f l body) (lo : Nat) (hi : Option Nat) :
    ∀ (fuel count : Nat) (last : Option Nat), ProgE D ((lo - count) * w) f l (repLoop body lo hi fuel count last) := by
  intro fuel
  induction fuel with
  | zero => intro count last s k x h; simp [repLoop] at h
  | succ n ih =>
    intro count last s k x h
    rw [repLoop_succ] at h
    by_cases h1 : count < lo
    · simp only [h1, if_true] at h
      obtain ⟨s1, e1, hk1⟩ := hb s _ x h
      obtain ⟨s2, e2, hk2⟩ := ih _ _ s1 k x hk1
      refine ⟨s2, (e1.trans e2).weaken ?_ ?_ ?_, hk2⟩
      · have : lo - count = (lo - (count + 1)) + 1 := by omega
        rw [this, Nat.succ_mul]
        omega
      · intro hf; simp [hf]
      · intro hl; simp [hl]
    · have h0 : lo - count = 0 := by omega
      rw [h0, Nat.zero_mul]
      simp only [h1, if_false] at h
      by_cases h2 : (canMore hi count && last != some s.pos) = true
      · simp only [h2, if_true] at h
        cases hb' : body s (fun s' => repLoop body lo hi n (count + 1) (some s.pos) s' k) with
        | some r =>
          rw [hb'] at h
          cases h
          obtain ⟨s1, e1, hk1⟩ := hb s _ _ hb'
          obtain ⟨s2, e2, hk2⟩ := ih _ _ s1 k _ hk1
          refine ⟨s2, (e1.trans e2).weaken (by omega) ?_ ?_, hk2⟩
          · intro hf; simp [hf]
          · intro hl; simp [hl]
        | none =>
          rw [hb'] at h
          exact ⟨s, St.ExtE.refl D f l s, h⟩
      · simp only [h2] at h
        exact ⟨s, St.ExtE.refl D f l s, h⟩

/-- soundness of `firstOut` / `lastOut` (with the width bound `minWidth`) -/
theorem Rx.m_progE (D : CharSet) : ∀ (r : Rx) {R : Type},
    ProgE D r.minWidth (r.firstOut D) (r.lastOut D) (r.m (R := R)) := by
  intro r
  induction r with
  | eps => intro R s k x h; simp only [Rx.m] at h; exact ⟨s, St.ExtE.refl D _ _ s, h⟩
  | fail => intro R s k x h; simp [Rx.m] at h
  | chr cs =>
    intro R s k x h
    simp only [Rx.m] at h
    split at h
    · rename_i c t hrest
      split at h
      · rename_i hmem
        refine ⟨{ prev := some c, rest := t, pos := s.pos + 1, caps := s.caps },
          ⟨[c], by simp [hrest], by simp, by simp [Rx.minWidth], ?_, ?_⟩, h⟩
        · intro hh ch hch
          simp only [Rx.firstOut] at hh
          simp only [List.head?_cons, Option.some.injEq] at hch
          subst hch
          exact CharSet.not_mem_of_avoids hh hmem
        · intro hh ch hch
          simp only [Rx.lastOut] at hh
          simp only [List.getLast?_singleton, Option.some.injEq] at hch
          subst hch
          exact CharSet.not_mem_of_avoids hh hmem
      · cases h
    · cases h
  | seq a b iha ihb =>
    intro R s k x h
    simp only [Rx.m] at h
    obtain ⟨s1, e1, h1⟩ := iha s _ x h
    obtain ⟨s2, e2, h2⟩ := ihb s1 k x h1
    exact ⟨s2, (e1.trans e2).weaken (by simp [Rx.minWidth]) (by simp only [Rx.firstOut]; exact id)
      (by simp only [Rx.lastOut]; exact id), h2⟩
  | alt a b iha ihb =>
    intro R s k x h
    simp only [Rx.m] at h
    split at h
    · rename_i r hr
      cases h
      obtain ⟨s1, e1, h1⟩ := iha s k _ hr
      exact ⟨s1, e1.weaken (by simp only [Rx.minWidth]; omega)
        (by simp only [Rx.firstOut, Bool.and_eq_true]; exact fun hh => hh.1)
        (by simp only [Rx.lastOut, Bool.and_eq_true]; exact fun hh => hh.1), h1⟩
    · obtain ⟨s1, e1, h1⟩ := ihb s k x h
      exact ⟨s1, e1.weaken (by simp only [Rx.minWidth]; omega)
        (by simp only [Rx.firstOut, Bool.and_eq_true]; exact fun hh => hh.2)
        (by simp only [Rx.lastOut, Bool.and_eq_true]; exact fun hh => hh.2), h1⟩
  | rep r lo hi ih =>
    intro R s k x h
    simp only [Rx.m] at h
    obtain ⟨s1, e1, h1⟩ := repLoop_progE D _ _ _ _ ih lo hi _ 0 none s k x h
    exact ⟨s1, e1.weaken (by simp [Rx.minWidth]) (by simp only [Rx.firstOut]; exact id)
      (by simp only [Rx.lastOut]; exact id), h1⟩
  | grp i r ih =>
    intro R s k x h
    simp only [Rx.m] at h
    obtain ⟨s1, e1, h1⟩ := ih s _ x h
    exact ⟨_, (e1.caps _).weaken (by simp [Rx.minWidth]) (by simp only [Rx.firstOut]; exact id)
      (by simp only [Rx.lastOut]; exact id), h1⟩
  | ahead r _ =>
    intro R s k x h
    simp only [Rx.m] at h
    split at h
    · exact ⟨_, ((St.ExtE.refl D _ _ s).caps _).weaken (by simp [Rx.minWidth]) id id, h⟩
    · cases h
  | nahead r _ =>
    intro R s k x h
    simp only [Rx.m] at h
    split at h
    · cases h
    · exact ⟨s, (St.ExtE.refl D _ _ s).weaken (by simp [Rx.minWidth]) id id, h⟩
  | behind cs =>
    intro R s k x h
    simp only [Rx.m] at h
    split at h
    · split at h
      · exact ⟨s, (St.ExtE.refl D _ _ s).weaken (by simp [Rx.minWidth]) id id, h⟩
      · cases h
    · cases h
  | wordb w =>
    intro R s k x h
    simp only [Rx.m] at h
    split at h
    · exact ⟨s, (St.ExtE.refl D _ _ s).weaken (by simp [Rx.minWidth]) id id, h⟩
    · cases h
  | eos =>
    intro R s k x h
    simp only [Rx.m] at h
    split at h
    · exact ⟨s, (St.ExtE.refl D _ _ s).weaken (by simp [Rx.minWidth]) id id, h⟩
    · split at h
      · exact ⟨s, (St.ExtE.refl D _ _ s).weaken (by simp [Rx.minWidth]) id id, h⟩
      · cases h
    · cases h
  | bos =>
    intro R s k x h
    simp only [Rx.m] at h
    split at h
    · exact ⟨s, (St.ExtE.refl D _ _ s).weaken (by simp [Rx.minWidth]) id id, h⟩
    · cases h

theorem Trig.slice_of_drop_take (text c t : List Char) (a e : Nat) (h : List.drop a (List.take e text) = c ++ t) :
    slice text a (a + c.length) = c := by
  have hlen : c.length ≤ min e text.length - a := by
    have := congrArg List.length h
    simp only [List.length_drop, List.length_take, List.length_append] at this
    omega
  by_cases hc : c.length = 0
  · have : c = [] := List.length_eq_zero_iff.1 hc
    subst this
    simp [slice]
  · have h1 : List.take c.length (List.drop a (List.take e text)) = c := by
      rw [h, List.take_left' rfl]
    rw [List.take_drop, List.take_take] at h1
    have : min (a + c.length) e = a + c.length := by omega
    rw [this] at h1
    exact h1

/-- a match of a pattern of `minWidth ≥ 1` with `firstOut D` and `lastOut D` neither starts nor ends with a character
of `D` -/
theorem Trig.matchAt_edges (D : CharSet) (r : Rx) (hw : r.minWidth ≥ 1) (hf : r.firstOut D = true)
    (hl : r.lastOut D = true) (text : List Char) (a e : Nat) (m : Match) (h : r.matchAt text a e = some m) :
    ∃ c1 c2, (slice text a m.stop).head? = some c1 ∧ D.mem c1 = false ∧
      (slice text a m.stop).getLast? = some c2 ∧ D.mem c2 = false := by
  unfold Rx.matchAt at h
  split at h
  · cases h
  · simp only [cursorAt] at h
    unfold matchHere at h
    obtain ⟨s', ⟨c, hc1, hc2, hc3, hc4, hc5⟩, hk⟩ := Rx.m_progE D r _ _ m h
    simp only [Bool.false_and, Bool.false_eq_true, if_false, Option.some.injEq] at hk
    simp only [] at hc1 hc2
    have hstop : m.stop = a + c.length := by rw [← hk]; exact hc2
    have hsl := Trig.slice_of_drop_take text c s'.rest a e hc1
    rw [hstop, hsl]
    cases c with
    | nil => simp only [List.length_nil] at hc3; omega
    | cons d t =>
      obtain ⟨c2, hc2'⟩ : ∃ c2, (d :: t).getLast? = some c2 := ⟨(d :: t).getLast (by simp), List.getLast?_eq_some_getLast _⟩
      exact ⟨d, c2, rfl, hc4 hf d rfl, hc2', hc5 hl c2 hc2'⟩

/-- the five trigger patterns neither start nor end with white space (decided on the regenerated table) -/
theorem C10_trigger_patterns_edges :
    Gen.GEN_FLAGS_TABLE.all (fun row =>
      (findPat row.1).rx.firstOut Gen.PY_SPACE && (findPat row.1).rx.lastOut Gen.PY_SPACE) = true := by
  decide +kernel

/-! ## 3. The context string contains the words -/

/-- Python's `.replace('\n', ' ')` -/
def nl2sp (s : Str) : Str := s.map (fun c => if c = '\n' then ' ' else c)

theorem Trig.pyReplaceAux_nl_sp : ∀ (s : Str) (fuel : Nat), s.length ≤ fuel →
    pyReplaceAux ['\n'] [' '] fuel s = nl2sp s
  | [], 0, _ => rfl
  | [], _+1, _ => rfl
  | c :: t, 0, h => by simp at h
  | c :: t, fuel+1, h => by
    have ih := Trig.pyReplaceAux_nl_sp t fuel (by simpa using h)
    by_cases hc : c = '\n'
    · subst hc
      simp [pyReplaceAux, isPrefix, ih, nl2sp]
    · have hc' : ('\n' == c) = false := by simpa using fun e => hc e.symm
      simp [pyReplaceAux, isPrefix, ih, hc, hc', nl2sp]

theorem Trig.pyReplace_nl_sp (s : Str) : pyReplace s (S "\n") (S " ") = nl2sp s :=
  Trig.pyReplaceAux_nl_sp s _ (Nat.le_succ _)

theorem Trig.lstripBy_append (p : Char → Bool) (y : Str) (c : Char) (hy : y.head? = some c) (hc : p c = false) :
    ∀ x : Str, lstripBy p (x ++ y) = lstripBy p x ++ y
  | [] => by
    cases y with
    | nil => cases hy
    | cons d t =>
      simp only [List.head?_cons, Option.some.injEq] at hy
      subst hy
      simp [lstripBy, hc]
  | d :: x => by
    have ih := Trig.lstripBy_append p y c hy hc x
    by_cases hd : p d = true
    · simp only [List.cons_append, lstripBy, hd, if_true]
      exact ih
    · simp only [List.cons_append, lstripBy, hd]
      rfl

theorem Trig.rstripBy_append (p : Char → Bool) (y z : Str) (c : Char) (hy : y.getLast? = some c) (hc : p c = false) :
    rstripBy p (y ++ z) = y ++ rstripBy p z := by
  unfold rstripBy
  rw [List.reverse_append, Trig.lstripBy_append p y.reverse c (by simpa using hy) hc, List.reverse_append,
    List.reverse_reverse]

/-- stripping does not eat into a middle part that neither starts nor ends with a strippable character -/
theorem Trig.stripBy_mid (p : Char → Bool) (x y z : Str) (c1 c2 : Char) (h1 : y.head? = some c1) (hc1 : p c1 = false)
    (h2 : y.getLast? = some c2) (hc2 : p c2 = false) :
    stripBy p (x ++ y ++ z) = lstripBy p x ++ y ++ rstripBy p z := by
  unfold stripBy
  have hyz : (y ++ z).head? = some c1 := by
    cases y with
    | nil => cases h1
    | cons d t => simpa using h1
  rw [List.append_assoc, Trig.lstripBy_append p (y ++ z) c1 hyz hc1 x, ← List.append_assoc]
  have hxy : (lstripBy p x ++ y).getLast? = some c2 := by
    rw [List.getLast?_append, h2]; rfl
  rw [Trig.rstripBy_append p _ z c2 hxy hc2]

theorem Trig.nl2sp_edge (c : Char) (hc : pyIsSpace c = false) : (if c = '\n' then ' ' else c) = c := by
  have : c ≠ '\n' := by
    intro e
    subst e
    revert hc
    decide
  simp [this]

/-- the context string of a window shows every span of the chunk inside the window whose first and last characters
are not white space (line breaks in it shown as blanks) -/
theorem Trig.ctx_contains (chunk : Str) (i a b j : Nat) (hia : i ≤ a) (hab : a ≤ b) (hbj : b ≤ j) (c1 c2 : Char)
    (h1 : (slice chunk a b).head? = some c1) (hc1 : pyIsSpace c1 = false)
    (h2 : (slice chunk a b).getLast? = some c2) (hc2 : pyIsSpace c2 = false) :
    ∃ u v, trigCtx chunk i j = S "<" ++ u ++ nl2sp (slice chunk a b) ++ v ++ S ">" := by
  have hsplit : slice chunk i j = slice chunk i a ++ slice chunk a b ++ slice chunk b j := by
    rw [slice_append chunk i a b hia hab, slice_append chunk i b j (by omega) hbj]
  have g1 : (nl2sp (slice chunk a b)).head? = some c1 := by
    unfold nl2sp
    rw [List.head?_map, h1]
    simp only [Option.map_some]
    rw [Trig.nl2sp_edge c1 hc1]
  have g2 : (nl2sp (slice chunk a b)).getLast? = some c2 := by
    unfold nl2sp
    rw [List.getLast?_map, h2]
    simp only [Option.map_some]
    rw [Trig.nl2sp_edge c2 hc2]
  refine ⟨lstripBy pyIsSpace (nl2sp (slice chunk i a)), rstripBy pyIsSpace (nl2sp (slice chunk b j)), ?_⟩
  unfold trigCtx
  rw [Trig.pyReplace_nl_sp, hsplit]
  have : nl2sp (slice chunk i a ++ slice chunk a b ++ slice chunk b j) =
      nl2sp (slice chunk i a) ++ nl2sp (slice chunk a b) ++ nl2sp (slice chunk b j) := by
    simp [nl2sp]
  rw [this]
  unfold pyStrip
  rw [Trig.stripBy_mid pyIsSpace _ _ _ c1 c2 g1 hc1 g2 hc2]
  simp only [List.append_assoc]

/-! ## 4. `gen_flags_chunk` -/

/-- the (flag, context) pairs `gen_flags_chunk` finds in a chunk, in the order it reports them -/
def genFlagsFound (chunk : Str) : List (Str × Str) :=
  Gen.GEN_FLAGS_TABLE.flatMap (fun row =>
    triggerScan (findPat row.1) (S row.2.1) chunk row.2.2.1 row.2.2.2 (chunk.length + 2) 0)

/-- the warning flags / flag lines `gen_flags_chunk` appends to its parent's -/
def genFlagsAddedW (chunk : Str) : List PyVal := (genFlagsFound chunk).map (fun fc => PyVal.str fc.1)
def genFlagsAddedWL (chunk : Str) : List PyVal :=
  (genFlagsFound chunk).map (fun fc => PyVal.tup [.str fc.1, .str fc.2])

theorem genFlagsChunk_eq (chunk : Str) (fl : Tract.Flags) :
    genFlagsChunk chunk fl =
      { fl with w := fl.w ++ genFlagsAddedW chunk, wl := fl.wl ++ genFlagsAddedWL chunk } := rfl

/-- the windows of one row of the trigger table -/
def rowWindows (row : String × String × Nat × Nat) (chunk : Str) : List TrigWin :=
  trigWindows (findPat row.1) chunk row.2.2.1 row.2.2.2 (chunk.length + 2) 0

theorem Trig.row_facts (row : String × String × Nat × Nat) (h : row ∈ Gen.GEN_FLAGS_TABLE) :
    (findPat row.1).rx.minWidth ≥ 1 ∧ (findPat row.1).rx.firstOut Gen.PY_SPACE = true ∧
      (findPat row.1).rx.lastOut Gen.PY_SPACE = true := by
  have h1 := C16_trigger_patterns_consume
  have h2 := C10_trigger_patterns_edges
  rw [List.all_eq_true] at h1 h2
  have a := h1 row h
  have b := h2 row h
  simp only [decide_eq_true_eq, Bool.and_eq_true] at a b
  exact ⟨a, b.1, b.2⟩

/-- the five flags are pairwise different (decided on the regenerated table) -/
theorem Trig.table_flags_distinct :
    Gen.GEN_FLAGS_TABLE.Pairwise (fun r r' => S r.2.1 ≠ S r'.2.1) := by
  decide +kernel

theorem Trig.filter_flatMap_key {α : Type} (key : α → Str) (f : α → List (Str × Str))
    (hf : ∀ r, ∀ fc ∈ f r, fc.1 = key r) :
    ∀ (T : List α), T.Pairwise (fun r r' => key r ≠ key r') → ∀ r ∈ T,
      (T.flatMap f).filter (fun fc => fc.1 == key r) = f r := by
  intro T
  induction T with
  | nil => intro _ r hr; cases hr
  | cons r0 T' ih =>
    intro hp r hr
    rw [List.pairwise_cons] at hp
    simp only [List.flatMap_cons, List.filter_append]
    have hall : ∀ (x y : α), key x ≠ key y → (f x).filter (fun fc => fc.1 == key y) = [] := by
      intro x y hxy
      rw [List.filter_eq_nil_iff]
      intro fc hfc
      rw [hf x fc hfc]
      simpa using hxy
    have hself : ∀ x : α, (f x).filter (fun fc => fc.1 == key x) = f x := by
      intro x
      rw [List.filter_eq_self]
      intro fc hfc
      rw [hf x fc hfc]
      simp
    rcases List.mem_cons.1 hr with rfl | hr'
    · rw [hself]
      have : (T'.flatMap f).filter (fun fc => fc.1 == key r) = [] := by
        rw [List.filter_eq_nil_iff]
        intro fc hfc
        obtain ⟨x, hx, hfx⟩ := List.mem_flatMap.1 hfc
        rw [hf x fc hfx]
        simpa using fun e => hp.1 x hx e.symm
      rw [this, List.append_nil]
    · rw [hall r0 r (hp.1 r hr'), List.nil_append]
      exact ih hp.2 r hr'

theorem Trig.triggerScan_flag (p : Pat) (flag chunk : Str) (lc rc : Nat) : ∀ (fuel s : Nat),
    ∀ fc ∈ triggerScan p flag chunk lc rc fuel s, fc.1 = flag := by
  intro fuel
  induction fuel with
  | zero => intro s fc h; simp [triggerScan] at h
  | succ n ih =>
    intro s fc h
    rw [triggerScan_succ] at h
    split at h
    · cases h
    · simp only [] at h
      split at h
      · simp only [List.mem_singleton] at h
        rw [h]
      · rcases List.mem_cons.1 h with h | h
        · rw [h]
        · exact ih _ fc h

/-- THE REPORTED CONTEXTS OF ONE FLAG: among everything `gen_flags_chunk` reports, the lines of one flag are exactly the
contexts of the windows of its pattern, in order -/
theorem C10_trigger_contexts_of_flag (row : String × String × Nat × Nat) (hrow : row ∈ Gen.GEN_FLAGS_TABLE)
    (chunk : Str) :
    (genFlagsFound chunk).filter (fun fc => fc.1 == S row.2.1) =
      (rowWindows row chunk).map (fun w => (S row.2.1, trigCtx chunk w.i w.j)) := by
  unfold genFlagsFound
  rw [Trig.filter_flatMap_key (fun (r : String × String × Nat × Nat) => S r.2.1) _
    (fun r fc h => Trig.triggerScan_flag _ _ _ _ _ _ _ fc h) _ Trig.table_flags_distinct row hrow]
  exact Trig.triggerScan_eq _ (Trig.row_facts row hrow).1 _ _ _ _ _ _

/-- the fuel-free description holds of the windows of every row -/
theorem Trig.rowWindows_spec (row : String × String × Nat × Nat) (hrow : row ∈ Gen.GEN_FLAGS_TABLE) (chunk : Str) :
    WinsFrom (findPat row.1) chunk row.2.2.1 row.2.2.2 0 (rowWindows row chunk) :=
  Trig.trigWindows_spec _ (Trig.row_facts row hrow).1 chunk _ _ _ 0 (by omega)

/-! ### Goal 1 — the flag is raised exactly when the pattern matches somewhere -/

theorem Trig.rowWindows_ne_nil_iff (row : String × String × Nat × Nat) (hrow : row ∈ Gen.GEN_FLAGS_TABLE) (chunk : Str) :
    rowWindows row chunk ≠ [] ↔ (findPat row.1).rx.search chunk 0 chunk.length ≠ none := by
  have hspec := Trig.rowWindows_spec row hrow chunk
  cases hws : rowWindows row chunk with
  | nil =>
    rw [hws] at hspec
    simp only [WinsFrom] at hspec
    simp [hspec]
  | cons w rest =>
    rw [hws] at hspec
    obtain ⟨m, hs, _, _⟩ := hspec
    simp [hs]

/-- C10, last clause, engine level: for every row (pattern, flag, left, right) of the trigger table and EVERY chunk
text, `gen_flags_chunk` adds the flag (and a flag line for it) if and only if the pattern matches somewhere in the
chunk -/
theorem C10_trigger_raises_flag (row : String × String × Nat × Nat) (hrow : row ∈ Gen.GEN_FLAGS_TABLE)
    (chunk : Str) (fl : Tract.Flags) :
    (genFlagsChunk chunk fl).w = fl.w ++ genFlagsAddedW chunk ∧
    (genFlagsChunk chunk fl).wl = fl.wl ++ genFlagsAddedWL chunk ∧
    ((findPat row.1).rx.search chunk 0 chunk.length ≠ none ↔ PyVal.str (S row.2.1) ∈ genFlagsAddedW chunk) ∧
    ((findPat row.1).rx.search chunk 0 chunk.length ≠ none ↔
      ∃ ctx, PyVal.tup [.str (S row.2.1), .str ctx] ∈ genFlagsAddedWL chunk) ∧
    ((findPat row.1).rx.search chunk 0 chunk.length ≠ none →
      PyVal.str (S row.2.1) ∈ (genFlagsChunk chunk fl).w ∧
      ∃ ctx, PyVal.tup [.str (S row.2.1), .str ctx] ∈ (genFlagsChunk chunk fl).wl) := by
  have hflt := C10_trigger_contexts_of_flag row hrow chunk
  have hne := Trig.rowWindows_ne_nil_iff row hrow chunk
  have key : (findPat row.1).rx.search chunk 0 chunk.length ≠ none ↔
      ∃ ctx, (S row.2.1, ctx) ∈ genFlagsFound chunk := by
    rw [← hne]
    constructor
    · intro h
      cases hws : rowWindows row chunk with
      | nil => exact absurd hws h
      | cons w rest =>
        rw [hws] at hflt
        have : (S row.2.1, trigCtx chunk w.i w.j) ∈
            (genFlagsFound chunk).filter (fun fc => fc.1 == S row.2.1) := by
          rw [hflt]; simp
        exact ⟨_, (List.mem_filter.1 this).1⟩
    · rintro ⟨ctx, hctx⟩ hnil
      rw [hnil] at hflt
      have : (S row.2.1, ctx) ∈ (genFlagsFound chunk).filter (fun fc => fc.1 == S row.2.1) :=
        List.mem_filter.2 ⟨hctx, by simp⟩
      rw [hflt] at this
      cases this
  have k1 : (findPat row.1).rx.search chunk 0 chunk.length ≠ none ↔ PyVal.str (S row.2.1) ∈ genFlagsAddedW chunk := by
    rw [key]
    unfold genFlagsAddedW
    constructor
    · rintro ⟨ctx, h⟩
      exact List.mem_map.2 ⟨_, h, rfl⟩
    · intro h
      obtain ⟨fc, hfc, he⟩ := List.mem_map.1 h
      simp only [PyVal.str.injEq] at he
      exact ⟨fc.2, by rw [← he]; exact hfc⟩
  have k2 : (findPat row.1).rx.search chunk 0 chunk.length ≠ none ↔
      ∃ ctx, PyVal.tup [.str (S row.2.1), .str ctx] ∈ genFlagsAddedWL chunk := by
    rw [key]
    unfold genFlagsAddedWL
    constructor
    · rintro ⟨ctx, h⟩
      exact ⟨ctx, List.mem_map.2 ⟨_, h, rfl⟩⟩
    · rintro ⟨ctx, h⟩
      obtain ⟨fc, hfc, he⟩ := List.mem_map.1 h
      simp only [PyVal.tup.injEq, List.cons.injEq, PyVal.str.injEq, and_true] at he
      exact ⟨ctx, by rw [← he.1, ← he.2]; exact hfc⟩
  refine ⟨rfl, rfl, k1, k2, ?_⟩
  intro h
  rw [genFlagsChunk_eq]
  refine ⟨List.mem_append_right _ (k1.1 h), ?_⟩
  obtain ⟨ctx, hctx⟩ := k2.1 h
  exact ⟨ctx, List.mem_append_right _ hctx⟩

/-! ### Goal 2 — the first trigger is in the first context of its flag -/

theorem Trig.pyIsSpace_eq (c : Char) : pyIsSpace c = CharSet.mem Gen.PY_SPACE c := rfl

/-- a match of a row's pattern inside a window of the chunk is shown by the window's context string -/
theorem Trig.row_ctx_contains (row : String × String × Nat × Nat) (hrow : row ∈ Gen.GEN_FLAGS_TABLE) (chunk : Str)
    (a : Nat) (m : Match) (hm : (findPat row.1).rx.matchAt chunk a chunk.length = some m)
    (i j : Nat) (hia : i ≤ a) (hbj : m.stop ≤ j) :
    ∃ u v, trigCtx chunk i j = S "<" ++ u ++ nl2sp (slice chunk a m.stop) ++ v ++ S ">" := by
  obtain ⟨hw, hf, hl⟩ := Trig.row_facts row hrow
  obtain ⟨c1, c2, h1, hc1, h2, hc2⟩ := Trig.matchAt_edges Gen.PY_SPACE _ hw hf hl chunk a chunk.length m hm
  have hb := Trig.matchAt_bounds _ _ _ _ _ hm
  exact Trig.ctx_contains chunk i a m.stop j hia (by omega) hbj c1 c2 h1 (by rw [Trig.pyIsSpace_eq]; exact hc1) h2
    (by rw [Trig.pyIsSpace_eq]; exact hc2)

/-- C10, last clause: the words of the FIRST match of a trigger pattern in the chunk (line breaks shown as blanks)
occur in the first context `gen_flags_chunk` reports for that flag.  (The patterns neither start nor end with white
space — `C10_trigger_patterns_edges` — so the `strip()` of the context cannot eat into them.) -/
theorem C10_first_trigger_in_context (row : String × String × Nat × Nat) (hrow : row ∈ Gen.GEN_FLAGS_TABLE)
    (chunk : Str) (m : Match) (hs : (findPat row.1).rx.search chunk 0 chunk.length = some m) :
    ∃ ctx u v, (genFlagsFound chunk).find? (fun fc => fc.1 == S row.2.1) = some (S row.2.1, ctx) ∧
      PyVal.tup [.str (S row.2.1), .str ctx] ∈ genFlagsAddedWL chunk ∧
      ctx = S "<" ++ u ++ nl2sp (m.group0 chunk) ++ v ++ S ">" := by
  have hflt := C10_trigger_contexts_of_flag row hrow chunk
  have hspec := Trig.rowWindows_spec row hrow chunk
  cases hws : rowWindows row chunk with
  | nil =>
    rw [hws] at hspec
    simp only [WinsFrom] at hspec
    rw [hs] at hspec; cases hspec
  | cons w rest =>
    rw [hws] at hspec hflt
    obtain ⟨m', hs', hweq, _⟩ := hspec
    rw [hs] at hs'
    cases hs'
    obtain ⟨g1, g2, g3, g4⟩ := (Trig.search_some_iff _ _ _ _ _).1 hs
    have hb := search_bounds _ _ _ _ _ hs
    have hge := extendContext_ge (findPat row.1) chunk row.2.2.2 (chunk.length + 2) m.stop
    have hi : w.i ≤ m.start := by rw [hweq]; dsimp only; omega
    have hj : m.stop ≤ w.j := by rw [hweq]; dsimp only; omega
    obtain ⟨u, v, huv⟩ := Trig.row_ctx_contains row hrow chunk m.start m g3 w.i w.j hi hj
    have hfind : (genFlagsFound chunk).find? (fun fc => fc.1 == S row.2.1) = some (S row.2.1, trigCtx chunk w.i w.j) := by
      rw [← List.head?_filter, hflt]
      rfl
    refine ⟨trigCtx chunk w.i w.j, u, v, hfind, ?_, huv⟩
    unfold genFlagsAddedWL
    exact List.mem_map.2 ⟨_, List.mem_of_find?_eq_some hfind, rfl⟩

/-! ### Goal 3 — all reported contexts; which triggers are shown, which are cut -/

/-- the span `[a, b)` lies inside a window, at or after the trigger that opened it -/
def TrigInWindow (ws : List TrigWin) (a b : Nat) : Prop := ∃ w ∈ ws, w.a ≤ a ∧ b ≤ w.j

/-- the span `[a, b)` is CUT BY THE CONTEXT: it starts strictly inside a window (after the trigger that opened it) and
ends beyond the window's end — where the next search starts, in the middle of the span -/
def TrigCut (ws : List TrigWin) (a b : Nat) : Prop := ∃ w ∈ ws, w.a < a ∧ a < w.j ∧ w.j < b

theorem Trig.win_unique : ∀ (ws : List TrigWin), ws.Pairwise (fun w w' => w.j ≤ w'.a) →
    ∀ (a : Nat) (w1 w2 : TrigWin), w1 ∈ ws → w2 ∈ ws → w1.a ≤ a → a < w1.j → w2.a ≤ a → a < w2.j → w1 = w2 := by
  intro ws
  induction ws with
  | nil => intro _ a w1 w2 h1; cases h1
  | cons w0 rest ih =>
    intro hp a w1 w2 h1 h2 a1 b1 a2 b2
    rw [List.pairwise_cons] at hp
    rcases List.mem_cons.1 h1 with rfl | h1' <;> rcases List.mem_cons.1 h2 with rfl | h2'
    · rfl
    · have := hp.1 w2 h2'; omega
    · have := hp.1 w1 h1'; omega
    · exact ih hp.2 a w1 w2 h1' h2' a1 b1 a2 b2

/-- engine level (any pattern that cannot match the empty string, any chunk): a match of the pattern lies inside a
window iff it is not cut by the context -/
theorem Trig.uncut_iff (p : Pat) (hw : p.rx.minWidth ≥ 1) (chunk : Str) (lc rc : Nat) (ws : List TrigWin)
    (h : WinsFrom p chunk lc rc 0 ws) (a : Nat) (m : Match) (hm : p.rx.matchAt chunk a chunk.length = some m) :
    (∃ w ∈ ws, w.a ≤ a ∧ a < w.j) ∧ (TrigInWindow ws a m.stop ↔ ¬ TrigCut ws a m.stop) := by
  have hb := Trig.matchAt_bounds _ _ _ _ _ hm
  have hpw := Trig.wins_pairwise p hw chunk lc rc ws 0 h
  obtain ⟨w, hwm, hw1, hw2, hw3⟩ := Trig.wins_cover p chunk lc rc ws 0 h a m (by omega) hm
  refine ⟨⟨w, hwm, hw1, hw2⟩, ?_⟩
  constructor
  · rintro ⟨w1, hm1, h11, h12⟩ ⟨w2, hm2, h21, h22, h23⟩
    have := Trig.win_unique ws hpw a w1 w2 hm1 hm2 h11 (by omega) (by omega) h22
    subst this
    omega
  · intro hnc
    by_cases hin : m.stop ≤ w.j
    · exact ⟨w, hwm, hw1, hin⟩
    · exfalso
      apply hnc
      have hbd := Trig.wins_bounds p hw chunk lc rc ws 0 h w hwm
      refine ⟨w, hwm, ?_, hw2, by omega⟩
      by_cases hea : a = w.a
      · have := hw3 hea; omega
      · omega

/-- C10, last clause, ALL reported contexts.  For every row of the trigger table and every chunk, with
`ws = rowWindows row chunk` (the lines reported for the flag are exactly the contexts of `ws`, in order:
`C10_trigger_contexts_of_flag`):
* geometry: each window `[i, j)` is opened by a real match `[a, b)` of the pattern, `i = a - left`, `a < b ≤ j ≤ |chunk|`;
  each window's trigger starts at or after the end of every earlier window, so the ends `j` strictly increase;
* every match `[a, m.stop)` of the pattern in the chunk starts inside the span `[w.a, w.j)` of exactly one window, and
  it lies inside that window — and then its words are in the reported context — IF AND ONLY IF it is not cut by the
  context (`TrigCut`: starts strictly after the window's own trigger, before the window's end `j`, and ends beyond `j`).
  A cut match is the only kind of trigger wording that is not shown as such (the known finding). -/
theorem C10_every_uncut_trigger_in_context (row : String × String × Nat × Nat) (hrow : row ∈ Gen.GEN_FLAGS_TABLE)
    (chunk : Str) :
    (∀ w ∈ rowWindows row chunk, w.i = w.a - row.2.2.1 ∧ w.a < w.b ∧ w.b ≤ w.j ∧ w.j ≤ chunk.length ∧
        ∃ m, (findPat row.1).rx.matchAt chunk w.a chunk.length = some m ∧ m.stop = w.b) ∧
    (rowWindows row chunk).Pairwise (fun w w' => w.j ≤ w'.a ∧ w.j < w'.j) ∧
    ∀ (a : Nat) (m : Match), (findPat row.1).rx.matchAt chunk a chunk.length = some m →
      (∃ w ∈ rowWindows row chunk, w.a ≤ a ∧ a < w.j) ∧
      (TrigInWindow (rowWindows row chunk) a m.stop ↔ ¬ TrigCut (rowWindows row chunk) a m.stop) ∧
      (TrigInWindow (rowWindows row chunk) a m.stop →
        ∃ ctx u v, (S row.2.1, ctx) ∈ genFlagsFound chunk ∧
          PyVal.tup [.str (S row.2.1), .str ctx] ∈ genFlagsAddedWL chunk ∧
          ctx = S "<" ++ u ++ nl2sp (slice chunk a m.stop) ++ v ++ S ">") := by
  have hw := (Trig.row_facts row hrow).1
  have hspec := Trig.rowWindows_spec row hrow chunk
  have hbd := Trig.wins_bounds _ hw chunk _ _ _ 0 hspec
  have hpw := Trig.wins_pairwise _ hw chunk _ _ _ 0 hspec
  refine ⟨fun w hwm => ?_, ?_, ?_⟩
  · obtain ⟨_, h2, h3, h4, h5, h6⟩ := hbd w hwm
    exact ⟨h5, h2, h3, h4, h6⟩
  · have : ∀ (l : List TrigWin), (∀ w ∈ l, w.a < w.j) → l.Pairwise (fun w w' => w.j ≤ w'.a) →
        l.Pairwise (fun w w' => w.j ≤ w'.a ∧ w.j < w'.j) := by
      intro l
      induction l with
      | nil => intro _ _; exact List.Pairwise.nil
      | cons x t ih =>
        intro hall hp
        rw [List.pairwise_cons] at hp ⊢
        refine ⟨fun y hy => ?_, ih (fun w hwm => hall w (List.mem_cons_of_mem _ hwm)) hp.2⟩
        have := hp.1 y hy
        have := hall y (List.mem_cons_of_mem _ hy)
        omega
    exact this _ (fun w hwm => by have := hbd w hwm; omega) hpw
  · intro a m hm
    obtain ⟨hcov, hiff⟩ := Trig.uncut_iff _ hw chunk _ _ _ hspec a m hm
    refine ⟨hcov, hiff, ?_⟩
    rintro ⟨w, hwm, hw1, hw2⟩
    have hwb := hbd w hwm
    obtain ⟨u, v, huv⟩ := Trig.row_ctx_contains row hrow chunk a m hm w.i w.j (by omega) hw2
    have hmem : (S row.2.1, trigCtx chunk w.i w.j) ∈ genFlagsFound chunk := by
      have : (S row.2.1, trigCtx chunk w.i w.j) ∈
          (genFlagsFound chunk).filter (fun fc => fc.1 == S row.2.1) := by
        rw [C10_trigger_contexts_of_flag row hrow chunk]
        exact List.mem_map.2 ⟨w, hwm, rfl⟩
      exact (List.mem_filter.1 this).1
    refine ⟨_, u, v, hmem, ?_, huv⟩
    unfold genFlagsAddedWL
    exact List.mem_map.2 ⟨_, hmem, rfl⟩

/-! ## 5. Lift to the parser -/

/-- `ChunkParser`: the parent's warning lists grow by what `gen_flags_chunk` finds in the chunk's text (and then by the
chunk's own finder flags) -/
theorem Trig.chunkParser_flags (mc : MC) (pc : ParserCfg) (text : Str) (copyAll : Bool) (layout : Str)
    (parent p : ParentSt) (h : chunkParser mc pc text copyAll layout parent = .ok p) :
    ∃ cw cwl, p.fl.w = parent.fl.w ++ genFlagsAddedW text ++ cw ∧
      p.fl.wl = parent.fl.wl ++ genFlagsAddedWL text ++ cwl := by
  unfold chunkParser at h
  split at h
  · cases h
  · split at h
    · cases h
    · rename_i c hc
      cases h
      exact ⟨c.fl.w, c.fl.wl, rfl, rfl⟩

/-- C10 at the chunk parser: whenever a chunk is parsed and a trigger pattern matches its text, the parent carries the
flag and a line for it afterwards -/
theorem C10_chunkParser_trigger (mc : MC) (pc : ParserCfg) (text : Str) (copyAll : Bool) (layout : Str)
    (parent p : ParentSt) (h : chunkParser mc pc text copyAll layout parent = .ok p)
    (row : String × String × Nat × Nat) (hrow : row ∈ Gen.GEN_FLAGS_TABLE)
    (hm : (findPat row.1).rx.search text 0 text.length ≠ none) :
    PyVal.str (S row.2.1) ∈ p.fl.w ∧ ∃ ctx, PyVal.tup [.str (S row.2.1), .str ctx] ∈ p.fl.wl := by
  obtain ⟨cw, cwl, h1, h2⟩ := Trig.chunkParser_flags mc pc text copyAll layout parent p h
  obtain ⟨_, _, k1, k2, _⟩ := C10_trigger_raises_flag row hrow text {}
  rw [h1, h2]
  refine ⟨List.mem_append_left _ (List.mem_append_right _ (k1.1 hm)), ?_⟩
  obtain ⟨ctx, hctx⟩ := k2.1 hm
  exact ⟨ctx, List.mem_append_left _ (List.mem_append_right _ hctx)⟩

theorem Trig.parseBlocks_flags (mc : MC) (pc : ParserCfg) (copyAll : Bool) (layout : Str) :
    ∀ (blocks : List Str) (parent p : ParentSt), parseBlocks mc pc copyAll layout blocks parent = .ok p →
      (parent.fl.w ⊆ p.fl.w ∧ parent.fl.wl ⊆ p.fl.wl) ∧
      ∀ b ∈ blocks, genFlagsAddedW b ⊆ p.fl.w ∧ genFlagsAddedWL b ⊆ p.fl.wl := by
  intro blocks
  induction blocks with
  | nil =>
    intro parent p h
    simp only [parseBlocks] at h
    cases h
    exact ⟨⟨List.Subset.refl _, List.Subset.refl _⟩, fun b hb => by cases hb⟩
  | cons x xs ih =>
    intro parent p h
    simp only [parseBlocks] at h
    split at h
    · cases h
    · rename_i p1 h1
      obtain ⟨cw, cwl, e1, e2⟩ := Trig.chunkParser_flags _ _ _ _ _ _ _ h1
      obtain ⟨⟨m1, m2⟩, hrest⟩ := ih p1 p h
      have s1 : parent.fl.w ⊆ p1.fl.w := by
        rw [e1]; intro v hv; exact List.mem_append_left _ (List.mem_append_left _ hv)
      have s2 : parent.fl.wl ⊆ p1.fl.wl := by
        rw [e2]; intro v hv; exact List.mem_append_left _ (List.mem_append_left _ hv)
      have s3 : genFlagsAddedW x ⊆ p1.fl.w := by
        rw [e1]; intro v hv; exact List.mem_append_left _ (List.mem_append_right _ hv)
      have s4 : genFlagsAddedWL x ⊆ p1.fl.wl := by
        rw [e2]; intro v hv; exact List.mem_append_left _ (List.mem_append_right _ hv)
      refine ⟨⟨fun v hv => m1 (s1 hv), fun v hv => m2 (s2 hv)⟩, ?_⟩
      intro b hb
      rcases List.mem_cons.1 hb with rfl | hb
      · exact ⟨fun v hv => m1 (s3 hv), fun v hv => m2 (s4 hv)⟩
      · exact hrest b hb

/-- the chunks the parser scans: the whole preprocessed text, or (with `segment`) each block of the chunker -/
def parserBlocks (mc : MC) (ptext layout : Str) (a : ParserArgs) : List Str :=
  if a.segment then
    match plssChunker mc ptext layout with
    | .ok (bs, _) => bs
    | .error _ => []
  else [ptext]

theorem Trig.parseAllBlocks_flags (mc : MC) (ptext layout : Str) (a : ParserArgs) (fl : Tract.Flags) (p : ParentSt)
    (h : parseAllBlocks mc ptext layout a fl = .ok p) :
    ∀ b ∈ parserBlocks mc ptext layout a, genFlagsAddedW b ⊆ p.fl.w ∧ genFlagsAddedWL b ⊆ p.fl.wl := by
  unfold parseAllBlocks at h
  simp only [] at h
  unfold parserBlocks
  split at h
  · cases h
  · rename_i blocks parent hstart
    have hblocks : (if a.segment = true then
        match plssChunker mc ptext layout with
        | .ok (bs, _) => bs
        | .error _ => []
      else [ptext]) = blocks := by
      split at hstart
      · split at hstart
        · cases hstart
        · rename_i hseg _ bs un hch
          cases hstart
          simp only [hch, hseg, if_true]
      · rename_i hseg
        cases hstart
        simp [hseg]
    rw [hblocks]
    split at h
    · cases h
    · rename_i p1 h1
      have := (Trig.parseBlocks_flags _ _ _ _ _ _ _ h1).2
      split at h <;> (cases h; exact this)

theorem Trig.examineUnused_w (fl : Tract.Flags) (unused : List (Nat × Str)) :
    (examineUnused fl unused).w = fl.w ∧ (examineUnused fl unused).wl = fl.wl := by
  unfold examineUnused
  induction unused generalizing fl with
  | nil => exact ⟨rfl, rfl⟩
  | cons u us ih =>
    simp only [List.foldl_cons]
    split
    · have := ih (addEFlag fl (S "unused_desc<" ++ u.2 ++ S ">") u.2)
      exact this
    · exact ih fl

theorem Trig.secWithinFlags_w (tracts : List TractObj) : ∀ (l : List Nat) (fl fl' : Tract.Flags),
    secWithinFlags tracts fl l = .ok fl' → fl.w ⊆ fl'.w ∧ fl.wl ⊆ fl'.wl := by
  intro l
  induction l with
  | nil => intro fl fl' h; simp only [secWithinFlags] at h; cases h; exact ⟨List.Subset.refl _, List.Subset.refl _⟩
  | cons i rest ih =>
    intro fl fl' h
    simp only [secWithinFlags] at h
    split at h
    · have := ih _ _ h
      simp only [addWFlag] at this
      exact ⟨fun v hv => this.1 (List.mem_append_left _ hv), fun v hv => this.2 (List.mem_append_left _ hv)⟩
    · cases h

theorem Trig.errorTractFlag_w (fl : Tract.Flags) (tracts : List TractObj) :
    (errorTractFlag fl tracts).w = fl.w ∧ (errorTractFlag fl tracts).wl = fl.wl := by
  unfold errorTractFlag
  split <;> exact ⟨rfl, rfl⟩

/-- the whole parser: everything `gen_flags_chunk` finds in any scanned chunk is among the description's warning flags
and flag lines -/
theorem Trig.plssParser_flags (mc : MC) (uid0 : Nat) (text : Str) (a : ParserArgs) (look : Option Str → TRS.TrsDict)
    (out : ParserOut) (h : plssParser mc uid0 text a look = .ok out) :
    ∀ b ∈ parserBlocks mc out.text out.layout a, genFlagsAddedW b ⊆ out.fl.w ∧ genFlagsAddedWL b ⊆ out.fl.wl := by
  unfold plssParser at h
  split at h
  · cases h
  · split at h
    · cases h
    · rename_i pp hpp
      cases hl : a.layout <;> cases hc : a.cleanUp <;> simp only [hl, hc] at h <;>
      (split at h
       · cases h
       · rename_i parent hpar
         have tpar := Trig.parseAllBlocks_flags _ _ _ _ _ _ hpar
         split at h
         · cases h
         · split at h
           · cases h
           · rename_i tracts htr
             split at h
             · cases h
             · rename_i fl1 hfl1
               cases h
               have e1 := Trig.examineUnused_w parent.fl parent.unused
               have e2 := Trig.secWithinFlags_w _ _ _ _ hfl1
               have e3 := Trig.errorTractFlag_w fl1 tracts
               rw [e1.1, e1.2] at e2
               intro b hb
               have := tpar b hb
               simp only [e3.1, e3.2]
               exact ⟨fun v hv => e2.1 (this.1 hv), fun v hv => e2.2 (this.2 hv)⟩)

/-- C10, last clause, at the parser: whenever `plssParser` succeeds and a trigger pattern matches the text of a chunk it
scanned (the preprocessed text; with `segment` each block of the chunker separately), the description AND every one of
its tracts carry the flag and a flag line for it -/
theorem C10_plssParser_trigger_flag (mc : MC) (uid0 : Nat) (text : Str) (a : ParserArgs)
    (look : Option Str → TRS.TrsDict) (out : ParserOut) (h : plssParser mc uid0 text a look = .ok out)
    (b : Str) (hb : b ∈ parserBlocks mc out.text out.layout a)
    (row : String × String × Nat × Nat) (hrow : row ∈ Gen.GEN_FLAGS_TABLE)
    (hm : (findPat row.1).rx.search b 0 b.length ≠ none) :
    (PyVal.str (S row.2.1) ∈ out.fl.w ∧ ∃ ctx, PyVal.tup [.str (S row.2.1), .str ctx] ∈ out.fl.wl) ∧
    ∀ t ∈ out.tracts, PyVal.str (S row.2.1) ∈ t.fl.w ∧ ∃ ctx, PyVal.tup [.str (S row.2.1), .str ctx] ∈ t.fl.wl := by
  obtain ⟨s1, s2⟩ := Trig.plssParser_flags mc uid0 text a look out h b hb
  obtain ⟨_, _, k1, k2, _⟩ := C10_trigger_raises_flag row hrow b {}
  have hshared := C10_plssParser_shared mc uid0 text a look out h
  obtain ⟨ctx, hctx⟩ := k2.1 hm
  have m1 : PyVal.str (S row.2.1) ∈ out.fl.w := s1 (k1.1 hm)
  have m2 : PyVal.tup [.str (S row.2.1), .str ctx] ∈ out.fl.wl := s2 hctx
  refine ⟨⟨m1, ctx, m2⟩, ?_⟩
  intro t ht
  obtain ⟨p1, p2, _, _⟩ := hshared t ht
  exact ⟨p1.subset m1, ctx, p2.subset m2⟩

/-- … without `segment` the scanned chunk is the preprocessed text itself -/
theorem C10_plssParser_trigger_flag_unsegmented (mc : MC) (uid0 : Nat) (text : Str) (a : ParserArgs)
    (look : Option Str → TRS.TrsDict) (out : ParserOut) (h : plssParser mc uid0 text a look = .ok out)
    (hseg : a.segment = false)
    (row : String × String × Nat × Nat) (hrow : row ∈ Gen.GEN_FLAGS_TABLE)
    (hm : (findPat row.1).rx.search out.text 0 out.text.length ≠ none) :
    (PyVal.str (S row.2.1) ∈ out.fl.w ∧ ∃ ctx, PyVal.tup [.str (S row.2.1), .str ctx] ∈ out.fl.wl) ∧
    ∀ t ∈ out.tracts, PyVal.str (S row.2.1) ∈ t.fl.w ∧ ∃ ctx, PyVal.tup [.str (S row.2.1), .str ctx] ∈ t.fl.wl :=
  C10_plssParser_trigger_flag mc uid0 text a look out h out.text (by simp [parserBlocks, hseg]) row hrow hm

/-- … and the words of the first trigger of each scanned chunk are in a flag line of the description and of every
tract -/
theorem C10_plssParser_first_trigger_in_context (mc : MC) (uid0 : Nat) (text : Str) (a : ParserArgs)
    (look : Option Str → TRS.TrsDict) (out : ParserOut) (h : plssParser mc uid0 text a look = .ok out)
    (b : Str) (hb : b ∈ parserBlocks mc out.text out.layout a)
    (row : String × String × Nat × Nat) (hrow : row ∈ Gen.GEN_FLAGS_TABLE)
    (m : Match) (hs : (findPat row.1).rx.search b 0 b.length = some m) :
    ∃ ctx u v, ctx = S "<" ++ u ++ nl2sp (m.group0 b) ++ v ++ S ">" ∧
      PyVal.tup [.str (S row.2.1), .str ctx] ∈ out.fl.wl ∧
      ∀ t ∈ out.tracts, PyVal.tup [.str (S row.2.1), .str ctx] ∈ t.fl.wl := by
  obtain ⟨_, s2⟩ := Trig.plssParser_flags mc uid0 text a look out h b hb
  obtain ⟨ctx, u, v, _, hwl, hctx⟩ := C10_first_trigger_in_context row hrow b m hs
  have hshared := C10_plssParser_shared mc uid0 text a look out h
  refine ⟨ctx, u, v, hctx, s2 hwl, ?_⟩
  intro t ht
  exact (hshared t ht).2.1.subset (s2 hwl)

/-- … and so does a committed `PLSSDesc.parse()` -/
theorem C10_descParse_trigger_flag (mc : MC) (uid0 : Nat) (d : DescObj) (kw : DescKw)
    (look : Option Str → TRS.TrsDict) (d' : DescObj) (out : ParserOut)
    (h : descParse mc uid0 d kw true look = .ok (d', out))
    (b : Str) (hb : b ∈ parserBlocks mc out.text out.layout (effectiveDesc d kw))
    (row : String × String × Nat × Nat) (hrow : row ∈ Gen.GEN_FLAGS_TABLE)
    (hm : (findPat row.1).rx.search b 0 b.length ≠ none) :
    d'.ppDesc = out.text ∧
    (PyVal.str (S row.2.1) ∈ d'.fl.w ∧ ∃ ctx, PyVal.tup [.str (S row.2.1), .str ctx] ∈ d'.fl.wl) ∧
    ∀ t ∈ d'.tracts, PyVal.str (S row.2.1) ∈ t.fl.w ∧ ∃ ctx, PyVal.tup [.str (S row.2.1), .str ctx] ∈ t.fl.wl := by
  unfold descParse at h
  split at h
  · cases h
  · rename_i out0 hout
    simp only [if_true] at h
    cases h
    exact ⟨rfl, C10_plssParser_trigger_flag mc uid0 _ _ look out hout b hb row hrow hm⟩

/-! ## 6. The known finding, on the model: a trigger cut by the context is not reported -/

def Trig.knownText : Str :=
  S "97n-97e\nE/2, less and except the wellbore, Section 11 and 24, and limited to 13 Through 16"

def Trig.lessExceptRow : String × String × Nat × Nat := ("less_except_regex", "less_except", 0, 40)

/-- KNOWN FINDING (witness; the same on the real library): in this chunk `limit`(ed to) at `[66, 71)` is a match of the
exception/limitation pattern, but the only `less_except` window is `[13, 68)`, opened by `less and except` at `[13, 28)`:
the match starts inside it and ends beyond its end — it is cut by the context, lies in no window, and the only
`less_except` line reported stops at `…, and li`. -/
theorem C10_cut_trigger_witness :
    Trig.lessExceptRow ∈ Gen.GEN_FLAGS_TABLE ∧
    (((findPat Trig.lessExceptRow.1).rx.matchAt Trig.knownText 66 Trig.knownText.length).map
        (fun m => (m.start, m.stop)) = some (66, 71)) ∧
    slice Trig.knownText 66 71 = S "limit" ∧
    rowWindows Trig.lessExceptRow Trig.knownText = [⟨13, 28, 13, 68⟩] ∧
    TrigCut (rowWindows Trig.lessExceptRow Trig.knownText) 66 71 ∧
    ¬ TrigInWindow (rowWindows Trig.lessExceptRow Trig.knownText) 66 71 ∧
    (genFlagsFound Trig.knownText).filter (fun fc => fc.1 == S "less_except") =
      [(S "less_except", S "<less and except the wellbore, Section 11 and 24, and li>")] := by
  have hw : rowWindows Trig.lessExceptRow Trig.knownText = [⟨13, 28, 13, 68⟩] := by decide +kernel
  refine ⟨by decide +kernel, by decide +kernel, by decide +kernel, hw, ?_, ?_, by decide +kernel⟩
  · rw [hw]
    exact ⟨_, List.mem_singleton.2 rfl, by decide, by decide, by decide⟩
  · rw [hw]
    rintro ⟨w, hwm, h1, h2⟩
    rw [List.mem_singleton] at hwm
    subst hwm
    simp at h2

/-! ## Non-vacuity -/

def Trig.exChunk : Str := S "NE/4, including the\nwell, less\nand except the road"
def Trig.wellRow : String × String × Nat × Nat := ("well_regex", "well", 5, 25)

example : Trig.wellRow ∈ Gen.GEN_FLAGS_TABLE ∧
    (findPat Trig.wellRow.1).rx.search Trig.exChunk 0 Trig.exChunk.length ≠ none := by decide +kernel

/-- `C10_trigger_raises_flag` / `C10_first_trigger_in_context` on a chunk with a line break inside the trigger:
"less\nand except" is found and shown as "less and except" -/
example : ∃ m, (findPat Trig.lessExceptRow.1).rx.search Trig.exChunk 0 Trig.exChunk.length = some m ∧
    nl2sp (m.group0 Trig.exChunk) = S "less and except" := by
  cases h : (findPat Trig.lessExceptRow.1).rx.search Trig.exChunk 0 Trig.exChunk.length with
  | none =>
    have : ((findPat Trig.lessExceptRow.1).rx.search Trig.exChunk 0 Trig.exChunk.length).isSome = true := by
      decide +kernel
    rw [h] at this; cases this
  | some m =>
    refine ⟨m, rfl, ?_⟩
    have : ((findPat Trig.lessExceptRow.1).rx.search Trig.exChunk 0 Trig.exChunk.length).map
        (fun m => nl2sp (m.group0 Trig.exChunk)) = some (S "less and except") := by decide +kernel
    rw [h] at this
    simpa using this

/-- `C10_every_uncut_trigger_in_context`: a match that is inside a window ("except" inside "less and except") -/
example : (((findPat Trig.lessExceptRow.1).rx.matchAt Trig.exChunk 35 Trig.exChunk.length).map
      (fun m => (m.start, m.stop)) = some (35, 41)) ∧
    rowWindows Trig.lessExceptRow Trig.exChunk = [⟨26, 41, 26, 50⟩] := by
  constructor <;> decide +kernel

def Trig.exDesc : Str := S "T4N-R7W Sec 1: N2 less well"

/-- the parser-level theorems: a description that parses, with trigger wording in its preprocessed text -/
example : ∃ out, plssParser {} 0 Trig.exDesc {} = .ok out ∧ ({} : ParserArgs).segment = false ∧
    out.tracts.length = 1 ∧
    (findPat Trig.wellRow.1).rx.search out.text 0 out.text.length ≠ none := by
  have h : (match plssParser {} 0 Trig.exDesc {} with
      | .ok out => decide (out.tracts.length = 1) &&
          ((findPat Trig.wellRow.1).rx.search out.text 0 out.text.length).isSome
      | .error _ => false) = true := by decide +kernel
  split at h
  · rename_i out hout
    simp only [Bool.and_eq_true, decide_eq_true_eq] at h
    refine ⟨out, hout, rfl, h.1, ?_⟩
    intro hn
    rw [hn] at h
    exact absurd h.2 (by simp)
  · cases h

end PyTRS

#print axioms PyTRS.C10_trigger_patterns_edges
#print axioms PyTRS.C10_trigger_contexts_of_flag
#print axioms PyTRS.C10_trigger_raises_flag
#print axioms PyTRS.C10_first_trigger_in_context
#print axioms PyTRS.C10_every_uncut_trigger_in_context
#print axioms PyTRS.C10_chunkParser_trigger
#print axioms PyTRS.C10_plssParser_trigger_flag
#print axioms PyTRS.C10_plssParser_trigger_flag_unsegmented
#print axioms PyTRS.C10_plssParser_first_trigger_in_context
#print axioms PyTRS.C10_descParse_trigger_flag
#print axioms PyTRS.C10_cut_trigger_witness
