/-
Round trip of the csv 'excel' dialect model: reading back what `writeRow` wrote returns the rows.
-/
import PyTRS.Model.Export
namespace PyTRS
open PyTRS.Export

/-- a character that forces quoting -/
private def special (c : Char) : Bool := c == ',' || c == '"' || c == '\n' || c == '\r'

/-- the quote-doubling escape used inside a quoted field -/
private def esc (s : Str) : Str := s.flatMap (fun c => if c == '"' then ['"', '"'] else [c])

private theorem go_inField (s : Str) (h : ∀ c ∈ s, special c = false) (rest cur : Str) (row : List Str)
    (acc : List (List Str)) :
    readCsv.go (s ++ rest) .inField cur row acc = readCsv.go rest .inField (s.reverse ++ cur) row acc := by
  induction s generalizing cur with
  | nil => simp
  | cons c s ih =>
    have hc := h c (by simp)
    simp [special] at hc
    have ih' := ih (fun d hd => h d (by simp [hd])) (c :: cur)
    simp [readCsv.go, hc, ih']

private theorem go_inQuoted (s : Str) (rest cur : Str) (row : List Str) (acc : List (List Str)) :
    readCsv.go (esc s ++ rest) .inQuoted cur row acc = readCsv.go rest .inQuoted (s.reverse ++ cur) row acc := by
  induction s generalizing cur with
  | nil => simp [esc]
  | cons c s ih =>
    have ih' := ih (c :: cur)
    by_cases hc : c = '"'
    · subst hc
      simp [esc] at ih' ⊢
      simp [readCsv.go, ih']
    · simp [esc] at ih' ⊢
      simp [hc, readCsv.go, ih']

private theorem quoteField_pos (f : Str) (hq : needsQuote f = true) :
    quoteField f = '"' :: (esc f ++ ['"']) := by
  simp [quoteField, hq, esc]

private theorem quoteField_neg (f : Str) (hq : ¬ needsQuote f = true) :
    quoteField f = f ∧ ∀ d ∈ f, special d = false := by
  refine ⟨by simp [quoteField, hq], ?_⟩
  intro d hd
  simp [needsQuote] at hq
  have := hq d hd
  simp [special, this]

/-- a field followed by a comma -/
private theorem go_field_comma (f rest : Str) (row : List Str) (acc : List (List Str)) :
    readCsv.go (quoteField f ++ ',' :: rest) .startField [] row acc
      = readCsv.go rest .startField [] (row ++ [f]) acc := by
  by_cases hq : needsQuote f = true
  · rw [quoteField_pos f hq]
    simp only [List.cons_append, List.append_assoc, List.nil_append]
    simp only [readCsv.go, beq_self_eq_true, if_true]
    rw [go_inQuoted]
    simp [readCsv.go]
  · obtain ⟨he, hall⟩ := quoteField_neg f hq
    rw [he]
    cases f with
    | nil => simp [readCsv.go]
    | cons c s =>
      have hc := hall c (by simp)
      simp [special] at hc
      have := go_inField s (fun d hd => hall d (by simp [hd])) (',' :: rest) [c] row acc
      simp [readCsv.go, hc, this]

/-- a field followed by the line terminator -/
private theorem go_field_crlf (f rest : Str) (row : List Str) (acc : List (List Str)) :
    readCsv.go (quoteField f ++ '\r' :: '\n' :: rest) .startField [] row acc
      = readCsv.go rest .startField [] [] (acc ++ [row ++ [f]]) := by
  by_cases hq : needsQuote f = true
  · rw [quoteField_pos f hq]
    simp only [List.cons_append, List.append_assoc, List.nil_append]
    simp only [readCsv.go, beq_self_eq_true, if_true]
    rw [go_inQuoted]
    simp [readCsv.go]
  · obtain ⟨he, hall⟩ := quoteField_neg f hq
    rw [he]
    cases f with
    | nil => simp [readCsv.go]
    | cons c s =>
      have hc := hall c (by simp)
      simp [special] at hc
      have := go_inField s (fun d hd => hall d (by simp [hd])) ('\r' :: '\n' :: rest) [c] row acc
      simp [readCsv.go, hc, this]

private theorem go_fields (fields : List Str) (hne : fields ≠ []) (rest : Str) (row : List Str)
    (acc : List (List Str)) :
    readCsv.go (pyJoin (S ",") (fields.map quoteField) ++ '\r' :: '\n' :: rest) .startField [] row acc
      = readCsv.go rest .startField [] [] (acc ++ [row ++ fields]) := by
  induction fields generalizing row with
  | nil => exact absurd rfl hne
  | cons f fs ih =>
    cases fs with
    | nil => simpa [pyJoin] using go_field_crlf f rest row acc
    | cons g gs =>
      have ih' := ih (by simp) (row ++ [f])
      have hS : S "," = [','] := rfl
      simp only [List.map_cons, pyJoin, hS, List.append_assoc, List.cons_append,
        List.nil_append] at ih' ⊢
      rw [go_field_comma, ih']

private theorem go_row (fields : List Str) (hne : fields ≠ []) (rest : Str) (acc : List (List Str)) :
    readCsv.go (writeRow fields ++ rest) .startField [] [] acc
      = readCsv.go rest .startField [] [] (acc ++ [fields]) := by
  have hcr : S "\r\n" = ['\r', '\n'] := rfl
  by_cases h1 : fields = [[]]
  · subst h1
    have hq : S "\"\"" = ['"', '"'] := rfl
    simp [writeRow, hcr, hq, readCsv.go]
  · have := go_fields fields hne rest [] acc
    have hw : writeRow fields = pyJoin (S ",") (fields.map quoteField) ++ S "\r\n" := by
      unfold writeRow
      split
      · exact absurd rfl h1
      · rfl
    rw [hw, hcr]
    simpa using this

private theorem go_rows (rows : List (List Str)) (h : ∀ r ∈ rows, r ≠ []) (acc : List (List Str)) :
    readCsv.go ((rows.map writeRow).flatten) .startField [] [] acc = acc ++ rows := by
  induction rows generalizing acc with
  | nil =>
    have : (RS.startField == RS.startField) = true := rfl
    simp [readCsv.go, this]
  | cons r rs ih =>
    simp only [List.map_cons, List.flatten_cons]
    rw [go_row r (h r (by simp)), ih (fun r' hr' => h r' (by simp [hr']))]
    simp

/-- reading back what was written gives the rows back, for rows of arbitrary strings (commas, quotes, CR, LF
    included); every row has at least one field -/
theorem csv_roundtrip (rows : List (List Str)) (h : ∀ r ∈ rows, r ≠ []) :
    Export.readCsv ((rows.map Export.writeRow).flatten) = rows := by
  unfold readCsv
  simpa using go_rows rows h []

#print axioms csv_roundtrip

end PyTRS
