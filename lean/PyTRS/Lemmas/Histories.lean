/-
C14 — re-parsing is idempotent and commit=False has no side effects, at the level of `World.step` / `World.run`
(arbitrary worlds, i.e. after ANY history of operations).
-/
import PyTRS.Props.C14
import PyTRS.Lemmas.Probe
import PyTRS.Lemmas.Cfg
namespace PyTRS
open PyTRS.World PyTRS.Obj PyTRS.Plss PyTRS.Tract

/-! ## The object stores -/

theorem find_put {α} (l : List (Nat × α)) (id i : Nat) (x : α) :
    ((l.filter (fun e => e.1 != id)) ++ [(id, x)]).find? (fun e => e.1 == i)
      = if i = id then some (id, x) else l.find? (fun e => e.1 == i) := by
  induction l with
  | nil =>
    by_cases h : i = id
    · subst h; simp
    · have : (id == i) = false := by simpa using fun e => h e.symm
      simp [h, this]
  | cons e t ih =>
    by_cases he : e.1 = id
    · have hb : (e.1 != id) = false := by simp [he]
      simp only [List.filter_cons, hb, Bool.false_eq_true, if_false, ih]
      by_cases h : i = id
      · simp [h]
      · have : (e.1 == i) = false := by rw [he]; simpa using fun e => h e.symm
        simp [h, this]
    · have hb : (e.1 != id) = true := by simpa using he
      simp only [List.filter_cons, hb, if_true, List.cons_append, List.find?_cons, ih]
      by_cases hi : e.1 = i
      · have hne : ¬ i = id := fun h => he (hi.trans h)
        simp [hi, hne]
      · have : (e.1 == i) = false := by simpa using hi
        simp [this]

theorem getTract_putTract (w : World.World) (id i : Nat) (t : TractObj) :
    getTract (putTract w id t) i = if i = id then some t else getTract w i := by
  unfold getTract putTract
  simp only [find_put]
  split <;> rfl

theorem getDesc_putDesc (w : World.World) (id i : Nat) (d : DescObj) :
    getDesc (putDesc w id d) i = if i = id then some d else getDesc w i := by
  unfold getDesc putDesc
  simp only [find_put]
  split <;> rfl

theorem filter_put {α} (l : List (Nat × α)) (id : Nat) (x : α) :
    ((l.filter (fun e => e.1 != id)) ++ [(id, x)]).filter (fun e => e.1 != id) = l.filter (fun e => e.1 != id) := by
  rw [List.filter_append, List.filter_filter]
  simp

/-- storing twice under the same id is storing the last object once -/
theorem putTract_putTract (w : World.World) (id : Nat) (t t' : TractObj) :
    putTract (putTract w id t) id t' = putTract w id t' := by
  unfold putTract
  simp only [filter_put]

theorem putDesc_putDesc (w : World.World) (id : Nat) (d d' : DescObj) :
    putDesc (putDesc w id d) id d' = putDesc w id d' := by
  unfold putDesc
  simp only [filter_put]

/-- worlds that no operation can tell apart: everything equal, the tract store compared through `getTract`
    (storing an object moves it to the end of the store's list, which no operation observes) -/
structure WEq (w1 w2 : World.World) : Prop where
  mc : w1.mc = w2.mc
  nextUid : w1.nextUid = w2.nextUid
  useCache : w1.useCache = w2.useCache
  cache : w1.cache = w2.cache
  descs : w1.descs = w2.descs
  tracts : ∀ i, getTract w1 i = getTract w2 i

theorem WEq.refl (w : World.World) : WEq w w := ⟨rfl, rfl, rfl, rfl, rfl, fun _ => rfl⟩

theorem WEq.symm {w1 w2 : World.World} (h : WEq w1 w2) : WEq w2 w1 :=
  ⟨h.mc.symm, h.nextUid.symm, h.useCache.symm, h.cache.symm, h.descs.symm, fun i => (h.tracts i).symm⟩

theorem WEq.trans {w1 w2 w3 : World.World} (h : WEq w1 w2) (g : WEq w2 w3) : WEq w1 w3 :=
  ⟨h.mc.trans g.mc, h.nextUid.trans g.nextUid, h.useCache.trans g.useCache, h.cache.trans g.cache,
   h.descs.trans g.descs, fun i => (h.tracts i).trans (g.tracts i)⟩

/-- re-storing the object that is already stored changes nothing observable -/
theorem WEq_putTract_same (w : World.World) (id : Nat) (t : TractObj) (h : getTract w id = some t) :
    WEq (putTract w id t) w := by
  refine ⟨rfl, rfl, rfl, rfl, rfl, fun i => ?_⟩
  rw [getTract_putTract]
  split
  · next hi => rw [hi, h]
  · rfl

/-! ## (a) commit=False -/

/-- `Tract.parse(commit=False)` on a stored, non-diverged tract returns that very tract -/
theorem tract_noncommit_same (t : TractObj) (kw : TractKw) (r : TractObj × List Str)
    (h : tractParseMethod t false kw = .ok r) (hd : r.1.diverged = false) : r.1 = t := by
  have := C14_tract_noncommit_pure t kw r h
  rw [this]
  unfold tractParseMethod at h
  simp only [] at h
  split at h
  · cases h
  · simp only [Bool.false_eq_true, if_false] at h
    cases h
    simp only [Bool.or_eq_false_iff] at hd
    cases t
    simp_all

/-- (a) for Tract: what the model does exactly.  `step w (.tractParse id kw false)` either leaves the world literally
    unchanged (unknown id, Python exception, or model divergence — the `diverged` marker is reported in the OUTPUT, it is
    not stored), or re-stores the unchanged stored tract `t` under `id` (which only moves it to the end of the store). -/
theorem C14_step_tract_parse_noncommit_exact (w : World.World) (id : Nat) (kw : TractKw) :
    (step w (.tractParse id kw false)).1 = w ∨
    ∃ t, getTract w id = some t ∧ (step w (.tractParse id kw false)).1 = putTract w id t := by
  simp only [step]
  cases hg : getTract w id with
  | none => left; rfl
  | some t =>
    simp only []
    cases hp : tractParseMethod t false kw with
    | error e => left; rfl
    | ok r =>
      obtain ⟨t', ret⟩ := r
      simp only []
      by_cases hd : t'.diverged = true
      · left; simp only [hd, if_true]
      · right
        have hd' : t'.diverged = false := by simpa using hd
        have : t' = t := tract_noncommit_same t kw (t', ret) hp hd'
        subst this
        exact ⟨t', rfl, by simp only [hd', Bool.false_eq_true, if_false]⟩

/-- (a) for Tract: `parse(commit=False)` after any history leaves MasterConfig, the UID counter, the cache switch, the
    TRS cache, every stored PLSSDesc and every stored Tract (looked up under any id) as they were -/
theorem C14_step_tract_parse_noncommit (w : World.World) (id : Nat) (kw : TractKw) :
    WEq (step w (.tractParse id kw false)).1 w := by
  rcases C14_step_tract_parse_noncommit_exact w id kw with h | ⟨t, hg, h⟩
  · rw [h]; exact WEq.refl w
  · rw [h]; exact WEq_putTract_same w id t hg

/-- `PLSSDesc.parse(commit=False)` on a stored, non-diverged description returns that very description -/
theorem desc_noncommit_same (mc : MC) (u : Nat) (d : DescObj) (kw : DescKw) (look : Option Str → TRS.TrsDict)
    (r : DescObj × ParserOut) (h : descParse mc u d kw false look = .ok r) (hd : r.2.diverged = false) : r.1 = d := by
  unfold descParse at h
  split at h
  · cases h
  · simp only [Bool.false_eq_true, if_false] at h
    cases h
    simp only [] at hd
    cases d
    simp_all

/-- (a) for PLSSDesc: what the model does exactly.  A non-committed parse of a description still CREATES Tract objects:
    the UID counter advances and the TRS cache may be filled; the stored description itself is re-stored unchanged. -/
theorem C14_step_desc_parse_noncommit_exact (w : World.World) (id : Nat) (kw : DescKw) :
    (step w (.descParse id kw false)).1 = w ∨
    ∃ d out, getDesc w id = some d ∧ descParse w.mc w.nextUid d kw false w.look = .ok (d, out) ∧
      (step w (.descParse id kw false)).1
        = putDesc ({ w with nextUid := out.nextUid }.fill (tractKeys out.tracts)) id d := by
  simp only [step]
  cases hg : getDesc w id with
  | none => left; rfl
  | some d =>
    simp only []
    cases hp : descParse w.mc w.nextUid d kw false w.look with
    | error e => left; rfl
    | ok r =>
      obtain ⟨d', out⟩ := r
      simp only []
      by_cases hd : out.diverged = true
      · left; simp only [hd, if_true]
      · right
        have hd' : out.diverged = false := by simpa using hd
        have : d' = d := desc_noncommit_same _ _ d kw _ (d', out) hp hd'
        subst this
        exact ⟨d', out, rfl, hp, by simp only [hd', Bool.false_eq_true, if_false]⟩

theorem fill_fields (w : World.World) (ks : List Str) :
    (w.fill ks).mc = w.mc ∧ (w.fill ks).nextUid = w.nextUid ∧ (w.fill ks).useCache = w.useCache ∧
    (w.fill ks).descs = w.descs ∧ (w.fill ks).tracts = w.tracts := by
  unfold World.fill
  split <;> exact ⟨rfl, rfl, rfl, rfl, rfl⟩

/-- (a) for PLSSDesc: MasterConfig, the cache switch, every stored Tract and every stored PLSSDesc (looked up under any
    id) are as before; only the UID counter and the TRS cache may have moved (tracts were created and discarded) -/
theorem C14_step_desc_parse_noncommit (w : World.World) (id : Nat) (kw : DescKw) :
    let w' := (step w (.descParse id kw false)).1
    w'.mc = w.mc ∧ w'.useCache = w.useCache ∧ w'.tracts = w.tracts ∧ (∀ i, getDesc w' i = getDesc w i) ∧
    (∃ n ks, w'.nextUid = n ∧ w'.cache = ({ w with nextUid := n }.fill ks).cache) := by
  intro w'
  rcases C14_step_desc_parse_noncommit_exact w id kw with h | ⟨d, out, hg, _, h⟩
  · have : w' = w := h
    rw [this]
    refine ⟨rfl, rfl, rfl, fun _ => rfl, w.nextUid, [], rfl, ?_⟩
    unfold World.fill
    split <;> rfl
  · have : w' = _ := h
    rw [this]
    obtain ⟨f1, f2, f3, f4, f5⟩ := fill_fields { w with nextUid := out.nextUid } (tractKeys out.tracts)
    refine ⟨f1, f3, f5, fun i => ?_, out.nextUid, tractKeys out.tracts, f2, rfl⟩
    rw [getDesc_putDesc]
    split
    · next hi =>
      rw [hi, ← hg]
    · unfold getDesc
      rw [f4]

/-! ## (b) Tract.parse twice -/

/-- none of the parser's own flags already occurs among the inherited ones -/
def FlagsDisjoint (own inh : Flags) : Prop :=
  (∀ x ∈ own.w, x ∉ inh.w) ∧ (∀ x ∈ own.wl, x ∉ inh.wl) ∧ (∀ x ∈ own.e, x ∉ inh.e) ∧ (∀ x ∈ own.el, x ∉ inh.el)

/-- the (minimal) condition under which `list.remove` strips exactly what the last parse appended:
    no flag that parsing this tract generates is also among the flags it inherited -/
def ReparseOK (t : TractObj) (kw : TractKw) : Prop :=
  ∀ own, tractParseOwn t.desc (effectiveTract t.attrs kw) = .ok own → FlagsDisjoint own.flags (inheritedFlags t)

/-- `C14_tract_reparse_idempotent` as a fixed-point statement, and without its `diverged = false` hypothesis -/
theorem tract_reparse_idem (t : TractObj) (kw : TractKw) (r1 : TractObj × List Str)
    (h1 : tractParseMethod t true kw = .ok r1) (hok : ReparseOK t kw) :
    tractParseMethod r1.1 true kw = .ok r1 := by
  cases ho : tractParseOwn t.desc (effectiveTract t.attrs kw) with
  | error e =>
    unfold tractParseMethod at h1
    simp only [tractParse, ho] at h1
    cases h1
  | ok own =>
    obtain ⟨hw, hwl, he, hel⟩ := hok own ho
    have hinh := C14_inherited_recovered t kw r1 h1 own ho hw hwl he hel
    unfold tractParseMethod at h1 ⊢
    simp only [tractParse, ho] at h1
    cases h1
    simp only [tractParse, ho, hinh]
    simp

/-- (b): after ANY history, parsing a stored tract twice with the same settings gives, the second time, the same output
    and the same world as the first time -/
theorem C14_step_tract_parse_twice (w : World.World) (id : Nat) (kw : TractKw)
    (hok : ∀ t, getTract w id = some t → ReparseOK t kw) :
    (step (step w (.tractParse id kw true)).1 (.tractParse id kw true)).2 = (step w (.tractParse id kw true)).2 ∧
    (step (step w (.tractParse id kw true)).1 (.tractParse id kw true)).1 = (step w (.tractParse id kw true)).1 := by
  cases hg : getTract w id with
  | none => simp only [step, hg]; exact ⟨trivial, trivial⟩
  | some t =>
    cases hp : tractParseMethod t true kw with
    | error e => simp only [step, hg, hp]; exact ⟨trivial, trivial⟩
    | ok r =>
      obtain ⟨t', ret⟩ := r
      by_cases hd : t'.diverged = true
      · simp only [step, hg, hp, hd, if_true]; exact ⟨trivial, trivial⟩
      · have h2 := tract_reparse_idem t kw (t', ret) hp (hok t hg)
        have hs : step w (.tractParse id kw true) = (putTract w id t', .tractAndRet t' ret) := by
          simp only [step, hg, hp, hd, Bool.false_eq_true, if_false]
        rw [hs]
        have hg' : getTract (putTract w id t') id = some t' := by rw [getTract_putTract]; simp
        simp only [step, hg', h2, hd, Bool.false_eq_true, if_false, putTract_putTract]
        exact ⟨trivial, trivial⟩

/-! ### … unconditionally, for every world reachable from the initial one -/

def noFlags (f : Flags) : Prop := f.w = [] ∧ f.wl = [] ∧ f.e = [] ∧ f.el = []

/-- stand-alone tracts (those made by `Tract(...)`) never inherit flags -/
def TractsFresh (w : World.World) : Prop := ∀ e ∈ w.tracts, noFlags (inheritedFlags e.2)

theorem reparseOK_of_noFlags (t : TractObj) (kw : TractKw) (h : noFlags (inheritedFlags t)) : ReparseOK t kw := by
  intro own _
  obtain ⟨h1, h2, h3, h4⟩ := h
  refine ⟨?_, ?_, ?_, ?_⟩ <;> intro x _ <;> simp [h1, h2, h3, h4]

theorem removeEach_self (l : List PyVal) : removeEach l l = [] := by
  unfold removeEach
  induction l with
  | nil => rfl
  | cons x xs ih =>
    simp only [List.foldl_cons, List.contains_cons, beq_self_eq_true, Bool.true_or, if_true, List.erase_cons_head]
    exact ih

theorem inherited_commit (t : TractObj) (kw : TractKw) (r : TractObj × List Str)
    (h : tractParseMethod t true kw = .ok r) (hi : noFlags (inheritedFlags t)) : noFlags (inheritedFlags r.1) := by
  cases ho : tractParseOwn t.desc (effectiveTract t.attrs kw) with
  | error e =>
    unfold tractParseMethod at h
    simp only [tractParse, ho] at h
    cases h
  | ok own =>
    obtain ⟨hw, hwl, he, hel⟩ := reparseOK_of_noFlags t kw hi own ho
    rw [C14_inherited_recovered t kw r h own ho hw hwl he hel]
    exact hi

theorem inherited_noncommit (t : TractObj) (kw : TractKw) (r : TractObj × List Str)
    (h : tractParseMethod t false kw = .ok r) : inheritedFlags r.1 = inheritedFlags t := by
  rw [C14_tract_noncommit_pure t kw r h]
  rfl

theorem inherited_preprocess (t : TractObj) (c : Option Bool) (commit : Bool) :
    inheritedFlags (tractPreprocess t c commit).1 = inheritedFlags t := by
  unfold tractPreprocess
  simp only []
  split
  · split <;> rfl
  · rfl

theorem inherited_init (uid : Nat) (desc : Str) (trs : Option Str) (cfg : CfgArg) (pq : Option Bool)
    (src od : OptStr) (oi : Int) (look : Option Str → TRS.TrsDict) (t : TractObj)
    (h : tractInit uid desc trs cfg pq src od oi look = .ok t) : noFlags (inheritedFlags t) := by
  unfold tractInit at h
  split at h
  · cases h
  · unfold tractInitCore at h
    split at h
    · split at h
      · cases h
      · next r hr =>
        cases h
        exact inherited_commit _ _ _ hr ⟨rfl, rfl, rfl, rfl⟩
    · cases h
      rw [inherited_preprocess]
      exact ⟨rfl, rfl, rfl, rfl⟩

theorem fresh_put (w : World.World) (id : Nat) (t : TractObj) (hw : TractsFresh w) (ht : noFlags (inheritedFlags t)) :
    TractsFresh (putTract w id t) := by
  intro e he
  unfold putTract at he
  simp only [List.mem_append, List.mem_filter, List.mem_singleton] at he
  rcases he with ⟨he, _⟩ | rfl
  · exact hw e he
  · exact ht

theorem mem_of_getTract (w : World.World) (id : Nat) (t : TractObj) (h : getTract w id = some t) :
    ∃ e ∈ w.tracts, e.2 = t := by
  unfold getTract at h
  cases hf : w.tracts.find? (fun e => e.1 == id) with
  | none => simp [hf] at h
  | some e =>
    simp only [hf, Option.map_some, Option.some.injEq] at h
    exact ⟨e, List.mem_of_find?_eq_some hf, h⟩

theorem fresh_fill (w : World.World) (n : Nat) (ks : List Str) (h : TractsFresh w) :
    TractsFresh ({ w with nextUid := n }.fill ks) := by
  unfold TractsFresh
  rw [(fill_fields _ ks).2.2.2.2]
  exact h

/-- every operation keeps the stand-alone tracts free of inherited flags -/
theorem step_fresh (w : World.World) (op : Op) (h : TractsFresh w) : TractsFresh (step w op).1 := by
  have hput_d : ∀ (w : World.World) id d, TractsFresh w → TractsFresh (putDesc w id d) := fun w id d h => h
  cases op <;> simp only [step]
  case setMC => exact h
  case cacheOn => exact h
  case cacheClear => exact h
  case warm => exact fresh_fill w w.nextUid _ h
  case toDict => exact h
  case toDictObj => exact fresh_fill w w.nextUid _ h
  case findTwprge => split <;> exact h
  case fromTwprgesec => split; exact h; exact fresh_fill w w.nextUid _ h
  case newDesc => split; exact h; split; exact h; exact hput_d _ _ _ (fresh_fill _ _ _ h)
  case descParse => split; exact h; split; exact h; split; exact h; exact hput_d _ _ _ (fresh_fill _ _ _ h)
  case descParseTracts => split; exact h; split; exact h; exact h
  case descPreprocess => split; exact h; split; exact h; exact h
  case descConfig => split; exact h; split; exact h; exact h
  case descSort => split; exact h; split <;> exact h
  case newTract id text trs cfg pq =>
    split
    · exact h
    · next t ht =>
      split
      · exact h
      · exact fresh_put _ _ _ (fresh_fill _ _ _ h) (inherited_init _ _ _ _ _ _ _ _ _ _ ht)
  case tractParse id kw commit =>
    split
    · exact h
    · next t hg =>
      obtain ⟨e, he, rfl⟩ := mem_of_getTract w id t hg
      split
      · exact h
      · next t' r hp =>
        split
        · exact h
        · apply fresh_put _ _ _ h
          cases commit
          · rw [inherited_noncommit _ _ _ hp]; exact h e he
          · exact inherited_commit _ _ _ hp (h e he)
  case tractPreprocess id c commit =>
    split
    · exact h
    · next t hg =>
      obtain ⟨e, he, rfl⟩ := mem_of_getTract w id t hg
      apply fresh_put _ _ _ h
      rw [inherited_preprocess]
      exact h e he
  case tractConfig id cfg =>
    split
    · exact h
    · next t hg =>
      obtain ⟨e, he, rfl⟩ := mem_of_getTract w id t hg
      split
      · exact h
      · next t' ht =>
        apply fresh_put _ _ _ h
        unfold tractSetConfig at ht
        split at ht
        · cases ht
        · cases ht
          exact h e he

theorem run_fresh (ops : List Op) : ∀ (w : World.World), TractsFresh w → TractsFresh (run w ops).1 := by
  induction ops with
  | nil => intro w h; exact h
  | cons op rest ih => intro w h; simp only [run]; exact ih _ (step_fresh w op h)

/-- (b) over histories: after ANY history from the initial world, parsing a stored tract twice with the same settings
    gives, the second time, the same output and the same world as the first time — no side condition -/
theorem C14_run_tract_parse_twice (hist : List Op) (id : Nat) (kw : TractKw) :
    (step (step (run {} hist).1 (.tractParse id kw true)).1 (.tractParse id kw true)).2
        = (step (run {} hist).1 (.tractParse id kw true)).2 ∧
    (step (step (run {} hist).1 (.tractParse id kw true)).1 (.tractParse id kw true)).1
        = (step (run {} hist).1 (.tractParse id kw true)).1 := by
  apply C14_step_tract_parse_twice
  intro t hg
  have hf : TractsFresh (run {} hist).1 := run_fresh hist {} (fun e he => by cases he)
  obtain ⟨e, he, rfl⟩ := mem_of_getTract _ id t hg
  exact reparseOK_of_noFlags _ kw (hf e he)

/-! ## (c) TractList.parse_tracts -/

theorem mapM_ok_nil {α β} (f : α → Except PyErr β) (r : List β) : ([] : List α).mapM f = .ok r ↔ r = [] := by
  simp only [List.mapM_nil]
  constructor
  · intro h; cases h; rfl
  · intro h; subst h; rfl

theorem mapM_ok_cons {α β} (f : α → Except PyErr β) (a : α) (l : List α) (r : List β) :
    (a :: l).mapM f = .ok r ↔ ∃ b bs, f a = .ok b ∧ l.mapM f = .ok bs ∧ r = b :: bs := by
  simp only [List.mapM_cons]
  cases hf : f a with
  | error e =>
    constructor
    · intro h; cases h
    · rintro ⟨b, bs, h, _⟩; cases h
  | ok b =>
    cases hl : l.mapM f with
    | error e =>
      constructor
      · intro h; cases h
      · rintro ⟨b', bs, _, h, _⟩; cases h
    | ok bs =>
      constructor
      · intro h
        cases h
        exact ⟨b, bs, rfl, rfl, rfl⟩
      · rintro ⟨b', bs', h1, h2, rfl⟩
        cases h1; cases h2
        rfl

theorem mapM_mem {α β} (f : α → Except PyErr β) : ∀ (l : List α) (r : List β), l.mapM f = .ok r →
    ∀ b ∈ r, ∃ a ∈ l, f a = .ok b := by
  intro l
  induction l with
  | nil =>
    intro r h b hb
    rw [(mapM_ok_nil f r).1 h] at hb
    cases hb
  | cons a l ih =>
    intro r h b hb
    obtain ⟨b0, bs, h1, h2, rfl⟩ := (mapM_ok_cons f a l r).1 h
    rcases List.mem_cons.1 hb with rfl | hb
    · exact ⟨a, List.mem_cons_self, h1⟩
    · obtain ⟨a', ha', hfa⟩ := ih bs h2 b hb
      exact ⟨a', List.mem_cons_of_mem _ ha', hfa⟩

theorem mapM_fix {α} (f : α → Except PyErr α) : ∀ (r : List α), (∀ b ∈ r, f b = .ok b) → r.mapM f = .ok r := by
  intro r
  induction r with
  | nil => intro _; rfl
  | cons b bs ih =>
    intro h
    exact (mapM_ok_cons f b bs _).2 ⟨b, bs, h b List.mem_cons_self, ih (fun x hx => h x (List.mem_cons_of_mem _ hx)), rfl⟩

/-- setting an attribute to the value it already has leaves the attribute list as it is -/
theorem set_of_get (A : Attrs) (n : String) (v : Config.CV) (h : A.get n = some v) : A.set n v = A := by
  induction A with
  | nil => simp [Config.Cfg.get] at h
  | cons e t ih =>
    obtain ⟨k, x⟩ := e
    rw [Config.Cfg.set]
    by_cases hk : (k == n) = true
    · have hkn : k = n := by simpa using hk
      subst hkn
      simp [Config.Cfg.get] at h
      simp [h]
    · simp only [hk, Bool.false_eq_true, if_false]
      have : Config.Cfg.get t n = some v := by
        unfold Config.Cfg.get at h ⊢
        simpa [List.find?_cons, hk] using h
      rw [ih this]

theorem applyConfig_fix (names : List String) (c : Config.Cfg) : ∀ (B : Attrs),
    (∀ n ∈ names, ∀ v, c.get n = some v → B.get n = some v) → applyConfig B names c = B := by
  unfold applyConfig
  induction names with
  | nil => intro B _; rfl
  | cons m ms ih =>
    intro B h
    simp only [List.foldl_cons]
    cases hc : c.get m with
    | none => exact ih B (fun n hn => h n (List.mem_cons_of_mem _ hn))
    | some v =>
      simp only []
      rw [set_of_get B m v (h m List.mem_cons_self v hc)]
      exact ih B (fun n hn => h n (List.mem_cons_of_mem _ hn))

/-- `obj.config = c` twice is the same as once -/
theorem applyConfig_idem (A : Attrs) (names : List String) (c : Config.Cfg) :
    applyConfig (applyConfig A names c) names c = applyConfig A names c := by
  apply applyConfig_fix
  intro n hn v hv
  rw [applyConfig_get]
  have : names.contains n = true := by simpa using hn
  simp only [this, if_true, hv]

theorem tractParseMethod_config (t : TractObj) (commit : Bool) (kw : TractKw) (r : TractObj × List Str)
    (h : tractParseMethod t commit kw = .ok r) : r.1.attrs = t.attrs ∧ r.1.config = t.config := by
  unfold tractParseMethod at h
  simp only [] at h
  split at h
  · cases h
  · cases commit <;> (simp only [Bool.false_eq_true, if_false, if_true] at h; cases h; exact ⟨rfl, rfl⟩)

/-- the first phase of `parse_tracts`: every tract is configured -/
def configAll (ts : List TractObj) (cfg : Option Str) : Except PyErr (List TractObj) :=
  match cfg with
  | some c => if c.isEmpty then pure ts else ts.mapM (fun t => tractSetConfig t (.text c))
  | none => pure ts

theorem parseTracts_eq (ts : List TractObj) (cfg : Option Str) (kw : TractKw) :
    parseTracts ts cfg kw =
      (match configAll ts cfg with
       | .error e => .error e
       | .ok tsc => tsc.mapM (fun t => (tractParseMethod t true kw).map (·.1))) := by
  unfold parseTracts configAll
  cases cfg with
  | none => rfl
  | some c =>
    by_cases hc : c.isEmpty = true
    · simp only [hc, if_true]; rfl
    · simp only [hc, Bool.false_eq_true, if_false]
      cases List.mapM (fun t => tractSetConfig t (.text c)) ts <;> rfl

/-- assigning the same config text to a tract that was configured with it (and parsed since) changes nothing -/
theorem setConfig_after (a a' b : TractObj) (c : Str) (kw : TractKw)
    (h1 : tractSetConfig a (.text c) = .ok a') (h2 : (tractParseMethod a' true kw).map (·.1) = .ok b) :
    tractSetConfig b (.text c) = .ok b := by
  unfold tractSetConfig at h1 ⊢
  cases hr : resolveCfgArg (.text c) with
  | error e => rw [hr] at h1; cases h1
  | ok cc =>
    rw [hr] at h1
    simp only [] at h1 ⊢
    cases h1
    cases hp : tractParseMethod { a with attrs := applyConfig a.attrs Gen.TRACT_ATTRIBUTES cc, config := cc } true kw with
    | error e => rw [hp] at h2; cases h2
    | ok r =>
      rw [hp] at h2
      simp only [Except.map] at h2
      cases h2
      obtain ⟨ha, hcfg⟩ := tractParseMethod_config _ _ _ _ hp
      simp only [] at ha hcfg
      rw [ha, applyConfig_idem, ← ha, ← hcfg]

/-- (c): `parse_tracts` with the same settings is idempotent — every tract, re-configured with the same text and
    re-parsed with the same keywords, is unchanged.  Side condition (minimal): for the configured tracts, no flag
    that parsing generates already occurs among the flags the tract inherited (cf. `ReparseOK`). -/
theorem C14_parse_tracts_idempotent (ts ts1 : List TractObj) (cfg : Option Str) (kw : TractKw)
    (h : parseTracts ts cfg kw = .ok ts1)
    (hok : ∀ tsc, configAll ts cfg = .ok tsc → ∀ t ∈ tsc, ReparseOK t kw) :
    parseTracts ts1 cfg kw = .ok ts1 := by
  rw [parseTracts_eq] at h ⊢
  cases hc : configAll ts cfg with
  | error e => rw [hc] at h; cases h
  | ok tsc =>
    rw [hc] at h
    simp only [] at h
    have hparse : ∀ b ∈ ts1, (tractParseMethod b true kw).map (·.1) = .ok b := by
      intro b hb
      obtain ⟨a', ha', hfa⟩ := mapM_mem _ _ _ h b hb
      cases hp : tractParseMethod a' true kw with
      | error e => rw [hp] at hfa; cases hfa
      | ok r =>
        rw [hp] at hfa
        simp only [Except.map] at hfa
        cases hfa
        rw [tract_reparse_idem a' kw r hp (hok tsc hc a' ha')]
        rfl
    have hcfg1 : configAll ts1 cfg = .ok ts1 := by
      unfold configAll at hc ⊢
      cases cfg with
      | none => rfl
      | some c =>
        by_cases hce : c.isEmpty = true
        · simp only [hce, if_true]; rfl
        · simp only [hce, Bool.false_eq_true, if_false] at hc ⊢
          apply mapM_fix
          intro b hb
          obtain ⟨a', ha', hfa⟩ := mapM_mem _ _ _ h b hb
          obtain ⟨a, _, hsa⟩ := mapM_mem _ _ _ hc a' ha'
          exact setConfig_after a a' b c kw hsa hfa
    rw [hcfg1]
    exact mapM_fix _ _ hparse

/-- (c) at step level: `PLSSDesc.parse_tracts` twice with the same arguments gives, the second time, the same output
    and the same world as the first time -/
theorem C14_step_parse_tracts_twice (w : World.World) (id : Nat) (cfg : Option Str) (kw : TractKw)
    (hok : ∀ d, getDesc w id = some d → ∀ tsc, configAll d.tracts cfg = .ok tsc → ∀ t ∈ tsc, ReparseOK t kw) :
    (step (step w (.descParseTracts id cfg kw)).1 (.descParseTracts id cfg kw)).2
        = (step w (.descParseTracts id cfg kw)).2 ∧
    (step (step w (.descParseTracts id cfg kw)).1 (.descParseTracts id cfg kw)).1
        = (step w (.descParseTracts id cfg kw)).1 := by
  cases hg : getDesc w id with
  | none => simp only [step, hg]; exact ⟨trivial, trivial⟩
  | some d =>
    cases hp : parseTracts d.tracts cfg kw with
    | error e => simp only [step, hg, hp]; exact ⟨trivial, trivial⟩
    | ok ts1 =>
      have h2 := C14_parse_tracts_idempotent d.tracts ts1 cfg kw hp (hok d hg)
      have hs : step w (.descParseTracts id cfg kw)
          = (putDesc w id { d with tracts := ts1 }, .desc { d with tracts := ts1 }) := by
        simp only [step, hg, hp]
      rw [hs]
      have hg' : getDesc (putDesc w id { d with tracts := ts1 }) id = some { d with tracts := ts1 } := by
        rw [getDesc_putDesc]; simp
      simp only [step, hg', h2, putDesc_putDesc]
      exact ⟨trivial, trivial⟩

/-! ## (e) commit=False over histories -/

def isTractOp : Op → Bool
  | .newTract .. => true | .tractParse .. => true | .tractPreprocess .. => true | .tractConfig .. => true
  | _ => false

/-- the cache after `_cache_trs_to_dict` of the keys -/
def fillCache (u : Bool) (c : List (Str × TRS.TrsDict)) (ks : List Str) : List (Str × TRS.TrsDict) :=
  if !u then c else
    ks.foldl (fun c k => if c.any (fun e => e.1 == k) then c else c ++ [(k, TRS.trsToDict (some k))]) c

/-- cache lookup as a function of the cache alone -/
def lookC (c : List (Str × TRS.TrsDict)) (s : Option Str) : TRS.TrsDict :=
  match c.find? (fun e => e.1 == TRS.normIn s) with
  | some e => e.2
  | none => TRS.trsToDict s

theorem look_mk (m : MC) (n : Nat) (u : Bool) (c : List (Str × TRS.TrsDict)) (d : List (Nat × DescObj))
    (T : List (Nat × TractObj)) : World.look ⟨m, n, u, c, d, T⟩ = lookC c := rfl

theorem fill_mk (m : MC) (n : Nat) (u : Bool) (c : List (Str × TRS.TrsDict)) (d : List (Nat × DescObj))
    (T : List (Nat × TractObj)) (ks : List Str) :
    World.fill ⟨m, n, u, c, d, T⟩ ks = ⟨m, n, u, fillCache u c ks, d, T⟩ := by
  unfold World.fill fillCache
  cases u <;> rfl

/-- operations that are not about stand-alone tracts neither read nor change the tract store -/
theorem step_congr_nontract (w1 w2 : World.World) (op : Op) (h : WEq w1 w2) (hop : isTractOp op = false) :
    (step w1 op).2 = (step w2 op).2 ∧ WEq (step w1 op).1 (step w2 op).1 := by
  obtain ⟨m1, n1, u1, c1, d1, T1⟩ := w1
  obtain ⟨m2, n2, u2, c2, d2, T2⟩ := w2
  obtain ⟨h1, h2, h3, h4, h5, ht⟩ := h
  simp only at h1 h2 h3 h4 h5
  subst h1 h2 h3 h4 h5
  cases op
  case newTract => cases hop
  case tractParse => cases hop
  case tractPreprocess => cases hop
  case tractConfig => cases hop
  all_goals simp only [step, getDesc, look_mk, fill_mk, putDesc]
  all_goals (repeat' split)
  all_goals exact ⟨by first | rfl | trivial, rfl, rfl, rfl, rfl, rfl, ht⟩

theorem WEq_put (w1 w2 : World.World) (id : Nat) (t : TractObj) (h : WEq w1 w2) :
    WEq (putTract w1 id t) (putTract w2 id t) :=
  ⟨h.mc, h.nextUid, h.useCache, h.cache, h.descs, fun i => by rw [getTract_putTract, getTract_putTract, h.tracts i]⟩

theorem look_congr (w1 w2 : World.World) (h : WEq w1 w2) : w1.look = w2.look := by
  funext s
  unfold World.look
  rw [h.cache]

theorem WEq_fill (w1 w2 : World.World) (n : Nat) (ks : List Str) (h : WEq w1 w2) :
    WEq ({ w1 with nextUid := n }.fill ks) ({ w2 with nextUid := n }.fill ks) := by
  obtain ⟨h1, h2, h3, h4, h5, h6⟩ := h
  unfold World.fill
  simp only [h3, h4]
  split
  · exact ⟨h1, rfl, rfl, rfl, h5, h6⟩
  · exact ⟨h1, rfl, rfl, rfl, h5, h6⟩

/-- no operation distinguishes `WEq` worlds: same output, and the resulting worlds are again `WEq` -/
theorem step_congr (w1 w2 : World.World) (op : Op) (h : WEq w1 w2) :
    (step w1 op).2 = (step w2 op).2 ∧ WEq (step w1 op).1 (step w2 op).1 := by
  by_cases ht : isTractOp op = false
  · exact step_congr_nontract w1 w2 op h ht
  · cases op
    case newTract id text trs cfg pq =>
      simp only [step, h.nextUid, look_congr w1 w2 h]
      cases tractInit w2.nextUid text trs cfg pq none none 0 w2.look with
      | error e => exact ⟨rfl, h⟩
      | ok t =>
        simp only []
        split
        · exact ⟨rfl, h⟩
        · exact ⟨rfl, WEq_put _ _ _ _ (WEq_fill w1 w2 _ _ h)⟩
    case tractParse id kw commit =>
      simp only [step, h.tracts id]
      cases getTract w2 id with
      | none => exact ⟨rfl, h⟩
      | some t =>
        simp only []
        cases tractParseMethod t commit kw with
        | error e => exact ⟨rfl, h⟩
        | ok r =>
          simp only []
          split
          · exact ⟨rfl, h⟩
          · exact ⟨rfl, WEq_put _ _ _ _ h⟩
    case tractPreprocess id c commit =>
      simp only [step, h.tracts id]
      cases getTract w2 id with
      | none => exact ⟨rfl, h⟩
      | some t => exact ⟨rfl, WEq_put _ _ _ _ h⟩
    case tractConfig id cfg =>
      simp only [step, h.tracts id]
      cases getTract w2 id with
      | none => exact ⟨rfl, h⟩
      | some t =>
        simp only []
        cases tractSetConfig t cfg with
        | error e => exact ⟨rfl, h⟩
        | ok t' => exact ⟨rfl, WEq_put _ _ _ _ h⟩
    all_goals exact absurd rfl ht

theorem run_congr (ops : List Op) : ∀ (w1 w2 : World.World), WEq w1 w2 →
    (run w1 ops).2 = (run w2 ops).2 ∧ WEq (run w1 ops).1 (run w2 ops).1 := by
  induction ops with
  | nil => intro w1 w2 h; exact ⟨rfl, h⟩
  | cons op rest ih =>
    intro w1 w2 h
    obtain ⟨ho, hw⟩ := step_congr w1 w2 op h
    obtain ⟨hos, hws⟩ := ih _ _ hw
    simp only [run]
    exact ⟨by rw [ho, hos], hws⟩

theorem run_append_full (a b : List Op) : ∀ (w : World.World),
    run w (a ++ b) = ((run (run w a).1 b).1, (run w a).2 ++ (run (run w a).1 b).2) := by
  induction a with
  | nil => intro w; rfl
  | cons op rest ih => intro w; simp only [List.cons_append, run, ih, List.cons_append]

theorem run_outs_length (ops : List Op) : ∀ (w : World.World), (run w ops).2.length = ops.length := by
  induction ops with
  | nil => intro w; rfl
  | cons op rest ih => intro w; simp only [run, List.length_cons, ih]

/-- (e): in any history, from any world, deleting a `Tract.parse(commit=False)` operation changes neither the outputs
    of the other operations nor (observably) the final world: commit=False has no side effects.
    (`eraseIdx` removes the deleted operation's own output from the output list.) -/
theorem C14_run_noncommit_erasable (w : World.World) (pre post : List Op) (id : Nat) (kw : TractKw) :
    (run w (pre ++ .tractParse id kw false :: post)).2.eraseIdx pre.length = (run w (pre ++ post)).2 ∧
    WEq (run w (pre ++ .tractParse id kw false :: post)).1 (run w (pre ++ post)).1 := by
  rw [run_append_full, run_append_full]
  simp only [run]
  have hw := C14_step_tract_parse_noncommit (run w pre).1 id kw
  obtain ⟨ho, hws⟩ := run_congr post _ _ hw
  refine ⟨?_, hws⟩
  have hl := run_outs_length pre w
  rw [List.eraseIdx_append_of_length_le (by omega), hl, Nat.sub_self, List.eraseIdx_cons_zero, ho]

/- NB: the same erasure for `PLSSDesc.parse(commit=False)` does NOT hold literally (the UID counter advances, so tracts
   created later get other creation numbers, and the TRS cache may be filled); what holds is (a):
   `C14_step_desc_parse_noncommit`. -/

/-! ## (d) PLSSDesc.parse twice -/

/-- a committed parse is a fixed point: parsing the parsed description again (same UID counter) returns it unchanged -/
theorem desc_reparse_fix (mc : MC) (u : Nat) (d d1 : DescObj) (kw : DescKw) (look : Option Str → TRS.TrsDict)
    (o1 : ParserOut) (h : descParse mc u d kw true look = .ok (d1, o1)) :
    descParse mc u d1 kw true look = .ok (d1, o1) := by
  obtain ⟨hargs, horig⟩ := C14_desc_parse_args_stable mc u d d1 kw kw true look o1 h
  unfold descParse at h ⊢
  rw [hargs, horig]
  cases hp : plssParser mc u d.origDesc (effectiveDesc d kw) look with
  | error e => rw [hp] at h; cases h
  | ok out =>
    rw [hp] at h
    simp only [if_true] at h ⊢
    cases h
    simp

theorem plssParser_nextUid_ge (mc : MC) (u : Nat) (text : Str) (a : ParserArgs) (look : Option Str → TRS.TrsDict)
    (o : ParserOut) (h : plssParser mc u text a look = .ok o) : u ≤ o.nextUid := by
  have hs := C14_plssParser_uid_shift mc 0 u text a look
  rw [Nat.zero_add, h] at hs
  cases h0 : plssParser mc 0 text a look with
  | error e => rw [h0] at hs; cases hs
  | ok o0 =>
    rw [h0] at hs
    simp only [Except.map] at hs
    cases hs
    exact Nat.le_add_left _ _

theorem buildTracts_length (u : Nat) (hd : Str) (pq : Bool) (src : OptStr) (text : Str)
    (look : Option Str → TRS.TrsDict) : ∀ (sp : List (Str × Str × Bool)) (i : Nat) (ts : List TractObj),
    buildTracts u hd pq src text look i sp = .ok ts → ts.length = sp.length := by
  intro sp
  induction sp with
  | nil => intro i ts h; simp only [buildTracts] at h; cases h; rfl
  | cons x rest ih =>
    intro i ts h
    obtain ⟨a, b, c⟩ := x
    simp only [buildTracts] at h
    split at h
    · cases h
    · split at h
      · cases h
      · next ts' hts => cases h; simp [ih _ _ hts]

/-- the UID counter advances by exactly the number of tracts created -/
theorem plssParser_tracts_length (mc : MC) (u : Nat) (text : Str) (a : ParserArgs) (look : Option Str → TRS.TrsDict)
    (o : ParserOut) (h : plssParser mc u text a look = .ok o) : o.nextUid = u + o.tracts.length := by
  unfold plssParser at h
  cases h1 : handedDownText a with
  | error e => rw [h1] at h; cases h
  | ok handedDown =>
    rw [h1] at h
    simp only [] at h
    cases h2 : plssPreprocess mc text a.defaultNS a.defaultEW a.ocrScrub with
    | error e => rw [h2] at h; cases h
    | ok pp =>
      rw [h2] at h
      simp only [] at h
      generalize h3 : parseAllBlocks mc pp.text _ a (fixedFlags pp.fixed) = X at h
      cases X with
      | error e => cases h
      | ok parent =>
        simp only [] at h
        generalize h4 : tractSpecs _ parent.comps = Y at h
        cases Y with
        | error e => cases h
        | ok specs =>
          simp only [] at h
          cases h5 : buildTracts u handedDown a.parseQQ a.source text look 0 specs with
          | error e => rw [h5] at h; cases h
          | ok tracts =>
            rw [h5] at h
            simp only [] at h
            cases h6 : secWithinFlags tracts (examineUnused parent.fl parent.unused) (secWithinIndexes specs) with
            | error e => rw [h6] at h; cases h
            | ok fl1 =>
              rw [h6] at h
              simp only [] at h
              cases h
              simp only [handDownFlags, List.length_map, buildTracts_length _ _ _ _ _ _ _ _ _ h5]

theorem fillCache_idem (u : Bool) (c : List (Str × TRS.TrsDict)) (ks : List Str) :
    fillCache u (fillCache u c ks) ks = fillCache u c ks := by
  unfold fillCache
  cases u
  · rfl
  · simp only [Bool.not_true, Bool.false_eq_true, if_false]
    generalize hF : (fun (c : List (Str × TRS.TrsDict)) (k : Str) =>
      if c.any (fun e => e.1 == k) then c else c ++ [(k, TRS.trsToDict (some k))]) = F
    have hmono1 : ∀ (c : List (Str × TRS.TrsDict)) (k k' : Str), c.any (fun e => e.1 == k) = true →
        (F c k').any (fun e => e.1 == k) = true := by
      intro c k k' h
      subst hF
      simp only []
      split
      · exact h
      · rw [List.any_append, h]; rfl
    have hmono : ∀ (l : List Str) (c : List (Str × TRS.TrsDict)) (k : Str), c.any (fun e => e.1 == k) = true →
        (l.foldl F c).any (fun e => e.1 == k) = true := by
      intro l
      induction l with
      | nil => intro c k h; exact h
      | cons k0 rest ih => intro c k h; exact ih _ k (hmono1 c k k0 h)
    have hself : ∀ (c : List (Str × TRS.TrsDict)) (k : Str), (F c k).any (fun e => e.1 == k) = true := by
      intro c k
      subst hF
      simp only []
      split
      · assumption
      · rw [List.any_append]; simp
    have hall : ∀ (l : List Str) (c : List (Str × TRS.TrsDict)), ∀ k ∈ l,
        (l.foldl F c).any (fun e => e.1 == k) = true := by
      intro l
      induction l with
      | nil => intro c k hk; cases hk
      | cons k0 rest ih =>
        intro c k hk
        rcases List.mem_cons.1 hk with rfl | hk
        · exact hmono rest _ _ (hself c _)
        · exact ih _ k hk
    have hnoop : ∀ (l : List Str) (c : List (Str × TRS.TrsDict)),
        (∀ k ∈ l, c.any (fun e => e.1 == k) = true) → l.foldl F c = c := by
      intro l
      induction l with
      | nil => intro c _; rfl
      | cons k0 rest ih =>
        intro c h
        have h0 : F c k0 = c := by
          subst hF
          simp only [h k0 List.mem_cons_self, if_true]
        simp only [List.foldl_cons, h0]
        exact ih c (fun k hk => h k (List.mem_cons_of_mem _ hk))
    exact hnoop ks _ (hall ks c)

theorem tractKeys_shift (k : Nat) (ts : List TractObj) : tractKeys (ts.map (shiftUid k)) = tractKeys ts := by
  unfold tractKeys
  rw [List.map_map]
  rfl

/-- (d): after ANY history that kept the TRS cache sound (every reachable world does: `C15_run_cache_ok`), parsing a
    stored description twice with the same settings either changes nothing at all (unknown id / exception / model
    divergence), or the second parse returns the same description and tracts as the first, up to the creation numbers
    (uids) of the freshly created Tract objects, which are `k` higher, `k` being the number of tracts; the world after
    the second parse is the world after the first with that description stored and the UID counter advanced by `k`
    (MasterConfig, cache switch, TRS cache, other descriptions and all stand-alone tracts are the same). -/
theorem C14_step_desc_parse_twice (w : World.World) (id : Nat) (kw : DescKw) (hc : CacheOK w) :
    ((step w (.descParse id kw true)).1 = w ∧
      step (step w (.descParse id kw true)).1 (.descParse id kw true) = step w (.descParse id kw true)) ∨
    (∃ d1 ts k, (step w (.descParse id kw true)).2 = .descAndTracts d1 ts ∧ d1.tracts = ts ∧ ts.length = k ∧
      (step w (.descParse id kw true)).1.nextUid = w.nextUid + k ∧
      (step (step w (.descParse id kw true)).1 (.descParse id kw true)).2
        = .descAndTracts (shiftDesc k d1) (ts.map (shiftUid k)) ∧
      (step (step w (.descParse id kw true)).1 (.descParse id kw true)).1
        = { putDesc (step w (.descParse id kw true)).1 id (shiftDesc k d1) with
            nextUid := (step w (.descParse id kw true)).1.nextUid + k }) := by
  have hl := C15_look_funext w hc
  cases hg : getDesc w id with
  | none => left; simp only [step, hg]; exact ⟨trivial, trivial⟩
  | some d =>
    cases hp : descParse w.mc w.nextUid d kw true w.look with
    | error e => left; simp only [step, hg, hp]; exact ⟨trivial, trivial⟩
    | ok r =>
      obtain ⟨d1, o1⟩ := r
      by_cases hd : o1.diverged = true
      · left; simp only [step, hg, hp, hd, if_true]; exact ⟨trivial, trivial⟩
      · right
        have hd' : o1.diverged = false := by simpa using hd
        have hs : step w (.descParse id kw true)
            = (putDesc ({ w with nextUid := o1.nextUid }.fill (tractKeys o1.tracts)) id d1, .descAndTracts d1 o1.tracts) := by
          simp only [step, hg, hp, hd, Bool.false_eq_true, if_false]
        -- facts about the first parse
        have hpp : plssParser w.mc w.nextUid d.origDesc (effectiveDesc d kw) w.look = .ok o1 ∧ d1.tracts = o1.tracts := by
          unfold descParse at hp
          cases hq : plssParser w.mc w.nextUid d.origDesc (effectiveDesc d kw) w.look with
          | error e => rw [hq] at hp; cases hp
          | ok out =>
            rw [hq] at hp
            simp only [if_true] at hp
            cases hp
            exact ⟨rfl, rfl⟩
        have hge := plssParser_nextUid_ge _ _ _ _ _ _ hpp.1
        have hlen : o1.tracts.length = o1.nextUid - w.nextUid := by
          have := plssParser_tracts_length _ _ _ _ _ _ hpp.1
          omega
        -- the second parse
        have hfix := desc_reparse_fix _ _ _ _ _ _ _ hp
        have hshift := descParse_commit_shift w.mc w.nextUid (o1.nextUid - w.nextUid) d1 kw w.look
        rw [hfix] at hshift
        have hu : w.nextUid + (o1.nextUid - w.nextUid) = o1.nextUid := by omega
        rw [hu] at hshift
        simp only [Except.map] at hshift
        have hc1 : CacheOK (step w (.descParse id kw true)).1 := C15_step_cache_ok w _ hc
        have hl1 := C15_look_funext _ hc1
        rw [hs] at hl1 hc1 ⊢
        refine ⟨d1, o1.tracts, o1.nextUid - w.nextUid, rfl, hpp.2, hlen, ?_, ?_, ?_⟩
        · show (({ w with nextUid := o1.nextUid }.fill (tractKeys o1.tracts))).nextUid = _
          rw [(fill_fields _ _).2.1]
          exact hu.symm
        all_goals
          have hg' : getDesc (putDesc ({ w with nextUid := o1.nextUid }.fill (tractKeys o1.tracts)) id d1) id = some d1 := by
            rw [getDesc_putDesc]; simp
          have hmc : (putDesc ({ w with nextUid := o1.nextUid }.fill (tractKeys o1.tracts)) id d1).mc = w.mc :=
            (fill_fields _ _).1
          have hn : (putDesc ({ w with nextUid := o1.nextUid }.fill (tractKeys o1.tracts)) id d1).nextUid = o1.nextUid :=
            (fill_fields _ _).2.1
          rw [hl] at hshift
          simp only [step, hg', hmc, hn, hl1, hshift, hd', Bool.false_eq_true, if_false, tractKeys_shift]
        obtain ⟨m, n, u, c, ds, T⟩ := w
        simp only [fill_mk, putDesc, fillCache_idem, filter_put]

/-! ## Corollary of (c) for tracts without inherited flags, and concrete instances -/

theorem tractSetConfig_inherited (t t' : TractObj) (cfg : CfgArg) (h : tractSetConfig t cfg = .ok t') :
    inheritedFlags t' = inheritedFlags t := by
  unfold tractSetConfig at h
  split at h
  · cases h
  · cases h; rfl

theorem configAll_inherited (ts tsc : List TractObj) (cfg : Option Str) (h : configAll ts cfg = .ok tsc) :
    ∀ t' ∈ tsc, ∃ t ∈ ts, inheritedFlags t' = inheritedFlags t := by
  unfold configAll at h
  cases cfg with
  | none => cases h; exact fun t' ht' => ⟨t', ht', rfl⟩
  | some c =>
    by_cases hc : c.isEmpty = true
    · simp only [hc, if_true] at h
      cases h
      exact fun t' ht' => ⟨t', ht', rfl⟩
    · simp only [hc, Bool.false_eq_true, if_false] at h
      intro t' ht'
      obtain ⟨t, ht, hs⟩ := mapM_mem _ _ _ h t' ht'
      exact ⟨t, ht, tractSetConfig_inherited t t' _ hs⟩

/-- (c) with its side condition discharged for descriptions whose tracts inherited no flags (a description parsed
    without warnings/errors) -/
theorem C14_step_parse_tracts_twice_fresh (w : World.World) (id : Nat) (cfg : Option Str) (kw : TractKw)
    (hfresh : ∀ d, getDesc w id = some d → ∀ t ∈ d.tracts, noFlags (inheritedFlags t)) :
    (step (step w (.descParseTracts id cfg kw)).1 (.descParseTracts id cfg kw)).2
        = (step w (.descParseTracts id cfg kw)).2 ∧
    (step (step w (.descParseTracts id cfg kw)).1 (.descParseTracts id cfg kw)).1
        = (step w (.descParseTracts id cfg kw)).1 := by
  apply C14_step_parse_tracts_twice
  intro d hd tsc hc t' ht'
  obtain ⟨t, ht, he⟩ := configAll_inherited _ _ _ hc t' ht'
  apply reparseOK_of_noFlags
  rw [he]
  exact hfresh d hd t ht

def noFlagsB (f : Flags) : Bool := f.w.isEmpty && f.wl.isEmpty && f.e.isEmpty && f.el.isEmpty

theorem noFlags_of_B (f : Flags) (h : noFlagsB f = true) : noFlags f := by
  simp only [noFlagsB, Bool.and_eq_true, List.isEmpty_iff] at h
  exact ⟨h.1.1.1, h.1.1.2, h.1.2, h.2⟩

theorem fresh_of_check (w : World.World) (id : Nat)
    (h : (match getDesc w id with
          | some d => d.tracts.all (fun t => noFlagsB (inheritedFlags t))
          | none => true) = true) :
    ∀ d, getDesc w id = some d → ∀ t ∈ d.tracts, noFlags (inheritedFlags t) := by
  intro d hd t ht
  rw [hd] at h
  simp only [List.all_eq_true] at h
  exact noFlags_of_B _ (h t ht)

/-! ### concrete instances (the checks are evaluated by the kernel) -/

/-- a stand-alone tract, created and parsed at once -/
def exHistT : List Op := [.newTract 1 (S "Lot 1, NE/4") (some (S "154n97w14")) .none (some true)]

/-- the tract exists, and parsing it returns lots and QQs: the theorems below are not vacuous on `exHistT` -/
example : (match (step (run {} exHistT).1 (.tractParse 1 {} false)).2 with | .tractAndRet _ r => r | _ => [])
    = [S "L1", S "NENE", S "NWNE", S "SENE", S "SWNE"] := by decide +kernel

/-- (a) on the concrete history -/
example : WEq (step (run {} exHistT).1 (.tractParse 1 { qqDepthMin := some 1 } false)).1 (run {} exHistT).1 :=
  C14_step_tract_parse_noncommit _ 1 _

/-- (b) on the concrete history: second parse = first parse, world unchanged by the second -/
example : (step (step (run {} exHistT).1 (.tractParse 1 { cleanQQ := some true } true)).1 (.tractParse 1 { cleanQQ := some true } true)).2
    = (step (run {} exHistT).1 (.tractParse 1 { cleanQQ := some true } true)).2 :=
  (C14_run_tract_parse_twice exHistT 1 { cleanQQ := some true }).1

/-- (b), step form, with its hypothesis discharged for a concrete world -/
example : (step (step (run {} exHistT).1 (.tractParse 1 {} true)).1 (.tractParse 1 {} true)).1
    = (step (run {} exHistT).1 (.tractParse 1 {} true)).1 :=
  (C14_step_tract_parse_twice _ 1 {} (fun t hg => by
    obtain ⟨e, he, rfl⟩ := mem_of_getTract _ 1 t hg
    exact reparseOK_of_noFlags _ _ (run_fresh exHistT {} (fun e he => by cases he) e he))).2

/-- a tract as `PLSSParser` builds it (not yet parsed into lots/QQs), and a world holding a description with it -/
def exTract : TractObj :=
  { uid := 0, trsKey := S "154n97w14", trs := TRS.trsToDict (some (S "154n97w14")), desc := S "NE/4",
    origDesc := some (S "T154N-R97W Sec 14: NE/4"), origIndex := 0, source := none,
    attrs := tractInitAttrs [] (some false), ppDesc := S "NE/4" }

def exWorldD : World.World :=
  { nextUid := 1,
    descs := [(7, { origDesc := S "T154N-R97W Sec 14: NE/4", source := none, attrs := descInitAttrs [] none none none,
                    config := [], tracts := [exTract], ppDesc := S "T154N-R97W Sec 14: NE/4" })] }

/-- `parse_tracts` on that tract succeeds and produces QQs (so (c) is not vacuous here) -/
example : (match parseTracts [exTract] (some (S "clean_qq")) {} with | .ok ts => ts.map (·.qqs) | .error _ => [])
    = [[S "NENE", S "NWNE", S "SENE", S "SWNE"]] := by decide +kernel

/-- (c) on the concrete world (side condition checked by evaluation) -/
example : (step (step exWorldD (.descParseTracts 7 (some (S "clean_qq")) {})).1 (.descParseTracts 7 (some (S "clean_qq")) {})).2
    = (step exWorldD (.descParseTracts 7 (some (S "clean_qq")) {})).2 :=
  (C14_step_parse_tracts_twice_fresh exWorldD 7 (some (S "clean_qq")) {} (fresh_of_check _ 7 (by decide))).1

/-- (c), list form, for a tract without inherited flags -/
example (t : TractObj) (ts1 : List TractObj) (h : parseTracts [t] (some (S "clean_qq")) {} = .ok ts1)
    (hf : noFlags (inheritedFlags t)) : parseTracts ts1 (some (S "clean_qq")) {} = .ok ts1 :=
  C14_parse_tracts_idempotent [t] ts1 _ _ h (fun tsc hc t' ht' => by
    obtain ⟨t0, ht0, he⟩ := configAll_inherited _ _ _ hc t' ht'
    have : t0 = t := by simpa using ht0
    subst this
    exact reparseOK_of_noFlags _ _ (he ▸ hf))

/-- (d) on the concrete world: its hypothesis (a sound TRS cache) holds -/
example := C14_step_desc_parse_twice exWorldD 7 { parseQQ := some true } (fun e he => by cases he)

/-- (d) after any history from the initial world -/
example (hist : List Op) (id : Nat) (kw : DescKw) :=
  C14_step_desc_parse_twice (run {} hist).1 id kw (C15_run_cache_ok hist {} C15_cache_ok_init)

/-- (e) on a concrete history: the non-committing parse in the middle can be deleted -/
example : (run {} (exHistT ++ .tractParse 1 { qqDepth := some 1 } false :: [.tractParse 1 {} true])).2.eraseIdx 1
    = (run {} (exHistT ++ [.tractParse 1 {} true])).2 :=
  (C14_run_noncommit_erasable {} exHistT [.tractParse 1 {} true] 1 { qqDepth := some 1 }).1

#print axioms C14_step_tract_parse_noncommit_exact
#print axioms C14_step_tract_parse_noncommit
#print axioms C14_step_desc_parse_noncommit_exact
#print axioms C14_step_desc_parse_noncommit
#print axioms C14_step_tract_parse_twice
#print axioms C14_run_tract_parse_twice
#print axioms C14_parse_tracts_idempotent
#print axioms C14_step_parse_tracts_twice
#print axioms C14_step_parse_tracts_twice_fresh
#print axioms C14_step_desc_parse_twice
#print axioms C14_run_noncommit_erasable

end PyTRS
