/-
C05 — elided lists ("Sections 1 - 3, 5 and 9 thru 7") expand to exactly the numbers they denote.

Part 1: pure list arithmetic — the abstract right-to-left loop over tokens computes `expand`.
Part 2: the model's loops (`secLoop`, `lotLoop`) refine the abstract loop, given the (decidable) observations of
        the regex matches (`LexList`).
-/
import PyTRS.Props.C05
namespace PyTRS
open PyTRS.Unpack

/-! ## Part 1 — list arithmetic -/

inductive Item where
  | single (n : Int)
  | range (a b : Int)

/-- what an item denotes, left to right -/
def Item.expand : Item → List Int
  | .single n => [n]
  | .range a b => if a ≤ b then (List.range (b - a + 1).toNat).map (fun (k : Nat) => a + (k : Int))
                  else (List.range (a - b + 1).toNat).map (fun (k : Nat) => a - (k : Int))

def expand (items : List Item) : List Int := items.flatMap Item.expand

/-- the numbers as the right-to-left loop meets them: (number, "a through-connective stands before this number"),
    in reading order -/
def Item.tokens : Item → List (Int × Bool)
  | .single n => [(n, false)]
  | .range a b => [(a, false), (b, true)]

def tokens (items : List Item) : List (Int × Bool) := items.flatMap Item.tokens

/-- the abstract right-to-left loop over tokens (state: working list, found_through) -/
def rlStep (st : List Int × Bool) (t : Int × Bool) : List Int × Bool :=
  (if st.2 then st.1 ++ (elidedRange t.1 (st.1.getLast?.getD 0)).1 else st.1 ++ [t.1], t.2)

def rlFold (ts : List (Int × Bool)) : List Int := ((ts.reverse).foldl rlStep ([], false)).1.reverse

/-- the heart of C05: the right end `b` (appended on its own by the previous iteration) followed by the elided
    numbers is the range `a .. b` read backwards -/
theorem cons_elidedRange (a b : Int) :
    b :: (elidedRange a b).1 = (Item.expand (.range a b)).reverse := by
  unfold elidedRange Item.expand
  by_cases h : a < b
  · have h' : a ≤ b := by omega
    simp only [h, h', if_true]
    apply List.ext_getElem
    · simp; omega
    · intro i h1 h2
      simp only [List.length_cons, List.length_map, List.length_range, List.length_reverse] at h1 h2
      cases i with
      | zero => simp; omega
      | succ j => simp; omega
  · simp only [h, if_false]
    by_cases h' : a ≤ b
    · have : a = b := by omega
      subst this
      simp
    · simp only [h', if_false]
      apply List.ext_getElem
      · simp; omega
      · intro i h1 h2
        simp only [List.length_cons, List.length_map, List.length_range, List.length_reverse] at h1 h2
        cases i with
        | zero => simp; omega
        | succ j => simp; omega

theorem tokens_cons (it : Item) (rest : List Item) : tokens (it :: rest) = it.tokens ++ tokens rest := by
  simp [tokens]

theorem expand_cons (it : Item) (rest : List Item) : expand (it :: rest) = it.expand ++ expand rest := by
  simp [expand]

/-- the state of the abstract loop after all tokens -/
theorem rl_foldl (items : List Item) :
    (tokens items).reverse.foldl rlStep ([], false) = ((expand items).reverse, false) := by
  induction items with
  | nil => rfl
  | cons it rest ih =>
    rw [tokens_cons, List.reverse_append, List.foldl_append, ih, expand_cons, List.reverse_append]
    cases it with
    | single n => simp [Item.tokens, Item.expand, rlStep]
    | range a b =>
      simp only [Item.tokens, List.reverse_cons, List.reverse_nil, List.nil_append, List.cons_append,
        List.foldl_cons, List.foldl_nil, rlStep]
      simp only [Bool.false_eq_true, if_false, if_true, List.getLast?_append, List.getLast?_singleton,
        Option.some_or, Option.getD_some, List.append_assoc, List.singleton_append]
      rw [cons_elidedRange]

theorem rlFold_eq_expand (items : List Item) : rlFold (tokens items) = expand items := by
  unfold rlFold
  rw [rl_foldl]
  simp

/-! ### the flags -/

/-- `rlStep` that additionally records, for every range step, the `correct` component of `elidedRange` -/
def rlStepF (st : (List Int × Bool) × List Bool) (t : Int × Bool) : (List Int × Bool) × List Bool :=
  (rlStep st.1 t, if st.1.2 then st.2 ++ [(elidedRange t.1 (st.1.1.getLast?.getD 0)).2] else st.2)

/-- variant of `rlFold` that also returns the collected flags (one per range step, right to left) -/
def rlFoldF (ts : List (Int × Bool)) : List Int × List Bool :=
  let r := (ts.reverse).foldl rlStepF (([], false), [])
  (r.1.1.reverse, r.2)

theorem rlStepF_foldl_fst (l : List (Int × Bool)) (st : (List Int × Bool) × List Bool) :
    (l.foldl rlStepF st).1 = l.foldl rlStep st.1 := by
  induction l generalizing st with
  | nil => rfl
  | cons t l ih => simp only [List.foldl_cons]; rw [ih]; rfl

/-- the variant computes the same list -/
theorem rlFoldF_fst (ts : List (Int × Bool)) : (rlFoldF ts).1 = rlFold ts := by
  unfold rlFoldF rlFold
  simp only [rlStepF_foldl_fst]

theorem elidedRange_flag (a b : Int) : (elidedRange a b).2 = decide (a < b) := by
  unfold elidedRange
  by_cases h : a < b <;> simp [h]

def Item.flag : Item → List Bool
  | .single _ => []
  | .range a b => [decide (a < b)]

theorem rlF_foldl (items : List Item) :
    (tokens items).reverse.foldl rlStepF (([], false), [])
      = (((expand items).reverse, false), items.reverse.flatMap Item.flag) := by
  induction items with
  | nil => rfl
  | cons it rest ih =>
    rw [tokens_cons, List.reverse_append, List.foldl_append, ih, expand_cons, List.reverse_append,
      List.reverse_cons, List.flatMap_append]
    cases it with
    | single n => simp [Item.tokens, Item.expand, Item.flag, rlStepF, rlStep]
    | range a b =>
      simp only [Item.tokens, List.reverse_cons, List.reverse_nil, List.nil_append, List.cons_append,
        List.foldl_cons, List.foldl_nil, rlStepF, rlStep]
      simp only [Bool.false_eq_true, if_false, if_true, List.getLast?_append, List.getLast?_singleton,
        Option.some_or, Option.getD_some, List.append_assoc, List.singleton_append]
      rw [cons_elidedRange, elidedRange_flag]
      simp [Item.flag]

/-- the loop flags a range exactly when it is not ascending (a ≥ b) -/
theorem nonsequential_iff (items : List Item) :
    (∃ it ∈ items, ∃ a b, it = .range a b ∧ ¬ a < b) ↔ false ∈ (rlFoldF (tokens items)).2 := by
  simp only [rlFoldF, rlF_foldl, List.mem_flatMap, List.mem_reverse]
  constructor
  · rintro ⟨it, hit, a, b, rfl, hab⟩
    exact ⟨_, hit, by simp [Item.flag, hab]⟩
  · rintro ⟨it, hit, hf⟩
    cases it with
    | single n => simp [Item.flag] at hf
    | range a b =>
      refine ⟨_, hit, a, b, rfl, ?_⟩
      simpa [Item.flag] using hf

/-! ## Part 2 — the model's loops follow the abstract loop -/

/-- what one iteration of `secLoop` observes at `endpos`: none = no further match;
    otherwise (rightmost number, is_multi, start of rightmost, through-connective before the rightmost number) -/
def secView (txt : Str) (endpos : Nat) : Option (Int × Bool × Nat × Bool) :=
  match multisec.rx.search txt 0 endpos with
  | none => none
  | some mo => some ((pyInt? ((getRightmost multisec "sec" mo txt).getD [])).getD 0,
                     isMulti multisec "sec" mo txt == some true, startOfRightmost multisec mo,
                     thruRightmost multisec mo txt)

/-- the same four observations for `lotLoop` -/
def lotView (txt : Str) (endpos : Nat) : Option (Int × Bool × Nat × Bool) :=
  match multilot.rx.search txt 0 endpos with
  | none => none
  | some mo => some ((pyInt? ((getRightmost multilot "lot" mo txt).getD [])).getD 0,
                     isMulti multilot "lot" mo txt == some true, startOfRightmost multilot mo,
                     thruRightmost multilot mo txt)

/-- `LexList view e ts` (with `view = secView txt` or `lotView txt`): reading the text right to left from `e` yields
    exactly the tokens `ts` (given right to left), each observation pointing to the `endpos` of the next one; after
    the leftmost token nothing more is found.  In `more` the next `endpos` is strictly smaller (`hlt`), which is what
    bounds the number of iterations by the length of the text. -/
inductive LexList (view : Nat → Option (Int × Bool × Nat × Bool)) : Nat → List (Int × Bool) → Prop
  | done (e : Nat) (h : view e = none) : LexList view e []
  | last (e : Nat) (n : Int) (thru : Bool) (start : Nat) (h : view e = some (n, false, start, thru))
         (h0 : view 0 = none) : LexList view e [(n, thru)]
  | more (e : Nat) (n : Int) (thru : Bool) (start : Nat) (rest : List (Int × Bool))
         (h : view e = some (n, true, start, thru)) (hlt : start < e)
         (hr : LexList view start rest) : LexList view e ((n, thru) :: rest)

theorem LexList.length_le {view : Nat → Option (Int × Bool × Nat × Bool)} {e : Nat} {ts : List (Int × Bool)}
    (h : LexList view e ts) : ts.length ≤ e + 1 := by
  induction h with
  | done e h => simp
  | last e n thru start h h0 => simp
  | more e n thru start rest h hlt hr ih => simp only [List.length_cons]; omega

/-- `rlStep` on the string-valued working list of the section loop -/
def rlStepS (st : List Str × Bool) (t : Int × Bool) : List Str × Bool :=
  (if st.2 then st.1 ++ (elidedRange t.1 ((pyInt? (st.1.getLast?.getD [])).getD 0)).1.map pad2
   else st.1 ++ [pad2 t.1], t.2)

theorem secLoop_succ (txt : Str) (fuel e : Nat) (st : SecLoopSt) :
    secLoop txt (fuel + 1) e st =
      match secView txt e with
      | none => (st, false)
      | some (n, multi, start, thru) =>
        secLoop txt fuel (if multi then start else 0) { secRangeStep st n with foundThrough := thru } := by
  rw [secLoop]
  unfold secView
  cases multisec.rx.search txt 0 e <;> rfl

theorem secRangeStep_working (st : SecLoopSt) (n : Int) (thru : Bool) :
    ((secRangeStep st n).working, thru) = rlStepS (st.working, st.foundThrough) (n, thru) := by
  unfold secRangeStep rlStepS
  by_cases h : st.foundThrough
  · simp only [h, if_true]
    split <;> rfl
  · simp [h]

theorem secLoop_refines (txt : Str) (ts : List (Int × Bool)) (e fuel : Nat) (h : LexList (secView txt) e ts)
    (hf : ts.length < fuel) (st : SecLoopSt) :
    (secLoop txt fuel e st).1.working = (ts.foldl rlStepS (st.working, st.foundThrough)).1
      ∧ (secLoop txt fuel e st).2 = false := by
  induction h generalizing fuel st with
  | done e h =>
    obtain ⟨f, rfl⟩ : ∃ f, fuel = f + 1 := ⟨fuel - 1, by simp at hf; omega⟩
    rw [secLoop_succ, h]
    simp
  | last e n thru start h h0 =>
    obtain ⟨f, rfl⟩ : ∃ f, fuel = f + 2 := ⟨fuel - 2, by simp at hf; omega⟩
    rw [secLoop_succ, h]
    simp only [Bool.false_eq_true, if_false]
    rw [secLoop_succ, h0]
    simp only [List.foldl_cons, List.foldl_nil, ← secRangeStep_working]
    simp
  | more e n thru start rest h hlt hr ih =>
    obtain ⟨f, rfl⟩ : ∃ f, fuel = f + 1 := ⟨fuel - 1, by simp at hf; omega⟩
    rw [secLoop_succ, h]
    simp only [if_true]
    have := ih f (by simp at hf; omega) { secRangeStep st n with foundThrough := thru }
    rw [this.1, this.2]
    simp only [List.foldl_cons, ← secRangeStep_working]
    simp

/-! ### `int(pad2 n) = n` -/

theorem pyIsSpace_of_isDigit {c : Char} (h : c.isDigit) : pyIsSpace c = false := by
  have h' := Char.isDigit_iff_toNat.mp h
  simp only [Char.reduceToNat] at h'
  simp only [pyIsSpace, Gen.PY_SPACE, List.any_cons, List.any_nil, Bool.or_false, Bool.or_eq_false_iff,
    Bool.and_eq_false_iff, decide_eq_false_iff_not]
  omega

theorem lstripBy_of_all_false (p : Char → Bool) (l : Str) (h : ∀ c ∈ l, p c = false) : lstripBy p l = l := by
  cases l with
  | nil => rfl
  | cons c t => simp [lstripBy, h c]

theorem pyStrip_of_digits (l : Str) (h : ∀ c ∈ l, c.isDigit) : pyStrip l = l := by
  have hp : ∀ c ∈ l, pyIsSpace c = false := fun c hc => pyIsSpace_of_isDigit (h c hc)
  unfold pyStrip stripBy rstripBy
  rw [lstripBy_of_all_false _ l hp, lstripBy_of_all_false _ l.reverse (by simpa using hp)]
  simp

theorem decimalValue?_of_isDigit {c : Char} (h : c.isDigit) : decimalValue? c = some (c.toNat - 48) := by
  have h' := Char.isDigit_iff_toNat.mp h
  simp only [Char.reduceToNat] at h'
  simp [decimalValue?, h'.1, h'.2]

theorem digitsVal?_go_of_digits (l : Str) (h : ∀ c ∈ l, c.isDigit) (acc : Nat) :
    digitsVal?.go l acc false = some (Nat.ofDigitChars 10 l acc) := by
  induction l generalizing acc with
  | nil => simp [digitsVal?.go]
  | cons c t ih =>
    have hc : c.isDigit := h c (by simp)
    have hne : (c == '_') = false := by
      cases hcu : c == '_' with
      | false => rfl
      | true => rw [eq_of_beq hcu] at hc; exact absurd hc (by decide)
    rw [digitsVal?.go]
    simp only [hne, Bool.false_eq_true, if_false, decimalValue?_of_isDigit hc]
    rw [ih (fun c hc => h c (by simp [hc])), Nat.ofDigitChars_cons, Nat.mul_comm]
    rfl

theorem pyInt?_of_digits (l : Str) (hne : l ≠ []) (h : ∀ c ∈ l, c.isDigit) :
    pyInt? l = some (Int.ofNat (Nat.ofDigitChars 10 l 0)) := by
  unfold pyInt?
  simp only [pyStrip_of_digits l h]
  cases l with
  | nil => exact absurd rfl hne
  | cons c t =>
    have hc : c.isDigit := h c (by simp)
    have hval : digitsVal? (c :: t) = some (Nat.ofDigitChars 10 (c :: t) 0) := by
      rw [digitsVal?]
      simp only [decimalValue?_of_isDigit hc]
      rw [digitsVal?_go_of_digits t (fun c hc => h c (by simp [hc])), Nat.ofDigitChars_cons]
      simp
    split
    · next r heq =>
      have : c = '-' := by injection heq
      rw [this] at hc; exact absurd hc (by decide)
    · next r heq =>
      have : c = '+' := by injection heq
      rw [this] at hc; exact absurd hc (by decide)
    · rw [hval]; rfl

/-- the two-digit rendering of a non-negative number reads back as that number -/
theorem pyInt?_pad2 (n : Int) (h : 0 ≤ n) : pyInt? (pad2 n) = some n := by
  have hs : intToStr n = Nat.toDigits 10 n.toNat := by
    unfold intToStr
    rw [Int.toString_eq_repr, Int.repr_eq_if, if_pos h, Nat.toList_repr]
  have hd : ∀ c ∈ pad2 n, c.isDigit := by
    intro c hc
    unfold pad2 pyRJust at hc
    rw [hs, List.mem_append] at hc
    rcases hc with hc | hc
    · rw [(List.mem_replicate.mp hc).2]; decide
    · exact Nat.isDigit_of_mem_toDigits (by decide) (by decide) hc
  have hne : pad2 n ≠ [] := by
    unfold pad2 pyRJust
    rw [hs]
    simp [Nat.toDigits_ne_nil]
  rw [pyInt?_of_digits _ hne hd]
  unfold pad2 pyRJust
  rw [hs, Nat.ofDigitChars_append, Nat.ofDigitChars_replicate_zero, Nat.mul_zero, Nat.ofDigitChars_ten_toDigits]
  simp [Int.toNat_of_nonneg h]

/-! ### sections -/

theorem mem_expand_range_right (a b : Int) : b ∈ Item.expand (.range a b) := by
  have := cons_elidedRange a b
  have hb : b ∈ (Item.expand (.range a b)).reverse := by rw [← this]; simp
  simpa using hb

/-- the string-valued loop computes the rendering of the abstract loop's result, provided every right end of a
    range reads back from its rendering -/
theorem rlS_foldl (items : List Item) (hpad : ∀ n ∈ expand items, pyInt? (pad2 n) = some n) :
    (tokens items).reverse.foldl rlStepS ([], false) = (((expand items).reverse).map pad2, false) := by
  induction items with
  | nil => rfl
  | cons it rest ih =>
    have hrest : ∀ n ∈ expand rest, pyInt? (pad2 n) = some n := by
      intro n hn; apply hpad; rw [expand_cons]; simp [hn]
    rw [tokens_cons, List.reverse_append, List.foldl_append, ih hrest, expand_cons, List.reverse_append]
    cases it with
    | single n => simp [Item.tokens, Item.expand, rlStepS]
    | range a b =>
      have hb : pyInt? (pad2 b) = some b := by
        apply hpad; rw [expand_cons]; simp [mem_expand_range_right]
      simp only [Item.tokens, List.reverse_cons, List.reverse_nil, List.nil_append, List.cons_append,
        List.foldl_cons, List.foldl_nil, rlStepS]
      simp only [Bool.false_eq_true, if_false, if_true, List.getLast?_append, List.getLast?_singleton,
        Option.some_or, Option.getD_some, List.append_assoc, List.singleton_append, hb]
      rw [← cons_elidedRange]
      simp

theorem unpackSections_eq (txt : Str) :
    (unpackSections txt).secList = (secLoop txt (txt.length + 2) txt.length {}).1.working.reverse
      ∧ (unpackSections txt).diverged = (secLoop txt (txt.length + 2) txt.length {}).2 := by
  unfold unpackSections
  exact ⟨rfl, rfl⟩

/-- version with the read-back property as an explicit hypothesis (no sign condition) -/
theorem unpackSections_expand_of_pad (txt : Str) (items : List Item)
    (h : LexList (secView txt) txt.length (tokens items).reverse)
    (hpad : ∀ n ∈ expand items, pyInt? (pad2 n) = some n) :
    (unpackSections txt).secList = (expand items).map pad2 ∧ (unpackSections txt).diverged = false := by
  have hlen := h.length_le
  have := secLoop_refines txt _ txt.length (txt.length + 2) h (by omega) {}
  rw [(unpackSections_eq txt).1, (unpackSections_eq txt).2, this.1, this.2]
  simp only [rlS_foldl items hpad]
  simp

theorem unpackSections_expand (txt : Str) (items : List Item)
    (h : LexList (secView txt) txt.length (tokens items).reverse)
    (hsmall : ∀ n ∈ expand items, 0 ≤ n) :
    (unpackSections txt).secList = (expand items).map pad2 ∧ (unpackSections txt).diverged = false :=
  unpackSections_expand_of_pad txt items h (fun n hn => pyInt?_pad2 n (hsmall n hn))

/-! ### lots (the working list holds `Int`s, so the abstract `rlStep` applies directly) -/

theorem lotAcreStep_working (st : LotLoopSt) (n : Int) (a : Option Str) :
    (lotAcreStep st n a).working = st.working := by
  unfold lotAcreStep
  cases a with
  | none => rfl
  | some a => simp only []; split <;> rfl

theorem lotRangeStep_working (st : LotLoopSt) (n : Int) (thru : Bool) :
    ((lotRangeStep st n).working, thru) = rlStep (st.working, st.foundThrough) (n, thru) := by
  unfold lotRangeStep rlStep
  by_cases h : st.foundThrough
  · simp only [h, if_true]
    split <;> rfl
  · simp [h]

/-- one iteration of `lotLoop`, seen through `lotView`: the new state's working list / found_through are those of
    the abstract step (acreage bookkeeping and `wordLotEncountered` do not touch them) -/
theorem lotLoop_succ (txt : Str) (fuel e : Nat) (st : LotLoopSt) :
    match lotView txt e with
    | none => lotLoop txt (fuel + 1) e st = (st, false)
    | some (n, multi, start, thru) =>
      ∃ st' : LotLoopSt, lotLoop txt (fuel + 1) e st = lotLoop txt fuel (if multi then start else 0) st'
        ∧ (st'.working, st'.foundThrough) = rlStep (st.working, st.foundThrough) (n, thru) := by
  rw [lotLoop]
  unfold lotView
  cases multilot.rx.search txt 0 e with
  | none => rfl
  | some mo =>
    simp only []
    refine ⟨_, rfl, ?_⟩
    rw [← lotRangeStep_working]
    split <;> simp [lotAcreStep_working]

theorem lotLoop_refines (txt : Str) (ts : List (Int × Bool)) (e fuel : Nat) (h : LexList (lotView txt) e ts)
    (hf : ts.length < fuel) (st : LotLoopSt) :
    (lotLoop txt fuel e st).1.working = (ts.foldl rlStep (st.working, st.foundThrough)).1
      ∧ (lotLoop txt fuel e st).2 = false := by
  induction h generalizing fuel st with
  | done e h =>
    obtain ⟨f, rfl⟩ : ∃ f, fuel = f + 1 := ⟨fuel - 1, by simp at hf; omega⟩
    have := lotLoop_succ txt f e st
    rw [h] at this
    simp [this]
  | last e n thru start h h0 =>
    obtain ⟨f, rfl⟩ : ∃ f, fuel = f + 2 := ⟨fuel - 2, by simp at hf; omega⟩
    have h1 := lotLoop_succ txt (f + 1) e st
    rw [h] at h1
    obtain ⟨st', h1, hst'⟩ := h1
    simp only [Bool.false_eq_true, if_false] at h1
    have h2 := lotLoop_succ txt f 0 st'
    rw [h0] at h2
    simp only [] at h2
    rw [h1, h2]
    simp only [List.foldl_cons, List.foldl_nil, ← hst']
    simp
  | more e n thru start rest h hlt hr ih =>
    obtain ⟨f, rfl⟩ : ∃ f, fuel = f + 1 := ⟨fuel - 1, by simp at hf; omega⟩
    have h1 := lotLoop_succ txt f e st
    rw [h] at h1
    obtain ⟨st', h1, hst'⟩ := h1
    simp only [if_true] at h1
    have := ih f (by simp at hf; omega) st'
    rw [h1, this.1, this.2]
    simp only [List.foldl_cons, ← hst']
    simp

theorem unpackLots_eq (txt : Str) :
    (unpackLots txt).lotList = (lotLoop txt (txt.length + 2) txt.length {}).1.working.reverse.map lotName
      ∧ (unpackLots txt).diverged = (lotLoop txt (txt.length + 2) txt.length {}).2 := by
  unfold unpackLots
  exact ⟨rfl, rfl⟩

theorem unpackLots_expand (txt : Str) (items : List Item)
    (h : LexList (lotView txt) txt.length (tokens items).reverse) :
    (unpackLots txt).lotList = (expand items).map lotName ∧ (unpackLots txt).diverged = false := by
  have hlen := h.length_le
  have := lotLoop_refines txt _ txt.length (txt.length + 2) h (by omega) {}
  rw [(unpackLots_eq txt).1, (unpackLots_eq txt).2, this.1, this.2]
  simp only [rl_foldl items]
  simp

#print axioms rlFold_eq_expand
#print axioms rlFoldF_fst
#print axioms nonsequential_iff
#print axioms secLoop_refines
#print axioms pyInt?_pad2
#print axioms unpackSections_expand_of_pad
#print axioms unpackSections_expand
#print axioms lotLoop_refines
#print axioms unpackLots_expand

end PyTRS
