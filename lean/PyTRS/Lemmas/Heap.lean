/-
C15 at heap level (`Model/WorldHeap.lean`): the library never hands out a dict object that the cache or a TRS object
refers to (separation), every such dict holds what `trs_to_dict` computes (coherence); hence whatever the caller does
to the dicts he was given, and whatever the cache mode, every read returns what the cache-less computation gives.
A negative control shows that the model CAN express the defect: a leaky public conversion lets a caller write change a read.
-/
import PyTRS.Model.WorldHeap
import PyTRS.Props.C15
set_option linter.unusedSimpArgs false
set_option linter.unusedVariables false
namespace PyTRS
open PyTRS.WorldHeap PyTRS.TRS

/-! ### lists as finite maps -/

theorem heap_lookup_cons_ne {β : Type} (l : List (Nat × β)) (a k : Nat) (b : β) (h : a ≠ k) :
    ((k, b) :: l).lookup a = l.lookup a := by
  have : (a == k) = false := by simpa using h
  simp [List.lookup_cons, this]

theorem heap_lookup_cons_self {β : Type} (l : List (Nat × β)) (k : Nat) (b : β) :
    ((k, b) :: l).lookup k = some b := by simp

theorem heap_lookup_mem {α β : Type} [BEq α] [LawfulBEq α] (l : List (α × β)) (a : α) (b : β)
    (h : l.lookup a = some b) : (a, b) ∈ l := by
  induction l with
  | nil => simp at h
  | cons e l ih =>
    obtain ⟨k, v⟩ := e
    rw [List.lookup_cons] at h
    by_cases hk : (a == k) = true
    · simp only [hk] at h
      have : a = k := by simpa using hk
      cases h; subst this; exact List.mem_cons_self
    · have hk' : (a == k) = false := by simpa using hk
      simp only [hk'] at h
      exact List.mem_cons_of_mem _ (ih h)

theorem heap_lookup_writeCell (h : List (Ref × TrsDict)) (r r' : Ref) (d : TrsDict) :
    (writeCell h r d).lookup r' = if r' = r then (h.lookup r').map (fun _ => d) else h.lookup r' := by
  induction h with
  | nil => simp [writeCell]
  | cons e h ih =>
    obtain ⟨k, v⟩ := e
    unfold writeCell at ih ⊢
    simp only [List.map_cons]
    by_cases hk : k = r
    · subst hk
      simp only [beq_self_eq_true, if_true]
      by_cases hr : r' = k
      · subst hr; simp
      · rw [heap_lookup_cons_ne _ _ _ _ hr, heap_lookup_cons_ne _ _ _ _ hr, ih]
    · have hk' : (k == r) = false := by simpa using hk
      simp only [hk']
      by_cases hr : r' = k
      · subst hr
        simp [hk]
      · simp only [Bool.false_eq_true, if_false]
        rw [heap_lookup_cons_ne _ _ _ _ hr, heap_lookup_cons_ne _ _ _ _ hr, ih]

/-! ### the invariant -/

theorem C15_heap_inv_init : Inv {} := by
  refine ⟨⟨?_, ?_⟩, ⟨?_, ?_⟩, ?_, ?_, ?_⟩ <;> intro e he <;> simp at he

theorem heap_deref_alloc (w : HWorld) (d : TrsDict) (r : Ref) :
    deref (alloc w d).1 r = if r = w.next then some d else deref w r := by
  unfold deref alloc
  by_cases h : r = w.next
  · subst h; simp
  · simp only [h, if_false]; exact heap_lookup_cons_ne _ _ _ _ h

/-- FRAME: a step that leaves cache, objects and hand-outs alone, does not lower the counter and does not touch
    any cell that is in use and not held by the caller, preserves the invariant -/
theorem heap_inv_frame (w w' : HWorld) (h : Inv w) (hc : w'.cache = w.cache) (ho : w'.objs = w.objs)
    (hh : w'.handedOut = w.handedOut) (hn : w.next ≤ w'.next)
    (hd : ∀ r, r < w.next → r ∉ w.handedOut → deref w' r = deref w r) : Inv w' := by
  obtain ⟨⟨s1, s2⟩, ⟨c1, c2⟩, b1, b2, b3⟩ := h
  refine ⟨⟨?_, ?_⟩, ⟨?_, ?_⟩, ?_, ?_, ?_⟩
  · rw [hc, hh]; exact s1
  · rw [ho, hh]; exact s2
  · rw [hc]; intro e he; rw [hd _ (b2 e he) (s1 e he)]; exact c1 e he
  · rw [ho]; intro e he; rw [hd _ (b3 e he) (s2 e he)]; exact c2 e he
  · rw [hh]; intro r hr; exact Nat.lt_of_lt_of_le (b1 r hr) hn
  · rw [hc]; intro e he; exact Nat.lt_of_lt_of_le (b2 e he) hn
  · rw [ho]; intro e he; exact Nat.lt_of_lt_of_le (b3 e he) hn

theorem heap_inv_alloc (w : HWorld) (d : TrsDict) (h : Inv w) : Inv (alloc w d).1 := by
  refine heap_inv_frame w (alloc w d).1 h rfl rfl rfl (Nat.le_succ _) ?_
  intro r hr _
  rw [heap_deref_alloc]
  simp [Nat.ne_of_lt hr]

theorem heap_inv_cache_insert (w : HWorld) (k : Key) (r : Ref) (h : Inv w) (hr : r < w.next) (hs : r ∉ w.handedOut)
    (hd : deref w r = some (trsToDict k)) : Inv { w with cache := (k, r) :: w.cache } := by
  obtain ⟨⟨s1, s2⟩, ⟨c1, c2⟩, b1, b2, b3⟩ := h
  refine ⟨⟨?_, s2⟩, ⟨?_, c2⟩, b1, ?_, b3⟩
  · intro e he
    rcases List.mem_cons.mp he with rfl | he
    · exact hs
    · exact s1 e he
  · intro e he
    rcases List.mem_cons.mp he with rfl | he
    · exact hd
    · exact c1 e he
  · intro e he
    rcases List.mem_cons.mp he with rfl | he
    · exact hr
    · exact b2 e he

theorem heap_inv_cache_clear (w : HWorld) (h : Inv w) : Inv { w with cache := [] } := by
  obtain ⟨⟨s1, s2⟩, ⟨c1, c2⟩, b1, b2, b3⟩ := h
  refine ⟨⟨?_, s2⟩, ⟨?_, c2⟩, b1, ?_, b3⟩ <;> intro e he <;> simp at he

theorem heap_inv_putObj (w : HWorld) (id : Nat) (k : Key) (r : Ref) (h : Inv w) (hr : r < w.next) (hs : r ∉ w.handedOut)
    (hd : deref w r = some (trsToDict k)) : Inv (putObj w id { ref := r, src := k }) := by
  obtain ⟨⟨s1, s2⟩, ⟨c1, c2⟩, b1, b2, b3⟩ := h
  refine ⟨⟨s1, ?_⟩, ⟨c1, ?_⟩, b1, b2, ?_⟩
  · intro e he
    rcases List.mem_cons.mp he with rfl | he
    · exact hs
    · exact s2 e (List.mem_filter.mp he).1
  · intro e he
    rcases List.mem_cons.mp he with rfl | he
    · exact hd
    · exact c2 e (List.mem_filter.mp he).1
  · intro e he
    rcases List.mem_cons.mp he with rfl | he
    · exact hr
    · exact b3 e (List.mem_filter.mp he).1

/-- handing out a reference that neither the cache nor any object uses -/
theorem heap_inv_hand (w : HWorld) (r : Ref) (h : Inv w) (hr : r < w.next) (hc : ∀ e ∈ w.cache, e.2 ≠ r)
    (ho : ∀ e ∈ w.objs, e.2.ref ≠ r) : Inv { w with handedOut := r :: w.handedOut } := by
  obtain ⟨⟨s1, s2⟩, ⟨c1, c2⟩, b1, b2, b3⟩ := h
  refine ⟨⟨?_, ?_⟩, ⟨c1, c2⟩, ?_, b2, b3⟩
  · intro e he hm
    rcases List.mem_cons.mp hm with h1 | h1
    · exact hc e he h1
    · exact s1 e he h1
  · intro e he hm
    rcases List.mem_cons.mp hm with h1 | h1
    · exact ho e he h1
    · exact s2 e he h1
  · intro x hx
    rcases List.mem_cons.mp hx with rfl | h1
    · exact hr
    · exact b1 x h1

theorem heap_inv_handOut (w : HWorld) (d : TrsDict) (h : Inv w) : Inv (handOut w d).1 := by
  have ha := heap_inv_alloc w d h
  obtain ⟨_, _, b1, b2, b3⟩ := h
  exact heap_inv_hand (alloc w d).1 w.next ha (Nat.lt_succ_self _)
    (fun e he => Nat.ne_of_lt (b2 e he)) (fun e he => Nat.ne_of_lt (b3 e he))

/-- the caller overwrites a dict he holds -/
theorem heap_inv_write (w : HWorld) (r : Ref) (d : TrsDict) (h : Inv w) (hr : r ∈ w.handedOut) :
    Inv { w with heap := writeCell w.heap r d } := by
  refine heap_inv_frame w { w with heap := writeCell w.heap r d } h rfl rfl rfl (Nat.le_refl _) ?_
  intro r' _ hn
  have : r' ≠ r := fun e => hn (e ▸ hr)
  show (writeCell w.heap r d).lookup r' = w.heap.lookup r'
  rw [heap_lookup_writeCell]; simp [this]

/-- the `trs` setter's choice of a dict object: private, in range, and holding `trs_to_dict` of the key -/
theorem setterRef_spec (w : HWorld) (k : Key) (h : Inv w) :
    Inv (setterRef w k).1 ∧ (setterRef w k).2 < (setterRef w k).1.next ∧ (setterRef w k).2 ∉ (setterRef w k).1.handedOut
      ∧ deref (setterRef w k).1 (setterRef w k).2 = some (trsToDict k)
      ∧ (setterRef w k).1.objs = w.objs ∧ (setterRef w k).1.handedOut = w.handedOut ∧ (setterRef w k).1.mc = w.mc := by
  unfold setterRef
  cases hl : w.cache.lookup k with
  | some r =>
    have hm := heap_lookup_mem _ _ _ hl
    have h0 := h
    obtain ⟨⟨s1, _⟩, ⟨c1, _⟩, _, b2, _⟩ := h
    exact ⟨h0, b2 _ hm, s1 _ hm, c1 _ hm, rfl, rfl, rfl⟩
  | none =>
    have ha := heap_inv_alloc w (trsToDict k) h
    have hb1 : ∀ r ∈ w.handedOut, r < w.next := h.2.2.1
    have hfresh : w.next ∉ w.handedOut := fun hm => Nat.lt_irrefl _ (hb1 _ hm)
    have hd : deref (alloc w (trsToDict k)).1 w.next = some (trsToDict k) := by rw [heap_deref_alloc]; simp
    simp only [cacheTrsToDict]
    by_cases hu : w.useCache = true
    · simp only [hu, if_true]
      exact ⟨heap_inv_cache_insert _ k w.next ha (Nat.lt_succ_self _) hfresh hd, Nat.lt_succ_self _, hfresh, hd, rfl, rfl, rfl⟩
    · simp only [hu]
      exact ⟨ha, Nat.lt_succ_self _, hfresh, hd, rfl, rfl, rfl⟩

theorem heap_inv_assign (w : HWorld) (id : Nat) (k : Key) (h : Inv w) : Inv (assign w id k) := by
  obtain ⟨h1, h2, h3, h4, _⟩ := setterRef_spec w k h
  exact heap_inv_putObj _ id k _ h1 h2 h3 h4

theorem heap_inv_construct (w : HWorld) (id : Nat) (k : Key) (h : Inv w) : Inv (construct w id k) := heap_inv_assign _ _ _ h

/-- `Inv` is preserved by EVERY operation of the library — including the caller overwriting any dict he was given -/
theorem C15_heap_inv_step (w : HWorld) (op : HOp) (h : Inv w) : Inv (step w op).1 := by
  have hflag : ∀ (w' : HWorld), w'.cache = w.cache → w'.objs = w.objs → w'.handedOut = w.handedOut → w'.next = w.next →
      w'.heap = w.heap → Inv w' := fun w' a b c d e =>
    heap_inv_frame w w' h a b c (Nat.le_of_eq d.symm) (fun r _ _ => by unfold deref; rw [e])
  cases op <;> simp only [step, stepG]
  case setMC => exact hflag _ rfl rfl rfl rfl rfl
  case cacheOn => exact hflag _ rfl rfl rfl rfl rfl
  case cacheClear => exact heap_inv_cache_clear w h
  case newTRS => exact heap_inv_construct _ _ _ h
  case setTrs => split; exact h; exact heap_inv_assign _ _ _ h
  case newTRSFrom => split; exact h; split; exact h; exact heap_inv_construct _ _ _ h
  case fromTwprgesec => split; exact h; exact heap_inv_construct _ _ _ h
  case setTwprgesec => split; exact h; split; exact h; exact heap_inv_assign _ _ _ h
  case toDict => exact heap_inv_handOut _ _ h
  case toDictObj => split; exact h; split; exact h; simp only [Bool.false_eq_true, if_false]; exact heap_inv_handOut _ _ h
  case read => split; exact h; split <;> exact h
  case sameDict => split <;> exact h
  case callerWrites r d =>
    by_cases hr : w.handedOut.contains r = true
    · simp only [hr, if_true]; exact heap_inv_write w r d h (by simpa using hr)
    · simp only [hr]; exact h
  case callerReads => split <;> exact h

/-- … hence it holds after every history -/
theorem C15_heap_inv_run (ops : List HOp) : ∀ (w : HWorld), Inv w → Inv (run w ops).1 := by
  induction ops with
  | nil => intro w h; exact h
  | cons op rest ih => intro w h; exact ih _ (C15_heap_inv_step w op h)

/-- after any history from the initial world: separation (no dict the caller holds is the cache's or an object's) … -/
theorem C15_heap_sep_run (ops : List HOp) : Sep (run {} ops).1 := (C15_heap_inv_run ops {} C15_heap_inv_init).1

/-- … and coherence (every cached dict and every object's dict holds what `trs_to_dict` computes) -/
theorem C15_heap_coherent_run (ops : List HOp) : Coherent (run {} ops).1 := (C15_heap_inv_run ops {} C15_heap_inv_init).2.1

/-! ### reads are fresh; refinement of the cache-less, heap-less reference -/

theorem setterRef_frame (w : HWorld) (k : Key) :
    (setterRef w k).1.objs = w.objs ∧ (setterRef w k).1.handedOut = w.handedOut ∧ (setterRef w k).1.mc = w.mc := by
  unfold setterRef
  split
  · exact ⟨rfl, rfl, rfl⟩
  · simp only [cacheTrsToDict]
    split <;> exact ⟨rfl, rfl, rfl⟩

theorem heap_obj_coherent (w : HWorld) (h : Inv w) (id : Nat) (o : HObj) (hg : getObj w id = some o) :
    deref w o.ref = some (trsToDict o.src) :=
  h.2.1.2 (id, o) (heap_lookup_mem _ _ _ hg)

/-- the value-level view of a reachable heap: every object's dict is `trs_to_dict` of the string it was set from -/
theorem heap_view_eq (w : HWorld) (h : Inv w) (id : Nat) : view w id = (getObj w id).map (fun o => trsToDict o.src) := by
  unfold view
  cases hg : getObj w id with
  | none => rfl
  | some o => simp [heap_obj_coherent w h id o hg]

theorem absSpec_get (w : HWorld) (id : Nat) : (absSpec w).get id = (getObj w id).map (·.src) := by
  unfold absSpec Spec.get getObj
  simp only
  induction w.objs with
  | nil => rfl
  | cons e l ih =>
    obtain ⟨k, v⟩ := e
    simp only [List.map_cons, List.lookup_cons]
    cases id == k <;> simp [ih]

theorem absSpec_putObj (w : HWorld) (id : Nat) (o : HObj) : absSpec (putObj w id o) = (absSpec w).put id o.src := by
  unfold absSpec putObj Spec.put
  simp only [List.map_cons, List.filter_map]
  rfl

theorem absSpec_assign (w : HWorld) (id : Nat) (k : Key) : absSpec (assign w id k) = (absSpec w).put id k := by
  unfold assign
  rw [absSpec_putObj]
  obtain ⟨h1, _, h3⟩ := setterRef_frame w k
  unfold absSpec
  rw [h1, h3]

theorem absSpec_construct (w : HWorld) (id : Nat) (k : Key) :
    absSpec (construct w id k) = (absSpec w).put id (some (normIn k)) := absSpec_assign _ _ _

/-- ONE STEP of the heap machine, seen through the abstraction, is one step of the reference; the answers agree up to
    the identity of the dict handed to the caller.  (For cache control, caller operations and identity observations
    the reference does nothing.) -/
theorem heap_step_refines (w : HWorld) (op : HOp) (h : Inv w) :
    absSpec (step w op).1 = ((absSpec w).step op).1 ∧
    (op.isLib = true → (step w op).2.strip = ((absSpec w).step op).2) := by
  cases op with
  | setMC ns ew => exact ⟨rfl, fun _ => rfl⟩
  | cacheOn b => exact ⟨rfl, fun hl => by cases hl⟩
  | cacheClear => exact ⟨rfl, fun hl => by cases hl⟩
  | newTRS id trs => exact ⟨absSpec_construct _ _ _, fun _ => rfl⟩
  | setTrs id trs =>
    simp only [step, stepG, Spec.step, absSpec_get]
    cases hg : getObj w id with
    | none => exact ⟨rfl, fun _ => rfl⟩
    | some o => exact ⟨absSpec_assign _ _ _, fun _ => rfl⟩
  | newTRSFrom id src =>
    simp only [step, stepG, Spec.step, absSpec_get]
    cases hg : getObj w src with
    | none => exact ⟨rfl, fun _ => rfl⟩
    | some o =>
      simp only [heap_obj_coherent w h src o hg, Option.map_some]
      exact ⟨absSpec_construct _ _ _, fun _ => rfl⟩
  | fromTwprgesec id twp rge sec ns ew ocr =>
    simp only [step, stepG, Spec.step]
    have hmc : (absSpec w).mc = w.mc := rfl
    rw [hmc]
    cases constructTrs twp rge sec (ns.getD w.mc.ns) (ew.getD w.mc.ew) ocr with
    | error e => exact ⟨rfl, fun _ => rfl⟩
    | ok t => exact ⟨absSpec_construct _ _ _, fun _ => rfl⟩
  | setTwprgesec id twp rge sec ns ew ocr =>
    simp only [step, stepG, Spec.step, absSpec_get]
    have hmc : (absSpec w).mc = w.mc := rfl
    rw [hmc]
    cases hg : getObj w id with
    | none => exact ⟨rfl, fun _ => rfl⟩
    | some o =>
      simp only [Option.map_some]
      cases constructTrs twp rge sec (ns.getD w.mc.ns) (ew.getD w.mc.ew) ocr with
      | error e => exact ⟨rfl, fun _ => rfl⟩
      | ok t => exact ⟨absSpec_assign _ _ _, fun _ => rfl⟩
  | toDict trs => exact ⟨rfl, fun _ => rfl⟩
  | toDictObj id =>
    simp only [step, stepG, Spec.step, absSpec_get]
    cases hg : getObj w id with
    | none => exact ⟨rfl, fun _ => rfl⟩
    | some o =>
      simp only [heap_obj_coherent w h id o hg, Option.map_some, Bool.false_eq_true, if_false]
      exact ⟨rfl, fun _ => rfl⟩
  | read id =>
    simp only [step, stepG, Spec.step, absSpec_get]
    cases hg : getObj w id with
    | none => exact ⟨rfl, fun _ => rfl⟩
    | some o =>
      simp only [heap_obj_coherent w h id o hg, Option.map_some]
      exact ⟨trivial, fun _ => rfl⟩
  | sameDict a b =>
    refine ⟨?_, fun hl => by cases hl⟩
    simp only [step, stepG, Spec.step]
    split <;> rfl
  | callerWrites r d =>
    refine ⟨?_, fun hl => by cases hl⟩
    simp only [step, stepG, Spec.step]
    split <;> rfl
  | callerReads r =>
    refine ⟨?_, fun hl => by cases hl⟩
    simp only [step, stepG, Spec.step]
    split <;> rfl

theorem heap_spec_step_nonlib (s : Spec) (op : HOp) (h : op.isLib = false) : (s.step op).1 = s := by
  cases op <;> first | rfl | cases h

theorem heap_run_refines (ops : List HOp) : ∀ (w : HWorld), Inv w →
    libVals ops (run w ops).2 = (Spec.run (absSpec w) (libProj ops)).2 ∧
    absSpec (run w ops).1 = (Spec.run (absSpec w) (libProj ops)).1 := by
  induction ops with
  | nil => intro w _; exact ⟨rfl, rfl⟩
  | cons op rest ih =>
    intro w h
    obtain ⟨hs, ho⟩ := heap_step_refines w op h
    obtain ⟨ih1, ih2⟩ := ih (step w op).1 (C15_heap_inv_step w op h)
    have hrun : run w (op :: rest) = ((run (step w op).1 rest).1, (step w op).2 :: (run (step w op).1 rest).2) := rfl
    rw [hrun]
    by_cases hl : op.isLib = true
    · have hp : libProj (op :: rest) = op :: libProj rest := by simp [libProj, List.filter_cons, hl]
      rw [hp]
      simp only [libVals, outsWhere, hl, if_true, List.map_cons, Spec.run]
      rw [ho hl, ← hs]
      exact ⟨by rw [← ih1]; rfl, ih2⟩
    · have hl' : op.isLib = false := by simpa using hl
      have hp : libProj (op :: rest) = libProj rest := by simp [libProj, List.filter_cons, hl']
      rw [hp]
      simp only [libVals, outsWhere, hl', Bool.false_eq_true, if_false]
      rw [heap_spec_step_nonlib _ _ hl'] at hs
      rw [← hs]
      exact ⟨ih1, ih2⟩

/-- REFINEMENT.  After ANY history — cache switched on, off, cleared anywhere, the caller overwriting the dicts he was
    given anywhere — the library operations answer exactly what the reference machine (no cache, no heap, every dict
    computed afresh by `trs_to_dict`) answers on the library part of the history. -/
theorem C15_heap_refines_spec (ops : List HOp) :
    libVals ops (run {} ops).2 = (Spec.run {} (libProj ops)).2 :=
  (heap_run_refines ops {} C15_heap_inv_init).1

/-- The abstraction function (object ↦ value of its dict) after any history: `trs_to_dict` of the string the reference
    machine recorded for the object. -/
theorem C15_heap_view_is_spec (ops : List HOp) (id : Nat) :
    view (run {} ops).1 id = ((Spec.run {} (libProj ops)).1.get id).map trsToDict := by
  have h := C15_heap_inv_run ops {} C15_heap_inv_init
  have h2 : absSpec (run {} ops).1 = (Spec.run {} (libProj ops)).1 := (heap_run_refines ops {} C15_heap_inv_init).2
  rw [heap_view_eq _ h, ← h2, absSpec_get]
  cases getObj (run {} ops).1 id <;> rfl

/-- READS ARE FRESH.  After any history (arbitrary caller writes interleaved, any cache mode) reading a live object
    returns `trs_to_dict` of the string the object was set from — what the cache-less computation gives. -/
theorem C15_heap_reads_are_fresh (ops : List HOp) (id : Nat) (o : HObj) (hg : getObj (run {} ops).1 id = some o) :
    (step (run {} ops).1 (.read id)).2 = .dict (trsToDict o.src) ∧ deref (run {} ops).1 o.ref = some (trsToDict o.src) := by
  have h := C15_heap_inv_run ops {} C15_heap_inv_init
  have hd := heap_obj_coherent _ h id o hg
  refine ⟨?_, hd⟩
  simp only [step, stepG, hg, hd]

/-- the same for the public conversion of an object -/
theorem C15_heap_toDictObj_fresh (ops : List HOp) (id : Nat) (o : HObj) (hg : getObj (run {} ops).1 id = some o) :
    (step (run {} ops).1 (.toDictObj id)).2.strip = .dict (trsToDict (some (trsToDict o.src).trs)) := by
  have h := C15_heap_inv_run ops {} C15_heap_inv_init
  have hd := heap_obj_coherent _ h id o hg
  simp only [step, stepG, hg, hd, Bool.false_eq_true, if_false, handOut, HOut.strip]

/-- CACHE MODES AGREE (and caller writes are harmless), value form.  Two histories with the same library part —
    they may differ in where the cache is switched on/off/cleared and in what the caller does to his dicts — give the
    same answers to all library operations and leave every object with the same dict value. -/
theorem C15_cache_modes_agree_heap (ops ops' : List HOp) (h : libProj ops = libProj ops') :
    libVals ops (run {} ops).2 = libVals ops' (run {} ops').2 ∧
    ∀ id, view (run {} ops).1 id = view (run {} ops').1 id := by
  refine ⟨?_, fun id => ?_⟩
  · rw [C15_heap_refines_spec, C15_heap_refines_spec, h]
  · rw [C15_heap_view_is_spec, C15_heap_view_is_spec, h]

/-! ### caller writes are harmless — exact form (identities of dicts and aliasing observations included) -/

/-- two heap worlds that agree on everything except the CONTENT of the dicts the caller holds -/
def SameButCallerDicts (w w' : HWorld) : Prop :=
  w.mc = w'.mc ∧ w.useCache = w'.useCache ∧ w.next = w'.next ∧ w.cache = w'.cache ∧ w.objs = w'.objs ∧
  w.handedOut = w'.handedOut ∧ ∀ r, r ∉ w.handedOut → deref w r = deref w' r

theorem heap_sameBut_refl (w : HWorld) : SameButCallerDicts w w := ⟨rfl, rfl, rfl, rfl, rfl, rfl, fun _ _ => rfl⟩

theorem heap_sameBut_symm (w w' : HWorld) (h : SameButCallerDicts w w') : SameButCallerDicts w' w := by
  obtain ⟨a, b, c, d, e, f, g⟩ := h
  exact ⟨a.symm, b.symm, c.symm, d.symm, e.symm, f.symm, fun r hr => (g r (f ▸ hr)).symm⟩

theorem heap_sameBut_trans (a b c : HWorld) (h1 : SameButCallerDicts a b) (h2 : SameButCallerDicts b c) : SameButCallerDicts a c := by
  obtain ⟨a1, a2, a3, a4, a5, a6, a7⟩ := h1
  obtain ⟨b1, b2, b3, b4, b5, b6, b7⟩ := h2
  exact ⟨a1.trans b1, a2.trans b2, a3.trans b3, a4.trans b4, a5.trans b5, a6.trans b6,
    fun r hr => (a7 r hr).trans (b7 r (a6 ▸ hr))⟩

theorem heap_alloc_sim (w w' : HWorld) (d : TrsDict) (hs : SameButCallerDicts w w') :
    SameButCallerDicts (alloc w d).1 (alloc w' d).1 := by
  obtain ⟨a1, a2, a3, a4, a5, a6, a7⟩ := hs
  refine ⟨a1, a2, by simp [alloc, a3], a4, a5, a6, fun r hr => ?_⟩
  rw [heap_deref_alloc, heap_deref_alloc, a3]
  split
  · rfl
  · exact a7 r hr

theorem heap_setterRef_sim (w w' : HWorld) (k : Key) (hs : SameButCallerDicts w w') :
    (setterRef w k).2 = (setterRef w' k).2 ∧ SameButCallerDicts (setterRef w k).1 (setterRef w' k).1 := by
  have ha := heap_alloc_sim w w' (trsToDict k) hs
  obtain ⟨a1, a2, a3, a4, a5, a6, a7⟩ := hs
  unfold setterRef
  rw [← a4]
  cases w.cache.lookup k with
  | some r => exact ⟨rfl, a1, a2, a3, a4, a5, a6, a7⟩
  | none =>
    simp only [cacheTrsToDict]
    rw [← a2, ← a3]
    refine ⟨rfl, ?_⟩
    obtain ⟨b1, b2, b3, b4, b5, b6, b7⟩ := ha
    cases w.useCache with
    | false => exact ⟨b1, b2, b3, b4, b5, b6, b7⟩
    | true =>
      simp only [if_true]
      refine ⟨b1, b2, b3, ?_, b5, b6, b7⟩
      show (k, w.next) :: (alloc w (trsToDict k)).1.cache = (k, w.next) :: (alloc w' (trsToDict k)).1.cache
      rw [b4]

theorem heap_putObj_sim (w w' : HWorld) (id : Nat) (o : HObj) (hs : SameButCallerDicts w w') :
    SameButCallerDicts (putObj w id o) (putObj w' id o) := by
  obtain ⟨a1, a2, a3, a4, a5, a6, a7⟩ := hs
  refine ⟨a1, a2, a3, a4, ?_, a6, a7⟩
  show (id, o) :: w.objs.filter _ = (id, o) :: w'.objs.filter _
  rw [a5]

theorem heap_assign_sim (w w' : HWorld) (id : Nat) (k : Key) (hs : SameButCallerDicts w w') :
    SameButCallerDicts (assign w id k) (assign w' id k) := by
  obtain ⟨h1, h2⟩ := heap_setterRef_sim w w' k hs
  show SameButCallerDicts (putObj (setterRef w k).1 id { ref := (setterRef w k).2, src := k })
    (putObj (setterRef w' k).1 id { ref := (setterRef w' k).2, src := k })
  rw [h1]
  exact heap_putObj_sim _ _ _ _ h2

theorem heap_handOut_sim (w w' : HWorld) (d : TrsDict) (hs : SameButCallerDicts w w') :
    (handOut w d).2 = (handOut w' d).2 ∧ SameButCallerDicts (handOut w d).1 (handOut w' d).1 := by
  have ha := heap_alloc_sim w w' d hs
  obtain ⟨a1, a2, a3, a4, a5, a6, a7⟩ := hs
  obtain ⟨b1, b2, b3, b4, b5, b6, b7⟩ := ha
  unfold handOut
  rw [← a3]
  refine ⟨rfl, b1, b2, b3, b4, b5, ?_, fun r hr => ?_⟩
  · show w.next :: (alloc w d).1.handedOut = w.next :: (alloc w' d).1.handedOut
    rw [b6]
  · exact b7 r (fun hm => hr (List.mem_cons_of_mem _ hm))

/-- a library / control / observation step cannot tell the two worlds apart -/
theorem heap_step_sim (w w' : HWorld) (op : HOp) (hs : SameButCallerDicts w w') (h : Inv w) (hc : op.isCaller = false) :
    (step w op).2 = (step w' op).2 ∧ SameButCallerDicts (step w op).1 (step w' op).1 := by
  have hs0 := hs
  obtain ⟨a1, a2, a3, a4, a5, a6, a7⟩ := hs
  have hget : ∀ id, getObj w' id = getObj w id := fun id => by unfold getObj; rw [a5]
  have hder : ∀ id o, getObj w id = some o → deref w' o.ref = deref w o.ref := fun id o hg =>
    (a7 _ (h.1.2 (id, o) (heap_lookup_mem _ _ _ hg))).symm
  cases op with
  | setMC ns ew => exact ⟨rfl, rfl, a2, a3, a4, a5, a6, a7⟩
  | cacheOn b => exact ⟨rfl, a1, rfl, a3, a4, a5, a6, a7⟩
  | cacheClear => exact ⟨rfl, a1, a2, a3, rfl, a5, a6, a7⟩
  | newTRS id trs => exact ⟨rfl, heap_assign_sim _ _ _ _ hs0⟩
  | setTrs id trs =>
    simp only [step, stepG, hget]
    cases getObj w id with
    | none => exact ⟨rfl, hs0⟩
    | some o => exact ⟨rfl, heap_assign_sim _ _ _ _ hs0⟩
  | newTRSFrom id src =>
    simp only [step, stepG, hget]
    cases hg : getObj w src with
    | none => exact ⟨rfl, hs0⟩
    | some o =>
      simp only [hder src o hg]
      cases deref w o.ref with
      | none => exact ⟨rfl, hs0⟩
      | some d => exact ⟨rfl, heap_assign_sim _ _ _ _ hs0⟩
  | fromTwprgesec id twp rge sec ns ew ocr =>
    simp only [step, stepG, ← a1]
    cases constructTrs twp rge sec (ns.getD w.mc.ns) (ew.getD w.mc.ew) ocr with
    | error e => exact ⟨rfl, hs0⟩
    | ok t => exact ⟨rfl, heap_assign_sim _ _ _ _ hs0⟩
  | setTwprgesec id twp rge sec ns ew ocr =>
    simp only [step, stepG, hget, ← a1]
    cases getObj w id with
    | none => exact ⟨rfl, hs0⟩
    | some o =>
      simp only
      cases constructTrs twp rge sec (ns.getD w.mc.ns) (ew.getD w.mc.ew) ocr with
      | error e => exact ⟨rfl, hs0⟩
      | ok t => exact ⟨rfl, heap_assign_sim _ _ _ _ hs0⟩
  | toDict trs => exact heap_handOut_sim _ _ _ hs0
  | toDictObj id =>
    simp only [step, stepG, hget]
    cases hg : getObj w id with
    | none => exact ⟨rfl, hs0⟩
    | some o =>
      simp only [hder id o hg]
      cases deref w o.ref with
      | none => exact ⟨rfl, hs0⟩
      | some d => simp only [Bool.false_eq_true, if_false]; exact heap_handOut_sim _ _ _ hs0
  | read id =>
    simp only [step, stepG, hget]
    cases hg : getObj w id with
    | none => exact ⟨rfl, hs0⟩
    | some o =>
      simp only [hder id o hg]
      cases deref w o.ref with
      | none => exact ⟨rfl, hs0⟩
      | some d => exact ⟨rfl, hs0⟩
  | sameDict a b =>
    simp only [step, stepG, hget]
    split <;> exact ⟨rfl, hs0⟩
  | callerWrites r d => cases hc
  | callerReads r => cases hc

/-- whatever the caller does with his dicts, the world stays the same up to the content of those dicts -/
theorem heap_step_caller_sim (w : HWorld) (op : HOp) (hc : op.isCaller = true) : SameButCallerDicts (step w op).1 w := by
  cases op with
  | callerWrites r d =>
    simp only [step, stepG]
    by_cases hr : w.handedOut.contains r = true
    · simp only [hr, if_true]
      refine ⟨rfl, rfl, rfl, rfl, rfl, rfl, fun r' hn => ?_⟩
      have hm : r ∈ w.handedOut := by simpa using hr
      have : r' ≠ r := fun e => hn (e ▸ hm)
      show (writeCell w.heap r d).lookup r' = w.heap.lookup r'
      rw [heap_lookup_writeCell]; simp [this]
    · simp only [hr]; exact heap_sameBut_refl w
  | callerReads r =>
    simp only [step, stepG]
    split <;> exact heap_sameBut_refl w
  | _ => cases hc

theorem eraseCaller_eraseWrites (ops : List HOp) : eraseCaller (eraseWrites ops) = eraseCaller ops := by
  unfold eraseCaller eraseWrites
  rw [List.filter_filter]
  apply List.filter_congr
  intro op _
  cases op <;> rfl

theorem heap_run_cons (w : HWorld) (op : HOp) (rest : List HOp) :
    run w (op :: rest) = ((run (step w op).1 rest).1, (step w op).2 :: (run (step w op).1 rest).2) := rfl

theorem heap_run_sim (ops : List HOp) : ∀ (w w' : HWorld), SameButCallerDicts w w' → Inv w → Inv w' →
    outsWhere notCaller ops (run w ops).2 = (run w' (eraseCaller ops)).2 ∧
    SameButCallerDicts (run w ops).1 (run w' (eraseCaller ops)).1 := by
  induction ops with
  | nil => intro w w' hs _ _; exact ⟨rfl, hs⟩
  | cons op rest ih =>
    intro w w' hs h h'
    rw [heap_run_cons]
    by_cases hc : op.isCaller = true
    · have hn : notCaller op = false := by simp [notCaller, hc]
      have he : eraseCaller (op :: rest) = eraseCaller rest := by simp [eraseCaller, List.filter_cons, hn]
      rw [he]
      simp only [outsWhere, hn, Bool.false_eq_true, if_false]
      exact ih _ _ (heap_sameBut_trans _ _ _ (heap_step_caller_sim w op hc) hs) (C15_heap_inv_step w op h) h'
    · have hc' : op.isCaller = false := by simpa using hc
      have hn : notCaller op = true := by simp [notCaller, hc']
      have he : eraseCaller (op :: rest) = op :: eraseCaller rest := by simp [eraseCaller, List.filter_cons, hn]
      rw [he, heap_run_cons]
      simp only [outsWhere, hn, if_true]
      obtain ⟨ho, hs'⟩ := heap_step_sim w w' op hs h hc'
      obtain ⟨i1, i2⟩ := ih _ _ hs' (C15_heap_inv_step w op h) (C15_heap_inv_step w' op h')
      exact ⟨by rw [ho, i1], i2⟩

/-- CALLER WRITES ARE HARMLESS, exact form.  All answers that are not the caller's own business (library operations,
    cache control, and the aliasing observations `sameDict`; identities of handed-out dicts included) are EXACTLY those
    of the history from which everything the caller does to his dicts has been erased. -/
theorem C15_caller_ops_erasable (ops : List HOp) :
    outsWhere notCaller ops (run {} ops).2 = (run {} (eraseCaller ops)).2 ∧
    SameButCallerDicts (run {} ops).1 (run {} (eraseCaller ops)).1 :=
  heap_run_sim ops {} {} (heap_sameBut_refl _) C15_heap_inv_init C15_heap_inv_init

/-- Erasing all `callerWrites` operations from a history changes no answer (other than what the caller reads back
    from his own dicts) and no later read or other operation. -/
theorem C15_caller_writes_harmless (ops : List HOp) :
    outsWhere notCaller ops (run {} ops).2 = outsWhere notCaller (eraseWrites ops) (run {} (eraseWrites ops)).2 ∧
    ∀ op : HOp, op.isCaller = false →
      (step (run {} ops).1 op).2 = (step (run {} (eraseWrites ops)).1 op).2 := by
  obtain ⟨h1, s1⟩ := C15_caller_ops_erasable ops
  obtain ⟨h2, s2⟩ := C15_caller_ops_erasable (eraseWrites ops)
  rw [eraseCaller_eraseWrites] at h2 s2
  refine ⟨by rw [h1, h2], fun op hc => ?_⟩
  exact (heap_step_sim _ _ op (heap_sameBut_trans _ _ _ s1 (heap_sameBut_symm _ _ s2))
    (C15_heap_inv_run ops {} C15_heap_inv_init) hc).1

/-- more generally: two histories that differ only in what the caller does to his dicts (other writes, more, fewer) -/
theorem C15_caller_writes_irrelevant (ops ops' : List HOp) (h : eraseCaller ops = eraseCaller ops') :
    outsWhere notCaller ops (run {} ops).2 = outsWhere notCaller ops' (run {} ops').2 := by
  rw [(C15_caller_ops_erasable ops).1, (C15_caller_ops_erasable ops').1, h]

/-! ### link to the value-level `World` -/

/-- the cache of a reachable heap world, read as a value-level cache, satisfies the value-level cache invariant … -/
theorem C15_heap_abs_cache_ok (w : HWorld) (h : Inv w) : World.CacheOK (absWorld w) := by
  intro e he
  simp only [absWorld, List.mem_filterMap] at he
  obtain ⟨x, hx, hm⟩ := he
  rw [h.2.1.1 x hx] at hm
  simp only [Option.map_some, Option.some.injEq] at hm
  subst hm
  exact (C15_trsToDict_normIn x.1).symm

theorem getObj_putObj_self (w : HWorld) (id : Nat) (o : HObj) : getObj (putObj w id o) id = some o := by
  simp [getObj, putObj]

theorem heap_lookup_filter_ne {β : Type} (l : List (Nat × β)) (id id' : Nat) (h : id' ≠ id) :
    (l.filter (fun e => e.1 != id)).lookup id' = l.lookup id' := by
  induction l with
  | nil => rfl
  | cons e l ih =>
    obtain ⟨k, v⟩ := e
    by_cases hk : k = id
    · subst hk
      have : ((k, v).1 != k) = false := by simp
      rw [List.filter_cons, this]
      simp only [Bool.false_eq_true, if_false]
      rw [ih, heap_lookup_cons_ne _ _ _ _ h]
    · have : ((k, v).1 != id) = true := by simpa using hk
      rw [List.filter_cons, this]
      simp only [if_true, List.lookup_cons]
      rw [ih]

theorem getObj_putObj_ne (w : HWorld) (id id' : Nat) (o : HObj) (h : id' ≠ id) :
    getObj (putObj w id o) id' = getObj w id' := by
  unfold getObj putObj
  simp only
  rw [heap_lookup_cons_ne _ _ _ _ h, heap_lookup_filter_ne _ _ _ h]

/-- … so the value-level look-up is transparent there, and the value-level operation `warm s` (= `TRS(s)`) answers what
    the heap machine's `TRS(s)` followed by a read of the new object answers. -/
theorem C15_heap_agrees_with_value_world (ops : List HOp) (id : Nat) (s : Str) :
    (World.step (absWorld (run {} ops).1) (.warm s)).2 = World.Out.dict (trsToDict (some s)) ∧
    (step (step (run {} ops).1 (.newTRS id (some s))).1 (.read id)).2 = HOut.dict (trsToDict (some s)) := by
  have h := C15_heap_inv_run ops {} C15_heap_inv_init
  constructor
  · simp only [World.step]
    rw [C15_look_transparent _ (C15_heap_abs_cache_ok _ h)]
  · have h1 := C15_heap_inv_step _ (.newTRS id (some s)) h
    have hg : getObj (step (run {} ops).1 (.newTRS id (some s))).1 id
        = some { ref := (setterRef (run {} ops).1 (some (normIn (some s)))).2, src := some (normIn (some s)) } :=
      getObj_putObj_self _ _ _
    have hd := heap_obj_coherent _ h1 id _ hg
    simp only [C15_trsToDict_normIn] at hd
    generalize (step (run {} ops).1 (.newTRS id (some s))).1 = w1 at hg hd
    simp only [step, stepG, hg, hd]

/-! ### the model really aliases: with the cache on, objects built from the same string share ONE dict object -/

theorem setterRef_cached (w : HWorld) (k : Key) (hu : w.useCache = true) :
    (setterRef w k).1.cache.lookup k = some (setterRef w k).2 ∧ (setterRef w k).1.useCache = true := by
  unfold setterRef
  cases hl : w.cache.lookup k with
  | some r => exact ⟨hl, hu⟩
  | none =>
    simp only [cacheTrsToDict, hu, if_true]
    exact ⟨by simp [alloc], hu⟩

theorem setterRef_hit (w : HWorld) (k : Key) (r : Ref) (h : w.cache.lookup k = some r) : setterRef w k = (w, r) := by
  unfold setterRef; rw [h]

theorem C15_heap_aliasing (w : HWorld) (a b : Nat) (k : Key) (hu : w.useCache = true) (hab : a ≠ b) :
    (step (step (step w (.newTRS a k)).1 (.newTRS b k)).1 (.sameDict a b)).2 = .bool true := by
  obtain ⟨hc, _⟩ := setterRef_cached w (some (normIn k)) hu
  let r := (setterRef w (some (normIn k))).2
  let w1 := assign w a (some (normIn k))
  have hw1 : (step w (.newTRS a k)).1 = w1 := rfl
  have hc1 : w1.cache.lookup (some (normIn k)) = some r := hc
  have hga : getObj w1 a = some { ref := r, src := some (normIn k) } := getObj_putObj_self _ _ _
  have hs2 : setterRef w1 (some (normIn k)) = (w1, r) := setterRef_hit _ _ _ hc1
  let w2 := putObj w1 b { ref := r, src := some (normIn k) }
  have hw2 : (step w1 (.newTRS b k)).1 = w2 := by
    show putObj (setterRef w1 (some (normIn k))).1 b { ref := (setterRef w1 (some (normIn k))).2, src := some (normIn k) } = w2
    rw [hs2]
  have hgb : getObj w2 b = some { ref := r, src := some (normIn k) } := getObj_putObj_self _ _ _
  have hga2 : getObj w2 a = some { ref := r, src := some (normIn k) } := by
    rw [getObj_putObj_ne _ _ _ _ hab]; exact hga
  rw [hw1, hw2]
  simp only [step, stepG, hga2, hgb, beq_self_eq_true]

/-! ### NEGATIVE CONTROL: a leaky public conversion (`stepG true`) — the model can express the defect -/

/-- what a caller might write into a dict: a different township number and another `trs` string -/
def evilDict : TrsDict := { errDict with trs := S "hacked", twpNum := some 7 }

/-- `a = TRS('154n97w14'); d = trs_to_dict(a); [d.update(..)]; a.twp_num …; b = TRS('154n97w14'); b.twp_num …` -/
def leakHistory : List HOp :=
  [.newTRS 0 (some (S "154n97w14")), .toDictObj 0, .callerWrites 0 evilDict, .read 0,
   .newTRS 1 (some (S "154n97w14")), .read 1]

/-- With the leaky variant the caller's write changes the later reads — of the object itself and, through the cache,
    of an object created afterwards: the statement of `C15_caller_writes_harmless` is FALSE for `stepG true`. -/
theorem C15_leaky_write_changes_reads :
    outsWhere notCaller leakHistory (runG true {} leakHistory).2
      ≠ outsWhere notCaller (eraseWrites leakHistory) (runG true {} (eraseWrites leakHistory)).2
    ∧ (runG true {} leakHistory).2[3]? = some (.dict evilDict)
    ∧ (runG true {} leakHistory).2[5]? = some (.dict evilDict)
    ∧ (runG true {} (eraseWrites leakHistory)).2[2]? = some (.dict (trsToDict (some (S "154n97w14")))) := by
  decide +kernel

/-- the leaky variant breaks separation at once: the dict it hands out is the object's (and the cache's) own -/
theorem C15_leaky_breaks_sep : ¬ Sep (runG true {} [.newTRS 0 (some (S "154n97w14")), .toDictObj 0]).1 := by
  intro h
  exact h.2 (0, { ref := 0, src := some (S "154n97w14") }) (by decide +kernel) (by decide +kernel)

/-- the library itself, on the same history: the caller is given a FRESH dict (1); dict 0 — the object's and the cache's —
    is not his to write; both reads are what `trs_to_dict` gives -/
theorem C15_library_on_leak_history :
    (run {} leakHistory).2[1]? = some (.handed 1 (trsToDict (some (S "154n97w14"))))
    ∧ (run {} leakHistory).2[2]? = some .denied            -- the caller does not hold dict 0 …
    ∧ (run {} leakHistory).2[3]? = some (.dict (trsToDict (some (S "154n97w14"))))
    ∧ (run {} leakHistory).2[5]? = some (.dict (trsToDict (some (S "154n97w14")))) := by
  decide +kernel

/-! ### non-vacuity: a concrete history with cache hits, a clear, accepted and denied caller writes -/

def heapDemo : List HOp := [
  .newTRS 0 (some (S "154n97w14")),      -- 0: miss; dict 0 allocated and cached
  .newTRS 1 (some (S "154n97w14")),      -- 1: hit: object 1 shares dict 0
  .sameDict 0 1,                          -- 2: true
  .toDictObj 0,                           -- 3: fresh dict 1, handed to the caller
  .callerWrites 1 evilDict,               -- 4: accepted
  .callerReads 1,                         -- 5: what he wrote
  .callerWrites 0 evilDict,               -- 6: denied (dict 0 is the shared, cached one)
  .read 0,                                -- 7: unchanged
  .cacheClear,                            -- 8
  .newTRS 2 (some (S "154n97w14")),      -- 9: miss again: dict 2
  .sameDict 0 2,                          -- 10: false
  .read 2,                                -- 11
  .cacheOn false,                         -- 12
  .fromTwprgesec 3 (.int 154) (.str (S "97w")) (.int 14) none none false,   -- 13: a HIT although caching is off
  .sameDict 2 3,                          -- 14: true
  .setTrs 3 (some (S "1n1w01")),          -- 15: miss, not cached
  .newTRS 4 (some (S "1n1w01")),          -- 16: miss, not cached
  .sameDict 3 4,                          -- 17: false
  .toDict none,                           -- 18: dict 5 handed out
  .callerWrites 5 evilDict,               -- 19
  .read 4 ]                               -- 20

/-- the same library operations with the cache off from the start, no caller writes, no observations -/
def heapDemoOff : List HOp := .cacheOn false :: libProj heapDemo

example : (run {} heapDemo).2[2]? = some (.bool true) ∧ (run {} heapDemo).2[4]? = some .none
    ∧ (run {} heapDemo).2[5]? = some (.dict evilDict) ∧ (run {} heapDemo).2[6]? = some .denied
    ∧ (run {} heapDemo).2[10]? = some (.bool false) ∧ (run {} heapDemo).2[14]? = some (.bool true)
    ∧ (run {} heapDemo).2[17]? = some (.bool false) ∧ (run {} heapDemo).2[19]? = some .none
    ∧ (run {} heapDemo).1.handedOut = [5, 1] ∧ (run {} heapDemo).1.next = 6 ∧ (run {} heapDemoOff).1.next = 8 := by
  decide +kernel

-- `Inv` after the heapDemo history (C15_heap_inv_run), and its three parts are not vacuous there
example : Inv (run {} heapDemo).1 := C15_heap_inv_run heapDemo {} C15_heap_inv_init
example : (run {} heapDemo).1.cache.length = 1 ∧ (run {} heapDemo).1.objs.length = 5 ∧ (run {} heapDemo).1.handedOut.length = 2 := by
  decide +kernel

-- C15_heap_reads_are_fresh: object 0 is live, its dict is the shared one the caller tried to overwrite
example : getObj (run {} heapDemo).1 0 = some { ref := 0, src := some (S "154n97w14") } := by decide +kernel
example : (step (run {} heapDemo).1 (.read 0)).2 = .dict (trsToDict (some (S "154n97w14"))) :=
  (C15_heap_reads_are_fresh heapDemo 0 { ref := 0, src := some (S "154n97w14") } (by decide +kernel)).1

-- C15_caller_writes_harmless: the history contains writes (two of them accepted), erasing them shortens it
example : (eraseWrites heapDemo).length + 3 = heapDemo.length := by decide
example : outsWhere notCaller heapDemo (run {} heapDemo).2
    = outsWhere notCaller (eraseWrites heapDemo) (run {} (eraseWrites heapDemo)).2 := (C15_caller_writes_harmless heapDemo).1

-- C15_cache_modes_agree_heap: same library part, different cache modes (and different heaps: 6 vs 8 dicts)
example : libProj heapDemo = libProj heapDemoOff := by rfl
example : libVals heapDemo (run {} heapDemo).2 = libVals heapDemoOff (run {} heapDemoOff).2 :=
  (C15_cache_modes_agree_heap heapDemo heapDemoOff (by rfl)).1
example : (libProj heapDemo).length = 11 := by decide

-- C15_heap_aliasing: hypotheses satisfiable
example : (step (step (step {} (.newTRS 0 none)).1 (.newTRS 1 none)).1 (.sameDict 0 1)).2 = .bool true :=
  C15_heap_aliasing {} 0 1 none rfl (by decide)

#print axioms C15_heap_inv_init
#print axioms C15_heap_inv_step
#print axioms C15_heap_inv_run
#print axioms C15_heap_sep_run
#print axioms C15_heap_coherent_run
#print axioms C15_heap_refines_spec
#print axioms C15_heap_view_is_spec
#print axioms C15_heap_reads_are_fresh
#print axioms C15_heap_toDictObj_fresh
#print axioms C15_cache_modes_agree_heap
#print axioms C15_caller_ops_erasable
#print axioms C15_caller_writes_harmless
#print axioms C15_caller_writes_irrelevant
#print axioms C15_heap_abs_cache_ok
#print axioms C15_heap_agrees_with_value_world
#print axioms C15_heap_aliasing
#print axioms C15_leaky_write_changes_reads
#print axioms C15_leaky_breaks_sep
#print axioms C15_library_on_leak_history

end PyTRS
