/-
G5 — FUEL ADEQUACY for the L0 matcher.  `repLoop` and `finditerAux` in `PyTRS/Rx.lean` are fuel-indexed only to make
them structurally recursive; CPython has no fuel.  This file proves that the fuel supplied in `Rx.lean` is never the
reason a match fails: giving the loops ANY larger amount of fuel changes nothing.

* `repLoop_fuel_succ` / `repLoop_fuel_add`: for a body that calls its continuation only on extensions of its input
  state (`ExtLocal`), once `fuel ≥ repMeasure lo count last s` one more unit of fuel is irrelevant;
* `Rx.mF e` = the matcher with `e` extra units of fuel in every repeat (nested ones and inside look-arounds too);
  `Rx.mF_eq_m : r.mF e s k = r.m s k`;
* `finditerAux_fuel`, `Rx.finditer_fuel_irrelevant`: the same for `finditer`;
* `matchHereF_eq`, `scanF_eq`, `Rx.searchF_eq`, `Rx.finditerF_eq`: the composed search functions.
-/
import PyTRS.Lemmas.RxBounds
namespace PyTRS

/-! ### continuations are only ever called on extensions of the current state -/

/-- `f s k` depends on `k` only through its values on states reached from `s` by consuming input -/
def ExtLocal {R : Type} (f : St → (St → Option R) → Option R) : Prop :=
  ∀ s k1 k2, (∀ s', St.Ext s s' → k1 s' = k2 s') → f s k1 = f s k2

theorem repLoop_succ {R : Type} (body : St → (St → Option R) → Option R) (lo : Nat) (hi : Option Nat)
    (fuel count : Nat) (last : Option Nat) (s : St) (k : St → Option R) :
    repLoop body lo hi (fuel + 1) count last s k =
      if count < lo then
        body s (fun s' => repLoop body lo hi fuel (count+1) last s' k)
      else if canMore hi count && last != some s.pos then
        match body s (fun s' => repLoop body lo hi fuel (count+1) (some s.pos) s' k) with
        | some r => some r
        | none => k s
      else k s := rfl

theorem repLoop_extLocal {R : Type} (body : St → (St → Option R) → Option R) (hb : ExtLocal body)
    (lo : Nat) (hi : Option Nat) :
    ∀ (fuel count : Nat) (last : Option Nat), ExtLocal (repLoop body lo hi fuel count last) := by
  intro fuel
  induction fuel with
  | zero => intro count last s k1 k2 _; rfl
  | succ n ih =>
    intro count last s k1 k2 h
    have e1 : ∀ last', body s (fun s' => repLoop body lo hi n (count+1) last' s' k1)
        = body s (fun s' => repLoop body lo hi n (count+1) last' s' k2) := fun last' =>
      hb s _ _ (fun s' hs' => ih _ _ s' k1 k2 (fun s'' hs'' => h s'' (hs'.trans hs'')))
    rw [repLoop_succ, repLoop_succ, e1 last, e1 (some s.pos), h s (St.Ext.refl s)]

/-- every regex is `ExtLocal`, at every result type -/
theorem Rx.m_extLocal : ∀ (r : Rx) {R : Type}, ExtLocal (r.m (R := R)) := by
  intro r
  induction r with
  | eps => intro R s k1 k2 h; simp only [Rx.m]; exact h s (St.Ext.refl s)
  | fail => intro R s k1 k2 h; simp only [Rx.m]
  | chr cs =>
    intro R s k1 k2 h
    simp only [Rx.m]
    split
    · rename_i c t hrest
      split
      · exact h _ ⟨[c], by simp [hrest], by simp⟩
      · rfl
    · rfl
  | seq a b iha ihb =>
    intro R s k1 k2 h
    simp only [Rx.m]
    exact iha s _ _ (fun s' hs' => ihb s' k1 k2 (fun s'' hs'' => h s'' (hs'.trans hs'')))
  | alt a b iha ihb =>
    intro R s k1 k2 h
    simp only [Rx.m]
    rw [iha s k1 k2 h, ihb s k1 k2 h]
  | rep r lo hi ih =>
    intro R s k1 k2 h
    simp only [Rx.m]
    exact repLoop_extLocal _ ih lo hi _ _ _ s k1 k2 h
  | grp i r ih =>
    intro R s k1 k2 h
    simp only [Rx.m]
    exact ih s _ _ (fun s' hs' => h _ (hs'.caps _))
  | ahead r _ =>
    intro R s k1 k2 h
    simp only [Rx.m]
    split
    · exact h _ ((St.Ext.refl s).caps _)
    · rfl
  | nahead r _ =>
    intro R s k1 k2 h
    simp only [Rx.m]
    split
    · rfl
    · exact h s (St.Ext.refl s)
  | behind cs =>
    intro R s k1 k2 h
    simp only [Rx.m]
    rw [h s (St.Ext.refl s)]
  | wordb w =>
    intro R s k1 k2 h
    simp only [Rx.m]
    rw [h s (St.Ext.refl s)]
  | eos =>
    intro R s k1 k2 h
    simp only [Rx.m]
    rw [h s (St.Ext.refl s)]
  | bos =>
    intro R s k1 k2 h
    simp only [Rx.m]
    rw [h s (St.Ext.refl s)]

/-! ### the greedy loop: fuel beyond the measure is irrelevant -/

/-- `0` if the previous optional iteration started at `pos` (so no further optional iteration may start here) -/
def lastBit (last : Option Nat) (pos : Nat) : Nat := if last = some pos then 0 else 1

theorem lastBit_le (last : Option Nat) (pos : Nat) : lastBit last pos ≤ 1 := by
  unfold lastBit; split <;> omega

theorem lastBit_self (pos : Nat) : lastBit (some pos) pos = 0 := by
  unfold lastBit; simp

theorem lastBit_ne {last : Option Nat} {pos : Nat} (h : last ≠ some pos) : lastBit last pos = 1 := by
  unfold lastBit; simp [h]

/-- the number of `repLoop` calls that can still be stacked on top of each other from this configuration:
remaining characters (every optional iteration but the first starts strictly further right), one possibly empty
optional iteration, the remaining mandatory iterations (each may be empty), and the final call that runs the tail. -/
def repMeasure (lo count : Nat) (last : Option Nat) (s : St) : Nat :=
  s.rest.length + lastBit last s.pos + (lo - count) + 1

theorem repLoop_fuel_succ {R : Type} (body : St → (St → Option R) → Option R) (hb : ExtLocal body)
    (lo : Nat) (hi : Option Nat) :
    ∀ (fuel count : Nat) (last : Option Nat) (s : St) (k : St → Option R),
      fuel ≥ repMeasure lo count last s →
      repLoop body lo hi (fuel + 1) count last s k = repLoop body lo hi fuel count last s k := by
  intro fuel
  induction fuel with
  | zero => intro count last s k h; unfold repMeasure at h; omega
  | succ n ih =>
    intro count last s k h
    unfold repMeasure at h
    rw [repLoop_succ body lo hi (n + 1), repLoop_succ body lo hi n]
    by_cases h1 : count < lo
    · simp only [h1, if_true]
      apply hb
      intro s' hs'
      apply ih
      have hle := hs'.pos_le
      have hbd := hs'.pos_bound
      unfold repMeasure
      by_cases hp : s'.pos = s.pos
      · rw [hp]; omega
      · have := lastBit_le last s'.pos
        omega
    · simp only [h1, if_false]
      by_cases h2 : (canMore hi count && last != some s.pos) = true
      · simp only [h2, if_true]
        have hl : last ≠ some s.pos := by
          simp only [Bool.and_eq_true, bne_iff_ne] at h2
          exact h2.2
        have hl1 := lastBit_ne hl
        have e : body s (fun s' => repLoop body lo hi (n + 1) (count+1) (some s.pos) s' k)
            = body s (fun s' => repLoop body lo hi n (count+1) (some s.pos) s' k) := by
          apply hb
          intro s' hs'
          apply ih
          have hle := hs'.pos_le
          have hbd := hs'.pos_bound
          unfold repMeasure
          by_cases hp : s'.pos = s.pos
          · rw [hp, lastBit_self]; omega
          · have := lastBit_le (some s.pos) s'.pos
            omega
        rw [e]
      · simp only [h2, Bool.false_eq_true, if_false]

theorem repLoop_fuel_add {R : Type} (body : St → (St → Option R) → Option R) (hb : ExtLocal body)
    (lo : Nat) (hi : Option Nat) (fuel count : Nat) (last : Option Nat) (s : St) (k : St → Option R)
    (h : fuel ≥ repMeasure lo count last s) (e : Nat) :
    repLoop body lo hi (fuel + e) count last s k = repLoop body lo hi fuel count last s k := by
  induction e with
  | zero => rfl
  | succ e ih =>
    rw [← Nat.add_assoc, repLoop_fuel_succ body hb lo hi (fuel + e) count last s k (by omega), ih]

/-- the form suggested in the task: from the initial configuration of a repeat the supplied fuel is enough -/
theorem repLoop_fuel_init {R : Type} (body : St → (St → Option R) → Option R) (hb : ExtLocal body)
    (lo : Nat) (hi : Option Nat) (s : St) (k : St → Option R) (e : Nat) :
    repLoop body lo hi (s.rest.length + lo + 2 + e) 0 none s k
      = repLoop body lo hi (s.rest.length + lo + 2) 0 none s k := by
  apply repLoop_fuel_add body hb
  unfold repMeasure
  have := lastBit_le none s.pos
  omega

/-! ### the matcher with extra fuel everywhere -/

/-- the matcher with `e` units of extra fuel in EVERY repeat (also nested ones and inside look-aheads) -/
def Rx.mF (e : Nat) {R : Type} : Rx → St → (St → Option R) → Option R
  | .eps, s, k => k s
  | .fail, _, _ => none
  | .chr cs, s, k =>
    match s.rest with
    | c :: t => if cs.mem c then k { prev := some c, rest := t, pos := s.pos + 1, caps := s.caps } else none
    | [] => none
  | .seq a b, s, k => a.mF e s (fun s' => b.mF e s' k)
  | .alt a b, s, k =>
    match a.mF e s k with
    | some r => some r
    | none => b.mF e s k
  | .rep r lo hi, s, k => repLoop (r.mF e) lo hi (s.rest.length + lo + 2 + e) 0 none s k
  | .grp i r, s, k => r.mF e s (fun s' => k { s' with caps := (i, s.pos, s'.pos) :: s'.caps })
  | .ahead r, s, k =>
    match r.mF e (R := St) s some with
    | some s' => k { s with caps := s'.caps }
    | none => none
  | .nahead r, s, k =>
    match r.mF e (R := St) s some with
    | some _ => none
    | none => k s
  | .behind cs, s, k =>
    match s.prev with
    | some c => if cs.mem c then k s else none
    | none => none
  | .wordb w, s, k =>
    if isWord w s.prev != isWord w s.rest.head? then k s else none
  | .eos, s, k =>
    match s.rest with
    | [] => k s
    | [c] => if c == '\n' then k s else none
    | _ => none
  | .bos, s, k => if s.pos == 0 then k s else none

theorem Rx.mF_eq_m' (e : Nat) : ∀ (r : Rx) {R : Type} (s : St) (k : St → Option R), r.mF e s k = r.m s k := by
  intro r
  induction r with
  | eps => intro R s k; simp only [Rx.mF, Rx.m]
  | fail => intro R s k; simp only [Rx.mF, Rx.m]
  | chr cs => intro R s k; simp only [Rx.mF, Rx.m]; rfl
  | seq a b iha ihb =>
    intro R s k
    simp only [Rx.mF, Rx.m]
    rw [iha]
    have : (fun s' => b.mF e s' k) = (fun s' => b.m s' k) := funext fun s' => ihb s' k
    rw [this]
  | alt a b iha ihb => intro R s k; simp only [Rx.mF, Rx.m]; rw [iha, ihb]; rfl
  | rep r lo hi ih =>
    intro R s k
    simp only [Rx.mF, Rx.m]
    have hbody : (r.mF e (R := R)) = r.m := funext fun s => funext fun k => ih s k
    rw [hbody]
    exact repLoop_fuel_init _ (Rx.m_extLocal r) lo hi s k e
  | grp i r ih => intro R s k; simp only [Rx.mF, Rx.m]; rw [ih]
  | ahead r ih => intro R s k; simp only [Rx.mF, Rx.m]; rw [ih]; rfl
  | nahead r ih => intro R s k; simp only [Rx.mF, Rx.m]; rw [ih]; rfl
  | behind cs => intro R s k; simp only [Rx.mF, Rx.m]; rfl
  | wordb w => intro R s k; simp only [Rx.mF, Rx.m]
  | eos => intro R s k; simp only [Rx.mF, Rx.m]; rfl
  | bos => intro R s k; simp only [Rx.mF, Rx.m]

/-- FUEL ADEQUACY for the matcher: extra fuel in every repeat changes nothing -/
theorem Rx.mF_eq_m (e : Nat) {R : Type} (r : Rx) (s : St) (k : St → Option R) : r.mF e s k = r.m s k :=
  Rx.mF_eq_m' e r s k

/-! ### the composed search functions -/

def matchHereF (e : Nat) (r : Rx) (s : St) (adv : Bool) : Option Match :=
  r.mF e s (fun s' => if adv && s'.pos == s.pos then none else some ⟨s.pos, s'.pos, s'.caps⟩)

def scanF (e : Nat) (r : Rx) : Option Char → List Char → Nat → Bool → Option Match
  | prev, rest, pos, adv =>
    match matchHereF e r ⟨prev, rest, pos, []⟩ adv with
    | some m => some m
    | none =>
      match rest with
      | [] => none
      | c :: t => scanF e r (some c) t (pos + 1) false

def Rx.searchF (e : Nat) (r : Rx) (text : List Char) (pos : Nat := 0) (endpos : Nat := text.length) : Option Match :=
  if pos > min endpos text.length then none else
  let (p, rest) := cursorAt text pos endpos
  scanF e r p rest pos false

def Rx.matchAtF (e : Nat) (r : Rx) (text : List Char) (pos : Nat := 0) (endpos : Nat := text.length) : Option Match :=
  if pos > min endpos text.length then none else
  let (p, rest) := cursorAt text pos endpos
  matchHereF e r ⟨p, rest, pos, []⟩ false

def Rx.fullmatchF (e : Nat) (r : Rx) (text : List Char) : Option Match :=
  r.mF e ⟨none, text, 0, []⟩ (fun s' => if s'.rest.isEmpty then some ⟨0, s'.pos, s'.caps⟩ else none)

theorem matchHereF_eq (e : Nat) (r : Rx) (s : St) (adv : Bool) : matchHereF e r s adv = matchHere r s adv := by
  unfold matchHereF matchHere
  exact Rx.mF_eq_m e r s _

theorem scanF_eq (e : Nat) (r : Rx) : ∀ (rest : List Char) (prev : Option Char) (pos : Nat) (adv : Bool),
    scanF e r prev rest pos adv = scan r prev rest pos adv := by
  intro rest
  induction rest with
  | nil => intro prev pos adv; rw [scanF, scan, matchHereF_eq]; rfl
  | cons c t ih => intro prev pos adv; rw [scanF, scan, matchHereF_eq, ih]; rfl

theorem Rx.searchF_eq (e : Nat) (r : Rx) (text : List Char) (pos endpos : Nat) :
    Rx.searchF e r text pos endpos = r.search text pos endpos := by
  unfold Rx.searchF Rx.search
  simp only [scanF_eq]

theorem Rx.matchAtF_eq (e : Nat) (r : Rx) (text : List Char) (pos endpos : Nat) :
    Rx.matchAtF e r text pos endpos = r.matchAt text pos endpos := by
  unfold Rx.matchAtF Rx.matchAt
  simp only [matchHereF_eq]

theorem Rx.fullmatchF_eq (e : Nat) (r : Rx) (text : List Char) : Rx.fullmatchF e r text = r.fullmatch text := by
  unfold Rx.fullmatchF Rx.fullmatch
  exact Rx.mF_eq_m e r _ _

/-! ### `finditer` -/

theorem advance_length : ∀ (n : Nat) (p : Option Char) (r : List Char), (advance p r n).2.length = r.length - n := by
  intro n
  induction n with
  | zero => intro p r; cases r <;> simp [advance]
  | succ n ih =>
    intro p r
    cases r with
    | nil => simp [advance]
    | cons c t => rw [advance, ih]; simp

theorem finditerAux_succ (r : Rx) (fuel : Nat) (prev : Option Char) (rest : List Char) (pos : Nat) (adv : Bool) :
    finditerAux r (fuel + 1) prev rest pos adv =
      match scan r prev rest pos adv with
      | none => []
      | some m =>
        m :: finditerAux r fuel (advance prev rest (m.stop - pos)).1 (advance prev rest (m.stop - pos)).2 m.stop
              (m.stop == m.start) := by
  rw [finditerAux]
  cases scan r prev rest pos adv <;> rfl

/-- a must-advance scan ends strictly right of the cursor -/
theorem scan_adv (r : Rx) (prev : Option Char) (rest : List Char) (pos : Nat) (m : Match)
    (h : scan r prev rest pos true = some m) : pos < m.stop := by
  cases rest with
  | nil =>
    rw [scan] at h
    split at h
    · rename_i m' hm
      cases h
      have := matchHere_bounds r _ true m hm
      have h4 := this.2.2.2 rfl
      have h1 := this.1
      simp only [] at h1
      omega
    · cases h
  | cons c t =>
    rw [scan] at h
    split at h
    · rename_i m' hm
      cases h
      have := matchHere_bounds r _ true m hm
      have h4 := this.2.2.2 rfl
      have h1 := this.1
      simp only [] at h1
      omega
    · have := scan_bounds r _ _ _ _ m h
      omega

def advBit : Bool → Nat
  | true => 0
  | false => 1

/-- each reported match either is non-empty (so `rest` shrinks) or is empty, and then `adv = true` forces the next one
to be non-empty -/
theorem finditerAux_fuel_gen (r : Rx) : ∀ (fuel : Nat) (prev : Option Char) (rest : List Char) (pos : Nat) (adv : Bool),
    fuel ≥ 2 * rest.length + advBit adv + 1 →
    finditerAux r (fuel + 1) prev rest pos adv = finditerAux r fuel prev rest pos adv := by
  intro fuel
  induction fuel with
  | zero => intro prev rest pos adv h; omega
  | succ n ih =>
    intro prev rest pos adv h
    rw [finditerAux_succ r (n + 1), finditerAux_succ r n]
    cases hsc : scan r prev rest pos adv with
    | none => rfl
    | some m =>
      simp only []
      congr 1
      apply ih
      have hb := scan_bounds r rest prev pos adv m hsc
      rw [advance_length]
      by_cases hE : m.stop = m.start
      · have : (m.stop == m.start) = true := by simp [hE]
        rw [this]
        cases adv with
        | true =>
          have := scan_adv r prev rest pos m hsc
          simp only [advBit] at h ⊢
          omega
        | false =>
          simp only [advBit] at h ⊢
          omega
      · have : (m.stop == m.start) = false := by simp [hE]
        rw [this]
        have : advBit adv ≤ 1 := by cases adv <;> simp [advBit]
        simp only [advBit] at h ⊢
        omega

theorem finditerAux_fuel (r : Rx) (fuel : Nat) (prev : Option Char) (rest : List Char) (pos : Nat) (adv : Bool)
    (h : fuel ≥ 2 * rest.length + 2) :
    finditerAux r (fuel + 1) prev rest pos adv = finditerAux r fuel prev rest pos adv := by
  apply finditerAux_fuel_gen
  have : advBit adv ≤ 1 := by cases adv <;> simp [advBit]
  omega

theorem finditerAux_fuel_add (r : Rx) (fuel : Nat) (prev : Option Char) (rest : List Char) (pos : Nat) (adv : Bool)
    (h : fuel ≥ 2 * rest.length + 2) (e : Nat) :
    finditerAux r (fuel + e) prev rest pos adv = finditerAux r fuel prev rest pos adv := by
  induction e with
  | zero => rfl
  | succ e ih => rw [← Nat.add_assoc, finditerAux_fuel r (fuel + e) prev rest pos adv (by omega), ih]

/-- so finditer is the fuel-free iteration: for every extra amount of fuel the result is the same -/
theorem Rx.finditer_fuel_irrelevant (r : Rx) (text : List Char) (pos endpos e : Nat) :
    (if pos > min endpos text.length then [] else
      let (p, rest) := cursorAt text pos endpos
      finditerAux r (2 * rest.length + 2 + e) p rest pos false) = r.finditer text pos endpos := by
  unfold Rx.finditer
  split
  · rfl
  · simp only [cursorAt]
    exact finditerAux_fuel_add r _ _ _ _ _ (Nat.le_refl _) e

/-- `finditer` with extra fuel both in the iteration and in every repeat of the pattern -/
def finditerAuxF (e : Nat) (r : Rx) : Nat → Option Char → List Char → Nat → Bool → List Match
  | 0, _, _, _, _ => []
  | fuel+1, prev, rest, pos, adv =>
    match scanF e r prev rest pos adv with
    | none => []
    | some m =>
      let (p', r') := advance prev rest (m.stop - pos)
      m :: finditerAuxF e r fuel p' r' m.stop (m.stop == m.start)

def Rx.finditerF (e : Nat) (r : Rx) (text : List Char) (pos : Nat := 0) (endpos : Nat := text.length) : List Match :=
  if pos > min endpos text.length then [] else
  let (p, rest) := cursorAt text pos endpos
  finditerAuxF e r (2 * rest.length + 2 + e) p rest pos false

theorem finditerAuxF_eq (e : Nat) (r : Rx) : ∀ (fuel : Nat) (prev : Option Char) (rest : List Char) (pos : Nat) (adv : Bool),
    finditerAuxF e r fuel prev rest pos adv = finditerAux r fuel prev rest pos adv := by
  intro fuel
  induction fuel with
  | zero => intro prev rest pos adv; rfl
  | succ n ih =>
    intro prev rest pos adv
    rw [finditerAuxF, finditerAux, scanF_eq]
    simp only [ih]
    rfl

theorem Rx.finditerF_eq (e : Nat) (r : Rx) (text : List Char) (pos endpos : Nat) :
    Rx.finditerF e r text pos endpos = r.finditer text pos endpos := by
  rw [← Rx.finditer_fuel_irrelevant r text pos endpos e]
  unfold Rx.finditerF
  simp only [finditerAuxF_eq]

/-! ### sanity checks: the definitions unfold as intended on a concrete pattern and text -/

section Sanity

/-- `a*` -/
private def aStar : Rx := .rep (.chr [(97, 97)]) 0 none
/-- `(?:a*)*b` — nested repeats with an empty-matching body -/
private def nested : Rx := .seq (.rep (.rep (.chr [(97, 97)]) 0 none) 0 none) (.chr [(98, 98)])

private def spans (o : Option Match) : Option (Nat × Nat) := o.map (fun m => (m.start, m.stop))
private def spansL (l : List Match) : List (Nat × Nat) := l.map (fun m => (m.start, m.stop))

example : spans (matchHere aStar ⟨none, ['a', 'a', 'a'], 0, []⟩ false) = some (0, 3) := by decide
example : spans (matchHereF 5 aStar ⟨none, ['a', 'a', 'a'], 0, []⟩ false) = some (0, 3) := by decide
example : spans (matchHereF 5 aStar ⟨none, ['a', 'a', 'a'], 0, []⟩ false)
    = spans (matchHere aStar ⟨none, ['a', 'a', 'a'], 0, []⟩ false) := by rw [matchHereF_eq]
example : spans (Rx.searchF 7 nested ['a', 'a', 'b']) = some (0, 3) := by decide
example : spans (Rx.search nested ['a', 'a', 'b']) = some (0, 3) := by decide
example : spansL (aStar.finditer ['a', 'a', 'a']) = [(0, 3), (3, 3)] := by decide
example : spansL (Rx.finditerF 4 aStar ['a', 'a', 'a']) = [(0, 3), (3, 3)] := by decide
/-- with too little fuel the loop does run dry, and (a failing iteration being backtracked over) reports a SHORTER
match — so the statement is about the fuel actually supplied, not a triviality -/
example : (repLoop (Rx.m (R := St) (.chr [(97, 97)])) 0 none 3 0 none ⟨none, ['a', 'a', 'a'], 0, []⟩ some).map (·.pos)
    = some 2 := by decide
example : (repLoop (Rx.m (R := St) (.chr [(97, 97)])) 0 none 4 0 none ⟨none, ['a', 'a', 'a'], 0, []⟩ some).map (·.pos)
    = some 3 := by decide
example : (repLoop (Rx.m (R := St) (.chr [(97, 97)])) 0 none 0 0 none ⟨none, ['a', 'a', 'a'], 0, []⟩ some).map (·.pos)
    = none := by decide

end Sanity

#print axioms repLoop_fuel_succ
#print axioms Rx.m_extLocal
#print axioms Rx.mF_eq_m
#print axioms matchHereF_eq
#print axioms Rx.searchF_eq
#print axioms finditerAux_fuel
#print axioms Rx.finditer_fuel_irrelevant
#print axioms Rx.finditerF_eq


/-! ### property-level names (C03: loops of the regex layer terminate for their own reasons, never for lack of fuel;
the fuel in `Rx.lean` is a device to make the definitions structurally recursive, not a behaviour) -/

/-- every search the model performs equals the search with any amount of extra fuel in every repeat -/
theorem C03_regex_search_fuel_adequate (e : Nat) (r : Rx) (text : List Char) (pos endpos : Nat) :
    Rx.searchF e r text pos endpos = r.search text pos endpos := Rx.searchF_eq e r text pos endpos

/-- … and so does every `finditer` (extra fuel in the iteration and in every repeat) -/
theorem C03_regex_finditer_fuel_adequate (e : Nat) (r : Rx) (text : List Char) (pos endpos : Nat) :
    Rx.finditerF e r text pos endpos = r.finditer text pos endpos := Rx.finditerF_eq e r text pos endpos

/-- … and `fullmatch` (used by `trs_to_dict`) -/
theorem C03_regex_fullmatch_fuel_adequate (e : Nat) (r : Rx) (text : List Char) :
    Rx.fullmatchF e r text = r.fullmatch text := Rx.fullmatchF_eq e r text

#print axioms C03_regex_search_fuel_adequate
#print axioms C03_regex_finditer_fuel_adequate
#print axioms C03_regex_fullmatch_fuel_adequate

end PyTRS
