/-
C10 through the whole pipeline: the flags of the tract parser, the chunk parser, the PLSS parser and the
PLSSDesc / Tract objects are well-typed (`FlagsTyped`), and the description's flags are shared with its tracts.
-/
import PyTRS.Props.C10
import PyTRS.Lemmas.Objects
namespace PyTRS
open PyTRS.Obj PyTRS.Plss

/-! ### generic fold invariants -/

theorem foldl_inv {σ α : Type} (P : σ → Prop) (f : σ → α → σ) (hf : ∀ s a, P s → P (f s a)) :
    ∀ (l : List α) (s : σ), P s → P (l.foldl f s) := by
  intro l
  induction l with
  | nil => intro s h; exact h
  | cons x xs ih => intro s h; exact ih _ (hf s x h)

theorem foldlM_inv {σ α : Type} (P : σ → Prop) (f : σ → α → Except PyErr σ)
    (hf : ∀ s a s', f s a = .ok s' → P s → P s') :
    ∀ (l : List α) (s s' : σ), l.foldlM f s = .ok s' → P s → P s' := by
  intro l
  induction l with
  | nil =>
    intro s s' h hp
    simp only [List.foldlM_nil, pure, Except.pure] at h
    cases h; exact hp
  | cons x xs ih =>
    intro s s' h hp
    rw [List.foldlM_cons] at h
    cases hx : f s x with
    | error e => rw [hx] at h; simp only [bind, Except.bind] at h; cases h
    | ok s1 =>
      rw [hx] at h
      simp only [bind, Except.bind] at h
      exact ih s1 s' h (hf s x s1 hx hp)

/-! ### basic closure facts -/

theorem Typed.ofPairs (ps : List (Str × Str)) :
    Typed (ps.map (fun fc => PyVal.str fc.1)) (ps.map (fun fc => PyVal.tup [.str fc.1, .str fc.2])) :=
  ⟨ps, rfl, rfl⟩

theorem FlagsTyped.mk' {w wl e el : List PyVal} (h1 : Typed w wl) (h2 : Typed e el) :
    FlagsTyped { w := w, wl := wl, e := e, el := el } := ⟨h1, h2⟩

theorem FlagsTyped.append {a b : Tract.Flags} (ha : FlagsTyped a) (hb : FlagsTyped b) : FlagsTyped (a.append b) :=
  ⟨ha.1.append hb.1, ha.2.append hb.2⟩

theorem addW_typed (fl : Tract.Flags) (f c : Str) (h : FlagsTyped fl) : FlagsTyped (Tract.addW fl f c) :=
  ⟨h.1.snoc f c, h.2⟩

theorem addWFlag_typed (fl : Tract.Flags) (f c : Str) (h : FlagsTyped fl) : FlagsTyped (addWFlag fl f c) :=
  ⟨h.1.snoc f c, h.2⟩

theorem addEFlag_typed (fl : Tract.Flags) (f c : Str) (h : FlagsTyped fl) : FlagsTyped (addEFlag fl f c) :=
  ⟨h.1, h.2.snoc f c⟩

/-! ### the tract parser -/

theorem acreStep_typed (st : Tract.Flags × List (Str × Str)) (la : Str × Str) (h : FlagsTyped st.1) :
    FlagsTyped (Tract.acreStep st la).1 := by
  unfold Tract.acreStep
  simp only []
  split
  · exact addW_typed _ _ _ h
  · exact h

theorem lotBlockStep_typed (a : Tract.ParseArgs) (st st' : Tract.LotAcc) (bl : Str × Option Str)
    (h : Tract.lotBlockStep a st bl = .ok st') (hs : FlagsTyped st.fl) : FlagsTyped st'.fl := by
  unfold Tract.lotBlockStep at h
  simp only [] at h
  split at h
  · cases h
  · cases h
    simp only []
    apply foldl_inv (fun s => FlagsTyped s.1) Tract.acreStep acreStep_typed
    exact ⟨hs.1.append (C10_unpack_lots_typed bl.1), hs.2⟩

theorem lotBlocksFold_typed (a : Tract.ParseArgs) : ∀ (l : List (Str × Option Str)) (st st' : Tract.LotAcc),
    Tract.lotBlocksFold a st l = .ok st' → FlagsTyped st.fl → FlagsTyped st'.fl := by
  intro l
  induction l with
  | nil => intro st st' h hs; simp only [Tract.lotBlocksFold] at h; cases h; exact hs
  | cons bl rest ih =>
    intro st st' h hs
    simp only [Tract.lotBlocksFold] at h
    split at h
    · cases h
    · rename_i st1 h1
      exact ih st1 st' h (lotBlockStep_typed a st st1 bl h1 hs)

theorem dupFlags_typed (fl : Tract.Flags) (lots qqs : List Str) (h : FlagsTyped fl) :
    FlagsTyped (Tract.dupFlags fl lots qqs) := by
  unfold Tract.dupFlags
  simp only []
  split
  · split
    · exact addW_typed _ _ _ (addW_typed _ _ _ h)
    · exact addW_typed _ _ _ h
  · split
    · exact addW_typed _ _ _ h
    · exact h

theorem tractParseRaw_typed (txt : Str) (a : Tract.ParseArgs) (inh : Tract.Flags) (r : Tract.ParseResult)
    (h : Tract.tractParseRaw txt a inh = .ok r) (hi : FlagsTyped inh) : FlagsTyped r.flags := by
  unfold Tract.tractParseRaw at h
  split at h
  · cases h; exact hi
  · split at h
    · cases h; exact hi
    · split at h
      · cases h
      · rename_i st hst
        have hst' : FlagsTyped st.fl := lotBlocksFold_typed a _ _ st hst hi
        split at h
        · cases h; exact hst'
        · cases h
          exact dupFlags_typed _ _ _ hst'

/-- the tract parser only appends well-typed flags to the ones it inherits -/
theorem C10_tractParse_typed (txt : Str) (a : Tract.ParseArgs) (inh : Tract.Flags) (r : Tract.ParseResult)
    (h : Tract.tractParse txt a inh = .ok r) (hi : FlagsTyped inh) : FlagsTyped r.flags := by
  unfold Tract.tractParse at h
  split at h
  · cases h
  · rename_i r0 h0
    cases h
    exact hi.append (tractParseRaw_typed txt a {} r0 h0 FlagsTyped.empty)

/-! ### Tract objects -/

theorem tractParseMethod_typed (t : TractObj) (commit : Bool) (kw : TractKw) (r : TractObj × List Str)
    (h : tractParseMethod t commit kw = .ok r) (ht : FlagsTyped t.fl) (hi : FlagsTyped (inheritedFlags t)) :
    FlagsTyped r.1.fl := by
  unfold tractParseMethod at h
  simp only [] at h
  cases hp : Tract.tractParse t.desc (effectiveTract t.attrs kw) (inheritedFlags t) with
  | error e => rw [hp] at h; cases h
  | ok r0 =>
    rw [hp] at h
    simp only [] at h
    have h0 := C10_tractParse_typed _ _ _ _ hp hi
    cases commit <;> (simp only [Bool.false_eq_true, if_false, if_true] at h; cases h)
    · exact ht
    · exact h0

theorem tractPreprocess_fl (t : TractObj) (c : Option Bool) (commit : Bool) :
    (tractPreprocess t c commit).1.fl = t.fl := by
  unfold tractPreprocess
  simp only []
  split
  · split <;> rfl
  · rfl

theorem tractInitCore_typed (t0 t : TractObj) (h : tractInitCore t0 = .ok t) (h0 : FlagsTyped t0.fl)
    (hi : FlagsTyped (inheritedFlags t0)) : FlagsTyped t.fl := by
  unfold tractInitCore at h
  split at h
  · split at h
    · cases h
    · rename_i r hr
      cases h
      exact tractParseMethod_typed _ _ _ _ hr h0 hi
  · cases h
    rw [tractPreprocess_fl]; exact h0

/-- a freshly created Tract has well-typed flags -/
theorem C10_tractInit_typed (uid : Nat) (desc : Str) (trs : Option Str) (cfg : CfgArg) (pq : Option Bool)
    (src od : OptStr) (oi : Int) (look : Option Str → TRS.TrsDict) (t : TractObj)
    (h : tractInit uid desc trs cfg pq src od oi look = .ok t) : FlagsTyped t.fl := by
  unfold tractInit at h
  split at h
  · cases h
  · exact tractInitCore_typed _ _ h FlagsTyped.empty FlagsTyped.empty

/-! ### the finders -/

def FFTyped (ff : FinderFlags) : Prop := Typed ff.flags ff.lines

theorem trFindStep_typed (mc : MC) (txt layout : Str) (st : TRFindSt) (mo : Match) (st' : TRFindSt)
    (h : trFindStep mc txt layout st mo = .ok st') (hs : FFTyped st.ff) : FFTyped st'.ff := by
  unfold trFindStep at h
  split at h
  · cases h
  · simp only [] at h
    split at h
    · cases h; exact hs
    · split at h <;> split at h <;> cases h <;> first | exact hs | exact Typed.snoc hs _ _

theorem twprgeFinder_typed (mc : MC) (txt layout : Str) (r : List TRMatch × FinderFlags)
    (h : twprgeFinder mc txt layout = .ok r) : FFTyped r.2 := by
  unfold twprgeFinder at h
  split at h
  · cases h
  · rename_i st hst
    cases h
    exact foldlM_inv (fun s : TRFindSt => FFTyped s.ff) _ (trFindStep_typed mc txt layout) _ _ _ hst Typed.nil

theorem secFindStep_typed (text layout : Str) (nc : Bool) (st : SecFindSt) (mo : Match) (st' : SecFindSt)
    (h : secFindStep text layout nc st mo = .ok st') (hs : FFTyped st.ff) : FFTyped st'.ff := by
  unfold secFindStep at h
  simp only [] at h
  split at h
  · split at h
    · cases h; exact Typed.snoc hs _ _
    · split at h
      · cases h; exact Typed.snoc hs _ _
      · cases h
  · cases h
    refine Typed.append ?_ (C10_unpack_sections_typed _)
    split
    · exact Typed.snoc hs _ _
    · exact hs

theorem secFinderPass_typed (text layout : Str) (nc : Bool) (r : List SecMatch × FinderFlags × List Str)
    (h : secFinderPass text layout nc = .ok r) : FFTyped r.2.1 := by
  unfold secFinderPass at h
  split at h
  · cases h
  · rename_i st hst
    cases h
    exact foldlM_inv (fun s : SecFindSt => FFTyped s.ff) _ (secFindStep_typed text layout nc) _ _ _ hst Typed.nil

theorem secFinder_typed (text layout : Str) (rc : ReqColon) (r : List SecMatch × FinderFlags)
    (h : secFinder text layout rc = .ok r) : FFTyped r.2 := by
  unfold secFinder at h
  simp only [] at h
  split at h
  · cases h
  · rename_i ms ff ln h1
    have t1 : FFTyped ff := secFinderPass_typed _ _ _ _ h1
    split at h
    · cases h; exact t1
    · split at h
      · split at h
        · cases h
        · rename_i ms2 ff2 ln2 h2
          have t2 : FFTyped ff2 := secFinderPass_typed _ _ _ _ h2
          split at h
          · cases h; exact Typed.snoc t2 _ _
          · cases h; exact t2
      · cases h; exact t1

/-! ### the chunk parser -/

theorem walkStep_typed (txt layout : Str) (markers : List (Nat × Marker)) (c : Chunk) (count : Nat)
    (h : FlagsTyped c.fl) : FlagsTyped (walkStep txt layout markers c count).fl := by
  unfold walkStep
  simp only []
  split
  · exact getNextTwprge_typed c h
  · split
    · exact getNextSec_typed c h
    · split
      · exact h
      · split
        · exact h
        · exact h

theorem parseMeaningful_typed (c : Chunk) (txt layout : Str) (markers : List (Nat × Marker))
    (h : FlagsTyped c.fl) : FlagsTyped (parseMeaningful c txt layout markers).fl := by
  unfold parseMeaningful
  simp only []
  apply foldl_inv (fun c => FlagsTyped c.fl) _ (fun c n hc => walkStep_typed txt layout markers c n hc)
  have h1 : FlagsTyped (if !sDescLays layout then getNextSec c else c).fl := by
    split
    · exact getNextSec_typed c h
    · exact h
  split
  · exact getNextTwprge_typed _ h1
  · exact h1

def reqTR (c : Chunk) : Chunk :=
  match c.workingTR with
  | some w => if !c.lastTRUsed && w != ERR_TWPRGE then { c with trList := w :: c.trList } else c
  | none => c

def reqSec (c : Chunk) : Chunk :=
  match c.workingSec with
  | some w => if !c.lastSecUsed && w != [ERR_SEC] then { c with secList := w :: c.secList } else c
  | none => c

def flagTRs (c : Chunk) : Chunk :=
  c.trList.foldl (fun c t => addE c (S "unused_twprge<" ++ t ++ S ">") (S "unused_twprge<" ++ t ++ S ">")) c

def flagSecs (c : Chunk) : Chunk :=
  c.secList.foldl (fun c sl =>
      addE c (S "unused_sec<" ++ pyJoin (S ",") sl ++ S ">") (S "unused_sec<" ++ pyJoin (S ",") sl ++ S ">")) c

def swStep (pc : ParserCfg) (c : Chunk) : Chunk :=
  if pc.secWithin then
    let r := rebuildSecWithin c.comps c.unused Gen.MIN_REPORTABLE_UNUSED_LEN
    { c with comps := r.1, unused := r.2 }
  else c

theorem finishChunk_eq (pc : ParserCfg) (c : Chunk) :
    finishChunk pc c = swStep pc (flagSecs (flagTRs (reqSec (reqTR c)))) := rfl

theorem reqTR_fl (c : Chunk) : (reqTR c).fl = c.fl := by
  unfold reqTR
  split
  · split <;> rfl
  · rfl

theorem reqSec_fl (c : Chunk) : (reqSec c).fl = c.fl := by
  unfold reqSec
  split
  · split <;> rfl
  · rfl

theorem swStep_fl (pc : ParserCfg) (c : Chunk) : (swStep pc c).fl = c.fl := by
  unfold swStep
  split <;> rfl

theorem flagTRs_typed (c : Chunk) (h : FlagsTyped c.fl) : FlagsTyped (flagTRs c).fl :=
  foldl_inv (fun c : Chunk => FlagsTyped c.fl) _ (fun c _ hc => addE_typed c _ _ hc) c.trList c h

theorem flagSecs_typed (c : Chunk) (h : FlagsTyped c.fl) : FlagsTyped (flagSecs c).fl :=
  foldl_inv (fun c : Chunk => FlagsTyped c.fl) _ (fun c _ hc => addE_typed c _ _ hc) c.secList c h

theorem finishChunk_typed (pc : ParserCfg) (c : Chunk) (h : FlagsTyped c.fl) : FlagsTyped (finishChunk pc c).fl := by
  rw [finishChunk_eq, swStep_fl]
  apply flagSecs_typed
  apply flagTRs_typed
  rw [reqSec_fl, reqTR_fl]
  exact h

theorem parseChunkCore_typed (mc : MC) (pc : ParserCfg) (text : Str) (copyAll : Bool) (layout : Str) (c : Chunk)
    (h : parseChunkCore mc pc text copyAll layout = .ok c) : FlagsTyped c.fl := by
  unfold parseChunkCore at h
  simp only [] at h
  split at h
  · cases h
  · rename_i trs tff htr
    have t1 : FFTyped tff := twprgeFinder_typed _ _ _ _ htr
    split at h
    · cases h
    · rename_i secs sff hsec
      have t2 : FFTyped sff := secFinder_typed _ _ _ _ hsec
      have h0 : FlagsTyped ({ w := tff.flags ++ sff.flags, wl := tff.lines ++ sff.lines } : Tract.Flags) :=
        ⟨Typed.append t1 t2, Typed.nil⟩
      split at h
      · exact parseCopyAll_typed _ _ _ h0 h
      · cases h
        exact finishChunk_typed _ _ (parseMeaningful_typed _ _ _ _ h0)

theorem genFlagsChunk_typed (chunk : Str) (fl : Tract.Flags) (h : FlagsTyped fl) :
    FlagsTyped (genFlagsChunk chunk fl) := by
  unfold genFlagsChunk
  exact ⟨h.1.append (Typed.ofPairs _), h.2⟩

/-- one chunk: finder flags, staging errors, unused Twp/Rge / section errors and the warning triggers are well-typed -/
theorem C10_chunkParser_typed (mc : MC) (pc : ParserCfg) (text : Str) (copyAll : Bool) (layout : Str)
    (parent p : ParentSt) (h : chunkParser mc pc text copyAll layout parent = .ok p) (hp : FlagsTyped parent.fl) :
    FlagsTyped p.fl := by
  unfold chunkParser at h
  split at h
  · cases h
  · rename_i c0 h0
    split at h
    · cases h
    · rename_i c hc
      have tc : FlagsTyped c.fl := by
        split at hc
        · exact parseChunkCore_typed _ _ _ _ _ _ hc
        · cases hc; exact parseChunkCore_typed _ _ _ _ _ _ h0
      cases h
      have tp := genFlagsChunk_typed text parent.fl hp
      exact ⟨tp.1.append tc.1, tp.2.append tc.2⟩

/-! ### the PLSS parser -/

theorem parseBlocks_typed (mc : MC) (pc : ParserCfg) (copyAll : Bool) (layout : Str) :
    ∀ (l : List Str) (parent p : ParentSt), parseBlocks mc pc copyAll layout l parent = .ok p →
      FlagsTyped parent.fl → FlagsTyped p.fl := by
  intro l
  induction l with
  | nil => intro parent p h hp; simp only [parseBlocks] at h; cases h; exact hp
  | cons x xs ih =>
    intro parent p h hp
    simp only [parseBlocks] at h
    split at h
    · cases h
    · rename_i p1 h1
      exact ih p1 p h (C10_chunkParser_typed _ _ _ _ _ _ _ h1 hp)

theorem parseAllBlocks_typed (mc : MC) (ptext layout : Str) (a : ParserArgs) (fl : Tract.Flags) (p : ParentSt)
    (h : parseAllBlocks mc ptext layout a fl = .ok p) (hf : FlagsTyped fl) : FlagsTyped p.fl := by
  unfold parseAllBlocks at h
  simp only [] at h
  split at h
  · cases h
  · rename_i blocks parent hstart
    have hpar : FlagsTyped parent.fl := by
      split at hstart
      · split at hstart
        · cases hstart
        · cases hstart; exact hf
      · cases hstart; exact hf
    split at h
    · cases h
    · rename_i p1 h1
      have t1 := parseBlocks_typed _ _ _ _ _ _ _ h1 hpar
      split at h
      · cases h; exact t1
      · cases h; exact t1

theorem fixedFlags_typed (fixed : List Str) : FlagsTyped (fixedFlags fixed) := by
  unfold fixedFlags
  split
  · exact FlagsTyped.empty
  · exact ⟨Typed.single _ _, Typed.nil⟩

theorem examineUnused_typed (fl : Tract.Flags) (unused : List (Nat × Str)) (h : FlagsTyped fl) :
    FlagsTyped (examineUnused fl unused) := by
  unfold examineUnused
  apply foldl_inv FlagsTyped _ _ _ _ h
  intro s u hs
  split
  · exact addEFlag_typed _ _ _ hs
  · exact hs

theorem secWithinFlags_typed (tracts : List TractObj) : ∀ (l : List Nat) (fl fl' : Tract.Flags),
    secWithinFlags tracts fl l = .ok fl' → FlagsTyped fl → FlagsTyped fl' := by
  intro l
  induction l with
  | nil => intro fl fl' h hf; simp only [secWithinFlags] at h; cases h; exact hf
  | cons i rest ih =>
    intro fl fl' h hf
    simp only [secWithinFlags] at h
    split at h
    · exact ih _ _ h (addWFlag_typed _ _ _ hf)
    · cases h

theorem errorTractFlag_typed (fl : Tract.Flags) (tracts : List TractObj) (h : FlagsTyped fl) :
    FlagsTyped (errorTractFlag fl tracts) := by
  unfold errorTractFlag
  split
  · exact addEFlag_typed _ _ _ h
  · exact h

theorem buildTracts_typed (uid0 : Nat) (hd : Str) (pq : Bool) (src : OptStr) (text : Str)
    (look : Option Str → TRS.TrsDict) : ∀ (specs : List (Str × Str × Bool)) (idx : Nat) (ts : List TractObj),
    buildTracts uid0 hd pq src text look idx specs = .ok ts → ∀ t ∈ ts, FlagsTyped t.fl := by
  intro specs
  induction specs with
  | nil => intro idx ts h; simp only [buildTracts] at h; cases h; intro t ht; cases ht
  | cons s rest ih =>
    intro idx ts h
    obtain ⟨desc, trs, b⟩ := s
    simp only [buildTracts] at h
    split at h
    · cases h
    · rename_i t0 h0
      split at h
      · cases h
      · rename_i ts0 hts
        cases h
        intro t ht
        rcases List.mem_cons.1 ht with rfl | ht
        · exact C10_tractInit_typed _ _ _ _ _ _ _ _ _ _ h0
        · exact ih _ _ hts t ht

theorem handDownFlags_typed (dfl : Tract.Flags) (tracts : List TractObj) (hd : FlagsTyped dfl)
    (ht : ∀ t ∈ tracts, FlagsTyped t.fl) : ∀ t ∈ handDownFlags dfl tracts, FlagsTyped t.fl := by
  intro t hm
  unfold handDownFlags at hm
  obtain ⟨t0, h0, rfl⟩ := List.mem_map.1 hm
  exact ⟨hd.1.append (ht t0 h0).1, hd.2.append (ht t0 h0).2⟩

theorem handDownFlags_shared (dfl : Tract.Flags) (tracts : List TractObj) :
    ∀ t ∈ handDownFlags dfl tracts, dfl.w <+: t.fl.w ∧ dfl.wl <+: t.fl.wl ∧ dfl.e <+: t.fl.e ∧ dfl.el <+: t.fl.el := by
  intro t hm
  unfold handDownFlags at hm
  obtain ⟨t0, h0, rfl⟩ := List.mem_map.1 hm
  exact ⟨List.prefix_append _ _, List.prefix_append _ _, List.prefix_append _ _, List.prefix_append _ _⟩

theorem handDownFlags_trs (dfl : Tract.Flags) (tracts : List TractObj) :
    ∀ t ∈ handDownFlags dfl tracts, ∃ t0 ∈ tracts, t.trs = t0.trs := by
  intro t hm
  unfold handDownFlags at hm
  obtain ⟨t0, h0, rfl⟩ := List.mem_map.1 hm
  exact ⟨t0, h0, rfl⟩

/-- the shape of a successful `plssParser` run: the description flags are `errorTractFlag` of some typed flags over
    typed tracts, and the tracts are those with the flags handed down -/
theorem plssParser_shape (mc : MC) (uid0 : Nat) (text : Str) (a : ParserArgs) (look : Option Str → TRS.TrsDict)
    (out : ParserOut) (h : plssParser mc uid0 text a look = .ok out) :
    ∃ (fl1 : Tract.Flags) (tracts : List TractObj), FlagsTyped fl1 ∧ (∀ t ∈ tracts, FlagsTyped t.fl) ∧
      out.fl = errorTractFlag fl1 tracts ∧ out.tracts = handDownFlags out.fl tracts := by
  unfold plssParser at h
  split at h
  · cases h
  · split at h
    · cases h
    · rename_i pp hpp
      cases hl : a.layout <;> cases hc : a.cleanUp <;> simp only [hl, hc] at h <;>
      (split at h
       · cases h
       · rename_i parent hpar
         have tpar := parseAllBlocks_typed _ _ _ _ _ _ hpar (fixedFlags_typed pp.fixed)
         split at h
         · cases h
         · rename_i specs hspecs
           split at h
           · cases h
           · rename_i tracts htr
             split at h
             · cases h
             · rename_i fl1 hfl1
               cases h
               exact ⟨fl1, tracts, secWithinFlags_typed _ _ _ _ hfl1 (examineUnused_typed _ _ tpar),
                 buildTracts_typed _ _ _ _ _ _ _ _ _ htr, rfl, rfl⟩)

/-- the whole parser: the description's flags and every tract's flags are well-typed -/
theorem C10_plssParser_typed (mc : MC) (uid0 : Nat) (text : Str) (a : ParserArgs) (look : Option Str → TRS.TrsDict)
    (out : ParserOut) (h : plssParser mc uid0 text a look = .ok out) :
    FlagsTyped out.fl ∧ ∀ t ∈ out.tracts, FlagsTyped t.fl := by
  obtain ⟨fl1, tracts, h1, h2, h3, h4⟩ := plssParser_shape mc uid0 text a look out h
  have hfl : FlagsTyped out.fl := by rw [h3]; exact errorTractFlag_typed _ _ h1
  refine ⟨hfl, ?_⟩
  rw [h4]
  exact handDownFlags_typed _ _ hfl h2

/-- every flag of the description is also present on each of its tracts (as a prefix, in the same order) -/
theorem C10_plssParser_shared (mc : MC) (uid0 : Nat) (text : Str) (a : ParserArgs) (look : Option Str → TRS.TrsDict)
    (out : ParserOut) (h : plssParser mc uid0 text a look = .ok out) :
    ∀ t ∈ out.tracts, out.fl.w <+: t.fl.w ∧ out.fl.wl <+: t.fl.wl ∧ out.fl.e <+: t.fl.e ∧ out.fl.el <+: t.fl.el := by
  obtain ⟨fl1, tracts, _, _, _, h4⟩ := plssParser_shape mc uid0 text a look out h
  rw [h4]
  exact handDownFlags_shared _ _

/-- a description has an error flag whenever one of its tracts has an undecipherable Twp/Rge/Sec -/
theorem C10_error_tract_flagged (mc : MC) (uid0 : Nat) (text : Str) (a : ParserArgs) (look : Option Str → TRS.TrsDict)
    (out : ParserOut) (h : plssParser mc uid0 text a look = .ok out)
    (he : ∃ t ∈ out.tracts, TRS.isError t.trs = true) : PyVal.str (S "twprge_error") ∈ out.fl.e := by
  obtain ⟨fl1, tracts, _, _, h3, h4⟩ := plssParser_shape mc uid0 text a look out h
  obtain ⟨t, ht, hte⟩ := he
  rw [h4] at ht
  obtain ⟨t0, ht0, htrs⟩ := handDownFlags_trs _ _ t ht
  rw [htrs] at hte
  have hany : tracts.any (fun t => TRS.isError t.trs) = true := List.any_eq_true.2 ⟨t0, ht0, hte⟩
  rw [h3]
  unfold errorTractFlag
  rw [if_pos hany]
  simp [addEFlag]

/-! ### PLSSDesc -/

/-- a committed `parse()` of an existing PLSSDesc (all four lists shared) -/
theorem descParse_typed_full (mc : MC) (uid0 : Nat) (d : DescObj) (kw : DescKw) (look : Option Str → TRS.TrsDict)
    (d' : DescObj) (out : ParserOut) (h : descParse mc uid0 d kw true look = .ok (d', out)) :
    FlagsTyped d'.fl ∧ ∀ t ∈ d'.tracts, FlagsTyped t.fl ∧
      d'.fl.w <+: t.fl.w ∧ d'.fl.wl <+: t.fl.wl ∧ d'.fl.e <+: t.fl.e ∧ d'.fl.el <+: t.fl.el := by
  unfold descParse at h
  split at h
  · cases h
  · rename_i out0 hout
    simp only [if_true] at h
    cases h
    have h1 := C10_plssParser_typed _ _ _ _ _ _ hout
    have h2 := C10_plssParser_shared _ _ _ _ _ _ hout
    exact ⟨h1.1, fun t ht => ⟨h1.2 t ht, h2 t ht⟩⟩

/-- PLSSDesc(...) : flags typed and shared -/
theorem C10_descInit_typed (mc : MC) (uid0 : Nat) (raw : Str) (layout : Option Str) (cfg : CfgArg) (pq : Option Bool)
    (src : OptStr) (wait : Option Bool) (look : Option Str → TRS.TrsDict) (d : DescObj) (uid : Nat)
    (h : descInit mc uid0 raw layout cfg pq src wait look = .ok (d, uid)) :
    FlagsTyped d.fl ∧ ∀ t ∈ d.tracts, FlagsTyped t.fl ∧ d.fl.w <+: t.fl.w ∧ d.fl.wl <+: t.fl.wl ∧ d.fl.e <+: t.fl.e ∧ d.fl.el <+: t.fl.el := by
  unfold descInit at h
  split at h
  · cases h
  · simp only [] at h
    split at h
    · split at h
      · cases h
      · rename_i r hr
        cases h
        exact descParse_typed_full _ _ _ _ _ r.1 r.2 hr
    · split at h
      · cases h
      · rename_i r hr
        cases h
        unfold descPreprocess at hr
        simp only [if_true] at hr
        split at hr
        · cases hr
        · cases hr
          exact ⟨FlagsTyped.empty, fun t ht => by cases ht⟩

/-- a committed `parse()` of an existing PLSSDesc: the same -/
theorem C10_descParse_typed (mc : MC) (uid0 : Nat) (d : DescObj) (kw : DescKw) (look : Option Str → TRS.TrsDict)
    (d' : DescObj) (out : ParserOut) (h : descParse mc uid0 d kw true look = .ok (d', out)) :
    FlagsTyped d'.fl ∧ ∀ t ∈ d'.tracts, FlagsTyped t.fl ∧ d'.fl.w <+: t.fl.w ∧ d'.fl.e <+: t.fl.e := by
  obtain ⟨h1, h2⟩ := descParse_typed_full mc uid0 d kw look d' out h
  exact ⟨h1, fun t ht => ⟨(h2 t ht).1, (h2 t ht).2.1, (h2 t ht).2.2.2.1⟩⟩

end PyTRS

#print axioms PyTRS.C10_tractParse_typed
#print axioms PyTRS.C10_tractInit_typed
#print axioms PyTRS.C10_chunkParser_typed
#print axioms PyTRS.C10_plssParser_typed
#print axioms PyTRS.C10_plssParser_shared
#print axioms PyTRS.C10_error_tract_flagged
#print axioms PyTRS.C10_descInit_typed
#print axioms PyTRS.C10_descParse_typed
