/-
C03 — totality: which calls can never raise, and which exceptions are possible at all.
-/
import PyTRS.Props.C03
import PyTRS.Props.C09
import PyTRS.Props.C11
namespace PyTRS
open PyTRS.Obj PyTRS.Plss

def legalNS (s : Str) : Bool := Unpack.isLegal Gen.LEGAL_NS s
def legalEW (s : Str) : Bool := Unpack.isLegal Gen.LEGAL_EW s

/-! ### generic facts about `foldlM` / `mapM` in `Except` -/

theorem foldlM_ok_inv {α β ε : Type} (f : β → α → Except ε β) (I : β → Prop) (l : List α) :
    ∀ (l' : List α), (∀ a ∈ l', a ∈ l) →
    (∀ b a, a ∈ l → I b → ∃ b', f b a = .ok b' ∧ I b') → ∀ b, I b → ∃ b', l'.foldlM f b = .ok b' ∧ I b' := by
  intro l'
  induction l' with
  | nil => intro _ _ b hb; exact ⟨b, rfl, hb⟩
  | cons a rest ih =>
    intro hsub hf b hb
    obtain ⟨b1, h1, hI1⟩ := hf b a (hsub a (by simp)) hb
    obtain ⟨b2, h2, hI2⟩ := ih (fun x hx => hsub x (by simp [hx])) hf b1 hI1
    refine ⟨b2, ?_, hI2⟩
    simp only [List.foldlM_cons, h1]
    exact h2

theorem foldlM_ok {α β ε : Type} (f : β → α → Except ε β) (l : List α)
    (hf : ∀ b a, a ∈ l → ∃ b', f b a = .ok b') (b : β) : ∃ b', l.foldlM f b = .ok b' := by
  obtain ⟨b', h, _⟩ := foldlM_ok_inv f (fun _ => True) l l (fun _ h => h)
    (fun b a ha _ => by obtain ⟨b', h⟩ := hf b a ha; exact ⟨b', h, trivial⟩) b trivial
  exact ⟨b', h⟩

theorem foldlM_err {α β ε : Type} (f : β → α → Except ε β) (Q : ε → Prop)
    (hf : ∀ b a e, f b a = .error e → Q e) : ∀ (l : List α) b e, l.foldlM f b = .error e → Q e := by
  intro l
  induction l with
  | nil => intro b e h; cases h
  | cons a rest ih =>
    intro b e h
    simp only [List.foldlM_cons] at h
    cases hfa : f b a with
    | error e' =>
      rw [hfa] at h
      cases h
      exact hf _ _ _ hfa
    | ok b1 =>
      rw [hfa] at h
      exact ih b1 e h

theorem mapM_ok {α β ε : Type} (f : α → Except ε β) :
    ∀ (l : List α), (∀ a ∈ l, ∃ b, f a = .ok b) → ∃ bs, l.mapM f = .ok bs := by
  intro l
  induction l with
  | nil => intro _; exact ⟨[], rfl⟩
  | cons a rest ih =>
    intro hf
    obtain ⟨b, hb⟩ := hf a (by simp)
    obtain ⟨bs, hbs⟩ := ih (fun x hx => hf x (by simp [hx]))
    refine ⟨b :: bs, ?_⟩
    simp only [List.mapM_cons, hb, hbs]
    rfl

theorem mapM_err {α β ε : Type} (f : α → Except ε β) (Q : ε → Prop)
    (hf : ∀ a e, f a = .error e → Q e) : ∀ (l : List α) e, l.mapM f = .error e → Q e := by
  intro l
  induction l with
  | nil => intro e h; cases h
  | cons a rest ih =>
    intro e h
    simp only [List.mapM_cons] at h
    cases hfa : f a with
    | error e' =>
      rw [hfa] at h
      cases h
      exact hf _ _ hfa
    | ok b1 =>
      rw [hfa] at h
      cases hr : rest.mapM f with
      | error e' =>
        rw [hr] at h
        cases h
        exact ih _ hr
      | ok bs =>
        rw [hr] at h
        cases h

theorem ok_ne_error {ε α : Type} {x : Except ε α} {e : ε} (h : ∃ r, x = .ok r) (he : x = .error e) : False := by
  obtain ⟨r, hr⟩ := h
  rw [hr] at he
  cases he

/-! ### Tract -/

theorem blockLots_total (a : Tract.ParseArgs) (t : Str) (leading : Option Str) :
    ∃ r, Tract.blockLots a (Unpack.unpackLots t) leading = .ok r := by
  unfold Tract.blockLots
  split
  · split
    · exact C03_applyLeading_total _ _ _ (C03_aliquots_through_le t)
    · exact ⟨_, rfl⟩
  · exact ⟨_, rfl⟩

theorem lotBlockStep_total (a : Tract.ParseArgs) (st : Tract.LotAcc) (bl : Str × Option Str) :
    ∃ r, Tract.lotBlockStep a st bl = .ok r := by
  unfold Tract.lotBlockStep
  obtain ⟨r, hr⟩ := blockLots_total a bl.1 bl.2
  simp only [hr]
  exact ⟨_, rfl⟩

theorem lotBlocksFold_total (a : Tract.ParseArgs) (l : List (Str × Option Str)) :
    ∀ st, ∃ r, Tract.lotBlocksFold a st l = .ok r := by
  induction l with
  | nil => intro st; exact ⟨st, rfl⟩
  | cons bl rest ih =>
    intro st
    obtain ⟨st', h⟩ := lotBlockStep_total a st bl
    rw [Tract.lotBlocksFold, h]
    exact ih st'

theorem tractParseRaw_total (txt : Str) (a : Tract.ParseArgs) (inh : Tract.Flags) :
    ∃ r, Tract.tractParseRaw txt a inh = .ok r := by
  unfold Tract.tractParseRaw
  split
  · exact ⟨_, rfl⟩
  · split
    · exact ⟨_, rfl⟩
    · rename_i rem1 lotBlocks _
      obtain ⟨st, hst⟩ := lotBlocksFold_total a lotBlocks { fl := inh }
      rw [hst]
      simp only []
      split <;> exact ⟨_, rfl⟩

/-- the tract parser never raises, whatever the text and the settings -/
theorem C03_tractParse_total (txt : Str) (a : Tract.ParseArgs) (inh : Tract.Flags) :
    ∃ r, Tract.tractParse txt a inh = .ok r := by
  unfold Tract.tractParse Tract.tractParseOwn
  obtain ⟨r, hr⟩ := tractParseRaw_total txt a {}
  rw [hr]
  exact ⟨_, rfl⟩

theorem C03_tractParseMethod_total (t : TractObj) (commit : Bool) (kw : TractKw) :
    ∃ r, tractParseMethod t commit kw = .ok r := by
  unfold tractParseMethod
  obtain ⟨r, hr⟩ := C03_tractParse_total t.desc (effectiveTract t.attrs kw) (inheritedFlags t)
  simp only [hr]
  split <;> exact ⟨_, rfl⟩

theorem tractInitCore_total (t : TractObj) : ∃ r, tractInitCore t = .ok r := by
  unfold tractInitCore
  split
  · obtain ⟨r, hr⟩ := C03_tractParseMethod_total t true {}
    rw [hr]
    exact ⟨_, rfl⟩
  · exact ⟨_, rfl⟩

/-- Tract(...) raises only when the config argument is rejected, and then with that very error -/
theorem C03_tractInit_total (uid : Nat) (desc : Str) (trs : Option Str) (cfg : CfgArg) (pq : Option Bool)
    (src od : OptStr) (oi : Int) (look : Option Str → TRS.TrsDict) (c : Config.Cfg) (hc : resolveCfgArg cfg = .ok c) :
    ∃ t, tractInit uid desc trs cfg pq src od oi look = .ok t := by
  unfold tractInit
  rw [hc]
  exact tractInitCore_total _

theorem C03_tractInit_error_is_config (uid : Nat) (desc : Str) (trs : Option Str) (cfg : CfgArg) (pq : Option Bool)
    (src od : OptStr) (oi : Int) (look : Option Str → TRS.TrsDict) (e : PyErr)
    (h : tractInit uid desc trs cfg pq src od oi look = .error e) : resolveCfgArg cfg = .error e := by
  unfold tractInit at h
  cases hc : resolveCfgArg cfg with
  | error e' =>
    rw [hc] at h
    cases h
    rfl
  | ok c =>
    rw [hc] at h
    simp only [] at h
    obtain ⟨t, ht⟩ := tractInitCore_total
      { uid := uid, trsKey := TRS.normIn trs, trs := look trs, desc := desc, origDesc := od, origIndex := oi,
        source := src, attrs := tractInitAttrs c pq, config := c, ppDesc := desc }
    rw [ht] at h
    cases h

/-! ### Twp/Rge unpacking and the preprocessor -/

theorem unpackTwprge_err (p : Unpack.Pat) (mo : Match) (text ns ew : Str) (ocr : Bool) (e : PyErr)
    (h : Unpack.unpackTwprge p mo text ns ew ocr = .error e) : e = .defaultNS ∨ e = .defaultEW := by
  unfold Unpack.unpackTwprge at h
  split at h
  · cases h; exact Or.inl rfl
  · split at h
    · cases h; exact Or.inr rfl
    · cases h

theorem unpackTwprge_ok (p : Unpack.Pat) (mo : Match) (text ns ew : Str) (ocr : Bool)
    (h1 : legalNS ns = true) (h2 : legalEW ew = true) :
    ∃ r, Unpack.unpackTwprge p mo text ns ew ocr = .ok r := by
  unfold legalNS at h1
  unfold legalEW at h2
  unfold Unpack.unpackTwprge
  simp only [h1, h2, Bool.not_true, Bool.false_eq_true, if_false]
  exact ⟨_, rfl⟩

theorem resolve_legalNS (mc : MC) (ns : Option Str) (h1 : legalNS mc.ns = true)
    (h3 : ∀ x, ns = some x → legalNS x = true) : legalNS (resolve ns mc.ns) = true := by
  cases ns with
  | none => exact h1
  | some x => exact h3 x rfl

theorem resolve_legalEW (mc : MC) (ew : Option Str) (h2 : legalEW mc.ew = true)
    (h4 : ∀ x, ew = some x → legalEW x = true) : legalEW (resolve ew mc.ew) = true := by
  cases ew with
  | none => exact h2
  | some x => exact h4 x rfl

theorem subScrubStep_err (p : Unpack.Pat) (txt ns ew : Str) (ocr : Bool) (st : Str × Nat) (m : Match) (e : PyErr)
    (h : subScrubStep p txt ns ew ocr st m = .error e) : e = .defaultNS ∨ e = .defaultEW := by
  unfold subScrubStep at h
  split at h
  · rename_i e' he
    cases h
    exact unpackTwprge_err _ _ _ _ _ _ _ he
  · cases h

theorem subScrubStep_ok (p : Unpack.Pat) (txt ns ew : Str) (ocr : Bool) (st : Str × Nat) (m : Match)
    (h1 : legalNS ns = true) (h2 : legalEW ew = true) : ∃ r, subScrubStep p txt ns ew ocr st m = .ok r := by
  unfold subScrubStep
  obtain ⟨r, hr⟩ := unpackTwprge_ok p m txt ns ew ocr h1 h2
  rw [hr]
  exact ⟨_, rfl⟩

theorem subScrubber_err (name : String) (txt ns ew : Str) (e : PyErr)
    (h : Plss.subScrubber name txt ns ew = .error e) : e = .defaultNS ∨ e = .defaultEW := by
  unfold Plss.subScrubber at h
  simp only [] at h
  split at h
  · rename_i e' he
    cases h
    exact foldlM_err _ (fun e => e = .defaultNS ∨ e = .defaultEW)
      (fun b a e h => subScrubStep_err _ _ _ _ _ b a e h) _ _ _ he
  · cases h

theorem subScrubber_ok (name : String) (txt ns ew : Str) (h1 : legalNS ns = true) (h2 : legalEW ew = true) :
    ∃ r, Plss.subScrubber name txt ns ew = .ok r := by
  unfold Plss.subScrubber
  simp only []
  obtain ⟨r, hr⟩ := foldlM_ok (subScrubStep (findPat name) txt ns ew (name == Gen.PLSS_OCR_SCRUBBER))
    ((findPat name).rx.finditer txt) (fun b a _ => subScrubStep_ok _ _ _ _ _ b a h1 h2) ([], 0)
  rw [hr]
  exact ⟨_, rfl⟩

theorem findTwprgeRaw_err (text ns ew : Str) (e : PyErr) (h : findTwprgeRaw text ns ew = .error e) :
    e = .defaultNS ∨ e = .defaultEW := by
  unfold findTwprgeRaw at h
  exact mapM_err _ (fun e => e = .defaultNS ∨ e = .defaultEW)
    (fun a e h => unpackTwprge_err _ _ _ _ _ _ _ h) _ _ h

theorem findTwprgeRaw_ok (text ns ew : Str) (h1 : legalNS ns = true) (h2 : legalEW ew = true) :
    ∃ r, findTwprgeRaw text ns ew = .ok r := by
  unfold findTwprgeRaw
  exact mapM_ok _ _ (fun a _ => unpackTwprge_ok _ _ _ _ _ _ h1 h2)

/-- preprocessing raises only DefaultNSError / DefaultEWError, and never with legal defaults -/
theorem C03_preprocess_errors (mc : MC) (txt : Str) (ns ew : Option Str) (ocr : Bool) (e : PyErr)
    (h : plssPreprocess mc txt ns ew ocr = .error e) : e = .defaultNS ∨ e = .defaultEW := by
  unfold plssPreprocess at h
  simp only [] at h
  split at h
  · rename_i e' he
    cases h
    exact findTwprgeRaw_err _ _ _ _ he
  · split at h
    · rename_i e' he
      cases h
      exact foldlM_err _ (fun e => e = .defaultNS ∨ e = .defaultEW)
        (fun b a e h => subScrubber_err a b _ _ e h) _ _ _ he
    · split at h
      · cases h
      · split at h
        · rename_i e' he
          cases h
          exact findTwprgeRaw_err _ _ _ _ he
        · cases h

theorem C03_preprocess_total (mc : MC) (txt : Str) (ns ew : Option Str) (ocr : Bool)
    (h1 : legalNS mc.ns = true) (h2 : legalEW mc.ew = true)
    (h3 : ∀ x, ns = some x → legalNS x = true) (h4 : ∀ x, ew = some x → legalEW x = true) :
    ∃ r, plssPreprocess mc txt ns ew ocr = .ok r := by
  have hns := resolve_legalNS mc ns h1 h3
  have hew := resolve_legalEW mc ew h2 h4
  unfold plssPreprocess
  simp only []
  obtain ⟨orig, ho⟩ := findTwprgeRaw_ok txt mc.ns mc.ew h1 h2
  rw [ho]
  simp only []
  obtain ⟨t, ht⟩ := foldlM_ok (fun t n => Plss.subScrubber n t (resolve ns mc.ns) (resolve ew mc.ew))
    (scrubberNames ocr) (fun b a _ => subScrubber_ok a b _ _ hns hew) txt
  rw [ht]
  simp only []
  split
  · exact ⟨_, rfl⟩
  · rename_i t2 _
    obtain ⟨pr, hp⟩ := findTwprgeRaw_ok t2 mc.ns mc.ew h1 h2
    rw [hp]
    exact ⟨_, rfl⟩

theorem C03_findTwprge_total (mc : MC) (txt : Str) (ns ew : Option Str) (pre ocr : Bool)
    (h1 : legalNS mc.ns = true) (h2 : legalEW mc.ew = true)
    (h3 : ∀ x, ns = some x → legalNS x = true) (h4 : ∀ x, ew = some x → legalEW x = true) :
    ∃ r, findTwprge mc txt ns ew pre ocr = .ok r := by
  have hns := resolve_legalNS mc ns h1 h3
  have hew := resolve_legalEW mc ew h2 h4
  unfold findTwprge
  split
  · obtain ⟨r, hr⟩ := C03_preprocess_total mc txt ns ew ocr h1 h2 h3 h4
    rw [hr]
    exact findTwprgeRaw_ok _ _ _ hns hew
  · exact findTwprgeRaw_ok _ _ _ hns hew

theorem trFindStep_ok (mc : MC) (txt layout : Str) (st : TRFindSt) (mo : Match)
    (h1 : legalNS mc.ns = true) (h2 : legalEW mc.ew = true) : ∃ r, trFindStep mc txt layout st mo = .ok r := by
  unfold trFindStep
  obtain ⟨r, hr⟩ := unpackTwprge_ok Unpack.twprge mo txt mc.ns mc.ew false h1 h2
  rw [hr]
  simp only []
  split
  · exact ⟨_, rfl⟩
  · split <;> split <;> exact ⟨_, rfl⟩

theorem C03_twprgeFinder_total (mc : MC) (txt layout : Str) (h1 : legalNS mc.ns = true) (h2 : legalEW mc.ew = true) :
    ∃ r, twprgeFinder mc txt layout = .ok r := by
  unfold twprgeFinder
  obtain ⟨r, hr⟩ := foldlM_ok (trFindStep mc txt layout) (Unpack.twprge.rx.finditer txt)
    (fun b a _ => trFindStep_ok mc txt layout b a h1 h2) {}
  rw [hr]
  exact ⟨_, rfl⟩

/-! ### SecFinder -/

/-- the lexical facts the remaining steps depend on (they are facts about the regenerated `multisec_regex`, checked by
    the differential harness, not proved): a section match always unpacks to at least one section -/
def SecsNonEmpty : Prop :=
  ∀ (text : Str) (mo : Match), mo ∈ Unpack.multisec.rx.finditer text → (Unpack.unpackSections (mo.group0 text)).secList ≠ []

theorem secFindStep_ok (text layout : Str) (needColon : Bool) (st : SecFindSt) (mo : Match)
    (hne : (Unpack.unpackSections (mo.group0 text)).secList ≠ []) (hI : ∀ m ∈ st.out, m.secs ≠ []) :
    ∃ st', secFindStep text layout needColon st mo = .ok st' ∧ ∀ m ∈ st'.out, m.secs ≠ [] := by
  unfold secFindStep
  simp only []
  split
  · split
    · exact ⟨_, rfl, hI⟩
    · split
      · exact ⟨_, rfl, hI⟩
      · rename_i h
        exact absurd h hne
  · refine ⟨_, rfl, ?_⟩
    intro m hm
    simp only [List.mem_append, List.mem_singleton] at hm
    rcases hm with hm | hm
    · exact hI m hm
    · subst hm
      exact hne

theorem secFinderPass_ok (hS : SecsNonEmpty) (text layout : Str) (needColon : Bool) :
    ∃ r, secFinderPass text layout needColon = .ok r ∧ ∀ m ∈ r.1, m.secs ≠ [] := by
  unfold secFinderPass
  obtain ⟨st, hst, hI⟩ := foldlM_ok_inv (secFindStep text layout needColon) (fun st => ∀ m ∈ st.out, m.secs ≠ [])
    (Unpack.multisec.rx.finditer text) (Unpack.multisec.rx.finditer text) (fun _ h => h)
    (fun b a ha hb => secFindStep_ok text layout needColon b a (hS text a ha) hb) {}
    (fun m hm => by simp at hm)
  rw [hst]
  exact ⟨_, rfl, hI⟩

theorem C03_secFinder_total (hS : SecsNonEmpty) (text layout : Str) (rc : ReqColon) :
    ∃ r, secFinder text layout rc = .ok r ∧ ∀ m ∈ r.1, m.secs ≠ [] := by
  unfold secFinder
  simp only []
  obtain ⟨⟨ms, ff, ln⟩, h1, hI1⟩ := secFinderPass_ok hS text layout ((rc == .yes || rc == .cautious) && firstLayouts layout)
  rw [h1]
  simp only []
  split
  · exact ⟨_, rfl, hI1⟩
  · split
    · obtain ⟨⟨ms2, ff2, ln2⟩, h2, hI2⟩ := secFinderPass_ok hS text layout false
      rw [h2]
      simp only []
      split
      · exact ⟨_, rfl, hI2⟩
      · exact ⟨_, rfl, hI2⟩
    · exact ⟨_, rfl, hI1⟩

/-! ### check_sec_within_tracts / construct_tracts -/

theorem secWithinFlags_ok (tracts : List TractObj) :
    ∀ (idxs : List Nat) (fl : Tract.Flags), (∀ i ∈ idxs, i < tracts.length) →
      ∃ fl', secWithinFlags tracts fl idxs = .ok fl' := by
  intro idxs
  induction idxs with
  | nil => intro fl _; exact ⟨fl, rfl⟩
  | cons i rest ih =>
    intro fl h
    have hi : i < tracts.length := h i (by simp)
    rw [secWithinFlags]
    simp only [List.getElem?_eq_getElem hi]
    exact ih _ (fun j hj => h j (by simp [hj]))

theorem secWithinIndexes_lt (specs : List (Str × Str × Bool)) : ∀ i ∈ secWithinIndexes specs, i < specs.length := by
  intro i hi
  unfold secWithinIndexes at hi
  simp only [List.mem_filter, List.mem_range] at hi
  exact hi.1

/-- `check_sec_within_tracts` cannot index out of range -/
theorem C03_secWithinFlags_total (tracts : List TractObj) (fl : Tract.Flags) (specs : List (Str × Str × Bool))
    (h : tracts.length = specs.length) : ∃ fl', secWithinFlags tracts fl (secWithinIndexes specs) = .ok fl' :=
  secWithinFlags_ok tracts _ fl (fun i hi => h ▸ secWithinIndexes_lt specs i hi)

/-- building the tracts cannot fail once the handed-down config text parses -/
theorem C03_buildTracts_total (uid0 : Nat) (hd : Str) (pq : Bool) (src : OptStr) (text : Str)
    (look : Option Str → TRS.TrsDict) (c : Config.Cfg) (hc : Config.ofText hd = .ok c)
    (specs : List (Str × Str × Bool)) (idx : Nat) :
    ∃ ts, buildTracts uid0 hd pq src text look idx specs = .ok ts ∧ ts.length = specs.length := by
  induction specs generalizing idx with
  | nil => exact ⟨[], rfl, rfl⟩
  | cons sp rest ih =>
    obtain ⟨desc, trs, sw⟩ := sp
    obtain ⟨t, ht⟩ := C03_tractInit_total (uid0 + idx) desc (some trs) (.text hd) (some pq) src (some text) idx look c hc
    obtain ⟨ts, hts, hlen⟩ := ih (idx + 1)
    refine ⟨t :: ts, ?_, by simp [hlen]⟩
    rw [buildTracts, ht]
    simp only [hts]

/-! ### ChunkParser -/

theorem parseChunkCore_total (hS : SecsNonEmpty) (mc : MC) (pc : ParserCfg) (text : Str) (copyAll : Bool) (layout : Str)
    (h1 : legalNS mc.ns = true) (h2 : legalEW mc.ew = true) :
    ∃ c, parseChunkCore mc pc text copyAll layout = .ok c := by
  unfold parseChunkCore
  simp only []
  obtain ⟨⟨trs, tff⟩, ht⟩ := C03_twprgeFinder_total mc text (chunkLayoutOf pc text copyAll layout) h1 h2
  rw [ht]
  simp only []
  obtain ⟨⟨secs, sff⟩, hs, hne⟩ := C03_secFinder_total hS text (chunkLayoutOf pc text copyAll layout) pc.requireColon
  rw [hs]
  simp only []
  split
  · apply C11_copyall_total
    intro s hs
    simp only [List.mem_map] at hs
    obtain ⟨m, hm, rfl⟩ := hs
    exact hne m hm
  · exact ⟨_, rfl⟩

/-- whatever goes wrong inside one chunk is an IndexError (an empty section list) — never anything else — under legal
    MasterConfig defaults; and nothing goes wrong under `SecsNonEmpty` -/
theorem C03_chunkParser_total (hS : SecsNonEmpty) (mc : MC) (pc : ParserCfg) (text : Str) (copyAll : Bool) (layout : Str)
    (parent : ParentSt) (h1 : legalNS mc.ns = true) (h2 : legalEW mc.ew = true) :
    ∃ p, chunkParser mc pc text copyAll layout parent = .ok p := by
  unfold chunkParser
  obtain ⟨c0, hc0⟩ := parseChunkCore_total hS mc pc text copyAll layout h1 h2
  rw [hc0]
  simp only []
  have hc : ∃ c, (if c0.comps.isEmpty = true then parseChunkCore mc pc text true layout else .ok c0) = .ok c := by
    split
    · exact parseChunkCore_total hS mc pc text true layout h1 h2
    · exact ⟨_, rfl⟩
  obtain ⟨c, hc⟩ := hc
  rw [hc]
  exact ⟨_, rfl⟩

/-! ### PLSSParser -/

theorem parseBlocks_total (hS : SecsNonEmpty) (mc : MC) (pc : ParserCfg) (copyAll : Bool) (layout : Str)
    (h1 : legalNS mc.ns = true) (h2 : legalEW mc.ew = true) (blocks : List Str) :
    ∀ parent, ∃ p, parseBlocks mc pc copyAll layout blocks parent = .ok p := by
  induction blocks with
  | nil => intro parent; exact ⟨parent, rfl⟩
  | cons b rest ih =>
    intro parent
    obtain ⟨p, hp⟩ := C03_chunkParser_total hS mc pc b copyAll layout parent h1 h2
    rw [parseBlocks, hp]
    exact ih p

theorem plssChunker_total (mc : MC) (text layout : Str) (h1 : legalNS mc.ns = true) (h2 : legalEW mc.ew = true) :
    ∃ r, plssChunker mc text layout = .ok r := by
  unfold plssChunker
  obtain ⟨⟨ms, ff⟩, h⟩ := C03_twprgeFinder_total mc text layout h1 h2
  rw [h]
  simp only []
  split
  · exact ⟨_, rfl⟩
  · split <;> exact ⟨_, rfl⟩

theorem parseAllBlocks_total (hS : SecsNonEmpty) (mc : MC) (ptext layout : Str) (a : ParserArgs) (fl : Tract.Flags)
    (h1 : legalNS mc.ns = true) (h2 : legalEW mc.ew = true) :
    ∃ p, parseAllBlocks mc ptext layout a fl = .ok p := by
  unfold parseAllBlocks
  simp only []
  split
  · rename_i e he
    split at he
    · split at he
      · rename_i e' he'
        exact (ok_ne_error (plssChunker_total mc ptext layout h1 h2) he').elim
      · cases he
    · cases he
  · rename_i blocks parent _
    split
    · rename_i e he
      exact (ok_ne_error (parseBlocks_total hS mc _ _ layout h1 h2 blocks parent) he).elim
    · split <;> exact ⟨_, rfl⟩

theorem tractSpecs_total (cleanUp : Bool) (comps : List Component) (h : ∀ comp ∈ comps, comp.sec.isSome = true) :
    ∃ specs, tractSpecs cleanUp comps = .ok specs := by
  induction comps with
  | nil => exact ⟨[], rfl⟩
  | cons comp rest ih =>
    obtain ⟨more, hm⟩ := ih (fun c hc => h c (by simp [hc]))
    have hs := h comp (by simp)
    rw [tractSpecs]
    cases hsec : comp.sec with
    | none => rw [hsec] at hs; cases hs
    | some secs =>
      simp only [hm]
      exact ⟨_, rfl⟩

/-- the converse: `construct_tracts` fails (with TypeError, and only so) exactly on a staged component without section -/
theorem tractSpecs_err (cleanUp : Bool) (comps : List Component) (e : PyErr) (h : tractSpecs cleanUp comps = .error e) :
    e = .typeError ∧ ∃ comp ∈ comps, comp.sec = none := by
  induction comps with
  | nil => cases h
  | cons comp rest ih =>
    rw [tractSpecs] at h
    split at h
    · rename_i hs
      cases h
      exact ⟨rfl, comp, by simp, hs⟩
    · split at h
      · rename_i e' he
        cases h
        obtain ⟨h1, c, hc, hn⟩ := ih he
        exact ⟨h1, c, by simp [hc], hn⟩
      · cases h

/-- the layout the PLSSParser works with: the one given, else the one deduced from the preprocessed text -/
def layoutOf (a : ParserArgs) (ptext : Str) : Str :=
  match a.layout with
  | some l => l
  | none => deduceLayout ptext

/-- core form: the hypothesis about the staged components is needed for the parser's own layout only -/
theorem plssParser_total_core (hS : SecsNonEmpty) (mc : MC) (uid0 : Nat) (text : Str) (a : ParserArgs)
    (look : Option Str → TRS.TrsDict)
    (h1 : legalNS mc.ns = true) (h2 : legalEW mc.ew = true)
    (h3 : ∀ x, a.defaultNS = some x → legalNS x = true) (h4 : ∀ x, a.defaultEW = some x → legalEW x = true)
    (hd : ∃ t, handedDownText a = .ok t ∧ ∃ c, Config.ofText t = .ok c)
    (hsec : ∀ pp parent, plssPreprocess mc text a.defaultNS a.defaultEW a.ocrScrub = .ok pp →
              parseAllBlocks mc pp.text (layoutOf a pp.text) a (fixedFlags pp.fixed) = .ok parent →
              ∀ comp ∈ parent.comps, comp.sec.isSome = true) :
    ∃ out, plssParser mc uid0 text a look = .ok out := by
  obtain ⟨t, ht, c, hc⟩ := hd
  unfold plssParser
  rw [ht]
  simp only []
  obtain ⟨pp, hpp⟩ := C03_preprocess_total mc text a.defaultNS a.defaultEW a.ocrScrub h1 h2 h3 h4
  rw [hpp]
  simp only []
  split
  · rename_i e he
    exact (ok_ne_error (parseAllBlocks_total hS mc _ _ a _ h1 h2) he).elim
  · rename_i parent hpar
    split
    · rename_i e he
      exact (ok_ne_error (tractSpecs_total _ parent.comps (hsec pp parent hpp hpar)) he).elim
    · rename_i specs hspecs
      obtain ⟨ts, hts, hlen⟩ := C03_buildTracts_total uid0 t a.parseQQ a.source text look c hc specs 0
      rw [hts]
      simp only []
      obtain ⟨fl', hfl⟩ := C03_secWithinFlags_total ts (examineUnused parent.fl parent.unused) specs hlen
      rw [hfl]
      exact ⟨_, rfl⟩

/-- the whole parser: the only exceptions are the two default-direction errors, a rejected handed-down config, and
    (lexical, excluded by the hypotheses `SecsNonEmpty` and `hsec`) a staged component without a section -/
theorem C03_plssParser_total (hS : SecsNonEmpty) (mc : MC) (uid0 : Nat) (text : Str) (a : ParserArgs)
    (look : Option Str → TRS.TrsDict)
    (h1 : legalNS mc.ns = true) (h2 : legalEW mc.ew = true)
    (h3 : ∀ x, a.defaultNS = some x → legalNS x = true) (h4 : ∀ x, a.defaultEW = some x → legalEW x = true)
    (hd : ∃ t, handedDownText a = .ok t ∧ ∃ c, Config.ofText t = .ok c)
    (hsec : ∀ pp layout parent, plssPreprocess mc text a.defaultNS a.defaultEW a.ocrScrub = .ok pp →
              parseAllBlocks mc pp.text layout a (fixedFlags pp.fixed) = .ok parent → ∀ comp ∈ parent.comps, comp.sec.isSome = true) :
    ∃ out, plssParser mc uid0 text a look = .ok out :=
  plssParser_total_core hS mc uid0 text a look h1 h2 h3 h4 hd (fun pp parent hpp hpar => hsec pp _ parent hpp hpar)

/-! ### which components carry a section (shrinking `hsec`) -/

/-- every staged component has a section list (possibly the error section), i.e. `construct_tracts` can iterate it -/
def AllSec (l : List Component) : Prop := ∀ comp ∈ l, comp.sec.isSome = true

theorem AllSec_nil : AllSec [] := fun _ h => by simp at h

theorem AllSec_append {l1 l2 : List Component} (h1 : AllSec l1) (h2 : AllSec l2) : AllSec (l1 ++ l2) := by
  intro comp hc
  simp only [List.mem_append] at hc
  rcases hc with hc | hc
  · exact h1 comp hc
  · exact h2 comp hc

theorem getNextTwprge_workingSec (c : Chunk) : (getNextTwprge c).workingSec = c.workingSec := by
  unfold getNextTwprge
  simp only []
  split <;> simp

/-- the invariant of the marker walk once a section has been drawn: a working section is always staged -/
def WalkInv (c : Chunk) : Prop := c.workingSec.isSome = true ∧ AllSec c.comps

theorem getNextSec_inv (c : Chunk) (h : AllSec c.comps) : WalkInv (getNextSec c) := by
  refine ⟨?_, ?_⟩
  · rw [getNextSec_workingSec]; rfl
  · rw [getNextSec_comps]; exact h

theorem getNextTwprge_inv (c : Chunk) (h : WalkInv c) : WalkInv (getNextTwprge c) := by
  refine ⟨?_, ?_⟩
  · rw [getNextTwprge_workingSec]; exact h.1
  · rw [getNextTwprge_comps]; exact h.2

theorem walkStep_inv (txt layout : Str) (markers : List (Nat × Marker)) (c : Chunk) (count : Nat) (h : WalkInv c) :
    WalkInv (walkStep txt layout markers c count) := by
  unfold walkStep
  simp only []
  split
  · exact getNextTwprge_inv c h
  · split
    · exact getNextSec_inv c h.2
    · split
      · exact h
      · split
        · refine ⟨rfl, ?_⟩
          show AllSec (c.comps ++ [_])
          apply AllSec_append h.2
          intro comp hc
          simp only [List.mem_singleton] at hc
          subst hc
          exact h.1
        · exact h

theorem total_foldl_inv {α β : Type} (f : β → α → β) (I : β → Prop) (hf : ∀ b a, I b → I (f b a)) :
    ∀ (l : List α) (b : β), I b → I (l.foldl f b) := by
  intro l
  induction l with
  | nil => intro b hb; exact hb
  | cons a rest ih => intro b hb; exact ih _ (hf b a hb)

/-- `_parse_meaningful` in a layout where `get_next_sec` runs first (desc_STR, TR_desc_S) stages only components
    that carry a section -/
theorem parseMeaningful_allSec (c : Chunk) (txt layout : Str) (markers : List (Nat × Marker))
    (hl : sDescLays layout = false) (hc : AllSec c.comps) : AllSec (parseMeaningful c txt layout markers).comps := by
  unfold parseMeaningful
  simp only [hl, Bool.not_false, if_true]
  apply And.right
  apply total_foldl_inv _ WalkInv (fun b a hb => walkStep_inv txt layout markers b a hb)
  split
  · exact getNextTwprge_inv _ (getNextSec_inv c hc)
  · exact getNextSec_inv c hc

theorem rebuildSecWithin_allSec (comps : List Component) (unused : List (Nat × Str)) (n : Nat) (h : AllSec comps) :
    AllSec (rebuildSecWithin comps unused n).1 := by
  unfold rebuildSecWithin
  split
  · rename_i t
    simp only []
    split
    · intro comp hc
      simp only [List.mem_singleton] at hc
      subst hc
      exact h t (by simp)
    · exact h
  · exact h

theorem foldl_addE_comps {α : Type} (f g : α → Str) (l : List α) (c : Chunk) :
    (l.foldl (fun c t => addE c (f t) (g t)) c).comps = c.comps := by
  induction l generalizing c with
  | nil => rfl
  | cons a rest ih => simp only [List.foldl_cons]; rw [ih]; rfl

theorem finishChunk_allSec (pc : ParserCfg) (c : Chunk) (h : AllSec c.comps) : AllSec (finishChunk pc c).comps := by
  unfold finishChunk
  simp only []
  have key : ∀ (c4 : Chunk), c4.comps = c.comps →
      AllSec (if pc.secWithin = true then
        { c4 with comps := (rebuildSecWithin c4.comps c4.unused Gen.MIN_REPORTABLE_UNUSED_LEN).1,
                  unused := (rebuildSecWithin c4.comps c4.unused Gen.MIN_REPORTABLE_UNUSED_LEN).2 } else c4).comps := by
    intro c4 h4
    split
    · exact rebuildSecWithin_allSec _ _ _ (h4 ▸ h)
    · exact h4 ▸ h
  apply key
  rw [foldl_addE_comps, foldl_addE_comps]
  rcases c with ⟨wtr, wsec, trl, secl, ltu, lsu, comps, un, fl⟩
  cases wtr <;> cases wsec <;> simp only [] <;> (repeat' split) <;> rfl

theorem sDescLays_COPY_ALL : sDescLays COPY_ALL = false := by decide

/-- one chunk parsed in a layout other than TRS_desc / S_desc_TR (so: desc_STR, TR_desc_S, copy_all, or anything
    unknown) stages only components that carry a section -/
theorem parseChunkCore_allSec (mc : MC) (pc : ParserCfg) (text : Str) (copyAll : Bool) (layout : Str) (c : Chunk)
    (hl : sDescLays (chunkLayoutOf pc text copyAll layout) = false)
    (h : parseChunkCore mc pc text copyAll layout = .ok c) : AllSec c.comps := by
  unfold parseChunkCore at h
  simp only [] at h
  split at h
  · cases h
  · split at h
    · cases h
    · split at h
      · obtain ⟨sec, tr, hc⟩ := C11_copyall_one_component _ _ _ h
        rw [hc]
        intro comp hm
        simp only [List.nil_append, List.mem_singleton] at hm
        subst hm
        rfl
      · cases h
        exact finishChunk_allSec _ _ (parseMeaningful_allSec _ _ _ _ hl AllSec_nil)

/-- the hypothesis that is left about staged components: chunks parsed in one of the two *section-first* layouts
    (TRS_desc, S_desc_TR — where a tract is staged at the end of a section match, so that the section must have been
    drawn at its start marker) stage only components with a section -/
def SecFirstChunksOK (mc : MC) (pc : ParserCfg) (lay : Str) : Prop :=
  ∀ chunk c, sDescLays (chunkLayoutOf pc chunk (lay == COPY_ALL) lay) = true →
    parseChunkCore mc pc chunk (lay == COPY_ALL) lay = .ok c → AllSec c.comps

theorem chunkParser_allSec (mc : MC) (pc : ParserCfg) (text : Str) (copyAll : Bool) (layout : Str) (parent p : ParentSt)
    (hsec : ∀ c, sDescLays (chunkLayoutOf pc text copyAll layout) = true →
      parseChunkCore mc pc text copyAll layout = .ok c → AllSec c.comps)
    (hp : AllSec parent.comps) (h : chunkParser mc pc text copyAll layout parent = .ok p) : AllSec p.comps := by
  unfold chunkParser at h
  split at h
  · cases h
  · rename_i c0 hc0
    have h0 : AllSec c0.comps := by
      cases hl : sDescLays (chunkLayoutOf pc text copyAll layout) with
      | true => exact hsec c0 hl hc0
      | false => exact parseChunkCore_allSec _ _ _ _ _ _ hl hc0
    split at h
    · cases h
    · rename_i c hc
      cases h
      apply AllSec_append hp
      split at hc
      · exact parseChunkCore_allSec mc pc text true layout c (by exact sDescLays_COPY_ALL) hc
      · cases hc
        exact h0

theorem parseBlocks_allSec (mc : MC) (pc : ParserCfg) (lay : Str) (hsec : SecFirstChunksOK mc pc lay)
    (blocks : List Str) : ∀ (parent p : ParentSt), AllSec parent.comps →
      parseBlocks mc pc (lay == COPY_ALL) lay blocks parent = .ok p → AllSec p.comps := by
  induction blocks with
  | nil =>
    intro parent p hp h
    cases h
    exact hp
  | cons b rest ih =>
    intro parent p hp h
    rw [parseBlocks] at h
    split at h
    · cases h
    · rename_i p1 hp1
      exact ih p1 p (chunkParser_allSec mc pc b _ lay parent p1 (hsec b) hp hp1) h

/-- the `ParserCfg` the PLSSParser hands to its ChunkParsers -/
def parserCfgOf (a : ParserArgs) : ParserCfg :=
  { mandateLayout := !a.segment && a.layout.isSome, requireColon := a.requireColon, secWithin := a.secWithin }

theorem parseAllBlocks_allSec (mc : MC) (ptext lay : Str) (a : ParserArgs) (fl : Tract.Flags) (parent : ParentSt)
    (hsec : SecFirstChunksOK mc (parserCfgOf a) lay)
    (h : parseAllBlocks mc ptext lay a fl = .ok parent) : AllSec parent.comps := by
  unfold parseAllBlocks at h
  simp only [] at h
  split at h
  · cases h
  · rename_i blocks parent0 hstart
    have h0 : AllSec parent0.comps := by
      split at hstart
      · split at hstart
        · cases hstart
        · cases hstart
          exact AllSec_nil
      · cases hstart
        exact AllSec_nil
    split at h
    · cases h
    · rename_i p1 hp1
      have h1 : AllSec p1.comps := parseBlocks_allSec mc (parserCfgOf a) lay hsec blocks parent0 p1 h0 hp1
      split at h
      · cases h
        exact rebuildSecWithin_allSec _ _ _ h1
      · cases h
        exact h1

/-- `C03_plssParser_total` with the hypothesis on staged components shrunk to chunks parsed in a section-first layout
    (TRS_desc / S_desc_TR): everything staged in the other layouts is proved to carry a section -/
theorem C03_plssParser_total_layouts (hS : SecsNonEmpty) (mc : MC) (uid0 : Nat) (text : Str) (a : ParserArgs)
    (look : Option Str → TRS.TrsDict)
    (h1 : legalNS mc.ns = true) (h2 : legalEW mc.ew = true)
    (h3 : ∀ x, a.defaultNS = some x → legalNS x = true) (h4 : ∀ x, a.defaultEW = some x → legalEW x = true)
    (hd : ∃ t, handedDownText a = .ok t ∧ ∃ c, Config.ofText t = .ok c)
    (hsec : ∀ pp, plssPreprocess mc text a.defaultNS a.defaultEW a.ocrScrub = .ok pp →
              SecFirstChunksOK mc (parserCfgOf a) (layoutOf a pp.text)) :
    ∃ out, plssParser mc uid0 text a look = .ok out :=
  plssParser_total_core hS mc uid0 text a look h1 h2 h3 h4 hd
    (fun pp parent hpp hpar => parseAllBlocks_allSec mc pp.text _ a _ parent (hsec pp hpp) hpar)

/-- no hypothesis on staged components at all when the layout is forced to copy_all -/
theorem C03_plssParser_total_copyall (hS : SecsNonEmpty) (mc : MC) (uid0 : Nat) (text : Str) (a : ParserArgs)
    (look : Option Str → TRS.TrsDict)
    (h1 : legalNS mc.ns = true) (h2 : legalEW mc.ew = true)
    (h3 : ∀ x, a.defaultNS = some x → legalNS x = true) (h4 : ∀ x, a.defaultEW = some x → legalEW x = true)
    (hd : ∃ t, handedDownText a = .ok t ∧ ∃ c, Config.ofText t = .ok c)
    (hl : a.layout = some COPY_ALL) :
    ∃ out, plssParser mc uid0 text a look = .ok out := by
  apply C03_plssParser_total_layouts hS mc uid0 text a look h1 h2 h3 h4 hd
  intro pp _ chunk c hs
  have hlay : layoutOf a pp.text = COPY_ALL := by unfold layoutOf; rw [hl]
  rw [hlay] at hs
  have : chunkLayoutOf (parserCfgOf a) chunk (COPY_ALL == COPY_ALL) COPY_ALL = COPY_ALL := rfl
  rw [this, sDescLays_COPY_ALL] at hs
  cases hs

/-- … nor when a description-first layout (desc_STR, TR_desc_S; anything but TRS_desc / S_desc_TR) is mandated and the
    text is not segmented -/
theorem C03_plssParser_total_descfirst (hS : SecsNonEmpty) (mc : MC) (uid0 : Nat) (text : Str) (a : ParserArgs)
    (look : Option Str → TRS.TrsDict)
    (h1 : legalNS mc.ns = true) (h2 : legalEW mc.ew = true)
    (h3 : ∀ x, a.defaultNS = some x → legalNS x = true) (h4 : ∀ x, a.defaultEW = some x → legalEW x = true)
    (hd : ∃ t, handedDownText a = .ok t ∧ ∃ c, Config.ofText t = .ok c)
    (l : Str) (hl : a.layout = some l) (hseg : a.segment = false) (hnot : sDescLays l = false) :
    ∃ out, plssParser mc uid0 text a look = .ok out := by
  apply C03_plssParser_total_layouts hS mc uid0 text a look h1 h2 h3 h4 hd
  intro pp _ chunk c hs
  have hlay : layoutOf a pp.text = l := by unfold layoutOf; rw [hl]
  rw [hlay] at hs
  have : sDescLays (chunkLayoutOf (parserCfgOf a) chunk (l == COPY_ALL) l) = false := by
    unfold chunkLayoutOf parserCfgOf
    simp only [hseg, hl, Bool.not_false, Option.isSome_some, Bool.and_self, if_true]
    split
    · exact sDescLays_COPY_ALL
    · exact hnot
  rw [this] at hs
  cases hs

/-! ### which exceptions are possible at all -/

theorem trFindStep_err (mc : MC) (txt layout : Str) (st : TRFindSt) (mo : Match) (e : PyErr)
    (h : trFindStep mc txt layout st mo = .error e) : e = .defaultNS ∨ e = .defaultEW := by
  unfold trFindStep at h
  split at h
  · rename_i e' he
    cases h
    exact unpackTwprge_err _ _ _ _ _ _ _ he
  · simp only [] at h
    split at h
    · cases h
    · split at h <;> split at h <;> cases h

theorem twprgeFinder_err (mc : MC) (txt layout : Str) (e : PyErr) (h : twprgeFinder mc txt layout = .error e) :
    e = .defaultNS ∨ e = .defaultEW := by
  unfold twprgeFinder at h
  split at h
  · rename_i e' he
    cases h
    exact foldlM_err _ (fun e => e = .defaultNS ∨ e = .defaultEW) (fun b a e h => trFindStep_err mc txt layout b a e h) _ _ _ he
  · cases h

theorem secFindStep_err (text layout : Str) (needColon : Bool) (st : SecFindSt) (mo : Match) (e : PyErr)
    (h : secFindStep text layout needColon st mo = .error e) : e = .indexError := by
  unfold secFindStep at h
  simp only [] at h
  split at h
  · split at h
    · cases h
    · split at h
      · cases h
      · cases h; rfl
  · cases h

theorem secFinderPass_err (text layout : Str) (needColon : Bool) (e : PyErr)
    (h : secFinderPass text layout needColon = .error e) : e = .indexError := by
  unfold secFinderPass at h
  split at h
  · rename_i e' he
    cases h
    exact foldlM_err _ (fun e => e = .indexError) (fun b a e h => secFindStep_err text layout needColon b a e h) _ _ _ he
  · cases h

theorem secFinder_err (text layout : Str) (rc : ReqColon) (e : PyErr)
    (h : secFinder text layout rc = .error e) : e = .indexError := by
  unfold secFinder at h
  simp only [] at h
  split at h
  · rename_i e' he
    cases h
    exact secFinderPass_err _ _ _ _ he
  · split at h
    · cases h
    · split at h
      · split at h
        · rename_i e' he
          cases h
          exact secFinderPass_err _ _ _ _ he
        · split at h <;> cases h
      · cases h

theorem parseCopyAll_err (c : Chunk) (txt : Str) (e : PyErr) (h : parseCopyAll c txt = .error e) : e = .indexError := by
  unfold parseCopyAll at h
  simp only [] at h
  split at h
  · cases h
  · cases h; rfl

theorem parseChunkCore_err (mc : MC) (pc : ParserCfg) (text : Str) (copyAll : Bool) (layout : Str) (e : PyErr)
    (h : parseChunkCore mc pc text copyAll layout = .error e) : e = .defaultNS ∨ e = .defaultEW ∨ e = .indexError := by
  unfold parseChunkCore at h
  simp only [] at h
  split at h
  · rename_i e' he
    cases h
    rcases twprgeFinder_err _ _ _ _ he with h | h
    · exact Or.inl h
    · exact Or.inr (Or.inl h)
  · split at h
    · rename_i e' he
      cases h
      exact Or.inr (Or.inr (secFinder_err _ _ _ _ he))
    · split at h
      · exact Or.inr (Or.inr (parseCopyAll_err _ _ _ h))
      · cases h

theorem chunkParser_err (mc : MC) (pc : ParserCfg) (text : Str) (copyAll : Bool) (layout : Str) (parent : ParentSt)
    (e : PyErr) (h : chunkParser mc pc text copyAll layout parent = .error e) :
    e = .defaultNS ∨ e = .defaultEW ∨ e = .indexError := by
  unfold chunkParser at h
  split at h
  · rename_i e' he
    cases h
    exact parseChunkCore_err _ _ _ _ _ _ he
  · split at h
    · rename_i e' he
      cases h
      split at he
      · exact parseChunkCore_err _ _ _ _ _ _ he
      · cases he
    · cases h

theorem parseChunkCore_err_legal (mc : MC) (pc : ParserCfg) (text : Str) (copyAll : Bool) (layout : Str)
    (h1 : legalNS mc.ns = true) (h2 : legalEW mc.ew = true) (e : PyErr)
    (h : parseChunkCore mc pc text copyAll layout = .error e) : e = .indexError := by
  unfold parseChunkCore at h
  simp only [] at h
  split at h
  · rename_i e' he
    exact (ok_ne_error (C03_twprgeFinder_total mc text _ h1 h2) he).elim
  · split at h
    · rename_i e' he
      cases h
      exact secFinder_err _ _ _ _ he
    · split at h
      · exact parseCopyAll_err _ _ _ h
      · cases h

/-- whatever goes wrong inside one chunk is an IndexError (an empty section list) — never anything else — under legal
    MasterConfig defaults -/
theorem C03_chunkParser_errors (mc : MC) (pc : ParserCfg) (text : Str) (copyAll : Bool) (layout : Str)
    (parent : ParentSt) (h1 : legalNS mc.ns = true) (h2 : legalEW mc.ew = true) (e : PyErr)
    (h : chunkParser mc pc text copyAll layout parent = .error e) : e = .indexError := by
  unfold chunkParser at h
  split at h
  · rename_i e' he
    cases h
    exact parseChunkCore_err_legal _ _ _ _ _ h1 h2 _ he
  · split at h
    · rename_i e' he
      cases h
      split at he
      · exact parseChunkCore_err_legal _ _ _ _ _ h1 h2 _ he
      · cases he
    · cases h

theorem parseBlocks_err (mc : MC) (pc : ParserCfg) (copyAll : Bool) (layout : Str) (blocks : List Str) :
    ∀ (parent : ParentSt) (e : PyErr), parseBlocks mc pc copyAll layout blocks parent = .error e →
      e = .defaultNS ∨ e = .defaultEW ∨ e = .indexError := by
  induction blocks with
  | nil => intro parent e h; cases h
  | cons b rest ih =>
    intro parent e h
    rw [parseBlocks] at h
    split at h
    · rename_i e' he
      cases h
      exact chunkParser_err _ _ _ _ _ _ _ he
    · exact ih _ _ h

theorem plssChunker_err (mc : MC) (text layout : Str) (e : PyErr) (h : plssChunker mc text layout = .error e) :
    e = .defaultNS ∨ e = .defaultEW := by
  unfold plssChunker at h
  split at h
  · rename_i e' he
    cases h
    exact twprgeFinder_err _ _ _ _ he
  · split at h
    · cases h
    · split at h <;> cases h

theorem parseAllBlocks_err (mc : MC) (ptext layout : Str) (a : ParserArgs) (fl : Tract.Flags) (e : PyErr)
    (h : parseAllBlocks mc ptext layout a fl = .error e) : e = .defaultNS ∨ e = .defaultEW ∨ e = .indexError := by
  unfold parseAllBlocks at h
  simp only [] at h
  split at h
  · rename_i e' he
    cases h
    split at he
    · split at he
      · rename_i e'' he'
        cases he
        rcases plssChunker_err _ _ _ _ he' with h | h
        · exact Or.inl h
        · exact Or.inr (Or.inl h)
      · cases he
    · cases he
  · split at h
    · rename_i e' he
      cases h
      exact parseBlocks_err _ _ _ _ _ _ _ he
    · split at h <;> cases h

theorem buildTracts_err (uid0 : Nat) (hd : Str) (pq : Bool) (src : OptStr) (text : Str)
    (look : Option Str → TRS.TrsDict) (specs : List (Str × Str × Bool)) :
    ∀ (idx : Nat) (e : PyErr), buildTracts uid0 hd pq src text look idx specs = .error e → Config.ofText hd = .error e := by
  induction specs with
  | nil => intro idx e h; cases h
  | cons sp rest ih =>
    intro idx e h
    obtain ⟨desc, trs, sw⟩ := sp
    rw [buildTracts] at h
    split at h
    · rename_i e' he
      cases h
      exact C03_tractInit_error_is_config _ _ _ _ _ _ _ _ _ _ he
    · split at h
      · rename_i e' he
        cases h
        exact ih _ _ he
      · cases h

/-- every exception `PLSSParser` can raise, for any text and any arguments: the handed-down config text is rejected
    (before or after the parser's own settings are merged in), a default direction is illegal, a section match unpacked
    to no section (IndexError; excluded by `SecsNonEmpty`), or a component was staged without section (TypeError) -/
theorem C03_plssParser_errors (mc : MC) (uid0 : Nat) (text : Str) (a : ParserArgs) (look : Option Str → TRS.TrsDict)
    (e : PyErr) (h : plssParser mc uid0 text a look = .error e) :
    handedDownText a = .error e ∨ (∃ t, handedDownText a = .ok t ∧ Config.ofText t = .error e) ∨
      e = .defaultNS ∨ e = .defaultEW ∨ e = .indexError ∨ e = .typeError := by
  unfold plssParser at h
  split at h
  · rename_i e' he
    cases h
    exact Or.inl he
  · rename_i t ht
    split at h
    · rename_i e' he
      cases h
      rcases C03_preprocess_errors _ _ _ _ _ _ he with h | h
      · exact Or.inr (Or.inr (Or.inl h))
      · exact Or.inr (Or.inr (Or.inr (Or.inl h)))
    · simp only [] at h
      split at h
      · rename_i e' he
        cases h
        rcases parseAllBlocks_err _ _ _ _ _ _ he with h | h | h
        · exact Or.inr (Or.inr (Or.inl h))
        · exact Or.inr (Or.inr (Or.inr (Or.inl h)))
        · exact Or.inr (Or.inr (Or.inr (Or.inr (Or.inl h))))
      · split at h
        · rename_i e' he
          cases h
          exact Or.inr (Or.inr (Or.inr (Or.inr (Or.inr (tractSpecs_err _ _ _ he).1))))
        · split at h
          · rename_i e' he
            cases h
            exact Or.inr (Or.inl ⟨t, ht, buildTracts_err _ _ _ _ _ _ _ _ _ he⟩)
          · rename_i tracts htr
            split at h
            · rename_i e' he
              have hlen := (C09_provenance _ _ _ _ _ _ _ 0 tracts htr).1
              exact (ok_ne_error (C03_secWithinFlags_total tracts _ _ hlen) he).elim
            · cases h


#print axioms C03_tractParse_total
#print axioms C03_tractParseMethod_total
#print axioms C03_tractInit_total
#print axioms C03_tractInit_error_is_config
#print axioms C03_preprocess_errors
#print axioms C03_preprocess_total
#print axioms C03_findTwprge_total
#print axioms C03_twprgeFinder_total
#print axioms C03_secFinder_total
#print axioms C03_secWithinFlags_total
#print axioms C03_buildTracts_total
#print axioms C03_chunkParser_total
#print axioms C03_chunkParser_errors
#print axioms C03_plssParser_total
#print axioms C03_plssParser_total_layouts
#print axioms C03_plssParser_total_copyall
#print axioms C03_plssParser_total_descfirst
#print axioms C03_plssParser_errors

end PyTRS
