/-
C12 / C09: the standard Twp/Rge/Sec form round-trips through `trs_to_dict`, the result does not depend on letter
case, a tract never carries the 'undefined' placeholder unless the input had an underscore, and `construct_trs` on
numbers yields the canonical string.

Everything is reduced to the regex-free recogniser of `TrsRecog`; the only facts needed about `str.lower()` are
two linear checks of the generated table `Gen.PY_LOWER` (`decide +kernel`): no output is empty, '_' or an ASCII
capital, and no output is itself a key (so `lower()` is idempotent on every string, `pyLower_idem`).
-/
import PyTRS.Lemmas.TrsRecog
import PyTRS.Lemmas.RxEquiv
import PyTRS.Lemmas.IntRepr
namespace PyTRS
open PyTRS.TRS

namespace TrsRound
open TrsRecog

/-! ## `str.lower()` -/

theorem pyLower_append (a b : Str) : pyLower (a ++ b) = pyLower a ++ pyLower b := List.flatMap_append

theorem pyLower_cons (c : Char) (t : Str) : pyLower (c :: t) = pyLowerChar c ++ pyLower t := by
  simp [pyLower]

theorem pyLower_nil : pyLower [] = [] := rfl

theorem mem_pyLower {u : Char} {s : Str} : u ∈ pyLower s ↔ ∃ c ∈ s, u ∈ pyLowerChar c := by
  simp [pyLower, List.mem_flatMap]

/-- a string all of whose characters are fixed by `lower()` -/
theorem pyLower_fixed (l : Str) (h : ∀ u ∈ l, pyLowerChar u = [u]) : pyLower l = l := by
  induction l with
  | nil => rfl
  | cons c t ih =>
    rw [pyLower_cons, h c (by simp), ih (fun u hu => h u (by simp [hu]))]
    rfl

def validNat (m : Nat) : Bool := decide (m < 55296) || (decide (57343 < m) && decide (m < 1114112))

theorem toNat_ofNat {m : Nat} (h : validNat m = true) : (Char.ofNat m).toNat = m := by
  have hv : m.isValidChar := by
    simp only [validNat, Bool.or_eq_true, Bool.and_eq_true, decide_eq_true_eq] at h
    exact h
  simp [Char.ofNat, hv, Char.ofNatAux, Char.toNat]

theorem lookupTbl_some {tbl : List (Nat × List Nat)} {n : Nat} {l : List Nat} (h : lookupTbl tbl n = some l) :
    (n, l) ∈ tbl := by
  unfold lookupTbl at h
  cases hf : tbl.find? (fun e => e.1 == n) with
  | none => simp [hf] at h
  | some e =>
    simp [hf] at h
    have h1 := List.mem_of_find?_eq_some hf
    have h2 := List.find?_some hf
    simp at h2
    rw [← h, ← h2]
    exact h1

theorem lookupTbl_none {tbl : List (Nat × List Nat)} {n : Nat} (h : lookupTbl tbl n = none) :
    ∀ e ∈ tbl, e.1 ≠ n := by
  unfold lookupTbl at h
  cases hf : tbl.find? (fun e => e.1 == n) with
  | some e => simp [hf] at h
  | none =>
    rw [List.find?_eq_none] at hf
    intro e he
    simpa using hf e he

/-- the four ways `lower()` treats a character -/
theorem lowerChar_cases (c : Char) :
    (c.toNat < 128 ∧ (65 ≤ c.toNat ∧ c.toNat ≤ 90) ∧ pyLowerChar c = [Char.ofNat (c.toNat + 32)]) ∨
    (c.toNat < 128 ∧ ¬ (65 ≤ c.toNat ∧ c.toNat ≤ 90) ∧ pyLowerChar c = [c]) ∨
    (128 ≤ c.toNat ∧ ∃ l, (c.toNat, l) ∈ Gen.PY_LOWER ∧ pyLowerChar c = l.map Char.ofNat) ∨
    (128 ≤ c.toNat ∧ pyLowerChar c = [c]) := by
  unfold pyLowerChar
  simp only
  by_cases h : c.toNat < 128
  · by_cases h2 : 65 ≤ c.toNat ∧ c.toNat ≤ 90
    · left; simp [h, h2]
    · right; left
      refine ⟨h, h2, ?_⟩
      have : (decide (65 ≤ c.toNat) && decide (c.toNat ≤ 90)) = false := by
        simpa using h2
      simp [h, this]
  · right; right
    cases hl : lookupTbl Gen.PY_LOWER c.toNat with
    | some l => left; exact ⟨by omega, l, lookupTbl_some hl, by simp [h]⟩
    | none => right; exact ⟨by omega, by simp [h]⟩

/-! ### two linear checks of the table -/

/-- the keys of the table as a bit mask (bit `n` set iff `n` is a key): the kernel evaluates it once, and then each
    membership test is a single shift -/
def keyMask : Nat := Gen.PY_LOWER.foldr (fun e acc => acc ||| (1 <<< e.1)) 0

theorem testBit_keyMask_of_mem (tbl : List (Nat × List Nat)) {n : Nat} {l : List Nat} (h : (n, l) ∈ tbl) :
    (tbl.foldr (fun e acc => acc ||| (1 <<< e.1)) 0).testBit n = true := by
  induction tbl with
  | nil => cases h
  | cons e t ih =>
    rw [List.foldr_cons, Nat.testBit_or]
    rcases List.mem_cons.mp h with h | h
    · subst h
      simp [Nat.testBit_shiftLeft]
    · rw [ih h]; rfl

/-- an admissible output code point: valid, not '_' and not an ASCII capital -/
def outOk (m : Nat) : Bool := validNat m && m != 95 && !(decide (65 ≤ m) && decide (m ≤ 90))

/-- T1: no entry is empty; no output is '_' or an ASCII capital -/
theorem tbl_out : Gen.PY_LOWER.all (fun e => !e.2.isEmpty && e.2.all outOk) = true := by decide +kernel

/-- T2: no output beyond ASCII is a key -/
theorem tbl_idem :
    Gen.PY_LOWER.all (fun e => e.2.all (fun m => Nat.ble m 127 || !(keyMask.testBit m))) = true := by
  decide +kernel

theorem tbl_out_mem {n : Nat} {l : List Nat} (h : (n, l) ∈ Gen.PY_LOWER) : l ≠ [] ∧ ∀ m ∈ l, outOk m = true := by
  have := List.all_eq_true.mp tbl_out _ h
  simp only [Bool.and_eq_true, Bool.not_eq_true', List.isEmpty_eq_false_iff, List.all_eq_true] at this
  exact this

/-- outputs of `lower()` are never empty -/
theorem pyLowerChar_ne_nil (c : Char) : pyLowerChar c ≠ [] := by
  rcases lowerChar_cases c with ⟨_, _, h⟩ | ⟨_, _, h⟩ | ⟨_, l, hl, h⟩ | ⟨_, h⟩
  · simp [h]
  · simp [h]
  · rw [h]; simpa using (tbl_out_mem hl).1
  · simp [h]

theorem pyLower_ne_nil {s : Str} (h : s ≠ []) : pyLower s ≠ [] := by
  rcases s with _ | ⟨c, t⟩
  · exact absurd rfl h
  · rw [pyLower_cons]
    intro h'
    exact pyLowerChar_ne_nil c (List.append_eq_nil_iff.mp h').1

theorem valid_small {m : Nat} (h : m < 55296) : validNat m = true := by simp [validNat, h]

/-- what `lower()` can output: never an ASCII capital; '_' only from '_' -/
theorem out_facts {c u : Char} (h : u ∈ pyLowerChar c) :
    ¬ (65 ≤ u.toNat ∧ u.toNat ≤ 90) ∧ (u.toNat = 95 → c = u) := by
  rcases lowerChar_cases c with ⟨h1, h2, e⟩ | ⟨h1, h2, e⟩ | ⟨h1, l, hl, e⟩ | ⟨h1, e⟩
  · rw [e] at h; simp at h; subst h
    rw [toNat_ofNat (valid_small (by omega))]; omega
  · rw [e] at h; simp at h; subst h; exact ⟨h2, fun _ => rfl⟩
  · rw [e] at h; simp at h
    obtain ⟨m, hm, rfl⟩ := h
    have := (tbl_out_mem hl).2 m hm
    simp only [outOk, Bool.and_eq_true, bne_iff_ne, ne_eq, Bool.not_eq_true', Bool.and_eq_false_iff,
      decide_eq_false_iff_not] at this
    rw [toNat_ofNat this.1.1]
    omega
  · rw [e] at h; simp at h; subst h; exact ⟨by omega, fun _ => rfl⟩

/-- every output of `lower()` is fixed by `lower()` -/
theorem out_fixed {c u : Char} (h : u ∈ pyLowerChar c) : pyLowerChar u = [u] := by
  rcases lowerChar_cases u with ⟨h1, h2, e⟩ | ⟨h1, h2, e⟩ | ⟨h1, l, hl, e⟩ | ⟨h1, e⟩
  · exact absurd h2 (out_facts h).1
  · exact e
  · have hk : keyMask.testBit u.toNat = true := testBit_keyMask_of_mem _ hl
    rcases lowerChar_cases c with ⟨_, _, e'⟩ | ⟨_, _, e'⟩ | ⟨_, l', hl', e'⟩ | ⟨_, e'⟩
    · rw [e'] at h; simp at h; subst h
      rw [toNat_ofNat (valid_small (by omega))] at h1; omega
    · rw [e'] at h; simp at h; subst h; omega
    · exfalso
      rw [e'] at h; simp at h
      obtain ⟨m, hm, rfl⟩ := h
      have hv : validNat m = true := by
        have := (tbl_out_mem hl').2 m hm
        simp only [outOk, Bool.and_eq_true] at this
        exact this.1.1
      have := List.all_eq_true.mp (List.all_eq_true.mp tbl_idem _ hl') m hm
      rw [toNat_ofNat hv] at h1 hk
      have h127 : Nat.ble m 127 = false := by rw [ble_dec]; simp; omega
      rw [h127, hk] at this
      simp at this
    · rw [e'] at h; simp at h; subst h
      exact e'
  · exact e

/-- `str.lower()` is idempotent -/
theorem pyLower_idem (s : Str) : pyLower (pyLower s) = pyLower s := by
  apply pyLower_fixed
  intro u hu
  obtain ⟨c, _, hc⟩ := mem_pyLower.mp hu
  exact out_fixed hc

/-! ## recognised strings -/

/-- `trs_to_dict` is "recognise, then read off the dict" -/
theorem trsToDict_eq (x : Option Str) :
    trsToDict x = ((recognise (pyLower (normIn x))).map dictOf).getD errDict := by
  cases h : recognise (pyLower (normIn x)) with
  | none => rw [trsToDict_reject x h]; rfl
  | some c => rw [trsToDict_eq_dictOf x c h]; rfl

theorem normIn_some {s : Str} (h : s ≠ []) : normIn (some s) = s := by
  rcases s with _ | ⟨c, t⟩
  · exact absurd rfl h
  · rfl

/-! ## wrapping the result again -/

/-- the components read back from the `trs` entry: the same, with an absent section showing as "xx" -/
def reParts (c : TrsParts) : TrsParts := { c with sec := some (c.sec.getD ['x', 'x']) }

theorem lower_trText (err : Str) (herr : pyLower err = ['x', 'x', 'x', 'z']) {w : List Char}
    {info : Option (List Char × Char)} (h1 : pyLower w = w)
    (h2 : info = none → w = ['x', 'x', 'x', 'z'] ∨ w = undefTR) : pyLower (trText err w info) = w := by
  unfold trText
  rcases info with _ | i
  · rcases h2 rfl with rfl | rfl
    · simpa [undefTR] using herr
    · simpa using h1
  · simpa using h1

theorem lower_secText (sc : Option (List Char)) (h : ∀ s, sc = some s → pyLower s = s) :
    pyLower (secText sc) = sc.getD ['x', 'x'] := by
  rcases sc with _ | s
  · decide
  · unfold secText
    by_cases hs : s = ['x', 'x']
    · subst hs; decide
    · simp only [beq_iff_eq, hs, if_false, Option.getD_some]
      exact h s rfl

theorem reParts_spec (c : TrsParts) (hg : c.Good) (hfix : ∀ u ∈ c.text, pyLowerChar u = [u]) :
    pyLower (dictOf c).trs = (reParts c).text ∧ (reParts c).Good ∧ dictOf (reParts c) = dictOf c := by
  have f1 : pyLower c.twp = c.twp :=
    pyLower_fixed _ (fun u hu => hfix u (by simp [TrsParts.text, hu]))
  have f2 : pyLower c.rge = c.rge :=
    pyLower_fixed _ (fun u hu => hfix u (by simp [TrsParts.text, hu]))
  have f3 : ∀ s, c.sec = some s → pyLower s = s := fun s hs =>
    pyLower_fixed _ (fun u hu => hfix u (by simp [TrsParts.text, hs, hu]))
  refine ⟨?_, ?_, ?_⟩
  · show pyLower (trText (S Gen.ERR_TWP) c.twp c.twpNum ++ trText (S Gen.ERR_RGE) c.rge c.rgeNum ++ secText c.sec) = _
    rw [pyLower_append, pyLower_append, lower_trText _ (by decide) f1 hg.twpLit,
      lower_trText _ (by decide) f2 hg.rgeLit, lower_secText _ f3]
    rfl
  · refine ⟨hg.twpNum, hg.twpLit, hg.rgeNum, hg.rgeLit, ?_⟩
    intro s hs
    simp only [reParts, Option.some.injEq] at hs
    rcases hc : c.sec with _ | s'
    · rw [hc] at hs; simp at hs; subst hs
      exact ⟨'x', 'x', rfl, by decide⟩
    · rw [hc] at hs; simp at hs; subst hs
      exact hg.sec _ hc
  · rcases hc : c.sec with _ | s'
    · obtain ⟨tw, ti, rg, ri, sc⟩ := c
      simp only at hc; subst hc
      simp [reParts, dictOf, secText, pyInt_xx]
    · obtain ⟨tw, ti, rg, ri, sc⟩ := c
      simp only at hc; subst hc
      rfl

theorem text_ne_nil {c : TrsParts} (hg : c.Good) : c.text ≠ [] := by
  intro h
  unfold TrsParts.text at h
  simp only [List.append_eq_nil_iff] at h
  rcases hi : c.twpNum with _ | ⟨d, ch⟩
  · rcases hg.twpLit hi with e | e <;> rw [e] at h <;> simp [undefTR] at h
  · have := (hg.twpNum d ch hi).1
    rw [this] at h; simp at h

/-- the `trs` entry of any result is recognised, and gives back the same dict -/
theorem rewrap (x : Option Str) :
    ∃ c', recognise (pyLower (trsToDict x).trs) = some c' ∧ (trsToDict x).trs ≠ [] ∧ dictOf c' = trsToDict x := by
  cases hr : recognise (pyLower (normIn x)) with
  | none =>
    rw [trsToDict_reject x hr]
    exact ⟨⟨['x', 'x', 'x', 'z'], none, ['x', 'x', 'x', 'z'], none, some ['x', 'x']⟩, by decide, by decide, by decide⟩
  | some c =>
    rw [trsToDict_eq_dictOf x c hr]
    obtain ⟨e, g⟩ := recognise_sound hr
    have hfix : ∀ u ∈ c.text, pyLowerChar u = [u] := by
      intro u hu
      rw [← e] at hu
      obtain ⟨c0, _, hc0⟩ := mem_pyLower.mp hu
      exact out_fixed hc0
    obtain ⟨h1, h2, h3⟩ := reParts_spec c g hfix
    refine ⟨reParts c, ?_, ?_, h3⟩
    · rw [h1]; exact recognise_complete _ h2
    · intro h0
      rw [h0] at h1
      exact text_ne_nil h2 h1.symm


/-! ## `construct_trs` on numbers -/

def asciiDigit (c : Char) : Prop := 48 ≤ c.toNat ∧ c.toNat ≤ 57

instance (c : Char) : Decidable (asciiDigit c) := by unfold asciiDigit; infer_instance

theorem natToStr_ascii (n : Nat) : ∀ c ∈ natToStr n, asciiDigit c := by
  intro c hc
  have := natToStr_digits n c hc
  rw [Char.le_def, Char.le_def, UInt32.le_iff_toNat_le, UInt32.le_iff_toNat_le] at this
  exact this

theorem isDigit_of_ascii {c : Char} (h : asciiDigit c) : isDigit c = true := by
  unfold isDigit CharSet.mem
  rw [List.any_eq_true]
  exact ⟨(48, 57), by decide, by simp; exact h⟩

theorem word_of_ascii {c : Char} (h : asciiDigit c) : Gen.cs_14d6aa8a.mem c = true := by
  unfold CharSet.mem
  rw [List.any_eq_true]
  exact ⟨(48, 57), by decide, by simp; exact h⟩

theorem all_wordb (w : CharSet) (s : St) :
    (Rx.wordb w).all s = if isWord w s.prev != isWord w s.rest.head? then [s] else [] := rfl

theorem search_of_matchHere (r : Rx) (l : List Char) (h : (matchHere r ⟨none, l, 0, []⟩ false).isSome = true) :
    (r.search l).isSome = true := by
  obtain ⟨m, hm⟩ := Option.isSome_iff_exists.mp h
  unfold Rx.search
  simp [cursorAt]
  unfold scan
  simp [hm]

theorem search_tr (dcs : CharSet) (dirs : List Char)
    (hd : ∀ c, dcs.mem c = decide (c ∈ dirs)) (hdis : ∀ c, isDigit c = true → c ∉ dirs)
    (d : Str) (ch : Char) (h1 : d ≠ []) (h2 : d.length ≤ 3) (h3 : ∀ x ∈ d, asciiDigit x) (h4 : ch ∈ dirs)
    (hw : Gen.cs_14d6aa8a.mem ch = true) :
    ((Rx.seq (.wordb Gen.cs_14d6aa8a) (.seq (numRx 1 2 3 dcs) (.wordb Gen.cs_14d6aa8a))).search (d ++ [ch])).isSome = true := by
  apply search_of_matchHere
  rw [matchHere_eq]
  have hp := parseNum_complete hdis [] h1 h2 (fun x hx => isDigit_of_ascii (h3 x hx)) h4
  rcases d with _ | ⟨c1, t⟩
  · exact absurd rfl h1
  have hw1 := word_of_ascii (h3 c1 (by simp))
  have e0 : (Rx.wordb Gen.cs_14d6aa8a).all ⟨none, c1 :: t ++ [ch], 0, []⟩ = [⟨none, c1 :: t ++ [ch], 0, []⟩] := by
    simp [all_wordb, isWord, hw1]
  rw [all_seq, e0]
  simp only [List.flatMap_cons, List.flatMap_nil, List.append_nil]
  rw [all_seq, numRx_all 1 2 3 dcs dirs hd hdis, hp]
  simp [all_wordb, isWord, hw]

/-- `\b<two digits>\b`, for any spelling `dd` of "two digits" (`\d{2}`, `\d\d`) -/
theorem search_sec_of (dd : Rx) (hdd : TwoDigits dd) (a b : Char) (ha : asciiDigit a) (hb : asciiDigit b) :
    ((Rx.seq (.wordb Gen.cs_14d6aa8a) (.seq dd (.wordb Gen.cs_14d6aa8a))).search [a, b]).isSome
      = true := by
  apply search_of_matchHere
  rw [matchHere_eq]
  have e0 : (Rx.wordb Gen.cs_14d6aa8a).all ⟨none, [a, b], 0, []⟩ = [⟨none, [a, b], 0, []⟩] := by
    simp [all_wordb, isWord, word_of_ascii ha]
  rw [all_seq, e0]
  simp only [List.flatMap_cons, List.flatMap_nil, List.append_nil]
  rw [all_seq, hdd]
  simp [all_wordb, isWord, word_of_ascii hb, isDigit_of_ascii ha, isDigit_of_ascii hb]

theorem search_sec (a b : Char) (ha : asciiDigit a) (hb : asciiDigit b) :
    ((Rx.seq (.wordb Gen.cs_14d6aa8a) (.seq (.rep (.chr Gen.cs_940665b9) 2 (some 2)) (.wordb Gen.cs_14d6aa8a))).search [a, b]).isSome
      = true := search_sec_of _ twoDigits_rep a b ha hb

/-- the section check of `construct_trs` accepts every two-digit text, whichever way the pattern spells "two digits" -/
theorem search_sec_gen (a b : Char) (ha : asciiDigit a) (hb : asciiDigit b) :
    (Gen.inl_trs_TRS_construct_trs_2.search [a, b]).isSome = true := by
  first
  | exact search_sec_of _ twoDigits_rep a b ha hb
  | exact search_sec_of _ twoDigits_seq a b ha hb
  | -- `\b\d\d\b` is translated to the flat sequence `[\b, \d, \d, \b]`: re-associate
    (have e := (Rx.Equiv.seq (.refl (.wordb Gen.cs_14d6aa8a)) (Rx.Equiv.seq_assoc (.chr Gen.cs_940665b9)
        (.chr Gen.cs_940665b9) (.wordb Gen.cs_14d6aa8a))).search [a, b] 0 [a, b].length
     show ((Rx.seq (.wordb Gen.cs_14d6aa8a) (.seq (.chr Gen.cs_940665b9) (.seq (.chr Gen.cs_940665b9)
        (.wordb Gen.cs_14d6aa8a)))).search [a, b]).isSome = true
     rw [← e]
     exact search_sec_of _ twoDigits_seq a b ha hb)

theorem natToStr_length_le (n k : Nat) (hk : 0 < k) (h : n < 10 ^ k) : (natToStr n).length ≤ k := by
  rw [natToStr_eq]; exact (Nat.length_toDigits_le_iff (by omega) hk).mpr h

theorem pad2_two (s : Nat) (hs : s < 100) :
    ∃ a b, pyRJust (natToStr s) 2 '0' = [a, b] ∧ asciiDigit a ∧ asciiDigit b := by
  have hl := natToStr_length_le s 2 (by omega) (by omega)
  have hne := natToStr_ne_nil s
  have hd := natToStr_ascii s
  rcases hn : natToStr s with _ | ⟨a, _ | ⟨b, _ | ⟨c, t⟩⟩⟩
  · exact absurd hn hne
  · rw [hn] at hd
    exact ⟨'0', a, rfl, by decide, hd a (by simp)⟩
  · rw [hn] at hd
    exact ⟨a, b, rfl, hd a (by simp), hd b (by simp)⟩
  · rw [hn] at hl; simp at hl

theorem intToStr_cast (n : Nat) : intToStr (n : Int) = natToStr n := intToStr_ofNat n

theorem finishTwpRge_int (i : Int) (dir undef err : Str) (rx : Rx)
    (h : (rx.search (intToStr i ++ pyLower dir)).isSome = true) :
    finishTwpRge (.int i) dir undef err rx = intToStr i ++ pyLower dir := by
  unfold finishTwpRge
  simp only
  cases hq : rx.search (intToStr i ++ pyLower dir) with
  | none => rw [hq] at h; cases h
  | some m => simp

theorem finishSec_int (i : Int)
    (h : (Gen.inl_trs_TRS_construct_trs_2.search (pyRJust (intToStr i) 2 '0')).isSome = true) :
    finishSec (.int i) = pyRJust (intToStr i) 2 '0' := by
  unfold finishSec
  simp only
  cases hq : Gen.inl_trs_TRS_construct_trs_2.search (pyRJust (intToStr i) 2 '0') with
  | none => rw [hq] at h; cases h
  | some m => simp

theorem finishTwpRge_num (n : Nat) (hn : n < 1000) (ch : Char) (hfix : pyLowerChar ch = [ch]) (undef err : Str)
    (dcs : CharSet) (dirs : List Char)
    (hd : ∀ c, dcs.mem c = decide (c ∈ dirs)) (hdis : ∀ c, isDigit c = true → c ∉ dirs)
    (h4 : ch ∈ dirs) (hw : Gen.cs_14d6aa8a.mem ch = true) :
    finishTwpRge (.int n) [ch] undef err (Rx.seq (.wordb Gen.cs_14d6aa8a) (.seq (numRx 1 2 3 dcs) (.wordb Gen.cs_14d6aa8a)))
      = natToStr n ++ [ch] := by
  have hs := search_tr dcs dirs hd hdis (natToStr n) ch (natToStr_ne_nil n)
    (natToStr_length_le n 3 (by omega) (by omega)) (natToStr_ascii n) h4 hw
  have hl : pyLower [ch] = [ch] := by simp [pyLower, hfix]
  rw [finishTwpRge_int, intToStr_cast, hl]
  rw [intToStr_cast, hl]; exact hs

theorem finishSec_num (s : Nat) (hs : s < 100) : finishSec (.int s) = pyRJust (natToStr s) 2 '0' := by
  obtain ⟨a, b, e, ha, hb⟩ := pad2_two s hs
  have h := search_sec_gen a b ha hb
  rw [finishSec_int, intToStr_cast]
  rw [intToStr_cast, e]; exact h

theorem construct_ok (t r s : Nat) (ht : t < 1000) (hr : r < 1000) (hs : s < 100)
    (ns ew : Char) (hns : ns = 'n' ∨ ns = 's') (hew : ew = 'e' ∨ ew = 'w') :
    constructTrs (.int t) (.int r) (.int s) [ns] [ew] false
      = .ok (natToStr t ++ [ns] ++ natToStr r ++ [ew] ++ pyRJust (natToStr s) 2 '0') := by
  have hfn : pyLowerChar ns = [ns] := by rcases hns with rfl | rfl <;> decide
  have hfe : pyLowerChar ew = [ew] := by rcases hew with rfl | rfl <;> decide
  have hwn : Gen.cs_14d6aa8a.mem ns = true := by rcases hns with rfl | rfl <;> decide
  have hwe : Gen.cs_14d6aa8a.mem ew = true := by rcases hew with rfl | rfl <;> decide
  have hmn : ns ∈ nsDirs := by rcases hns with rfl | rfl <;> decide
  have hme : ew ∈ ewDirs := by rcases hew with rfl | rfl <;> decide
  have hln : Unpack.isLegal Gen.LEGAL_NS (pyLower [ns]) = true := by rcases hns with rfl | rfl <;> decide
  have hle : Unpack.isLegal Gen.LEGAL_EW (pyLower [ew]) = true := by rcases hew with rfl | rfl <;> decide
  have e1 := finishTwpRge_num t ht ns hfn (S Gen.UNDEF_TWP) (S Gen.ERR_TWP) Gen.cs_acfaf790 nsDirs cs76_mem ns_not_digit hmn hwn
  have e2 := finishTwpRge_num r hr ew hfe (S Gen.UNDEF_RGE) (S Gen.ERR_RGE) Gen.cs_4dcd5a8d ewDirs cs80_mem ew_not_digit hme hwe
  have e3 := finishSec_num s hs
  have p0 : Gen.inl_trs_TRS_construct_trs_0 =
    Rx.seq (.wordb Gen.cs_14d6aa8a) (.seq (numRx 1 2 3 Gen.cs_acfaf790) (.wordb Gen.cs_14d6aa8a)) := rfl
  have p1 : Gen.inl_trs_TRS_construct_trs_1 =
    Rx.seq (.wordb Gen.cs_14d6aa8a) (.seq (numRx 1 2 3 Gen.cs_4dcd5a8d) (.wordb Gen.cs_14d6aa8a)) := rfl
  unfold constructTrs
  simp only [hln, hle, scrub, Option.getD_none, p0, p1, e1, e2, e3]
  simp [pure, Except.pure]

theorem ascii_fixed {c : Char} (h : asciiDigit c) : pyLowerChar c = [c] := by
  unfold asciiDigit at h
  rcases lowerChar_cases c with ⟨h1, h2, e⟩ | ⟨h1, h2, e⟩ | ⟨h1, l, hl, e⟩ | ⟨h1, e⟩
  · omega
  · exact e
  · omega
  · exact e

/-- the components of a canonical string -/
def canonParts (t r s : Nat) (ns ew : Char) : TrsParts :=
  ⟨natToStr t ++ [ns], some (natToStr t, ns), natToStr r ++ [ew], some (natToStr r, ew),
    some (pyRJust (natToStr s) 2 '0')⟩

theorem canon_dict (t r s : Nat) (ht : t < 1000) (hr : r < 1000) (hs : s < 100)
    (ns ew : Char) (hns : ns = 'n' ∨ ns = 's') (hew : ew = 'e' ∨ ew = 'w') :
    trsToDict (some (natToStr t ++ [ns] ++ natToStr r ++ [ew] ++ pyRJust (natToStr s) 2 '0'))
      = dictOf (canonParts t r s ns ew) := by
  have hfn : pyLowerChar ns = [ns] := by rcases hns with rfl | rfl <;> decide
  have hfe : pyLowerChar ew = [ew] := by rcases hew with rfl | rfl <;> decide
  have hmn : ns ∈ nsDirs := by rcases hns with rfl | rfl <;> decide
  have hme : ew ∈ ewDirs := by rcases hew with rfl | rfl <;> decide
  obtain ⟨a, b, e, ha, hb⟩ := pad2_two s hs
  have htext : natToStr t ++ [ns] ++ natToStr r ++ [ew] ++ pyRJust (natToStr s) 2 '0'
      = (canonParts t r s ns ew).text := by
    simp [canonParts, TrsParts.text]
  have hgood : (canonParts t r s ns ew).Good := by
    refine ⟨?_, ?_, ?_, ?_, ?_⟩
    · intro d ch h
      simp only [canonParts, Option.some.injEq, Prod.mk.injEq] at h
      obtain ⟨rfl, rfl⟩ := h
      exact ⟨rfl, natToStr_ne_nil t, natToStr_length_le t 3 (by omega) (by omega),
        fun x hx => isDigit_of_ascii (natToStr_ascii t x hx), hmn⟩
    · intro h; simp [canonParts] at h
    · intro d ch h
      simp only [canonParts, Option.some.injEq, Prod.mk.injEq] at h
      obtain ⟨rfl, rfl⟩ := h
      exact ⟨rfl, natToStr_ne_nil r, natToStr_length_le r 3 (by omega) (by omega),
        fun x hx => isDigit_of_ascii (natToStr_ascii r x hx), hme⟩
    · intro h; simp [canonParts] at h
    · intro s' h
      simp only [canonParts, Option.some.injEq] at h
      subst h
      exact ⟨a, b, e, by simp [isSecText, isDigit_of_ascii ha, isDigit_of_ascii hb]⟩
  have hne : natToStr t ++ [ns] ++ natToStr r ++ [ew] ++ pyRJust (natToStr s) 2 '0' ≠ [] := by simp
  apply trsToDict_eq_dictOf
  rw [normIn_some hne]
  have hlow : pyLower (natToStr t ++ [ns] ++ natToStr r ++ [ew] ++ pyRJust (natToStr s) 2 '0')
      = natToStr t ++ [ns] ++ natToStr r ++ [ew] ++ pyRJust (natToStr s) 2 '0' := by
    apply pyLower_fixed
    intro u hu
    rw [e] at hu
    simp only [List.mem_append, List.mem_cons, List.not_mem_nil, or_false] at hu
    rcases hu with (((hu | rfl) | hu) | rfl) | rfl | rfl
    · exact ascii_fixed (natToStr_ascii t u hu)
    · exact hfn
    · exact ascii_fixed (natToStr_ascii r u hu)
    · exact hfe
    · exact ascii_fixed ha
    · exact ascii_fixed hb
  rw [hlow, htext]
  exact recognise_complete _ hgood

end TrsRound
open TrsRound TrsRecog

/-! ## main theorems -/

/-- the result never depends on the letter case of the input -/
theorem C12_case_insensitive (s : Str) : trsToDict (some (pyLower s)) = trsToDict (some s) := by
  by_cases hs : s = []
  · subst hs; rfl
  · rw [trsToDict_eq, trsToDict_eq, normIn_some hs, normIn_some (pyLower_ne_nil hs), pyLower_idem]

/-- no 'undefined' placeholder unless the input contains an underscore (or is empty): a tract built from a Twp/Rge and a
    section found in a text is standard or an error, never undefined -/
theorem C09_no_undef_without_underscore (s : Str) (hne : s ≠ []) (h : '_' ∉ s) :
    (trsToDict (some s)).twpUndef = false ∧ (trsToDict (some s)).rgeUndef = false ∧ (trsToDict (some s)).secUndef = false := by
  have hl : '_' ∉ pyLower s := by
    intro hu
    obtain ⟨c, hc, hcu⟩ := mem_pyLower.mp hu
    have := (out_facts hcu).2 rfl
    subst this
    exact h hc
  cases hr : recognise (pyLower (normIn (some s))) with
  | none => rw [trsToDict_reject _ hr]; exact ⟨rfl, rfl, rfl⟩
  | some c =>
    rw [trsToDict_eq_dictOf _ c hr]
    rw [normIn_some hne] at hr
    obtain ⟨e, g⟩ := recognise_sound hr
    rw [e] at hl
    unfold TrsParts.text at hl
    simp only [List.mem_append, not_or] at hl
    obtain ⟨⟨h1, h2⟩, h3⟩ := hl
    refine ⟨?_, ?_, ?_⟩
    · show (c.twpNum.isNone && c.twp == undefTR) = false
      by_cases ht : c.twp = undefTR
      · rw [ht] at h1; simp [undefTR] at h1
      · simp [ht]
    · show (c.rgeNum.isNone && c.rge == undefTR) = false
      by_cases ht : c.rge = undefTR
      · rw [ht] at h2; simp [undefTR] at h2
      · simp [ht]
    · show (c.sec == some ['_', '_']) = false
      by_cases ht : c.sec = some ['_', '_']
      · rw [ht] at h3; simp at h3
      · simp [ht]

/-- wrapping the resulting Twp/Rge/Sec string again is idempotent: TRS(TRS(x).trs) has the same attributes -/
theorem C12_rewrap_idempotent (x : Option Str) : trsToDict (some (trsToDict x).trs) = trsToDict x := by
  obtain ⟨c', h1, h2, h3⟩ := rewrap x
  rw [trsToDict_eq_dictOf (some (trsToDict x).trs) c' (by rw [normIn_some h2]; exact h1)]
  exact h3

/-- a well-formed result: the `trs` string of any result is again in the standard form (it is recognised) -/
theorem C09_trs_always_standard (x : Option Str) : (recognise (pyLower (trsToDict x).trs)).isSome = true := by
  obtain ⟨c', h1, _, _⟩ := rewrap x
  rw [h1]; rfl

/-- canonical construction from numbers: township `t`, range `r` (1–3 digits) and section `s` (1–2 digits) with directions
    give the canonical lower-case string with a two-digit section, which decomposes back to exactly those components -/
theorem C12_construct_canonical (t r s : Nat) (ht : t < 1000) (hr : r < 1000) (hs : s < 100)
    (ns ew : Char) (hns : ns = 'n' ∨ ns = 's') (hew : ew = 'e' ∨ ew = 'w') :
    constructTrs (.int t) (.int r) (.int s) [ns] [ew] false
      = .ok (natToStr t ++ [ns] ++ natToStr r ++ [ew] ++ pyRJust (natToStr s) 2 '0') ∧
    let d := trsToDict (some (natToStr t ++ [ns] ++ natToStr r ++ [ew] ++ pyRJust (natToStr s) 2 '0'))
    d.twpNum = some (t : Int) ∧ d.twpNs = some [ns] ∧ d.rgeNum = some (r : Int) ∧ d.rgeEw = some [ew] ∧
    d.secNum = some (s : Int) ∧ d.twpUndef = false ∧ d.rgeUndef = false ∧ d.secUndef = false ∧
    d.trs = natToStr t ++ [ns] ++ natToStr r ++ [ew] ++ pyRJust (natToStr s) 2 '0' := by
  refine ⟨construct_ok t r s ht hr hs ns ew hns hew, ?_⟩
  intro d
  have hd : d = dictOf (canonParts t r s ns ew) := canon_dict t r s ht hr hs ns ew hns hew
  obtain ⟨a, b, e, ha, hb⟩ := pad2_two s hs
  have hax : a ≠ 'x' := by rintro rfl; exact absurd ha (by decide)
  have hau : a ≠ '_' := by rintro rfl; exact absurd ha (by decide)
  rw [hd]
  simp only [dictOf, canonParts, Option.bind_some, Option.map_some, Option.isNone_some, Bool.false_and,
    pyInt_natToStr, pyInt_pad2, true_and]
  refine ⟨?_, ?_⟩
  · simp [e, hau]
  · simp [trText, secText, e, hax]

#print axioms TrsRound.pyLower_idem
#print axioms C12_rewrap_idempotent
#print axioms C12_case_insensitive
#print axioms C09_no_undef_without_underscore
#print axioms C09_trs_always_standard
#print axioms C12_construct_canonical

end PyTRS
