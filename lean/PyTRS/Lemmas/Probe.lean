/-
C15 — a probe's outcome depends only on its arguments and MasterConfig, not on the history before it.
-/
import PyTRS.Props.C15
import PyTRS.Lemmas.Modes
namespace PyTRS
open PyTRS.World PyTRS.Obj PyTRS.Plss

/-- operations whose outcome should be a function of their own arguments and MasterConfig only: creating objects and the stateless conversions -/
def isProbe : Op → Bool
  | .newDesc .. => true | .newTract .. => true | .warm _ => true | .toDict _ => true | .toDictObj _ => true | .findTwprge .. => true
  | .fromTwprgesec .. => true
  | _ => false

/-- outputs compared up to the creation numbers of the tracts they contain -/
def shiftOut (k : Nat) : Out → Out
  | .desc d => .desc { d with tracts := d.tracts.map (shiftUid k) }
  | .descAndTracts d ts => .descAndTracts { d with tracts := d.tracts.map (shiftUid k) } (ts.map (shiftUid k))
  | .descAndStr d s => .descAndStr { d with tracts := d.tracts.map (shiftUid k) } s
  | .tract t => .tract (shiftUid k t)
  | .tractAndRet t r => .tractAndRet (shiftUid k t) r
  | .tractAndStr t s => .tractAndStr (shiftUid k t) s
  | o => o

/-- shifting the creation numbers of the tracts a description holds -/
def shiftDesc (k : Nat) (d : DescObj) : DescObj := { d with tracts := d.tracts.map (shiftUid k) }

@[simp] theorem shiftDesc_diverged (k : Nat) (d : DescObj) : (shiftDesc k d).diverged = d.diverged := rfl

theorem shiftDesc_of_no_tracts (k : Nat) (d : DescObj) (h : d.tracts = []) : shiftDesc k d = d := by
  cases d
  simp only [shiftDesc] at *
  subst h
  rfl

/-- `descParse` (committed) under a shifted UID counter -/
theorem descParse_commit_shift (mc : MC) (u k : Nat) (d : DescObj) (kw : DescKw) (look : Option Str → TRS.TrsDict) :
    descParse mc (u + k) d kw true look =
      (descParse mc u d kw true look).map (fun r =>
        (shiftDesc k r.1, { r.2 with tracts := r.2.tracts.map (shiftUid k), nextUid := r.2.nextUid + k })) := by
  unfold descParse
  rw [C14_plssParser_uid_shift]
  cases plssParser mc u d.origDesc (effectiveDesc d kw) look with
  | error e => rfl
  | ok out => rfl

/-- `descPreprocess` does not touch the tracts -/
theorem descPreprocess_tracts (mc : MC) (d : DescObj) (a b : Option Str) (o : Option Bool) (commit : Bool)
    (r : DescObj × Str) (h : descPreprocess mc d a b o commit = .ok r) : r.1.tracts = d.tracts := by
  unfold descPreprocess at h
  simp only [] at h
  split at h
  · cases h
  · cases commit
    · simp only [Bool.false_eq_true, if_false] at h
      cases h; rfl
    · simp only [if_true] at h
      cases h; rfl

/-- `descInit` under a shifted UID counter (both the parse and the wait_to_parse branch) -/
theorem descInit_shift (mc : MC) (u k : Nat) (raw : Str) (layout : Option Str) (config : CfgArg) (pq : Option Bool)
    (src : OptStr) (wait : Option Bool) (look : Option Str → TRS.TrsDict) :
    descInit mc (u + k) raw layout config pq src wait look =
      (descInit mc u raw layout config pq src wait look).map (fun r => (shiftDesc k r.1, r.2 + k)) := by
  unfold descInit
  cases resolveCfgArg config with
  | error e => rfl
  | ok c =>
    simp only []
    by_cases hw : getB (descInitAttrs c layout pq wait) "wait_to_parse" = true
    · simp only [hw, Bool.not_true, Bool.false_eq_true, if_false]
      generalize hr : descPreprocess mc _ none none none true = r
      cases r with
      | error e => rfl
      | ok r =>
        have ht := descPreprocess_tracts _ _ _ _ _ _ _ hr
        simp only [Except.map]
        rw [shiftDesc_of_no_tracts k r.1 ht]
    · simp only [hw, Bool.not_false, if_true]
      rw [descParse_commit_shift]
      cases descParse mc u _ {} true look with
      | error e => rfl
      | ok r => rfl

/-- the key one-step lemma: same MasterConfig, sound caches, UID counters `k` apart -/
theorem probe_step_shift (w1 w2 : World.World) (k : Nat) (op : Op) (hp : isProbe op = true)
    (hmc : w1.mc = w2.mc) (hu : w2.nextUid = w1.nextUid + k) (hc1 : CacheOK w1) (hc2 : CacheOK w2) :
    (step w2 op).2 = shiftOut k (step w1 op).2 := by
  have hl1 := C15_look_funext w1 hc1
  have hl2 := C15_look_funext w2 hc2
  cases op with
  | warm trs => simp only [step, hl1, hl2, shiftOut]
  | toDict trs => rfl
  | toDictObj trs => simp only [step, hl1, hl2, shiftOut]
  | findTwprge text ns ew pre ocr =>
    simp only [step, hmc]
    cases Plss.findTwprge w2.mc text ns ew pre ocr <;> rfl
  | fromTwprgesec twp rge sec ns ew =>
    simp only [step, hl1, hl2, hmc]
    cases TRS.constructTrs twp rge sec (ns.getD w2.mc.ns) (ew.getD w2.mc.ew) false <;> rfl
  | newDesc id text layout cfg pq src wait =>
    simp only [step, hl1, hl2, hu, ← hmc]
    rw [descInit_shift]
    cases descInit w1.mc w1.nextUid text layout cfg pq src wait TRS.trsToDict with
    | error e => rfl
    | ok r =>
      obtain ⟨d, uid⟩ := r
      simp only [Except.map, shiftDesc_diverged]
      by_cases hd : d.diverged = true
      · simp only [hd, if_true]; rfl
      · simp only [hd]; rfl
  | newTract id text trs cfg pq =>
    simp only [step, hl1, hl2, hu]
    rw [tractInit_shift]
    cases tractInit w1.nextUid text trs cfg pq none none 0 TRS.trsToDict with
    | error e => rfl
    | ok t =>
      simp only [Except.map, shiftUid_diverged]
      by_cases hd : t.diverged = true
      · simp only [hd, if_true]; rfl
      · simp only [hd]; rfl
  | setMC _ _ => cases hp
  | cacheOn _ => cases hp
  | cacheClear => cases hp
  | descParse _ _ _ => cases hp
  | descParseTracts _ _ _ => cases hp
  | descPreprocess _ _ => cases hp
  | descConfig _ _ => cases hp
  | descSort _ _ _ => cases hp
  | tractParse _ _ _ => cases hp
  | tractPreprocess _ _ _ => cases hp
  | tractConfig _ _ => cases hp

/-- MAIN: two worlds reached by ANY two histories from the initial world, with the same MasterConfig in force, answer a probe identically
    (up to the creation numbers, which only count how many tracts were made before) -/
theorem C15_probe_independent_of_history (h1 h2 : List Op) (op : Op) (hp : isProbe op = true)
    (hmc : (run {} h1).1.mc = (run {} h2).1.mc) (hle : (run {} h1).1.nextUid ≤ (run {} h2).1.nextUid) :
    (step (run {} h2).1 op).2 = shiftOut ((run {} h2).1.nextUid - (run {} h1).1.nextUid) (step (run {} h1).1 op).2 :=
  probe_step_shift _ _ _ op hp hmc (by omega)
    (C15_run_cache_ok h1 {} C15_cache_ok_init) (C15_run_cache_ok h2 {} C15_cache_ok_init)

theorem run_append (a b : List Op) : ∀ (w : World.World), (run w (a ++ b)).1 = (run (run w a).1 b).1 := by
  induction a with
  | nil => intro w; rfl
  | cons op rest ih => intro w; simp only [List.cons_append, run]; exact ih _

/-- in particular: after any history that ends by restoring the defaults, a probe answers as in a fresh process -/
theorem C15_restore_masterconfig (h : List Op) (op : Op) (hp : isProbe op = true) :
    (step (run {} (h ++ [.setMC (S "n") (S "w")])).1 op).2
      = shiftOut ((run {} (h ++ [.setMC (S "n") (S "w")])).1.nextUid) (step ({} : World.World) op).2 := by
  have hmc : (run {} ([] : List Op)).1.mc = (run {} (h ++ [.setMC (S "n") (S "w")])).1.mc := by
    rw [run_append]; rfl
  have := C15_probe_independent_of_history [] (h ++ [.setMC (S "n") (S "w")]) op hp hmc (Nat.zero_le _)
  simpa [run] using this

#print axioms C15_probe_independent_of_history
#print axioms C15_restore_masterconfig

end PyTRS
