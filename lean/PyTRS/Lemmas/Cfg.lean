/-
Attribute-map lemmas (Cfg.get / Cfg.set / applyConfig).
-/
import PyTRS.Model.Objects
namespace PyTRS.Config

theorem get_set_eq (c : Cfg) (a : String) (v : CV) : (c.set a v).get a = some v := by
  induction c with
  | nil => simp [Cfg.set, Cfg.get]
  | cons e t ih =>
    obtain ⟨k, x⟩ := e
    rw [Cfg.set]
    by_cases hk : (k == a) = true
    · simp [hk, Cfg.get]
    · simp only [hk, Bool.false_eq_true, if_false]
      unfold Cfg.get at ih ⊢
      simp only [List.find?_cons, hk]
      exact ih

theorem get_set_ne (c : Cfg) (a b : String) (v : CV) (hab : a ≠ b) : (c.set a v).get b = c.get b := by
  have hne : (a == b) = false := by simpa using hab
  induction c with
  | nil => simp [Cfg.set, Cfg.get, hne]
  | cons e t ih =>
    obtain ⟨k, x⟩ := e
    rw [Cfg.set]
    by_cases hk : (k == a) = true
    · have hka : k = a := by simpa using hk
      subst hka
      simp [Cfg.get, hne]
    · simp only [hk, Bool.false_eq_true, if_false]
      unfold Cfg.get at ih ⊢
      simp only [List.find?_cons]
      by_cases hb : (k == b) = true
      · simp [hb]
      · simp only [hb]; exact ih

end PyTRS.Config

namespace PyTRS.Obj
open PyTRS.Config

/-- the config setter copies every non-None setting of the listed names and leaves the others alone -/
theorem applyConfig_get (attrs : Attrs) (names : List String) (c : Cfg) (n : String) :
    (applyConfig attrs names c).get n =
      if names.contains n then (match c.get n with | some v => some v | none => attrs.get n) else attrs.get n := by
  unfold applyConfig
  induction names generalizing attrs with
  | nil => simp
  | cons m ms ih =>
    simp only [List.foldl_cons]
    rw [ih]
    by_cases hmn : m = n
    · subst hmn
      simp only [List.contains_cons, beq_self_eq_true, Bool.true_or, if_true]
      cases hc : c.get m with
      | none => simp
      | some v => simp [get_set_eq]
    · have hne : (n == m) = false := by simpa using (fun h => hmn h.symm)
      simp only [List.contains_cons, hne, Bool.false_or]
      cases hc : c.get m with
      | none => rfl
      | some v => simp [get_set_ne _ _ _ _ hmn]

end PyTRS.Obj
