/-
C17 — meaning of the sort keys of `custom_sort` (`sort_defs` in containers.py).

* `getMax_ge`           : every valid number of the list is ≤ `getMax l f`, so the default `max+1` is strictly above all
* `C17_errors_last_*`   : for every key, an element whose component is undefined/error gets a strictly larger key than
                          any element with the component defined; hence in one ascending `pySort` pass no error precedes
                          a defined element (and with `reverse=True` the errors come first)
* `C17_key_meaning_*`   : what the order of the keys means on defined components
-/
import PyTRS.Props.C17
namespace PyTRS
open PyTRS.Cont

/-- well-formedness as guaranteed by `trs_to_dict`: number and direction of a component are both present or both
    absent, directions are "n"/"s" (resp. "e"/"w") and numbers are ≥ 0 -/
def WF (e : Cont.Elem) : Prop :=
  (e.d.twpNum.isSome ↔ e.d.twpNs.isSome) ∧ (e.d.rgeNum.isSome ↔ e.d.rgeEw.isSome) ∧
  (∀ x, e.d.twpNs = some x → x = S "n" ∨ x = S "s") ∧ (∀ x, e.d.rgeEw = some x → x = S "e" ∨ x = S "w") ∧
  (∀ n, e.d.twpNum = some n → 0 ≤ n) ∧ (∀ n, e.d.rgeNum = some n → 0 ≤ n) ∧ (∀ n, e.d.secNum = some n → 0 ≤ n)

/-! ### 1. `getMax` -/

private theorem foldl_max_ge (xs : List Int) :
    ∀ x : Int, x ≤ xs.foldl max x ∧ ∀ y ∈ xs, y ≤ xs.foldl max x := by
  induction xs with
  | nil => intro x; simp
  | cons z zs ih =>
    intro x
    simp only [List.foldl_cons, List.mem_cons]
    have ⟨h1, h2⟩ := ih (max x z)
    refine ⟨by omega, ?_⟩
    rintro y (rfl | hy)
    · omega
    · exact h2 y hy

/-- every valid number in the list is ≤ `getMax l f` -/
theorem getMax_ge (l : List Elem) (f : TRS.TrsDict → Option Int) (e : Elem) (he : e ∈ l) (n : Int)
    (h : f e.d = some n) : n ≤ getMax l f := by
  have hm : n ∈ l.filterMap (fun e => f e.d) := List.mem_filterMap.2 ⟨e, he, h⟩
  unfold getMax
  generalize l.filterMap (fun e => f e.d) = L at hm
  cases L with
  | nil => simp at hm
  | cons x xs =>
    simp only
    have ⟨h1, h2⟩ := foldl_max_ge xs x
    rcases List.mem_cons.1 hm with rfl | hy
    · exact h1
    · exact h2 _ hy

/-- `getMax` of well-formed (non-negative) numbers is itself ≥ 0 — also on the empty list -/
private theorem getMax_nonneg_of_mem (l : List Elem) (f : TRS.TrsDict → Option Int) (e : Elem) (he : e ∈ l)
    (n : Int) (h : f e.d = some n) (hn : 0 ≤ n) : 0 ≤ getMax l f := by
  have := getMax_ge l f e he n h; omega

/-! ### unfolding the keys -/

private theorem sortKey_tnum (df : Defaults) (e : Elem) : sortKey df "t.num" e = e.d.twpNum.getD df.twp := rfl
private theorem sortKey_rnum (df : Defaults) (e : Elem) : sortKey df "r.num" e = e.d.rgeNum.getD df.rge := rfl
private theorem sortKey_snum (df : Defaults) (e : Elem) : sortKey df "s.num" e = e.d.secNum.getD df.sec := rfl
private theorem sortKey_tns (df : Defaults) (e : Elem) : sortKey df "t.ns" e = nToS df e false := rfl
private theorem sortKey_tsn (df : Defaults) (e : Elem) : sortKey df "t.sn" e = nToS df e true := rfl
private theorem sortKey_rwe (df : Defaults) (e : Elem) : sortKey df "r.we" e = wToE df e false := rfl
private theorem sortKey_rew (df : Defaults) (e : Elem) : sortKey df "r.ew" e = wToE df e true := rfl

private theorem S_n_ne_s : S "n" ≠ S "s" := by decide
private theorem S_e_ne_w : S "e" ≠ S "w" := by decide

/-- value of the township key on each of the three shapes of a well-formed element -/
private theorem nToS_north (df : Defaults) (e : Elem) (rev : Bool) (n : Int)
    (hd : e.d.twpNs = some (S "n")) (hn : e.d.twpNum = some n) :
    nToS df e rev = if rev then n else -n := by
  have := S_n_ne_s
  cases rev <;> simp [nToS, hd, hn, this]

private theorem nToS_south (df : Defaults) (e : Elem) (rev : Bool) (n : Int)
    (hd : e.d.twpNs = some (S "s")) (hn : e.d.twpNum = some n) :
    nToS df e rev = if rev then -n else n := by
  cases rev <;> simp [nToS, hd, hn]

private theorem nToS_none (df : Defaults) (e : Elem) (rev : Bool)
    (hd : e.d.twpNs = none) (hn : e.d.twpNum = none) :
    nToS df e rev = df.twp := by
  cases rev <;> simp [nToS, hd, hn]

private theorem wToE_west (df : Defaults) (e : Elem) (rev : Bool) (n : Int)
    (hd : e.d.rgeEw = some (S "w")) (hn : e.d.rgeNum = some n) :
    wToE df e rev = if rev then n else -n := by
  have := S_e_ne_w
  have h2 : S "w" ≠ S "e" := fun h => this h.symm
  cases rev <;> simp [wToE, hd, hn, h2]

private theorem wToE_east (df : Defaults) (e : Elem) (rev : Bool) (n : Int)
    (hd : e.d.rgeEw = some (S "e")) (hn : e.d.rgeNum = some n) :
    wToE df e rev = if rev then -n else n := by
  cases rev <;> simp [wToE, hd, hn]

private theorem wToE_none (df : Defaults) (e : Elem) (rev : Bool)
    (hd : e.d.rgeEw = none) (hn : e.d.rgeNum = none) :
    wToE df e rev = df.rge := by
  cases rev <;> simp [wToE, hd, hn]

/-- a well-formed element with a township number: the key is `±n` with `0 ≤ n` -/
private theorem nToS_defined (df : Defaults) (e : Elem) (rev : Bool) (hw : WF e) (n : Int)
    (hn : e.d.twpNum = some n) : 0 ≤ n ∧ (nToS df e rev = n ∨ nToS df e rev = -n) := by
  obtain ⟨h1, _, h3, _, h5, _, _⟩ := hw
  have hs : e.d.twpNs.isSome := h1.1 (by simp [hn])
  obtain ⟨x, hx⟩ := Option.isSome_iff_exists.1 hs
  refine ⟨h5 n hn, ?_⟩
  rcases h3 x hx with rfl | rfl
  · rw [nToS_north df e rev n hx hn]; cases rev <;> simp
  · rw [nToS_south df e rev n hx hn]; cases rev <;> simp

private theorem nToS_undefined (df : Defaults) (e : Elem) (rev : Bool) (hw : WF e)
    (hn : e.d.twpNum = none) : nToS df e rev = df.twp := by
  obtain ⟨h1, _⟩ := hw
  have hs : e.d.twpNs = none := by
    cases hh : e.d.twpNs with
    | none => rfl
    | some x => have := h1.2 (by simp [hh]); simp [hn] at this
  exact nToS_none df e rev hs hn

private theorem wToE_defined (df : Defaults) (e : Elem) (rev : Bool) (hw : WF e) (n : Int)
    (hn : e.d.rgeNum = some n) : 0 ≤ n ∧ (wToE df e rev = n ∨ wToE df e rev = -n) := by
  obtain ⟨_, h2, _, h4, _, h6, _⟩ := hw
  have hs : e.d.rgeEw.isSome := h2.1 (by simp [hn])
  obtain ⟨x, hx⟩ := Option.isSome_iff_exists.1 hs
  refine ⟨h6 n hn, ?_⟩
  rcases h4 x hx with rfl | rfl
  · rw [wToE_east df e rev n hx hn]; cases rev <;> simp
  · rw [wToE_west df e rev n hx hn]; cases rev <;> simp

private theorem wToE_undefined (df : Defaults) (e : Elem) (rev : Bool) (hw : WF e)
    (hn : e.d.rgeNum = none) : wToE df e rev = df.rge := by
  obtain ⟨_, h2, _⟩ := hw
  have hs : e.d.rgeEw = none := by
    cases hh : e.d.rgeEw with
    | none => rfl
    | some x => have := h2.2 (by simp [hh]); simp [hn] at this
  exact wToE_none df e rev hs hn

/-! ### 2. errors last: the keys -/

/-- "s.num": a defined section sorts strictly before an undefined/error section -/
theorem C17_errors_last_key_snum (l : List Elem) (a b : Elem) (ha : a ∈ l) (_hb : b ∈ l)
    (_hwf : ∀ e ∈ l, WF e) (hsa : a.d.secNum.isSome) (hsb : b.d.secNum = none) :
    sortKey (defaultsOf l) "s.num" a < sortKey (defaultsOf l) "s.num" b := by
  obtain ⟨n, hn⟩ := Option.isSome_iff_exists.1 hsa
  have := getMax_ge l (·.secNum) a ha n hn
  simp only [sortKey_snum, hn, hsb, Option.getD_some, Option.getD_none, defaultsOf]
  omega

/-- "t.num": a defined township sorts strictly before an undefined/error township -/
theorem C17_errors_last_key_tnum (l : List Elem) (a b : Elem) (ha : a ∈ l) (_hb : b ∈ l)
    (_hwf : ∀ e ∈ l, WF e) (hsa : a.d.twpNum.isSome) (hsb : b.d.twpNum = none) :
    sortKey (defaultsOf l) "t.num" a < sortKey (defaultsOf l) "t.num" b := by
  obtain ⟨n, hn⟩ := Option.isSome_iff_exists.1 hsa
  have := getMax_ge l (·.twpNum) a ha n hn
  simp only [sortKey_tnum, hn, hsb, Option.getD_some, Option.getD_none, defaultsOf]
  omega

/-- "r.num": a defined range sorts strictly before an undefined/error range -/
theorem C17_errors_last_key_rnum (l : List Elem) (a b : Elem) (ha : a ∈ l) (_hb : b ∈ l)
    (_hwf : ∀ e ∈ l, WF e) (hsa : a.d.rgeNum.isSome) (hsb : b.d.rgeNum = none) :
    sortKey (defaultsOf l) "r.num" a < sortKey (defaultsOf l) "r.num" b := by
  obtain ⟨n, hn⟩ := Option.isSome_iff_exists.1 hsa
  have := getMax_ge l (·.rgeNum) a ha n hn
  simp only [sortKey_rnum, hn, hsb, Option.getD_some, Option.getD_none, defaultsOf]
  omega

private theorem nToS_errors_last (l : List Elem) (rev : Bool) (a b : Elem) (ha : a ∈ l) (hb : b ∈ l)
    (hwf : ∀ e ∈ l, WF e) (hsa : a.d.twpNum.isSome) (hsb : b.d.twpNum = none) :
    nToS (defaultsOf l) a rev < nToS (defaultsOf l) b rev := by
  obtain ⟨n, hn⟩ := Option.isSome_iff_exists.1 hsa
  have hmax := getMax_ge l (·.twpNum) a ha n hn
  have ⟨h0, hk⟩ := nToS_defined (defaultsOf l) a rev (hwf a ha) n hn
  rw [nToS_undefined (defaultsOf l) b rev (hwf b hb) hsb]
  have hd : (defaultsOf l).twp = getMax l (·.twpNum) + 1 := rfl
  rcases hk with hk | hk <;> rw [hk, hd] <;> omega

private theorem wToE_errors_last (l : List Elem) (rev : Bool) (a b : Elem) (ha : a ∈ l) (hb : b ∈ l)
    (hwf : ∀ e ∈ l, WF e) (hsa : a.d.rgeNum.isSome) (hsb : b.d.rgeNum = none) :
    wToE (defaultsOf l) a rev < wToE (defaultsOf l) b rev := by
  obtain ⟨n, hn⟩ := Option.isSome_iff_exists.1 hsa
  have hmax := getMax_ge l (·.rgeNum) a ha n hn
  have ⟨h0, hk⟩ := wToE_defined (defaultsOf l) a rev (hwf a ha) n hn
  rw [wToE_undefined (defaultsOf l) b rev (hwf b hb) hsb]
  have hd : (defaultsOf l).rge = getMax l (·.rgeNum) + 1 := rfl
  rcases hk with hk | hk <;> rw [hk, hd] <;> omega

/-- "t.ns": a defined township (north or south) sorts strictly before an undefined/error township -/
theorem C17_errors_last_key_tns (l : List Elem) (a b : Elem) (ha : a ∈ l) (hb : b ∈ l)
    (hwf : ∀ e ∈ l, WF e) (hsa : a.d.twpNum.isSome) (hsb : b.d.twpNum = none) :
    sortKey (defaultsOf l) "t.ns" a < sortKey (defaultsOf l) "t.ns" b := by
  rw [sortKey_tns, sortKey_tns]; exact nToS_errors_last l false a b ha hb hwf hsa hsb

/-- "t.sn": a defined township (north or south) sorts strictly before an undefined/error township -/
theorem C17_errors_last_key_tsn (l : List Elem) (a b : Elem) (ha : a ∈ l) (hb : b ∈ l)
    (hwf : ∀ e ∈ l, WF e) (hsa : a.d.twpNum.isSome) (hsb : b.d.twpNum = none) :
    sortKey (defaultsOf l) "t.sn" a < sortKey (defaultsOf l) "t.sn" b := by
  rw [sortKey_tsn, sortKey_tsn]; exact nToS_errors_last l true a b ha hb hwf hsa hsb

/-- "r.we": a defined range (east or west) sorts strictly before an undefined/error range -/
theorem C17_errors_last_key_rwe (l : List Elem) (a b : Elem) (ha : a ∈ l) (hb : b ∈ l)
    (hwf : ∀ e ∈ l, WF e) (hsa : a.d.rgeNum.isSome) (hsb : b.d.rgeNum = none) :
    sortKey (defaultsOf l) "r.we" a < sortKey (defaultsOf l) "r.we" b := by
  rw [sortKey_rwe, sortKey_rwe]; exact wToE_errors_last l false a b ha hb hwf hsa hsb

/-- "r.ew": a defined range (east or west) sorts strictly before an undefined/error range -/
theorem C17_errors_last_key_rew (l : List Elem) (a b : Elem) (ha : a ∈ l) (hb : b ∈ l)
    (hwf : ∀ e ∈ l, WF e) (hsa : a.d.rgeNum.isSome) (hsb : b.d.rgeNum = none) :
    sortKey (defaultsOf l) "r.ew" a < sortKey (defaultsOf l) "r.ew" b := by
  rw [sortKey_rew, sortKey_rew]; exact wToE_errors_last l true a b ha hb hwf hsa hsb

/-! ### 2. errors last: the sorted list -/

/-- The component (as an `Option Int`) that a sort key looks at; `none` = undefined or error. -/
def keyComponent (k : String) (e : Elem) : Option Int :=
  if k = "t.num" ∨ k = "t.ns" ∨ k = "t.sn" then e.d.twpNum
  else if k = "r.num" ∨ k = "r.we" ∨ k = "r.ew" then e.d.rgeNum
  else e.d.secNum

/-- generic form: if the key `f` puts every element whose component `c` is undefined strictly after every element
    whose component is defined, then one `pySort` pass puts the undefined ones last (first when reversed) -/
theorem C17_errors_last_of_key (l : List Elem) (f : Elem → Int) (c : Elem → Option Int)
    (hk : ∀ a ∈ l, ∀ b ∈ l, (c a).isSome → c b = none → f a < f b) :
    (∀ xs b ys, pySort l f false = xs ++ [b] ++ ys → c b = none → ∀ y ∈ ys, c y = none) ∧
    (∀ xs b ys, pySort l f true = xs ++ [b] ++ ys → c b = none → ∀ x ∈ xs, c x = none) := by
  have ⟨hs1, hs2⟩ := C17_pySort_sorted l f
  constructor
  · intro xs b ys heq hb y hy
    have hmem : ∀ z, z ∈ xs ++ [b] ++ ys → z ∈ l := fun z hz =>
      (C17_pySort_perm l f false).mem_iff.1 (heq ▸ hz)
    rw [heq] at hs1
    have hle : f b ≤ f y := (List.pairwise_append.1 hs1).2.2 b (by simp) y hy
    cases hc : c y with
    | none => rfl
    | some n =>
      have := hk y (hmem y (by simp [hy])) b (hmem b (by simp)) (by simp [hc]) hb
      omega
  · intro xs b ys heq hb x hx
    have hmem : ∀ z, z ∈ xs ++ [b] ++ ys → z ∈ l := fun z hz =>
      (C17_pySort_perm l f true).mem_iff.1 (heq ▸ hz)
    rw [heq, List.append_assoc] at hs2
    have hle : f b ≤ f x := (List.pairwise_append.1 hs2).2.2 x hx b (by simp)
    cases hc : c x with
    | none => rfl
    | some n =>
      have := hk x (hmem x (by simp [hx])) b (hmem b (by simp)) (by simp [hc]) hb
      omega

/-- "s.num": after an ascending pass nothing with a defined section follows an undefined/error section;
    after a descending pass (`reverse=True`) nothing with a defined section precedes one -/
theorem C17_errors_last_snum (l : List Elem) (hwf : ∀ e ∈ l, WF e) :
    (∀ xs b ys, pySort l (sortKey (defaultsOf l) "s.num") false = xs ++ [b] ++ ys → b.d.secNum = none →
      ∀ y ∈ ys, y.d.secNum = none) ∧
    (∀ xs b ys, pySort l (sortKey (defaultsOf l) "s.num") true = xs ++ [b] ++ ys → b.d.secNum = none →
      ∀ x ∈ xs, x.d.secNum = none) :=
  C17_errors_last_of_key l _ (·.d.secNum) (fun a ha b hb => C17_errors_last_key_snum l a b ha hb hwf)

theorem C17_errors_last_tnum (l : List Elem) (hwf : ∀ e ∈ l, WF e) :
    (∀ xs b ys, pySort l (sortKey (defaultsOf l) "t.num") false = xs ++ [b] ++ ys → b.d.twpNum = none →
      ∀ y ∈ ys, y.d.twpNum = none) ∧
    (∀ xs b ys, pySort l (sortKey (defaultsOf l) "t.num") true = xs ++ [b] ++ ys → b.d.twpNum = none →
      ∀ x ∈ xs, x.d.twpNum = none) :=
  C17_errors_last_of_key l _ (·.d.twpNum) (fun a ha b hb => C17_errors_last_key_tnum l a b ha hb hwf)

theorem C17_errors_last_rnum (l : List Elem) (hwf : ∀ e ∈ l, WF e) :
    (∀ xs b ys, pySort l (sortKey (defaultsOf l) "r.num") false = xs ++ [b] ++ ys → b.d.rgeNum = none →
      ∀ y ∈ ys, y.d.rgeNum = none) ∧
    (∀ xs b ys, pySort l (sortKey (defaultsOf l) "r.num") true = xs ++ [b] ++ ys → b.d.rgeNum = none →
      ∀ x ∈ xs, x.d.rgeNum = none) :=
  C17_errors_last_of_key l _ (·.d.rgeNum) (fun a ha b hb => C17_errors_last_key_rnum l a b ha hb hwf)

theorem C17_errors_last_tns (l : List Elem) (hwf : ∀ e ∈ l, WF e) :
    (∀ xs b ys, pySort l (sortKey (defaultsOf l) "t.ns") false = xs ++ [b] ++ ys → b.d.twpNum = none →
      ∀ y ∈ ys, y.d.twpNum = none) ∧
    (∀ xs b ys, pySort l (sortKey (defaultsOf l) "t.ns") true = xs ++ [b] ++ ys → b.d.twpNum = none →
      ∀ x ∈ xs, x.d.twpNum = none) :=
  C17_errors_last_of_key l _ (·.d.twpNum) (fun a ha b hb => C17_errors_last_key_tns l a b ha hb hwf)

theorem C17_errors_last_tsn (l : List Elem) (hwf : ∀ e ∈ l, WF e) :
    (∀ xs b ys, pySort l (sortKey (defaultsOf l) "t.sn") false = xs ++ [b] ++ ys → b.d.twpNum = none →
      ∀ y ∈ ys, y.d.twpNum = none) ∧
    (∀ xs b ys, pySort l (sortKey (defaultsOf l) "t.sn") true = xs ++ [b] ++ ys → b.d.twpNum = none →
      ∀ x ∈ xs, x.d.twpNum = none) :=
  C17_errors_last_of_key l _ (·.d.twpNum) (fun a ha b hb => C17_errors_last_key_tsn l a b ha hb hwf)

theorem C17_errors_last_rwe (l : List Elem) (hwf : ∀ e ∈ l, WF e) :
    (∀ xs b ys, pySort l (sortKey (defaultsOf l) "r.we") false = xs ++ [b] ++ ys → b.d.rgeNum = none →
      ∀ y ∈ ys, y.d.rgeNum = none) ∧
    (∀ xs b ys, pySort l (sortKey (defaultsOf l) "r.we") true = xs ++ [b] ++ ys → b.d.rgeNum = none →
      ∀ x ∈ xs, x.d.rgeNum = none) :=
  C17_errors_last_of_key l _ (·.d.rgeNum) (fun a ha b hb => C17_errors_last_key_rwe l a b ha hb hwf)

theorem C17_errors_last_rew (l : List Elem) (hwf : ∀ e ∈ l, WF e) :
    (∀ xs b ys, pySort l (sortKey (defaultsOf l) "r.ew") false = xs ++ [b] ++ ys → b.d.rgeNum = none →
      ∀ y ∈ ys, y.d.rgeNum = none) ∧
    (∀ xs b ys, pySort l (sortKey (defaultsOf l) "r.ew") true = xs ++ [b] ++ ys → b.d.rgeNum = none →
      ∀ x ∈ xs, x.d.rgeNum = none) :=
  C17_errors_last_of_key l _ (·.d.rgeNum) (fun a ha b hb => C17_errors_last_key_rew l a b ha hb hwf)

/-- all seven keys at once: `k` ranges over the keys that look at a township/range/section component,
    `keyComponent k` is that component -/
theorem C17_errors_last (l : List Elem) (hwf : ∀ e ∈ l, WF e) (k : String)
    (hk : k ∈ ["t.num", "t.ns", "t.sn", "r.num", "r.we", "r.ew", "s.num"]) :
    (∀ xs b ys, pySort l (sortKey (defaultsOf l) k) false = xs ++ [b] ++ ys → keyComponent k b = none →
      ∀ y ∈ ys, keyComponent k y = none) ∧
    (∀ xs b ys, pySort l (sortKey (defaultsOf l) k) true = xs ++ [b] ++ ys → keyComponent k b = none →
      ∀ x ∈ xs, keyComponent k x = none) := by
  simp only [List.mem_cons, List.not_mem_nil, or_false] at hk
  rcases hk with rfl | rfl | rfl | rfl | rfl | rfl | rfl
  · exact C17_errors_last_tnum l hwf
  · exact C17_errors_last_tns l hwf
  · exact C17_errors_last_tsn l hwf
  · exact C17_errors_last_rnum l hwf
  · exact C17_errors_last_rwe l hwf
  · exact C17_errors_last_rew l hwf
  · exact C17_errors_last_snum l hwf

/-! ### 3. key meaning

None of these needs `a b ∈ l`, `df = defaultsOf l` or the full `WF`: once direction and number of both elements are
given the key is determined.  (For a `WF` element with a defined township the direction is "n" or "s" and the number
exists, so the hypotheses below are exactly the case split that `WF` offers.)
-/

/- ORIGINAL STATEMENT (task item 3, "t.ns", first bullet) — FALSE as stated:

     a north and b south ⇒ sortKey df "t.ns" a < sortKey df "t.ns" b

   `WF` only gives numbers ≥ 0, and for township 0 the keys are `-0 = 0` (north) and `0` (south): a tie, see
   `C17_key_meaning_tns_north_south_counterexample`.  What holds is `≤`, and `<` as soon as one of the two numbers is
   positive (extra hypothesis `hpos`).  Same for "t.sn" (south/north) and "r.we"/"r.ew" (west/east, east/west). -/

/-- "t.ns", north vs south: `≤` always, `<` under the extra hypothesis that one of the numbers is not 0 -/
theorem C17_key_meaning_tns_north_south_partial (df : Defaults) (a b : Elem) (na nb : Int)
    (hwa : WF a) (hwb : WF b)
    (hda : a.d.twpNs = some (S "n")) (hna : a.d.twpNum = some na)
    (hdb : b.d.twpNs = some (S "s")) (hnb : b.d.twpNum = some nb) :
    sortKey df "t.ns" a ≤ sortKey df "t.ns" b ∧
    (∀ _hpos : 0 < na ∨ 0 < nb, sortKey df "t.ns" a < sortKey df "t.ns" b) := by
  have h1 := hwa.2.2.2.2.1 na hna
  have h2 := hwb.2.2.2.2.1 nb hnb
  rw [sortKey_tns, sortKey_tns, nToS_north df a false na hda hna, nToS_south df b false nb hdb hnb]
  simp only [Bool.false_eq_true, if_false]
  constructor
  · omega
  · intro h; omega

/-- "t.ns", both north: descending number -/
theorem C17_key_meaning_tns_north_north (df : Defaults) (a b : Elem) (na nb : Int)
    (hda : a.d.twpNs = some (S "n")) (hna : a.d.twpNum = some na)
    (hdb : b.d.twpNs = some (S "n")) (hnb : b.d.twpNum = some nb) :
    sortKey df "t.ns" a ≤ sortKey df "t.ns" b ↔ nb ≤ na := by
  rw [sortKey_tns, sortKey_tns, nToS_north df a false na hda hna, nToS_north df b false nb hdb hnb]
  simp only [Bool.false_eq_true, if_false]
  omega

/-- "t.ns", both south: ascending number -/
theorem C17_key_meaning_tns_south_south (df : Defaults) (a b : Elem) (na nb : Int)
    (hda : a.d.twpNs = some (S "s")) (hna : a.d.twpNum = some na)
    (hdb : b.d.twpNs = some (S "s")) (hnb : b.d.twpNum = some nb) :
    sortKey df "t.ns" a ≤ sortKey df "t.ns" b ↔ na ≤ nb := by
  rw [sortKey_tns, sortKey_tns, nToS_south df a false na hda hna, nToS_south df b false nb hdb hnb]
  simp only [Bool.false_eq_true, if_false]

/-- "t.sn", south vs north: `≤` always, `<` under the extra hypothesis that one of the numbers is not 0 -/
theorem C17_key_meaning_tsn_south_north_partial (df : Defaults) (a b : Elem) (na nb : Int)
    (hwa : WF a) (hwb : WF b)
    (hda : a.d.twpNs = some (S "s")) (hna : a.d.twpNum = some na)
    (hdb : b.d.twpNs = some (S "n")) (hnb : b.d.twpNum = some nb) :
    sortKey df "t.sn" a ≤ sortKey df "t.sn" b ∧
    (∀ _hpos : 0 < na ∨ 0 < nb, sortKey df "t.sn" a < sortKey df "t.sn" b) := by
  have h1 := hwa.2.2.2.2.1 na hna
  have h2 := hwb.2.2.2.2.1 nb hnb
  rw [sortKey_tsn, sortKey_tsn, nToS_south df a true na hda hna, nToS_north df b true nb hdb hnb]
  simp only [if_true]
  constructor
  · omega
  · intro h; omega

/-- "t.sn", both south: descending number -/
theorem C17_key_meaning_tsn_south_south (df : Defaults) (a b : Elem) (na nb : Int)
    (hda : a.d.twpNs = some (S "s")) (hna : a.d.twpNum = some na)
    (hdb : b.d.twpNs = some (S "s")) (hnb : b.d.twpNum = some nb) :
    sortKey df "t.sn" a ≤ sortKey df "t.sn" b ↔ nb ≤ na := by
  rw [sortKey_tsn, sortKey_tsn, nToS_south df a true na hda hna, nToS_south df b true nb hdb hnb]
  simp only [if_true]
  omega

/-- "t.sn", both north: ascending number -/
theorem C17_key_meaning_tsn_north_north (df : Defaults) (a b : Elem) (na nb : Int)
    (hda : a.d.twpNs = some (S "n")) (hna : a.d.twpNum = some na)
    (hdb : b.d.twpNs = some (S "n")) (hnb : b.d.twpNum = some nb) :
    sortKey df "t.sn" a ≤ sortKey df "t.sn" b ↔ na ≤ nb := by
  rw [sortKey_tsn, sortKey_tsn, nToS_north df a true na hda hna, nToS_north df b true nb hdb hnb]
  simp only [if_true]

/-- "r.we", west vs east: `≤` always, `<` under the extra hypothesis that one of the numbers is not 0 -/
theorem C17_key_meaning_rwe_west_east_partial (df : Defaults) (a b : Elem) (na nb : Int)
    (hwa : WF a) (hwb : WF b)
    (hda : a.d.rgeEw = some (S "w")) (hna : a.d.rgeNum = some na)
    (hdb : b.d.rgeEw = some (S "e")) (hnb : b.d.rgeNum = some nb) :
    sortKey df "r.we" a ≤ sortKey df "r.we" b ∧
    (∀ _hpos : 0 < na ∨ 0 < nb, sortKey df "r.we" a < sortKey df "r.we" b) := by
  have h1 := hwa.2.2.2.2.2.1 na hna
  have h2 := hwb.2.2.2.2.2.1 nb hnb
  rw [sortKey_rwe, sortKey_rwe, wToE_west df a false na hda hna, wToE_east df b false nb hdb hnb]
  simp only [Bool.false_eq_true, if_false]
  constructor
  · omega
  · intro h; omega

/-- "r.we", both west: descending number -/
theorem C17_key_meaning_rwe_west_west (df : Defaults) (a b : Elem) (na nb : Int)
    (hda : a.d.rgeEw = some (S "w")) (hna : a.d.rgeNum = some na)
    (hdb : b.d.rgeEw = some (S "w")) (hnb : b.d.rgeNum = some nb) :
    sortKey df "r.we" a ≤ sortKey df "r.we" b ↔ nb ≤ na := by
  rw [sortKey_rwe, sortKey_rwe, wToE_west df a false na hda hna, wToE_west df b false nb hdb hnb]
  simp only [Bool.false_eq_true, if_false]
  omega

/-- "r.we", both east: ascending number -/
theorem C17_key_meaning_rwe_east_east (df : Defaults) (a b : Elem) (na nb : Int)
    (hda : a.d.rgeEw = some (S "e")) (hna : a.d.rgeNum = some na)
    (hdb : b.d.rgeEw = some (S "e")) (hnb : b.d.rgeNum = some nb) :
    sortKey df "r.we" a ≤ sortKey df "r.we" b ↔ na ≤ nb := by
  rw [sortKey_rwe, sortKey_rwe, wToE_east df a false na hda hna, wToE_east df b false nb hdb hnb]
  simp only [Bool.false_eq_true, if_false]

/-- "r.ew", east vs west: `≤` always, `<` under the extra hypothesis that one of the numbers is not 0 -/
theorem C17_key_meaning_rew_east_west_partial (df : Defaults) (a b : Elem) (na nb : Int)
    (hwa : WF a) (hwb : WF b)
    (hda : a.d.rgeEw = some (S "e")) (hna : a.d.rgeNum = some na)
    (hdb : b.d.rgeEw = some (S "w")) (hnb : b.d.rgeNum = some nb) :
    sortKey df "r.ew" a ≤ sortKey df "r.ew" b ∧
    (∀ _hpos : 0 < na ∨ 0 < nb, sortKey df "r.ew" a < sortKey df "r.ew" b) := by
  have h1 := hwa.2.2.2.2.2.1 na hna
  have h2 := hwb.2.2.2.2.2.1 nb hnb
  rw [sortKey_rew, sortKey_rew, wToE_east df a true na hda hna, wToE_west df b true nb hdb hnb]
  simp only [if_true]
  constructor
  · omega
  · intro h; omega

/-- "r.ew", both east: descending number -/
theorem C17_key_meaning_rew_east_east (df : Defaults) (a b : Elem) (na nb : Int)
    (hda : a.d.rgeEw = some (S "e")) (hna : a.d.rgeNum = some na)
    (hdb : b.d.rgeEw = some (S "e")) (hnb : b.d.rgeNum = some nb) :
    sortKey df "r.ew" a ≤ sortKey df "r.ew" b ↔ nb ≤ na := by
  rw [sortKey_rew, sortKey_rew, wToE_east df a true na hda hna, wToE_east df b true nb hdb hnb]
  simp only [if_true]
  omega

/-- "r.ew", both west: ascending number -/
theorem C17_key_meaning_rew_west_west (df : Defaults) (a b : Elem) (na nb : Int)
    (hda : a.d.rgeEw = some (S "w")) (hna : a.d.rgeNum = some na)
    (hdb : b.d.rgeEw = some (S "w")) (hnb : b.d.rgeNum = some nb) :
    sortKey df "r.ew" a ≤ sortKey df "r.ew" b ↔ na ≤ nb := by
  rw [sortKey_rew, sortKey_rew, wToE_west df a true na hda hna, wToE_west df b true nb hdb hnb]
  simp only [if_true]

/-- "t.num": ascending township number, whatever the direction -/
theorem C17_key_meaning_tnum (df : Defaults) (a b : Elem) (na nb : Int)
    (hna : a.d.twpNum = some na) (hnb : b.d.twpNum = some nb) :
    sortKey df "t.num" a ≤ sortKey df "t.num" b ↔ na ≤ nb := by
  simp only [sortKey_tnum, hna, hnb, Option.getD_some]

/-- "r.num": ascending range number, whatever the direction -/
theorem C17_key_meaning_rnum (df : Defaults) (a b : Elem) (na nb : Int)
    (hna : a.d.rgeNum = some na) (hnb : b.d.rgeNum = some nb) :
    sortKey df "r.num" a ≤ sortKey df "r.num" b ↔ na ≤ nb := by
  simp only [sortKey_rnum, hna, hnb, Option.getD_some]

/-- "s.num": ascending section number -/
theorem C17_key_meaning_snum (df : Defaults) (a b : Elem) (na nb : Int)
    (hna : a.d.secNum = some na) (hnb : b.d.secNum = some nb) :
    sortKey df "s.num" a ≤ sortKey df "s.num" b ↔ na ≤ nb := by
  simp only [sortKey_snum, hna, hnb, Option.getD_some]

/-! ### the strict north/south statement really fails at 0 -/

private def t0 (ns : String) : Elem :=
  .trs { TRS.errDict with twpNum := some 0, twpNs := some (S ns), rgeNum := some 0, rgeEw := some (S "w") }

private theorem t0_wf (ns : String) (h : ns = "n" ∨ ns = "s") : WF (t0 ns) := by
  refine ⟨by simp [t0, Elem.d], by simp [t0, Elem.d], ?_, ?_, ?_, ?_, ?_⟩
  · intro x hx
    simp only [t0, Elem.d, Option.some.injEq] at hx
    rcases h with rfl | rfl
    · exact Or.inl hx.symm
    · exact Or.inr hx.symm
  · intro x hx
    simp only [t0, Elem.d, Option.some.injEq] at hx
    exact Or.inr hx.symm
  · intro n hn; simp only [t0, Elem.d, Option.some.injEq] at hn; omega
  · intro n hn; simp only [t0, Elem.d, Option.some.injEq] at hn; omega
  · intro n hn; simp [t0, Elem.d, TRS.errDict] at hn

/-- the statement "a north, b south ⇒ key a < key b" is false under `WF` alone: township 0 north and township 0
    south are well-formed, belong to the list, and get the same "t.ns" key -/
theorem C17_key_meaning_tns_north_south_counterexample :
    ∃ (l : List Elem) (a b : Elem), a ∈ l ∧ b ∈ l ∧ (∀ e ∈ l, WF e) ∧
      a.d.twpNs = some (S "n") ∧ b.d.twpNs = some (S "s") ∧ a.d.twpNum.isSome ∧ b.d.twpNum.isSome ∧
      ¬ sortKey (defaultsOf l) "t.ns" a < sortKey (defaultsOf l) "t.ns" b := by
  refine ⟨[t0 "n", t0 "s"], t0 "n", t0 "s", by simp, by simp, ?_, rfl, rfl, rfl, rfl, ?_⟩
  · intro e he
    simp only [List.mem_cons, List.not_mem_nil, or_false] at he
    rcases he with rfl | rfl
    · exact t0_wf "n" (Or.inl rfl)
    · exact t0_wf "s" (Or.inr rfl)
  · rw [sortKey_tns, sortKey_tns, nToS_north _ (t0 "n") false 0 rfl rfl, nToS_south _ (t0 "s") false 0 rfl rfl]
    simp

end PyTRS

#print axioms PyTRS.getMax_ge
#print axioms PyTRS.C17_errors_last_key_snum
#print axioms PyTRS.C17_errors_last_key_tnum
#print axioms PyTRS.C17_errors_last_key_rnum
#print axioms PyTRS.C17_errors_last_key_tns
#print axioms PyTRS.C17_errors_last_key_tsn
#print axioms PyTRS.C17_errors_last_key_rwe
#print axioms PyTRS.C17_errors_last_key_rew
#print axioms PyTRS.C17_errors_last_of_key
#print axioms PyTRS.C17_errors_last_snum
#print axioms PyTRS.C17_errors_last_tnum
#print axioms PyTRS.C17_errors_last_rnum
#print axioms PyTRS.C17_errors_last_tns
#print axioms PyTRS.C17_errors_last_tsn
#print axioms PyTRS.C17_errors_last_rwe
#print axioms PyTRS.C17_errors_last_rew
#print axioms PyTRS.C17_errors_last
#print axioms PyTRS.C17_key_meaning_tns_north_south_partial
#print axioms PyTRS.C17_key_meaning_tns_north_north
#print axioms PyTRS.C17_key_meaning_tns_south_south
#print axioms PyTRS.C17_key_meaning_tsn_south_north_partial
#print axioms PyTRS.C17_key_meaning_tsn_south_south
#print axioms PyTRS.C17_key_meaning_tsn_north_north
#print axioms PyTRS.C17_key_meaning_rwe_west_east_partial
#print axioms PyTRS.C17_key_meaning_rwe_west_west
#print axioms PyTRS.C17_key_meaning_rwe_east_east
#print axioms PyTRS.C17_key_meaning_rew_east_west_partial
#print axioms PyTRS.C17_key_meaning_rew_east_east
#print axioms PyTRS.C17_key_meaning_rew_west_west
#print axioms PyTRS.C17_key_meaning_tnum
#print axioms PyTRS.C17_key_meaning_rnum
#print axioms PyTRS.C17_key_meaning_snum
#print axioms PyTRS.C17_key_meaning_tns_north_south_counterexample
