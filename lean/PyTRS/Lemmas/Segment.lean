/-
C20 — `segment` is conservative on single-layout descriptions (marker level).

Part 1: `PLSSChunker` cuts exactly at the starts (Twp/Rge-first layouts) / ends (Twp/Rge-last layouts) of the Twp/Rge matches,
        and the un-cleaned slices tile the text (`C20_chunker_cuts_groups…`).
Part 2: arranged walks for all four documented layouts, with or without text in front of the first marker and an end-of-text
        marker behind the last one (`C20_walk_all_layouts`; desc_STR now with any number of section references per Twp/Rge);
        one `ChunkParser` run on a text whose finders report an arrangement (`C20_chunk_run`); a chunk is a piece of the text,
        so its components are the components of its group in the text; `C20_segment_components`: the components staged chunk
        by chunk (`segment` on) are the components staged on the whole text (`segment` off), no error flag in either parse.
        The lexical facts are explicit decidable premises: `Reports` (what the two finders return on a text) for the whole
        text and, inside `ChunkOK`, for every chunk ("re-scanning a chunk finds the same markers, restricted and shifted").
Part 3: `C20_segment_tracts`: the same Tract objects through `plssParser`.
Then: one concrete text per layout with all premises checked by kernel evaluation, and what the premises exclude —
        `C20_segment_cull_word_differs` (a description that is only a cull word of `cleanup_desc` is lost with `segment`),
        `C20_segment_rededuces_layout` (with `segment` a GIVEN layout is not mandated for the chunks),
        `C20_segment_unused_differs` (the unused text, hence the `unused_desc` flags, is not preserved).
-/
import PyTRS.Lemmas.Walk2
import PyTRS.Lemmas.Slices
import PyTRS.Lemmas.Pretty
namespace PyTRS
open PyTRS.Obj PyTRS.Plss

/-! ## Part 1: where the chunker cuts -/

/-- the cuts of `_segment_twprge_first`: from each start to the next start, the last one to the end of the text -/
def firstCuts : List Nat → Nat → List (Nat × Nat)
  | [], _ => []
  | [a], len => [(a, len)]
  | a :: b :: r, len => (a, b) :: firstCuts (b :: r) len

/-- the cuts of `_segment_twprge_last`: from the previous end (the first one from `prev` = 0) to each end -/
def lastCuts : Nat → List Nat → List (Nat × Nat)
  | _, [] => []
  | prev, e :: r => (prev, e) :: lastCuts e r

theorem firstCuts_length : ∀ (l : List Nat) (len : Nat), (firstCuts l len).length = l.length
  | [], _ => rfl
  | [_], _ => rfl
  | _ :: b :: r, len => by simp [firstCuts, firstCuts_length (b :: r) len]

theorem lastCuts_length : ∀ (prev : Nat) (l : List Nat), (lastCuts prev l).length = l.length
  | _, [] => rfl
  | _, e :: r => by simp [lastCuts, lastCuts_length e r]

theorem chunkBlocksFirst_aux {β : Type} (F : Nat → Nat → β) (len : Nat) : ∀ ms : List TRMatch,
    (List.range ms.length).map (fun i =>
      F (ms[i]!).start (match ms[i+1]? with | some m2 => m2.start | none => len))
    = (firstCuts (ms.map (·.start)) len).map (fun ab => F ab.1 ab.2)
  | [] => rfl
  | [m] => by simp [firstCuts]
  | m :: m2 :: r => by
    have ih := chunkBlocksFirst_aux F len (m2 :: r)
    rw [List.length_cons, List.range_succ_eq_map, List.map_cons, List.map_map]
    simp only [List.map_cons, firstCuts] at ih ⊢
    rw [← ih]
    congr 1

theorem chunkBlocksFirst_eq (text : Str) (ms : List TRMatch) :
    chunkBlocksFirst text ms =
      (firstCuts (ms.map (·.start)) text.length).map (fun ab => cleanupDesc (slice text ab.1 ab.2)) :=
  chunkBlocksFirst_aux (fun a b => cleanupDesc (slice text a b)) text.length ms

theorem chunkBlocksLast_aux {β : Type} (F : Nat → Nat → β) : ∀ (ms : List TRMatch) (prev : Nat),
    (List.range ms.length).map (fun i => F (if i == 0 then prev else (ms[i-1]!).stop) (ms[i]!).stop)
    = (lastCuts prev (ms.map (·.stop))).map (fun ab => F ab.1 ab.2)
  | [], _ => rfl
  | m :: r, prev => by
    have ih := chunkBlocksLast_aux F r m.stop
    rw [List.length_cons, List.range_succ_eq_map, List.map_cons, List.map_map]
    simp only [List.map_cons, lastCuts]
    rw [← ih]
    congr 1
    apply List.map_congr_left
    intro i _
    cases i with
    | zero => simp
    | succ k => simp

theorem chunkBlocksLast_eq (text : Str) (ms : List TRMatch) :
    chunkBlocksLast text ms =
      (lastCuts 0 (ms.map (·.stop))).map (fun ab => cleanupDesc (slice text ab.1 ab.2)) :=
  chunkBlocksLast_aux (fun a b => cleanupDesc (slice text a b)) ms 0

theorem firstCuts_cover (text : Str) (len : Nat) : ∀ (a : Nat) (r : List Nat), (a :: r ++ [len]).Pairwise (· ≤ ·) →
    ((firstCuts (a :: r) len).map (fun ab => slice text ab.1 ab.2)).flatten = slice text a len
  | a, [], _ => by simp [firstCuts]
  | a, b :: r, h => by
    have hab : a ≤ b := List.rel_of_pairwise_cons h (by simp)
    have hr : (b :: r ++ [len]).Pairwise (· ≤ ·) := (List.pairwise_cons.mp h).2
    have hbl : b ≤ len := List.rel_of_pairwise_cons hr (by simp)
    simp only [firstCuts, List.map_cons, List.flatten_cons, firstCuts_cover text len b r hr]
    exact slice_append text a b len hab hbl

theorem lastCuts_cover (text : Str) : ∀ (l : List Nat) (prev : Nat), (prev :: l).Pairwise (· ≤ ·) →
    ((lastCuts prev l).map (fun ab => slice text ab.1 ab.2)).flatten = slice text prev (l.getLastD prev)
  | [], prev, _ => by simp [lastCuts, slice]
  | e :: r, prev, h => by
    have hpe : prev ≤ e := List.rel_of_pairwise_cons h (by simp)
    have hr : (e :: r).Pairwise (· ≤ ·) := (List.pairwise_cons.mp h).2
    have hlast : e ≤ r.getLastD e := by
      cases hg : r.getLast? with
      | none => simp [List.getLastD_eq_getLast?, hg]
      | some x =>
        have hx : x ∈ r := List.mem_of_getLast? hg
        simp only [List.getLastD_eq_getLast?, hg, Option.getD_some]
        exact List.rel_of_pairwise_cons hr hx
    simp only [lastCuts, List.map_cons, List.flatten_cons, lastCuts_cover text r e hr]
    have : (e :: r).getLastD prev = r.getLastD e := by
      cases r with
      | nil => rfl
      | cons x r' =>
        simp only [List.getLastD_eq_getLast?, List.getLast?_cons_cons]
        rw [List.getLast?_eq_some_getLast (List.cons_ne_nil x r')]
        rfl
    rw [this]
    exact slice_append text prev e _ hpe hlast

/-- C20 (Twp/Rge-first layouts `TRS_desc`, `TR_desc_S`): if the first Twp/Rge match starts the text, `PLSSChunker` cuts exactly
    at the starts of the Twp/Rge matches the finder returned — block i is `cleanup_desc(text[startᵢ:startᵢ₊₁])` (the last one
    runs to the end of the text) — and reports no unused text -/
theorem C20_chunker_cuts_groups (mc : MC) (text layout : Str) (ms : List TRMatch) (ff : FinderFlags)
    (hf : twprgeFinder mc text layout = .ok (ms, ff)) (hl : layout = TRS_DESC ∨ layout = TR_DESC_S)
    (h0 : (ms.head?.map (·.start)) = some 0) :
    plssChunker mc text layout =
      .ok ((firstCuts (ms.map (·.start)) text.length).map (fun ab => cleanupDesc (slice text ab.1 ab.2)), []) := by
  unfold plssChunker
  rw [hf]
  cases ms with
  | nil => simp at h0
  | cons m r =>
    simp only [List.head?_cons, Option.map_some, Option.some.injEq] at h0
    have hc : (layout == COPY_ALL) = false := by rcases hl with rfl | rfl <;> decide
    have hl' : (layout == TRS_DESC || layout == TR_DESC_S) = true := by rcases hl with rfl | rfl <;> decide
    simp only [List.isEmpty_cons, hc, Bool.or_self, Bool.false_eq_true, if_false, hl', if_true, List.head?_cons, h0,
      chunkBlocksFirst_eq]
    rfl

/-- the un-cleaned slices of the Twp/Rge-first cuts concatenate to the text (the starts are in order, the first one is 0) -/
theorem C20_chunker_cuts_groups_cover (text : Str) (starts : List Nat) (h0 : starts.head? = some 0)
    (hs : (starts ++ [text.length]).Pairwise (· ≤ ·)) :
    ((firstCuts starts text.length).map (fun ab => slice text ab.1 ab.2)).flatten = text := by
  cases starts with
  | nil => simp at h0
  | cons a r =>
    simp only [List.head?_cons, Option.some.injEq] at h0
    subst h0
    rw [firstCuts_cover text text.length 0 r hs]
    exact slice_full text

/-- C20 (Twp/Rge-last layouts `desc_STR`, `S_desc_TR`; the mirror statement): if the last Twp/Rge match ends the text,
    `PLSSChunker` cuts exactly at the ends of the Twp/Rge matches — block i is `cleanup_desc(text[endᵢ₋₁:endᵢ])` (the first one
    starts the text) — and reports no unused text -/
theorem C20_chunker_cuts_groups_last (mc : MC) (text layout : Str) (ms : List TRMatch) (ff : FinderFlags)
    (hf : twprgeFinder mc text layout = .ok (ms, ff)) (hl : layout = DESC_STR ∨ layout = S_DESC_TR)
    (h0 : (ms.getLast?.map (·.stop)) = some text.length) :
    plssChunker mc text layout =
      .ok ((lastCuts 0 (ms.map (·.stop))).map (fun ab => cleanupDesc (slice text ab.1 ab.2)), []) := by
  unfold plssChunker
  rw [hf]
  cases hg : ms.getLast? with
  | none => simp [hg] at h0
  | some m =>
    have hne : ms.isEmpty = false := by
      cases ms with
      | nil => simp at hg
      | cons _ _ => rfl
    simp only [hg, Option.map_some, Option.some.injEq] at h0
    have hc : (layout == COPY_ALL) = false := by rcases hl with rfl | rfl <;> decide
    have hl' : (layout == TRS_DESC || layout == TR_DESC_S) = false := by rcases hl with rfl | rfl <;> decide
    simp only [hne, hc, Bool.or_self, Bool.false_eq_true, if_false, hl', chunkBlocksLast_eq]
    simp [hg, h0]

/-- the un-cleaned slices of the Twp/Rge-last cuts concatenate to the text (the ends are in order, the last one is the end) -/
theorem C20_chunker_cuts_groups_last_cover (text : Str) (stops : List Nat) (h0 : stops.getLast? = some text.length)
    (hs : stops.Pairwise (· ≤ ·)) :
    ((lastCuts 0 stops).map (fun ab => slice text ab.1 ab.2)).flatten = text := by
  rw [lastCuts_cover text stops 0 (List.pairwise_cons.mpr ⟨fun _ _ => Nat.zero_le _, hs⟩)]
  simp only [List.getLastD_eq_getLast?, h0, Option.getD_some]
  exact slice_full text

/-! ## Part 2: arranged walks, with or without an end-of-text marker -/

/-- the walk step reads the layout only through "is the block AFTER a section reference its description?" -/
theorem stepP_congr (txt L1 L2 : Str) (h : sDescLays L1 = sDescLays L2) : stepP txt L1 = stepP txt L2 := by
  funext c p
  simp only [stepP, h]

theorem stepP_TRS_eq_S (txt : Str) : stepP txt TRS_DESC = stepP txt S_DESC_TR :=
  stepP_congr txt _ _ (by rw [sDescLays_TRS_DESC, sDescLays_S_DESC_TR])
theorem stepP_STR_eq_D (txt : Str) : stepP txt DESC_STR = stepP txt TR_DESC_S :=
  stepP_congr txt _ _ (by rw [sDescLays_DESC_STR, sDescLays_TR_DESC_S])

/-- position of the last marker -/
def lastPos (ms : List (Nat × Marker)) : Nat := (ms.getLast?.map (·.1)).getD 0

/-- `populate_markers` writes the end-of-text marker first; a Twp/Rge or section that ends the text overwrites it -/
def withEnd (core : List (Nat × Marker)) (len : Nat) : List (Nat × Marker) :=
  if lastPos core = len then core else core ++ [(len, .textEnd)]

/-- the step on the last marker (paired with itself) is the step it would take with an end-of-text marker at the same
    position behind it -/
theorem stepP_self_end (txt L : Str) (c : Chunk) (m : Nat × Marker) :
    stepP txt L c (m, m) = stepP txt L c (m, (m.1, .textEnd)) := by
  obtain ⟨p, ty⟩ := m
  cases ty <;> simp [stepP]

theorem fold_pairs_add_end (txt L : Str) (m : Nat × Marker) : ∀ (l : List (Nat × Marker)) (c : Chunk),
    (pairs (l ++ [m])).foldl (stepP txt L) c = (pairs (l ++ [m, (m.1, .textEnd)])).foldl (stepP txt L) c
  | [], c => by
    simp only [List.nil_append, pairs, List.foldl_cons, List.foldl_nil, List.head?_nil, Option.getD_none,
      List.head?_cons, Option.getD_some, stepP_textEnd]
    exact stepP_self_end txt L c m
  | a :: l, c => by
    have ih := fold_pairs_add_end txt L m l
    have hh : (l ++ [m]).head?.getD a = (l ++ [m, (m.1, Marker.textEnd)]).head?.getD a := by
      cases l <;> rfl
    simp only [List.cons_append, pairs, List.foldl_cons, hh, ih]

/-- a marker list whose last marker stands at the end of the text walks like the list with the end-of-text marker added -/
theorem walk_withEnd (txt L : Str) (core : List (Nat × Marker)) (len : Nat) (c : Chunk) (hne : core ≠ []) :
    (pairs (withEnd core len)).foldl (stepP txt L) c = (pairs (core ++ [(len, .textEnd)])).foldl (stepP txt L) c := by
  unfold withEnd
  split
  · rename_i h
    obtain ⟨l, m, rfl⟩ : ∃ l m, core = l ++ [m] := ⟨_, _, (List.dropLast_concat_getLast hne).symm⟩
    have hm : m.1 = len := by simpa [lastPos] using h
    rw [fold_pairs_add_end, hm]
    simp
  · rfl

/-- the result of a clean walk: the staged components, both working lists used up, no flag written, and nothing left
    that `parse_chunk` would re-queue or flag -/
structure WalkClean (c : Chunk) (fl0 : Tract.Flags) (comps : List Component) : Prop where
  comps : c.comps = comps
  trList : c.trList = []
  secList : c.secList = []
  fl : c.fl = fl0
  tr : c.lastTRUsed = true ∨ c.workingTR = some ERR_TWPRGE ∨ c.workingTR = none
  sec : c.lastSecUsed = true ∨ c.workingSec = some [ERR_SEC] ∨ c.workingSec = none

/-- the chunk state `parse_chunk` starts the walk with -/
def startChunk (fl0 : Tract.Flags) (groups : List TRGroup) : Chunk :=
  { fl := fl0, secList := allSecs groups, trList := groups.map (·.tr) }

/-- text in front of the first marker: `populate_markers` writes the start-of-text marker first; a Twp/Rge or section that
    starts the text overwrites it -/
def pre0 (p : Nat) : List (Nat × Marker) := if p = 0 then [] else [(0, .textStart)]

/-- the start-of-text marker in front of a marker that does not make it a description: its block is unused text -/
theorem fold_pre0 (txt L : Str) (p : Nat) (n : Nat × Marker) (r : List (Nat × Marker))
    (hn : sDescLays L = true ∨ n.2 ≠ .secStart) (c : Chunk) :
    ∃ u, (pairs (pre0 p ++ n :: r)).foldl (stepP txt L) c
      = (pairs (n :: r)).foldl (stepP txt L) { c with unused := c.unused ++ u } := by
  unfold pre0
  split
  · exact ⟨[], by simp⟩
  · refine ⟨[(c.comps.length, slice txt 0 n.1)], ?_⟩
    rw [List.singleton_append, fold_pairs_cons2]
    congr 1
    obtain ⟨q, nty⟩ := n
    rcases hn with h | h
    · simp [stepP, h]
    · cases hs : sDescLays L <;> simp_all [stepP]

/-! ### TRS_desc — "TR Sec desc Sec desc … TR …" -/

/-- the components of a TRS_desc text: the description of a section reference runs to the next section reference, for the last
    one of a group to the next Twp/Rge, for the last one of all to the end of the text -/
def trsComps (txt : Str) : List TRGroup → Nat → List Component
  | [], _ => []
  | g :: gs, len => sItemComps txt g.tr ((gs.head?.map (·.tStart)).getD len) g.items ++ trsComps txt gs len

theorem itemBlocks_eq_s (nxt : Nat) (m : Marker) (tl : List (Nat × Marker)) :
    ∀ its : List SecItem, itemBlocks its ((nxt, m) :: tl) = sItemBlocks nxt its
  | [] => rfl
  | s :: rest => by
    simp only [itemBlocks, sItemBlocks, imk_head, itemBlocks_eq_s nxt m tl rest]

theorem groups_head_marker (gs : List TRGroup) (len : Nat) :
    ∃ m tl, gs.flatMap groupMarkers ++ [(len, Marker.textEnd)] = ((gs.head?.map (·.tStart)).getD len, m) :: tl := by
  cases gs with
  | nil => exact ⟨_, _, rfl⟩
  | cons g r =>
    exact ⟨.trStart, (g.tEnd, .trEnd) :: (imk g.items ++ (r.flatMap groupMarkers ++ [(len, .textEnd)])),
      by simp [groupMarkers_eq]⟩

theorem trsComps_eq (txt : Str) (len : Nat) : ∀ groups : List TRGroup,
    ((groupBlocks groups [(len, .textEnd)]).zip (groups.flatMap fun g => g.items.map fun s => (g.tr, s.secs))).map
      (mkComp txt) = trsComps txt groups len
  | [] => rfl
  | g :: gs => by
    obtain ⟨m, tl, hm⟩ := groups_head_marker gs len
    simp only [groupBlocks, List.flatMap_cons, trsComps]
    rw [List.zip_append (by simp [itemBlocks_length]), List.map_append, trsComps_eq txt len gs, hm, itemBlocks_eq_s,
      sItemComps_eq]

/-- start of the first Twp/Rge / of the first section reference -/
def firstT (groups : List TRGroup) : Nat := (groups.head?.map (·.tStart)).getD 0
def firstS (groups : List TRGroup) : Nat := ((groups.head?.bind (·.items.head?)).map (·.sStart)).getD 0

theorem groupMarkers_body (groups : List TRGroup) (hg : groups ≠ []) (tl : List (Nat × Marker)) :
    ∃ n r, groups.flatMap groupMarkers ++ tl = n :: r ∧ n.2 = .trStart := by
  cases groups with
  | nil => exact absurd rfl hg
  | cons g gs =>
    exact ⟨(g.tStart, .trStart), (g.tEnd, .trEnd) :: (imk g.items ++ (gs.flatMap groupMarkers ++ tl)),
      by simp [groupMarkers_eq], rfl⟩

theorem sGroupMarkers_body (groups : List TRGroup) (hg : groups ≠ []) (tl : List (Nat × Marker)) :
    ∃ n r, groups.flatMap sGroupMarkers ++ tl = n :: r := by
  cases groups with
  | nil => exact absurd rfl hg
  | cons g gs =>
    cases hi : g.items with
    | nil => exact ⟨_, _, by simp [sGroupMarkers, hi, imk]; exact ⟨rfl, rfl⟩⟩
    | cons s rest => exact ⟨_, _, by simp [sGroupMarkers, hi, imk]; exact ⟨rfl, rfl⟩⟩

theorem walk_trs (txt : Str) (groups : List TRGroup) (len : Nat) (fl0 : Tract.Flags)
    (hne : ∀ g ∈ groups, g.items ≠ []) (hg : groups ≠ []) :
    WalkClean (parseMeaningful (startChunk fl0 groups) txt TRS_DESC
        (withEnd (pre0 (firstT groups) ++ groups.flatMap groupMarkers) len))
      fl0 (trsComps txt groups len) := by
  obtain ⟨n, r, hbody, _⟩ := groupMarkers_body groups hg [(len, .textEnd)]
  have hc : parseMeaningful (startChunk fl0 groups) txt TRS_DESC
        (withEnd (pre0 (firstT groups) ++ groups.flatMap groupMarkers) len) =
      (pairs (pre0 (firstT groups) ++ (groups.flatMap groupMarkers ++ [(len, .textEnd)]))).foldl (stepP txt TRS_DESC)
        (startChunk fl0 groups) := by
    unfold parseMeaningful
    simp only [sDescLays_TRS_DESC, trFirstLays_TRS_DESC, Bool.not_true, Bool.false_eq_true, if_false]
    rw [walk_eq_pairs, walk_withEnd, List.append_assoc]
    intro h
    have := congrArg List.length h
    rw [← List.append_nil (groups.flatMap groupMarkers), (groupMarkers_body groups hg []).choose_spec.choose_spec.1] at this
    simp at this
  obtain ⟨u, hu⟩ := fold_pre0 txt TRS_DESC (firstT groups) n r (Or.inl sDescLays_TRS_DESC) (startChunk fl0 groups)
  obtain ⟨c', f1, f2, f3, f4, f5, _, _, _, _, f8⟩ :=
    walk_groups txt [(len, .textEnd)] groups [] []
      { startChunk fl0 groups with unused := (startChunk fl0 groups).unused ++ u } hne (by simp [startChunk])
      (by simp [startChunk, allSecs]) (Or.inl rfl) (Or.inl rfl)
  rw [hc, hbody, hu, ← hbody, f1]
  simp only [pairs, List.foldl_cons, List.foldl_nil, stepP_textEnd]
  obtain ⟨g1, g2⟩ := f8 hg
  exact ⟨by rw [f2, trsComps_eq]; simp [startChunk], f3, f4, f5, Or.inl g1, Or.inl g2⟩

/-! ### S_desc_TR — "Sec desc Sec desc … TR Sec desc … TR" -/

theorem walk_sdtr (txt : Str) (groups : List TRGroup) (len : Nat) (fl0 : Tract.Flags)
    (hne : ∀ g ∈ groups, g.items ≠ []) (hg : groups ≠ []) :
    WalkClean (parseMeaningful (startChunk fl0 groups) txt S_DESC_TR
        (withEnd (pre0 (firstS groups) ++ groups.flatMap sGroupMarkers) len))
      fl0 (expectedCompsSDescTr txt groups) := by
  obtain ⟨n, r, hbody⟩ := sGroupMarkers_body groups hg [(len, .textEnd)]
  have h01 := getNextTwprge_ok' (startChunk fl0 groups) (Or.inl rfl)
  have hc : parseMeaningful (startChunk fl0 groups) txt S_DESC_TR
        (withEnd (pre0 (firstS groups) ++ groups.flatMap sGroupMarkers) len) =
      (pairs (pre0 (firstS groups) ++ (groups.flatMap sGroupMarkers ++ [(len, .textEnd)]))).foldl (stepP txt S_DESC_TR)
        (getNextTwprge (startChunk fl0 groups)) := by
    unfold parseMeaningful
    simp only [sDescLays_S_DESC_TR, trFirstLays_S_DESC_TR, Bool.not_true, Bool.not_false, Bool.false_eq_true, if_false,
      if_true]
    rw [walk_eq_pairs, walk_withEnd, List.append_assoc]
    intro h
    have := congrArg List.length h
    rw [← List.append_nil (groups.flatMap sGroupMarkers), (sGroupMarkers_body groups hg []).choose_spec.choose_spec] at this
    simp at this
  obtain ⟨u, hu⟩ := fold_pre0 txt S_DESC_TR (firstS groups) n r (Or.inl sDescLays_S_DESC_TR)
    (getNextTwprge (startChunk fl0 groups))
  obtain ⟨c', f1, f2, f3, f4, f5, f6, f7, f8, _⟩ :=
    walk_s_groups txt [(len, .textEnd)] [] [] groups
      { getNextTwprge (startChunk fl0 groups) with unused := (getNextTwprge (startChunk fl0 groups)).unused ++ u } hne
      (by rw [h01]; simp [startChunk]) (by rw [h01]; simp [startChunk]) (by rw [h01]; simp [startChunk])
      (by rw [h01]; exact Or.inl rfl) (by rw [h01])
  rw [hc, hbody, hu, ← hbody, f1]
  simp only [pairs, List.foldl_cons, List.foldl_nil, stepP_textEnd]
  obtain ⟨g1, g2⟩ := f8 hg
  exact ⟨by rw [f2, h01]; simp [startChunk], by simpa using f4, f6, by rw [f7, h01]; rfl,
    Or.inr (Or.inl (by simpa using f3)), Or.inl g2⟩

/-! ### TR_desc_S — "TR desc Sec desc Sec … TR …" -/

theorem walk_trds (txt : Str) (groups : List TRGroup) (len : Nat) (fl0 : Tract.Flags)
    (hne : ∀ g ∈ groups, g.items ≠ []) (hg : groups ≠ []) :
    WalkClean (parseMeaningful (startChunk fl0 groups) txt TR_DESC_S
        (withEnd (pre0 (firstT groups) ++ groups.flatMap groupMarkers) len))
      fl0 (expectedCompsTrDescS txt groups) := by
  obtain ⟨n, r, hbody, hn⟩ := groupMarkers_body groups hg [(len, .textEnd)]
  have h01 := getNextSec_ok' (startChunk fl0 groups) (Or.inl rfl)
  have hc : parseMeaningful (startChunk fl0 groups) txt TR_DESC_S
        (withEnd (pre0 (firstT groups) ++ groups.flatMap groupMarkers) len) =
      (pairs (pre0 (firstT groups) ++ (groups.flatMap groupMarkers ++ [(len, .textEnd)]))).foldl (stepP txt TR_DESC_S)
        (getNextSec (startChunk fl0 groups)) := by
    unfold parseMeaningful
    simp only [sDescLays_TR_DESC_S, trFirstLays_TR_DESC_S, Bool.not_true, Bool.not_false, Bool.false_eq_true, if_false,
      if_true]
    rw [walk_eq_pairs, walk_withEnd, List.append_assoc]
    intro h
    have := congrArg List.length h
    rw [← List.append_nil (groups.flatMap groupMarkers), (groupMarkers_body groups hg []).choose_spec.choose_spec.1] at this
    simp at this
  obtain ⟨u, hu⟩ := fold_pre0 txt TR_DESC_S (firstT groups) n r (Or.inr (by rw [hn]; simp))
    (getNextSec (startChunk fl0 groups))
  obtain ⟨c', f1, f2, f3, f4, f5, f6, f7, f8, _⟩ :=
    walk_d_groups txt len [] [] groups
      { getNextSec (startChunk fl0 groups) with unused := (getNextSec (startChunk fl0 groups)).unused ++ u } hne
      (by rw [h01]; simp [startChunk]) (by rw [h01]; simp [startChunk]) (by rw [h01]; simp [startChunk])
      (by rw [h01]; exact Or.inl rfl)
  rw [hc, hbody, hu, ← hbody, f1]
  obtain ⟨g1, g2⟩ := f8 hg
  exact ⟨by rw [f2, h01]; simp [startChunk], f3, by simpa using f5, by rw [f6, h01]; rfl, Or.inl g1,
    Or.inr (Or.inl (by simpa using f4))⟩

/-! ### desc_STR — "desc Sec desc Sec … TR desc Sec … TR" (any number of section references in front of each Twp/Rge) -/

/-- the components of a desc_STR text: the description of a section reference stands IN FRONT of it and runs back to the
    previous section reference, for the first one of a group to the end of the previous Twp/Rge (`prev` for the first group) -/
def strComps (txt : Str) : Nat → List TRGroup → List Component
  | _, [] => []
  | prev, g :: gs => dItemComps txt g.tr prev g.items ++ strComps txt g.tEnd gs

theorem walk_str_groups (txt : Str) (tl : List (Nat × Marker)) :
    ∀ (groups : List TRGroup) (prev : Nat) (ty : Marker) (c : Chunk), texty ty →
      (∀ g ∈ groups, g.items ≠ []) →
      c.workingTR = some ((groups.map (·.tr)).headD ERR_TWPRGE) → c.trList = (groups.map (·.tr)).tail →
      c.workingSec = some ((allSecs groups).headD [ERR_SEC]) → c.secList = (allSecs groups).tail →
      ∃ c' m', (pairs ((prev, ty) :: (groups.flatMap sGroupMarkers ++ tl))).foldl (stepP txt TR_DESC_S) c
            = (pairs (m' :: tl)).foldl (stepP txt TR_DESC_S) c' ∧ texty m'.2 ∧
        c'.comps = c.comps ++ strComps txt prev groups ∧ c'.workingSec = some [ERR_SEC] ∧ c'.secList = [] ∧
        c'.workingTR = some ERR_TWPRGE ∧ c'.trList = [] ∧ c'.fl = c.fl := by
  intro groups
  induction groups with
  | nil =>
    intro prev ty c hty _ h1 h2 h3 h4
    exact ⟨c, (prev, ty), by simp, hty, by simp [strComps], by simpa [allSecs] using h3, by simpa [allSecs] using h4,
      by simpa using h1, by simpa using h2, rfl⟩
  | cons g gs ih =>
    intro prev ty c hty hne h1 h2 h3 h4
    have hm : (prev, ty) :: ((g :: gs).flatMap sGroupMarkers ++ tl) =
        (prev, ty) :: (imk g.items ++ ((g.tStart, .trStart) :: (g.tEnd, .trEnd) :: (gs.flatMap sGroupMarkers ++ tl))) := by
      simp [sGroupMarkers]
    have hsec : allSecs (g :: gs) = g.items.map (·.secs) ++ allSecs gs := by simp [allSecs]
    rw [hsec] at h3 h4
    simp only [List.map_cons, List.headD_cons, List.tail_cons] at h1 h2
    obtain ⟨c1, m1, e1, e2, e3, e4, e5, e6, e7, e8, e9, _⟩ :=
      walk_d_items txt g.tr ((g.tStart, .trStart) :: (g.tEnd, .trEnd) :: (gs.flatMap sGroupMarkers ++ tl)) (allSecs gs)
        g.items prev ty c hty h1 h3 h4
    obtain ⟨u1, _⟩ := e9 (hne g List.mem_cons_self)
    have hgn := getNextTwprge_ok' { c1 with unused := c1.unused ++ [(c1.comps.length, slice txt m1.1 g.tStart)] }
      (Or.inr u1)
    rw [hm, e1, fold_pairs_cons2, stepD_unused txt c1 m1.1 m1.2 e2 _ (by simp), fold_pairs_cons2, stepP_trStart, hgn]
    obtain ⟨c', m', f1, f2, f3, f4, f5, f6, f7, f8⟩ :=
      ih g.tEnd .trEnd
        { c1 with unused := c1.unused ++ [(c1.comps.length, slice txt m1.1 g.tStart)], lastTRUsed := false,
                  workingTR := some (c1.trList.headD ERR_TWPRGE), trList := c1.trList.tail }
        (Or.inr (Or.inl rfl)) (fun g' hg' => hne g' (List.mem_cons_of_mem _ hg'))
        (by show some (c1.trList.headD ERR_TWPRGE) = _; rw [e7, h2])
        (by show c1.trList.tail = _; rw [e7, h2])
        (by show c1.workingSec = _; exact e4) (by show c1.secList = _; exact e5)
    refine ⟨c', m', f1, f2, ?_, f4, f5, f6, f7, f8.trans e8⟩
    rw [f3]
    show c1.comps ++ _ = _
    rw [e3]
    simp [strComps]

theorem walk_dstr (txt : Str) (groups : List TRGroup) (len : Nat) (fl0 : Tract.Flags)
    (hne : ∀ g ∈ groups, g.items ≠ []) :
    WalkClean (parseMeaningful (startChunk fl0 groups) txt DESC_STR
        (withEnd ((0, .textStart) :: groups.flatMap sGroupMarkers) len))
      fl0 (strComps txt 0 groups) := by
  have h01 : getNextTwprge (getNextSec (startChunk fl0 groups)) =
      { fl := fl0, workingSec := some ((allSecs groups).headD [ERR_SEC]), secList := (allSecs groups).tail,
        workingTR := some ((groups.map (·.tr)).headD ERR_TWPRGE), trList := (groups.map (·.tr)).tail } := by
    rw [getNextSec_ok' _ (Or.inl rfl), getNextTwprge_ok' _ (Or.inl rfl)]
    rfl
  have hc : parseMeaningful (startChunk fl0 groups) txt DESC_STR
        (withEnd ((0, .textStart) :: groups.flatMap sGroupMarkers) len) =
      (pairs ((0, .textStart) :: (groups.flatMap sGroupMarkers ++ [(len, .textEnd)]))).foldl (stepP txt TR_DESC_S)
        (getNextTwprge (getNextSec (startChunk fl0 groups))) := by
    unfold parseMeaningful
    simp only [sDescLays_DESC_STR, trFirstLays_DESC_STR, Bool.not_false, if_true]
    rw [walk_eq_pairs, walk_withEnd _ _ _ _ _ (by simp), stepP_STR_eq_D]
    rfl
  rw [hc, h01]
  obtain ⟨c', m', f1, f2, f3, f4, f5, f6, f7, f8⟩ :=
    walk_str_groups txt [(len, .textEnd)] groups 0 .textStart
      { fl := fl0, workingSec := some ((allSecs groups).headD [ERR_SEC]), secList := (allSecs groups).tail,
        workingTR := some ((groups.map (·.tr)).headD ERR_TWPRGE), trList := (groups.map (·.tr)).tail }
      (Or.inl rfl) hne rfl rfl rfl rfl
  rw [f1, fold_pairs_cons2, stepD_unused txt c' m'.1 m'.2 f2 _ (by simp)]
  simp only [pairs, List.foldl_cons, List.foldl_nil, stepP_textEnd]
  exact ⟨by simpa using f3, f7, f5, f8, Or.inr (Or.inl f6), Or.inr (Or.inl f4)⟩

/-! ### the four documented layouts, uniformly -/

inductive Lay where
  | trsDesc | trDescS | sDescTr | descStr
  deriving DecidableEq, Repr

def Lay.str : Lay → Str
  | .trsDesc => TRS_DESC
  | .trDescS => TR_DESC_S
  | .sDescTr => S_DESC_TR
  | .descStr => DESC_STR

/-- the markers of an arranged text, without the end-of-text marker -/
def Lay.core : Lay → List TRGroup → List (Nat × Marker)
  | .trsDesc, gs => pre0 (firstT gs) ++ gs.flatMap groupMarkers
  | .trDescS, gs => pre0 (firstT gs) ++ gs.flatMap groupMarkers
  | .sDescTr, gs => pre0 (firstS gs) ++ gs.flatMap sGroupMarkers
  | .descStr, gs => (0, .textStart) :: gs.flatMap sGroupMarkers

/-- the marker list `populate_markers` builds for an arranged text of length `len` -/
def Lay.markers (L : Lay) (gs : List TRGroup) (len : Nat) : List (Nat × Marker) := withEnd (L.core gs) len

/-- the components the layout's walk stages for an arranged text -/
def Lay.comps : Lay → Str → List TRGroup → Nat → List Component
  | .trsDesc, txt, gs, len => trsComps txt gs len
  | .trDescS, txt, gs, _ => expectedCompsTrDescS txt gs
  | .sDescTr, txt, gs, _ => expectedCompsSDescTr txt gs
  | .descStr, txt, gs, _ => strComps txt 0 gs

/-- C20/C01 (all four layouts): the walk over the marker list of an arranged text — every Twp/Rge with at least one section
    reference; with or without text in front of the first marker and behind the last one — stages exactly the layout's
    components, uses up both working lists, writes no flag and leaves nothing that `parse_chunk` would re-queue -/
theorem C20_walk_all_layouts (L : Lay) (txt : Str) (groups : List TRGroup) (len : Nat) (fl0 : Tract.Flags)
    (hne : ∀ g ∈ groups, g.items ≠ []) (hg : groups ≠ []) :
    WalkClean (parseMeaningful (startChunk fl0 groups) txt L.str (L.markers groups len)) fl0 (L.comps txt groups len) := by
  cases L
  · exact walk_trs txt groups len fl0 hne hg
  · exact walk_trds txt groups len fl0 hne hg
  · exact walk_sdtr txt groups len fl0 hne hg
  · exact walk_dstr txt groups len fl0 hne

theorem sItemComps_length (txt tr : Str) (nxt : Nat) : ∀ its : List SecItem, (sItemComps txt tr nxt its).length = its.length
  | [] => rfl
  | s :: rest => by simp [sItemComps, sItemComps_length txt tr nxt rest]

theorem dItemComps_length (txt tr : Str) : ∀ (its : List SecItem) (prev : Nat), (dItemComps txt tr prev its).length = its.length
  | [], _ => rfl
  | s :: rest, prev => by simp [dItemComps, dItemComps_length txt tr rest s.sEnd]

theorem trsComps_length (txt : Str) (len : Nat) : ∀ gs : List TRGroup, (trsComps txt gs len).length = (allSecs gs).length
  | [] => rfl
  | g :: gs => by
    have ih := trsComps_length txt len gs
    simp only [allSecs] at ih
    simp [trsComps, allSecs, sItemComps_length, ih]

theorem strComps_length (txt : Str) : ∀ (gs : List TRGroup) (prev : Nat), (strComps txt prev gs).length = (allSecs gs).length
  | [], _ => rfl
  | g :: gs, prev => by
    have ih := strComps_length txt gs g.tEnd
    simp only [allSecs] at ih
    simp [strComps, allSecs, dItemComps_length, ih]

theorem flatMap_length_congr {α β γ : Type} (f : α → List β) (h : α → List γ) (hl : ∀ a, (f a).length = (h a).length) :
    ∀ l : List α, (l.flatMap f).length = (l.flatMap h).length
  | [] => rfl
  | a :: l => by simp [hl a, flatMap_length_congr f h hl l]

/-- one component per section reference -/
theorem Lay.comps_length (L : Lay) (txt : Str) (gs : List TRGroup) (len : Nat) :
    (L.comps txt gs len).length = (allSecs gs).length := by
  cases L
  · exact trsComps_length txt len gs
  · exact flatMap_length_congr _ _ (fun g => by simp [dItemComps_length]) gs
  · exact flatMap_length_congr _ _ (fun g => by simp [sItemComps_length]) gs
  · exact strComps_length txt gs 0

theorem allSecs_ne_nil (gs : List TRGroup) (hne : ∀ g ∈ gs, g.items ≠ []) (hg : gs ≠ []) : allSecs gs ≠ [] := by
  cases gs with
  | nil => exact absurd rfl hg
  | cons g r =>
    have := hne g List.mem_cons_self
    cases hi : g.items with
    | nil => exact absurd hi this
    | cons s rest => simp [allSecs, hi]

theorem Lay.comps_ne_nil (L : Lay) (txt : Str) (gs : List TRGroup) (len : Nat) (hne : ∀ g ∈ gs, g.items ≠ [])
    (hg : gs ≠ []) : L.comps txt gs len ≠ [] := by
  intro h
  have h1 := L.comps_length txt gs len
  rw [h] at h1
  exact allSecs_ne_nil gs hne hg (List.length_eq_zero_iff.mp h1.symm)

theorem Lay.str_ne_copyall (L : Lay) : (L.str == COPY_ALL) = false := by cases L <;> decide

/-! ### the lexical premise, and one run of `ChunkParser` -/

/-- the lexical premise (decidable for a concrete text): on `txt` the two finders of `parse_chunk`, run for the layout `L`,
    report exactly the arrangement `groups` — the Twp/Rges with their spans, the section lists, and the marker list -/
def Reports (mc : MC) (rc : ReqColon) (txt : Str) (L : Lay) (groups : List TRGroup) : Prop :=
  match twprgeFinder mc txt L.str, secFinder txt L.str rc with
  | .ok (trs, _), .ok (secs, _) =>
    trs.map (fun m => (m.twprge, m.start, m.stop)) = groups.map (fun g => (g.tr, g.tStart, g.tEnd)) ∧
    secs.map (·.secs) = allSecs groups ∧
    populateMarkers txt.length secs trs = L.markers groups txt.length
  | _, _ => False

instance (mc : MC) (rc : ReqColon) (txt : Str) (L : Lay) (groups : List TRGroup) : Decidable (Reports mc rc txt L groups) := by
  unfold Reports
  split <;> infer_instance

theorem Reports.elim {mc : MC} {rc : ReqColon} {txt : Str} {L : Lay} {groups : List TRGroup}
    (h : Reports mc rc txt L groups) :
    ∃ trs tff secs sff, twprgeFinder mc txt L.str = .ok (trs, tff) ∧ secFinder txt L.str rc = .ok (secs, sff) ∧
      trs.map (fun m => (m.twprge, m.start, m.stop)) = groups.map (fun g => (g.tr, g.tStart, g.tEnd)) ∧
      secs.map (·.secs) = allSecs groups ∧
      populateMarkers txt.length secs trs = L.markers groups txt.length := by
  unfold Reports at h
  split at h
  · rename_i trs tff secs sff h1 h2
    exact ⟨trs, tff, secs, sff, h1, h2, h⟩
  · exact absurd h id

-- keep the elaborator from evaluating the finders whenever it looks at a `Reports …` hypothesis
attribute [irreducible] Reports

/-- one `ChunkParser` on a text whose finders report an arrangement: it hands the layout's components to its parent and
    raises no error flag -/
theorem C20_chunk_run (mc : MC) (pc : ParserCfg) (txt parentLayout : Str) (L : Lay) (groups : List TRGroup)
    (hlay : chunkLayoutOf pc txt false parentLayout = L.str) (hsw : pc.secWithin = false)
    (hrep : Reports mc pc.requireColon txt L groups) (hne : ∀ g ∈ groups, g.items ≠ []) (hg : groups ≠ [])
    (parent : ParentSt) :
    ∃ p, chunkParser mc pc txt false parentLayout parent = .ok p ∧
      p.comps = parent.comps ++ L.comps txt groups txt.length ∧ p.fl.e = parent.fl.e ∧ p.fl.el = parent.fl.el := by
  obtain ⟨trs, tff, secs, sff, htr, hsec, htrl, hsecl, hmark⟩ := hrep.elim
  have htrl' : trs.map (·.twprge) = groups.map (·.tr) := by
    have := congrArg (List.map (·.1)) htrl
    simpa [List.map_map, Function.comp_def] using this
  obtain ⟨w1, w2, w3, w4, w5, w6⟩ := C20_walk_all_layouts L txt groups txt.length
    { w := tff.flags ++ sff.flags, wl := tff.lines ++ sff.lines } hne hg
  obtain ⟨f1, f2⟩ := finishChunk_clean pc _ w2 w3 w5 w6
  have hcore : parseChunkCore mc pc txt false parentLayout = .ok (finishChunk pc (parseMeaningful
      (startChunk { w := tff.flags ++ sff.flags, wl := tff.lines ++ sff.lines } groups) txt L.str
      (L.markers groups txt.length))) := by
    unfold parseChunkCore
    simp only [hlay, htr, hsec, L.str_ne_copyall, hmark, htrl', hsecl]
    rfl
  have hcomps := ((f2 hsw).1).trans w1
  have hnonempty : (finishChunk pc (parseMeaningful
      (startChunk { w := tff.flags ++ sff.flags, wl := tff.lines ++ sff.lines } groups) txt L.str
      (L.markers groups txt.length))).comps.isEmpty = false := by
    rw [hcomps]
    cases h : L.comps txt groups txt.length with
    | nil => exact absurd h (L.comps_ne_nil txt groups txt.length hne hg)
    | cons _ _ => rfl
  unfold chunkParser
  simp only [hcore, hnonempty, Bool.false_eq_true, if_false]
  refine ⟨_, rfl, ?_, ?_, ?_⟩
  · simp only [hcomps]
  · show (genFlagsChunk txt parent.fl).e ++ _ = _
    rw [f1, w4]
    simp [genFlagsChunk]
  · show (genFlagsChunk txt parent.fl).el ++ _ = _
    rw [f1, w4]
    simp [genFlagsChunk]

/-! ### a chunk is a piece of the text: its components are the components of its group in the text -/

/-- a section reference / a group found in a chunk, at its place in the whole text (`off` = where the chunk starts) -/
def shiftI (off : Nat) (s : SecItem) : SecItem := { s with sStart := s.sStart + off, sEnd := s.sEnd + off }
def shiftG (off : Nat) (g : TRGroup) : TRGroup :=
  { g with tStart := g.tStart + off, tEnd := g.tEnd + off, items := g.items.map (shiftI off) }

/-- a slice of a piece of the text is a slice of the text -/
theorem slice_slice (text : Str) (off n a b : Nat) (hb : b ≤ n) :
    slice (slice text off (off + n)) a b = slice text (a + off) (b + off) := by
  unfold slice
  rw [List.take_drop, List.take_take, List.drop_drop, Nat.min_eq_left (by omega), Nat.add_comm off b,
    Nat.add_comm off a]

theorem sItemComps_shift (ck text : Str) (off : Nat) (hck : ck = slice text off (off + ck.length)) (tr : Str)
    (nxt nxt' : Nat) : ∀ its : List SecItem, (∀ s ∈ its, s.sStart ≤ ck.length) →
    (∀ s, its.getLast? = some s → cleanupDesc (slice ck s.sEnd nxt) = cleanupDesc (slice text (s.sEnd + off) nxt')) →
    sItemComps ck tr nxt its = sItemComps text tr nxt' (its.map (shiftI off))
  | [], _, _ => rfl
  | [s], _, hf => by
    simp only [sItemComps, List.map_cons, List.map_nil, List.head?_nil, Option.map_none, Option.getD_none]
    rw [hf s rfl]
    rfl
  | s :: s2 :: r, hw, hf => by
    have ih := sItemComps_shift ck text off hck tr nxt nxt' (s2 :: r)
      (fun x hx => hw x (List.mem_cons_of_mem _ hx)) (fun x hx => hf x (by rw [List.getLast?_cons_cons]; exact hx))
    have hs2 : s2.sStart ≤ ck.length := hw s2 (by simp)
    have hsl : slice ck s.sEnd s2.sStart = slice text (s.sEnd + off) (s2.sStart + off) := by
      conv => lhs; rw [hck]
      exact slice_slice text off ck.length _ _ hs2
    rw [sItemComps, ih]
    simp only [List.map_cons, sItemComps, List.head?_cons, Option.map_some, Option.getD_some, hsl]
    rfl

theorem dItemComps_shift (ck text : Str) (off : Nat) (hck : ck = slice text off (off + ck.length)) (tr : Str) :
    ∀ (its : List SecItem) (prev prev' : Nat), (∀ s ∈ its, s.sStart ≤ ck.length) →
    (∀ s, its.head? = some s → cleanupDesc (slice ck prev s.sStart) = cleanupDesc (slice text prev' (s.sStart + off))) →
    dItemComps ck tr prev its = dItemComps text tr prev' (its.map (shiftI off))
  | [], _, _, _, _ => rfl
  | s :: r, prev, prev', hw, hf => by
    have ih := dItemComps_shift ck text off hck tr r s.sEnd (s.sEnd + off)
      (fun x hx => hw x (List.mem_cons_of_mem _ hx))
      (fun x hx => by
        have hx' : x.sStart ≤ ck.length := hw x (List.mem_cons_of_mem _ (List.mem_of_head? hx))
        conv => lhs; rw [hck]
        rw [slice_slice text off ck.length _ _ hx'])
    simp only [dItemComps, List.map_cons, hf s rfl, ih]
    rfl

/-- where the chunker cuts an arranged text -/
def Lay.cuts : Lay → List TRGroup → Nat → List (Nat × Nat)
  | .trsDesc, gs, len => firstCuts (gs.map (·.tStart)) len
  | .trDescS, gs, len => firstCuts (gs.map (·.tStart)) len
  | .sDescTr, gs, _ => lastCuts 0 (gs.map (·.tEnd))
  | .descStr, gs, _ => lastCuts 0 (gs.map (·.tEnd))

theorem Lay.cuts_length (L : Lay) (gs : List TRGroup) (len : Nat) : (L.cuts gs len).length = gs.length := by
  cases L <;> simp [Lay.cuts, firstCuts_length, lastCuts_length]

/-- the components of one group of an arranged text, given the chunker's cut around it -/
def Lay.groupComps : Lay → Str → TRGroup → Nat × Nat → List Component
  | .trsDesc, txt, g, cut => sItemComps txt g.tr cut.2 g.items
  | .trDescS, txt, g, _ => dItemComps txt g.tr g.tEnd g.items
  | .sDescTr, txt, g, _ => sItemComps txt g.tr g.tStart g.items
  | .descStr, txt, g, cut => dItemComps txt g.tr cut.1 g.items

theorem firstCuts_cons (a : Nat) (r : List Nat) (len : Nat) :
    firstCuts (a :: r) len = (a, r.head?.getD len) :: firstCuts r len := by
  cases r <;> rfl

theorem flatMap_zip_fst {α β γ : Type} (f : α → List γ) : ∀ (l : List α) (m : List β), l.length = m.length →
    (l.zip m).flatMap (fun x => f x.1) = l.flatMap f
  | [], _, _ => rfl
  | a :: l, [], h => by simp at h
  | a :: l, b :: m, h => by
    simp only [List.zip_cons_cons, List.flatMap_cons, flatMap_zip_fst f l m (by simpa using h)]

theorem trsComps_zip (txt : Str) (len : Nat) : ∀ gs : List TRGroup,
    trsComps txt gs len = (gs.zip (firstCuts (gs.map (·.tStart)) len)).flatMap
      (fun x => sItemComps txt x.1.tr x.2.2 x.1.items)
  | [] => rfl
  | g :: gs => by
    simp only [trsComps, List.map_cons, firstCuts_cons, List.zip_cons_cons, List.flatMap_cons, List.head?_map,
      trsComps_zip txt len gs]

theorem strComps_zip (txt : Str) : ∀ (gs : List TRGroup) (prev : Nat),
    strComps txt prev gs = (gs.zip (lastCuts prev (gs.map (·.tEnd)))).flatMap
      (fun x => dItemComps txt x.1.tr x.2.1 x.1.items)
  | [], _ => rfl
  | g :: gs, prev => by
    simp only [strComps, List.map_cons, lastCuts, List.zip_cons_cons, List.flatMap_cons, strComps_zip txt gs g.tEnd]

/-- the components of an arranged text, group by group along the chunker's cuts -/
theorem Lay.comps_zip (L : Lay) (txt : Str) (gs : List TRGroup) (len : Nat) :
    L.comps txt gs len = (gs.zip (L.cuts gs len)).flatMap (fun x => L.groupComps txt x.1 x.2) := by
  cases L
  · exact trsComps_zip txt len gs
  · exact (flatMap_zip_fst (fun g => dItemComps txt g.tr g.tEnd g.items) gs (firstCuts (gs.map (·.tStart)) len)
      (by simp [firstCuts_length])).symm
  · exact (flatMap_zip_fst (fun g => sItemComps txt g.tr g.tStart g.items) gs (lastCuts 0 (gs.map (·.tEnd)))
      (by simp [lastCuts_length])).symm
  · exact strComps_zip txt gs 0

/-- a chunk of a segmented parse: its text, where it starts in the whole text, and the arrangement found IN THE CHUNK
    (positions counted from the start of the chunk) -/
structure SegChunk where
  ck : Str
  off : Nat
  g : TRGroup

/-- the one description of a chunk that touches the cut: `cleanup_desc` of the chunk may have taken characters off it, and
    it must still clean up to the same description (TRS_desc: the description after the last section reference;
    desc_STR: the description in front of the first one; in the other two layouts the cut touches only unused text) -/
def Lay.boundary : Lay → Str → SegChunk → Nat × Nat → Prop
  | .trsDesc, text, c, cut =>
    ∀ s ∈ c.g.items.getLast?,
      cleanupDesc (slice c.ck s.sEnd c.ck.length) = cleanupDesc (slice text (s.sEnd + c.off) cut.2)
  | .descStr, text, c, cut =>
    ∀ s ∈ c.g.items.head?, cleanupDesc (slice c.ck 0 s.sStart) = cleanupDesc (slice text cut.1 (s.sStart + c.off))
  | .trDescS, _, _, _ => True
  | .sDescTr, _, _, _ => True

instance (L : Lay) (text : Str) (c : SegChunk) (cut : Nat × Nat) : Decidable (L.boundary text c cut) := by
  cases L <;> unfold Lay.boundary <;> infer_instance

/-- premise (b), decidable for a concrete text: the chunk is what the chunker cut (`cleanup_desc` of the slice), it is a piece
    of the text starting at `off`, it deduces to the same layout, re-scanning it finds the markers of its one group, the group
    lies inside it, and the description that touches the cut cleans up to the same string -/
def ChunkOK (mc : MC) (rc : ReqColon) (L : Lay) (text : Str) (c : SegChunk) (cut : Nat × Nat) : Prop :=
  c.ck = cleanupDesc (slice text cut.1 cut.2) ∧
  c.ck = slice text c.off (c.off + c.ck.length) ∧
  deduceLayout c.ck = L.str ∧
  Reports mc rc c.ck L [c.g] ∧
  c.g.tStart ≤ c.ck.length ∧ (∀ s ∈ c.g.items, s.sStart ≤ c.ck.length) ∧
  L.boundary text c cut

instance (mc : MC) (rc : ReqColon) (L : Lay) (text : Str) (c : SegChunk) (cut : Nat × Nat) :
    Decidable (ChunkOK mc rc L text c cut) := by
  unfold ChunkOK; infer_instance

/-- the components of a chunk are the components of its group in the whole text -/
theorem chunk_comps (L : Lay) (text : Str) (c : SegChunk) (cut : Nat × Nat)
    (hck : c.ck = slice text c.off (c.off + c.ck.length)) (ht : c.g.tStart ≤ c.ck.length)
    (hs : ∀ s ∈ c.g.items, s.sStart ≤ c.ck.length) (hb : L.boundary text c cut) :
    L.comps c.ck [c.g] c.ck.length = L.groupComps text (shiftG c.off c.g) cut := by
  cases L
  · -- TRS_desc
    simp only [Lay.comps, trsComps, List.head?_nil, Option.map_none, Option.getD_none, List.append_nil, Lay.groupComps,
      shiftG]
    apply sItemComps_shift c.ck text c.off hck c.g.tr _ _ c.g.items hs
    intro s hs'
    exact hb s hs'
  · -- TR_desc_S
    simp only [Lay.comps, expectedCompsTrDescS, List.flatMap_cons, List.flatMap_nil, List.append_nil, Lay.groupComps,
      shiftG]
    apply dItemComps_shift c.ck text c.off hck c.g.tr c.g.items _ _ hs
    intro s hs'
    have hx : s.sStart ≤ c.ck.length := hs s (List.mem_of_head? hs')
    conv => lhs; rw [hck]
    rw [slice_slice text c.off c.ck.length _ _ hx]
  · -- S_desc_TR
    simp only [Lay.comps, expectedCompsSDescTr, List.flatMap_cons, List.flatMap_nil, List.append_nil, Lay.groupComps,
      shiftG]
    apply sItemComps_shift c.ck text c.off hck c.g.tr _ _ c.g.items hs
    intro s _
    conv => lhs; rw [hck]
    rw [slice_slice text c.off c.ck.length _ _ ht]
  · -- desc_STR
    simp only [Lay.comps, strComps, List.append_nil, Lay.groupComps, shiftG]
    apply dItemComps_shift c.ck text c.off hck c.g.tr c.g.items _ _ hs
    intro s hs'
    exact hb s hs'

/-! ### the chunks, one after the other -/

/-- `for chunk in blocks: ChunkParser(chunk, …)` over chunks that satisfy premise (b): the components of the groups, in order,
    and no error flag -/
theorem parseBlocks_chunks (mc : MC) (pc : ParserCfg) (L : Lay) (text : Str) (hml : pc.mandateLayout = false)
    (hsw : pc.secWithin = false) :
    ∀ (xs : List (SegChunk × (Nat × Nat))) (parent : ParentSt),
      (∀ x ∈ xs, ChunkOK mc pc.requireColon L text x.1 x.2 ∧ x.1.g.items ≠ []) →
      ∃ p, parseBlocks mc pc false L.str (xs.map (·.1.ck)) parent = .ok p ∧
        p.comps = parent.comps ++ xs.flatMap (fun x => L.groupComps text (shiftG x.1.off x.1.g) x.2) ∧
        p.fl.e = parent.fl.e ∧ p.fl.el = parent.fl.el
  | [], parent, _ => ⟨parent, rfl, by simp, rfl, rfl⟩
  | x :: xs, parent, h => by
    obtain ⟨⟨_, h2, h3, h4, h5, h6, h7⟩, hi⟩ := h x List.mem_cons_self
    have hlay : chunkLayoutOf pc x.1.ck false L.str = L.str := by
      simp only [chunkLayoutOf, hml, Bool.false_eq_true, if_false, h3]
    obtain ⟨p1, e1, e2, e3, e4⟩ := C20_chunk_run mc pc x.1.ck L.str L [x.1.g] hlay hsw h4
      (fun g hg => by rw [List.mem_singleton.mp hg]; exact hi) (by simp) parent
    obtain ⟨p, f1, f2, f3, f4⟩ := parseBlocks_chunks mc pc L text hml hsw xs p1
      (fun y hy => h y (List.mem_cons_of_mem _ hy))
    refine ⟨p, ?_, ?_, f3.trans e3, f4.trans e4⟩
    · simp only [List.map_cons, parseBlocks, e1]
      exact f1
    · rw [f2, e2, chunk_comps L text x.1 x.2 h2 h5 h6 h7]
      simp

/-- the chunker's blocks along the cuts of the arrangement the finder reported -/
theorem plssChunker_blocks (mc : MC) (text : Str) (L : Lay) (groups : List TRGroup) (trs : List TRMatch) (tff : FinderFlags)
    (hf : twprgeFinder mc text L.str = .ok (trs, tff))
    (htr : trs.map (fun m => (m.twprge, m.start, m.stop)) = groups.map (fun g => (g.tr, g.tStart, g.tEnd)))
    (hg : groups ≠ []) :
    ∃ un, plssChunker mc text L.str =
      .ok ((L.cuts groups text.length).map (fun ab => cleanupDesc (slice text ab.1 ab.2)), un) := by
  have hstart : trs.map (·.start) = groups.map (·.tStart) := by
    have := congrArg (List.map (·.2.1)) htr
    simpa [List.map_map, Function.comp_def] using this
  have hstop : trs.map (·.stop) = groups.map (·.tEnd) := by
    have := congrArg (List.map (·.2.2)) htr
    simpa [List.map_map, Function.comp_def] using this
  have hne : trs.isEmpty = false := by
    cases trs with
    | nil =>
      cases groups with
      | nil => exact absurd rfl hg
      | cons _ _ => simp at htr
    | cons _ _ => rfl
  unfold plssChunker
  simp only [hf, hne, L.str_ne_copyall, Bool.or_self, Bool.false_eq_true, if_false]
  cases L
  · exact ⟨_, by simp only [Lay.str, Lay.cuts, ← hstart, ← chunkBlocksFirst_eq]; rfl⟩
  · exact ⟨_, by simp only [Lay.str, Lay.cuts, ← hstart, ← chunkBlocksFirst_eq]; rfl⟩
  · exact ⟨_, by simp only [Lay.str, Lay.cuts, ← hstop, ← chunkBlocksLast_eq]; rfl⟩
  · exact ⟨_, by simp only [Lay.str, Lay.cuts, ← hstop, ← chunkBlocksLast_eq]; rfl⟩

theorem map_fst_zip' {α β : Type} : ∀ (l : List α) (m : List β), l.length = m.length → (l.zip m).map (·.1) = l
  | [], _, _ => rfl
  | a :: l, [], h => by simp at h
  | a :: l, b :: m, h => by simp [map_fst_zip' l m (by simpa using h)]

theorem map_snd_zip' {α β : Type} : ∀ (l : List α) (m : List β), l.length = m.length → (l.zip m).map (·.2) = m
  | [], [], _ => rfl
  | [], b :: m, h => by simp at h
  | a :: l, [], h => by simp at h
  | a :: l, b :: m, h => by simp [map_snd_zip' l m (by simpa using h)]

/-- the `ParserCfg` `parseAllBlocks` hands to its chunk parsers -/
def cfgOf (a : ParserArgs) : ParserCfg :=
  { mandateLayout := !a.segment && a.layout.isSome, requireColon := a.requireColon, secWithin := a.secWithin }

theorem parseAllBlocks_def (mc : MC) (ptext layout : Str) (a : ParserArgs) (fl : Tract.Flags) :
    parseAllBlocks mc ptext layout a fl =
      match (if a.segment then
          match plssChunker mc ptext layout with
          | .error e => .error e
          | .ok (bs, un) => .ok (bs, ({ fl := fl, unused := un } : ParentSt))
        else .ok ([ptext], { fl := fl }) : Except PyErr (List Str × ParentSt)) with
      | .error e => .error e
      | .ok (blocks, parent) =>
        match parseBlocks mc (cfgOf a) (layout == COPY_ALL) layout blocks parent with
        | .error e => .error e
        | .ok parent =>
          if a.secWithin then
            let r := rebuildSecWithin parent.comps parent.unused Gen.MIN_REPORTABLE_UNUSED_LEN
            .ok { parent with comps := r.1, unused := r.2 }
          else .ok parent := rfl

/-- `segment` off, no `sec_within`: one `ChunkParser` on the whole text -/
theorem parseAllBlocks_off (mc : MC) (ptext layout : Str) (a : ParserArgs) (fl : Tract.Flags) (hseg : a.segment = false)
    (hsw : a.secWithin = false) (hc : (layout == COPY_ALL) = false) (p : ParentSt)
    (hp : chunkParser mc (cfgOf a) ptext false layout { fl := fl } = .ok p) :
    parseAllBlocks mc ptext layout a fl = .ok p := by
  rw [parseAllBlocks_def]
  simp only [hseg, Bool.false_eq_true, if_false, hc, parseBlocks, hp, hsw]

/-- `segment` on, no `sec_within`: the chunker's blocks one after the other -/
theorem parseAllBlocks_on (mc : MC) (ptext layout : Str) (a : ParserArgs) (fl : Tract.Flags) (hseg : a.segment = true)
    (hsw : a.secWithin = false) (hc : (layout == COPY_ALL) = false) (bs : List Str) (un : List (Nat × Str))
    (hch : plssChunker mc ptext layout = .ok (bs, un)) (p : ParentSt)
    (hp : parseBlocks mc (cfgOf a) false layout bs { fl := fl, unused := un } = .ok p) :
    parseAllBlocks mc ptext layout a fl = .ok p := by
  rw [parseAllBlocks_def]
  simp only [hseg, if_true, hch, hc, hp, hsw, Bool.false_eq_true, if_false]

/-- the arrangement of the whole text: each chunk's group at its place in the text -/
def textGroups (chunks : List SegChunk) : List TRGroup := chunks.map (fun c => shiftG c.off c.g)

/-- C20 (marker level, all four documented layouts): let the text be arranged in ONE layout `L` — premise (a): the finders
    on the whole text report the groups `textGroups chunks` — and let every chunk the chunker cuts satisfy premise (b)
    (`ChunkOK`: re-scanning the chunk finds the markers of its own group, shifted by the chunk's offset; the chunk deduces
    to the layout `L`; the description that touches the cut cleans up to the same string).  Then, without `sec_within`, the
    parse with `segment` on stages exactly the components of the parse with `segment` off — same descriptions, sections and
    Twp/Rges, in the same order, namely the layout's components of the arrangement — and neither parse raises an error flag. -/
theorem C20_segment_components (mc : MC) (a : ParserArgs) (fl : Tract.Flags) (text : Str) (L : Lay)
    (chunks : List SegChunk) (hseg : a.segment = false) (hsw : a.secWithin = false)
    (hlay : a.layout = none → deduceLayout text = L.str)
    (hchunks : chunks ≠ []) (hitems : ∀ c ∈ chunks, c.g.items ≠ [])
    (hwhole : Reports mc a.requireColon text L (textGroups chunks))
    (hparts : ∀ x ∈ chunks.zip (L.cuts (textGroups chunks) text.length), ChunkOK mc a.requireColon L text x.1 x.2) :
    ∃ p ps, parseAllBlocks mc text L.str a fl = .ok p ∧
      parseAllBlocks mc text L.str { a with segment := true } fl = .ok ps ∧
      ps.comps = p.comps ∧ p.comps = L.comps text (textGroups chunks) text.length ∧
      p.fl.e = fl.e ∧ p.fl.el = fl.el ∧ ps.fl.e = fl.e ∧ ps.fl.el = fl.el := by
  have hgne : textGroups chunks ≠ [] := by
    cases chunks with
    | nil => exact absurd rfl hchunks
    | cons _ _ => simp [textGroups]
  have hgitems : ∀ g ∈ textGroups chunks, g.items ≠ [] := by
    intro g hg
    obtain ⟨c, hc, rfl⟩ := List.mem_map.mp hg
    have := hitems c hc
    simpa [shiftG] using this
  have hlen : chunks.length = (L.cuts (textGroups chunks) text.length).length := by
    rw [L.cuts_length]; simp [textGroups]
  -- the parse of the whole text
  have hlay1 : chunkLayoutOf (cfgOf a) text false L.str = L.str := by
    simp only [cfgOf, chunkLayoutOf, Bool.false_eq_true, if_false, hseg, Bool.not_false, Bool.true_and]
    cases hl : a.layout with
    | none => simp [hlay hl]
    | some l => simp
  obtain ⟨p, e1, e2, e3, e4⟩ := C20_chunk_run mc (cfgOf a)
    text L.str L (textGroups chunks) hlay1 hsw hwhole hgitems hgne { fl := fl }
  -- the segmented parse
  obtain ⟨trs, tff, _, _, htr, _, htrl, _, _⟩ := hwhole.elim
  obtain ⟨un, hchunker⟩ := plssChunker_blocks mc text L (textGroups chunks) trs tff htr htrl hgne
  have hblocks : (L.cuts (textGroups chunks) text.length).map (fun ab => cleanupDesc (slice text ab.1 ab.2)) =
      (chunks.zip (L.cuts (textGroups chunks) text.length)).map (·.1.ck) := by
    have h1 : (chunks.zip (L.cuts (textGroups chunks) text.length)).map (·.1.ck) =
        (chunks.zip (L.cuts (textGroups chunks) text.length)).map (fun x => cleanupDesc (slice text x.2.1 x.2.2)) :=
      List.map_congr_left (fun x hx => (hparts x hx).1)
    have h2 : (L.cuts (textGroups chunks) text.length).map (fun ab => cleanupDesc (slice text ab.1 ab.2)) =
        ((chunks.zip (L.cuts (textGroups chunks) text.length)).map (·.2)).map
          (fun ab => cleanupDesc (slice text ab.1 ab.2)) := by
      rw [map_snd_zip' chunks _ hlen]
    rw [h1, h2, List.map_map]
    simp only [Function.comp_def]
  obtain ⟨ps, f1, f2, f3, f4⟩ := parseBlocks_chunks mc (cfgOf { a with segment := true }) L text rfl hsw
    (chunks.zip (L.cuts (textGroups chunks) text.length)) { fl := fl, unused := un }
    (fun x hx => ⟨hparts x hx, hitems x.1 (List.of_mem_zip hx).1⟩)
  refine ⟨p, ps, ?_, ?_, ?_, by simpa using e2, e3, e4, f3, f4⟩
  · exact parseAllBlocks_off mc text L.str a fl hseg hsw L.str_ne_copyall p e1
  · exact parseAllBlocks_on mc text L.str { a with segment := true } fl rfl hsw L.str_ne_copyall _ un
      (hblocks ▸ hchunker) ps f1
  · rw [f2, e2, L.comps_zip]
    simp only [List.nil_append, textGroups, List.zip_map_left, List.flatMap_map]
    rfl

/-! ## Part 3: the tracts -/

/-- what `PLSSParser.parse` does with the staged components: `construct_tracts`, `examine_unused`, the `sec_within` and
    error-tract checks, `hand_down_flags` -/
def finishParser (uid0 : Nat) (text : Str) (parseQQ : Bool) (source : OptStr) (look : Option Str → TRS.TrsDict)
    (handedDown : Str) (pp : PPResult) (layout : Str) (cleanUp : Bool) (parent : ParentSt) : Except PyErr ParserOut :=
  match tractSpecs cleanUp parent.comps with
  | .error e => .error e
  | .ok specs =>
    match buildTracts uid0 handedDown parseQQ source text look 0 specs with
    | .error e => .error e
    | .ok tracts =>
      match secWithinFlags tracts (examineUnused parent.fl parent.unused) (secWithinIndexes specs) with
      | .error e => .error e
      | .ok fl1 =>
        let fl := errorTractFlag fl1 tracts
        let tracts := handDownFlags fl tracts
        .ok { tracts := tracts, fl := fl, layout := layout, text := pp.text, nextUid := uid0 + specs.length,
              diverged := pp.diverged || tracts.any (·.diverged), handedDown := handedDown }

theorem plssParser_eq (mc : MC) (uid0 : Nat) (text : Str) (a : ParserArgs) (look : Option Str → TRS.TrsDict) :
    plssParser mc uid0 text a look =
      match handedDownText a with
      | .error e => .error e
      | .ok handedDown =>
        match plssPreprocess mc text a.defaultNS a.defaultEW a.ocrScrub with
        | .error e => .error e
        | .ok pp =>
          match parseAllBlocks mc pp.text (match a.layout with | some l => l | none => deduceLayout pp.text) a
              (fixedFlags pp.fixed) with
          | .error e => .error e
          | .ok parent =>
            finishParser uid0 text a.parseQQ a.source look handedDown pp
              (match a.layout with | some l => l | none => deduceLayout pp.text)
              (match a.cleanUp with
                | some b => b
                | none => (match a.layout with | some l => l | none => deduceLayout pp.text) != COPY_ALL) parent := rfl

theorem secWithinFlags_total (tracts : List TractObj) : ∀ (is : List Nat) (fl fl1 fl' : Tract.Flags),
    secWithinFlags tracts fl is = .ok fl1 → ∃ fl1', secWithinFlags tracts fl' is = .ok fl1'
  | [], _, _, fl', _ => ⟨fl', rfl⟩
  | i :: rest, fl, fl1, fl', h => by
    rw [secWithinFlags] at h ⊢
    split at h
    · exact secWithinFlags_total tracts rest _ fl1 _ h
    · cases h

theorem handDownFlags_any_diverged (fl : Tract.Flags) (ts : List TractObj) :
    (handDownFlags fl ts).any (·.diverged) = ts.any (·.diverged) := by
  simp [handDownFlags, List.any_map, Function.comp_def]

/-- two parent states with the same components give the same tracts: the Tract objects are built from the components alone,
    then each parse puts its own description-level flags in front of every tract's flags -/
theorem finishParser_same_comps (uid0 : Nat) (text : Str) (parseQQ : Bool) (source : OptStr)
    (look : Option Str → TRS.TrsDict) (handedDown : Str) (pp : PPResult) (layout : Str) (cleanUp : Bool)
    (p p' : ParentSt) (hc : p'.comps = p.comps) (out : ParserOut)
    (h : finishParser uid0 text parseQQ source look handedDown pp layout cleanUp p = .ok out) :
    ∃ out' ts, finishParser uid0 text parseQQ source look handedDown pp layout cleanUp p' = .ok out' ∧
      out.tracts = handDownFlags out.fl ts ∧ out'.tracts = handDownFlags out'.fl ts ∧
      out'.layout = out.layout ∧ out'.text = out.text ∧ out'.nextUid = out.nextUid ∧ out'.diverged = out.diverged ∧
      out'.handedDown = out.handedDown := by
  unfold finishParser at h ⊢
  rw [hc]
  split at h
  · cases h
  · rename_i specs hspecs
    split at h
    · cases h
    · rename_i tracts htracts
      split at h
      · cases h
      · rename_i fl1 hfl1
        cases h
        obtain ⟨fl1', hfl1'⟩ := secWithinFlags_total tracts _ _ fl1 (examineUnused p'.fl p'.unused) hfl1
        simp only [hfl1']
        exact ⟨_, tracts, rfl, rfl, rfl, rfl, rfl, rfl, by simp only [handDownFlags_any_diverged], rfl⟩

/-- the lift through `plssParser`, with the preprocessing result as a parameter -/
theorem segment_tracts_pp (mc : MC) (uid0 : Nat) (text : Str) (a : ParserArgs) (look : Option Str → TRS.TrsDict)
    (L : Lay) (chunks : List SegChunk) (pp : PPResult) (out : ParserOut)
    (hseg : a.segment = false) (hsw : a.secWithin = false)
    (hpp : plssPreprocess mc text a.defaultNS a.defaultEW a.ocrScrub = .ok pp)
    (hlay : (match a.layout with | some l => l | none => deduceLayout pp.text) = L.str)
    (hchunks : chunks ≠ []) (hitems : ∀ c ∈ chunks, c.g.items ≠ [])
    (hwhole : Reports mc a.requireColon pp.text L (textGroups chunks))
    (hparts : ∀ x ∈ chunks.zip (L.cuts (textGroups chunks) pp.text.length),
      ChunkOK mc a.requireColon L pp.text x.1 x.2)
    (hout : plssParser mc uid0 text a look = .ok out) :
    ∃ outS ts, plssParser mc uid0 text { a with segment := true } look = .ok outS ∧
      out.tracts = handDownFlags out.fl ts ∧ outS.tracts = handDownFlags outS.fl ts ∧
      outS.layout = out.layout ∧ outS.text = out.text ∧ outS.nextUid = out.nextUid ∧
      outS.diverged = out.diverged ∧ outS.handedDown = out.handedDown := by
  have hlay' : a.layout = none → deduceLayout pp.text = L.str := by
    intro h; rw [h] at hlay; exact hlay
  obtain ⟨p, ps, h1, h2, h3, _⟩ := C20_segment_components mc a (fixedFlags pp.fixed) pp.text L chunks hseg hsw hlay'
    hchunks hitems hwhole hparts
  have hhd : handedDownText { a with segment := true } = handedDownText a := rfl
  rw [plssParser_eq] at hout ⊢
  rw [hhd]
  simp only [hpp, hlay] at hout ⊢
  split at hout
  · cases hout
  · rename_i hd hhd'
    simp only [h1] at hout
    simp only [h2]
    obtain ⟨out', ts, g1, g2, g3, g4⟩ := finishParser_same_comps uid0 text a.parseQQ a.source look hd pp L.str _ p ps h3
      out hout
    exact ⟨out', ts, g1, g2, g3, g4⟩

theorem finishParser_text (uid0 : Nat) (text : Str) (parseQQ : Bool) (source : OptStr)
    (look : Option Str → TRS.TrsDict) (handedDown : Str) (pp : PPResult) (layout : Str) (cleanUp : Bool)
    (p : ParentSt) (out : ParserOut)
    (h : finishParser uid0 text parseQQ source look handedDown pp layout cleanUp p = .ok out) :
    out.text = pp.text ∧ out.layout = layout := by
  unfold finishParser at h
  split at h
  · cases h
  · split at h
    · cases h
    · split at h
      · cases h
      · cases h; exact ⟨rfl, rfl⟩

/-- C20 (through `plssParser`): let a parse with `segment` off return `out`, and let the premises of
    `C20_segment_components` hold for the preprocessed text `out.text` and the layout `out.layout` that parse used.  Then the
    parse with `segment` on returns the SAME tracts — the same Tract objects (Twp/Rge/Sec, description, lots and QQs, settings,
    uid, origin), in the same order; each parse hands its own description-level flags down to them — and the same layout,
    preprocessed text, next uid, divergence mark and handed-down config -/
theorem C20_segment_tracts (mc : MC) (uid0 : Nat) (text : Str) (a : ParserArgs) (look : Option Str → TRS.TrsDict)
    (L : Lay) (chunks : List SegChunk) (out : ParserOut)
    (hseg : a.segment = false) (hsw : a.secWithin = false)
    (hout : plssParser mc uid0 text a look = .ok out) (hlay : out.layout = L.str)
    (hchunks : chunks ≠ []) (hitems : ∀ c ∈ chunks, c.g.items ≠ [])
    (hwhole : Reports mc a.requireColon out.text L (textGroups chunks))
    (hparts : ∀ x ∈ chunks.zip (L.cuts (textGroups chunks) out.text.length),
      ChunkOK mc a.requireColon L out.text x.1 x.2) :
    ∃ outS ts, plssParser mc uid0 text { a with segment := true } look = .ok outS ∧
      out.tracts = handDownFlags out.fl ts ∧ outS.tracts = handDownFlags outS.fl ts ∧
      outS.layout = out.layout ∧ outS.text = out.text ∧ outS.nextUid = out.nextUid ∧
      outS.diverged = out.diverged ∧ outS.handedDown = out.handedDown := by
  have hout' := hout
  rw [plssParser_eq] at hout'
  split at hout'
  · cases hout'
  · split at hout'
    · cases hout'
    · rename_i pp hpp
      split at hout'
      · cases hout'
      · obtain ⟨ht, hl⟩ := finishParser_text _ _ _ _ _ _ _ _ _ _ _ hout'
        rw [ht] at hwhole hparts
        exact segment_tracts_pp mc uid0 text a look L chunks pp out hseg hsw hpp (hl.symm.trans hlay) hchunks hitems
          hwhole hparts hout

/-- in particular: the same Twp/Rge/Sec and the same descriptions (and lots, QQs, uid, index), tract by tract -/
theorem C20_segment_tracts_desc_trs (mc : MC) (uid0 : Nat) (text : Str) (a : ParserArgs)
    (look : Option Str → TRS.TrsDict) (L : Lay) (chunks : List SegChunk) (out : ParserOut)
    (hseg : a.segment = false) (hsw : a.secWithin = false)
    (hout : plssParser mc uid0 text a look = .ok out) (hlay : out.layout = L.str)
    (hchunks : chunks ≠ []) (hitems : ∀ c ∈ chunks, c.g.items ≠ [])
    (hwhole : Reports mc a.requireColon out.text L (textGroups chunks))
    (hparts : ∀ x ∈ chunks.zip (L.cuts (textGroups chunks) out.text.length),
      ChunkOK mc a.requireColon L out.text x.1 x.2) :
    ∃ outS, plssParser mc uid0 text { a with segment := true } look = .ok outS ∧
      outS.tracts.map (fun t => (t.trs, t.desc)) = out.tracts.map (fun t => (t.trs, t.desc)) ∧
      outS.tracts.map (fun t => (t.lots, t.qqs, t.uid, t.origIndex)) =
        out.tracts.map (fun t => (t.lots, t.qqs, t.uid, t.origIndex)) := by
  obtain ⟨outS, ts, h1, h2, h3, _⟩ := C20_segment_tracts mc uid0 text a look L chunks out hseg hsw hout hlay hchunks
    hitems hwhole hparts
  refine ⟨outS, h1, ?_, ?_⟩
  · rw [h2, h3]; simp [handDownFlags, Function.comp_def]
  · rw [h2, h3]; simp [handDownFlags, Function.comp_def]

/-! ## Non-vacuity: one text per layout, all premises checked by kernel evaluation of the regenerated patterns -/

namespace SegEx

/-- TRS_desc -/
def txt1 : Str := S "T154N-R97W Sec 14: NE/4, Sec 15: W/2, T155N-R97W Sec 1: All"
def chunks1 : List SegChunk := [
  { ck := S "T154N-R97W Sec 14: NE/4, Sec 15: W/2", off := 0,
    g := { tStart := 0, tEnd := 10, tr := S "154n97w", items := [⟨11, 18, [S "14"]⟩, ⟨25, 32, [S "15"]⟩] } },
  { ck := S "T155N-R97W Sec 1: All", off := 38,
    g := { tStart := 0, tEnd := 10, tr := S "155n97w", items := [⟨11, 17, [S "01"]⟩] } }]

/-- TR_desc_S -/
def txt2 : Str := S "T154N-R97W NE/4 of Sec 14, W/2 of Sec 15, T155N-R97W All of Sec 1"
def chunks2 : List SegChunk := [
  { ck := S "T154N-R97W NE/4 of Sec 14, W/2 of Sec 15", off := 0,
    g := { tStart := 0, tEnd := 10, tr := S "154n97w", items := [⟨19, 25, [S "14"]⟩, ⟨34, 40, [S "15"]⟩] } },
  { ck := S "T155N-R97W All of Sec 1", off := 42,
    g := { tStart := 0, tEnd := 10, tr := S "155n97w", items := [⟨18, 23, [S "01"]⟩] } }]

/-- S_desc_TR -/
def txt3 : Str := S "Sec 14: NE/4, Sec 15: W/2, T154N-R97W, Sec 1: All, T155N-R97W"
def chunks3 : List SegChunk := [
  { ck := S "Sec 14: NE/4, Sec 15: W/2, T154N-R97W", off := 0,
    g := { tStart := 27, tEnd := 37, tr := S "154n97w", items := [⟨0, 7, [S "14"]⟩, ⟨14, 21, [S "15"]⟩] } },
  { ck := S "Sec 1: All, T155N-R97W", off := 39,
    g := { tStart := 12, tEnd := 22, tr := S "155n97w", items := [⟨0, 6, [S "01"]⟩] } }]

/-- desc_STR (two section references in front of the first Twp/Rge) -/
def txt4 : Str := S "NE/4 of Sec 14, W/2 of Sec 15, T154N-R97W, All of Sec 1, T155N-R97W"
def chunks4 : List SegChunk := [
  { ck := S "NE/4 of Sec 14, W/2 of Sec 15, T154N-R97W", off := 0,
    g := { tStart := 31, tEnd := 41, tr := S "154n97w", items := [⟨8, 14, [S "14"]⟩, ⟨23, 29, [S "15"]⟩] } },
  { ck := S "All of Sec 1, T155N-R97W", off := 43,
    g := { tStart := 14, tEnd := 24, tr := S "155n97w", items := [⟨7, 12, [S "01"]⟩] } }]

/-- TRS_desc with text in front of the first Twp/Rge and behind the last description -/
def txt5 : Str := S "Lands in T154N-R97W Sec 14: NE/4, Sec 15: W/2, T155N-R97W Sec 1: All."
def chunks5 : List SegChunk := [
  { ck := S "T154N-R97W Sec 14: NE/4, Sec 15: W/2", off := 9,
    g := { tStart := 0, tEnd := 10, tr := S "154n97w", items := [⟨11, 18, [S "14"]⟩, ⟨25, 32, [S "15"]⟩] } },
  { ck := S "T155N-R97W Sec 1: All.", off := 47,
    g := { tStart := 0, tEnd := 10, tr := S "155n97w", items := [⟨11, 17, [S "01"]⟩] } }]

theorem whole1 : Reports {} .no txt1 .trsDesc (textGroups chunks1) := by decide +kernel
theorem parts1 : ∀ x ∈ chunks1.zip (Lay.trsDesc.cuts (textGroups chunks1) txt1.length),
    ChunkOK {} .no .trsDesc txt1 x.1 x.2 := by decide +kernel
theorem whole2 : Reports {} .no txt2 .trDescS (textGroups chunks2) := by decide +kernel
theorem parts2 : ∀ x ∈ chunks2.zip (Lay.trDescS.cuts (textGroups chunks2) txt2.length),
    ChunkOK {} .no .trDescS txt2 x.1 x.2 := by decide +kernel
theorem whole3 : Reports {} .no txt3 .sDescTr (textGroups chunks3) := by decide +kernel
theorem parts3 : ∀ x ∈ chunks3.zip (Lay.sDescTr.cuts (textGroups chunks3) txt3.length),
    ChunkOK {} .no .sDescTr txt3 x.1 x.2 := by decide +kernel
theorem whole4 : Reports {} .no txt4 .descStr (textGroups chunks4) := by decide +kernel
theorem parts4 : ∀ x ∈ chunks4.zip (Lay.descStr.cuts (textGroups chunks4) txt4.length),
    ChunkOK {} .no .descStr txt4 x.1 x.2 := by decide +kernel
theorem whole5 : Reports {} .no txt5 .trsDesc (textGroups chunks5) := by decide +kernel
theorem parts5 : ∀ x ∈ chunks5.zip (Lay.trsDesc.cuts (textGroups chunks5) txt5.length),
    ChunkOK {} .no .trsDesc txt5 x.1 x.2 := by decide +kernel

theorem items1 : ∀ c ∈ chunks1, c.g.items ≠ [] := by
  intro c hc
  simp only [chunks1, List.mem_cons, List.mem_nil_iff, or_false] at hc
  rcases hc with rfl | rfl <;> simp
theorem items2 : ∀ c ∈ chunks2, c.g.items ≠ [] := by
  intro c hc
  simp only [chunks2, List.mem_cons, List.mem_nil_iff, or_false] at hc
  rcases hc with rfl | rfl <;> simp
theorem items3 : ∀ c ∈ chunks3, c.g.items ≠ [] := by
  intro c hc
  simp only [chunks3, List.mem_cons, List.mem_nil_iff, or_false] at hc
  rcases hc with rfl | rfl <;> simp
theorem items4 : ∀ c ∈ chunks4, c.g.items ≠ [] := by
  intro c hc
  simp only [chunks4, List.mem_cons, List.mem_nil_iff, or_false] at hc
  rcases hc with rfl | rfl <;> simp
theorem items5 : ∀ c ∈ chunks5, c.g.items ≠ [] := by
  intro c hc
  simp only [chunks5, List.mem_cons, List.mem_nil_iff, or_false] at hc
  rcases hc with rfl | rfl <;> simp

end SegEx


/-- `C20_segment_components` applies to a concrete text in each of the four layouts (and to one with text around the
    arrangement) -/
example : ∃ p ps, parseAllBlocks {} SegEx.txt1 TRS_DESC {} {} = .ok p ∧
    parseAllBlocks {} SegEx.txt1 TRS_DESC { segment := true } {} = .ok ps ∧ ps.comps = p.comps ∧
    p.comps = Lay.trsDesc.comps SegEx.txt1 (textGroups SegEx.chunks1) SegEx.txt1.length := by
  obtain ⟨p, ps, h1, h2, h3, h4, _⟩ := C20_segment_components {} {} {} SegEx.txt1 .trsDesc SegEx.chunks1 rfl rfl
    (fun _ => by decide +kernel) (by simp [SegEx.chunks1]) SegEx.items1 SegEx.whole1 SegEx.parts1
  exact ⟨p, ps, h1, h2, h3, h4⟩

example : ∃ p ps, parseAllBlocks {} SegEx.txt2 TR_DESC_S {} {} = .ok p ∧
    parseAllBlocks {} SegEx.txt2 TR_DESC_S { segment := true } {} = .ok ps ∧ ps.comps = p.comps := by
  obtain ⟨p, ps, h1, h2, h3, _⟩ := C20_segment_components {} {} {} SegEx.txt2 .trDescS SegEx.chunks2 rfl rfl
    (fun _ => by decide +kernel) (by simp [SegEx.chunks2]) SegEx.items2 SegEx.whole2 SegEx.parts2
  exact ⟨p, ps, h1, h2, h3⟩

example : ∃ p ps, parseAllBlocks {} SegEx.txt3 S_DESC_TR {} {} = .ok p ∧
    parseAllBlocks {} SegEx.txt3 S_DESC_TR { segment := true } {} = .ok ps ∧ ps.comps = p.comps := by
  obtain ⟨p, ps, h1, h2, h3, _⟩ := C20_segment_components {} {} {} SegEx.txt3 .sDescTr SegEx.chunks3 rfl rfl
    (fun _ => by decide +kernel) (by simp [SegEx.chunks3]) SegEx.items3 SegEx.whole3 SegEx.parts3
  exact ⟨p, ps, h1, h2, h3⟩

example : ∃ p ps, parseAllBlocks {} SegEx.txt4 DESC_STR {} {} = .ok p ∧
    parseAllBlocks {} SegEx.txt4 DESC_STR { segment := true } {} = .ok ps ∧ ps.comps = p.comps := by
  obtain ⟨p, ps, h1, h2, h3, _⟩ := C20_segment_components {} {} {} SegEx.txt4 .descStr SegEx.chunks4 rfl rfl
    (fun _ => by decide +kernel) (by simp [SegEx.chunks4]) SegEx.items4 SegEx.whole4 SegEx.parts4
  exact ⟨p, ps, h1, h2, h3⟩

example : ∃ p ps, parseAllBlocks {} SegEx.txt5 TRS_DESC {} {} = .ok p ∧
    parseAllBlocks {} SegEx.txt5 TRS_DESC { segment := true } {} = .ok ps ∧ ps.comps = p.comps := by
  obtain ⟨p, ps, h1, h2, h3, _⟩ := C20_segment_components {} {} {} SegEx.txt5 .trsDesc SegEx.chunks5 rfl rfl
    (fun _ => by decide +kernel) (by simp [SegEx.chunks5]) SegEx.items5 SegEx.whole5 SegEx.parts5
  exact ⟨p, ps, h1, h2, h3⟩

/-- the components both parses of the TRS_desc example stage -/
example : (Lay.trsDesc.comps SegEx.txt1 (textGroups SegEx.chunks1) SegEx.txt1.length).map
      (fun k => (k.twprge, k.sec, k.desc)) =
    [(some (S "154n97w"), some [S "14"], S "NE/4"), (some (S "154n97w"), some [S "15"], S "W/2"),
     (some (S "155n97w"), some [S "01"], S "All")] := by decide +kernel

/-! ### the chunker theorems on the examples -/

namespace SegEx
def trs1 : List TRMatch × FinderFlags := Pretty.okOr (twprgeFinder {} txt1 TRS_DESC) ([], {})
theorem trs1_ok : twprgeFinder {} txt1 TRS_DESC = .ok trs1 := Pretty.except_ok_of _ _ (by decide +kernel)
theorem trs1_spans : trs1.1.map (fun m => (m.start, m.stop)) = [(0, 10), (38, 48)] := by decide +kernel
def trs3 : List TRMatch × FinderFlags := Pretty.okOr (twprgeFinder {} txt3 S_DESC_TR) ([], {})
theorem trs3_ok : twprgeFinder {} txt3 S_DESC_TR = .ok trs3 := Pretty.except_ok_of _ _ (by decide +kernel)
theorem trs3_spans : trs3.1.map (fun m => (m.start, m.stop)) = [(27, 37), (51, 61)] := by decide +kernel
end SegEx

/-- `C20_chunker_cuts_groups` on the TRS_desc example: cuts at 0 and 38 -/
example : plssChunker {} SegEx.txt1 TRS_DESC =
    .ok ([cleanupDesc (slice SegEx.txt1 0 38), cleanupDesc (slice SegEx.txt1 38 59)], []) := by
  have h := C20_chunker_cuts_groups {} SegEx.txt1 TRS_DESC SegEx.trs1.1 SegEx.trs1.2
    (by rw [Prod.eta]; exact SegEx.trs1_ok) (Or.inl rfl)
    (by have := congrArg (fun l => l.head?.map (·.1)) SegEx.trs1_spans
        simpa [List.head?_map, Function.comp_def] using this)
  have hs : SegEx.trs1.1.map (·.start) = [0, 38] := by
    have := congrArg (List.map (·.1)) SegEx.trs1_spans
    simpa [List.map_map, Function.comp_def] using this
  rw [h, hs]
  rfl

example : ((firstCuts [0, 38] SegEx.txt1.length).map (fun ab => slice SegEx.txt1 ab.1 ab.2)).flatten = SegEx.txt1 :=
  C20_chunker_cuts_groups_cover SegEx.txt1 [0, 38] rfl (by decide)

/-- `C20_chunker_cuts_groups_last` on the S_desc_TR example: cuts at 37 and 61 (the end of the text) -/
example : plssChunker {} SegEx.txt3 S_DESC_TR =
    .ok ([cleanupDesc (slice SegEx.txt3 0 37), cleanupDesc (slice SegEx.txt3 37 61)], []) := by
  have hs : SegEx.trs3.1.map (·.stop) = [37, 61] := by
    have := congrArg (List.map (·.2)) SegEx.trs3_spans
    simpa [List.map_map, Function.comp_def] using this
  have h := C20_chunker_cuts_groups_last {} SegEx.txt3 S_DESC_TR SegEx.trs3.1 SegEx.trs3.2
    (by rw [Prod.eta]; exact SegEx.trs3_ok) (Or.inr rfl)
    (by have := congrArg List.getLast? hs
        rw [List.getLast?_map] at this
        rw [this]; rfl)
  rw [h, hs]
  rfl

example : ((lastCuts 0 [37, 61]).map (fun ab => slice SegEx.txt3 ab.1 ab.2)).flatten = SegEx.txt3 :=
  C20_chunker_cuts_groups_last_cover SegEx.txt3 [37, 61] rfl (by decide)

/-- `C20_walk_all_layouts` on an arrangement of two groups (any text) -/
example (txt : Str) (fl0 : Tract.Flags) :
    WalkClean (parseMeaningful (startChunk fl0 (textGroups SegEx.chunks2)) txt TR_DESC_S
      (Lay.trDescS.markers (textGroups SegEx.chunks2) 65)) fl0 (Lay.trDescS.comps txt (textGroups SegEx.chunks2) 65) :=
  C20_walk_all_layouts .trDescS txt _ 65 fl0
    (by intro g hg; simp [textGroups, SegEx.chunks2, shiftG] at hg; rcases hg with rfl | rfl <;> simp)
    (by simp [textGroups, SegEx.chunks2])

/-! ### through the whole parser -/

/-- `C20_segment_tracts` on the TRS_desc example.  Its lexical premises are the kernel-checked `SegEx.whole1`/`SegEx.parts1`; the
    remaining premises — the parse with `segment` off succeeds, leaves the text as it is and deduces TRS_desc — are discharged
    by the `#guard` below (evaluating the whole parser in the kernel takes minutes). -/
example (out : ParserOut) (hout : plssParser {} 0 SegEx.txt1 {} = .ok out) (htext : out.text = SegEx.txt1)
    (hlay : out.layout = TRS_DESC) :
    ∃ outS, plssParser {} 0 SegEx.txt1 { segment := true } = .ok outS ∧
      outS.tracts.map (fun t => (t.trs, t.desc)) = out.tracts.map (fun t => (t.trs, t.desc)) := by
  obtain ⟨outS, h1, h2, _⟩ := C20_segment_tracts_desc_trs {} 0 SegEx.txt1 {} TRS.trsToDict .trsDesc SegEx.chunks1
    out rfl rfl hout hlay (by simp [SegEx.chunks1]) SegEx.items1 (by rw [htext]; exact SegEx.whole1)
    (by rw [htext]; exact SegEx.parts1)
  exact ⟨outS, h1, h2⟩

/-- the (Twp/Rge/Sec, description) pairs, the error flags, the preprocessed text and the layout of a parse -/
def tractsAndErrors (text : Str) (seg : Bool) : Option (List (Str × Str) × List Str × Str × Str) :=
  match plssParser {} 0 text { segment := seg } with
  | .ok out => some (out.tracts.map (fun t => (t.trs.trs, t.desc)),
      out.fl.e.filterMap (fun v => match v with | .str s => some s | _ => none), out.text, out.layout)
  | .error _ => none

#guard tractsAndErrors SegEx.txt1 false ==
  some ([(S "154n97w14", S "NE/4"), (S "154n97w15", S "W/2"), (S "155n97w01", S "All")], [], SegEx.txt1, TRS_DESC)
#guard tractsAndErrors SegEx.txt1 true ==
  some ([(S "154n97w14", S "NE/4"), (S "154n97w15", S "W/2"), (S "155n97w01", S "All")], [], SegEx.txt1, TRS_DESC)

/-! ## What the premises exclude, and what is not preserved -/

/-- the descriptions `parseAllBlocks` stages, and its unused text blocks -/
def stagedDescs (text layout : Str) (seg : Bool) : Option (List Str × List Str) :=
  match parseAllBlocks {} text layout { segment := seg } {} with
  | .ok p => some (p.comps.map (·.desc), p.unused.map (·.2))
  | .error _ => none

/-- C20 (the boundary premise cannot be dropped; model AND library): a TRS_desc text whose first group ends in a description
    that is only a word `cleanup_desc` culls at the end of a string.  Without `segment` the block ": the; " cleans up to
    "the" (the blank in front of the word is stripped first, so the cull word " the" no longer matches); with `segment` the
    chunk "T154N-R97W Sec 1: the; " is cleaned up first, which culls " the" — and then the colon of "Sec 1:" —, and the
    component comes out with an EMPTY description.  Same Twp/Rge/Sec, different descriptions
    (library: `PLSSDesc(text)` gives 154n97w01 'the', `PLSSDesc(text, config='segment')` gives 154n97w01 ''). -/
theorem C20_segment_cull_word_differs :
    stagedDescs (S "T154N-R97W Sec 1: the; T155N-R97W Sec 2: NE/4") TRS_DESC false =
      some ([S "the", S "NE/4"], [S " ", S " "]) ∧
    stagedDescs (S "T154N-R97W Sec 1: the; T155N-R97W Sec 2: NE/4") TRS_DESC true =
      some ([S "", S "NE/4"], [S " ", S " "]) ∧
    (match plssChunker {} (S "T154N-R97W Sec 1: the; T155N-R97W Sec 2: NE/4") TRS_DESC with
      | .ok r => some r | .error _ => none) = some ([S "T154N-R97W Sec 1", S "T155N-R97W Sec 2: NE/4"], []) := by
  refine ⟨by decide +kernel, by decide +kernel, by decide +kernel⟩

#guard tractsAndErrors (S "T154N-R97W Sec 1: the; T155N-R97W Sec 2: NE/4") false ==
  some ([(S "154n97w01", S "the"), (S "155n97w02", S "NE/4")], [], S "T154N-R97W Sec 1: the; T155N-R97W Sec 2: NE/4", TRS_DESC)
#guard tractsAndErrors (S "T154N-R97W Sec 1: the; T155N-R97W Sec 2: NE/4") true ==
  some ([(S "154n97w01", S ""), (S "155n97w02", S "NE/4")], [], S "T154N-R97W Sec 1: the; T155N-R97W Sec 2: NE/4", TRS_DESC)

/-- C20 (what is NOT preserved: the unused text, hence the `unused_desc` error flags): in the TR_desc_S layout the text between
    the last section reference of a group and the next Twp/Rge is unused text in both parses, but the chunk has been through
    `cleanup_desc`: the same components, and an unused block (→ error flag `unused_desc<…>`) with a different text -/
theorem C20_segment_unused_differs :
    stagedDescs (S "T154N-R97W NE/4 of Sec 14 (being 160 acres), T155N-R97W All of Sec 1") TR_DESC_S false =
      some ([S "NE/4", S "All"], [S " (being 160 acres), ", S ""]) ∧
    stagedDescs (S "T154N-R97W NE/4 of Sec 14 (being 160 acres), T155N-R97W All of Sec 1") TR_DESC_S true =
      some ([S "NE/4", S "All"], [S " (being 160 acres)", S ""]) := by
  refine ⟨by decide +kernel, by decide +kernel⟩

#guard tractsAndErrors (S "T154N-R97W NE/4 of Sec 14 (being 160 acres), T155N-R97W All of Sec 1") false ==
  some ([(S "154n97w14", S "NE/4"), (S "155n97w01", S "All")], [S "unused_desc< (being 160 acres), >"],
    S "T154N-R97W NE/4 of Sec 14 (being 160 acres), T155N-R97W All of Sec 1", TR_DESC_S)
#guard tractsAndErrors (S "T154N-R97W NE/4 of Sec 14 (being 160 acres), T155N-R97W All of Sec 1") true ==
  some ([(S "154n97w14", S "NE/4"), (S "155n97w01", S "All")], [S "unused_desc< (being 160 acres)>"],
    S "T154N-R97W NE/4 of Sec 14 (being 160 acres), T155N-R97W All of Sec 1", TR_DESC_S)

/-- C20 (the premise "every chunk deduces to the layout of the whole text" cannot be dropped — not even by GIVING the layout;
    model AND library): with `segment` on the layout handed to the parser is used for cutting only — `mandate_layout` is
    `not segment and layout is not None` — and every chunk is parsed in the layout deduced from the chunk.  Here the second
    chunk "T155N-R97W (resurveyed) Sec 1: All" deduces to TR_desc_S (four or more characters between Twp/Rge and section), so
    with `segment` — and although `layout='TRS_desc'` was given — Sec 1 gets the text in front of it as its description
    (library: `PLSSDesc(text, layout='TRS_desc')` gives 155n97w01 'All', with `config='segment'` it gives '(resurveyed)'). -/
theorem C20_segment_rededuces_layout :
    (match parseAllBlocks {} (S "T154N-R97W Sec 14: NE/4, T155N-R97W (resurveyed) Sec 1: All") TRS_DESC
        { layout := some TRS_DESC } {} with
      | .ok p => some (p.comps.map (·.desc)) | .error _ => none) = some [S "NE/4", S "All"] ∧
    (match parseAllBlocks {} (S "T154N-R97W Sec 14: NE/4, T155N-R97W (resurveyed) Sec 1: All") TRS_DESC
        { layout := some TRS_DESC, segment := true } {} with
      | .ok p => some (p.comps.map (·.desc)) | .error _ => none) = some [S "NE/4", S "(resurveyed)"] ∧
    deduceLayout (S "T155N-R97W (resurveyed) Sec 1: All") = TR_DESC_S := by
  refine ⟨by decide +kernel, by decide +kernel, by decide +kernel⟩

#guard (match plssParser {} 0 (S "T154N-R97W Sec 14: NE/4, T155N-R97W (resurveyed) Sec 1: All")
    { layout := some TRS_DESC, segment := true } with
  | .ok out => some (out.tracts.map (fun t => (t.trs.trs, t.desc)), out.text) | .error _ => none) ==
  some ([(S "154n97w14", S "NE/4"), (S "155n97w01", S "(resurveyed)")],
    S "T154N-R97W Sec 14: NE/4, T155N-R97W (resurveyed) Sec 1: All")

/-- a sufficient condition for the boundary premise with the documented separators: a description that is a fixed point of the
    clean-up pass, with strippable characters (`,;:-–—`, tab, line break, blank) around it, cleans up to itself whatever those
    characters are — so it does not matter which of them the clean-up of the chunk has already taken -/
theorem C20_boundary_of_clean (d pre post pre' post' : Str) (hd : cleanupStep d = d)
    (h1 : ∀ c ∈ pre, c ∈ cleanupStripSet) (h2 : ∀ c ∈ post, c ∈ cleanupStripSet)
    (h3 : ∀ c ∈ pre', c ∈ cleanupStripSet) (h4 : ∀ c ∈ post', c ∈ cleanupStripSet) :
    cleanupDesc (pre ++ d ++ post) = cleanupDesc (pre' ++ d ++ post') := by
  rw [C01_cleanup_block pre d post h1 h2 hd, C01_cleanup_block pre' d post' h3 h4 hd]

example : cleanupDesc (S ": " ++ S "W/2" ++ S ", ") = cleanupDesc (S ": " ++ S "W/2" ++ S "") :=
  C20_boundary_of_clean _ _ _ _ _ (by decide +kernel) (by decide) (by decide) (by decide) (by decide)

#print axioms C20_walk_all_layouts
#print axioms C20_chunk_run
#print axioms C20_segment_components
#print axioms C20_segment_tracts
#print axioms C20_segment_tracts_desc_trs
#print axioms C20_segment_cull_word_differs
#print axioms C20_segment_unused_differs
#print axioms C20_segment_rededuces_layout
#print axioms C20_boundary_of_clean
#print axioms C20_chunker_cuts_groups
#print axioms C20_chunker_cuts_groups_cover
#print axioms C20_chunker_cuts_groups_last
#print axioms C20_chunker_cuts_groups_last_cover

end PyTRS
