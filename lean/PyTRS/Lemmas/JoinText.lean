/-
C07 — joiners between aliquot components collapse, for chains of EVERY length; every spelling × every joiner; every letter case.

Text family.  A chain is a first component followed by further components, each optionally preceded by a joiner " ", " of " or
" of the " (`JItem = Option Jn × Comp`, `itemsText`; `joinedText chain js` is the strictly interleaved form).  Components are
canonical ("N½", "NE¼") in part 1, written in any of the ten spellings of `Lemmas/SpellText.lean` in part 2, and in any mixture
of upper and lower case (components AND joiners) in part 3.

Main theorems (all `C07_…`):
* `C07_canonical_joined_collapses_items`, `C07_canonical_joined_collapses` — `scrub_aliquots` turns canonical components with
  joiners into the canonical chain text, every length, with and without `clean_qq`.
* `intervenerStep_items` — the exact effect of ONE pass of `remove_aliquot_interveners` (`passAux`): a match is a greedy run of
  adjacent components, the joiner after it and one more component; the search resumes after that component, so of the joiners
  "A j B j C j D" one pass removes the first and the third ("AB j CD"); `iv_stable` — the until-stable loop (strictly fewer joiners
  per pass) ends in the chain text within the model's fuel.
* `C07_joined_spelling_normalised_proved : C07_joined_spelling_normalised` — the statement left open in `SpellText`;
  `C07_joined_spelling_parse_eq`, `C07_joined_spelling_parse` — the parser returns the single aliquot block of the chain.
* `C07_case_insensitive` (+ `_parse_eq`, `_parse`, `C07_case_insensitive_components`) — any text that agrees with such a chain up
  to the case of ASCII letters — and the long s 'ſ' for 's' — (`caseEqText`) is normalised to the same canonical chain text;
  `C07_case_insensitive_stable` (independent of `clean_qq`, idempotent); `C07_adjacent_words_not_normalised` (the side condition
  `Adj` of `SpellText` cannot be dropped: "North HalfNortheast Quarter" ↦ "N½NE¼ Quarter", as in the library).
* `C07_canonical_joined_chains_collapse` (+ `_parse_eq`, `intervenerStep_xitems`) — SEVERAL chains: canonical components, each
  preceded by nothing, a joiner or a separator ", " / "; " (`XItem`, `xitemsText`): exactly the joiners are removed, the separators
  stay ("N½ of NE¼, SW¼ of the SE¼" ↦ "N½NE¼, SW¼SE¼"), any number of chains of any length.
Method.  Parts 1–2: the token argument of `CanonFixed`/`SpellText` with joiner tokens (the twelve spelling / `clean_qq` patterns and
`half_plus_q_regex` leave the text unchanged), a loop lemma for the greedy `(component)+` (`iv_loop_run`), evaluation of the joiner
part per joiner × component (`iv_tail_hit`), and an induction over the matches of one pass (`goItem_all`).  Part 3: all fourteen
patterns are case-blind (`caseBlind_patterns`, decided on the regenerated patterns), so by `Lemmas/RxSig.lean` they match at the
same places with the same captures on a case variant (`matchHere_case`); the token argument is transferred to tokens in any case
(`VT`, `VJ`); after the eight spelling passes the components are canonical and only the joiners still differ, a relation
(`jnRelText`) that one pass of the intervener remover preserves (`intervenerStep_jnRel`) and that forces equality on a chain text.
-/
import PyTRS.Lemmas.SpellText
import PyTRS.Lemmas.RxSig
set_option linter.unusedSimpArgs false
set_option linter.unusedVariables false
namespace PyTRS
open PyTRS.Aliquot PyTRS.Tiling PyTRS.Tract PyTRS.Unpack

/-! ### tokens of a joined canonical text -/

/-- a token of a joined canonical text: a canonical component or a joiner -/
inductive JT where
  | cp (c : Comp)
  | jn (j : Jn)
  deriving DecidableEq, Repr

def JT.text : JT → Str
  | .cp c => compText c
  | .jn j => j.text

def jtext (l : List JT) : Str := textOf JT.text l

theorem JT.text_ne_nil (tok : JT) : tok.text ≠ [] := by
  cases tok with
  | cp c => cases c <;> simp [JT.text, compText, Comp.str, Comp.isHalf]
  | jn j => cases j <;> simp [JT.text, Jn.text]

/-- a joiner is followed by a component -/
def JV : List JT → Prop
  | [] => True
  | .cp _ :: l => JV l
  | .jn _ :: l => (∃ c l', l = .cp c :: l') ∧ JV l

theorem JV_tail (tok : JT) (toks : List JT) (h : JV (tok :: toks)) : JV toks := by
  cases tok with
  | cp c => exact h
  | jn j => exact h.2

/-! ### the four `clean_qq` patterns on joined text -/

theorem nec_innerJ : InnerFailG JT.text Gen.ne_clean := by
  intro tok rest pos
  cases tok with
  | cp c =>
    cases c <;> simp [JT.text, compText, Comp.str, Comp.isHalf, innerOf, innerStates] <;> and_intros <;>
      rx_eval [matchHere, Gen.ne_clean]
  | jn j =>
    cases j <;> simp [JT.text, Jn.text, innerOf, innerStates] <;> and_intros <;> rx_eval [matchHere, Gen.ne_clean]

theorem nec_startJ : StartStepG JT.text JT.text (fun _ => True) Gen.ne_clean (fun _ => compText .NE) := by
  intro tok toks prev pos adv _
  have h3 : ¬ (pos + 1 + 1 + 1 = pos) := by omega
  by_cases htok : tok = .cp .NE
  · subst htok
    left
    refine ⟨?_, ?_, rfl⟩
    rotate_left
    · rx_eval [matchHere, Gen.ne_clean, h3, JT.text]
      rfl
  · right
    refine ⟨?_, rfl⟩
    cases tok with
    | cp c => cases c <;> first | exact absurd rfl htok | rx_eval [matchHere, Gen.ne_clean, JT.text]
    | jn j => cases j <;> rx_eval [matchHere, Gen.ne_clean, JT.text, Jn.text]

theorem nec_passJ (toks : List JT) : scrubStep "ne_clean" (jtext toks) = jtext toks :=
  subWithG JT.text JT.text (fun _ => True) Gen.ne_clean _ nec_innerJ JT.text_ne_nil (fun _ _ => trivial) trivial nec_startJ
    nec_nil toks

theorem nwc_innerJ : InnerFailG JT.text Gen.nw_clean := by
  intro tok rest pos
  cases tok with
  | cp c =>
    cases c <;> simp [JT.text, compText, Comp.str, Comp.isHalf, innerOf, innerStates] <;> and_intros <;>
      rx_eval [matchHere, Gen.nw_clean]
  | jn j =>
    cases j <;> simp [JT.text, Jn.text, innerOf, innerStates] <;> and_intros <;> rx_eval [matchHere, Gen.nw_clean]

theorem nwc_startJ : StartStepG JT.text JT.text (fun _ => True) Gen.nw_clean (fun _ => compText .NW) := by
  intro tok toks prev pos adv _
  have h3 : ¬ (pos + 1 + 1 + 1 = pos) := by omega
  by_cases htok : tok = .cp .NW
  · subst htok
    left
    refine ⟨?_, ?_, rfl⟩
    rotate_left
    · rx_eval [matchHere, Gen.nw_clean, h3, JT.text]
      rfl
  · right
    refine ⟨?_, rfl⟩
    cases tok with
    | cp c => cases c <;> first | exact absurd rfl htok | rx_eval [matchHere, Gen.nw_clean, JT.text]
    | jn j => cases j <;> rx_eval [matchHere, Gen.nw_clean, JT.text, Jn.text]

theorem nwc_passJ (toks : List JT) : scrubStep "nw_clean" (jtext toks) = jtext toks :=
  subWithG JT.text JT.text (fun _ => True) Gen.nw_clean _ nwc_innerJ JT.text_ne_nil (fun _ _ => trivial) trivial nwc_startJ
    nwc_nil toks

theorem sec_innerJ : InnerFailG JT.text Gen.se_clean := by
  intro tok rest pos
  cases tok with
  | cp c =>
    cases c <;> simp [JT.text, compText, Comp.str, Comp.isHalf, innerOf, innerStates] <;> and_intros <;>
      rx_eval [matchHere, Gen.se_clean]
  | jn j =>
    cases j <;> simp [JT.text, Jn.text, innerOf, innerStates] <;> and_intros <;> rx_eval [matchHere, Gen.se_clean]

theorem sec_startJ : StartStepG JT.text JT.text (fun _ => True) Gen.se_clean (fun _ => compText .SE) := by
  intro tok toks prev pos adv _
  have h3 : ¬ (pos + 1 + 1 + 1 = pos) := by omega
  by_cases htok : tok = .cp .SE
  · subst htok
    left
    refine ⟨?_, ?_, rfl⟩
    rotate_left
    · rx_eval [matchHere, Gen.se_clean, h3, JT.text]
      rfl
  · right
    refine ⟨?_, rfl⟩
    cases tok with
    | cp c => cases c <;> first | exact absurd rfl htok | rx_eval [matchHere, Gen.se_clean, JT.text]
    | jn j => cases j <;> rx_eval [matchHere, Gen.se_clean, JT.text, Jn.text]

theorem sec_passJ (toks : List JT) : scrubStep "se_clean" (jtext toks) = jtext toks :=
  subWithG JT.text JT.text (fun _ => True) Gen.se_clean _ sec_innerJ JT.text_ne_nil (fun _ _ => trivial) trivial sec_startJ
    sec_nil toks

theorem swc_innerJ : InnerFailG JT.text Gen.sw_clean := by
  intro tok rest pos
  cases tok with
  | cp c =>
    cases c <;> simp [JT.text, compText, Comp.str, Comp.isHalf, innerOf, innerStates] <;> and_intros <;>
      rx_eval [matchHere, Gen.sw_clean]
  | jn j =>
    cases j <;> simp [JT.text, Jn.text, innerOf, innerStates] <;> and_intros <;> rx_eval [matchHere, Gen.sw_clean]

theorem swc_startJ : StartStepG JT.text JT.text (fun _ => True) Gen.sw_clean (fun _ => compText .SW) := by
  intro tok toks prev pos adv _
  have h3 : ¬ (pos + 1 + 1 + 1 = pos) := by omega
  by_cases htok : tok = .cp .SW
  · subst htok
    left
    refine ⟨?_, ?_, rfl⟩
    rotate_left
    · rx_eval [matchHere, Gen.sw_clean, h3, JT.text]
      rfl
  · right
    refine ⟨?_, rfl⟩
    cases tok with
    | cp c => cases c <;> first | exact absurd rfl htok | rx_eval [matchHere, Gen.sw_clean, JT.text]
    | jn j => cases j <;> rx_eval [matchHere, Gen.sw_clean, JT.text, Jn.text]

theorem swc_passJ (toks : List JT) : scrubStep "sw_clean" (jtext toks) = jtext toks :=
  subWithG JT.text JT.text (fun _ => True) Gen.sw_clean _ swc_innerJ JT.text_ne_nil (fun _ _ => trivial) trivial swc_startJ
    swc_nil toks

/-! ### `half_plus_q_regex` matches nowhere in a joined canonical text -/

theorem hpq_innerJ : InnerFailG JT.text Gen.half_plus_q_regex := by
  intro tok rest pos ps hps
  unfold matchHere
  rw [hpq_shape, m_seq]
  apply LB_none
  intro caps'
  revert ps
  cases tok with
  | cp c =>
    cases c <;> simp [JT.text, compText, Comp.str, Comp.isHalf, innerOf, innerStates] <;> and_intros <;>
      rx_eval [Gen.half_plus_q_regex]
  | jn j =>
    cases j <;> simp [JT.text, Jn.text, innerOf, innerStates] <;> and_intros <;> rx_eval [Gen.half_plus_q_regex]

theorem hpq_rep_none_blank (c' : Comp) (rest' : Str) (prev : Option Char) (pos : Nat) (caps : List (Nat × Nat × Nat))
    (k : St → Option Match) :
    (tailOf (tailOf Gen.half_plus_q_regex)).m ⟨prev, Jn.blank.text ++ (compText c' ++ rest'), pos, caps⟩ k = none := by
  cases c' <;> cases rest' <;> rx_eval [Gen.half_plus_q_regex, JT.text, Jn.text]

set_option maxHeartbeats 1600000 in
theorem hpq_rep_none_of (c' : Comp) (rest' : Str) (prev : Option Char) (pos : Nat) (caps : List (Nat × Nat × Nat))
    (k : St → Option Match) :
    (tailOf (tailOf Gen.half_plus_q_regex)).m ⟨prev, Jn.of_.text ++ (compText c' ++ rest'), pos, caps⟩ k = none := by
  cases c' <;> cases rest' <;> rx_eval [Gen.half_plus_q_regex, JT.text, Jn.text]

set_option maxHeartbeats 3200000 in
theorem hpq_rep_none_ofThe (c' : Comp) (rest' : Str) (prev : Option Char) (pos : Nat) (caps : List (Nat × Nat × Nat))
    (k : St → Option Match) :
    (tailOf (tailOf Gen.half_plus_q_regex)).m ⟨prev, Jn.ofThe.text ++ (compText c' ++ rest'), pos, caps⟩ k = none := by
  cases c' <;> cases rest' <;> rx_eval [Gen.half_plus_q_regex, JT.text, Jn.text]

theorem hpq_rep_noneJ (toks : List JT) (hv : JV toks) (prev : Option Char) (pos : Nat) (caps : List (Nat × Nat × Nat))
    (k : St → Option Match) :
    (tailOf (tailOf Gen.half_plus_q_regex)).m ⟨prev, jtext toks, pos, caps⟩ k = none := by
  cases toks with
  | nil => rx_eval [Gen.half_plus_q_regex, jtext, textOf]
  | cons tok' toks' =>
    cases tok' with
    | cp c' =>
      rw [jtext, textOf_cons]
      generalize textOf JT.text toks' = rest'
      cases c' <;> cases rest' <;> rx_eval [Gen.half_plus_q_regex, JT.text]
    | jn j =>
      obtain ⟨⟨c', l', rfl⟩, _⟩ := hv
      rw [jtext, textOf_cons, textOf_cons]
      cases j
      · exact hpq_rep_none_blank _ _ _ _ _ _
      · exact hpq_rep_none_of _ _ _ _ _ _
      · exact hpq_rep_none_ofThe _ _ _ _ _ _

theorem hpq_startJ (f : Match → Str) :
    StartStepV JT.text JT.text (fun _ l => JV l) Gen.half_plus_q_regex f := by
  intro tok toks prev pos adv hv
  right
  refine ⟨?_, rfl⟩
  unfold matchHere
  rw [hpq_shape, m_seq]
  apply LB_none
  intro caps'
  rw [m_seq]
  have hr := fun p q cp k => hpq_rep_noneJ toks (JV_tail tok toks hv) p q cp k
  rw [jtext] at hr
  cases tok with
  | cp c =>
    cases c
    case N => rx_eval [Gen.half_plus_q_regex, JT.text]; exact hr _ _ _ _
    case S => rx_eval [Gen.half_plus_q_regex, JT.text]; exact hr _ _ _ _
    case E => rx_eval [Gen.half_plus_q_regex, JT.text]; exact hr _ _ _ _
    case W => rx_eval [Gen.half_plus_q_regex, JT.text]; exact hr _ _ _ _
    all_goals rx_eval [Gen.half_plus_q_regex, JT.text]
  | jn j => cases j <;> rx_eval [Gen.half_plus_q_regex, JT.text, Jn.text]

theorem hpq_passJ (toks : List JT) (hv : JV toks) : halfPlusQStep (jtext toks) = jtext toks :=
  subWithV JT.text JT.text (fun _ l => JV l) Gen.half_plus_q_regex _ hpq_innerJ JT.text_ne_nil
    (fun _ tok toks h => JV_tail tok toks h) (hpq_startJ _) hpq_nil toks hv

/-! ### one match of `aliquot_intervener_remover_regex`: a greedy run of components, a joiner, one more component -/

theorem iv_innerJ : InnerFailG JT.text Gen.aliquot_intervener_remover_regex := by
  intro tok rest pos
  cases tok with
  | cp c =>
    cases c <;> simp [JT.text, compText, Comp.str, Comp.isHalf, innerOf, innerStates] <;> and_intros <;>
      rx_eval [matchHere, Gen.aliquot_intervener_remover_regex]
  | jn j =>
    cases j <;> simp [JT.text, Jn.text, innerOf, innerStates] <;> and_intros <;>
      rx_eval [matchHere, Gen.aliquot_intervener_remover_regex]

theorem iv_body_jn (j : Jn) (prev : Option Char) (rest : Str) (pos : Nat) (caps : List (Nat × Nat × Nat))
    (k : St → Option Match) : ivBody.m ⟨prev, j.text ++ rest, pos, caps⟩ k = none := by
  cases j <;> rx_eval [ivBody, Gen.aliquot_intervener_remover_regex, Jn.text]

theorem iv_start_jn (j : Jn) (prev : Option Char) (rest : Str) (pos : Nat) (adv : Bool) :
    matchHere Gen.aliquot_intervener_remover_regex ⟨prev, j.text ++ rest, pos, []⟩ adv = none := by
  cases j <;> rx_eval [matchHere, Gen.aliquot_intervener_remover_regex, Jn.text]

theorem chainText_length_ge (run : List Comp) : run.length ≤ (chainText run).length := by
  induction run with
  | nil => simp
  | cons c cs ih =>
    rw [C02_chainText_cons, List.length_append, List.length_cons]
    have : 0 < (compText c).length := by cases c <;> simp [compText, Comp.str, Comp.isHalf]
    omega

/-- the greedy loop over a run of components that is followed by something the loop body rejects: it consumes the whole run
    and hands over to the continuation (which succeeds there) -/
theorem iv_loop_run (K : St → Option Match) (T : Str)
    (hT : ∀ p q caps (k : St → Option Match), ivBody.m ⟨p, T, q, caps⟩ k = none)
    (hK : ∀ p q caps, (K ⟨p, T, q, caps⟩).isSome = true) :
    ∀ (run : List Comp) (fuel count : Nat) (last : Option Nat) (prev : Option Char) (pos : Nat)
      (caps : List (Nat × Nat × Nat)),
      run.length < fuel → (run = [] → 1 ≤ count) → (∀ q, last = some q → q < pos) →
      ∃ caps', repLoop ivBody.m 1 none fuel count last ⟨prev, chainText run ++ T, pos, caps⟩ K =
        K ⟨lastOr prev (chainText run), T, pos + (chainText run).length, caps'⟩ := by
  intro run
  induction run with
  | nil =>
    intro fuel count last prev pos caps hf hc hl
    obtain ⟨n, rfl⟩ : ∃ n, fuel = n + 1 := ⟨fuel - 1, by simp at hf; omega⟩
    refine ⟨caps, ?_⟩
    have h1 : ¬ count < 1 := by have := hc rfl; omega
    rw [repLoop_succ]
    simp only [h1, if_false]
    show (if _ then _ else _) = K ⟨prev, T, pos + 0, caps⟩
    split
    · show ((ivBody.m ⟨prev, T, pos, caps⟩ _).or _) = _
      rw [hT]; rfl
    · rfl
  | cons c cs ih =>
    intro fuel count last prev pos caps hf hc hl
    obtain ⟨n, rfl⟩ : ∃ n, fuel = n + 1 := ⟨fuel - 1, by simp at hf; omega⟩
    have hpos : 0 < (compText c).length := by cases c <;> simp [compText, Comp.str, Comp.isHalf]
    have hstep : ∀ (cnt : Nat) (l : Option Nat), 1 ≤ cnt → (∀ q, l = some q → q < pos + (compText c).length) →
        ∃ caps', ivBody.m ⟨prev, chainText (c :: cs) ++ T, pos, caps⟩
            (fun s' => repLoop ivBody.m 1 none n cnt l s' K) =
          K ⟨lastOr prev (chainText (c :: cs)), T, pos + (chainText (c :: cs)).length, caps'⟩ := by
      intro cnt l hcnt hl'
      rw [C02_chainText_cons, List.append_assoc]
      obtain ⟨caps1, h1⟩ := iv_body_comp c prev (chainText cs ++ T) pos caps
        (fun s' => repLoop ivBody.m 1 none n cnt l s' K)
      obtain ⟨caps2, h2⟩ := ih n cnt l (lastOr prev (compText c)) (pos + (compText c).length) caps1
        (by simpa using hf) (fun _ => hcnt) hl'
      refine ⟨caps2, ?_⟩
      rw [h1, h2, lastOr_append, List.length_append, Nat.add_assoc]
    rw [repLoop_succ]
    split
    · exact hstep _ _ (by omega) (fun q hq => by have := hl q hq; omega)
    · split
      · obtain ⟨caps', h⟩ := hstep (count + 1) (some pos) (by omega) (fun q hq => by cases hq; omega)
        refine ⟨caps', ?_⟩
        show (Option.or _ _) = _
        rw [h]
        exact or_of_isSome _ _ (hK _ _ _)
      · rename_i hcond
        exfalso
        apply hcond
        simp only [canMore, Bool.true_and, bne_iff_ne, ne_eq]
        intro h
        have := hl pos h
        omega

def ivTail : Rx := tailOf Gen.aliquot_intervener_remover_regex

theorem iv_tail_hit (j : Jn) (c' : Comp) (rest : Str) (p : Option Char) (q : Nat) (caps : List (Nat × Nat × Nat))
    (k : St → Option Match) (hk : ∀ p q caps, (k ⟨p, rest, q, caps⟩).isSome = true) :
    ∃ caps', ivTail.m ⟨p, j.text ++ (compText c' ++ rest), q, caps⟩ k =
        k ⟨lastOr p (j.text ++ compText c'), rest, q + j.text.length + (compText c').length, caps'⟩ ∧
      caps'.find? (fun c => c.1 == 10) = some (10, q + j.text.length, q + j.text.length + (compText c').length) ∧
      caps'.find? (fun c => c.1 == 1) = caps.find? (fun c => c.1 == 1) := by
  cases j <;> cases c' <;> rx_eval [ivTail, Gen.aliquot_intervener_remover_regex, Jn.text, or_of_isSome, hk, Nat.add_assoc]
  all_goals exact ⟨_, rfl, by simp [List.find?], by simp [List.find?]⟩

abbrev ivRx : Rx := Gen.aliquot_intervener_remover_regex

/-- the whole pattern at the beginning of a run of components that is followed by a joiner and one more component -/
theorem iv_hit (run : List Comp) (hne : run ≠ []) (j : Jn) (c' : Comp) (rest : Str) (prev : Option Char) (pos : Nat) :
    ∃ caps, matchHere ivRx ⟨prev, chainText run ++ (j.text ++ (compText c' ++ rest)), pos, []⟩ false =
        some ⟨pos, pos + (chainText run).length + j.text.length + (compText c').length, caps⟩ ∧
      caps.find? (fun c => c.1 == 10) = some (10, pos + (chainText run).length + j.text.length,
        pos + (chainText run).length + j.text.length + (compText c').length) ∧
      caps.find? (fun c => c.1 == 1) = some (1, pos, pos + (chainText run).length) := by
  let Kfin : St → Option Match := fun s'' => some ⟨pos, s''.pos, s''.caps⟩
  let K : St → Option Match := fun s' => ivTail.m { s' with caps := (1, pos, s'.pos) :: s'.caps } Kfin
  have hm : ∀ s : St, s.pos = pos → matchHere ivRx s false =
      repLoop ivBody.m 1 none (s.rest.length + 1 + 2) 0 none s K := by
    intro s hs
    unfold matchHere
    rw [ivRx, iv_shape, m_seq, m_grp, m_rep, hs]
    rfl
  rw [hm _ rfl]
  have hK : ∀ p q caps, ∃ caps', K ⟨p, j.text ++ (compText c' ++ rest), q, caps⟩ =
      some ⟨pos, q + j.text.length + (compText c').length, caps'⟩ ∧
      caps'.find? (fun c => c.1 == 10) = some (10, q + j.text.length, q + j.text.length + (compText c').length) ∧
      caps'.find? (fun c => c.1 == 1) = some (1, pos, q) := by
    intro p q caps
    obtain ⟨caps', h1, h2, h3⟩ := iv_tail_hit j c' rest p q ((1, pos, q) :: caps) Kfin (fun _ _ _ => rfl)
    exact ⟨caps', h1, h2, by rw [h3]; simp [List.find?]⟩
  obtain ⟨caps1, h1⟩ := iv_loop_run K (j.text ++ (compText c' ++ rest)) (fun p q caps k => iv_body_jn j p _ q caps k)
    (fun p q caps => by obtain ⟨c2, h, _⟩ := hK p q caps; rw [h]; rfl) run
    ((chainText run ++ (j.text ++ (compText c' ++ rest))).length + 1 + 2) 0 none prev pos []
    (by have := chainText_length_ge run; simp only [List.length_append]; omega) (fun h => absurd h hne) (by simp)
  rw [h1]
  obtain ⟨caps', h, h10, h1'⟩ := hK (lastOr prev (chainText run)) (pos + (chainText run).length) caps1
  exact ⟨caps', h, h10, h1'⟩


/-! ### one pass of `remove_aliquot_interveners` over a joined canonical text -/

/-- a component with the joiner (if any) in front of it -/
abbrev JItem := Option Jn × Comp

def JItem.text (x : JItem) : Str := (match x.1 with | some j => j.text | none => []) ++ compText x.2

def itemsText (L : List JItem) : Str := textOf JItem.text L

/-- what one pass does: `live` = a match attempt is under way (we are in the greedy run of `aliquot1`); the next joiner met
    is removed, the component after it is `aliquot2`, and the search resumes after it -/
def passAux : Bool → List JItem → List JItem
  | _, [] => []
  | false, x :: L => x :: passAux true L
  | true, (none, c) :: L => (none, c) :: passAux true L
  | true, (some _, c) :: L => (none, c) :: passAux false L

def joinersOf (L : List JItem) : Nat := (L.filter (fun x => x.1.isSome)).length

theorem passAux_comps : ∀ (b : Bool) (L : List JItem), (passAux b L).map Prod.snd = L.map Prod.snd
  | _, [] => by cases ‹Bool› <;> rfl
  | false, x :: L => by simp [passAux, passAux_comps true L]
  | true, (none, c) :: L => by simp [passAux, passAux_comps true L]
  | true, (some _, c) :: L => by simp [passAux, passAux_comps false L]

theorem itemsText_none (L : List JItem) (h : ∀ x ∈ L, x.1 = none) : itemsText L = chainText (L.map Prod.snd) := by
  induction L with
  | nil => rfl
  | cons x L ih =>
    obtain ⟨o, c⟩ := x
    have : o = none := h (o, c) (by simp)
    subst this
    rw [itemsText, textOf_cons, List.map_cons, C02_chainText_cons, ← itemsText, ih (fun y hy => h y (by simp [hy]))]
    rfl

theorem passAux_none (b : Bool) (L : List JItem) (h : ∀ x ∈ L, x.1 = none) : passAux b L = L := by
  induction L generalizing b with
  | nil => cases b <;> rfl
  | cons x L ih =>
    obtain ⟨o, c⟩ := x
    have : o = none := h (o, c) (by simp)
    subst this
    cases b <;> simp [passAux, ih _ (fun y hy => h y (by simp [hy]))]

theorem passAux_run (R : List JItem) (h : ∀ x ∈ R, x.1 = none) (j : Jn) (c : Comp) (L : List JItem) :
    passAux true (R ++ (some j, c) :: L) = R ++ (none, c) :: passAux false L := by
  induction R with
  | nil => rfl
  | cons x R ih =>
    obtain ⟨o, c0⟩ := x
    have : o = none := h (o, c0) (by simp)
    subst this
    simp [passAux, ih (fun y hy => h y (by simp [hy]))]

theorem items_split (L : List JItem) :
    (∀ x ∈ L, x.1 = none) ∨ ∃ R j c L', L = R ++ (some j, c) :: L' ∧ ∀ x ∈ R, x.1 = none := by
  induction L with
  | nil => left; simp
  | cons x L ih =>
    obtain ⟨o, c0⟩ := x
    cases o with
    | some j => right; exact ⟨[], j, c0, L, rfl, by simp⟩
    | none =>
      rcases ih with h | ⟨R, j, c, L', rfl, hR⟩
      · left; intro y hy; simp at hy; rcases hy with rfl | hy; rfl; exact h y hy
      · right
        refine ⟨(none, c0) :: R, j, c, L', rfl, ?_⟩
        intro y hy; simp at hy; rcases hy with rfl | hy; rfl; exact hR y hy

theorem scan_hit (r : Rx) (prev : Option Char) (rest : Str) (pos : Nat) (adv : Bool) (m : Match)
    (h : matchHere r ⟨prev, rest, pos, []⟩ adv = some m) : scan r prev rest pos adv = some m := by
  unfold scan
  rw [h]

/-- the replacement of `remove_aliquot_interveners`: `\g<aliquot1>\g<aliquot2>` -/
def ivF (t : Str) (m : Match) : Str :=
  (intervenerRemover.group m t "aliquot1").getD [] ++ (intervenerRemover.group m t "aliquot2").getD []

theorem intervenerStep_eq (t : Str) : intervenerStep t = ivRx.subWith t (ivF t) := rfl

theorem ivF_eval (t : Str) (m : Match) (a b c d : Nat) (h1 : m.caps.find? (fun c => c.1 == 1) = some (1, a, b))
    (h10 : m.caps.find? (fun c => c.1 == 10) = some (10, c, d)) : ivF t m = slice t a b ++ slice t c d := by
  simp [ivF, Pat.group, intervenerRemover, Pat.idx?, Match.group?, Match.span?, h1, h10,
    Gen.aliquot_intervener_remover_regex_groups]

theorem slice_mid' (pre a post : Str) : slice (pre ++ (a ++ post)) pre.length (pre.length + a.length) = a := by
  unfold slice
  rw [← List.append_assoc, ← List.length_append, List.take_left' rfl]
  simp

theorem itemsText_append (A B : List JItem) : itemsText (A ++ B) = itemsText A ++ itemsText B := by
  simp [itemsText, textOf]

theorem itemsText_cons (x : JItem) (L : List JItem) : itemsText (x :: L) = x.text ++ itemsText L := textOf_cons _ _ _

def GoItem (L : List JItem) : Prop :=
  ∀ (fuel : Nat) (prev : Option Char) (pre : Str) (i : Nat) (acc : Str), i ≤ pre.length → L.length < fuel →
    Rx.subWith.go (pre ++ itemsText L) (ivF (pre ++ itemsText L))
        (finditerAux ivRx fuel prev (itemsText L) pre.length false) i acc =
      acc ++ slice (pre ++ itemsText L) i pre.length ++ itemsText (passAux false L)

def GoComp (c : Comp) (L : List JItem) : Prop :=
  ∀ (fuel : Nat) (prev : Option Char) (pre : Str) (i : Nat) (acc : Str), i ≤ pre.length → L.length + 1 < fuel →
    Rx.subWith.go (pre ++ (compText c ++ itemsText L)) (ivF (pre ++ (compText c ++ itemsText L)))
        (finditerAux ivRx fuel prev (compText c ++ itemsText L) pre.length false) i acc =
      acc ++ slice (pre ++ (compText c ++ itemsText L)) i pre.length ++ (compText c ++ itemsText (passAux true L))

theorem goComp_of (c : Comp) (L : List JItem) (ih : ∀ L' : List JItem, L'.length ≤ L.length → GoItem L') : GoComp c L := by
  intro fuel prev pre i acc hi hf
  rcases items_split L with hnone | ⟨R, j, c', L', rfl, hR⟩
  · -- the run reaches the end of the text: no match at `c`
    have hm : matchHere ivRx ⟨prev, compText c ++ itemsText L, pre.length, []⟩ false = none := by
      rw [itemsText_none L hnone, ← C02_chainText_cons, ← toksText_comps]
      exact iv_matchHere_none _ _ _ _
    have hsc := scan_tokG JT.text ivRx iv_innerJ JT.text_ne_nil (.cp c) (itemsText L) prev pre.length false
    rw [show JT.text (.cp c) = compText c from rfl, hm] at hsc
    simp only [] at hsc
    rw [finditerAux_skip ivRx (compText c) (itemsText L) prev pre.length false fuel hsc]
    have hlen : pre.length + (compText c).length = (pre ++ compText c).length := by simp
    have htxt : pre ++ (compText c ++ itemsText L) = (pre ++ compText c) ++ itemsText L := by simp
    rw [hlen, htxt, ih L (Nat.le_refl _) fuel _ (pre ++ compText c) i acc (by rw [← hlen]; omega) (by omega)]
    rw [← htxt, ← hlen, slice_extend pre (compText c) (itemsText L) i hi, passAux_none _ L hnone, passAux_none _ L hnone]
    simp
  · -- a joiner follows the run: the match covers the run, the joiner and one more component
    obtain ⟨n, rfl⟩ : ∃ n, fuel = n + 1 := ⟨fuel - 1, by omega⟩
    have htext : compText c ++ itemsText (R ++ (some j, c') :: L') =
        chainText (c :: R.map Prod.snd) ++ (j.text ++ (compText c' ++ itemsText L')) := by
      rw [itemsText_append, itemsText_cons, itemsText_none R hR, C02_chainText_cons]
      simp [JItem.text]
    obtain ⟨caps, hm, h10, h1⟩ := iv_hit (c :: R.map Prod.snd) (by simp) j c' (itemsText L') prev pre.length
    rw [passAux_run R hR, htext]
    generalize hrun : chainText (c :: R.map Prod.snd) = run at hm h10 h1
    rw [finditerAux, scan_hit _ _ _ _ _ _ hm]
    simp only []
    have e : pre.length + run.length + j.text.length + (compText c').length - pre.length =
        (run ++ (j.text ++ compText c')).length + 0 := by simp only [List.length_append]; omega
    have e2 : run ++ (j.text ++ (compText c' ++ itemsText L')) = (run ++ (j.text ++ compText c')) ++ itemsText L' := by
      simp
    rw [e, e2, advance_append]
    simp only [advance]
    rw [Rx.subWith.go]
    simp only []
    have hne : (pre.length + run.length + j.text.length + (compText c').length == pre.length) = false := by
      have : 0 < (compText c').length := by cases c' <;> simp [compText, Comp.str, Comp.isHalf]
      simp only [beq_eq_false_iff_ne, ne_eq]; omega
    rw [hne, ivF_eval _ _ _ _ _ _ h1 h10]
    have hlen : pre.length + run.length + j.text.length + (compText c').length =
        (pre ++ (run ++ (j.text ++ compText c'))).length := by simp only [List.length_append]; omega
    have htxt : pre ++ ((run ++ (j.text ++ compText c')) ++ itemsText L') =
        (pre ++ (run ++ (j.text ++ compText c'))) ++ itemsText L' := by simp
    have hs1 : slice (pre ++ ((run ++ (j.text ++ compText c')) ++ itemsText L')) pre.length (pre.length + run.length) = run := by
      have := slice_mid' pre run (j.text ++ (compText c' ++ itemsText L'))
      simpa using this
    have hs2 : slice (pre ++ ((run ++ (j.text ++ compText c')) ++ itemsText L')) (pre.length + run.length + j.text.length)
        (pre.length + run.length + j.text.length + (compText c').length) = compText c' := by
      have := slice_mid' (pre ++ (run ++ j.text)) (compText c') (itemsText L')
      simpa [Nat.add_assoc] using this
    rw [hs1, hs2, hlen, htxt, ih L' (by simp; omega) n _ (pre ++ (run ++ (j.text ++ compText c'))) _ _ (Nat.le_refl _)
      (by simp at hf; omega)]
    rw [slice_all, ← hrun, itemsText_append, itemsText_cons, itemsText_none R hR, C02_chainText_cons]
    simp [JItem.text]

theorem goItem_all : ∀ (n : Nat) (L : List JItem), L.length ≤ n → GoItem L := by
  intro n
  induction n with
  | zero =>
    intro L hL
    have : L = [] := List.length_eq_zero_iff.mp (by omega)
    subst this
    intro fuel prev pre i acc hi hf
    obtain ⟨n, rfl⟩ : ∃ n, fuel = n + 1 := ⟨fuel - 1, by simp at hf; omega⟩
    have : scan ivRx prev (itemsText []) pre.length false = none := by
      show scan ivRx prev [] pre.length false = none
      rw [scan_nil]; exact iv_nil _ _ _
    rw [finditerAux_none _ _ _ _ _ _ this]
    show acc ++ (pre ++ []).drop i = acc ++ slice (pre ++ []) i pre.length ++ []
    rw [slice_all]; simp
  | succ n ih =>
    intro L hL
    cases L with
    | nil => exact ih [] (by simp)
    | cons x L =>
      obtain ⟨o, c⟩ := x
      have hc : GoComp c L := goComp_of c L (fun L' h' => ih L' (by simp at hL; omega))
      intro fuel prev pre i acc hi hf
      cases o with
      | none =>
        have := hc fuel prev pre i acc hi (by simpa using hf)
        simpa [itemsText_cons, JItem.text, passAux] using this
      | some j =>
        have hsc := scan_tokG JT.text ivRx iv_innerJ JT.text_ne_nil (.jn j) (compText c ++ itemsText L) prev pre.length false
        rw [show JT.text (.jn j) = j.text from rfl, iv_start_jn] at hsc
        simp only [] at hsc
        have e : itemsText ((some j, c) :: L) = j.text ++ (compText c ++ itemsText L) := by
          simp [itemsText_cons, JItem.text]
        rw [e, finditerAux_skip ivRx j.text (compText c ++ itemsText L) prev pre.length false fuel hsc]
        have hlen : pre.length + j.text.length = (pre ++ j.text).length := by simp
        have htxt : pre ++ (j.text ++ (compText c ++ itemsText L)) = (pre ++ j.text) ++ (compText c ++ itemsText L) := by simp
        rw [hlen, htxt, hc fuel _ (pre ++ j.text) i acc (by rw [← hlen]; omega) (by simpa using hf)]
        rw [← htxt, ← hlen, slice_extend pre j.text (compText c ++ itemsText L) i hi]
        simp [passAux, itemsText_cons, JItem.text]

/-- **one pass** of `remove_aliquot_interveners` over a joined canonical text -/
theorem intervenerStep_items (L : List JItem) : intervenerStep (itemsText L) = itemsText (passAux false L) := by
  rw [intervenerStep_eq]
  show Rx.subWith.go (itemsText L) _ (ivRx.finditer (itemsText L)) 0 [] = _
  rw [finditer_default]
  have hl : L.length ≤ (itemsText L).length := textOf_length JItem.text (by
    intro x; obtain ⟨o, c⟩ := x; cases c <;> cases o <;> simp [JItem.text, compText, Comp.str, Comp.isHalf]) L
  have := goItem_all L.length L (Nat.le_refl _) (2 * (itemsText L).length + 2) none [] 0 [] (Nat.le_refl _) (by omega)
  simpa [slice] using this


/-! ### the until-stable loop -/

theorem joinersOf_cons (x : JItem) (L : List JItem) :
    joinersOf (x :: L) = (if x.1.isSome then 1 else 0) + joinersOf L := by
  simp only [joinersOf, List.filter_cons]
  split <;> simp <;> omega

theorem joinersOf_zero (L : List JItem) (h : joinersOf L = 0) : ∀ x ∈ L, x.1 = none := by
  induction L with
  | nil => simp
  | cons x L ih =>
    rw [joinersOf_cons] at h
    intro y hy
    simp at hy
    rcases hy with rfl | hy
    · cases hx : y.1 with
      | none => rfl
      | some j => simp [hx] at h
    · exact ih (by omega) y hy

theorem passAux_le : ∀ (b : Bool) (L : List JItem), joinersOf (passAux b L) ≤ joinersOf L
  | _, [] => by cases ‹Bool› <;> simp [passAux]
  | false, x :: L => by
    have := passAux_le true L
    simp only [passAux, joinersOf_cons]; omega
  | true, (none, c) :: L => by
    have := passAux_le true L
    simp only [passAux, joinersOf_cons]; omega
  | true, (some _, c) :: L => by
    have := passAux_le false L
    simp only [passAux, joinersOf_cons]; simp; omega

theorem passAux_lt : ∀ (L : List JItem), 0 < joinersOf L → joinersOf (passAux true L) < joinersOf L
  | [], h => by simp [joinersOf] at h
  | (none, c) :: L, h => by
    rw [joinersOf_cons] at h
    have := passAux_lt L (by simpa using h)
    simp only [passAux, joinersOf_cons]; omega
  | (some _, c) :: L, h => by
    have := passAux_le false L
    simp only [passAux, joinersOf_cons]; simp; omega

theorem itemsText_len_le : ∀ (b : Bool) (L : List JItem), (itemsText (passAux b L)).length ≤ (itemsText L).length
  | _, [] => by cases ‹Bool› <;> simp [passAux]
  | false, x :: L => by
    have := itemsText_len_le true L
    simp only [passAux, itemsText_cons, List.length_append]; omega
  | true, (none, c) :: L => by
    have := itemsText_len_le true L
    simp only [passAux, itemsText_cons, List.length_append]; omega
  | true, (some j, c) :: L => by
    have := itemsText_len_le false L
    simp only [passAux, itemsText_cons, List.length_append, JItem.text]; simp; omega

theorem itemsText_len_lt : ∀ (L : List JItem), 0 < joinersOf L → (itemsText (passAux true L)).length < (itemsText L).length
  | [], h => by simp [joinersOf] at h
  | (none, c) :: L, h => by
    rw [joinersOf_cons] at h
    have := itemsText_len_lt L (by simpa using h)
    simp only [passAux, itemsText_cons, List.length_append]; omega
  | (some j, c) :: L, h => by
    have := itemsText_len_le false L
    have hj : 0 < j.text.length := by cases j <;> simp [Jn.text]
    simp only [passAux, itemsText_cons, List.length_append, JItem.text]; simp; omega

theorem joinersOf_le_len (L : List JItem) : joinersOf L ≤ (itemsText L).length := by
  induction L with
  | nil => simp [joinersOf]
  | cons x L ih =>
    obtain ⟨o, c⟩ := x
    rw [joinersOf_cons, itemsText_cons, List.length_append]
    have : 0 < (compText c).length := by cases c <;> simp [compText, Comp.str, Comp.isHalf]
    have : (compText c).length ≤ (JItem.text (o, c)).length := by simp [JItem.text]
    split <;> omega

/-- the until-stable loop of `remove_aliquot_interveners` on a joined canonical text that begins with a component -/
theorem iv_stable : ∀ (n : Nat) (L : List JItem), joinersOf L ≤ n → ∀ (c : Comp) (fuel : Nat), n < fuel →
    untilStable intervenerStep fuel (itemsText ((none, c) :: L)) = some (chainText (c :: L.map Prod.snd)) := by
  intro n
  induction n with
  | zero =>
    intro L hL c fuel hf
    obtain ⟨f, rfl⟩ : ∃ f, fuel = f + 1 := ⟨fuel - 1, by omega⟩
    have hnone : ∀ x ∈ ((none, c) :: L : List JItem), x.1 = none := by
      intro x hx; simp at hx; rcases hx with rfl | hx; rfl; exact joinersOf_zero L (by omega) x hx
    have hfix : intervenerStep (itemsText ((none, c) :: L)) = itemsText ((none, c) :: L) := by
      rw [intervenerStep_items, passAux_none _ _ hnone]
    rw [untilStable_of_fixed _ _ _ hfix, itemsText_none _ hnone]
    rfl
  | succ n ih =>
    intro L hL c fuel hf
    by_cases h0 : joinersOf L = 0
    · obtain ⟨f, rfl⟩ : ∃ f, fuel = f + 1 := ⟨fuel - 1, by omega⟩
      have hnone : ∀ x ∈ ((none, c) :: L : List JItem), x.1 = none := by
        intro x hx; simp at hx; rcases hx with rfl | hx; rfl; exact joinersOf_zero L h0 x hx
      have hfix : intervenerStep (itemsText ((none, c) :: L)) = itemsText ((none, c) :: L) := by
        rw [intervenerStep_items, passAux_none _ _ hnone]
      rw [untilStable_of_fixed _ _ _ hfix, itemsText_none _ hnone]
      rfl
    · obtain ⟨f, rfl⟩ : ∃ f, fuel = f + 1 := ⟨fuel - 1, by omega⟩
      have hpos : 0 < joinersOf L := by omega
      have hstep : intervenerStep (itemsText ((none, c) :: L)) = itemsText ((none, c) :: passAux true L) := by
        rw [intervenerStep_items]; rfl
      have hne : (intervenerStep (itemsText ((none, c) :: L)) == itemsText ((none, c) :: L)) = false := by
        rw [hstep, beq_eq_false_iff_ne]
        intro h
        have h' := congrArg List.length h
        have := itemsText_len_lt L hpos
        simp only [itemsText_cons, List.length_append] at h'
        omega
      rw [untilStable]
      simp only [hne]
      rw [hstep]
      have := ih (passAux true L) (by have := passAux_lt L hpos; omega) c f (by omega)
      rw [this, passAux_comps]
      simp

/-! ### the whole of `scrub_aliquots` on a joined canonical text -/

def JItem.toks (x : JItem) : List JT := (match x.1 with | some j => [JT.jn j] | none => []) ++ [JT.cp x.2]
def itemsJT (L : List JItem) : List JT := L.flatMap JItem.toks

def JItem.wtoks (x : JItem) : List WTok := (match x.1 with | some j => [WTok.jn j] | none => []) ++ [WTok.sp .sym x.2]
def itemsW (L : List JItem) : List WTok := L.flatMap JItem.wtoks

theorem jtext_items (L : List JItem) : jtext (itemsJT L) = itemsText L := by
  induction L with
  | nil => rfl
  | cons x L ih =>
    obtain ⟨o, c⟩ := x
    rw [itemsText_cons, ← ih]
    cases o <;> simp [itemsJT, JItem.toks, jtext, textOf, JItem.text, JT.text]

theorem wtext_items (L : List JItem) : wtext (itemsW L) = itemsText L := by
  induction L with
  | nil => rfl
  | cons x L ih =>
    obtain ⟨o, c⟩ := x
    rw [itemsText_cons, ← ih]
    cases o <;> simp [itemsW, JItem.wtoks, wtext, textOf, JItem.text, WTok.text, Sl.sym_text]

theorem JV_items (L : List JItem) : JV (itemsJT L) := by
  induction L with
  | nil => trivial
  | cons x L ih =>
    obtain ⟨o, c⟩ := x
    cases o with
    | none => exact ih
    | some j => exact ⟨⟨c, itemsJT L, rfl⟩, ih⟩

theorem Adj_of_noWord : ∀ (l : List WTok), (∀ t ∈ l, t.endsWord = false) → Adj l
  | [], _ => trivial
  | [_], _ => trivial
  | a :: b :: l, h => by
    refine ⟨?_, Adj_of_noWord (b :: l) (fun t ht => h t (by simp [ht]))⟩
    intro hw
    rw [h a (by simp)] at hw
    cases hw

theorem itemsW_noWord (L : List JItem) : ∀ t ∈ itemsW L, t.endsWord = false := by
  intro t ht
  simp only [itemsW, List.mem_flatMap] at ht
  obtain ⟨x, _, hx⟩ := ht
  obtain ⟨o, c⟩ := x
  cases o <;> simp [JItem.wtoks] at hx
  · subst hx; rfl
  · rcases hx with rfl | rfl <;> rfl

theorem itemsW_canon (L : List JItem) : (itemsW L).map WTok.canon = itemsW L := by
  induction L with
  | nil => rfl
  | cons x L ih =>
    obtain ⟨o, c⟩ := x
    have e : itemsW ((o, c) :: L) = JItem.wtoks (o, c) ++ itemsW L := by simp [itemsW]
    rw [e, List.map_append, ih]
    cases o <;> simp [JItem.wtoks, WTok.canon]

theorem scrubStep_cleanJ (name : String) (hn : name ∈ Gen.QQ_CLEAN_REGEXES) (toks : List JT) :
    scrubStep name (jtext toks) = jtext toks := by
  simp only [Gen.QQ_CLEAN_REGEXES, List.mem_cons, List.not_mem_nil, or_false] at hn
  rcases hn with rfl | rfl | rfl | rfl
  · exact nec_passJ toks
  · exact nwc_passJ toks
  · exact sec_passJ toks
  · exact swc_passJ toks

/-- **C07 (joiners collapse, every length)**: canonical components ("N½", "NE¼"), each but the first optionally preceded by
    a joiner " ", " of " or " of the ", are normalised by `scrub_aliquots` to the canonical chain text — chains of every
    length, every placement of joiners, with and without `clean_qq` -/
theorem C07_canonical_joined_collapses_items (c : Comp) (L : List JItem) (cleanQQ : Bool) :
    Tract.scrubAliquots (itemsText ((none, c) :: L)) cleanQQ = some (chainText (c :: L.map Prod.snd)) := by
  generalize hL : ((none, c) :: L : List JItem) = L1
  have h1 : scrubAll Gen.QQ_SCRUBBER_REGEXES (itemsText L1) = some (itemsText L1) := by
    have := scrubAll_spellingW (itemsW L1) (Adj_of_noWord _ (itemsW_noWord L1))
    rwa [itemsW_canon, wtext_items] at this
  have h2 : scrubAll Gen.QQ_CLEAN_REGEXES (itemsText L1) = some (itemsText L1) :=
    scrubAll_fixed _ _ (fun n hn => by rw [← jtext_items]; exact scrubStep_cleanJ n hn _)
  have h3 : halfPlusQScrubber (itemsText L1) = some (itemsText L1) :=
    (halfPlusQScrubber_self_iff _).mpr (by rw [← jtext_items]; exact hpq_passJ _ (JV_items L1))
  have h4 : removeAliquotInterveners (itemsText L1) = some (chainText (c :: L.map Prod.snd)) := by
    subst hL
    rw [removeAliquotInterveners_eq]
    exact iv_stable (joinersOf L) L (Nat.le_refl _) c _ (by
      have := joinersOf_le_len L
      simp only [stableBudget, itemsText_cons, List.length_append]; omega)
  unfold scrubAliquots
  cases cleanQQ <;> simp [h1, h2, h3, h4]

example : itemsText [(none, .N), (some .of_, .NE), (some .ofThe, .SW), (none, .E), (some .blank, .W)] = "N½ of NE¼ of the SW¼E½ W½".toList := by decide
example : Tract.scrubAliquots "N½ of NE¼ of the SW¼E½ W½".toList true = some "N½NE¼SW¼E½W½".toList :=
  C07_canonical_joined_collapses_items .N [(some .of_, .NE), (some .ofThe, .SW), (none, .E), (some .blank, .W)] true

/-- canonical components interleaved with joiners: "c₀ j₀ c₁ j₁ c₂ …" -/
def joinedText : List Comp → List Jn → Str
  | [], _ => []
  | c :: cs, js => itemsText ((none, c) :: List.zipWith (fun j c => (some j, c)) js cs)

theorem zipWith_snd : ∀ (js : List Jn) (cs : List Comp), cs.length ≤ js.length →
    (List.zipWith (fun j c => ((some j, c) : JItem)) js cs).map Prod.snd = cs
  | _, [], _ => by simp
  | [], c :: cs, h => by simp at h
  | j :: js, c :: cs, h => by
    simp only [List.zipWith_cons_cons, List.map_cons, zipWith_snd js cs (by simpa using h)]

/-- **C07 (joiners collapse, every length)** in the interleaved form: a chain of canonical components with a joiner
    (" ", " of " or " of the ") between every two neighbours is normalised to the canonical chain text -/
theorem C07_canonical_joined_collapses (chain : List Comp) (js : List Jn) (hlen : js.length + 1 = chain.length)
    (cleanQQ : Bool) : Tract.scrubAliquots (joinedText chain js) cleanQQ = some (chainText chain) := by
  cases chain with
  | nil => simp at hlen
  | cons c cs =>
    rw [joinedText, C07_canonical_joined_collapses_items, zipWith_snd js cs (by simp at hlen; omega)]

/-! ### every spelling × every joiner, chains of every length: the open statement of `SpellText` -/

theorem joinedToks_cons (x : Option Jn × Sl × Comp) (l : List (Option Jn × Sl × Comp)) :
    joinedToks (x :: l) = (match x.1 with | some j => [WTok.jn j] | none => []) ++ [WTok.sp x.2.1 x.2.2] ++ joinedToks l := by
  obtain ⟨o, s, c⟩ := x
  cases o <;> simp [joinedToks]

theorem joinedToks_canon (l : List (Option Jn × Sl × Comp)) :
    (joinedToks l).map WTok.canon = itemsW (l.map (fun x => (x.1, x.2.2))) := by
  induction l with
  | nil => rfl
  | cons x l ih =>
    obtain ⟨o, s, c⟩ := x
    have e : itemsW (((o, s, c) :: l).map (fun x => ((x.1, x.2.2) : JItem))) =
        JItem.wtoks (o, c) ++ itemsW (l.map (fun x => (x.1, x.2.2))) := by simp [itemsW]
    rw [joinedToks_cons, List.map_append, ih, e]
    cases o <;> simp [JItem.wtoks, WTok.canon]

/-- **C07 (every spelling, every joiner, every length)**: the statement left open in `Lemmas/SpellText.lean` -/
theorem C07_joined_spelling_normalised_proved : C07_joined_spelling_normalised := by
  intro s c l cleanQQ hv
  rw [C07_word_spelling_reduced _ hv]
  have e : (WTok.sp s c :: joinedToks l).map WTok.canon = itemsW ((none, c) :: l.map (fun x => (x.1, x.2.2))) := by
    rw [List.map_cons, joinedToks_canon]
    simp [itemsW, JItem.wtoks, WTok.canon]
  rw [e, wtext_items, C07_canonical_joined_collapses_items]
  simp [List.map_map, Function.comp_def]

/-- **C07 (parse)**: a chain written with any spellings and joiners parses exactly like its canonical text -/
theorem C07_joined_spelling_parse_eq (s : Sl) (c : Comp) (l : List (Option Jn × Sl × Comp))
    (hv : Adj (.sp s c :: joinedToks l)) (a : ParseArgs) (inh : Flags) :
    tractParse (wtext (.sp s c :: joinedToks l)) a inh = tractParse (chainText (c :: l.map (fun x => x.2.2))) a inh :=
  C07_canonical_chain_parse_eq _ _ a inh (C07_joined_spelling_normalised_proved s c l a.cleanQQ hv)

/-- … and the raw parse is the single aliquot block of the chain (no lots, the QQs of `parse_aliquot`) -/
theorem C07_joined_spelling_parse (s : Sl) (c : Comp) (l : List (Option Jn × Sl × Comp))
    (hv : Adj (.sp s c :: joinedToks l)) (a : ParseArgs) (inh : Flags) :
    tractParseRaw (wtext (.sp s c :: joinedToks l)) a inh = .ok
      { text := chainText (c :: l.map (fun x => x.2.2)), lots := [],
        qqs := (qqsOf a.depth [chainText (c :: l.map (fun x => x.2.2))]).1, lotAcres := [],
        aliquotsWhole := [removeFractions (chainText (c :: l.map (fun x => x.2.2)))],
        flags := dupFlags inh [] (qqsOf a.depth [chainText (c :: l.map (fun x => x.2.2))]).1,
        diverged := (qqsOf a.depth [chainText (c :: l.map (fun x => x.2.2))]).2 } := by
  rw [← C07_canonical_chain_parseRaw_eq _ _ a inh (C07_joined_spelling_normalised_proved s c l a.cleanQQ hv)]
  exact C07_canonical_chain_parse _ (by simp) a inh


example : wtext (.sp .wordOne .W :: joinedToks [(some .blank, .digit, .N), (none, .sym, .S), (some .of_, .word, .NE), (some .ofThe, .sfrac, .SE), (none, .slash, .W)]) =
    "West One Half N2S½ of Northeast Quarter of the SE 1/4W/2".toList := by decide
example : Tract.scrubAliquots "West One Half N2S½ of Northeast Quarter of the SE 1/4W/2".toList false = some "W½N½S½NE¼SE¼W½".toList :=
  C07_joined_spelling_normalised_proved .wordOne .W [(some .blank, .digit, .N), (none, .sym, .S), (some .of_, .word, .NE), (some .ofThe, .sfrac, .SE), (none, .slash, .W)] false
    (by simp [joinedToks, Adj, WTok.endsWord, WTok.isJn, Sl.endsWord])
example : joinedText [.N, .NE, .SW, .E] [.of_, .ofThe, .blank] = "N½ of NE¼ of the SW¼ E½".toList := by decide
example : Tract.scrubAliquots "N½ of NE¼ of the SW¼ E½".toList true = some "N½NE¼SW¼E½".toList :=
  C07_canonical_joined_collapses [.N, .NE, .SW, .E] [.of_, .ofThe, .blank] rfl true
example : itemsText [(none, .N), (some .of_, .NE), (some .ofThe, .SW), (none, .E), (some .blank, .W)] = "N½ of NE¼ of the SW¼E½ W½".toList := by decide
example : Tract.scrubAliquots "N½ of NE¼ of the SW¼E½ W½".toList true = some "N½NE¼SW¼E½W½".toList :=
  C07_canonical_joined_collapses_items .N [(some .of_, .NE), (some .ofThe, .SW), (none, .E), (some .blank, .W)] true
/-- one pass removes the first joiner after each run it starts from: "A j B j C j D" ↦ "AB j CD" -/
example : intervenerStep "N½ of NE¼ of the SW¼ E½".toList = "N½NE¼ of the SW¼E½".toList := by
  have := intervenerStep_items [(none, .N), (some .of_, .NE), (some .ofThe, .SW), (some .blank, .E)]
  simpa [itemsText, textOf, JItem.text, passAux, Jn.text, compText, Comp.str, Comp.isHalf] using this


/-! ### lower / mixed case: the patterns are compiled with IGNORECASE -/

def casePairs : List (Char × Char) :=
  [('a','A'),('b','B'),('c','C'),('d','D'),('e','E'),('f','F'),('g','G'),('h','H'),('i','I'),('j','J'),('k','K'),('l','L'),('m','M'),
   ('n','N'),('o','O'),('p','P'),('q','Q'),('r','R'),('s','S'),('t','T'),('u','U'),('v','V'),('w','W'),('x','X'),('y','Y'),('z','Z'),
   ('s','ſ'),('S','ſ')]

/-- the same character up to the case of an ASCII letter (and the long s 'ſ', which Python's IGNORECASE identifies with 's') -/
def caseEq (c c' : Char) : Bool :=
  c == c' || casePairs.any (fun p => (c == p.1 || c == p.2) && (c' == p.1 || c' == p.2))

def caseEqOpt : Option Char → Option Char → Bool
  | none, none => true
  | some c, some c' => caseEq c c'
  | _, _ => false

/-- the same text up to the case of ASCII letters -/
def caseEqText : Str → Str → Bool
  | [], [] => true
  | c :: t, c' :: t' => caseEq c c' && caseEqText t t'
  | _, _ => false

/-- the pattern does not distinguish the two cases of any ASCII letter (it was compiled with IGNORECASE) -/
def Rx.caseBlind (r : Rx) : Bool := casePairs.all (fun p => r.sigEq p.1 p.2 && r.sigEq p.2 p.1)

theorem caseEq_refl (c : Char) : caseEq c c = true := by simp [caseEq]

theorem caseEqText_refl : ∀ (t : Str), caseEqText t t = true
  | [] => rfl
  | c :: t => by simp [caseEqText, caseEq_refl, caseEqText_refl t]

theorem caseEqOpt_refl (p : Option Char) : caseEqOpt p p = true := by
  cases p <;> simp [caseEqOpt, caseEq_refl]

theorem caseEqText_append : ∀ (a a' b b' : Str), caseEqText a a' = true → caseEqText b b' = true →
    caseEqText (a ++ b) (a' ++ b') = true
  | [], [], _, _, _, hb => hb
  | c :: a, c' :: a', b, b', ha, hb => by
    simp only [caseEqText, Bool.and_eq_true] at ha
    simp only [List.cons_append, caseEqText, Bool.and_eq_true]
    exact ⟨ha.1, caseEqText_append a a' b b' ha.2 hb⟩
  | [], _ :: _, _, _, ha, _ => by simp [caseEqText] at ha
  | _ :: _, [], _, _, ha, _ => by simp [caseEqText] at ha

theorem caseEqText_length : ∀ (a a' : Str), caseEqText a a' = true → a.length = a'.length
  | [], [], _ => rfl
  | c :: a, c' :: a', h => by
    simp only [caseEqText, Bool.and_eq_true] at h
    simp [caseEqText_length a a' h.2]
  | [], _ :: _, h => by simp [caseEqText] at h
  | _ :: _, [], h => by simp [caseEqText] at h

theorem caseEq_lastOr : ∀ (a a' : Str) (p p' : Option Char), caseEqText a a' = true → caseEqOpt p p' = true →
    caseEqOpt (lastOr p a) (lastOr p' a') = true
  | [], [], _, _, _, hp => hp
  | c :: a, c' :: a', p, p', h, _ => by
    simp only [caseEqText, Bool.and_eq_true] at h
    exact caseEq_lastOr a a' (some c) (some c') h.2 h.1
  | [], _ :: _, _, _, h, _ => by simp [caseEqText] at h
  | _ :: _, [], _, _, h, _ => by simp [caseEqText] at h

theorem Rx.caseBlind_rel (r : Rx) (hb : r.caseBlind = true) {c c' : Char} (h : caseEq c c' = true) :
    CharRel r.atoms r.usesEos c c' := by
  apply Rx.sigEq_charRel
  simp only [caseEq, Bool.or_eq_true, beq_iff_eq, List.any_eq_true, Bool.and_eq_true] at h
  rcases h with rfl | ⟨p, hp, h1, h2⟩
  · exact r.sigEq_refl c
  · simp only [Rx.caseBlind, List.all_eq_true, Bool.and_eq_true] at hb
    have := hb p hp
    rcases h1 with rfl | rfl <;> rcases h2 with rfl | rfl
    · exact r.sigEq_refl _
    · exact this.1
    · exact this.2
    · exact r.sigEq_refl _

theorem Rx.caseBlind_text (r : Rx) (hb : r.caseBlind = true) : ∀ (t t' : Str), caseEqText t t' = true →
    ListRel (CharRel r.atoms r.usesEos) t t'
  | [], [], _ => trivial
  | c :: t, c' :: t', h => by
    simp only [caseEqText, Bool.and_eq_true] at h
    exact ⟨r.caseBlind_rel hb h.1, Rx.caseBlind_text r hb t t' h.2⟩
  | [], _ :: _, h => by simp [caseEqText] at h
  | _ :: _, [], h => by simp [caseEqText] at h

theorem Rx.caseBlind_opt (r : Rx) (hb : r.caseBlind = true) : ∀ (p p' : Option Char), caseEqOpt p p' = true →
    OptRel (CharRel r.atoms r.usesEos) p p'
  | none, none, _ => trivial
  | some c, some c', h => r.caseBlind_rel hb h
  | none, some _, h => by simp [caseEqOpt] at h
  | some _, none, h => by simp [caseEqOpt] at h

/-- a case-blind pattern gives literally the same match on texts that agree up to letter case -/
theorem matchHere_case (r : Rx) (hb : r.caseBlind = true) (p p' : Option Char) (t t' : Str) (pos : Nat) (adv : Bool)
    (hp : caseEqOpt p p' = true) (ht : caseEqText t t' = true) :
    matchHere r ⟨p, t, pos, []⟩ adv = matchHere r ⟨p', t', pos, []⟩ adv :=
  matchHere_sig (s := ⟨p, t, pos, []⟩) (s' := ⟨p', t', pos, []⟩) r.within_self
    ⟨rfl, rfl, r.caseBlind_text hb t t' ht, r.caseBlind_opt hb p p' hp⟩ adv

theorem caseBlind_patterns :
    Gen.ne_regex.caseBlind = true ∧ Gen.nw_regex.caseBlind = true ∧ Gen.se_regex.caseBlind = true ∧
    Gen.sw_regex.caseBlind = true ∧ Gen.n2_regex.caseBlind = true ∧ Gen.s2_regex.caseBlind = true ∧
    Gen.e2_regex.caseBlind = true ∧ Gen.w2_regex.caseBlind = true ∧ Gen.ne_clean.caseBlind = true ∧
    Gen.nw_clean.caseBlind = true ∧ Gen.se_clean.caseBlind = true ∧ Gen.sw_clean.caseBlind = true ∧
    Gen.half_plus_q_regex.caseBlind = true ∧ Gen.aliquot_intervener_remover_regex.caseBlind = true := by
  decide +kernel

/-! #### tokens written in any letter case -/

/-- a token of the spelling alphabet, written in any mixture of upper and lower case -/
structure VT where
  base : WTok
  v : Str
  rel : caseEqText base.text v = true

def vtext (l : List VT) : Str := textOf VT.v l

theorem VT.v_ne_nil (tok : VT) : tok.v ≠ [] := by
  intro h
  have := caseEqText_length _ _ tok.rel
  rw [h] at this
  exact WTok.text_ne_nil tok.base (List.length_eq_zero_iff.mp this)

theorem vtext_rel : ∀ (l : List VT), caseEqText (wtext (l.map VT.base)) (vtext l) = true
  | [] => rfl
  | t :: l => by
    rw [List.map_cons, wtext, textOf_cons, vtext, textOf_cons]
    exact caseEqText_append _ _ _ _ t.rel (vtext_rel l)

/-- what the spelling pattern of component `c` does to a token in any case: the canonical (upper-case) component -/
def VT.outFor (c : Comp) (t : VT) : VT :=
  match t.base with
  | .sp _ c' => if c' = c then ⟨.sp .sym c, Sl.text .sym c, caseEqText_refl _⟩ else t
  | .jn _ => t

theorem VT.base_outFor (c : Comp) (t : VT) : (t.outFor c).base = t.base.outFor c := by
  obtain ⟨b, v, rel⟩ := t
  cases b with
  | sp s c' => by_cases h : c' = c <;> simp [VT.outFor, WTok.outFor, h]
  | jn j => rfl

def PV' (p : Option Char) (l : List VT) : Prop := ∃ p0, caseEqOpt p0 p = true ∧ PV p0 (l.map VT.base)

theorem PV'_tail (p : Option Char) (tok : VT) (toks : List VT) (h : PV' p (tok :: toks)) : PV' (lastOr p tok.v) toks := by
  obtain ⟨p0, hp, hpv⟩ := h
  exact ⟨lastOr p0 tok.base.text, caseEq_lastOr _ _ _ _ tok.rel hp, PV_tail p0 tok.base _ hpv⟩

theorem innerStates_case : ∀ (t t' : Str) (p p' : Option Char), caseEqText t t' = true → caseEqOpt p p' = true →
    ∀ ps' ∈ innerStates p' t', ∃ ps ∈ innerStates p t, caseEqOpt ps.1 ps'.1 = true ∧ caseEqText ps.2 ps'.2 = true
  | [], [], _, _, _, _ => by intro ps' h; simp [innerStates] at h
  | c :: t, c' :: t', p, p', h, hp => by
    intro ps' hps'
    have h' := h
    simp only [caseEqText, Bool.and_eq_true] at h'
    simp only [innerStates, List.mem_cons] at hps'
    rcases hps' with rfl | hps'
    · exact ⟨(p, c :: t), by simp [innerStates], hp, h⟩
    · obtain ⟨ps, hps, h1, h2⟩ := innerStates_case t t' (some c) (some c') h'.2 h'.1 ps' hps'
      exact ⟨ps, by simp [innerStates, hps], h1, h2⟩
  | [], _ :: _, _, _, h, _ => by simp [caseEqText] at h
  | _ :: _, [], _, _, h, _ => by simp [caseEqText] at h

theorem innerOf_case (t t' : Str) (h : caseEqText t t' = true) :
    ∀ ps' ∈ innerOf t', ∃ ps ∈ innerOf t, caseEqOpt ps.1 ps'.1 = true ∧ caseEqText ps.2 ps'.2 = true := by
  cases t with
  | nil => cases t' with
    | nil => intro ps' h; simp [innerOf] at h
    | cons _ _ => simp [caseEqText] at h
  | cons c t => cases t' with
    | nil => simp [caseEqText] at h
    | cons c' t' =>
      simp only [caseEqText, Bool.and_eq_true] at h
      exact innerStates_case t t' (some c) (some c') h.2 h.1

/-- inner failure transfers to any letter case -/
theorem innerG_case {T V : Type} (text : T → Str) (v : V → Str) (base : V → T)
    (hrel : ∀ tok, caseEqText (text (base tok)) (v tok) = true) (r : Rx) (hb : r.caseBlind = true)
    (hin : InnerFailG text r) : InnerFailG v r := by
  intro tok rest pos ps' hps'
  obtain ⟨ps, hps, h1, h2⟩ := innerOf_case _ _ (hrel tok) ps' hps'
  rw [← matchHere_case r hb ps.1 ps'.1 (ps.2 ++ rest) (ps'.2 ++ rest) pos false h1
    (caseEqText_append _ _ _ _ h2 (caseEqText_refl rest))]
  exact hin (base tok) rest pos ps hps

/-- the behaviour of the spelling pattern `X` of component `c` at the beginning of a token written in any case -/
theorem startStep_familyV (X : Rx) (c : Comp) (hb : X.caseBlind = true)
    (hshape : X = .seq (LBof Gen.cs_76a08037) (.seq (coreOf X) LA))
    (hhit : ∀ (s : Sl) (prev : Option Char) (rest : Str) (pos : Nat) (caps : List (Nat × Nat × Nat))
      (k : St → Option Match), RestFor s rest → (∀ s' : St, s'.pos ≠ pos → (k s').isSome = true) →
      ∃ caps', (Rx.seq (coreOf X) LA).m ⟨prev, s.text c ++ rest, pos, caps⟩ k =
        k ⟨lastOr prev (s.text c), rest, pos + (s.text c).length, caps'⟩)
    (hmiss : ∀ (s : Sl) (c' : Comp), c' ≠ c → ∀ (prev : Option Char) (rest : Str) (pos : Nat)
      (caps : List (Nat × Nat × Nat)) (k : St → Option Match),
      (coreOf X).m ⟨prev, s.text c' ++ rest, pos, caps⟩ k = none)
    (hmissJ : ∀ (j : Jn) (prev : Option Char) (rest : Str) (pos : Nat)
      (caps : List (Nat × Nat × Nat)) (k : St → Option Match),
      (coreOf X).m ⟨prev, j.text ++ rest, pos, caps⟩ k = none) :
    StartStepV VT.v (fun t => (t.outFor c).v) PV' X (fun _ => compText c) := by
  intro tok toks prev pos adv hp
  obtain ⟨p0, hp0, hpv⟩ := hp
  have hmh := matchHere_case X hb p0 prev (tok.base.text ++ wtext (toks.map VT.base)) (tok.v ++ textOf VT.v toks) pos adv hp0
    (caseEqText_append _ _ _ _ tok.rel (vtext_rel toks))
  rw [← hmh]
  have hlen := caseEqText_length _ _ tok.rel
  obtain ⟨b, v, rel⟩ := tok
  generalize coreOf X = core at hshape hhit hmiss hmissJ
  subst hshape
  cases b with
  | sp s c' =>
    by_cases hc : c' = c
    · subst hc
      left
      have hpv2 : OkPrev2 p0 := by
        rcases hpv.1 with h | h
        · cases h
        · exact h
      obtain ⟨caps, h⟩ := family_hitW (.seq core LA) (s.text c') (wtext (toks.map VT.base)) p0 pos adv
        (okPrev2_LB35 p0 hpv2) (stokW_head_word s c')
        (fun caps k hk => hhit s p0 _ pos caps k (restFor_of_PV p0 s c' _ hpv) hk)
      refine ⟨caps, ?_, by simp [VT.outFor, Sl.sym_text]⟩
      simp only [WTok.text] at h hlen ⊢
      rw [h, hlen]
    · right
      exact ⟨family_miss core _ p0 pos adv (fun caps k => hmiss s c' hc p0 _ pos caps k),
        by simp [VT.outFor, hc]⟩
  | jn j =>
    right
    exact ⟨family_miss core _ p0 pos adv (fun caps k => hmissJ j p0 _ pos caps k), rfl⟩

theorem VT.outFor_idem (c : Comp) (t : VT) : (t.outFor c).outFor c = t.outFor c := by
  obtain ⟨b, v, rel⟩ := t
  cases b with
  | sp s c' => by_cases h : c' = c <;> simp [VT.outFor, h]
  | jn j => rfl

theorem map_base_outFor (c : Comp) (toks : List VT) :
    (toks.map (VT.outFor c)).map VT.base = (toks.map VT.base).map (WTok.outFor c) := by
  simp [List.map_map, Function.comp_def, VT.base_outFor]

/-- one pass of a spelling pattern over a text in any letter case -/
theorem passV (name : String) (X : Rx) (c : Comp)
    (hstep : ∀ t, scrubStep name t = X.subWith t (fun _ => compText c)) (hb : X.caseBlind = true)
    (hshape : X = .seq (LBof Gen.cs_76a08037) (.seq (coreOf X) LA))
    (hhit : ∀ (s : Sl) (prev : Option Char) (rest : Str) (pos : Nat) (caps : List (Nat × Nat × Nat))
      (k : St → Option Match), RestFor s rest → (∀ s' : St, s'.pos ≠ pos → (k s').isSome = true) →
      ∃ caps', (Rx.seq (coreOf X) LA).m ⟨prev, s.text c ++ rest, pos, caps⟩ k =
        k ⟨lastOr prev (s.text c), rest, pos + (s.text c).length, caps'⟩)
    (hmiss : ∀ (s : Sl) (c' : Comp), c' ≠ c → ∀ (prev : Option Char) (rest : Str) (pos : Nat)
      (caps : List (Nat × Nat × Nat)) (k : St → Option Match),
      (coreOf X).m ⟨prev, s.text c' ++ rest, pos, caps⟩ k = none)
    (hmissJ : ∀ (j : Jn) (prev : Option Char) (rest : Str) (pos : Nat)
      (caps : List (Nat × Nat × Nat)) (k : St → Option Match),
      (coreOf X).m ⟨prev, j.text ++ rest, pos, caps⟩ k = none)
    (hinner : InnerFailG WTok.text X) (hnil : ∀ prev pos adv, matchHere X ⟨prev, [], pos, []⟩ adv = none)
    (toks : List VT) (hv : Adj (toks.map VT.base)) :
    subScrubber name (vtext toks) = some (vtext (toks.map (VT.outFor c))) := by
  have hpass : ∀ toks : List VT, Adj (toks.map VT.base) → scrubStep name (vtext toks) = vtext (toks.map (VT.outFor c)) := by
    intro toks hv
    rw [hstep]
    have := subWithV VT.v (fun t => (t.outFor c).v) PV' X _
      (innerG_case WTok.text VT.v VT.base (fun t => t.rel) X hb hinner) VT.v_ne_nil PV'_tail
      (startStep_familyV X c hb hshape hhit hmiss hmissJ) hnil toks ⟨none, rfl, (PV_none _).2 hv⟩
    rw [vtext, this]
    simp [vtext, textOf, List.flatMap_map]
  rw [subScrubber_eq]
  have e : stableBudget (vtext toks) = (2 * (vtext toks).length + 6) + 2 := rfl
  have hv' : Adj ((toks.map (VT.outFor c)).map VT.base) := by
    rw [map_base_outFor]; exact Adj_map_outFor c _ hv
  rw [e, ← hpass toks hv]
  apply untilStable_two
  rw [hpass toks hv, hpass _ hv', List.map_map]
  congr 2
  funext tok
  exact VT.outFor_idem c tok

def VT.canon (t : VT) : VT :=
  VT.outFor .W (VT.outFor .E (VT.outFor .S (VT.outFor .N (VT.outFor .SW (VT.outFor .SE (VT.outFor .NW (VT.outFor .NE t)))))))

/-- the eight spelling patterns, one after the other, on a text in any letter case -/
theorem scrubAll_spellingV (toks : List VT) (hv : Adj (toks.map VT.base)) :
    scrubAll Gen.QQ_SCRUBBER_REGEXES (vtext toks) = some (vtext (toks.map VT.canon)) := by
  rw [show Gen.QQ_SCRUBBER_REGEXES =
    ["ne_regex", "nw_regex", "se_regex", "sw_regex", "n2_regex", "s2_regex", "e2_regex", "w2_regex"] from rfl]
  have hcb := caseBlind_patterns
  have A : ∀ (c : Comp) (l : List VT), Adj (l.map VT.base) → Adj ((l.map (VT.outFor c)).map VT.base) := by
    intro c l h; rw [map_base_outFor]; exact Adj_map_outFor c _ h
  have a1 := A .NE _ hv
  have a2 := A .NW _ a1
  have a3 := A .SE _ a2
  have a4 := A .SW _ a3
  have a5 := A .N _ a4
  have a6 := A .S _ a5
  have a7 := A .E _ a6
  rw [scrubAll_cons _ _ _ _ (passV "ne_regex" Gen.ne_regex .NE (fun _ => rfl) hcb.1 ne_shape ne_hitW ne_missW ne_missJ ne_innerW ne_nil _ hv),
    scrubAll_cons _ _ _ _ (passV "nw_regex" Gen.nw_regex .NW (fun _ => rfl) hcb.2.1 nw_shape nw_hitW nw_missW nw_missJ nw_innerW nw_nil _ a1),
    scrubAll_cons _ _ _ _ (passV "se_regex" Gen.se_regex .SE (fun _ => rfl) hcb.2.2.1 se_shape se_hitW se_missW se_missJ se_innerW se_nil _ a2),
    scrubAll_cons _ _ _ _ (passV "sw_regex" Gen.sw_regex .SW (fun _ => rfl) hcb.2.2.2.1 sw_shape sw_hitW sw_missW sw_missJ sw_innerW sw_nil _ a3),
    scrubAll_cons _ _ _ _ (passV "n2_regex" Gen.n2_regex .N (fun _ => rfl) hcb.2.2.2.2.1 n2_shape n2_hitW n2_missW n2_missJ n2_innerW n2_nil _ a4),
    scrubAll_cons _ _ _ _ (passV "s2_regex" Gen.s2_regex .S (fun _ => rfl) hcb.2.2.2.2.2.1 s2_shape s2_hitW s2_missW s2_missJ s2_innerW s2_nil _ a5),
    scrubAll_cons _ _ _ _ (passV "e2_regex" Gen.e2_regex .E (fun _ => rfl) hcb.2.2.2.2.2.2.1 e2_shape e2_hitW e2_missW e2_missJ e2_innerW e2_nil _ a6),
    scrubAll_cons _ _ _ _ (passV "w2_regex" Gen.w2_regex .W (fun _ => rfl) hcb.2.2.2.2.2.2.2.1 w2_shape w2_hitW w2_missW w2_missJ w2_innerW w2_nil _ a7)]
  show some _ = some _
  simp only [List.map_map]
  rfl

theorem VT.canon_sp (s : Sl) (c : Comp) (v : Str) (rel : caseEqText (WTok.sp s c).text v = true) :
    (VT.canon ⟨.sp s c, v, rel⟩).v = (WTok.sp .sym c).text := by
  cases c <;> simp [VT.canon, VT.outFor, WTok.text]

theorem VT.canon_jn (j : Jn) (v : Str) (rel : caseEqText (WTok.jn j).text v = true) :
    VT.canon ⟨.jn j, v, rel⟩ = ⟨.jn j, v, rel⟩ := rfl

/-- the joiners are written exactly (lower case); only the component spellings vary in case -/
def JoinersExact (toks : List VT) : Prop := ∀ t ∈ toks, t.base.isJn = true → t.v = t.base.text

theorem vtext_canon_exact (toks : List VT) (hj : JoinersExact toks) :
    vtext (toks.map VT.canon) = wtext ((toks.map VT.base).map WTok.canon) := by
  induction toks with
  | nil => rfl
  | cons t toks ih =>
    rw [List.map_cons, List.map_cons, List.map_cons, vtext, textOf_cons, wtext, textOf_cons, ← vtext, ← wtext,
      ih (fun x hx => hj x (by simp [hx]))]
    congr 1
    obtain ⟨b, v, rel⟩ := t
    cases b with
    | sp s c => exact VT.canon_sp s c v rel
    | jn j => exact hj ⟨.jn j, v, rel⟩ (by simp) rfl

/-- **C07 (letter case of the component spellings)**: a text of the spelling alphabet whose components are written in ANY
    mixture of upper and lower case ("north half", "NORTHEAST QUARTER", "n 1/2", "ne¼"), joiners in lower case, is normalised
    exactly like the text in the documented capitalisation — chains of every length, with and without `clean_qq` -/
theorem C07_case_insensitive_components (toks : List VT) (hv : Adj (toks.map VT.base)) (hj : JoinersExact toks)
    (cleanQQ : Bool) :
    Tract.scrubAliquots (vtext toks) cleanQQ = Tract.scrubAliquots (wtext (toks.map VT.base)) cleanQQ := by
  have h1 := scrubAll_spellingV toks hv
  have h2 := scrubAll_spellingW (toks.map VT.base) hv
  rw [vtext_canon_exact toks hj] at h1
  unfold scrubAliquots
  rw [h1, h2]

/-- cutting a text that agrees with a token text up to letter case into tokens -/
theorem exists_variants : ∀ (toks : List WTok) (t' : Str), caseEqText (wtext toks) t' = true →
    ∃ vts : List VT, vts.map VT.base = toks ∧ vtext vts = t'
  | [], t', h => by
    cases t' with
    | nil => exact ⟨[], rfl, rfl⟩
    | cons _ _ => simp [wtext, textOf, caseEqText] at h
  | tok :: toks, t', h => by
    rw [wtext, textOf_cons] at h
    have hsplit : ∀ (a b t' : Str), caseEqText (a ++ b) t' = true →
        caseEqText a (t'.take a.length) = true ∧ caseEqText b (t'.drop a.length) = true := by
      intro a
      induction a with
      | nil => intro b t' h; exact ⟨by simp [caseEqText], by simpa using h⟩
      | cons c a ih =>
        intro b t' h
        cases t' with
        | nil => simp [caseEqText] at h
        | cons c' t' =>
          simp only [List.cons_append, caseEqText, Bool.and_eq_true] at h
          have := ih b t' h.2
          simp only [List.length_cons, List.take_succ_cons, List.drop_succ_cons, caseEqText, Bool.and_eq_true]
          exact ⟨⟨h.1, this.1⟩, this.2⟩
    obtain ⟨h1, h2⟩ := hsplit _ _ _ h
    obtain ⟨vts, hb, hvt⟩ := exists_variants toks _ h2
    refine ⟨⟨tok, _, h1⟩ :: vts, by simp [hb], ?_⟩
    rw [vtext, textOf_cons, ← vtext, hvt]
    exact List.take_append_drop _ _

/-! #### joiners in any letter case: "OF THE", "Of" -/

/-- equal, or a lower-case letter of "of the" against its capital -/
def jnRel (c c' : Char) : Bool := c == c' || [('o','O'),('f','F'),('t','T'),('h','H'),('e','E')].contains (c, c')

def jnRelText : Str → Str → Bool
  | [], [] => true
  | c :: t, c' :: t' => jnRel c c' && jnRelText t t'
  | _, _ => false

theorem jnRelText_refl : ∀ (t : Str), jnRelText t t = true
  | [] => rfl
  | c :: t => by simp [jnRelText, jnRel, jnRelText_refl t]

theorem jnRelText_append : ∀ (a a' b b' : Str), jnRelText a a' = true → jnRelText b b' = true →
    jnRelText (a ++ b) (a' ++ b') = true
  | [], [], _, _, _, hb => hb
  | c :: a, c' :: a', b, b', ha, hb => by
    simp only [jnRelText, Bool.and_eq_true] at ha
    simp only [List.cons_append, jnRelText, Bool.and_eq_true]
    exact ⟨ha.1, jnRelText_append a a' b b' ha.2 hb⟩
  | [], _ :: _, _, _, ha, _ => by simp [jnRelText] at ha
  | _ :: _, [], _, _, ha, _ => by simp [jnRelText] at ha

theorem jnRelText_length : ∀ (a a' : Str), jnRelText a a' = true → a.length = a'.length
  | [], [], _ => rfl
  | c :: a, c' :: a', h => by
    simp only [jnRelText, Bool.and_eq_true] at h
    simp [jnRelText_length a a' h.2]
  | [], _ :: _, h => by simp [jnRelText] at h
  | _ :: _, [], h => by simp [jnRelText] at h

theorem jnRelText_take : ∀ (n : Nat) (a a' : Str), jnRelText a a' = true → jnRelText (a.take n) (a'.take n) = true
  | 0, _, _, _ => by simp [jnRelText]
  | _ + 1, [], [], _ => by simp [jnRelText]
  | n + 1, c :: a, c' :: a', h => by
    simp only [jnRelText, Bool.and_eq_true] at h
    simp only [List.take_succ_cons, jnRelText, Bool.and_eq_true]
    exact ⟨h.1, jnRelText_take n a a' h.2⟩
  | _ + 1, [], _ :: _, h => by simp [jnRelText] at h
  | _ + 1, _ :: _, [], h => by simp [jnRelText] at h

theorem jnRelText_drop : ∀ (n : Nat) (a a' : Str), jnRelText a a' = true → jnRelText (a.drop n) (a'.drop n) = true
  | 0, _, _, h => by simpa using h
  | _ + 1, [], [], _ => by simp [jnRelText]
  | n + 1, c :: a, c' :: a', h => by
    simp only [jnRelText, Bool.and_eq_true] at h
    simp only [List.drop_succ_cons]
    exact jnRelText_drop n a a' h.2
  | _ + 1, [], _ :: _, h => by simp [jnRelText] at h
  | _ + 1, _ :: _, [], h => by simp [jnRelText] at h

theorem jnRelText_slice (a b : Nat) (t t' : Str) (h : jnRelText t t' = true) : jnRelText (slice t a b) (slice t' a b) = true :=
  jnRelText_drop a _ _ (jnRelText_take b _ _ h)

theorem jnRel_caseEq (c c' : Char) (h : jnRel c c' = true) : caseEq c c' = true := by
  simp only [jnRel, Bool.or_eq_true, beq_iff_eq, List.contains_iff_mem] at h
  rcases h with rfl | h
  · exact caseEq_refl c
  · simp only [List.mem_cons, Prod.mk.injEq, List.not_mem_nil, or_false] at h
    rcases h with ⟨rfl, rfl⟩ | ⟨rfl, rfl⟩ | ⟨rfl, rfl⟩ | ⟨rfl, rfl⟩ | ⟨rfl, rfl⟩ <;> decide

theorem jnRelText_caseEq : ∀ (t t' : Str), jnRelText t t' = true → caseEqText t t' = true
  | [], [], _ => rfl
  | c :: t, c' :: t', h => by
    simp only [jnRelText, Bool.and_eq_true] at h
    simp only [caseEqText, Bool.and_eq_true]
    exact ⟨jnRel_caseEq c c' h.1, jnRelText_caseEq t t' h.2⟩
  | [], _ :: _, h => by simp [jnRelText] at h
  | _ :: _, [], h => by simp [jnRelText] at h

theorem finditer_case (r : Rx) (hb : r.caseBlind = true) (t t' : Str) (h : caseEqText t t' = true) :
    r.finditer t = r.finditer t' := by
  rw [finditer_default, finditer_default, caseEqText_length t t' h]
  exact finditerAux_sig r.within_self _ _ _ _ _ 0 false (r.caseBlind_text hb t t' h) trivial

theorem go_jnRel (t t' : Str) (f f' : Match → Str) (ht : jnRelText t t' = true) :
    ∀ (ms : List Match), (∀ m ∈ ms, jnRelText (f m) (f' m) = true) → ∀ (i : Nat) (acc acc' : Str),
      jnRelText acc acc' = true → jnRelText (Rx.subWith.go t f ms i acc) (Rx.subWith.go t' f' ms i acc') = true
  | [], _, i, acc, acc', ha => by
    simp only [Rx.subWith.go]
    exact jnRelText_append _ _ _ _ ha (jnRelText_drop i _ _ ht)
  | m :: ms, hf, i, acc, acc', ha => by
    simp only [Rx.subWith.go]
    apply go_jnRel t t' f f' ht ms (fun x hx => hf x (by simp [hx]))
    exact jnRelText_append _ _ _ _ (jnRelText_append _ _ _ _ ha (jnRelText_slice _ _ _ _ ht)) (hf m (by simp))

theorem ivF_jnRel (t t' : Str) (ht : jnRelText t t' = true) (m : Match) : jnRelText (ivF t m) (ivF t' m) = true := by
  have hg : ∀ g, jnRelText ((m.group? t g).getD []) ((m.group? t' g).getD []) = true := by
    intro g
    simp only [Match.group?]
    cases m.span? g with
    | none => rfl
    | some ab => exact jnRelText_slice _ _ _ _ ht
  have e : ∀ t, ivF t m = (m.group? t 1).getD [] ++ (m.group? t 10).getD [] := by
    intro t
    simp [ivF, Pat.group, intervenerRemover, Pat.idx?, Gen.aliquot_intervener_remover_regex_groups]
  rw [e, e]
  exact jnRelText_append _ _ _ _ (hg 1) (hg 10)

/-- one pass of `remove_aliquot_interveners` respects the relation -/
theorem intervenerStep_jnRel (t t' : Str) (ht : jnRelText t t' = true) :
    jnRelText (intervenerStep t) (intervenerStep t') = true := by
  rw [intervenerStep_eq, intervenerStep_eq]
  show jnRelText (Rx.subWith.go t _ (ivRx.finditer t) 0 []) (Rx.subWith.go t' _ (ivRx.finditer t') 0 []) = true
  rw [← finditer_case ivRx caseBlind_patterns.2.2.2.2.2.2.2.2.2.2.2.2.2 t t' (jnRelText_caseEq t t' ht)]
  exact go_jnRel t t' _ _ ht _ (fun m _ => ivF_jnRel t t' ht m) 0 [] [] rfl

theorem jnRel_good : ∀ (a u : Str), (∀ x ∈ a, x ∈ ['N', 'S', 'E', 'W', '½', '¼']) → jnRelText a u = true → u = a
  | [], [], _, _ => rfl
  | x :: a, y :: u, hg, h => by
    simp only [jnRelText, Bool.and_eq_true] at h
    have hx := hg x (by simp)
    have : y = x := by
      have h1 := h.1
      simp only [jnRel, Bool.or_eq_true, beq_iff_eq, List.contains_iff_mem, List.mem_cons, Prod.mk.injEq,
        List.not_mem_nil, or_false] at h1
      rcases h1 with h1 | ⟨h1, _⟩ | ⟨h1, _⟩ | ⟨h1, _⟩ | ⟨h1, _⟩ | ⟨h1, _⟩
      · exact h1.symm
      all_goals (subst h1; exact absurd hx (by decide))
    rw [this, jnRel_good a u (fun z hz => hg z (by simp [hz])) h.2]
  | [], _ :: _, _, h => by simp [jnRelText] at h
  | _ :: _, [], _, h => by simp [jnRelText] at h

theorem chainText_good (chain : List Comp) : ∀ x ∈ chainText chain, x ∈ ['N', 'S', 'E', 'W', '½', '¼'] := by
  induction chain with
  | nil => intro x hx; simp [chainText] at hx
  | cons c cs ih =>
    intro x hx
    rw [C02_chainText_cons, List.mem_append] at hx
    rcases hx with hx | hx
    · cases c <;> simp [compText, Comp.str, Comp.isHalf] at hx <;> rcases hx with rfl | rfl | rfl <;> simp
    · exact ih x hx

theorem jnRel_chain (chain : List Comp) (u : Str) (h : jnRelText (chainText chain) u = true) : u = chainText chain :=
  jnRel_good _ _ (chainText_good chain) h

/-- the until-stable loop of `remove_aliquot_interveners` on a joined canonical text whose joiners are in any case -/
theorem iv_stable_case : ∀ (n : Nat) (L : List JItem), joinersOf L ≤ n → ∀ (c : Comp) (u : Str) (fuel : Nat),
    jnRelText (itemsText ((none, c) :: L)) u = true → n < fuel →
    untilStable intervenerStep fuel u = some (chainText (c :: L.map Prod.snd)) := by
  intro n
  induction n with
  | zero =>
    intro L hL c u fuel hu hf
    have hnone : ∀ x ∈ ((none, c) :: L : List JItem), x.1 = none := by
      intro x hx; simp at hx; rcases hx with rfl | hx; rfl; exact joinersOf_zero L (by omega) x hx
    rw [itemsText_none _ hnone] at hu
    rw [jnRel_chain _ u hu]
    have := iv_stable 0 L hL c fuel hf
    rwa [itemsText_none _ hnone] at this
  | succ n ih =>
    intro L hL c u fuel hu hf
    by_cases h0 : joinersOf L = 0
    · have hnone : ∀ x ∈ ((none, c) :: L : List JItem), x.1 = none := by
        intro x hx; simp at hx; rcases hx with rfl | hx; rfl; exact joinersOf_zero L h0 x hx
      rw [itemsText_none _ hnone] at hu
      rw [jnRel_chain _ u hu]
      have := iv_stable (n + 1) L hL c fuel hf
      rwa [itemsText_none _ hnone] at this
    · obtain ⟨f, rfl⟩ : ∃ f, fuel = f + 1 := ⟨fuel - 1, by omega⟩
      have hpos : 0 < joinersOf L := by omega
      have hstep : intervenerStep (itemsText ((none, c) :: L)) = itemsText ((none, c) :: passAux true L) := by
        rw [intervenerStep_items]; rfl
      have hrel := intervenerStep_jnRel _ _ hu
      rw [hstep] at hrel
      have hne : (intervenerStep u == u) = false := by
        rw [beq_eq_false_iff_ne]
        intro h
        have h1 := jnRelText_length _ _ hrel
        have h2 := jnRelText_length _ _ hu
        rw [h] at h1
        have := itemsText_len_lt L hpos
        simp only [itemsText_cons, List.length_append] at h1 h2
        omega
      rw [untilStable]
      simp only [hne]
      have := ih (passAux true L) (by have := passAux_lt L hpos; omega) c _ f hrel (by omega)
      rw [passAux_comps] at this
      simpa using this

theorem jn_char_rel (x y : Char) (hx : x ∈ [' ', 'o', 'f', 't', 'h', 'e']) (h : caseEq x y = true) : jnRel x y = true := by
  simp only [List.mem_cons, List.not_mem_nil, or_false] at hx
  rcases hx with rfl | rfl | rfl | rfl | rfl | rfl <;>
    simp [caseEq, casePairs, jnRel] at h ⊢ <;>
      first | exact h | (rcases h with h | h | h <;> first | exact Or.inl h | exact Or.inl h.symm | exact Or.inr h)

theorem jn_text_rel : ∀ (a v : Str), (∀ x ∈ a, x ∈ [' ', 'o', 'f', 't', 'h', 'e']) → caseEqText a v = true →
    jnRelText a v = true
  | [], [], _, _ => rfl
  | x :: a, y :: v, hg, h => by
    simp only [caseEqText, Bool.and_eq_true] at h
    simp only [jnRelText, Bool.and_eq_true]
    exact ⟨jn_char_rel x y (hg x (by simp)) h.1, jn_text_rel a v (fun z hz => hg z (by simp [hz])) h.2⟩
  | [], _ :: _, _, h => by simp [caseEqText] at h
  | _ :: _, [], _, h => by simp [caseEqText] at h

theorem Jn.text_chars (j : Jn) : ∀ x ∈ j.text, x ∈ [' ', 'o', 'f', 't', 'h', 'e'] := by
  cases j <;> simp [Jn.text]

/-- after the eight spelling patterns: canonical components, joiners in their original case -/
theorem canon_jnRel : ∀ (vts : List VT),
    jnRelText (wtext ((vts.map VT.base).map WTok.canon)) (vtext (vts.map VT.canon)) = true
  | [] => rfl
  | t :: vts => by
    rw [List.map_cons, List.map_cons, List.map_cons, vtext, textOf_cons, wtext, textOf_cons]
    apply jnRelText_append _ _ _ _ _ (canon_jnRel vts)
    obtain ⟨b, v, rel⟩ := t
    cases b with
    | sp s c => rw [VT.canon_sp s c v rel]; exact jnRelText_refl _
    | jn j => exact jn_text_rel _ _ (Jn.text_chars j) rel

/-! `half_plus_q_regex`: no match, whatever the case of the joiners -/

theorem hpq_missJ (tok : JT) (toks : List JT) (prev : Option Char) (pos : Nat) (adv : Bool) (hv : JV (tok :: toks)) :
    matchHere Gen.half_plus_q_regex ⟨prev, JT.text tok ++ textOf JT.text toks, pos, []⟩ adv = none := by
  rcases hpq_startJ (fun _ => ['\x00']) tok toks prev pos adv hv with ⟨caps, _, h⟩ | ⟨h, _⟩
  · exfalso
    cases tok with
    | cp c => cases c <;> simp [JT.text, compText, Comp.str, Comp.isHalf] at h
    | jn j => cases j <;> simp [JT.text, Jn.text] at h
  · exact h

theorem finditerAux_nil_tokens {T : Type} (text : T → Str) (P : Option Char → List T → Prop) (r : Rx)
    (hin : InnerFailG text r) (hne : ∀ tok, text tok ≠ [])
    (hP : ∀ p tok toks, P p (tok :: toks) → P (lastOr p (text tok)) toks)
    (hmiss : ∀ tok toks prev pos adv, P prev (tok :: toks) →
      matchHere r ⟨prev, text tok ++ textOf text toks, pos, []⟩ adv = none)
    (hnil : ∀ prev pos adv, matchHere r ⟨prev, [], pos, []⟩ adv = none) :
    ∀ (toks : List T) (fuel : Nat) (prev : Option Char) (pos : Nat) (adv : Bool), P prev toks →
      finditerAux r fuel prev (textOf text toks) pos adv = [] := by
  intro toks
  induction toks with
  | nil =>
    intro fuel prev pos adv _
    cases fuel with
    | zero => rfl
    | succ n =>
      apply finditerAux_none
      show scan r prev [] pos adv = none
      rw [scan_nil, hnil]
  | cons tok toks ih =>
    intro fuel prev pos adv hp
    have hsc := scan_tokG text r hin hne tok (textOf text toks) prev pos adv
    rw [hmiss tok toks prev pos adv hp] at hsc
    simp only [] at hsc
    rw [textOf_cons, finditerAux_skip r (text tok) (textOf text toks) prev pos adv fuel hsc]
    exact ih fuel _ _ false (hP prev tok toks hp)

theorem halfPlusQ_case (toks : List JT) (hv : JV toks) (u : Str) (h : caseEqText (jtext toks) u = true) :
    halfPlusQScrubber u = some u := by
  apply (halfPlusQScrubber_self_iff u).mpr
  show Rx.subWith.go u _ (Gen.half_plus_q_regex.finditer u) 0 [] = u
  rw [← finditer_case Gen.half_plus_q_regex caseBlind_patterns.2.2.2.2.2.2.2.2.2.2.2.2.1 _ u h, finditer_default,
    jtext, finditerAux_nil_tokens JT.text (fun _ l => JV l) Gen.half_plus_q_regex hpq_innerJ JT.text_ne_nil
      (fun _ tok toks h => JV_tail tok toks h) (fun tok toks prev pos adv h => hpq_missJ tok toks prev pos adv h) hpq_nil
      toks _ none 0 false hv]
  simp [Rx.subWith.go]

/-! the `clean_qq` patterns: identity, whatever the case of the joiners -/

/-- a token of a joined canonical text whose joiner may be in any case -/
structure VJ where
  base : JT
  v : Str
  rel : caseEqText base.text v = true
  exact : ∀ c, base = .cp c → v = compText c

theorem VJ.v_ne_nil (tok : VJ) : tok.v ≠ [] := by
  intro h
  have := caseEqText_length _ _ tok.rel
  rw [h] at this
  exact JT.text_ne_nil tok.base (List.length_eq_zero_iff.mp this)

theorem vjtext_rel : ∀ (l : List VJ), caseEqText (jtext (l.map VJ.base)) (textOf VJ.v l) = true
  | [] => rfl
  | t :: l => by
    rw [List.map_cons, jtext, textOf_cons, textOf_cons]
    exact caseEqText_append _ _ _ _ t.rel (vjtext_rel l)

theorem startStepG_VJ (X : Rx) (hb : X.caseBlind = true) (repl : Str) (hJ : ∀ j : Jn, repl ≠ j.text)
    (h : StartStepG JT.text JT.text (fun _ => True) X (fun _ => repl)) :
    StartStepG VJ.v VJ.v (fun _ => True) X (fun _ => repl) := by
  intro tok toks prev pos adv _
  have hmh := matchHere_case X hb prev prev (tok.base.text ++ jtext (toks.map VJ.base)) (tok.v ++ textOf VJ.v toks) pos adv
    (caseEqOpt_refl prev) (caseEqText_append _ _ _ _ tok.rel (vjtext_rel toks))
  rw [← hmh]
  have hlen := caseEqText_length _ _ tok.rel
  rcases h tok.base (toks.map VJ.base) prev pos adv trivial with ⟨caps, h1, h2⟩ | ⟨h1, _⟩
  · left
    refine ⟨caps, by rw [← hlen]; exact h1, ?_⟩
    show repl = tok.v
    have h2' : repl = JT.text tok.base := h2
    obtain ⟨b, v, rel, ex⟩ := tok
    cases b with
    | cp c => rw [h2']; exact (ex c rfl).symm
    | jn j => exact absurd h2' (hJ j)
  · right
    exact ⟨h1, rfl⟩

theorem clean_passVJ (name : String) (X : Rx) (repl : Str) (hstep : ∀ t, scrubStep name t = X.subWith t (fun _ => repl))
    (hb : X.caseBlind = true) (hJ : ∀ j : Jn, repl ≠ j.text)
    (hst : StartStepG JT.text JT.text (fun _ => True) X (fun _ => repl)) (hin : InnerFailG JT.text X)
    (hnil : ∀ prev pos adv, matchHere X ⟨prev, [], pos, []⟩ adv = none) (toks : List VJ) :
    scrubStep name (textOf VJ.v toks) = textOf VJ.v toks := by
  rw [hstep]
  exact subWithG VJ.v VJ.v (fun _ => True) X _ (innerG_case JT.text VJ.v VJ.base (fun t => t.rel) X hb hin)
    VJ.v_ne_nil (fun _ _ => trivial) trivial (startStepG_VJ X hb repl hJ hst) hnil toks

theorem scrubStep_cleanVJ (name : String) (hn : name ∈ Gen.QQ_CLEAN_REGEXES) (toks : List VJ) :
    scrubStep name (textOf VJ.v toks) = textOf VJ.v toks := by
  have hcb := caseBlind_patterns
  simp only [Gen.QQ_CLEAN_REGEXES, List.mem_cons, List.not_mem_nil, or_false] at hn
  rcases hn with rfl | rfl | rfl | rfl
  · exact clean_passVJ "ne_clean" Gen.ne_clean (compText .NE) (fun _ => rfl) hcb.2.2.2.2.2.2.2.2.1
      (by intro j; cases j <;> decide) nec_startJ nec_innerJ nec_nil toks
  · exact clean_passVJ "nw_clean" Gen.nw_clean (compText .NW) (fun _ => rfl) hcb.2.2.2.2.2.2.2.2.2.1
      (by intro j; cases j <;> decide) nwc_startJ nwc_innerJ nwc_nil toks
  · exact clean_passVJ "se_clean" Gen.se_clean (compText .SE) (fun _ => rfl) hcb.2.2.2.2.2.2.2.2.2.2.1
      (by intro j; cases j <;> decide) sec_startJ sec_innerJ sec_nil toks
  · exact clean_passVJ "sw_clean" Gen.sw_clean (compText .SW) (fun _ => rfl) hcb.2.2.2.2.2.2.2.2.2.2.2.1
      (by intro j; cases j <;> decide) swc_startJ swc_innerJ swc_nil toks

theorem exists_variantsJ : ∀ (toks : List JT) (u : Str), jnRelText (jtext toks) u = true →
    ∃ vts : List VJ, vts.map VJ.base = toks ∧ textOf VJ.v vts = u
  | [], u, h => by
    cases u with
    | nil => exact ⟨[], rfl, rfl⟩
    | cons _ _ => simp [jtext, textOf, jnRelText] at h
  | tok :: toks, u, h => by
    rw [jtext, textOf_cons] at h
    have h1 : jnRelText (JT.text tok) (u.take (JT.text tok).length) = true := by
      have := jnRelText_take (JT.text tok).length _ _ h
      simpa using this
    have h2 : jnRelText (jtext toks) (u.drop (JT.text tok).length) = true := by
      have := jnRelText_drop (JT.text tok).length _ _ h
      simpa [jtext] using this
    obtain ⟨vts, hb, hvt⟩ := exists_variantsJ toks _ h2
    have hex : ∀ c, tok = .cp c → u.take (JT.text tok).length = compText c := by
      intro c hc
      subst hc
      have := jnRel_chain [c] _ (by simpa [chainText, JT.text] using h1)
      simpa [chainText, JT.text] using this
    refine ⟨⟨tok, u.take (JT.text tok).length, jnRelText_caseEq _ _ h1, hex⟩ :: vts, by simp [hb], ?_⟩
    show u.take (JT.text tok).length ++ textOf VJ.v vts = u
    rw [hvt]
    exact List.take_append_drop _ _

/-- the stages after the spelling patterns, on a joined canonical text whose joiners are in any case -/
theorem scrub_rest_case (c : Comp) (L : List JItem) (u : Str) (hu : jnRelText (itemsText ((none, c) :: L)) u = true)
    (cleanQQ : Bool) (t' : Str) (h1 : scrubAll Gen.QQ_SCRUBBER_REGEXES t' = some u) :
    Tract.scrubAliquots t' cleanQQ = some (chainText (c :: L.map Prod.snd)) := by
  have hu' := hu
  rw [← jtext_items] at hu'
  obtain ⟨vts, hb, hvt⟩ := exists_variantsJ _ u hu'
  have h2 : scrubAll Gen.QQ_CLEAN_REGEXES u = some u :=
    scrubAll_fixed _ _ (fun n hn => by rw [← hvt]; exact scrubStep_cleanVJ n hn vts)
  have h3 : halfPlusQScrubber u = some u := halfPlusQ_case _ (JV_items _) u (jnRelText_caseEq _ _ hu')
  have h4 : removeAliquotInterveners u = some (chainText (c :: L.map Prod.snd)) := by
    rw [removeAliquotInterveners_eq]
    exact iv_stable_case (joinersOf L) L (Nat.le_refl _) c u _ hu (by
      have := joinersOf_le_len L
      have hl := jnRelText_length _ _ hu
      simp only [stableBudget, itemsText_cons, List.length_append] at hl ⊢; omega)
  unfold scrubAliquots
  cases cleanQQ <;> simp [h1, h2, h3, h4]

/-- **C07 (letter case)**: a chain written with any of the ten spellings per component and joiners from {"", " ", " of ",
    " of the "}, in ANY mixture of upper and lower case ("north half of the NORTHEAST QUARTER", "n½ OF ne¼"), is normalised
    to the canonical chain text — every length, with and without `clean_qq` -/
theorem C07_case_insensitive (s : Sl) (c : Comp) (l : List (Option Jn × Sl × Comp)) (cleanQQ : Bool)
    (hv : Adj (.sp s c :: joinedToks l)) (t' : Str) (ht : caseEqText (wtext (.sp s c :: joinedToks l)) t' = true) :
    Tract.scrubAliquots t' cleanQQ = some (chainText (c :: l.map (fun x => x.2.2))) := by
  obtain ⟨vts, hb, hvt⟩ := exists_variants _ t' ht
  have h1 := scrubAll_spellingV vts (by rw [hb]; exact hv)
  have hrel := canon_jnRel vts
  have e : (WTok.sp s c :: joinedToks l).map WTok.canon = itemsW ((none, c) :: l.map (fun x => (x.1, x.2.2))) := by
    rw [List.map_cons, joinedToks_canon]
    simp [itemsW, JItem.wtoks, WTok.canon]
  rw [hb, e, wtext_items] at hrel
  have h2 := scrub_rest_case c _ _ hrel cleanQQ t' (by rw [← hvt]; exact h1)
  rw [h2]
  simp [List.map_map, Function.comp_def]

example : Tract.scrubAliquots "north half OF THE NorthEast quarter".toList false = some "N½NE¼".toList :=
  C07_case_insensitive .word .N [(some .ofThe, .word, .NE)] false
    (by simp [joinedToks, Adj, WTok.endsWord, WTok.isJn, Sl.endsWord]) _ (by decide)
example : Tract.scrubAliquots "Eaſt Half of the ſouth weſt quarter".toList false = some "E½SW¼".toList :=
  C07_case_insensitive .word .E [(some .ofThe, .spaced, .SW)] false
    (by simp [joinedToks, Adj, WTok.endsWord, WTok.isJn, Sl.endsWord]) _ (by decide)
example : Tract.scrubAliquots "n½ Of ne¼sw 1/4 of The WEST ONE HALF".toList true = some "N½NE¼SW¼W½".toList :=
  C07_case_insensitive .sym .N [(some .of_, .sym, .NE), (none, .sfrac, .SW), (some .ofThe, .wordOne, .W)] true
    (by simp [joinedToks, Adj, WTok.endsWord, WTok.isJn, Sl.endsWord]) _ (by decide)


/-- **C07 (letter case, parse)**: the parser cannot tell the letter case: any text equal, up to the case of ASCII letters, to a
    chain written with any spellings and joiners parses exactly like the canonical chain text -/
theorem C07_case_insensitive_parse_eq (s : Sl) (c : Comp) (l : List (Option Jn × Sl × Comp))
    (hv : Adj (.sp s c :: joinedToks l)) (t' : Str) (ht : caseEqText (wtext (.sp s c :: joinedToks l)) t' = true)
    (a : ParseArgs) (inh : Flags) :
    tractParse t' a inh = tractParse (chainText (c :: l.map (fun x => x.2.2))) a inh :=
  C07_canonical_chain_parse_eq _ _ a inh (C07_case_insensitive s c l a.cleanQQ hv t' ht)

/-- … and the raw parse is the single aliquot block of the chain -/
theorem C07_case_insensitive_parse (s : Sl) (c : Comp) (l : List (Option Jn × Sl × Comp))
    (hv : Adj (.sp s c :: joinedToks l)) (t' : Str) (ht : caseEqText (wtext (.sp s c :: joinedToks l)) t' = true)
    (a : ParseArgs) (inh : Flags) :
    tractParseRaw t' a inh = .ok
      { text := chainText (c :: l.map (fun x => x.2.2)), lots := [],
        qqs := (qqsOf a.depth [chainText (c :: l.map (fun x => x.2.2))]).1, lotAcres := [],
        aliquotsWhole := [removeFractions (chainText (c :: l.map (fun x => x.2.2)))],
        flags := dupFlags inh [] (qqsOf a.depth [chainText (c :: l.map (fun x => x.2.2))]).1,
        diverged := (qqsOf a.depth [chainText (c :: l.map (fun x => x.2.2))]).2 } := by
  rw [← C07_canonical_chain_parseRaw_eq _ _ a inh (C07_case_insensitive s c l a.cleanQQ hv t' ht)]
  exact C07_canonical_chain_parse _ (by simp) a inh

example (a : ParseArgs) (inh : Flags) :
    tractParse "north half OF THE NorthEast quarter".toList a inh = tractParse "N½NE¼".toList a inh :=
  C07_case_insensitive_parse_eq .word .N [(some .ofThe, .word, .NE)]
    (by simp [joinedToks, Adj, WTok.endsWord, WTok.isJn, Sl.endsWord]) _ (by decide) a inh
example (a : ParseArgs) (inh : Flags) :
    tractParse "West One Half N2S½ of Northeast Quarter of the SE 1/4W/2".toList a inh = tractParse "W½N½S½NE¼SE¼W½".toList a inh :=
  C07_joined_spelling_parse_eq .wordOne .W [(some .blank, .digit, .N), (none, .sym, .S), (some .of_, .word, .NE), (some .ofThe, .sfrac, .SE), (none, .slash, .W)]
    (by simp [joinedToks, Adj, WTok.endsWord, WTok.isJn, Sl.endsWord]) a inh



/-- the result does not depend on `clean_qq`, and it is a fixed point of the normalisation (idempotence) -/
theorem C07_case_insensitive_stable (s : Sl) (c : Comp) (l : List (Option Jn × Sl × Comp))
    (hv : Adj (.sp s c :: joinedToks l)) (t' : Str) (ht : caseEqText (wtext (.sp s c :: joinedToks l)) t' = true) :
    Tract.scrubAliquots t' true = Tract.scrubAliquots t' false ∧
    ∀ cq cq' p, Tract.scrubAliquots t' cq = some p → Tract.scrubAliquots p cq' = some p := by
  refine ⟨by rw [C07_case_insensitive s c l true hv t' ht, C07_case_insensitive s c l false hv t' ht], ?_⟩
  intro cq cq' p hp
  rw [C07_case_insensitive s c l cq hv t' ht] at hp
  cases hp
  exact C07_canonical_chain_fixed _ cq'

/-- the hypothesis `Adj` (a spelling that ends in a word must be followed by a joiner) cannot be dropped: without a blank
    between "Half" and "Northeast" the look-ahead of the half patterns still accepts ("N" follows), but the quarter pattern
    finds no word boundary before "Northeast" — without `clean_qq` the word "Quarter" is left behind -/
theorem C07_adjacent_words_not_normalised :
    Tract.scrubAliquots (wtext [.sp .word .N, .sp .word .NE]) false = some "N½NE¼ Quarter".toList ∧
    Tract.scrubAliquots (wtext [.sp .word .N, .sp .word .NE]) true = some "N½NE¼".toList ∧
    ¬ Adj [.sp .word .N, .sp .word .NE] := by
  refine ⟨by decide +kernel, by decide +kernel, ?_⟩
  simp [Adj, WTok.endsWord, Sl.endsWord, WTok.isJn]

example : wtext [.sp .word .N, .sp .word .NE] = "North HalfNortheast Quarter".toList := by decide



/-! ### several chains: components, joiners, and the separators ", " / "; " -/

/-- what stands in front of a component: nothing, a joiner, or a separator (", " if `true`, "; " if `false`) -/
inductive Lead where
  | none
  | jn (j : Jn)
  | sep (comma : Bool)
  deriving DecidableEq, Repr

def sepText (b : Bool) : Str := if b then [',', ' '] else [';', ' ']

def Lead.text : Lead → Str
  | .none => []
  | .jn j => j.text
  | .sep b => sepText b

abbrev XItem := Lead × Comp
def XItem.text (x : XItem) : Str := x.1.text ++ compText x.2
def xitemsText (L : List XItem) : Str := textOf XItem.text L

inductive XT where
  | cp (c : Comp)
  | jn (j : Jn)
  | sep (b : Bool)
  deriving DecidableEq, Repr

def XT.text : XT → Str
  | .cp c => compText c
  | .jn j => j.text
  | .sep b => sepText b

theorem XT.text_ne_nil (tok : XT) : tok.text ≠ [] := by
  cases tok with
  | cp c => cases c <;> simp [XT.text, compText, Comp.str, Comp.isHalf]
  | jn j => cases j <;> simp [XT.text, Jn.text]
  | sep b => cases b <;> simp [XT.text, sepText]

theorem iv_innerX : InnerFailG XT.text Gen.aliquot_intervener_remover_regex := by
  intro tok rest pos
  cases tok with
  | cp c => exact iv_innerJ (.cp c) rest pos
  | jn j => exact iv_innerJ (.jn j) rest pos
  | sep b =>
    cases b <;> simp [XT.text, sepText, innerOf, innerStates] <;> and_intros <;>
      rx_eval [matchHere, Gen.aliquot_intervener_remover_regex]

theorem iv_start_sep (b : Bool) (prev : Option Char) (rest : Str) (pos : Nat) (adv : Bool) :
    matchHere Gen.aliquot_intervener_remover_regex ⟨prev, sepText b ++ rest, pos, []⟩ adv = none := by
  cases b <;> rx_eval [matchHere, Gen.aliquot_intervener_remover_regex, sepText]

theorem iv_body_sep (b : Bool) (prev : Option Char) (rest : Str) (pos : Nat) (caps : List (Nat × Nat × Nat))
    (k : St → Option Match) : ivBody.m ⟨prev, sepText b ++ rest, pos, caps⟩ k = none := by
  cases b <;> rx_eval [ivBody, Gen.aliquot_intervener_remover_regex, sepText]

/-- the text after a run that no joiner follows: the end, or a separator -/
def EndsRun (T : Str) : Prop := T = [] ∨ ∃ b rest, T = sepText b ++ rest

theorem iv_tail_fail (suf : List Comp) (T : Str) (hT : EndsRun T) (p : Option Char) (q : Nat) (caps : List (Nat × Nat × Nat))
    (k : St → Option Match) : ivTail.m ⟨p, chainText suf ++ T, q, caps⟩ k = none := by
  cases suf with
  | nil =>
    rcases hT with rfl | ⟨b, rest, rfl⟩
    · rx_eval [ivTail, Gen.aliquot_intervener_remover_regex, chainText]
    · cases b <;> rx_eval [ivTail, Gen.aliquot_intervener_remover_regex, chainText, sepText]
  | cons c cs =>
    rw [C02_chainText_cons, List.append_assoc]
    cases c <;> rx_eval [ivTail, Gen.aliquot_intervener_remover_regex]

theorem iv_loop_fail (K : St → Option Match) (T : Str)
    (hT : ∀ p q caps (k : St → Option Match), ivBody.m ⟨p, T, q, caps⟩ k = none)
    (hK : ∀ (suf : List Comp) p q caps, K ⟨p, chainText suf ++ T, q, caps⟩ = none) :
    ∀ (fuel : Nat) (run : List Comp) (count : Nat) (last : Option Nat) (prev : Option Char) (pos : Nat)
      (caps : List (Nat × Nat × Nat)),
      repLoop ivBody.m 1 none fuel count last ⟨prev, chainText run ++ T, pos, caps⟩ K = none := by
  intro fuel
  induction fuel with
  | zero => intro run count last prev pos caps; rfl
  | succ n ih =>
    intro run count last prev pos caps
    have hbody : ∀ (l : Option Nat) (cnt : Nat),
        ivBody.m ⟨prev, chainText run ++ T, pos, caps⟩ (fun s' => repLoop ivBody.m 1 none n cnt l s' K) = none := by
      intro l cnt
      cases run with
      | nil => exact hT _ _ _ _
      | cons c cs =>
        rw [C02_chainText_cons, List.append_assoc]
        obtain ⟨caps', hc⟩ := iv_body_comp c prev (chainText cs ++ T) pos caps
          (fun s' => repLoop ivBody.m 1 none n cnt l s' K)
        rw [hc]
        exact ih cs cnt l _ _ caps'
    rw [repLoop_succ]
    split
    · exact hbody _ _
    · split
      · rw [hbody, hK]; rfl
      · exact hK _ _ _ _

/-- no match at the beginning of a run that is followed by the end of the text or by a separator -/
theorem iv_miss_run (run : List Comp) (T : Str) (hT : EndsRun T) (prev : Option Char) (pos : Nat) (adv : Bool) :
    matchHere ivRx ⟨prev, chainText run ++ T, pos, []⟩ adv = none := by
  unfold matchHere
  rw [ivRx, iv_shape, m_seq, m_grp, m_rep]
  apply iv_loop_fail
  · intro p q caps k
    rcases hT with rfl | ⟨b, rest, rfl⟩
    · exact iv_body_nil _ _ _ _
    · exact iv_body_sep b _ _ _ _ _
  · intro suf p q caps
    exact iv_tail_fail suf T hT _ _ _ _

def passAuxX : Bool → List XItem → List XItem
  | _, [] => []
  | false, x :: L => x :: passAuxX true L
  | true, (.none, c) :: L => (.none, c) :: passAuxX true L
  | true, (.jn _, c) :: L => (.none, c) :: passAuxX false L
  | true, (.sep b, c) :: L => (.sep b, c) :: passAuxX true L

theorem xitemsText_append (A B : List XItem) : xitemsText (A ++ B) = xitemsText A ++ xitemsText B := by
  simp [xitemsText, textOf]

theorem xitemsText_cons (x : XItem) (L : List XItem) : xitemsText (x :: L) = x.text ++ xitemsText L := textOf_cons _ _ _

theorem xitemsText_none (L : List XItem) (h : ∀ x ∈ L, x.1 = .none) : xitemsText L = chainText (L.map Prod.snd) := by
  induction L with
  | nil => rfl
  | cons x L ih =>
    obtain ⟨o, c⟩ := x
    have : o = .none := h (o, c) (by simp)
    subst this
    rw [xitemsText_cons, List.map_cons, C02_chainText_cons, ih (fun y hy => h y (by simp [hy]))]
    rfl

/-- the items up to the first lead that is not `none` -/
theorem xitems_split (L : List XItem) :
    (∀ x ∈ L, x.1 = .none) ∨ ∃ R ld c L', L = R ++ (ld, c) :: L' ∧ ld ≠ .none ∧ ∀ x ∈ R, x.1 = .none := by
  induction L with
  | nil => left; simp
  | cons x L ih =>
    obtain ⟨o, c0⟩ := x
    by_cases ho : o = .none
    · subst ho
      rcases ih with h | ⟨R, ld, c, L', rfl, hld, hR⟩
      · left; intro y hy; simp at hy; rcases hy with rfl | hy; rfl; exact h y hy
      · right
        refine ⟨(.none, c0) :: R, ld, c, L', rfl, hld, ?_⟩
        intro y hy; simp at hy; rcases hy with rfl | hy; rfl; exact hR y hy
    · right; exact ⟨[], o, c0, L, rfl, ho, by simp⟩

theorem passAuxX_none (b : Bool) (L : List XItem) (h : ∀ x ∈ L, x.1 = .none) : passAuxX b L = L := by
  induction L generalizing b with
  | nil => cases b <;> rfl
  | cons x L ih =>
    obtain ⟨o, c⟩ := x
    have : o = .none := h (o, c) (by simp)
    subst this
    cases b <;> simp [passAuxX, ih _ (fun y hy => h y (by simp [hy]))]

theorem passAuxX_run_jn (R : List XItem) (h : ∀ x ∈ R, x.1 = .none) (j : Jn) (c : Comp) (L : List XItem) :
    passAuxX true (R ++ (.jn j, c) :: L) = R ++ (.none, c) :: passAuxX false L := by
  induction R with
  | nil => rfl
  | cons x R ih =>
    obtain ⟨o, c0⟩ := x
    have : o = .none := h (o, c0) (by simp)
    subst this
    simp [passAuxX, ih (fun y hy => h y (by simp [hy]))]

theorem passAuxX_run_sep (bb : Bool) (R : List XItem) (h : ∀ x ∈ R, x.1 = .none) (b : Bool) (c : Comp) (L : List XItem) :
    passAuxX bb (R ++ (.sep b, c) :: L) = R ++ (.sep b, c) :: passAuxX true L := by
  induction R generalizing bb with
  | nil => cases bb <;> rfl
  | cons x R ih =>
    obtain ⟨o, c0⟩ := x
    have : o = .none := h (o, c0) (by simp)
    subst this
    cases bb <;> simp [passAuxX, ih _ (fun y hy => h y (by simp [hy]))]

def GoItemX (L : List XItem) : Prop :=
  ∀ (fuel : Nat) (prev : Option Char) (pre : Str) (i : Nat) (acc : Str), i ≤ pre.length → L.length < fuel →
    Rx.subWith.go (pre ++ xitemsText L) (ivF (pre ++ xitemsText L))
        (finditerAux ivRx fuel prev (xitemsText L) pre.length false) i acc =
      acc ++ slice (pre ++ xitemsText L) i pre.length ++ xitemsText (passAuxX false L)

def GoCompX (c : Comp) (L : List XItem) : Prop :=
  ∀ (fuel : Nat) (prev : Option Char) (pre : Str) (i : Nat) (acc : Str), i ≤ pre.length → L.length + 1 < fuel →
    Rx.subWith.go (pre ++ (compText c ++ xitemsText L)) (ivF (pre ++ (compText c ++ xitemsText L)))
        (finditerAux ivRx fuel prev (compText c ++ xitemsText L) pre.length false) i acc =
      acc ++ slice (pre ++ (compText c ++ xitemsText L)) i pre.length ++ (compText c ++ xitemsText (passAuxX true L))

theorem goCompX_of (c : Comp) (L : List XItem) (ih : ∀ L' : List XItem, L'.length ≤ L.length → GoItemX L') : GoCompX c L := by
  intro fuel prev pre i acc hi hf
  -- the two situations without a match at `c`
  have hmiss : ∀ (T : Str) (R : List XItem), (∀ x ∈ R, x.1 = .none) → EndsRun T → xitemsText L = xitemsText R ++ T →
      passAuxX true L = passAuxX false L →
      Rx.subWith.go (pre ++ (compText c ++ xitemsText L)) (ivF (pre ++ (compText c ++ xitemsText L)))
        (finditerAux ivRx fuel prev (compText c ++ xitemsText L) pre.length false) i acc =
      acc ++ slice (pre ++ (compText c ++ xitemsText L)) i pre.length ++ (compText c ++ xitemsText (passAuxX true L)) := by
    intro T R hR hT hL hpass
    have hm : matchHere ivRx ⟨prev, compText c ++ xitemsText L, pre.length, []⟩ false = none := by
      rw [hL, xitemsText_none R hR, ← List.append_assoc, ← C02_chainText_cons]
      exact iv_miss_run _ T hT _ _ _
    have hsc := scan_tokG XT.text ivRx iv_innerX XT.text_ne_nil (.cp c) (xitemsText L) prev pre.length false
    rw [show XT.text (.cp c) = compText c from rfl, hm] at hsc
    simp only [] at hsc
    rw [finditerAux_skip ivRx (compText c) (xitemsText L) prev pre.length false fuel hsc]
    have hlen : pre.length + (compText c).length = (pre ++ compText c).length := by simp
    have htxt : pre ++ (compText c ++ xitemsText L) = (pre ++ compText c) ++ xitemsText L := by simp
    rw [hlen, htxt, ih L (Nat.le_refl _) fuel _ (pre ++ compText c) i acc (by rw [← hlen]; omega) (by omega)]
    rw [← htxt, ← hlen, slice_extend pre (compText c) (xitemsText L) i hi, hpass]
    simp
  rcases xitems_split L with hnone | ⟨R, ld, c', L', rfl, hld, hR⟩
  · exact hmiss [] L hnone (Or.inl rfl) (by simp) (by rw [passAuxX_none _ L hnone, passAuxX_none _ L hnone])
  · cases ld with
    | none => exact absurd rfl hld
    | sep b =>
      refine hmiss (sepText b ++ (compText c' ++ xitemsText L')) R hR (Or.inr ⟨b, _, rfl⟩) ?_ ?_
      · rw [xitemsText_append, xitemsText_cons]; simp [XItem.text, Lead.text]
      · rw [passAuxX_run_sep true R hR, passAuxX_run_sep false R hR]
    | jn j =>
      obtain ⟨n, rfl⟩ : ∃ n, fuel = n + 1 := ⟨fuel - 1, by omega⟩
      have htext : compText c ++ xitemsText (R ++ (.jn j, c') :: L') =
          chainText (c :: R.map Prod.snd) ++ (j.text ++ (compText c' ++ xitemsText L')) := by
        rw [xitemsText_append, xitemsText_cons, xitemsText_none R hR, C02_chainText_cons]
        simp [XItem.text, Lead.text]
      obtain ⟨caps, hm, h10, h1⟩ := iv_hit (c :: R.map Prod.snd) (by simp) j c' (xitemsText L') prev pre.length
      rw [passAuxX_run_jn R hR, htext]
      generalize hrun : chainText (c :: R.map Prod.snd) = run at hm h10 h1
      rw [finditerAux, scan_hit _ _ _ _ _ _ hm]
      simp only []
      have e : pre.length + run.length + j.text.length + (compText c').length - pre.length =
          (run ++ (j.text ++ compText c')).length + 0 := by simp only [List.length_append]; omega
      have e2 : run ++ (j.text ++ (compText c' ++ xitemsText L')) = (run ++ (j.text ++ compText c')) ++ xitemsText L' := by
        simp
      rw [e, e2, advance_append]
      simp only [advance]
      rw [Rx.subWith.go]
      simp only []
      have hne : (pre.length + run.length + j.text.length + (compText c').length == pre.length) = false := by
        have : 0 < (compText c').length := by cases c' <;> simp [compText, Comp.str, Comp.isHalf]
        simp only [beq_eq_false_iff_ne, ne_eq]; omega
      rw [hne, ivF_eval _ _ _ _ _ _ h1 h10]
      have hlen : pre.length + run.length + j.text.length + (compText c').length =
          (pre ++ (run ++ (j.text ++ compText c'))).length := by simp only [List.length_append]; omega
      have htxt : pre ++ ((run ++ (j.text ++ compText c')) ++ xitemsText L') =
          (pre ++ (run ++ (j.text ++ compText c'))) ++ xitemsText L' := by simp
      have hs1 : slice (pre ++ ((run ++ (j.text ++ compText c')) ++ xitemsText L')) pre.length (pre.length + run.length) = run := by
        have := slice_mid' pre run (j.text ++ (compText c' ++ xitemsText L'))
        simpa using this
      have hs2 : slice (pre ++ ((run ++ (j.text ++ compText c')) ++ xitemsText L')) (pre.length + run.length + j.text.length)
          (pre.length + run.length + j.text.length + (compText c').length) = compText c' := by
        have := slice_mid' (pre ++ (run ++ j.text)) (compText c') (xitemsText L')
        simpa [Nat.add_assoc] using this
      rw [hs1, hs2, hlen, htxt, ih L' (by simp; omega) n _ (pre ++ (run ++ (j.text ++ compText c'))) _ _ (Nat.le_refl _)
        (by simp at hf; omega)]
      rw [slice_all, ← hrun, xitemsText_append, xitemsText_cons, xitemsText_none R hR, C02_chainText_cons]
      simp [XItem.text, Lead.text]

theorem goItemX_all : ∀ (n : Nat) (L : List XItem), L.length ≤ n → GoItemX L := by
  intro n
  induction n with
  | zero =>
    intro L hL
    have : L = [] := List.length_eq_zero_iff.mp (by omega)
    subst this
    intro fuel prev pre i acc hi hf
    obtain ⟨n, rfl⟩ : ∃ n, fuel = n + 1 := ⟨fuel - 1, by simp at hf; omega⟩
    have : scan ivRx prev (xitemsText []) pre.length false = none := by
      show scan ivRx prev [] pre.length false = none
      rw [scan_nil]; exact iv_nil _ _ _
    rw [finditerAux_none _ _ _ _ _ _ this]
    show acc ++ (pre ++ []).drop i = acc ++ slice (pre ++ []) i pre.length ++ []
    rw [slice_all]; simp
  | succ n ih =>
    intro L hL
    cases L with
    | nil => exact ih [] (by simp)
    | cons x L =>
      obtain ⟨o, c⟩ := x
      have hc : GoCompX c L := goCompX_of c L (fun L' h' => ih L' (by simp at hL; omega))
      intro fuel prev pre i acc hi hf
      have hskip : ∀ (tok : XT) (ld : Lead), ld.text = XT.text tok →
          matchHere ivRx ⟨prev, XT.text tok ++ (compText c ++ xitemsText L), pre.length, []⟩ false = none →
          Rx.subWith.go (pre ++ xitemsText ((ld, c) :: L)) (ivF (pre ++ xitemsText ((ld, c) :: L)))
            (finditerAux ivRx fuel prev (xitemsText ((ld, c) :: L)) pre.length false) i acc =
          acc ++ slice (pre ++ xitemsText ((ld, c) :: L)) i pre.length ++ xitemsText (passAuxX false ((ld, c) :: L)) := by
        intro tok ld hld hm
        have hsc := scan_tokG XT.text ivRx iv_innerX XT.text_ne_nil tok (compText c ++ xitemsText L) prev pre.length false
        rw [hm] at hsc
        simp only [] at hsc
        have e : xitemsText ((ld, c) :: L) = XT.text tok ++ (compText c ++ xitemsText L) := by
          simp [xitemsText_cons, XItem.text, hld]
        rw [e, finditerAux_skip ivRx (XT.text tok) (compText c ++ xitemsText L) prev pre.length false fuel hsc]
        have hlen : pre.length + (XT.text tok).length = (pre ++ XT.text tok).length := by simp
        have htxt : pre ++ (XT.text tok ++ (compText c ++ xitemsText L)) = (pre ++ XT.text tok) ++ (compText c ++ xitemsText L) := by simp
        rw [hlen, htxt, hc fuel _ (pre ++ XT.text tok) i acc (by rw [← hlen]; omega) (by simpa using hf)]
        rw [← htxt, ← hlen, slice_extend pre (XT.text tok) (compText c ++ xitemsText L) i hi]
        simp [passAuxX, xitemsText_cons, XItem.text, hld]
      cases o with
      | none =>
        have := hc fuel prev pre i acc hi (by simpa using hf)
        simpa [xitemsText_cons, XItem.text, Lead.text, passAuxX] using this
      | jn j => exact hskip (.jn j) (.jn j) rfl (iv_start_jn j _ _ _ _)
      | sep b => exact hskip (.sep b) (.sep b) rfl (iv_start_sep b _ _ _ _)

/-- **one pass** of `remove_aliquot_interveners` over canonical chains with joiners and separators -/
theorem intervenerStep_xitems (L : List XItem) : intervenerStep (xitemsText L) = xitemsText (passAuxX false L) := by
  rw [intervenerStep_eq]
  show Rx.subWith.go (xitemsText L) _ (ivRx.finditer (xitemsText L)) 0 [] = _
  rw [finditer_default]
  have hl : L.length ≤ (xitemsText L).length := textOf_length XItem.text (by
    intro x; obtain ⟨o, c⟩ := x; cases c <;> simp [XItem.text, compText, Comp.str, Comp.isHalf]) L
  have := goItemX_all L.length L (Nat.le_refl _) (2 * (xitemsText L).length + 2) none [] 0 [] (Nat.le_refl _) (by omega)
  simpa [slice] using this

def Lead.isJn : Lead → Bool
  | .jn _ => true
  | _ => false

def joinersOfX (L : List XItem) : Nat := (L.filter (fun x => x.1.isJn)).length

/-- the same item without its joiner -/
def XItem.strip (x : XItem) : XItem := (match x.1 with | .jn _ => .none | l => l, x.2)

theorem joinersOfX_cons (x : XItem) (L : List XItem) :
    joinersOfX (x :: L) = (if x.1.isJn then 1 else 0) + joinersOfX L := by
  simp only [joinersOfX, List.filter_cons]
  split <;> simp <;> omega

theorem strip_of_zero (L : List XItem) (h : joinersOfX L = 0) : L.map XItem.strip = L := by
  induction L with
  | nil => rfl
  | cons x L ih =>
    rw [joinersOfX_cons] at h
    obtain ⟨o, c⟩ := x
    cases o with
    | jn j => simp [Lead.isJn] at h
    | none => simp [XItem.strip, ih (by simpa [Lead.isJn] using h)]
    | sep b => simp [XItem.strip, ih (by simpa [Lead.isJn] using h)]

theorem passAuxX_zero (b : Bool) (L : List XItem) (h : joinersOfX L = 0) : passAuxX b L = L := by
  induction L generalizing b with
  | nil => cases b <;> rfl
  | cons x L ih =>
    rw [joinersOfX_cons] at h
    obtain ⟨o, c⟩ := x
    cases o with
    | jn j => simp [Lead.isJn] at h
    | none => cases b <;> simp [passAuxX, ih _ (by simpa [Lead.isJn] using h)]
    | sep bb => cases b <;> simp [passAuxX, ih _ (by simpa [Lead.isJn] using h)]

theorem passAuxX_le : ∀ (b : Bool) (L : List XItem), joinersOfX (passAuxX b L) ≤ joinersOfX L
  | _, [] => by cases ‹Bool› <;> simp [passAuxX]
  | false, x :: L => by
    have := passAuxX_le true L
    simp only [passAuxX, joinersOfX_cons]; omega
  | true, (.none, c) :: L => by
    have := passAuxX_le true L
    simp only [passAuxX, joinersOfX_cons]; omega
  | true, (.jn _, c) :: L => by
    have := passAuxX_le false L
    simp only [passAuxX, joinersOfX_cons]; simp [Lead.isJn]; omega
  | true, (.sep _, c) :: L => by
    have := passAuxX_le true L
    simp only [passAuxX, joinersOfX_cons]; omega

theorem passAuxX_lt : ∀ (L : List XItem), 0 < joinersOfX L → joinersOfX (passAuxX true L) < joinersOfX L
  | [], h => by simp [joinersOfX] at h
  | (.none, c) :: L, h => by
    rw [joinersOfX_cons] at h
    have := passAuxX_lt L (by simpa [Lead.isJn] using h)
    simp only [passAuxX, joinersOfX_cons]; omega
  | (.sep _, c) :: L, h => by
    rw [joinersOfX_cons] at h
    have := passAuxX_lt L (by simpa [Lead.isJn] using h)
    simp only [passAuxX, joinersOfX_cons]; omega
  | (.jn _, c) :: L, h => by
    have := passAuxX_le false L
    simp only [passAuxX, joinersOfX_cons]; simp [Lead.isJn]; omega

theorem passAuxX_strip : ∀ (b : Bool) (L : List XItem), (passAuxX b L).map XItem.strip = L.map XItem.strip
  | _, [] => by cases ‹Bool› <;> rfl
  | false, x :: L => by simp [passAuxX, passAuxX_strip true L]
  | true, (.none, c) :: L => by simp [passAuxX, passAuxX_strip true L]
  | true, (.sep _, c) :: L => by simp [passAuxX, passAuxX_strip true L]
  | true, (.jn _, c) :: L => by simp [passAuxX, passAuxX_strip false L, XItem.strip]

theorem xitemsText_len_le : ∀ (b : Bool) (L : List XItem), (xitemsText (passAuxX b L)).length ≤ (xitemsText L).length
  | _, [] => by cases ‹Bool› <;> simp [passAuxX]
  | false, x :: L => by
    have := xitemsText_len_le true L
    simp only [passAuxX, xitemsText_cons, List.length_append]; omega
  | true, (.none, c) :: L => by
    have := xitemsText_len_le true L
    simp only [passAuxX, xitemsText_cons, List.length_append]; omega
  | true, (.sep _, c) :: L => by
    have := xitemsText_len_le true L
    simp only [passAuxX, xitemsText_cons, List.length_append]; omega
  | true, (.jn j, c) :: L => by
    have := xitemsText_len_le false L
    simp only [passAuxX, xitemsText_cons, List.length_append, XItem.text, Lead.text]; simp; omega

theorem xitemsText_len_lt : ∀ (L : List XItem), 0 < joinersOfX L →
    (xitemsText (passAuxX true L)).length < (xitemsText L).length
  | [], h => by simp [joinersOfX] at h
  | (.none, c) :: L, h => by
    rw [joinersOfX_cons] at h
    have := xitemsText_len_lt L (by simpa [Lead.isJn] using h)
    simp only [passAuxX, xitemsText_cons, List.length_append]; omega
  | (.sep _, c) :: L, h => by
    rw [joinersOfX_cons] at h
    have := xitemsText_len_lt L (by simpa [Lead.isJn] using h)
    simp only [passAuxX, xitemsText_cons, List.length_append]; omega
  | (.jn j, c) :: L, h => by
    have := xitemsText_len_le false L
    have hj : 0 < j.text.length := by cases j <;> simp [Jn.text]
    simp only [passAuxX, xitemsText_cons, List.length_append, XItem.text, Lead.text]; simp; omega

theorem joinersOfX_le_len (L : List XItem) : joinersOfX L ≤ (xitemsText L).length := by
  induction L with
  | nil => simp [joinersOfX]
  | cons x L ih =>
    obtain ⟨o, c⟩ := x
    rw [joinersOfX_cons, xitemsText_cons, List.length_append]
    have : 0 < (compText c).length := by cases c <;> simp [compText, Comp.str, Comp.isHalf]
    have : (compText c).length ≤ (XItem.text (o, c)).length := by simp [XItem.text]
    split <;> omega

/-- the until-stable loop of `remove_aliquot_interveners` on chains with joiners and separators (the text begins with a
    component or a separator-free lead): all joiners disappear, the separators stay -/
theorem iv_stableX : ∀ (n : Nat) (L : List XItem), joinersOfX L ≤ n → ∀ (x : XItem) (fuel : Nat), x.1.isJn = false → n < fuel →
    untilStable intervenerStep fuel (xitemsText (x :: L)) = some (xitemsText (x :: L.map XItem.strip)) := by
  intro n
  induction n with
  | zero =>
    intro L hL x fuel hx hf
    obtain ⟨f, rfl⟩ : ∃ f, fuel = f + 1 := ⟨fuel - 1, by omega⟩
    have h0 : joinersOfX (x :: L) = 0 := by rw [joinersOfX_cons, hx]; simp; omega
    have hfix : intervenerStep (xitemsText (x :: L)) = xitemsText (x :: L) := by
      rw [intervenerStep_xitems, passAuxX_zero _ _ h0]
    rw [untilStable_of_fixed _ _ _ hfix, strip_of_zero L (by omega)]
  | succ n ih =>
    intro L hL x fuel hx hf
    by_cases h0 : joinersOfX L = 0
    · obtain ⟨f, rfl⟩ : ∃ f, fuel = f + 1 := ⟨fuel - 1, by omega⟩
      have h0' : joinersOfX (x :: L) = 0 := by rw [joinersOfX_cons, hx]; simp; omega
      have hfix : intervenerStep (xitemsText (x :: L)) = xitemsText (x :: L) := by
        rw [intervenerStep_xitems, passAuxX_zero _ _ h0']
      rw [untilStable_of_fixed _ _ _ hfix, strip_of_zero L h0]
    · obtain ⟨f, rfl⟩ : ∃ f, fuel = f + 1 := ⟨fuel - 1, by omega⟩
      have hpos : 0 < joinersOfX L := by omega
      have hstep : intervenerStep (xitemsText (x :: L)) = xitemsText (x :: passAuxX true L) := by
        rw [intervenerStep_xitems]; rfl
      have hne : (intervenerStep (xitemsText (x :: L)) == xitemsText (x :: L)) = false := by
        rw [hstep, beq_eq_false_iff_ne]
        intro h
        have h' := congrArg List.length h
        have := xitemsText_len_lt L hpos
        simp only [xitemsText_cons, List.length_append] at h'
        omega
      rw [untilStable]
      simp only [hne]
      rw [hstep]
      have := ih (passAuxX true L) (by have := passAuxX_lt L hpos; omega) x f hx (by omega)
      rw [this, passAuxX_strip]
      simp

/-! the twelve spelling / `clean_qq` patterns and `half_plus_q_regex` on texts with joiners and separators -/

def xtext (l : List XT) : Str := textOf XT.text l

/-- a joiner is followed by a component -/
def XV : List XT → Prop
  | [] => True
  | .jn _ :: l => (∃ c l', l = .cp c :: l') ∧ XV l
  | _ :: l => XV l

theorem XV_tail (tok : XT) (toks : List XT) (h : XV (tok :: toks)) : XV toks := by
  cases tok with
  | cp c => exact h
  | jn j => exact h.2
  | sep b => exact h

theorem innerX_of (r : Rx) (h1 : InnerFail r)
    (h2 : ∀ (j : Jn) (rest : Str) (pos : Nat), ∀ ps ∈ innerOf j.text, matchHere r ⟨ps.1, ps.2 ++ rest, pos, []⟩ false = none) :
    InnerFailG XT.text r := by
  intro tok rest pos
  cases tok with
  | cp c => exact innerFail_bridge r h1 (.comp c) rest pos
  | jn j => exact h2 j rest pos
  | sep b =>
    cases b
    · exact innerFail_bridge r h1 .semi rest pos
    · exact innerFail_bridge r h1 .comma rest pos

theorem okPrev_lastX (p : Option Char) (tok : XT) : OkPrev (lastOr p tok.text) := by
  cases tok with
  | cp c => cases c <;> simp [XT.text, compText, Comp.str, Comp.isHalf, lastOr, OkPrev]
  | jn j => cases j <;> simp [XT.text, Jn.text, lastOr, OkPrev]
  | sep b => cases b <;> simp [XT.text, sepText, lastOr, OkPrev]

theorem okRestX (toks : List XT) : OkRest (xtext toks) ∨ OkRestW (xtext toks) := by
  cases toks with
  | nil => exact Or.inl (Or.inl rfl)
  | cons tok toks =>
    rw [xtext, textOf_cons]
    cases tok with
    | cp c => left; right; cases c <;> simp [XT.text, compText, Comp.str, Comp.isHalf]
    | jn j => right; right; cases j <;> simp [XT.text, Jn.text]
    | sep b => left; right; cases b <;> simp [XT.text, sepText]

theorem LA_passX {R : Type} (p : Option Char) (toks : List XT) (pos : Nat) (caps : List (Nat × Nat × Nat))
    (k : St → Option R) : LA.m ⟨p, xtext toks, pos, caps⟩ k = k ⟨p, xtext toks, pos, (12, pos, pos) :: caps⟩ := by
  rcases okRestX toks with h | h
  · exact LA_pass _ _ _ _ _ h
  · exact LA_passW _ _ _ _ _ h

/-- the behaviour of a spelling pattern at the beginning of a token of a text with joiners and separators -/
theorem startStep_familyX (X : Rx) (c : Comp)
    (hshape : X = .seq (LBof Gen.cs_76a08037) (.seq (coreOf X) LA))
    (hhit : ∀ (prev : Option Char) (rest : Str) (pos : Nat) (caps : List (Nat × Nat × Nat)) (k : St → Option Match),
      ∃ caps', (coreOf X).m ⟨prev, compText c ++ rest, pos, caps⟩ k =
        k ⟨lastOr prev (compText c), rest, pos + (compText c).length, caps'⟩)
    (hmiss : ∀ (tok : Tok), tok ≠ .comp c → ∀ (prev : Option Char) (rest : Str) (pos : Nat) (caps : List (Nat × Nat × Nat))
      (k : St → Option Match), (coreOf X).m ⟨prev, tok.text ++ rest, pos, caps⟩ k = none)
    (hmissJ : ∀ (j : Jn) (prev : Option Char) (rest : Str) (pos : Nat)
      (caps : List (Nat × Nat × Nat)) (k : St → Option Match),
      (coreOf X).m ⟨prev, j.text ++ rest, pos, caps⟩ k = none) :
    StartStepG XT.text XT.text OkPrev X (fun _ => compText c) := by
  generalize coreOf X = core at hshape hhit hmiss hmissJ
  subst hshape
  intro tok toks prev pos adv hp
  have hmiss' : ∀ text : Str, (∀ (caps : List (Nat × Nat × Nat)) (k : St → Option Match),
      core.m ⟨prev, text ++ textOf XT.text toks, pos, caps⟩ k = none) →
      matchHere (.seq (LBof Gen.cs_76a08037) (.seq core LA)) ⟨prev, text ++ textOf XT.text toks, pos, []⟩ adv = none := by
    intro text h
    unfold matchHere
    simp only [m_seq]
    apply LB_none
    intro caps'
    exact h caps' _
  cases tok with
  | cp c' =>
    by_cases hc : c' = c
    · subst hc
      left
      obtain ⟨ch, t, hct, hw⟩ := comp_head_word c'
      unfold matchHere
      simp only [m_seq]
      show ∃ caps, (LBof Gen.cs_76a08037).m ⟨prev, compText c' ++ textOf XT.text toks, pos, []⟩ _ = _ ∧ _
      rw [hct, List.cons_append, LB_pass Gen.cs_76a08037 prev ch _ pos [] _ (okPrev_LB35 prev hp) hw, ← List.cons_append, ← hct]
      obtain ⟨caps', hc⟩ := hhit prev (textOf XT.text toks) pos [(1, pos, pos)]
        (fun s' => LA.m s' (fun s' => if (adv && s'.pos == pos) = true then none else some ⟨pos, s'.pos, s'.caps⟩))
      refine ⟨(12, pos + (compText c').length, pos + (compText c').length) :: caps', ?_, rfl⟩
      rw [hc, ← xtext, LA_passX]
      have hl := C02_compText_length c'
      have : (pos + (compText c').length == pos) = false := by
        simp only [beq_eq_false_iff_ne, ne_eq]; omega
      simp [this, XT.text]
    · right
      exact ⟨hmiss' _ (fun caps k => hmiss (.comp c') (by simpa using hc) prev _ pos caps k), rfl⟩
  | jn j => right; exact ⟨hmiss' _ (fun caps k => hmissJ j prev _ pos caps k), rfl⟩
  | sep b =>
    right
    cases b
    · exact ⟨hmiss' _ (fun caps k => hmiss .semi (by simp) prev _ pos caps k), rfl⟩
    · exact ⟨hmiss' _ (fun caps k => hmiss .comma (by simp) prev _ pos caps k), rfl⟩

theorem spell_passX (name : String) (X : Rx) (c : Comp) (hstep : ∀ t, scrubStep name t = X.subWith t (fun _ => compText c))
    (hshape : X = .seq (LBof Gen.cs_76a08037) (.seq (coreOf X) LA))
    (hhit : ∀ (prev : Option Char) (rest : Str) (pos : Nat) (caps : List (Nat × Nat × Nat)) (k : St → Option Match),
      ∃ caps', (coreOf X).m ⟨prev, compText c ++ rest, pos, caps⟩ k =
        k ⟨lastOr prev (compText c), rest, pos + (compText c).length, caps'⟩)
    (hmiss : ∀ (tok : Tok), tok ≠ .comp c → ∀ (prev : Option Char) (rest : Str) (pos : Nat) (caps : List (Nat × Nat × Nat))
      (k : St → Option Match), (coreOf X).m ⟨prev, tok.text ++ rest, pos, caps⟩ k = none)
    (hmissJ : ∀ (j : Jn) (prev : Option Char) (rest : Str) (pos : Nat)
      (caps : List (Nat × Nat × Nat)) (k : St → Option Match),
      (coreOf X).m ⟨prev, j.text ++ rest, pos, caps⟩ k = none)
    (hin : InnerFail X) (hinW : InnerFailG WTok.text X)
    (hnil : ∀ prev pos adv, matchHere X ⟨prev, [], pos, []⟩ adv = none) (toks : List XT) :
    scrubStep name (xtext toks) = xtext toks := by
  rw [hstep]
  exact subWithG XT.text XT.text OkPrev X _ (innerX_of X hin (fun j rest pos => hinW (.jn j) rest pos)) XT.text_ne_nil
    okPrev_lastX (Or.inl rfl) (startStep_familyX X c hshape hhit hmiss hmissJ) hnil toks

theorem scrubStep_spellX (name : String) (hn : name ∈ Gen.QQ_SCRUBBER_REGEXES) (toks : List XT) :
    scrubStep name (xtext toks) = xtext toks := by
  simp only [Gen.QQ_SCRUBBER_REGEXES, List.mem_cons, List.not_mem_nil, or_false] at hn
  rcases hn with rfl | rfl | rfl | rfl | rfl | rfl | rfl | rfl
  · exact spell_passX "ne_regex" Gen.ne_regex .NE (fun _ => rfl) ne_shape ne_hit ne_miss ne_missJ ne_inner ne_innerW ne_nil toks
  · exact spell_passX "nw_regex" Gen.nw_regex .NW (fun _ => rfl) nw_shape nw_hit nw_miss nw_missJ nw_inner nw_innerW nw_nil toks
  · exact spell_passX "se_regex" Gen.se_regex .SE (fun _ => rfl) se_shape se_hit se_miss se_missJ se_inner se_innerW se_nil toks
  · exact spell_passX "sw_regex" Gen.sw_regex .SW (fun _ => rfl) sw_shape sw_hit sw_miss sw_missJ sw_inner sw_innerW sw_nil toks
  · exact spell_passX "n2_regex" Gen.n2_regex .N (fun _ => rfl) n2_shape n2_hit n2_miss n2_missJ n2_inner n2_innerW n2_nil toks
  · exact spell_passX "s2_regex" Gen.s2_regex .S (fun _ => rfl) s2_shape s2_hit s2_miss s2_missJ s2_inner s2_innerW s2_nil toks
  · exact spell_passX "e2_regex" Gen.e2_regex .E (fun _ => rfl) e2_shape e2_hit e2_miss e2_missJ e2_inner e2_innerW e2_nil toks
  · exact spell_passX "w2_regex" Gen.w2_regex .W (fun _ => rfl) w2_shape w2_hit w2_miss w2_missJ w2_inner w2_innerW w2_nil toks

theorem nec_startX : StartStepG XT.text XT.text (fun _ => True) Gen.ne_clean (fun _ => compText .NE) := by
  intro tok toks prev pos adv _
  have h3 : ¬ (pos + 1 + 1 + 1 = pos) := by omega
  by_cases htok : tok = .cp .NE
  · subst htok
    left
    refine ⟨?_, ?_, rfl⟩
    rotate_left
    · rx_eval [matchHere, Gen.ne_clean, h3, XT.text]
      rfl
  · right
    refine ⟨?_, rfl⟩
    cases tok with
    | cp c => cases c <;> first | exact absurd rfl htok | rx_eval [matchHere, Gen.ne_clean, XT.text]
    | jn j => cases j <;> rx_eval [matchHere, Gen.ne_clean, XT.text, Jn.text]
    | sep b => cases b <;> rx_eval [matchHere, Gen.ne_clean, XT.text, sepText]

theorem nec_passX (toks : List XT) : scrubStep "ne_clean" (xtext toks) = xtext toks :=
  subWithG XT.text XT.text (fun _ => True) Gen.ne_clean _ (innerX_of _ nec_inner (fun j rest pos => nec_innerJ (.jn j) rest pos))
    XT.text_ne_nil (fun _ _ => trivial) trivial nec_startX nec_nil toks

theorem nwc_startX : StartStepG XT.text XT.text (fun _ => True) Gen.nw_clean (fun _ => compText .NW) := by
  intro tok toks prev pos adv _
  have h3 : ¬ (pos + 1 + 1 + 1 = pos) := by omega
  by_cases htok : tok = .cp .NW
  · subst htok
    left
    refine ⟨?_, ?_, rfl⟩
    rotate_left
    · rx_eval [matchHere, Gen.nw_clean, h3, XT.text]
      rfl
  · right
    refine ⟨?_, rfl⟩
    cases tok with
    | cp c => cases c <;> first | exact absurd rfl htok | rx_eval [matchHere, Gen.nw_clean, XT.text]
    | jn j => cases j <;> rx_eval [matchHere, Gen.nw_clean, XT.text, Jn.text]
    | sep b => cases b <;> rx_eval [matchHere, Gen.nw_clean, XT.text, sepText]

theorem nwc_passX (toks : List XT) : scrubStep "nw_clean" (xtext toks) = xtext toks :=
  subWithG XT.text XT.text (fun _ => True) Gen.nw_clean _ (innerX_of _ nwc_inner (fun j rest pos => nwc_innerJ (.jn j) rest pos))
    XT.text_ne_nil (fun _ _ => trivial) trivial nwc_startX nwc_nil toks

theorem sec_startX : StartStepG XT.text XT.text (fun _ => True) Gen.se_clean (fun _ => compText .SE) := by
  intro tok toks prev pos adv _
  have h3 : ¬ (pos + 1 + 1 + 1 = pos) := by omega
  by_cases htok : tok = .cp .SE
  · subst htok
    left
    refine ⟨?_, ?_, rfl⟩
    rotate_left
    · rx_eval [matchHere, Gen.se_clean, h3, XT.text]
      rfl
  · right
    refine ⟨?_, rfl⟩
    cases tok with
    | cp c => cases c <;> first | exact absurd rfl htok | rx_eval [matchHere, Gen.se_clean, XT.text]
    | jn j => cases j <;> rx_eval [matchHere, Gen.se_clean, XT.text, Jn.text]
    | sep b => cases b <;> rx_eval [matchHere, Gen.se_clean, XT.text, sepText]

theorem sec_passX (toks : List XT) : scrubStep "se_clean" (xtext toks) = xtext toks :=
  subWithG XT.text XT.text (fun _ => True) Gen.se_clean _ (innerX_of _ sec_inner (fun j rest pos => sec_innerJ (.jn j) rest pos))
    XT.text_ne_nil (fun _ _ => trivial) trivial sec_startX sec_nil toks

theorem swc_startX : StartStepG XT.text XT.text (fun _ => True) Gen.sw_clean (fun _ => compText .SW) := by
  intro tok toks prev pos adv _
  have h3 : ¬ (pos + 1 + 1 + 1 = pos) := by omega
  by_cases htok : tok = .cp .SW
  · subst htok
    left
    refine ⟨?_, ?_, rfl⟩
    rotate_left
    · rx_eval [matchHere, Gen.sw_clean, h3, XT.text]
      rfl
  · right
    refine ⟨?_, rfl⟩
    cases tok with
    | cp c => cases c <;> first | exact absurd rfl htok | rx_eval [matchHere, Gen.sw_clean, XT.text]
    | jn j => cases j <;> rx_eval [matchHere, Gen.sw_clean, XT.text, Jn.text]
    | sep b => cases b <;> rx_eval [matchHere, Gen.sw_clean, XT.text, sepText]

theorem swc_passX (toks : List XT) : scrubStep "sw_clean" (xtext toks) = xtext toks :=
  subWithG XT.text XT.text (fun _ => True) Gen.sw_clean _ (innerX_of _ swc_inner (fun j rest pos => swc_innerJ (.jn j) rest pos))
    XT.text_ne_nil (fun _ _ => trivial) trivial swc_startX swc_nil toks

theorem scrubStep_cleanX (name : String) (hn : name ∈ Gen.QQ_CLEAN_REGEXES) (toks : List XT) :
    scrubStep name (xtext toks) = xtext toks := by
  simp only [Gen.QQ_CLEAN_REGEXES, List.mem_cons, List.not_mem_nil, or_false] at hn
  rcases hn with rfl | rfl | rfl | rfl
  · exact nec_passX toks
  · exact nwc_passX toks
  · exact sec_passX toks
  · exact swc_passX toks

theorem hpq_rep_noneX (toks : List XT) (hv : XV toks) (prev : Option Char) (pos : Nat) (caps : List (Nat × Nat × Nat))
    (k : St → Option Match) :
    (tailOf (tailOf Gen.half_plus_q_regex)).m ⟨prev, xtext toks, pos, caps⟩ k = none := by
  cases toks with
  | nil => rx_eval [Gen.half_plus_q_regex, xtext, textOf]
  | cons tok' toks' =>
    cases tok' with
    | cp c' =>
      rw [xtext, textOf_cons]
      generalize textOf XT.text toks' = rest'
      cases c' <;> cases rest' <;> rx_eval [Gen.half_plus_q_regex, XT.text]
    | sep b =>
      rw [xtext, textOf_cons]
      cases b <;> rx_eval [Gen.half_plus_q_regex, XT.text, sepText]
    | jn j =>
      obtain ⟨⟨c', l', rfl⟩, _⟩ := hv
      rw [xtext, textOf_cons, textOf_cons]
      cases j
      · exact hpq_rep_none_blank _ _ _ _ _ _
      · exact hpq_rep_none_of _ _ _ _ _ _
      · exact hpq_rep_none_ofThe _ _ _ _ _ _

theorem hpq_startX (f : Match → Str) :
    StartStepV XT.text XT.text (fun _ l => XV l) Gen.half_plus_q_regex f := by
  intro tok toks prev pos adv hv
  right
  refine ⟨?_, rfl⟩
  unfold matchHere
  rw [hpq_shape, m_seq]
  apply LB_none
  intro caps'
  rw [m_seq]
  have hr := fun p q cp k => hpq_rep_noneX toks (XV_tail tok toks hv) p q cp k
  rw [xtext] at hr
  cases tok with
  | cp c =>
    cases c
    case N => rx_eval [Gen.half_plus_q_regex, XT.text]; exact hr _ _ _ _
    case S => rx_eval [Gen.half_plus_q_regex, XT.text]; exact hr _ _ _ _
    case E => rx_eval [Gen.half_plus_q_regex, XT.text]; exact hr _ _ _ _
    case W => rx_eval [Gen.half_plus_q_regex, XT.text]; exact hr _ _ _ _
    all_goals rx_eval [Gen.half_plus_q_regex, XT.text]
  | jn j => cases j <;> rx_eval [Gen.half_plus_q_regex, XT.text, Jn.text]
  | sep b => cases b <;> rx_eval [Gen.half_plus_q_regex, XT.text, sepText]

theorem hpq_passX (toks : List XT) (hv : XV toks) : halfPlusQStep (xtext toks) = xtext toks :=
  subWithV XT.text XT.text (fun _ l => XV l) Gen.half_plus_q_regex _
    (innerX_of _ hpq_inner (fun j rest pos => hpq_innerJ (.jn j) rest pos)) XT.text_ne_nil
    (fun _ tok toks h => XV_tail tok toks h) (hpq_startX _) hpq_nil toks hv

/-! the whole of `scrub_aliquots` -/

def Lead.toks : Lead → List XT
  | .none => []
  | .jn j => [.jn j]
  | .sep b => [.sep b]

def xitemsXT (L : List XItem) : List XT := L.flatMap (fun x => x.1.toks ++ [XT.cp x.2])

theorem xtext_items (L : List XItem) : xtext (xitemsXT L) = xitemsText L := by
  induction L with
  | nil => rfl
  | cons x L ih =>
    obtain ⟨o, c⟩ := x
    rw [xitemsText_cons, ← ih]
    cases o <;> simp [xitemsXT, Lead.toks, xtext, textOf, XItem.text, XT.text, Lead.text]

theorem XV_items (L : List XItem) : XV (xitemsXT L) := by
  induction L with
  | nil => trivial
  | cons x L ih =>
    obtain ⟨o, c⟩ := x
    cases o with
    | none => exact ih
    | jn j => exact ⟨⟨c, xitemsXT L, rfl⟩, ih⟩
    | sep b => exact ih

/-- **C07 (several chains)**: canonical components, each but the first preceded by nothing, a joiner (" ", " of ", " of the ")
    or a separator (", " / "; "): `scrub_aliquots` removes exactly the joiners and keeps the separators —
    "N½ of NE¼, SW¼ of the SE¼" ↦ "N½NE¼, SW¼SE¼" — any number of chains of any length, with and without `clean_qq` -/
theorem C07_canonical_joined_chains_collapse (c : Comp) (L : List XItem) (cleanQQ : Bool) :
    Tract.scrubAliquots (xitemsText ((.none, c) :: L)) cleanQQ = some (xitemsText ((.none, c) :: L.map XItem.strip)) := by
  generalize hL : ((.none, c) :: L : List XItem) = L1
  have h1 : scrubAll Gen.QQ_SCRUBBER_REGEXES (xitemsText L1) = some (xitemsText L1) :=
    scrubAll_fixed _ _ (fun n hn => by rw [← xtext_items]; exact scrubStep_spellX n hn _)
  have h2 : scrubAll Gen.QQ_CLEAN_REGEXES (xitemsText L1) = some (xitemsText L1) :=
    scrubAll_fixed _ _ (fun n hn => by rw [← xtext_items]; exact scrubStep_cleanX n hn _)
  have h3 : halfPlusQScrubber (xitemsText L1) = some (xitemsText L1) :=
    (halfPlusQScrubber_self_iff _).mpr (by rw [← xtext_items]; exact hpq_passX _ (XV_items L1))
  have h4 : removeAliquotInterveners (xitemsText L1) = some (xitemsText ((.none, c) :: L.map XItem.strip)) := by
    subst hL
    rw [removeAliquotInterveners_eq]
    exact iv_stableX (joinersOfX L) L (Nat.le_refl _) (.none, c) _ rfl (by
      have := joinersOfX_le_len L
      simp only [stableBudget, xitemsText_cons, List.length_append]; omega)
  unfold scrubAliquots
  cases cleanQQ <;> simp [h1, h2, h3, h4]

example : xitemsText [(.none, .N), (.jn .of_, .NE), (.sep true, .SW), (.jn .ofThe, .SE), (.none, .E), (.sep false, .S), (.jn .blank, .NW)] =
    "N½ of NE¼, SW¼ of the SE¼E½; S½ NW¼".toList := by decide
example : Tract.scrubAliquots "N½ of NE¼, SW¼ of the SE¼E½; S½ NW¼".toList false = some "N½NE¼, SW¼SE¼E½; S½NW¼".toList :=
  C07_canonical_joined_chains_collapse .N [(.jn .of_, .NE), (.sep true, .SW), (.jn .ofThe, .SE), (.none, .E), (.sep false, .S), (.jn .blank, .NW)] false

/-- the canonical tokens (`CanonFixed.Tok`) of a text without joiners -/
def XItem.ctoks (x : XItem) : List Tok :=
  (match x.1 with | .sep true => [Tok.comma] | .sep false => [Tok.semi] | _ => []) ++ [Tok.comp x.2]

theorem xitemsText_strip (L : List XItem) : xitemsText (L.map XItem.strip) = toksText (L.flatMap XItem.ctoks) := by
  induction L with
  | nil => rfl
  | cons x L ih =>
    obtain ⟨o, c⟩ := x
    rw [List.map_cons, xitemsText_cons, ih, List.flatMap_cons, toksText_append]
    congr 1
    cases o with
    | none => simp [XItem.strip, XItem.text, Lead.text, XItem.ctoks, toksText, Tok.text]
    | jn j => simp [XItem.strip, XItem.text, Lead.text, XItem.ctoks, toksText, Tok.text]
    | sep b => cases b <;> simp [XItem.strip, XItem.text, Lead.text, XItem.ctoks, toksText, Tok.text, sepText]

/-- **C07 (several chains, parse)**: the parser reads chains with joiners exactly like the canonical chains text -/
theorem C07_canonical_joined_chains_parse_eq (c : Comp) (L : List XItem) (a : ParseArgs) (inh : Flags) :
    tractParse (xitemsText ((.none, c) :: L)) a inh =
      tractParse (toksText (((.none, c) :: L : List XItem).flatMap XItem.ctoks)) a inh := by
  apply C07_canonical_tokens_parse_eq
  rw [C07_canonical_joined_chains_collapse, ← xitemsText_strip]
  rfl

example (a : ParseArgs) (inh : Flags) :
    tractParse "N½ of NE¼, SW¼ of the SE¼E½; S½ NW¼".toList a inh = tractParse "N½NE¼, SW¼SE¼E½; S½NW¼".toList a inh :=
  C07_canonical_joined_chains_parse_eq .N [(.jn .of_, .NE), (.sep true, .SW), (.jn .ofThe, .SE), (.none, .E), (.sep false, .S), (.jn .blank, .NW)] a inh


/-- the limits of the joiner alphabet (model = library, replayed): a doubled joiner, a doubled "the", a joiner with no
    component after it or before it are NOT removed — the intervener pattern wants component, ONE joiner, component -/
theorem C07_joiner_limits :
    Tract.scrubAliquots "N½ of of NE¼".toList false = some "N½ of of NE¼".toList ∧
    Tract.scrubAliquots "N½ of the the NE¼".toList false = some "N½ of the the NE¼".toList ∧
    Tract.scrubAliquots "N½ of the".toList false = some "N½ of the".toList ∧
    Tract.scrubAliquots "of the NE¼".toList false = some "of the NE¼".toList := by
  refine ⟨?_, ?_, ?_, ?_⟩ <;> decide +kernel

#print axioms C07_canonical_joined_collapses_items
#print axioms C07_canonical_joined_collapses
#print axioms C07_joined_spelling_normalised_proved
#print axioms C07_joined_spelling_parse_eq
#print axioms C07_joined_spelling_parse
#print axioms C07_case_insensitive
#print axioms C07_case_insensitive_components
#print axioms C07_case_insensitive_parse_eq
#print axioms C07_case_insensitive_parse
#print axioms C07_case_insensitive_stable
#print axioms C07_adjacent_words_not_normalised
#print axioms C07_canonical_joined_chains_collapse
#print axioms C07_canonical_joined_chains_parse_eq
#print axioms C07_joiner_limits

end PyTRS
