/-
C06 — tract parsing is compositional ON TEXT (with the C02 geometry of every chain).

The texts: ELEMENTS separated by ", " (chains alone: also "; ", any mixture), where an element is
* a non-empty canonical chain of aliquot components ("N½NE¼"),
* a lot element in input spelling: "Lot <n>" or "Lots <a> - <b>" (numbers of one to three decimal digits, ANY digits),
* "ALL", as the LAST element only.

Main theorems (all `C06_…`, no side condition other than the shape of the text):
* Goal 1 — `C06_chains_text_parse`, `C06_chains_text_compositional(_mixed)`, `C06_chains_text_dup_flag`, `C06_chains_text_tiling`:
  chains joined by ", " / "; ": no lots, the aliquot blocks are the chains, QQs / whole aliquots / divergence are literally the
  concatenation of what the parser reports for each chain alone (`parseAlone`), the only flag that can be added is `dup_qq<…>`
  (present iff the concatenation has a duplicate); under the documented depth domain every chain's pieces tile its region.
* Goal 3 — `C06_chains_then_all_parse`, `C06_all_alone_parse`, `C06_chains_all_compositional`, `C06_chains_all_no_diverge`:
  the same with a final "ALL", which is recognised as the last aliquot block (context-free `all_regex` match).
* Goal 2 — `C06_xtoks_fixed` (every such text is a fixed point of `scrub_aliquots`), `C06_unpackLots_run` (`unpack_lots` on a run
  "Lot 1, Lots 3 - 7, Lot 12" is the concatenation of the elements' expansions), `C06_blocks_parse`,
  `C06_lots_and_chains_parse`, `C06_lots_and_chains_compositional`, `C06_lots_and_chains_tiling`,
  `C06_lots_chains_all_parse`, `C06_lots_chains_all_compositional`: lots and QQs of a description of lot elements, chains and an
  optional final "ALL" are the concatenations, in order, of what each element yields on its own.

Method.  `Rx.look` (a one-character static analysis: "no path starts here" / "every path stays put") disposes of almost all
positions; `loop_fails` / `loop_to_rest` / `run_loop` are the inductive lemmas for the three greedy loops; the regenerated patterns
are evaluated symbolically by `rxe` (= `simp` with the defining equations of the matcher), character classes being decided by two
simprocs: `memClosed` (closed set, closed character: kernel evaluation) and `memDigit` (closed set that contains all or no
digits, a variable known to be a digit) — no character set is mentioned by name.
-/
import Lean.Elab.Tactic.Simproc
import Lean.Elab.Tactic.Simp
import PyTRS.Lemmas.CanonFixed
import PyTRS.Lemmas.TractFold
import PyTRS.Lemmas.Elided
set_option linter.unusedSimpArgs false
set_option linter.unusedVariables false
namespace PyTRS
open PyTRS.Aliquot PyTRS.Tiling PyTRS.Tract PyTRS.Unpack

/-! ### a syntactic rejection test: the pattern cannot match at a cursor with this previous / next character -/

/-- zero-width tests: they either fail or continue at the same cursor (captures apart) -/
def Rx.isAssert : Rx → Bool
  | .eps | .behind _ | .wordb _ | .bos | .eos => true
  | .seq a b | .alt a b => a.isAssert && b.isAssert
  | .grp _ r => r.isAssert
  | _ => false

/-- sufficient condition for "no path of the pattern starts at a cursor whose previous character is `p` and whose next
    character is `h` (`none` = begin / end of text)" -/
def Rx.rejectsAt (p h : Option Char) : Rx → Bool
  | .fail => true
  | .chr cs => match h with | none => true | some c => !cs.mem c
  | .behind cs => match p with | none => true | some c => !cs.mem c
  | .wordb w => isWord w p == isWord w h
  | .seq a b => a.rejectsAt p h || (a.isAssert && b.rejectsAt p h)
  | .alt a b => a.rejectsAt p h && b.rejectsAt p h
  | .grp _ r => r.rejectsAt p h
  | .rep r lo _ => decide (1 ≤ lo) && r.rejectsAt p h
  | .ahead r => r.rejectsAt p h
  | _ => false

theorem Rx.assert_none : ∀ (r : Rx) {R : Type} (s : St) (k : St → Option R), r.isAssert = true →
    (∀ caps', k ⟨s.prev, s.rest, s.pos, caps'⟩ = none) → r.m s k = none := by
  intro r
  induction r with
  | eps => intro R s k _ hk; rw [m_eps]; exact hk s.caps
  | behind cs =>
    intro R s k _ hk
    simp only [Rx.m]
    split
    · split
      · exact hk s.caps
      · rfl
    · rfl
  | wordb w =>
    intro R s k _ hk
    simp only [Rx.m]
    split
    · exact hk s.caps
    · rfl
  | bos => intro R s k _ hk; simp only [Rx.m]; split; exact hk s.caps; rfl
  | eos =>
    intro R s k _ hk
    simp only [Rx.m]
    split
    · exact hk s.caps
    · split
      · exact hk s.caps
      · rfl
    · rfl
  | seq a b iha ihb =>
    intro R s k h hk
    simp only [Rx.isAssert, Bool.and_eq_true] at h
    rw [m_seq]
    exact iha s _ h.1 (fun caps' => ihb ⟨s.prev, s.rest, s.pos, caps'⟩ k h.2 hk)
  | alt a b iha ihb =>
    intro R s k h hk
    simp only [Rx.isAssert, Bool.and_eq_true] at h
    rw [m_alt, iha s k h.1 hk, ihb s k h.2 hk]; rfl
  | grp i r ih =>
    intro R s k h hk
    simp only [Rx.isAssert] at h
    rw [m_grp]
    exact ih s _ h (fun caps' => hk _)
  | fail => intro R s k h; simp [Rx.isAssert] at h
  | chr cs => intro R s k h; simp [Rx.isAssert] at h
  | rep r lo hi _ => intro R s k h; simp [Rx.isAssert] at h
  | ahead r _ => intro R s k h; simp [Rx.isAssert] at h
  | nahead r _ => intro R s k h; simp [Rx.isAssert] at h

theorem Rx.rejectsAt_none (p h : Option Char) : ∀ (r : Rx) {R : Type} (s : St) (k : St → Option R),
    r.rejectsAt p h = true → s.prev = p → s.rest.head? = h → r.m s k = none := by
  intro r
  induction r with
  | fail => intro R s k _ _ _; rw [m_fail]
  | chr cs =>
    intro R s k hr hp hh
    simp only [Rx.m]
    split
    · rename_i c t hrest
      rw [hrest] at hh
      subst hh
      simp only [Rx.rejectsAt, List.head?_cons, Bool.not_eq_true'] at hr
      simp [hr]
    · rfl
  | behind cs =>
    intro R s k hr hp hh
    simp only [Rx.m]
    subst hp
    split
    · rename_i c hc
      rw [hc] at hr
      simp only [Rx.rejectsAt, Bool.not_eq_true'] at hr
      simp [hr]
    · rfl
  | wordb w =>
    intro R s k hr hp hh
    simp only [Rx.m]
    subst hp hh
    simp only [Rx.rejectsAt, beq_iff_eq] at hr
    simp [hr]
  | seq a b iha ihb =>
    intro R s k hr hp hh
    simp only [Rx.rejectsAt, Bool.or_eq_true, Bool.and_eq_true] at hr
    rw [m_seq]
    rcases hr with hr | ⟨ha, hb⟩
    · exact iha s _ hr hp hh
    · exact Rx.assert_none a s _ ha (fun caps' => ihb ⟨s.prev, s.rest, s.pos, caps'⟩ k hb hp hh)
  | alt a b iha ihb =>
    intro R s k hr hp hh
    simp only [Rx.rejectsAt, Bool.and_eq_true] at hr
    rw [m_alt, iha s k hr.1 hp hh, ihb s k hr.2 hp hh]; rfl
  | grp i r ih =>
    intro R s k hr hp hh
    simp only [Rx.rejectsAt] at hr
    rw [m_grp]
    exact ih s _ hr hp hh
  | rep r lo hi ih =>
    intro R s k hr hp hh
    simp only [Rx.rejectsAt, Bool.and_eq_true, decide_eq_true_eq] at hr
    rw [m_rep]
    have e : s.rest.length + lo + 2 = (s.rest.length + lo + 1) + 1 := rfl
    rw [e, repLoop_succ]
    have : 0 < lo := hr.1
    simp only [this, if_true]
    exact ih s _ hr.2 hp hh
  | ahead r ih =>
    intro R s k hr hp hh
    simp only [Rx.rejectsAt] at hr
    rw [m_ahead, ih s some hr hp hh]
  | eps => intro R s k h; simp [Rx.rejectsAt] at h
  | nahead r _ => intro R s k h; simp [Rx.rejectsAt] at h
  | eos => intro R s k h; simp [Rx.rejectsAt] at h
  | bos => intro R s k h; simp [Rx.rejectsAt] at h

/-- the same test when nothing is known about the previous character -/
def Rx.rejectsHd (h : Option Char) : Rx → Bool
  | .fail => true
  | .chr cs => match h with | none => true | some c => !cs.mem c
  | .seq a b => a.rejectsHd h || (a.isAssert && b.rejectsHd h)
  | .alt a b => a.rejectsHd h && b.rejectsHd h
  | .grp _ r => r.rejectsHd h
  | .rep r lo _ => decide (1 ≤ lo) && r.rejectsHd h
  | .ahead r => r.rejectsHd h
  | _ => false

theorem Rx.rejectsAt_of_hd (p h : Option Char) : ∀ (r : Rx), r.rejectsHd h = true → r.rejectsAt p h = true := by
  intro r
  induction r with
  | seq a b iha ihb =>
    intro hr
    simp only [Rx.rejectsHd, Bool.or_eq_true, Bool.and_eq_true] at hr
    simp only [Rx.rejectsAt, Bool.or_eq_true, Bool.and_eq_true]
    rcases hr with hr | ⟨h1, h2⟩
    · exact Or.inl (iha hr)
    · exact Or.inr ⟨h1, ihb h2⟩
  | alt a b iha ihb =>
    intro hr
    simp only [Rx.rejectsHd, Bool.and_eq_true] at hr
    simp only [Rx.rejectsAt, Bool.and_eq_true]
    exact ⟨iha hr.1, ihb hr.2⟩
  | grp i r ih => intro hr; exact ih hr
  | rep r lo hi ih =>
    intro hr
    simp only [Rx.rejectsHd, Bool.and_eq_true] at hr
    simp only [Rx.rejectsAt, Bool.and_eq_true]
    exact ⟨hr.1, ih hr.2⟩
  | ahead r ih => intro hr; exact ih hr
  | fail => intro _; rfl
  | chr cs => intro hr; exact hr
  | eps => intro hr; simp [Rx.rejectsHd] at hr
  | behind cs => intro hr; simp [Rx.rejectsHd] at hr
  | wordb w => intro hr; simp [Rx.rejectsHd] at hr
  | nahead r _ => intro hr; simp [Rx.rejectsHd] at hr
  | eos => intro hr; simp [Rx.rejectsHd] at hr
  | bos => intro hr; simp [Rx.rejectsHd] at hr

theorem Rx.rejectsHd_none (h : Option Char) (r : Rx) {R : Type} (s : St) (k : St → Option R)
    (hr : r.rejectsHd h = true) (hh : s.rest.head? = h) : r.m s k = none :=
  Rx.rejectsAt_none s.prev h r s k (Rx.rejectsAt_of_hd s.prev h r hr) rfl hh

theorem matchHere_none_of_rejects (r : Rx) (p : Option Char) (rest : Str) (pos : Nat) (adv : Bool)
    (h : r.rejectsAt p rest.head? = true) : matchHere r ⟨p, rest, pos, []⟩ adv = none := by
  unfold matchHere
  exact Rx.rejectsAt_none p rest.head? r _ _ h rfl rfl

/-! ### a stronger one-character analysis: also "stays put" (every path ends at the cursor where it began)

`p = none`: nothing is known about the previous character; `p = some q`: it is `q` (`q = none`: begin of text). -/

/-- `(rejects, stays)`: `rejects` = no path starts at such a cursor; `stays` = every path (if any) consumes nothing -/
def Rx.look (p : Option (Option Char)) (h : Option Char) : Rx → Bool × Bool
  | .eps => (false, true)
  | .fail => (true, true)
  | .chr cs => let r := match h with | none => true | some c => !cs.mem c
               (r, r)
  | .behind cs => (match p with
                   | none => false
                   | some none => true
                   | some (some c) => !cs.mem c, true)
  | .wordb w => (match p with
                 | none => false
                 | some q => isWord w q == isWord w h, true)
  | .bos => (false, true)
  | .eos => (match h with
             | some c => c != '\n'
             | none => false, true)
  | .seq a b =>
    let la := a.look p h
    let lb := b.look p h
    (la.1 || (la.2 && lb.1), la.1 || (la.2 && lb.2))
  | .alt a b =>
    let la := a.look p h
    let lb := b.look p h
    (la.1 && lb.1, la.2 && lb.2)
  | .grp _ r => r.look p h
  | .rep r lo _ =>
    let l := r.look p h
    (decide (1 ≤ lo) && l.1, l.2)
  | .ahead r => ((r.look p h).1, true)
  | .nahead _ => (false, true)

def St.At (s : St) (p : Option (Option Char)) (h : Option Char) : Prop :=
  (∀ q, p = some q → s.prev = q) ∧ s.rest.head? = h

theorem repLoop_stays {R : Type} (body : St → (St → Option R) → Option R) (lo : Nat) (hi : Option Nat)
    (prev : Option Char) (rest : Str) (pos : Nat) (k : St → Option R)
    (hb : ∀ caps (k' : St → Option R), (∀ caps', k' ⟨prev, rest, pos, caps'⟩ = none) → body ⟨prev, rest, pos, caps⟩ k' = none)
    (hk : ∀ caps', k ⟨prev, rest, pos, caps'⟩ = none) :
    ∀ (fuel count : Nat) (last : Option Nat) (caps : List (Nat × Nat × Nat)),
      repLoop body lo hi fuel count last ⟨prev, rest, pos, caps⟩ k = none := by
  intro fuel
  induction fuel with
  | zero => intro count last caps; rfl
  | succ n ih =>
    intro count last caps
    rw [repLoop_succ]
    have h1 : ∀ c l, body ⟨prev, rest, pos, caps⟩ (fun s' => repLoop body lo hi n c l s' k) = none :=
      fun c l => hb caps _ (fun caps' => ih c l caps')
    split
    · exact h1 _ _
    · split
      · rw [h1, hk]; rfl
      · exact hk _

theorem Rx.look_sound (p : Option (Option Char)) (h : Option Char) : ∀ (r : Rx) {R : Type} (s : St) (k : St → Option R),
    s.At p h →
    ((r.look p h).1 = true → r.m s k = none) ∧
    ((r.look p h).2 = true → (∀ caps', k ⟨s.prev, s.rest, s.pos, caps'⟩ = none) → r.m s k = none) := by
  intro r
  induction r with
  | eps =>
    intro R s k _
    refine ⟨by simp [Rx.look], fun _ hk => ?_⟩
    rw [m_eps]; exact hk s.caps
  | fail => intro R s k _; exact ⟨fun _ => m_fail s k, fun _ _ => m_fail s k⟩
  | chr cs =>
    intro R s k hs
    have : (Rx.look p h (.chr cs)).1 = true → (Rx.chr cs).m s k = none := by
      intro hr
      simp only [Rx.m]
      split
      · rename_i c t hrest
        have hh := hs.2
        rw [hrest] at hh
        simp only [List.head?_cons] at hh
        subst hh
        simp only [Rx.look, Bool.not_eq_true'] at hr
        simp [hr]
      · rfl
    exact ⟨this, fun hr _ => this hr⟩
  | behind cs =>
    intro R s k hs
    constructor
    · intro hr
      simp only [Rx.m]
      cases p with
      | none => simp [Rx.look] at hr
      | some q =>
        have := hs.1 q rfl
        rw [this]
        cases q with
        | none => rfl
        | some c =>
          simp only [Rx.look, Bool.not_eq_true'] at hr
          simp [hr]
    · intro _ hk
      simp only [Rx.m]
      split
      · split
        · exact hk s.caps
        · rfl
      · rfl
  | wordb w =>
    intro R s k hs
    constructor
    · intro hr
      simp only [Rx.m]
      cases p with
      | none => simp [Rx.look] at hr
      | some q =>
        have := hs.1 q rfl
        rw [this, hs.2]
        simp only [Rx.look, beq_iff_eq] at hr
        simp [hr]
    · intro _ hk
      simp only [Rx.m]
      split
      · exact hk s.caps
      · rfl
  | bos =>
    intro R s k _
    refine ⟨by simp [Rx.look], fun _ hk => ?_⟩
    simp only [Rx.m]; split; exact hk s.caps; rfl
  | eos =>
    intro R s k hs
    constructor
    · intro hr
      simp only [Rx.m]
      split
      · rename_i hrest
        have hh := hs.2
        rw [hrest] at hh
        subst hh
        simp [Rx.look] at hr
      · rename_i c hrest
        have hh := hs.2
        rw [hrest] at hh
        subst hh
        simp only [Rx.look, List.head?_cons, bne_iff_ne, ne_eq] at hr
        simp [hr]
      · rfl
    · intro _ hk
      simp only [Rx.m]
      split
      · exact hk s.caps
      · split
        · exact hk s.caps
        · rfl
      · rfl
  | seq a b iha ihb =>
    intro R s k hs
    rw [m_seq]
    have hb' : ∀ caps', St.At ⟨s.prev, s.rest, s.pos, caps'⟩ p h := fun _ => hs
    constructor
    · intro hr
      simp only [Rx.look, Bool.or_eq_true, Bool.and_eq_true] at hr
      rcases hr with hr | ⟨h1, h2⟩
      · exact (iha s _ hs).1 hr
      · exact (iha s _ hs).2 h1 (fun caps' => (ihb _ k (hb' caps')).1 h2)
    · intro hr hk
      simp only [Rx.look, Bool.or_eq_true, Bool.and_eq_true] at hr
      rcases hr with hr | ⟨h1, h2⟩
      · exact (iha s _ hs).1 hr
      · exact (iha s _ hs).2 h1 (fun caps' => (ihb _ k (hb' caps')).2 h2 hk)
  | alt a b iha ihb =>
    intro R s k hs
    rw [m_alt]
    constructor
    · intro hr
      simp only [Rx.look, Bool.and_eq_true] at hr
      rw [(iha s k hs).1 hr.1, (ihb s k hs).1 hr.2]; rfl
    · intro hr hk
      simp only [Rx.look, Bool.and_eq_true] at hr
      rw [(iha s k hs).2 hr.1 hk, (ihb s k hs).2 hr.2 hk]; rfl
  | grp i r ih =>
    intro R s k hs
    rw [m_grp]
    exact ⟨fun hr => (ih s _ hs).1 hr, fun hr hk => (ih s _ hs).2 hr (fun caps' => hk _)⟩
  | rep r lo hi ih =>
    intro R s k hs
    rw [m_rep]
    constructor
    · intro hr
      simp only [Rx.look, Bool.and_eq_true, decide_eq_true_eq] at hr
      have e : s.rest.length + lo + 2 = (s.rest.length + lo + 1) + 1 := rfl
      rw [e, repLoop_succ]
      have : 0 < lo := hr.1
      simp only [this, if_true]
      exact (ih s _ hs).1 hr.2
    · intro hr hk
      simp only [Rx.look] at hr
      exact repLoop_stays r.m lo hi s.prev s.rest s.pos k
        (fun caps k' hk' => (ih ⟨s.prev, s.rest, s.pos, caps⟩ k' hs).2 hr hk') hk _ _ _ s.caps
  | ahead r ih =>
    intro R s k hs
    rw [m_ahead]
    constructor
    · intro hr
      simp only [Rx.look] at hr
      rw [(ih s some hs).1 hr]
    · intro _ hk
      split
      · exact hk _
      · rfl
  | nahead r _ =>
    intro R s k _
    refine ⟨by simp [Rx.look], fun _ hk => ?_⟩
    simp only [Rx.m]
    split
    · rfl
    · exact hk s.caps

/-- no path of `r` starts at a cursor after `q` (`none` = begin of text) and before `h` (`none` = end of text) -/
def Rx.rej (q h : Option Char) (r : Rx) : Bool := (r.look (some q) h).1
/-- the same whatever the previous character -/
def Rx.rejH (h : Option Char) (r : Rx) : Bool := (r.look none h).1

theorem Rx.rej_none (q h : Option Char) (r : Rx) {R : Type} (s : St) (k : St → Option R)
    (hr : r.rej q h = true) (hp : s.prev = q) (hh : s.rest.head? = h) : r.m s k = none :=
  (Rx.look_sound (some q) h r s k ⟨fun q' e => by cases e; exact hp, hh⟩).1 hr

theorem Rx.rejH_none (h : Option Char) (r : Rx) {R : Type} (s : St) (k : St → Option R)
    (hr : r.rejH h = true) (hh : s.rest.head? = h) : r.m s k = none :=
  (Rx.look_sound none h r s k ⟨(fun q' e => nomatch e), hh⟩).1 hr

theorem matchHere_none_of_rej (r : Rx) (q : Option Char) (rest : Str) (pos : Nat) (adv : Bool)
    (h : r.rej q rest.head? = true) : matchHere r ⟨q, rest, pos, []⟩ adv = none := by
  unfold matchHere
  exact Rx.rej_none q rest.head? r _ _ h rfl rfl

theorem matchHere_none_of_rejH (r : Rx) (q : Option Char) (rest : Str) (pos : Nat) (adv : Bool)
    (h : r.rejH rest.head? = true) : matchHere r ⟨q, rest, pos, []⟩ adv = none := by
  unfold matchHere
  exact Rx.rejH_none rest.head? r _ _ h rfl

/-- a pattern whose every path stays put (or that rejects) is skipped by `(…)?` / `(…)*`: … -/
theorem opt_skip {R : Type} (r : Rx) (hi : Option Nat) (q h : Option Char) (s : St) (k : St → Option R)
    (hr : r.rej q h = true) (hp : s.prev = q) (hh : s.rest.head? = h) :
    (Rx.rep r 0 hi).m s k = k s := by
  rw [m_rep]
  have e : s.rest.length + 0 + 2 = (s.rest.length + 1) + 1 := rfl
  rw [e, repLoop_succ]
  simp only [Nat.not_lt_zero, if_false]
  split
  · rw [Rx.rej_none q h r s _ hr hp hh]; rfl
  · rfl

/-! ### the aliquot pattern on a chain that is followed by something -/

/-- the characters that separate elements: none of them can begin or continue an aliquot, none is a word character -/
def SepChar (c : Char) : Prop := c = ',' ∨ c = ';' ∨ c = ' '

/-- the text is empty or begins with a separator character -/
def SepHead (rest : Str) : Prop := ∀ c, rest.head? = some c → SepChar c

theorem SepHead.nil : SepHead [] := fun _ h => by cases h
theorem SepHead.cons {c : Char} (t : Str) (h : SepChar c) : SepHead (c :: t) := by
  intro d hd; simp only [List.head?_cons, Option.some.injEq] at hd; subst hd; exact h

/-- a greedy `(component)+` loop runs to the end of a chain, provided the body fails on what follows the chain and what follows
    the loop accepts that cursor -/
theorem loop_to_rest (body : Rx) (rest : Str)
    (hstep : ∀ (c : Comp) (prev : Option Char) (rest : Str) (pos : Nat) (caps : List (Nat × Nat × Nat))
      (k : St → Option Match), ∃ caps', body.m ⟨prev, compText c ++ rest, pos, caps⟩ k =
        k ⟨lastOr prev (compText c), rest, pos + (compText c).length, caps'⟩)
    (hrest : ∀ (prev : Option Char) (pos : Nat) (caps : List (Nat × Nat × Nat)) (k : St → Option Match),
      body.m ⟨prev, rest, pos, caps⟩ k = none)
    (K : St → Option Match) :
    ∀ (chain : List Comp) (fuel count : Nat) (last : Option Nat) (prev : Option Char) (pos : Nat)
      (caps : List (Nat × Nat × Nat)), chain.length < fuel → (∀ l, last = some l → l < pos) →
      (chain ≠ [] ∨ 1 ≤ count) →
      (∀ pos' caps', (K ⟨lastOr prev (chainText chain), rest, pos', caps'⟩).isSome = true) →
      ∃ caps', repLoop body.m 1 none fuel count last ⟨prev, chainText chain ++ rest, pos, caps⟩ K =
        K ⟨lastOr prev (chainText chain), rest, pos + (chainText chain).length, caps'⟩ := by
  intro chain
  induction chain with
  | nil =>
    intro fuel count last prev pos caps hf _ hc _
    obtain ⟨n, rfl⟩ : ∃ n, fuel = n + 1 := ⟨fuel - 1, by simp at hf; omega⟩
    have hcount : ¬ count < 1 := by
      rcases hc with h | h
      · exact absurd rfl h
      · omega
    refine ⟨caps, ?_⟩
    show repLoop body.m 1 none (n + 1) count last ⟨prev, rest, pos, caps⟩ K = K ⟨prev, rest, pos + 0, caps⟩
    rw [repLoop_succ]
    simp only [hcount, if_false, hrest, Option.none_or, ite_self, Nat.add_zero]
  | cons c cs ih =>
    intro fuel count last prev pos caps hf hl _ hK
    rw [C02_chainText_cons] at hK
    obtain ⟨n, rfl⟩ : ∃ n, fuel = n + 1 := ⟨fuel - 1, by simp at hf; omega⟩
    have hn : cs.length < n := by simpa using hf
    have hlen := C02_compText_length c
    have hend : ∀ (cnt : Nat) (l : Option Nat), (∀ x, l = some x → x < pos + (compText c).length) →
        ∃ caps', body.m ⟨prev, compText c ++ (chainText cs ++ rest), pos, caps⟩
          (fun s' => repLoop body.m 1 none n (cnt + 1) l s' K) =
          K ⟨lastOr prev (chainText (c :: cs)), rest, pos + (chainText (c :: cs)).length, caps'⟩ := by
      intro cnt l hl'
      obtain ⟨caps1, h1⟩ := hstep c prev (chainText cs ++ rest) pos caps
        (fun s' => repLoop body.m 1 none n (cnt + 1) l s' K)
      obtain ⟨caps2, h2⟩ := ih n (cnt + 1) l (lastOr prev (compText c)) (pos + (compText c).length) caps1 hn hl'
        (Or.inr (by omega)) (by intro p' c'; rw [← lastOr_append]; exact hK p' c')
      refine ⟨caps2, ?_⟩
      rw [h1, h2, C02_chainText_cons, lastOr_append, List.length_append, Nat.add_assoc]
    rw [C02_chainText_cons, List.append_assoc, repLoop_succ]
    by_cases hc : count < 1
    · simp only [hc, if_true]
      obtain ⟨caps', h⟩ := hend count last (fun x hx => by have := hl x hx; omega)
      exact ⟨caps', by rw [h, C02_chainText_cons]⟩
    · have hlast : (last != some pos) = true := by
        cases last with
        | none => rfl
        | some l =>
          have := hl l rfl
          simp only [bne_iff_ne, ne_eq, Option.some.injEq]
          omega
      simp only [hc, if_false, canMore, hlast, Bool.and_self, if_true]
      obtain ⟨caps', h⟩ := hend count (some pos) (fun x hx => by cases hx; omega)
      refine ⟨caps', ?_⟩
      rw [h, C02_chainText_cons]
      have := hK (pos + (compText c ++ chainText cs).length) caps'
      cases hk : K ⟨lastOr prev (compText c ++ chainText cs), rest, pos + (compText c ++ chainText cs).length, caps'⟩ with
      | none => rw [hk] at this; cases this
      | some x => rfl

theorem sepChar_not_word {c : Char} (h : SepChar c) : Gen.cs_14d6aa8a.mem c = false := by
  rcases h with rfl | rfl | rfl
  · exact w_comma
  · exact w_semi
  · exact w_blank

/-- the loop body of `aliquot_unpacker_regex` fails on a text that is empty or begins with a separator character -/
theorem au_body_sepHead (rest : Str) (hr : SepHead rest) (prev : Option Char) (pos : Nat) (caps : List (Nat × Nat × Nat))
    (k : St → Option Match) : auBody.m ⟨prev, rest, pos, caps⟩ k = none := by
  cases rest with
  | nil => exact au_body_nil prev pos caps k
  | cons c t =>
    rcases hr c rfl with rfl | rfl | rfl
    · exact Rx.rejectsHd_none (some ',') auBody _ _ (by decide +kernel) rfl
    · exact Rx.rejectsHd_none (some ';') auBody _ _ (by decide +kernel) rfl
    · exact Rx.rejectsHd_none (some ' ') auBody _ _ (by decide +kernel) rfl

theorem wordb_pass {R : Type} (w : CharSet) (p : Option Char) (rest : Str) (pos : Nat) (caps : List (Nat × Nat × Nat))
    (k : St → Option R) (h : (isWord w p != isWord w rest.head?) = true) :
    (Rx.wordb w).m ⟨p, rest, pos, caps⟩ k = k ⟨p, rest, pos, caps⟩ := by
  simp only [Rx.m, h, if_true]

/-- started at the first character of a non-empty chain (after nothing or a non-word character), `aliquot_unpacker_regex`
    matches exactly the chain, when the chain is followed by nothing or by a separator character -/
theorem au_matchHere_chain (chain : List Comp) (h : chain ≠ []) (rest : Str) (hr : SepHead rest)
    (prev : Option Char) (hp : isWord Gen.cs_14d6aa8a prev = false) (pos : Nat) :
    ∃ caps, matchHere Gen.aliquot_unpacker_regex ⟨prev, chainText chain ++ rest, pos, []⟩ false =
      some ⟨pos, pos + (chainText chain).length, caps⟩ := by
  obtain ⟨ch, t, hct, hw⟩ := chain_head_word chain h
  obtain ⟨g, hg, hgw⟩ := chain_last_word chain prev h
  have hrw : isWord Gen.cs_14d6aa8a rest.head? = false := by
    cases rest with
    | nil => rfl
    | cons c t => exact sepChar_not_word (hr c rfl)
  have hK : ∀ (pos : Nat) (caps : List (Nat × Nat × Nat)) (k : St → Option Match),
      (Rx.wordb Gen.cs_14d6aa8a).m ⟨lastOr prev (chainText chain), rest, pos, caps⟩ k =
        k ⟨lastOr prev (chainText chain), rest, pos, caps⟩ := by
    intro pos caps k
    apply wordb_pass
    rw [hg, hrw]
    simp [isWord, hgw]
  obtain ⟨caps', hloop⟩ := loop_to_rest auBody rest au_body_comp (au_body_sepHead rest hr)
    (fun s' => (Rx.wordb Gen.cs_14d6aa8a).m s' (fun s' =>
      if (false && s'.pos == pos) = true then none else some ⟨pos, s'.pos, s'.caps⟩))
    chain ((chainText chain ++ rest).length + 1 + 2) 0 none prev pos [] (by
      have := C02_chainText_length chain; simp only [List.length_append]; omega) (by simp) (Or.inl h)
    (by intro p' c'; rw [hK]; rfl)
  refine ⟨caps', ?_⟩
  unfold matchHere
  rw [au_shape, m_seq]
  have h1 : ∀ (k : St → Option Match), (Rx.wordb Gen.cs_14d6aa8a).m ⟨prev, chainText chain ++ rest, pos, []⟩ k =
      k ⟨prev, chainText chain ++ rest, pos, []⟩ := by
    intro k
    apply wordb_pass
    rw [hp, hct]
    simp [isWord, hw]
  rw [h1, m_seq, m_rep]
  show repLoop auBody.m 1 none ((chainText chain ++ rest).length + 1 + 2) 0 none ⟨prev, chainText chain ++ rest, pos, []⟩ _ = _
  rw [hloop, hK]
  simp

/-- `aliquot_unpacker_regex` cannot match at a cursor that is at the end of the text or before a separator character -/
theorem au_matchHere_sepHead (rest : Str) (hr : SepHead rest) (prev : Option Char) (pos : Nat) (adv : Bool) :
    matchHere Gen.aliquot_unpacker_regex ⟨prev, rest, pos, []⟩ adv = none := by
  unfold matchHere
  rw [au_shape, m_seq]
  apply Rx.assert_none _ _ _ rfl
  intro caps'
  rw [m_seq, m_rep]
  show repLoop auBody.m 1 none ((rest.length + 1 + 1) + 1) 0 none ⟨prev, rest, pos, caps'⟩ _ = none
  rw [repLoop_succ]
  simp only [Nat.zero_lt_one, if_true]
  exact au_body_sepHead rest hr prev pos caps' _

theorem isWord_lastOr_sep (pre : Str) (hpre : ∀ c ∈ pre, SepChar c) (p : Option Char)
    (hp : isWord Gen.cs_14d6aa8a p = false) : isWord Gen.cs_14d6aa8a (lastOr p pre) = false := by
  induction pre generalizing p with
  | nil => exact hp
  | cons c t ih =>
    exact ih (fun d hd => hpre d (List.mem_cons_of_mem _ hd)) (some c) (sepChar_not_word (hpre c (by simp)))

/-- scanning over separator characters finds nothing -/
theorem au_scan_skip (pre rest : Str) (hpre : ∀ c ∈ pre, SepChar c) (prev : Option Char) (pos : Nat) :
    scan Gen.aliquot_unpacker_regex prev (pre ++ rest) pos false =
      scan Gen.aliquot_unpacker_regex (lastOr prev pre) rest (pos + pre.length) false := by
  induction pre generalizing prev pos with
  | nil => rfl
  | cons c t ih =>
    rw [List.cons_append, scan_cons_none _ _ _ _ _ _
      (au_matchHere_sepHead (c :: (t ++ rest)) (SepHead.cons _ (hpre c (by simp))) prev pos false),
      ih (fun d hd => hpre d (List.mem_cons_of_mem _ hd))]
    have e : pos + 1 + t.length = pos + (c :: t).length := by simp only [List.length_cons]; omega
    rw [e]; rfl

theorem scan_hit (r : Rx) (prev : Option Char) (rest : Str) (pos : Nat) (adv : Bool) (m : Match)
    (h : matchHere r ⟨prev, rest, pos, []⟩ adv = some m) : scan r prev rest pos adv = some m := by
  cases rest with
  | nil => rw [scan_nil, h]
  | cons c t => rw [scan_cons, h]

theorem search_eq_scan (r : Rx) (text : Str) : r.search text = scan r none text 0 false := by
  unfold Rx.search
  simp only [cursorAt, List.take_length, List.drop_zero]
  split
  · rename_i hlt; simp at hlt
  · rfl

/-- the leftmost aliquot in `separators ++ chain ++ (nothing | separator …)` is the chain -/
theorem au_search_pre_chain (pre : Str) (hpre : ∀ c ∈ pre, SepChar c) (chain : List Comp) (h : chain ≠ [])
    (rest : Str) (hr : SepHead rest) :
    ∃ caps, aliquotUnpacker.rx.search (pre ++ (chainText chain ++ rest)) =
      some ⟨pre.length, pre.length + (chainText chain).length, caps⟩ := by
  obtain ⟨caps, hm⟩ := au_matchHere_chain chain h rest hr (lastOr none pre)
    (isWord_lastOr_sep pre hpre none rfl) (0 + pre.length)
  refine ⟨caps, ?_⟩
  rw [search_eq_scan]
  show scan Gen.aliquot_unpacker_regex none (pre ++ (chainText chain ++ rest)) 0 false = _
  rw [au_scan_skip pre _ hpre none 0, scan_hit _ _ _ _ _ _ hm]
  simp

/-- … and in a text of separator characters only there is none -/
theorem au_search_seps (pre : Str) (hpre : ∀ c ∈ pre, SepChar c) : aliquotUnpacker.rx.search pre = none := by
  rw [search_eq_scan]
  show scan Gen.aliquot_unpacker_regex none pre 0 false = none
  have := au_scan_skip pre [] hpre none 0
  rw [List.append_nil] at this
  rw [this, scan_nil]
  exact au_matchHere_sepHead [] SepHead.nil _ _ _

/-! ### the second extraction loop on chains with separators -/

/-- an element list: each chain preceded by its separator -/
def elemsText (es : List (Str × List Comp)) : Str := es.flatMap (fun e => e.1 ++ chainText e.2)
/-- what the second extraction loop leaves of it -/
def elemsPatched (es : List (Str × List Comp)) : Str := es.flatMap (fun e => e.1 ++ ";;".toList)

def ElemsOK (es : List (Str × List Comp)) : Prop := ∀ e ∈ es, e.1 ≠ [] ∧ (∀ c ∈ e.1, SepChar c) ∧ e.2 ≠ []

theorem elemsText_cons (e : Str × List Comp) (es : List (Str × List Comp)) :
    elemsText (e :: es) = e.1 ++ (chainText e.2 ++ elemsText es) := by
  simp [elemsText]

theorem elemsPatched_cons (e : Str × List Comp) (es : List (Str × List Comp)) :
    elemsPatched (e :: es) = e.1 ++ (";;".toList ++ elemsPatched es) := by
  simp [elemsPatched]

theorem elemsText_sepHead (es : List (Str × List Comp)) (h : ElemsOK es) : SepHead (elemsText es) := by
  cases es with
  | nil => exact SepHead.nil
  | cons e es =>
    obtain ⟨hne, hs, _⟩ := h e (by simp)
    rw [elemsText_cons]
    cases h1 : e.1 with
    | nil => exact absurd h1 hne
    | cons c t => exact SepHead.cons _ (hs c (by rw [h1]; simp))

theorem take_pre (pre post : Str) : (pre ++ post).take pre.length = pre := by simp
theorem drop_pre_mid (pre mid post : Str) : (pre ++ (mid ++ post)).drop (pre.length + mid.length) = post := by
  rw [← List.append_assoc, ← List.length_append, List.drop_left']
  rfl

theorem sepChar_patch : ∀ c ∈ ";;".toList, SepChar c := by
  intro c hc
  simp at hc
  subst hc; exact Or.inr (Or.inl rfl)

/-- one pass of the loop: the leftmost chain is taken out whole and replaced by ";;" -/
theorem extractAliquots_step (fuel : Nat) (pre : Str) (hpre : ∀ c ∈ pre, SepChar c) (chain : List Comp) (h : chain ≠ [])
    (rest : Str) (hr : SepHead rest) (acc : List Str) :
    extractAliquots (fuel + 1) (pre ++ (chainText chain ++ rest)) acc =
      extractAliquots fuel ((pre ++ ";;".toList) ++ rest) (acc ++ [chainText chain]) := by
  obtain ⟨caps, hs⟩ := au_search_pre_chain pre hpre chain h rest hr
  rw [extractAliquots, hs]
  simp only [Match.group0, C02_slice_mid, take_pre, drop_pre_mid, List.append_assoc]

theorem extractAliquots_elems (es : List (Str × List Comp)) : ∀ (pre : Str) (acc : List Str) (fuel : Nat),
    es.length < fuel → (∀ c ∈ pre, SepChar c) → ElemsOK es →
    extractAliquots fuel (pre ++ elemsText es) acc =
      some (pre ++ elemsPatched es, acc ++ es.map (fun e => chainText e.2)) := by
  induction es with
  | nil =>
    intro pre acc fuel hf hpre _
    obtain ⟨n, rfl⟩ : ∃ n, fuel = n + 1 := ⟨fuel - 1, by simp at hf; omega⟩
    simp only [elemsText, elemsPatched, List.flatMap_nil, List.append_nil, List.map_nil]
    rw [extractAliquots, au_search_seps pre hpre]
  | cons e es ih =>
    intro pre acc fuel hf hpre hok
    obtain ⟨n, rfl⟩ : ∃ n, fuel = n + 1 := ⟨fuel - 1, by simp at hf; omega⟩
    obtain ⟨_, hs, hne⟩ := hok e (by simp)
    have hok' : ElemsOK es := fun x hx => hok x (List.mem_cons_of_mem _ hx)
    have hpre1 : ∀ c ∈ pre ++ e.1, SepChar c := by
      intro c hc
      rcases List.mem_append.mp hc with hc | hc
      · exact hpre c hc
      · exact hs c hc
    have hpre2 : ∀ c ∈ (pre ++ e.1) ++ ";;".toList, SepChar c := by
      intro c hc
      rcases List.mem_append.mp hc with hc | hc
      · exact hpre1 c hc
      · exact sepChar_patch c hc
    rw [elemsText_cons, ← List.append_assoc,
      extractAliquots_step n (pre ++ e.1) hpre1 e.2 hne (elemsText es) (elemsText_sepHead es hok') acc,
      ih _ _ n (by simpa using hf) hpre2 hok', elemsPatched_cons]
    simp

/-! ### nothing else is found: no lot, no "ALL" -/

theorem scan_none_of_rejectsHd (r : Rx) : ∀ (text : Str) (prev : Option Char) (pos : Nat) (adv : Bool),
    (∀ c ∈ text, r.rejectsHd (some c) = true) → r.rejectsHd none = true → scan r prev text pos adv = none := by
  intro text
  induction text with
  | nil =>
    intro prev pos adv _ hn
    rw [scan_nil]
    exact Rx.rejectsHd_none none r _ _ hn rfl
  | cons c t ih =>
    intro prev pos adv hs hn
    rw [scan_cons_none _ _ _ _ _ _ (Rx.rejectsHd_none (some c) r _ _ (hs c (by simp)) rfl)]
    exact ih _ _ _ (fun d hd => hs d (List.mem_cons_of_mem _ hd)) hn

theorem search_none_of_rejectsHd (r : Rx) (text : Str) (hs : ∀ c ∈ text, r.rejectsHd (some c) = true)
    (hn : r.rejectsHd none = true) : r.search text = none := by
  rw [search_eq_scan]
  exact scan_none_of_rejectsHd r text none 0 false hs hn

theorem subWith_go_forall (P : Char → Prop) (text : Str) (f : Match → Str) (ht : ∀ c ∈ text, P c)
    (hf : ∀ m, ∀ c ∈ f m, P c) : ∀ (ms : List Match) (i : Nat) (acc : Str), (∀ c ∈ acc, P c) →
    ∀ c ∈ Rx.subWith.go text f ms i acc, P c := by
  intro ms
  induction ms with
  | nil =>
    intro i acc ha c hc
    unfold Rx.subWith.go at hc
    rcases List.mem_append.mp hc with hc | hc
    · exact ha c hc
    · exact ht c (List.mem_of_mem_drop hc)
  | cons m rest ih =>
    intro i acc ha
    unfold Rx.subWith.go
    apply ih
    intro c hc
    rcases List.mem_append.mp hc with hc | hc
    · rcases List.mem_append.mp hc with hc | hc
      · exact ha c hc
      · exact ht c (List.mem_of_mem_take (List.mem_of_mem_drop hc))
    · exact hf m c hc

/-- `re.sub` only rearranges characters of the text and of the replacement -/
theorem sub_forall (P : Char → Prop) (r : Rx) (repl text : Str) (ht : ∀ c ∈ text, P c) (hr : ∀ c ∈ repl, P c) :
    ∀ c ∈ r.sub repl text, P c := by
  unfold Rx.sub Rx.subWith
  exact subWith_go_forall P text _ ht (fun _ => hr) _ _ _ (by simp)

theorem lstripBy_forall (P : Char → Prop) (p : Char → Bool) (s : Str) (h : ∀ c ∈ s, P c) : ∀ c ∈ lstripBy p s, P c := by
  induction s with
  | nil => exact h
  | cons d t ih =>
    unfold lstripBy
    split
    · exact ih (fun c hc => h c (List.mem_cons_of_mem _ hc))
    · exact h

theorem pyStrip_forall (P : Char → Prop) (s : Str) (h : ∀ c ∈ s, P c) : ∀ c ∈ pyStrip s, P c := by
  unfold pyStrip stripBy rstripBy
  intro c hc
  rw [List.mem_reverse] at hc
  refine lstripBy_forall P _ _ ?_ c hc
  intro d hd
  rw [List.mem_reverse] at hd
  exact lstripBy_forall P _ _ h d hd

/-- a leftover of separator characters contains no "ALL" -/
theorem aliquotBlocksOf_seps (blocks : List Str) (rem2 : Str) (h : ∀ c ∈ rem2, SepChar c) :
    aliquotBlocksOf blocks rem2 = blocks := by
  have hchk : ∀ c ∈ pyStrip (Gen.inl_tract_parse_TractParser_parse_0.sub " ".toList rem2), SepChar c := by
    apply pyStrip_forall
    apply sub_forall _ _ _ _ h
    intro c hc
    simp at hc
    subst hc; exact Or.inr (Or.inr rfl)
  have : allRx.rx.search (pyStrip (Gen.inl_tract_parse_TractParser_parse_0.sub " ".toList rem2)) = none := by
    apply search_none_of_rejectsHd
    · intro c hc
      rcases hchk c hc with rfl | rfl | rfl <;> decide +kernel
    · decide +kernel
  unfold aliquotBlocksOf
  simp only [this]

/-- `multilot_with_aliquot_regex` needs a character ('L' / 'l') that no canonical chain text and no separator contains -/
theorem multilot_needs_notin : ∃ X : CharSet, Gen.multilot_with_aliquot_regex.needs X = true ∧
    ∀ c ∈ ['N', 'S', 'E', 'W', '½', '¼', ',', ';', ' '], X.mem c = false :=
  ⟨_, multilot_needs_L, by decide⟩

/-- the first extraction loop finds nothing in a text of chain characters and separator characters -/
theorem extractLots_none (text : Str) (h : ∀ c ∈ text, c ∈ ['N', 'S', 'E', 'W', '½', '¼', ',', ';', ' ']) (n : Nat) :
    extractLots (n + 1) text [] = some (text, []) := by
  obtain ⟨X, hX, hc⟩ := multilot_needs_notin
  have : multilotWithAliquot.rx.search text = none :=
    search_none_of_needs X _ hX text (fun c hm => hc c (h c hm))
  rw [extractLots, this]

/-! ### Goal 1: canonical chains separated by ", " / "; " (also mixed) -/

/-- a separator between two elements -/
inductive Sep where
  | comma
  | semi
  deriving DecidableEq, Repr

def Sep.tok : Sep → Tok
  | .comma => .comma
  | .semi => .semi

def Sep.text (s : Sep) : Str := s.tok.text

theorem Sep.text_ne_nil (s : Sep) : s.text ≠ [] := by cases s <;> simp [Sep.text, Sep.tok, Tok.text]
theorem Sep.text_sepChar (s : Sep) : ∀ c ∈ s.text, SepChar c := by
  cases s <;> simp [Sep.text, Sep.tok, Tok.text, SepChar]

def sepChr : Sep → Char
  | .comma => ','
  | .semi => ';'

theorem Sep.text_eq (s : Sep) : s.text = [sepChr s, ' '] := by cases s <;> rfl

/-- the text of a first chain followed by further chains, each with its separator: "N½NE¼, S½; NW¼" -/
def chainsText (c0 : List Comp) (es : List (Sep × List Comp)) : Str :=
  chainText c0 ++ es.flatMap (fun e => e.1.text ++ chainText e.2)

/-- all the chains, in text order -/
def chainsOf (c0 : List Comp) (es : List (Sep × List Comp)) : List (List Comp) := c0 :: es.map (·.2)

def chainsElems (es : List (Sep × List Comp)) : List (Str × List Comp) := es.map (fun e => (e.1.text, e.2))

theorem chainsText_eq_elems (c0 : List Comp) (es : List (Sep × List Comp)) :
    chainsText c0 es = chainText c0 ++ elemsText (chainsElems es) := by
  simp [chainsText, elemsText, chainsElems, List.flatMap_map]

theorem chainsElems_ok (es : List (Sep × List Comp)) (h : ∀ e ∈ es, e.2 ≠ []) : ElemsOK (chainsElems es) := by
  intro x hx
  simp only [chainsElems, List.mem_map] at hx
  obtain ⟨e, he, rfl⟩ := hx
  exact ⟨e.1.text_ne_nil, e.1.text_sepChar, h e he⟩

def chainsToksOf (c0 : List Comp) (es : List (Sep × List Comp)) : List Tok :=
  c0.map Tok.comp ++ es.flatMap (fun e => e.1.tok :: e.2.map Tok.comp)

theorem chainsText_eq_toks (c0 : List Comp) (es : List (Sep × List Comp)) :
    chainsText c0 es = toksText (chainsToksOf c0 es) := by
  unfold chainsText chainsToksOf
  rw [toksText_append, toksText_comps]
  congr 1
  induction es with
  | nil => rfl
  | cons e es ih =>
    rw [List.flatMap_cons, List.flatMap_cons, ih, List.cons_append, toksText_cons, toksText_append, toksText_comps]
    simp [Sep.text]

theorem chainsText_chars (c0 : List Comp) (es : List (Sep × List Comp)) :
    ∀ c ∈ chainsText c0 es, c ∈ ['N', 'S', 'E', 'W', '½', '¼', ',', ';', ' '] := by
  intro c hc
  unfold chainsText at hc
  rcases List.mem_append.mp hc with hc | hc
  · have := chainText_chars c0 c hc
    simp only [List.mem_cons, List.not_mem_nil, or_false] at this ⊢
    rcases this with h | h | h | h | h | h <;> simp [h]
  · rw [List.mem_flatMap] at hc
    obtain ⟨e, _, hc⟩ := hc
    rcases List.mem_append.mp hc with hc | hc
    · rcases e.1.text_sepChar c hc with h | h | h <;> simp [h]
    · have := chainText_chars e.2 c hc
      simp only [List.mem_cons, List.not_mem_nil, or_false] at this ⊢
      rcases this with h | h | h | h | h | h <;> simp [h]

/-- the second extraction loop on such a text: every chain is one block, in order; separators and ";;" patches remain -/
theorem extractAliquots_chains (c0 : List Comp) (es : List (Sep × List Comp)) (h0 : c0 ≠ []) (hes : ∀ e ∈ es, e.2 ≠ [])
    (n : Nat) (hn : es.length < n) :
    extractAliquots (n + 1) (chainsText c0 es) [] =
      some (";;".toList ++ elemsPatched (chainsElems es), (chainsOf c0 es).map chainText) := by
  have hok := chainsElems_ok es hes
  have := extractAliquots_step n [] (by simp) c0 h0 (elemsText (chainsElems es)) (elemsText_sepHead _ hok) []
  rw [chainsText_eq_elems]
  simp only [List.nil_append] at this
  rw [this, extractAliquots_elems (chainsElems es) _ _ n (by simpa [chainsElems] using hn) sepChar_patch hok]
  simp [chainsOf, chainsElems, Function.comp_def]

theorem elemsPatched_sepChars (es : List (Str × List Comp)) (h : ElemsOK es) : ∀ c ∈ elemsPatched es, SepChar c := by
  intro c hc
  unfold elemsPatched at hc
  rw [List.mem_flatMap] at hc
  obtain ⟨e, he, hc⟩ := hc
  rcases List.mem_append.mp hc with hc | hc
  · exact (h e he).2.1 c hc
  · exact sepChar_patch c hc

theorem chainsText_length (c0 : List Comp) (es : List (Sep × List Comp)) : es.length ≤ (chainsText c0 es).length := by
  unfold chainsText
  rw [List.length_append]
  have : es.length ≤ (es.flatMap (fun e => e.1.text ++ chainText e.2)).length := by
    induction es with
    | nil => simp
    | cons e es ih =>
      rw [List.flatMap_cons, List.length_append, List.length_append, List.length_cons]
      have := List.length_pos_iff.mpr e.1.text_ne_nil
      omega
  omega

/-- **C06 (chains on text)**: a text made of non-empty canonical chains separated by ", " or "; " (any mixture) is read as exactly
    these chains, in order, each recognised independently: no lots; the aliquot blocks are the chains; the QQs are the
    concatenation of `parse_aliquot` of each chain. -/
theorem C06_chains_text_parse (c0 : List Comp) (es : List (Sep × List Comp)) (h0 : c0 ≠ []) (hes : ∀ e ∈ es, e.2 ≠ [])
    (a : ParseArgs) (inh : Flags) :
    tractParseRaw (chainsText c0 es) a inh = .ok
      { text := chainsText c0 es, lots := [],
        qqs := (qqsOf a.depth ((chainsOf c0 es).map chainText)).1, lotAcres := [],
        aliquotsWhole := (chainsOf c0 es).map (fun c => removeFractions (chainText c)),
        flags := dupFlags inh [] (qqsOf a.depth ((chainsOf c0 es).map chainText)).1,
        diverged := (qqsOf a.depth ((chainsOf c0 es).map chainText)).2 } := by
  have hfix : scrubAliquots (chainsText c0 es) a.cleanQQ = some (chainsText c0 es) := by
    rw [chainsText_eq_toks]; exact C07_canonical_tokens_fixed _ _
  have hlen := chainsText_length c0 es
  unfold tractParseRaw
  rw [hfix]
  simp only []
  rw [show (chainsText c0 es).length + 2 = ((chainsText c0 es).length + 1) + 1 from rfl,
    extractLots_none _ (chainsText_chars c0 es)]
  simp only [lotBlocksFold]
  rw [extractAliquots_chains c0 es h0 hes ((chainsText c0 es).length + 1) (by omega)]
  have hrem : ∀ c ∈ ";;".toList ++ elemsPatched (chainsElems es), SepChar c := by
    intro c hc
    rcases List.mem_append.mp hc with hc | hc
    · exact sepChar_patch c hc
    · exact elemsPatched_sepChars _ (chainsElems_ok es hes) c hc
  simp only [aliquotBlocksOf_seps _ _ hrem, List.map_map, Bool.false_or, Function.comp_def]

/-- what the parser reports for a text on its own (no inherited flags) -/
def parseAlone (t : Str) (a : ParseArgs) : ParseResult :=
  match tractParseRaw t a {} with
  | .ok r => r
  | .error _ => default

theorem parseAlone_chain (c : List Comp) (h : c ≠ []) (a : ParseArgs) :
    parseAlone (chainText c) a =
      { text := chainText c, lots := [], qqs := (qqsOf a.depth [chainText c]).1, lotAcres := [],
        aliquotsWhole := [removeFractions (chainText c)],
        flags := dupFlags {} [] (qqsOf a.depth [chainText c]).1,
        diverged := (qqsOf a.depth [chainText c]).2 } := by
  unfold parseAlone
  rw [C07_canonical_chain_parse c h a {}]

/-- the QQs of one block, and whether its standardisation diverged -/
def blockQQ (depth : Aliquot.DepthArgs) (b : Str) : List Str × Bool :=
  match Aliquot.parseAliquot b depth with
  | some q => (q, false)
  | none => ([], true)

def qqStep' (depth : Aliquot.DepthArgs) (st : List Str × Bool) (b : Str) : List Str × Bool :=
  match Aliquot.parseAliquot b depth with
  | some q => (st.1 ++ q, st.2)
  | none => (st.1, true)

theorem qqsOf_eq' (depth : Aliquot.DepthArgs) (blocks : List Str) :
    qqsOf depth blocks = blocks.foldl (qqStep' depth) ([], false) := rfl

theorem qqsOf_fold (depth : Aliquot.DepthArgs) (blocks : List Str) : ∀ (st : List Str × Bool),
    blocks.foldl (qqStep' depth) st =
    (st.1 ++ blocks.flatMap (fun b => (blockQQ depth b).1), st.2 || blocks.any (fun b => (blockQQ depth b).2)) := by
  induction blocks with
  | nil => intro st; simp
  | cons b bs ih =>
    intro st
    rw [List.foldl_cons, ih, List.flatMap_cons, List.any_cons]
    have h1 : qqStep' depth st b = (st.1 ++ (blockQQ depth b).1, st.2 || (blockQQ depth b).2) := by
      unfold qqStep' blockQQ
      cases Aliquot.parseAliquot b depth <;> simp
    rw [h1]
    simp [Bool.or_assoc]

/-- the QQs (and the divergence mark) of a list of blocks are those of each block alone, in order -/
theorem qqsOf_blocks (depth : Aliquot.DepthArgs) (blocks : List Str) :
    qqsOf depth blocks = (blocks.flatMap (fun b => (blockQQ depth b).1), blocks.any (fun b => (blockQQ depth b).2)) := by
  rw [qqsOf_eq', qqsOf_fold]
  simp

theorem qqsOf_one (depth : Aliquot.DepthArgs) (b : Str) : qqsOf depth [b] = blockQQ depth b := by
  rw [qqsOf_blocks]
  simp

theorem flatMap_congr_mem {α β : Type} (l : List α) (f g : α → List β) (h : ∀ x ∈ l, f x = g x) :
    l.flatMap f = l.flatMap g := by
  induction l with
  | nil => rfl
  | cons x t ih =>
    rw [List.flatMap_cons, List.flatMap_cons, h x (by simp), ih (fun y hy => h y (List.mem_cons_of_mem _ hy))]

theorem any_congr_mem {α : Type} (l : List α) (f g : α → Bool) (h : ∀ x ∈ l, f x = g x) : l.any f = l.any g := by
  induction l with
  | nil => rfl
  | cons x t ih =>
    rw [List.any_cons, List.any_cons, h x (by simp), ih (fun y hy => h y (List.mem_cons_of_mem _ hy))]

theorem chainsOf_ne_nil (c0 : List Comp) (es : List (Sep × List Comp)) (h0 : c0 ≠ []) (hes : ∀ e ∈ es, e.2 ≠ []) :
    ∀ c ∈ chainsOf c0 es, c ≠ [] := by
  intro c hc
  simp only [chainsOf, List.mem_cons, List.mem_map] at hc
  rcases hc with rfl | ⟨e, he, rfl⟩
  · exact h0
  · exact hes e he

/-- **C06 (chains on text, compositional form)**: the result for the whole text is the concatenation, in order, of what the
    parser yields for each chain on its own -/
theorem C06_chains_text_compositional_mixed (c0 : List Comp) (es : List (Sep × List Comp)) (h0 : c0 ≠ [])
    (hes : ∀ e ∈ es, e.2 ≠ []) (a : ParseArgs) (inh : Flags) :
    ∃ r, tractParseRaw (chainsText c0 es) a inh = .ok r ∧ r.text = chainsText c0 es ∧ r.lots = [] ∧ r.lotAcres = [] ∧
      r.qqs = (chainsOf c0 es).flatMap (fun c => (parseAlone (chainText c) a).qqs) ∧
      r.aliquotsWhole = (chainsOf c0 es).flatMap (fun c => (parseAlone (chainText c) a).aliquotsWhole) ∧
      r.diverged = (chainsOf c0 es).any (fun c => (parseAlone (chainText c) a).diverged) ∧
      r.flags = dupFlags inh [] r.qqs := by
  have hall := chainsOf_ne_nil c0 es h0 hes
  refine ⟨_, C06_chains_text_parse c0 es h0 hes a inh, rfl, rfl, rfl, ?_, ?_, ?_, rfl⟩
  · show (qqsOf a.depth ((chainsOf c0 es).map chainText)).1 = _
    rw [qqsOf_blocks, List.flatMap_map]
    apply flatMap_congr_mem
    intro c hc
    rw [parseAlone_chain c (hall c hc), qqsOf_one]
  · show (chainsOf c0 es).map (fun c => removeFractions (chainText c)) = _
    rw [← List.flatMap_singleton' ((chainsOf c0 es).map _), List.flatMap_map]
    apply flatMap_congr_mem
    intro c hc
    rw [parseAlone_chain c (hall c hc)]
  · show (qqsOf a.depth ((chainsOf c0 es).map chainText)).2 = _
    rw [qqsOf_blocks, List.any_map]
    apply any_congr_mem
    intro c hc
    simp only [Function.comp_def]
    rw [parseAlone_chain c (hall c hc), qqsOf_one]

/-! #### the same for `sep.join(chains)` -/

theorem intercalate_cons_flatMap (sep a : Str) (l : List Str) :
    sep.intercalate (a :: l) = a ++ l.flatMap (fun b => sep ++ b) := by
  induction l generalizing a with
  | nil => simp [List.intercalate, List.intersperse]
  | cons b t ih =>
    have e : sep.intercalate (a :: b :: t) = a ++ sep ++ sep.intercalate (b :: t) := by
      simp [List.intercalate, List.intersperse]
    rw [e, ih]
    simp

theorem joined_eq_chainsText (sep : Sep) (c0 : List Comp) (cs : List (List Comp)) :
    sep.text.intercalate ((c0 :: cs).map chainText) = chainsText c0 (cs.map (fun c => (sep, c))) := by
  rw [List.map_cons, intercalate_cons_flatMap]
  simp [chainsText, List.flatMap_map]

theorem chainsOf_map (sep : Sep) (c0 : List Comp) (cs : List (List Comp)) :
    chainsOf c0 (cs.map (fun c => (sep, c))) = c0 :: cs := by
  simp [chainsOf, Function.comp_def]

/-- the empty description -/
theorem tractParseRaw_nil (a : ParseArgs) (inh : Flags) :
    tractParseRaw [] a inh = .ok
      { text := [], lots := [], qqs := [], lotAcres := [], aliquotsWhole := [], flags := inh, diverged := false } := by
  have hfix : scrubAliquots [] a.cleanQQ = some [] := C07_canonical_tokens_fixed [] _
  unfold tractParseRaw
  rw [hfix]
  simp only []
  rw [show ([] : Str).length + 2 = 1 + 1 from rfl, extractLots_none [] (by simp)]
  simp only [lotBlocksFold]
  rw [show ([] : Str).length + 2 = 1 + 1 from rfl, extractAliquots, au_search_seps [] (by simp)]
  simp only [aliquotBlocksOf_seps [] [] (by simp)]
  rfl

/-- **C06_chains_text_compositional**: for every list of non-empty canonical chains, joined by ", " (or by "; "): the parse of
    the joined text reports no lots, and its QQs / whole aliquots are literally the concatenation, in order, of what the parser
    reports for each chain on its own; the recorded text is the text; it diverges iff one of the chains alone does; the only
    flag that can be added is the duplicate-QQ warning. -/
theorem C06_chains_text_compositional (sep : Sep) (chains : List (List Comp)) (hne : ∀ c ∈ chains, c ≠ [])
    (a : ParseArgs) (inh : Flags) :
    ∃ r, tractParseRaw (sep.text.intercalate (chains.map chainText)) a inh = .ok r ∧
      r.text = sep.text.intercalate (chains.map chainText) ∧ r.lots = [] ∧ r.lotAcres = [] ∧
      r.qqs = chains.flatMap (fun c => (parseAlone (chainText c) a).qqs) ∧
      r.aliquotsWhole = chains.flatMap (fun c => (parseAlone (chainText c) a).aliquotsWhole) ∧
      r.diverged = chains.any (fun c => (parseAlone (chainText c) a).diverged) ∧
      r.flags = dupFlags inh [] r.qqs := by
  cases chains with
  | nil =>
    refine ⟨_, tractParseRaw_nil a inh, rfl, rfl, rfl, rfl, rfl, rfl, ?_⟩
    simp [dupFlags, findDuplicates, findDuplicates.go]
  | cons c0 cs =>
    have := C06_chains_text_compositional_mixed c0 (cs.map (fun c => (sep, c))) (hne c0 (by simp))
      (by intro e he; simp only [List.mem_map] at he; obtain ⟨c, hc, rfl⟩ := he; exact hne c (by simp [hc])) a inh
    rw [← joined_eq_chainsText, chainsOf_map] at this
    exact this

/-- the duplicate warning: with no lots, `gen_flags` adds the `dup_qq<…>` warning (and nothing else) exactly when the
    concatenation contains a QQ twice -/
theorem C06_dupFlags_no_lots (inh : Flags) (qqs : List Str) :
    (qqs.Nodup → dupFlags inh [] qqs = inh) ∧
    (¬ qqs.Nodup → dupFlags inh [] qqs =
      addW inh ("dup_qq<".toList ++ pyJoin ",".toList (findDuplicates qqs) ++ ">".toList)
        ("dup_qq<".toList ++ pyJoin ",".toList (findDuplicates qqs) ++ ">".toList)) := by
  have h0 : (findDuplicates ([] : List Str)).isEmpty = true := rfl
  constructor
  · intro hn
    have : (findDuplicates qqs).isEmpty = true := by
      cases hb : (findDuplicates qqs).isEmpty with
      | true => rfl
      | false => exact absurd hn ((C06_dup_flag_iff qqs).mp hb)
    simp [dupFlags, h0, this]
  · intro hn
    have := (C06_dup_flag_iff qqs).mpr hn
    simp [dupFlags, h0, this]

/-- **C06 (chains on text, duplicate warning)**: the `dup_qq` warning is present iff the concatenation has a duplicate -/
theorem C06_chains_text_dup_flag (sep : Sep) (chains : List (List Comp)) (hne : ∀ c ∈ chains, c ≠ [])
    (a : ParseArgs) (inh : Flags) (r : ParseResult)
    (hr : tractParseRaw (sep.text.intercalate (chains.map chainText)) a inh = .ok r) :
    (r.qqs.Nodup → r.flags = inh) ∧
    (¬ r.qqs.Nodup → r.flags =
      addW inh ("dup_qq<".toList ++ pyJoin ",".toList (findDuplicates r.qqs) ++ ">".toList)
        ("dup_qq<".toList ++ pyJoin ",".toList (findDuplicates r.qqs) ++ ">".toList)) := by
  obtain ⟨r', hr', _, _, _, _, _, _, hfl⟩ := C06_chains_text_compositional sep chains hne a inh
  rw [hr] at hr'
  cases hr'
  rw [hfl]
  exact C06_dupFlags_no_lots inh r.qqs

/-! #### geometry (C02): under the documented depth domain every chain's pieces tile that chain's region -/

/-- the pieces tile the region described by the chain (C02's conclusion, for one chain) -/
def TilesChain (a : Aliquot.DepthArgs) (chain : List Comp) (pieces : List Str) : Prop :=
  let R := match a.qqMax with | none => region chain.reverse | some m => (region chain.reverse).trunc m.toNat
  (∀ p ∈ pieces, ∃ b, pieceBox p = some b ∧ b.inside R) ∧
  pieces.Pairwise (fun p q => ∀ bp bq, pieceBox p = some bp → pieceBox q = some bq → ¬ bp.overlaps bq) ∧
  (∀ D, (∀ p ∈ pieces, ∀ b, pieceBox p = some b → b.xs.length ≤ D ∧ b.ys.length ≤ D) →
        ((pieces.filterMap pieceBox).map (Box.area D)).sum = R.area D)

/-- the pieces of one chain on its own -/
def chainPieces (a : Aliquot.DepthArgs) (chain : List Comp) : List Str := (blockQQ a (chainText chain)).1

/-- **C06 + C02 (geometry of a multi-chain description)**: with `qq_depth = None`, `1 ≤ qq_depth_min ≤ qq_depth_max` the parse
    does not diverge, the reported QQs are the concatenation over the chains of each chain's pieces, and each chain's pieces
    tile (inside, pairwise disjoint, area-exhausting) the region that chain describes. -/
theorem C06_chains_text_tiling (sep : Sep) (chains : List (List Comp)) (hne : ∀ c ∈ chains, c ≠ [])
    (a : ParseArgs) (inh : Flags)
    (hd : a.depth.qqDepth = none) (hmin : 1 ≤ a.depth.qqMin)
    (hmax : a.depth.qqMax = none ∨ (∃ m, a.depth.qqMax = some m ∧ a.depth.qqMin ≤ m)) :
    ∃ r, tractParseRaw (sep.text.intercalate (chains.map chainText)) a inh = .ok r ∧
      r.diverged = false ∧ r.lots = [] ∧
      r.qqs = chains.flatMap (chainPieces a.depth) ∧
      ∀ c ∈ chains, Aliquot.parseAliquot (chainText c) a.depth = some (chainPieces a.depth c) ∧
        TilesChain a.depth c (chainPieces a.depth c) := by
  obtain ⟨r, hr, _, hlots, _, hq, _, hdv, _⟩ := C06_chains_text_compositional sep chains hne a inh
  have hone : ∀ c ∈ chains, Aliquot.parseAliquot (chainText c) a.depth = some (chainPieces a.depth c) ∧
      TilesChain a.depth c (chainPieces a.depth c) ∧ (blockQQ a.depth (chainText c)).2 = false := by
    intro c hc
    obtain ⟨pieces, hp, ht⟩ := C02_parseAliquot_canonical_tiling c a.depth (hne c hc) hd hmin hmax
    have hb : blockQQ a.depth (chainText c) = (pieces, false) := by unfold blockQQ; rw [hp]
    have hcp : chainPieces a.depth c = pieces := by unfold chainPieces; rw [hb]
    rw [hcp, hb]
    exact ⟨hp, ht, rfl⟩
  refine ⟨r, hr, ?_, hlots, ?_, fun c hc => ⟨(hone c hc).1, (hone c hc).2.1⟩⟩
  · rw [hdv, List.any_eq_false]
    intro c hc
    rw [parseAlone_chain c (hne c hc), qqsOf_one, (hone c hc).2.2]
    simp
  · rw [hq]
    apply flatMap_congr_mem
    intro c hc
    rw [parseAlone_chain c (hne c hc), qqsOf_one]
    rfl

/-! ### an evaluator for regenerated patterns that does not mention character sets by name

`memClosed` decides `cs.mem c` for closed `cs`, `c` by kernel evaluation (the proof is `rfl`, re-checked by the kernel). -/

open Lean Meta Simp in
simproc memClosed (CharSet.mem _ _) := fun e => do
  if e.hasFVar || e.hasMVar then return .continue
  let r ← match Kernel.whnf (← getEnv) {} e with
    | .ok v => pure v
    | .error _ => return .continue
  let b ← if r.isConstOf ``Bool.true then pure true
    else if r.isConstOf ``Bool.false then pure false
    else return .continue
  let bE := toExpr b
  let pf ← mkExpectedTypeHint (mkApp2 (mkConst ``Eq.refl [1]) (mkConst ``Bool) bE) (← mkEq e bE)
  return .done { expr := bE, proof? := some pf }

theorem e_nahead_c {R : Type} (r : Rx) (p : Option Char) (c : Char) (t : Str) (pos : Nat)
    (caps : List (Nat × Nat × Nat)) (k : St → Option R) :
    (Rx.nahead r).m ⟨p, c :: t, pos, caps⟩ k = match r.m (R := St) ⟨p, c :: t, pos, caps⟩ some with
      | some _ => none
      | none => k ⟨p, c :: t, pos, caps⟩ := by
  simp only [Rx.m]; cases r.m (R := St) ⟨p, c :: t, pos, caps⟩ some <;> rfl
theorem e_nahead_n {R : Type} (r : Rx) (p : Option Char) (pos : Nat)
    (caps : List (Nat × Nat × Nat)) (k : St → Option R) :
    (Rx.nahead r).m ⟨p, [], pos, caps⟩ k = match r.m (R := St) ⟨p, [], pos, caps⟩ some with
      | some _ => none
      | none => k ⟨p, [], pos, caps⟩ := by
  simp only [Rx.m]; cases r.m (R := St) ⟨p, [], pos, caps⟩ some <;> rfl
theorem e_behind_some {R : Type} (cs : CharSet) (p : Char) (rest : Str) (pos : Nat)
    (caps : List (Nat × Nat × Nat)) (k : St → Option R) :
    (Rx.behind cs).m ⟨some p, rest, pos, caps⟩ k = if cs.mem p then k ⟨some p, rest, pos, caps⟩ else none := by
  simp only [Rx.m]
theorem e_behind_none {R : Type} (cs : CharSet) (rest : Str) (pos : Nat)
    (caps : List (Nat × Nat × Nat)) (k : St → Option R) :
    (Rx.behind cs).m ⟨none, rest, pos, caps⟩ k = none := by
  simp only [Rx.m]
theorem e_wordb_c {R : Type} (w : CharSet) (p : Option Char) (c : Char) (t : Str) (pos : Nat)
    (caps : List (Nat × Nat × Nat)) (k : St → Option R) :
    (Rx.wordb w).m ⟨p, c :: t, pos, caps⟩ k = if isWord w p != w.mem c then k ⟨p, c :: t, pos, caps⟩ else none := by
  simp only [Rx.m]; rfl
theorem e_wordb_n {R : Type} (w : CharSet) (p : Option Char) (pos : Nat)
    (caps : List (Nat × Nat × Nat)) (k : St → Option R) :
    (Rx.wordb w).m ⟨p, [], pos, caps⟩ k = if isWord w p != false then k ⟨p, [], pos, caps⟩ else none := by
  simp only [Rx.m]; rfl
theorem isWord_some (w : CharSet) (c : Char) : isWord w (some c) = w.mem c := rfl
theorem isWord_none (w : CharSet) : isWord w none = false := rfl

/-- symbolic evaluation of a pattern on a text with a known head (no character set is named) -/
macro "rxe" "[" ts:Lean.Parser.Tactic.simpLemma,* "]" : tactic =>
  `(tactic| simp [$ts,*, memClosed, Rx.seqs, Rx.alts, m_eps, m_fail, m_chr_cons, m_chr_nil, e_seq_c, e_seq_n,
      e_alt_c, e_alt_n, e_rep_c, e_rep_n, e_grp_c, e_grp_n, e_ahead_c, e_ahead_n, e_nahead_c, e_nahead_n,
      e_behind_some, e_behind_none, e_wordb_c, e_wordb_n, isWord_some, isWord_none,
      m_eos_nil, m_eos_cons2, m_eos_one, repLoop_zero, e_loop_c, e_loop_n, e_loop_done, canMore, lastOr,
      compText, Comp.str, Comp.isHalf])

/-! ### words in which no aliquot pattern can match: "Lot 12", "Lots 1 - 3", "ALL" -/

def digitChars : Str := ['0', '1', '2', '3', '4', '5', '6', '7', '8', '9']

/-- a number as written: non-empty, decimal digits -/
structure Digs where
  ds : Str
  ne : ds ≠ []
  dig : ∀ c ∈ ds, c ∈ digitChars
  le3 : ds.length ≤ 3

/-- no match of `r` starts anywhere in `w` (after `q`), whatever follows `w` -/
def Dead (r : Rx) (q : Option Char) (w : Str) : Prop :=
  ∀ rest pos adv, ∀ ps ∈ innerStates q w, matchHere r ⟨ps.1, ps.2 ++ rest, pos, []⟩ adv = none

theorem innerStates_append (a b : Str) : ∀ (q : Option Char),
    innerStates q (a ++ b) = (innerStates q a).map (fun ps => (ps.1, ps.2 ++ b)) ++ innerStates (lastOr q a) b := by
  induction a with
  | nil => intro q; simp [innerStates, lastOr]
  | cons c t ih => intro q; simp [innerStates, lastOr, ih]

theorem Dead.nil (r : Rx) (q : Option Char) : Dead r q [] := by
  intro rest pos adv ps hps; simp [innerStates] at hps

theorem Dead.append {r : Rx} {q : Option Char} {a b : Str} (ha : Dead r q a) (hb : Dead r (lastOr q a) b) :
    Dead r q (a ++ b) := by
  intro rest pos adv ps hps
  rw [innerStates_append, List.mem_append] at hps
  rcases hps with hps | hps
  · rw [List.mem_map] at hps
    obtain ⟨ps', hps', rfl⟩ := hps
    have := ha (b ++ rest) pos adv ps' hps'
    simpa [List.append_assoc] using this
  · exact hb rest pos adv ps hps

theorem Dead.cons {r : Rx} {q : Option Char} {c : Char} {w : Str}
    (h0 : ∀ rest pos adv, matchHere r ⟨q, c :: (w ++ rest), pos, []⟩ adv = none) (hw : Dead r (some c) w) :
    Dead r q (c :: w) := by
  intro rest pos adv ps hps
  simp only [innerStates, List.mem_cons] at hps
  rcases hps with rfl | hps
  · exact h0 rest pos adv
  · exact hw rest pos adv ps hps

theorem Dead.cons_rej {r : Rx} {q : Option Char} {c : Char} {w : Str} (h0 : r.rej q (some c) = true)
    (hw : Dead r (some c) w) : Dead r q (c :: w) :=
  Dead.cons (fun rest pos adv => matchHere_none_of_rej r q _ pos adv h0) hw

/-- what may stand before a token -/
def okPrevs : List (Option Char) :=
  [none, some '½', some '¼', some ' ', some 'L'] ++ digitChars.map some

/-- the one-character facts that make lot words and "ALL" dead for a pattern (decided by evaluation) -/
def lotTable (r : Rx) : Bool :=
  okPrevs.all (fun q => r.rej q (some 'L') && r.rej q (some 'A')) &&
  [(some 'L', 'o'), (some 'o', 't'), (some 't', ' '), (some 's', ' '), (some ' ', '-'), (some '-', ' '),
    (some 'A', 'L'), (some 'L', 'L')].all (fun (qc : Option Char × Char) => r.rej qc.1 (some qc.2)) &&
  digitChars.all (fun d => r.rej (some ' ') (some d) && r.rej (some d) (some ' ') &&
    digitChars.all (fun d' => r.rej (some d) (some d')))

/-- the position of the plural 's' (three patterns need two more characters to fail there) -/
def DeadTS (r : Rx) : Prop :=
  ∀ d ∈ digitChars, ∀ rest pos adv, matchHere r ⟨some 't', 's' :: ' ' :: d :: rest, pos, []⟩ adv = none

theorem deadTS_of_rej (r : Rx) (h : r.rej (some 't') (some 's') = true) : DeadTS r :=
  fun _ _ _ pos adv => matchHere_none_of_rej r _ _ pos adv h

theorem dead_digits (r : Rx) (ht : lotTable r = true) : ∀ (ds : Str), (∀ c ∈ ds, c ∈ digitChars) →
    ∀ q, (∀ d ∈ digitChars, r.rej q (some d) = true) → Dead r q ds := by
  have hdd : ∀ d ∈ digitChars, ∀ d' ∈ digitChars, r.rej (some d) (some d') = true := by
    simp only [lotTable, Bool.and_eq_true, List.all_eq_true] at ht
    exact fun d hd d' hd' => (ht.2 d hd).2 d' hd'
  intro ds
  induction ds with
  | nil => intro _ q _; exact Dead.nil r q
  | cons d t ih =>
    intro hds q hq
    exact Dead.cons_rej (hq d (hds d (by simp))) (ih (fun c hc => hds c (List.mem_cons_of_mem _ hc)) (some d)
      (fun d' hd' => hdd d (hds d (by simp)) d' hd'))

theorem lastOr_digits (ds : Str) (hne : ds ≠ []) (hds : ∀ c ∈ ds, c ∈ digitChars) (q : Option Char) :
    ∃ d ∈ digitChars, lastOr q ds = some d := by
  induction ds generalizing q with
  | nil => exact absurd rfl hne
  | cons c t ih =>
    cases t with
    | nil => exact ⟨c, hds c (by simp), rfl⟩
    | cons c' t' => exact ih (by simp) (fun x hx => hds x (List.mem_cons_of_mem _ hx)) (some c)

/-- a canonical lot word, a canonical lot range, "ALL": dead for every pattern with a good table -/
theorem dead_lot (r : Rx) (ht : lotTable r = true) (n : Digs) (q : Option Char) (hq : q ∈ okPrevs) :
    Dead r q (['L', 'o', 't', ' '] ++ n.ds) := by
  have ht' := ht
  simp only [lotTable, Bool.and_eq_true, List.all_eq_true] at ht
  obtain ⟨⟨h1, h2⟩, h3⟩ := ht
  have hp := fun (qc : Option Char × Char) hm => h2 qc hm
  show Dead r q ('L' :: 'o' :: 't' :: ' ' :: n.ds)
  refine Dead.cons_rej (h1 q hq).1 (Dead.cons_rej (hp (some 'L', 'o') (by simp)) (Dead.cons_rej (hp (some 'o', 't') (by simp))
    (Dead.cons_rej (hp (some 't', ' ') (by simp)) ?_)))
  exact dead_digits r ht' n.ds n.dig _ (fun d hd => (h3 d hd).1.1)

theorem dead_lots (r : Rx) (ht : lotTable r = true) (hts : DeadTS r) (a b : Digs) (q : Option Char) (hq : q ∈ okPrevs) :
    Dead r q (['L', 'o', 't', 's', ' '] ++ a.ds ++ ([' ', '-', ' '] ++ b.ds)) := by
  have ht' := ht
  simp only [lotTable, Bool.and_eq_true, List.all_eq_true] at ht
  obtain ⟨⟨h1, h2⟩, h3⟩ := ht
  have hp := fun (qc : Option Char × Char) hm => h2 qc hm
  obtain ⟨d0, ta, hda⟩ : ∃ d0 ta, a.ds = d0 :: ta := by
    cases h : a.ds with
    | nil => exact absurd h a.ne
    | cons d t => exact ⟨d, t, rfl⟩
  obtain ⟨dl, hdl, hlast⟩ := lastOr_digits a.ds a.ne a.dig (some ' ')
  show Dead r q ('L' :: 'o' :: 't' :: 's' :: ' ' :: a.ds ++ (' ' :: '-' :: ' ' :: b.ds))
  have hrest : Dead r (some ' ') (a.ds ++ (' ' :: '-' :: ' ' :: b.ds)) := by
    refine Dead.append (dead_digits r ht' a.ds a.dig _ (fun d hd => (h3 d hd).1.1)) ?_
    rw [hlast]
    refine Dead.cons_rej (h3 dl hdl).1.2 (Dead.cons_rej (hp (some ' ', '-') (by simp))
      (Dead.cons_rej (hp (some '-', ' ') (by simp)) ?_))
    exact dead_digits r ht' b.ds b.dig _ (fun d hd => (h3 d hd).1.1)
  refine Dead.cons_rej (h1 q hq).1 (Dead.cons_rej (hp (some 'L', 'o') (by simp)) (Dead.cons_rej (hp (some 'o', 't') (by simp))
    (Dead.cons ?_ (Dead.cons_rej (hp (some 's', ' ') (by simp)) hrest))))
  have hd0 : d0 ∈ digitChars := a.dig d0 (by rw [hda]; simp)
  intro rest pos adv
  rw [hda]
  exact hts d0 hd0 _ pos adv

theorem dead_all (r : Rx) (ht : lotTable r = true) (q : Option Char) (hq : q ∈ okPrevs) :
    Dead r q ['A', 'L', 'L'] := by
  simp only [lotTable, Bool.and_eq_true, List.all_eq_true] at ht
  obtain ⟨⟨h1, h2⟩, h3⟩ := ht
  have hp := fun (qc : Option Char × Char) hm => h2 qc hm
  show Dead r q ('A' :: 'L' :: 'L' :: [])
  exact Dead.cons_rej (h1 q hq).2 (Dead.cons_rej (hp (some 'A', 'L') (by simp)) (Dead.cons_rej (hp (some 'L', 'L') (by simp))
    (Dead.nil _ _)))

/-! ### a greedy `(component)+` loop all of whose exits fail -/

theorem lastOr_comp (q : Option Char) (c : Comp) : lastOr q (compText c) = some '½' ∨ lastOr q (compText c) = some '¼' := by
  cases c <;> simp [compText, Comp.str, Comp.isHalf, lastOr]

/-- if what follows the loop fails at every cursor reached after one or more components (and the body cannot enter `rest`),
    the loop fails -/
theorem loop_fails {R : Type} (body : Rx) (rest : Str)
    (hstep : ∀ (c : Comp) (prev : Option Char) (rest : Str) (pos : Nat) (caps : List (Nat × Nat × Nat))
      (k : St → Option R), ∃ caps', body.m ⟨prev, compText c ++ rest, pos, caps⟩ k =
        k ⟨lastOr prev (compText c), rest, pos + (compText c).length, caps'⟩)
    (hrest : ∀ (prev : Option Char) (pos : Nat) (caps : List (Nat × Nat × Nat)) (k : St → Option R),
      body.m ⟨prev, rest, pos, caps⟩ k = none)
    (K : St → Option R)
    (hK : ∀ (cs : List Comp) (g : Char) (pos : Nat) (caps : List (Nat × Nat × Nat)), (g = '½' ∨ g = '¼') →
      K ⟨some g, chainText cs ++ rest, pos, caps⟩ = none) :
    ∀ (fuel : Nat) (chain : List Comp) (count : Nat) (last : Option Nat) (prev : Option Char) (pos : Nat)
      (caps : List (Nat × Nat × Nat)), (count = 0 ∨ prev = some '½' ∨ prev = some '¼') →
      repLoop body.m 1 none fuel count last ⟨prev, chainText chain ++ rest, pos, caps⟩ K = none := by
  intro fuel
  induction fuel with
  | zero => intro chain count last prev pos caps _; rfl
  | succ n ih =>
    intro chain count last prev pos caps hc
    have hbody : ∀ (l : Option Nat) (cnt : Nat),
        body.m ⟨prev, chainText chain ++ rest, pos, caps⟩ (fun s' => repLoop body.m 1 none n cnt l s' K) = none := by
      intro l cnt
      cases chain with
      | nil => exact hrest _ _ _ _
      | cons c cs =>
        rw [C02_chainText_cons, List.append_assoc]
        obtain ⟨caps', h1⟩ := hstep c prev (chainText cs ++ rest) pos caps (fun s' => repLoop body.m 1 none n cnt l s' K)
        rw [h1]
        exact ih cs cnt l _ _ caps' (Or.inr (lastOr_comp prev c))
    rw [repLoop_succ]
    split
    · exact hbody _ _
    · rename_i hlt
      have hprev : prev = some '½' ∨ prev = some '¼' := by
        rcases hc with h | h
        · omega
        · exact h
      have hKs : K ⟨prev, chainText chain ++ rest, pos, caps⟩ = none := by
        rcases hprev with h | h <;> rw [h]
        · exact hK chain '½' pos caps (Or.inl rfl)
        · exact hK chain '¼' pos caps (Or.inr rfl)
      split
      · rw [hbody, hKs]; rfl
      · exact hKs

/-- what follows a maximal chain in the texts considered: nothing, a separator, or a word beginning with 'L' / 'A' -/
def StopHead (rest : Str) : Prop := ∀ c, rest.head? = some c → c ∈ [',', ';', 'L', 'A']

/-! ### the sixteen substitutions on texts with lot words and "ALL" -/

/-- a token of the extended canonical text: a canonical token, "Lot n", "Lots a - b", or "ALL" -/
inductive XTok where
  | tok (t : Tok)
  | lot (n : Digs)
  | lots (a b : Digs)
  | all

def XTok.text : XTok → Str
  | .tok t => t.text
  | .lot n => ['L', 'o', 't', ' '] ++ n.ds
  | .lots a b => ['L', 'o', 't', 's', ' '] ++ a.ds ++ ([' ', '-', ' '] ++ b.ds)
  | .all => ['A', 'L', 'L']

def xtoksText (l : List XTok) : Str := textOf XTok.text l

theorem xtoksText_cons (t : XTok) (l : List XTok) : xtoksText (t :: l) = t.text ++ xtoksText l :=
  textOf_cons XTok.text t l

theorem XTok.text_ne_nil (t : XTok) : t.text ≠ [] := by
  cases t with
  | tok t => cases t with
    | comp c => cases c <;> simp [XTok.text, Tok.text, compText, Comp.str, Comp.isHalf]
    | comma => simp [XTok.text, Tok.text]
    | semi => simp [XTok.text, Tok.text]
  | lot n => simp [XTok.text]
  | lots a b => simp [XTok.text]
  | all => simp [XTok.text]

/-- what can follow a canonical token in the texts considered -/
def RestX (rest : Str) : Prop :=
  rest = [] ∨ (∃ (tok : Tok) (rest' : Str), rest = tok.text ++ rest') ∨ (∃ t, rest = 'L' :: t) ∨ (∃ t, rest = 'A' :: t)

/-- … seen as a (possibly empty) run of components followed by something that is not a component -/
def ChainRest (rest : Str) : Prop := ∃ (chain : List Comp) (rest' : Str), rest = chainText chain ++ rest' ∧ StopHead rest'

theorem restX_xtoks (toks : List XTok) : RestX (xtoksText toks) := by
  cases toks with
  | nil => exact Or.inl rfl
  | cons t l =>
    rw [xtoksText_cons]
    cases t with
    | tok t => exact Or.inr (Or.inl ⟨t, _, rfl⟩)
    | lot n => exact Or.inr (Or.inr (Or.inl ⟨_, rfl⟩))
    | lots a b => exact Or.inr (Or.inr (Or.inl ⟨_, rfl⟩))
    | all => exact Or.inr (Or.inr (Or.inr ⟨_, rfl⟩))

theorem StopHead.nil : StopHead [] := fun _ h => by cases h
theorem StopHead.cons {c : Char} (t : Str) (h : c ∈ [',', ';', 'L', 'A']) : StopHead (c :: t) := by
  intro d hd; simp only [List.head?_cons, Option.some.injEq] at hd; subst hd; exact h

theorem chainRest_xtoks (toks : List XTok) : ChainRest (xtoksText toks) := by
  induction toks with
  | nil => exact ⟨[], [], rfl, StopHead.nil⟩
  | cons t l ih =>
    rw [xtoksText_cons]
    cases t with
    | tok t =>
      cases t with
      | comp c =>
        obtain ⟨chain, rest', h, hs⟩ := ih
        exact ⟨c :: chain, rest', by rw [h, C02_chainText_cons, List.append_assoc]; rfl, hs⟩
      | comma => exact ⟨[], _, rfl, StopHead.cons _ (by simp)⟩
      | semi => exact ⟨[], _, rfl, StopHead.cons _ (by simp)⟩
    | lot n => exact ⟨[], _, rfl, StopHead.cons _ (by simp)⟩
    | lots a b => exact ⟨[], _, rfl, StopHead.cons _ (by simp)⟩
    | all => exact ⟨[], _, rfl, StopHead.cons _ (by simp)⟩

theorem RestX.okRest_or {rest : Str} (h : RestX rest) : OkRest rest ∨ (∃ t, rest = 'L' :: t) ∨ (∃ t, rest = 'A' :: t) := by
  rcases h with rfl | ⟨tok, rest', rfl⟩ | h | h
  · exact Or.inl (Or.inl rfl)
  · left
    have := okRest_toks [tok]
    rcases this with h | ⟨ch, t, ht, hc⟩
    · cases tok with
      | comp c => cases c <;> simp [toksText, Tok.text, compText, Comp.str, Comp.isHalf] at h
      | comma => simp [toksText, Tok.text] at h
      | semi => simp [toksText, Tok.text] at h
    · right
      refine ⟨ch, t ++ rest', ?_, hc⟩
      simp only [toksText, List.flatMap_cons, List.flatMap_nil, List.append_nil] at ht
      rw [ht]; rfl
  · exact Or.inr (Or.inl h)
  · exact Or.inr (Or.inr h)

/-- the start behaviour on a canonical token in an extended text: an exact hit that rewrites the token by itself, or no match -/
def TokStart (r : Rx) (f : Match → Str) : Prop :=
  ∀ (t : Tok) (rest : Str) (prev : Option Char) (pos : Nat) (adv : Bool), RestX rest → ChainRest rest → prev ∈ okPrevs →
    (∃ caps, matchHere r ⟨prev, t.text ++ rest, pos, []⟩ adv = some ⟨pos, pos + t.text.length, caps⟩ ∧
      f ⟨pos, pos + t.text.length, caps⟩ = t.text) ∨
    matchHere r ⟨prev, t.text ++ rest, pos, []⟩ adv = none

theorem LA_L {R : Type} (p : Option Char) (t : Str) (pos : Nat) (caps : List (Nat × Nat × Nat)) (k : St → Option R) :
    LA.m ⟨p, 'L' :: t, pos, caps⟩ k = none := Rx.rejH_none (some 'L') LA _ _ (by decide +kernel) rfl
theorem LA_A {R : Type} (p : Option Char) (t : Str) (pos : Nat) (caps : List (Nat × Nat × Nat)) (k : St → Option R) :
    LA.m ⟨p, 'A' :: t, pos, caps⟩ k = none := Rx.rejH_none (some 'A') LA _ _ (by decide +kernel) rfl

theorem digit_word : ∀ d ∈ digitChars, Gen.cs_14d6aa8a.mem d = true := by decide +kernel
theorem L_word : Gen.cs_14d6aa8a.mem 'L' = true := by decide +kernel

theorem tokStart_family (X : Rx) (c : Comp) (cs : CharSet)
    (hshape : X = .seq (LBof cs) (.seq (coreOf X) LA))
    (hcs : cs.mem '½' = true ∧ cs.mem '¼' = true ∧ cs.mem 'L' = false)
    (hhit : ∀ (prev : Option Char) (rest : Str) (pos : Nat) (caps : List (Nat × Nat × Nat)) (k : St → Option Match),
      ∃ caps', (coreOf X).m ⟨prev, compText c ++ rest, pos, caps⟩ k =
        k ⟨lastOr prev (compText c), rest, pos + (compText c).length, caps'⟩)
    (hmiss : ∀ (tok : Tok), tok ≠ .comp c → ∀ (prev : Option Char) (rest : Str) (pos : Nat) (caps : List (Nat × Nat × Nat))
      (k : St → Option Match), (coreOf X).m ⟨prev, tok.text ++ rest, pos, caps⟩ k = none) :
    TokStart X (fun _ => compText c) := by
  generalize coreOf X = core at hshape hhit hmiss
  subst hshape
  obtain ⟨hc1, hc2, hcL⟩ := hcs
  intro tok rest prev pos adv hrest _ hp
  by_cases htok : tok = .comp c
  · subst htok
    obtain ⟨ch, t, hct, hw⟩ := comp_head_word c
    show (∃ caps, matchHere _ ⟨prev, compText c ++ rest, pos, []⟩ adv = some ⟨pos, pos + (compText c).length, caps⟩ ∧ _) ∨
      matchHere _ ⟨prev, compText c ++ rest, pos, []⟩ adv = none
    -- the previous character: one after which the look-behind succeeds, or a word character after which it fails
    have hprev : (prev = none ∨ ∃ p, prev = some p ∧ (cs.mem p = true ∨ Gen.cs_14d6aa8a.mem p = false)) ∨
        (∃ p, prev = some p ∧ cs.mem p = false ∧ Gen.cs_14d6aa8a.mem p = true) := by
      simp only [okPrevs, List.mem_append, List.mem_cons, List.mem_map, List.not_mem_nil, or_false] at hp
      rcases hp with (rfl | rfl | rfl | rfl | rfl) | ⟨d, hd, rfl⟩
      · exact Or.inl (Or.inl rfl)
      · exact Or.inl (Or.inr ⟨_, rfl, Or.inl hc1⟩)
      · exact Or.inl (Or.inr ⟨_, rfl, Or.inl hc2⟩)
      · exact Or.inl (Or.inr ⟨_, rfl, Or.inr w_blank⟩)
      · exact Or.inr ⟨_, rfl, hcL, L_word⟩
      · by_cases hd' : cs.mem d = true
        · exact Or.inl (Or.inr ⟨d, rfl, Or.inl hd'⟩)
        · exact Or.inr ⟨d, rfl, by simpa using hd', digit_word d hd⟩
    rcases hprev with hprev | ⟨p, rfl, hpc, hpw⟩
    · obtain ⟨caps', hc⟩ := hhit prev rest pos [(1, pos, pos)]
        (fun s' => LA.m s' (fun s' => if (adv && s'.pos == pos) = true then none else some ⟨pos, s'.pos, s'.caps⟩))
      have hm : matchHere (.seq (LBof cs) (.seq core LA)) ⟨prev, compText c ++ rest, pos, []⟩ adv =
          LA.m ⟨lastOr prev (compText c), rest, pos + (compText c).length, caps'⟩
            (fun s' => if (adv && s'.pos == pos) = true then none else some ⟨pos, s'.pos, s'.caps⟩) := by
        unfold matchHere
        simp only [m_seq]
        rw [hct, List.cons_append, LB_pass cs prev ch _ pos [] _ hprev hw, ← List.cons_append, ← hct]
        exact hc
      rw [hm]
      rcases hrest.okRest_or with hok | ⟨t', rfl⟩ | ⟨t', rfl⟩
      · left
        refine ⟨(12, pos + (compText c).length, pos + (compText c).length) :: caps', ?_, rfl⟩
        rw [LA_pass _ _ _ _ _ hok]
        have hl := C02_compText_length c
        have : (pos + (compText c).length == pos) = false := by
          simp only [beq_eq_false_iff_ne, ne_eq]; omega
        simp [this]
      · right; exact LA_L _ _ _ _ _
      · right; exact LA_A _ _ _ _ _
    · right
      rw [hct, List.cons_append]
      exact matchHere_LB_block cs _ p ch _ pos adv hpc (by rw [hpw, hw])
  · right
    unfold matchHere
    simp only [m_seq]
    apply LB_none
    intro caps'
    exact hmiss tok htok prev _ pos caps' _

theorem ne_tokStart : TokStart Gen.ne_regex (fun _ => compText .NE) :=
  tokStart_family Gen.ne_regex .NE _ ne_shape (by decide +kernel) ne_hit ne_miss
theorem nw_tokStart : TokStart Gen.nw_regex (fun _ => compText .NW) :=
  tokStart_family Gen.nw_regex .NW _ nw_shape (by decide +kernel) nw_hit nw_miss
theorem se_tokStart : TokStart Gen.se_regex (fun _ => compText .SE) :=
  tokStart_family Gen.se_regex .SE _ se_shape (by decide +kernel) se_hit se_miss
theorem sw_tokStart : TokStart Gen.sw_regex (fun _ => compText .SW) :=
  tokStart_family Gen.sw_regex .SW _ sw_shape (by decide +kernel) sw_hit sw_miss
theorem n2_tokStart : TokStart Gen.n2_regex (fun _ => compText .N) :=
  tokStart_family Gen.n2_regex .N _ n2_shape (by decide +kernel) n2_hit n2_miss
theorem s2_tokStart : TokStart Gen.s2_regex (fun _ => compText .S) :=
  tokStart_family Gen.s2_regex .S _ s2_shape (by decide +kernel) s2_hit s2_miss
theorem e2_tokStart : TokStart Gen.e2_regex (fun _ => compText .E) :=
  tokStart_family Gen.e2_regex .E _ e2_shape (by decide +kernel) e2_hit e2_miss
theorem w2_tokStart : TokStart Gen.w2_regex (fun _ => compText .W) :=
  tokStart_family Gen.w2_regex .W _ w2_shape (by decide +kernel) w2_hit w2_miss

theorem tokStart_clean (X : Rx) (c : Comp)
    (hhit : ∀ (prev : Option Char) (rest : Str) (pos : Nat) (adv : Bool),
      ∃ caps, matchHere X ⟨prev, compText c ++ rest, pos, []⟩ adv = some ⟨pos, pos + (compText c).length, caps⟩)
    (hmiss : ∀ (tok : Tok), tok ≠ .comp c → ∀ (prev : Option Char) (rest : Str) (pos : Nat) (adv : Bool),
      matchHere X ⟨prev, tok.text ++ rest, pos, []⟩ adv = none) :
    TokStart X (fun _ => compText c) := by
  intro tok rest prev pos adv _ _ _
  by_cases htok : tok = .comp c
  · subst htok
    obtain ⟨caps, h⟩ := hhit prev rest pos adv
    exact Or.inl ⟨caps, h, rfl⟩
  · exact Or.inr (hmiss tok htok prev rest pos adv)

theorem nec_hitX (prev : Option Char) (rest : Str) (pos : Nat) (adv : Bool) :
    ∃ caps, matchHere Gen.ne_clean ⟨prev, compText .NE ++ rest, pos, []⟩ adv = some ⟨pos, pos + (compText .NE).length, caps⟩ := by
  have h3 : ¬ (pos + 1 + 1 + 1 = pos) := by omega
  rxe [matchHere, Gen.ne_clean, h3]
theorem nec_missX (tok : Tok) (h : tok ≠ .comp .NE) (prev : Option Char) (rest : Str) (pos : Nat) (adv : Bool) :
    matchHere Gen.ne_clean ⟨prev, tok.text ++ rest, pos, []⟩ adv = none := by
  cases tok with
  | comp c => cases c <;> first | exact absurd rfl h | rxe [matchHere, Gen.ne_clean, Tok.text]
  | comma => rxe [matchHere, Gen.ne_clean, Tok.text]
  | semi => rxe [matchHere, Gen.ne_clean, Tok.text]
theorem nwc_hitX (prev : Option Char) (rest : Str) (pos : Nat) (adv : Bool) :
    ∃ caps, matchHere Gen.nw_clean ⟨prev, compText .NW ++ rest, pos, []⟩ adv = some ⟨pos, pos + (compText .NW).length, caps⟩ := by
  have h3 : ¬ (pos + 1 + 1 + 1 = pos) := by omega
  rxe [matchHere, Gen.nw_clean, h3]
theorem nwc_missX (tok : Tok) (h : tok ≠ .comp .NW) (prev : Option Char) (rest : Str) (pos : Nat) (adv : Bool) :
    matchHere Gen.nw_clean ⟨prev, tok.text ++ rest, pos, []⟩ adv = none := by
  cases tok with
  | comp c => cases c <;> first | exact absurd rfl h | rxe [matchHere, Gen.nw_clean, Tok.text]
  | comma => rxe [matchHere, Gen.nw_clean, Tok.text]
  | semi => rxe [matchHere, Gen.nw_clean, Tok.text]
theorem sec_hitX (prev : Option Char) (rest : Str) (pos : Nat) (adv : Bool) :
    ∃ caps, matchHere Gen.se_clean ⟨prev, compText .SE ++ rest, pos, []⟩ adv = some ⟨pos, pos + (compText .SE).length, caps⟩ := by
  have h3 : ¬ (pos + 1 + 1 + 1 = pos) := by omega
  rxe [matchHere, Gen.se_clean, h3]
theorem sec_missX (tok : Tok) (h : tok ≠ .comp .SE) (prev : Option Char) (rest : Str) (pos : Nat) (adv : Bool) :
    matchHere Gen.se_clean ⟨prev, tok.text ++ rest, pos, []⟩ adv = none := by
  cases tok with
  | comp c => cases c <;> first | exact absurd rfl h | rxe [matchHere, Gen.se_clean, Tok.text]
  | comma => rxe [matchHere, Gen.se_clean, Tok.text]
  | semi => rxe [matchHere, Gen.se_clean, Tok.text]
theorem swc_hitX (prev : Option Char) (rest : Str) (pos : Nat) (adv : Bool) :
    ∃ caps, matchHere Gen.sw_clean ⟨prev, compText .SW ++ rest, pos, []⟩ adv = some ⟨pos, pos + (compText .SW).length, caps⟩ := by
  have h3 : ¬ (pos + 1 + 1 + 1 = pos) := by omega
  rxe [matchHere, Gen.sw_clean, h3]
theorem swc_missX (tok : Tok) (h : tok ≠ .comp .SW) (prev : Option Char) (rest : Str) (pos : Nat) (adv : Bool) :
    matchHere Gen.sw_clean ⟨prev, tok.text ++ rest, pos, []⟩ adv = none := by
  cases tok with
  | comp c => cases c <;> first | exact absurd rfl h | rxe [matchHere, Gen.sw_clean, Tok.text]
  | comma => rxe [matchHere, Gen.sw_clean, Tok.text]
  | semi => rxe [matchHere, Gen.sw_clean, Tok.text]

theorem nec_tokStart : TokStart Gen.ne_clean (fun _ => compText .NE) := tokStart_clean _ _ nec_hitX nec_missX
theorem nwc_tokStart : TokStart Gen.nw_clean (fun _ => compText .NW) := tokStart_clean _ _ nwc_hitX nwc_missX
theorem sec_tokStart : TokStart Gen.se_clean (fun _ => compText .SE) := tokStart_clean _ _ sec_hitX sec_missX
theorem swc_tokStart : TokStart Gen.sw_clean (fun _ => compText .SW) := tokStart_clean _ _ swc_hitX swc_missX

/-! `half_plus_q_regex` -/

theorem hpq_rep_noneX (rest : Str) (h : RestX rest) (prev : Option Char) (pos : Nat) (caps : List (Nat × Nat × Nat))
    (k : St → Option Match) :
    (tailOf (tailOf Gen.half_plus_q_regex)).m ⟨prev, rest, pos, caps⟩ k = none := by
  rcases h with rfl | ⟨tok', rest', rfl⟩ | ⟨t, rfl⟩ | ⟨t, rfl⟩
  · rxe [Gen.half_plus_q_regex, tailOf]
  · cases tok' with
    | comp c' => cases c' <;> cases rest' <;> rxe [Gen.half_plus_q_regex, tailOf, Tok.text]
    | comma => rxe [Gen.half_plus_q_regex, tailOf, Tok.text]
    | semi => rxe [Gen.half_plus_q_regex, tailOf, Tok.text]
  · rxe [Gen.half_plus_q_regex, tailOf]
  · rxe [Gen.half_plus_q_regex, tailOf]

theorem hpq_tail_noneX (tok : Tok) (rest : Str) (h : RestX rest) (prev : Option Char) (pos : Nat)
    (caps : List (Nat × Nat × Nat)) (k : St → Option Match) :
    (Rx.seq (headOf (tailOf Gen.half_plus_q_regex)) (tailOf (tailOf Gen.half_plus_q_regex))).m
      ⟨prev, tok.text ++ rest, pos, caps⟩ k = none := by
  rw [m_seq]
  cases tok with
  | comp c =>
    cases c
    case N => rxe [Gen.half_plus_q_regex, tailOf, headOf, Tok.text]; exact hpq_rep_noneX _ h _ _ _ _
    case S => rxe [Gen.half_plus_q_regex, tailOf, headOf, Tok.text]; exact hpq_rep_noneX _ h _ _ _ _
    case E => rxe [Gen.half_plus_q_regex, tailOf, headOf, Tok.text]; exact hpq_rep_noneX _ h _ _ _ _
    case W => rxe [Gen.half_plus_q_regex, tailOf, headOf, Tok.text]; exact hpq_rep_noneX _ h _ _ _ _
    all_goals rxe [Gen.half_plus_q_regex, tailOf, headOf, Tok.text]
  | comma => rxe [Gen.half_plus_q_regex, tailOf, headOf, Tok.text]
  | semi => rxe [Gen.half_plus_q_regex, tailOf, headOf, Tok.text]

theorem hpq_tokStart (f : Match → Str) : TokStart Gen.half_plus_q_regex f := by
  intro tok rest prev pos adv hrest _ _
  right
  unfold matchHere
  rw [hpq_shape, m_seq]
  apply LB_none
  intro caps'
  exact hpq_tail_noneX tok rest hrest prev pos caps' _

/-! `aliquot_intervener_remover_regex` -/

theorem head_chain_stop (cs : List Comp) (rest : Str) (h : StopHead rest) :
    (chainText cs ++ rest).head? ∈ [none, some 'N', some 'S', some 'E', some 'W', some ',', some ';', some 'L', some 'A'] := by
  cases cs with
  | nil =>
    cases rest with
    | nil => simp [chainText]
    | cons c t =>
      have := h c rfl
      simp only [List.mem_cons, List.not_mem_nil, or_false] at this
      rcases this with rfl | rfl | rfl | rfl <;> simp [chainText]
  | cons c cs' => cases c <;> simp [C02_chainText_cons, compText, Comp.str, Comp.isHalf]

theorem iv_tokStart (f : Match → Str) : TokStart Gen.aliquot_intervener_remover_regex f := by
  intro tok rest prev pos adv _ hchain _
  right
  cases tok with
  | comp c =>
    obtain ⟨chain, rest', rfl, hstop⟩ := hchain
    have htxt : (Tok.comp c).text ++ (chainText chain ++ rest') = chainText (c :: chain) ++ rest' := by
      rw [C02_chainText_cons, List.append_assoc]; rfl
    rw [htxt]
    unfold matchHere
    rw [iv_shape, m_seq, m_grp, m_rep]
    have hrej : ∀ g ∈ ['½', '¼'], ∀ h ∈ [none, some 'N', some 'S', some 'E', some 'W', some ',', some ';', some 'L', some 'A'],
        (tailOf Gen.aliquot_intervener_remover_regex).rej (some g) h = true := by decide +kernel
    have hbody : ∀ h ∈ [none, some ',', some ';', some 'L', some 'A'], ivBody.rejH h = true := by decide +kernel
    apply loop_fails ivBody rest' iv_body_comp
    · intro prev' pos' caps' k'
      apply Rx.rejH_none _ ivBody _ _ _ rfl
      apply hbody
      cases rest' with
      | nil => simp
      | cons ch t =>
        have := hstop ch rfl
        simp only [List.mem_cons, List.not_mem_nil, or_false] at this
        rcases this with rfl | rfl | rfl | rfl <;> simp
    · intro cs g pos' caps' hg
      apply Rx.rej_none (some g) _ _ _ _ _ rfl rfl
      exact hrej g (by rcases hg with rfl | rfl <;> simp) _ (head_chain_stop cs rest' hstop)
    · exact Or.inl rfl
  | comma =>
    have : Gen.aliquot_intervener_remover_regex.rejH (some ',') = true := by decide +kernel
    exact matchHere_none_of_rejH _ _ (',' :: ' ' :: rest) _ _ this
  | semi =>
    have : Gen.aliquot_intervener_remover_regex.rejH (some ';') = true := by decide +kernel
    exact matchHere_none_of_rejH _ _ (';' :: ' ' :: rest) _ _ this

/-- a pattern is harmless on the extended canonical texts -/
structure Harmless (r : Rx) (f : Match → Str) : Prop where
  inner : InnerFail r
  start : TokStart r f
  nil : ∀ prev pos adv, matchHere r ⟨prev, [], pos, []⟩ adv = none
  table : lotTable r = true
  ts : DeadTS r

theorem deadTS_cases (r : Rx)
    (h : ∀ rest pos adv, ∀ d ∈ digitChars, matchHere r ⟨some 't', 's' :: ' ' :: d :: rest, pos, []⟩ adv = none) : DeadTS r :=
  fun d hd rest pos adv => h rest pos adv d hd

theorem sec_ts : DeadTS Gen.se_clean := by
  apply deadTS_cases
  intro rest pos adv d hd
  simp only [digitChars, List.mem_cons, List.not_mem_nil, or_false] at hd
  rcases hd with rfl | rfl | rfl | rfl | rfl | rfl | rfl | rfl | rfl | rfl <;> rxe [matchHere, Gen.se_clean]
theorem swc_ts : DeadTS Gen.sw_clean := by
  apply deadTS_cases
  intro rest pos adv d hd
  simp only [digitChars, List.mem_cons, List.not_mem_nil, or_false] at hd
  rcases hd with rfl | rfl | rfl | rfl | rfl | rfl | rfl | rfl | rfl | rfl <;> rxe [matchHere, Gen.sw_clean]
theorem iv_ts : DeadTS Gen.aliquot_intervener_remover_regex := by
  intro d _ rest pos adv
  rxe [matchHere, Gen.aliquot_intervener_remover_regex]

theorem ne_harmless : Harmless Gen.ne_regex (fun _ => compText .NE) :=
  ⟨ne_inner, ne_tokStart, ne_nil, by decide +kernel, deadTS_of_rej _ (by decide +kernel)⟩
theorem nw_harmless : Harmless Gen.nw_regex (fun _ => compText .NW) :=
  ⟨nw_inner, nw_tokStart, nw_nil, by decide +kernel, deadTS_of_rej _ (by decide +kernel)⟩
theorem se_harmless : Harmless Gen.se_regex (fun _ => compText .SE) :=
  ⟨se_inner, se_tokStart, se_nil, by decide +kernel, deadTS_of_rej _ (by decide +kernel)⟩
theorem sw_harmless : Harmless Gen.sw_regex (fun _ => compText .SW) :=
  ⟨sw_inner, sw_tokStart, sw_nil, by decide +kernel, deadTS_of_rej _ (by decide +kernel)⟩
theorem n2_harmless : Harmless Gen.n2_regex (fun _ => compText .N) :=
  ⟨n2_inner, n2_tokStart, n2_nil, by decide +kernel, deadTS_of_rej _ (by decide +kernel)⟩
theorem s2_harmless : Harmless Gen.s2_regex (fun _ => compText .S) :=
  ⟨s2_inner, s2_tokStart, s2_nil, by decide +kernel, deadTS_of_rej _ (by decide +kernel)⟩
theorem e2_harmless : Harmless Gen.e2_regex (fun _ => compText .E) :=
  ⟨e2_inner, e2_tokStart, e2_nil, by decide +kernel, deadTS_of_rej _ (by decide +kernel)⟩
theorem w2_harmless : Harmless Gen.w2_regex (fun _ => compText .W) :=
  ⟨w2_inner, w2_tokStart, w2_nil, by decide +kernel, deadTS_of_rej _ (by decide +kernel)⟩
theorem nec_harmless : Harmless Gen.ne_clean (fun _ => compText .NE) :=
  ⟨nec_inner, nec_tokStart, nec_nil, by decide +kernel, deadTS_of_rej _ (by decide +kernel)⟩
theorem nwc_harmless : Harmless Gen.nw_clean (fun _ => compText .NW) :=
  ⟨nwc_inner, nwc_tokStart, nwc_nil, by decide +kernel, deadTS_of_rej _ (by decide +kernel)⟩
theorem sec_harmless : Harmless Gen.se_clean (fun _ => compText .SE) :=
  ⟨sec_inner, sec_tokStart, sec_nil, by decide +kernel, sec_ts⟩
theorem swc_harmless : Harmless Gen.sw_clean (fun _ => compText .SW) :=
  ⟨swc_inner, swc_tokStart, swc_nil, by decide +kernel, swc_ts⟩
theorem hpq_harmless (f : Match → Str) : Harmless Gen.half_plus_q_regex f :=
  ⟨hpq_inner, hpq_tokStart f, hpq_nil, by decide +kernel, deadTS_of_rej _ (by decide +kernel)⟩
theorem iv_harmless (f : Match → Str) : Harmless Gen.aliquot_intervener_remover_regex f :=
  ⟨iv_inner, iv_tokStart f, iv_nil, by decide +kernel, iv_ts⟩

def OkP (p : Option Char) : Prop := p ∈ okPrevs

theorem xtok_dead {r : Rx} {f : Match → Str} (h : Harmless r f) (tok : XTok) (hn : ∀ t, tok ≠ .tok t)
    (q : Option Char) (hq : q ∈ okPrevs) : Dead r q tok.text := by
  cases tok with
  | tok t => exact absurd rfl (hn t)
  | lot n => exact dead_lot r h.table n q hq
  | lots a b => exact dead_lots r h.table h.ts a b q hq
  | all => exact dead_all r h.table q hq

theorem innerOf_sub (q : Option Char) (w : Str) : ∀ ps ∈ innerOf w, ps ∈ innerStates q w := by
  cases w with
  | nil => intro ps h; simp [innerOf] at h
  | cons c t => intro ps h; simp only [innerOf] at h; simp [innerStates, h]

theorem innerFailX {r : Rx} {f : Match → Str} (h : Harmless r f) : InnerFailG XTok.text r := by
  intro tok rest pos ps hps
  cases tok with
  | tok t => exact innerFail_bridge r h.inner t rest pos ps hps
  | lot n => exact xtok_dead h (.lot n) (fun _ e => by cases e) none (by simp [okPrevs]) rest pos false ps (innerOf_sub none _ ps hps)
  | lots a b => exact xtok_dead h (.lots a b) (fun _ e => by cases e) none (by simp [okPrevs]) rest pos false ps (innerOf_sub none _ ps hps)
  | all => exact xtok_dead h .all (fun _ e => by cases e) none (by simp [okPrevs]) rest pos false ps (innerOf_sub none _ ps hps)

theorem head_innerStates (q : Option Char) (w : Str) (hne : w ≠ []) : (q, w) ∈ innerStates q w := by
  cases w with
  | nil => exact absurd rfl hne
  | cons c t => simp [innerStates]

theorem startStepX {r : Rx} {f : Match → Str} (h : Harmless r f) : StartStepG XTok.text XTok.text OkP r f := by
  intro tok toks prev pos adv hp
  have hdead : ∀ (tk : XTok), (∀ t, tk ≠ .tok t) →
      matchHere r ⟨prev, tk.text ++ textOf XTok.text toks, pos, []⟩ adv = none := by
    intro tk hn
    exact xtok_dead h tk hn prev hp _ pos adv (prev, tk.text) (head_innerStates prev _ tk.text_ne_nil)
  cases tok with
  | tok t =>
    rcases h.start t (xtoksText toks) prev pos adv (restX_xtoks toks) (chainRest_xtoks toks) hp with ⟨caps, hm, hf⟩ | hm
    · exact Or.inl ⟨caps, hm, hf⟩
    · exact Or.inr ⟨hm, rfl⟩
  | lot n => exact Or.inr ⟨hdead (.lot n) (fun _ e => by cases e), rfl⟩
  | lots a b => exact Or.inr ⟨hdead (.lots a b) (fun _ e => by cases e), rfl⟩
  | all => exact Or.inr ⟨hdead .all (fun _ e => by cases e), rfl⟩

theorem okP_lastOr (p : Option Char) (tok : XTok) : OkP (lastOr p tok.text) := by
  have hdig : ∀ (pre : Str) (n : Digs) (q : Option Char), OkP (lastOr q (pre ++ n.ds)) := by
    intro pre n q
    rw [lastOr_append]
    obtain ⟨d, hd, hl⟩ := lastOr_digits n.ds n.ne n.dig (lastOr q pre)
    rw [hl]
    simp only [OkP, okPrevs, List.mem_append, List.mem_map]
    exact Or.inr ⟨d, hd, rfl⟩
  cases tok with
  | tok t =>
    have := okPrev_lastOr p t
    rcases this with h | h | h | h <;> simp only [XTok.text, h, OkP, okPrevs] <;> simp
  | lot n => exact hdig _ n p
  | lots a b =>
    have := hdig (['L', 'o', 't', 's', ' '] ++ a.ds ++ [' ', '-', ' ']) b p
    simpa [XTok.text, List.append_assoc] using this
  | all => simp [XTok.text, lastOr, OkP, okPrevs]

/-- **a harmless pattern leaves every extended canonical text unchanged** -/
theorem subWith_xtoks {r : Rx} {f : Match → Str} (h : Harmless r f) (toks : List XTok) :
    r.subWith (xtoksText toks) f = xtoksText toks :=
  subWithG XTok.text XTok.text OkP r f (innerFailX h) XTok.text_ne_nil okP_lastOr (by simp [OkP, okPrevs]) (startStepX h)
    h.nil toks

theorem scrubStep_xtoks (name : String) (hn : name ∈ Gen.QQ_SCRUBBER_REGEXES ++ Gen.QQ_CLEAN_REGEXES) (toks : List XTok) :
    scrubStep name (xtoksText toks) = xtoksText toks := by
  simp only [Gen.QQ_SCRUBBER_REGEXES, Gen.QQ_CLEAN_REGEXES, List.cons_append, List.nil_append, List.mem_cons,
    List.not_mem_nil, or_false] at hn
  rcases hn with rfl | rfl | rfl | rfl | rfl | rfl | rfl | rfl | rfl | rfl | rfl | rfl
  · exact subWith_xtoks ne_harmless toks
  · exact subWith_xtoks nw_harmless toks
  · exact subWith_xtoks se_harmless toks
  · exact subWith_xtoks sw_harmless toks
  · exact subWith_xtoks n2_harmless toks
  · exact subWith_xtoks s2_harmless toks
  · exact subWith_xtoks e2_harmless toks
  · exact subWith_xtoks w2_harmless toks
  · exact subWith_xtoks nec_harmless toks
  · exact subWith_xtoks nwc_harmless toks
  · exact subWith_xtoks sec_harmless toks
  · exact subWith_xtoks swc_harmless toks

/-- **every extended canonical text (chains, ", " / "; ", "Lot n", "Lots a - b", "ALL") is a fixed point of `scrub_aliquots`** -/
theorem C06_xtoks_fixed (toks : List XTok) (cleanQQ : Bool) :
    Tract.scrubAliquots (xtoksText toks) cleanQQ = some (xtoksText toks) := by
  have h1 : scrubAll Gen.QQ_SCRUBBER_REGEXES (xtoksText toks) = some (xtoksText toks) :=
    scrubAll_fixed _ _ (fun n hn => scrubStep_xtoks n (by simp [hn]) toks)
  have h2 : scrubAll Gen.QQ_CLEAN_REGEXES (xtoksText toks) = some (xtoksText toks) :=
    scrubAll_fixed _ _ (fun n hn => scrubStep_xtoks n (by simp [hn]) toks)
  have h3 := (halfPlusQScrubber_self_iff _).mpr (subWith_xtoks (hpq_harmless _) toks)
  have h4 := (removeAliquotInterveners_self_iff _).mpr (subWith_xtoks (iv_harmless _) toks)
  unfold scrubAliquots
  cases cleanQQ <;> simp [h1, h2, h3, h4]

theorem Rx.stays_none (q h : Option Char) (r : Rx) {R : Type} (s : St) (k : St → Option R)
    (hr : (r.look (some q) h).2 = true) (hp : s.prev = q) (hh : s.rest.head? = h)
    (hk : ∀ caps', k ⟨s.prev, s.rest, s.pos, caps'⟩ = none) : r.m s k = none :=
  (Rx.look_sound (some q) h r s k ⟨fun q' e => by cases e; exact hp, hh⟩).2 hr hk

/-! ### `multilot_with_aliquot_regex`: where it cannot match -/

def mwaLB : Rx := headOf Gen.multilot_with_aliquot_regex
def mwaOPT : Rx := headOf (tailOf Gen.multilot_with_aliquot_regex)
def mwaLOTS : Rx := tailOf (tailOf Gen.multilot_with_aliquot_regex)
theorem mwa_shape : Gen.multilot_with_aliquot_regex = .seq mwaLB (.seq mwaOPT mwaLOTS) := rfl
def mwaBODY : Rx := match mwaOPT with | .rep (.grp _ b) _ _ => b | _ => .fail
def mwaCOMP : Rx := match mwaBODY with | .seq (.grp _ (.rep c _ _)) _ => c | _ => .fail
def mwaAFTER : Rx := tailOf mwaBODY
theorem mwaOPT_shape : mwaOPT = .rep (.grp 2 (.seq (.grp 3 (.rep mwaCOMP 1 none)) mwaAFTER)) 0 (some 1) := rfl

theorem mwa_comp (c : Comp) (prev : Option Char) (rest : Str) (pos : Nat) (caps : List (Nat × Nat × Nat))
    (k : St → Option Match) :
    ∃ caps', mwaCOMP.m ⟨prev, compText c ++ rest, pos, caps⟩ k =
      k ⟨lastOr prev (compText c), rest, pos + (compText c).length, caps'⟩ := by
  cases c <;> rxe [mwaCOMP, mwaBODY, mwaOPT, Gen.multilot_with_aliquot_regex, headOf, tailOf] <;> exact ⟨_, rfl⟩

/-- the text is empty or begins with ',' / ';' -/
def CommaHead (rest : Str) : Prop := ∀ c, rest.head? = some c → c = ',' ∨ c = ';'

theorem head_chain_comma (cs : List Comp) (rest : Str) (h : CommaHead rest) :
    (chainText cs ++ rest).head? ∈ [none, some 'N', some 'S', some 'E', some 'W', some ',', some ';'] := by
  cases cs with
  | nil =>
    cases rest with
    | nil => simp [chainText]
    | cons c t => rcases h c rfl with rfl | rfl <;> simp [chainText]
  | cons c cs' => cases c <;> simp [C02_chainText_cons, compText, Comp.str, Comp.isHalf]

/-- generic form: `LB ((COMP+ AFTER)? LOTS)` at the beginning of a chain, when `LOTS` cannot start with a component letter and
    `AFTER LOTS` cannot get past a component letter or a separator -/
theorem opt_lots_none (LB COMP AFTER LOTS : Rx) (g2 g3 : Nat) (hLB : LB.isAssert = true)
    (hstep : ∀ (c : Comp) (prev : Option Char) (rest : Str) (pos : Nat) (caps : List (Nat × Nat × Nat))
      (k : St → Option Match), ∃ caps', COMP.m ⟨prev, compText c ++ rest, pos, caps⟩ k =
        k ⟨lastOr prev (compText c), rest, pos + (compText c).length, caps'⟩)
    (hLOTS : ∀ h ∈ [some 'N', some 'S', some 'E', some 'W'], LOTS.rejH h = true)
    (hAFT : ∀ g ∈ ['½', '¼'], ∀ h ∈ [none, some 'N', some 'S', some 'E', some 'W', some ',', some ';'],
      (AFTER.look (some (some g)) h).2 = true ∧ LOTS.rej (some g) h = true)
    (hCOMP : ∀ h ∈ [none, some ',', some ';'], COMP.rejH h = true)
    (chain : List Comp) (hne : chain ≠ []) (rest : Str) (hr : CommaHead rest) (prev : Option Char)
    (pos : Nat) (adv : Bool) :
    matchHere (.seq LB (.seq (.rep (.grp g2 (.seq (.grp g3 (.rep COMP 1 none)) AFTER)) 0 (some 1)) LOTS))
      ⟨prev, chainText chain ++ rest, pos, []⟩ adv = none := by
  have hhead : (chainText chain ++ rest).head? ∈ [some 'N', some 'S', some 'E', some 'W'] := by
    cases chain with
    | nil => exact absurd rfl hne
    | cons c cs => cases c <;> simp [C02_chainText_cons, compText, Comp.str, Comp.isHalf]
  unfold matchHere
  rw [m_seq]
  apply Rx.assert_none LB _ _ hLB
  intro caps'
  simp only []
  rw [m_seq, m_rep]
  have e : (chainText chain ++ rest).length + 0 + 2 = ((chainText chain ++ rest).length + 0) + 1 + 1 := rfl
  simp only []
  rw [e, repLoop_succ]
  simp only [Nat.not_lt_zero, if_false, canMore, Nat.zero_lt_one, decide_true, Bool.true_and, bne_iff_ne, ne_eq,
    reduceCtorEq, not_false_eq_true, if_true]
  rw [Rx.rejH_none _ LOTS _ _ (hLOTS _ hhead) rfl, Option.or_none, m_grp, m_seq, m_grp, m_rep]
  apply loop_fails COMP rest hstep
  · intro prev' pos' caps'' k'
    apply Rx.rejH_none _ COMP _ _ _ rfl
    apply hCOMP
    cases rest with
    | nil => simp
    | cons ch t => rcases hr ch rfl with rfl | rfl <;> simp
  · intro cs g pos' caps'' hg
    have hg' : g ∈ ['½', '¼'] := by rcases hg with rfl | rfl <;> simp
    have hfacts := hAFT g hg' _ (head_chain_comma cs rest hr)
    apply Rx.stays_none (some g) _ AFTER _ _ hfacts.1 rfl rfl
    intro caps3
    simp only []
    rw [repLoop_succ]
    simp only [Nat.lt_irrefl, if_false, canMore, Bool.false_and, Bool.false_eq_true]
    exact Rx.rej_none (some g) _ LOTS _ _ hfacts.2 rfl rfl
  · exact Or.inl rfl

/-- at the beginning of a chain that is followed by nothing or a separator, no lot (with or without leading aliquot) is found -/
theorem mwa_none_chain (chain : List Comp) (hne : chain ≠ []) (rest : Str) (hr : CommaHead rest) (prev : Option Char)
    (pos : Nat) (adv : Bool) :
    matchHere Gen.multilot_with_aliquot_regex ⟨prev, chainText chain ++ rest, pos, []⟩ adv = none := by
  rw [mwa_shape, mwaOPT_shape]
  exact opt_lots_none mwaLB mwaCOMP mwaAFTER mwaLOTS 2 3 (by decide +kernel) mwa_comp (by decide +kernel) (by decide +kernel)
    (by decide +kernel) chain hne rest hr prev pos adv

theorem CommaHead.nil : CommaHead [] := fun _ h => by cases h
theorem CommaHead.cons {c : Char} (t : Str) (h : c = ',' ∨ c = ';') : CommaHead (c :: t) := by
  intro d hd; simp only [List.head?_cons, Option.some.injEq] at hd; subst hd; exact h

theorem compText_eq (c : Comp) : compText c = match c with
    | .N => ['N', '½'] | .S => ['S', '½'] | .E => ['E', '½'] | .W => ['W', '½']
    | .NE => ['N', 'E', '¼'] | .NW => ['N', 'W', '¼'] | .SE => ['S', 'E', '¼'] | .SW => ['S', 'W', '¼'] := by
  cases c <;> simp [compText, Comp.str, Comp.isHalf]

/-- nothing starts inside a component either (the look-behind fails between word characters) -/
theorem mwa_dead_comp (c : Comp) (cs : List Comp) (rest : Str) (hr : CommaHead rest) (prev : Option Char) :
    ∀ ps ∈ innerStates prev (compText c), ∀ pos',
      matchHere Gen.multilot_with_aliquot_regex ⟨ps.1, ps.2 ++ (chainText cs ++ rest), pos', []⟩ false = none := by
  have h0 : ∀ pos', matchHere Gen.multilot_with_aliquot_regex ⟨prev, compText c ++ (chainText cs ++ rest), pos', []⟩ false = none := by
    intro pos'
    have := mwa_none_chain (c :: cs) (by simp) rest hr prev pos' false
    rwa [C02_chainText_cons, List.append_assoc] at this
  have hin : ∀ q ∈ ['N', 'S', 'E', 'W'], ∀ h ∈ ['E', 'W', '½', '¼'],
      Gen.multilot_with_aliquot_regex.rej (some q) (some h) = true := by decide +kernel
  intro ps hps pos'
  rw [compText_eq] at hps h0
  cases c <;> simp only [innerStates, List.mem_cons, List.not_mem_nil, or_false, List.cons_append, List.nil_append] at hps h0 <;>
    rcases hps with rfl | rfl | rfl <;>
    first
    | exact h0 pos'
    | exact matchHere_none_of_rej _ _ _ _ _ (hin _ (by simp) _ (by simp))

theorem mwa_scan_chain (chain : List Comp) (rest : Str) (hr : CommaHead rest) : ∀ (prev : Option Char) (pos : Nat),
    scan Gen.multilot_with_aliquot_regex prev (chainText chain ++ rest) pos false =
      scan Gen.multilot_with_aliquot_regex (lastOr prev (chainText chain)) rest (pos + (chainText chain).length) false := by
  induction chain with
  | nil => intro prev pos; rfl
  | cons c cs ih =>
    intro prev pos
    rw [C02_chainText_cons, List.append_assoc,
      scan_skipG _ (chainText cs ++ rest) (compText c) prev pos (mwa_dead_comp c cs rest hr prev), ih, lastOr_append,
      List.length_append, Nat.add_assoc]

/-- characters at which neither extraction pattern can begin a match: separators and the letters of "ALL" -/
def InertChar (c : Char) : Prop := c ∈ [',', ';', ' ', 'A']

theorem mwa_scan_seps (pre rest : Str) (hpre : ∀ c ∈ pre, SepChar c) (prev : Option Char) (pos : Nat) :
    scan Gen.multilot_with_aliquot_regex prev (pre ++ rest) pos false =
      scan Gen.multilot_with_aliquot_regex (lastOr prev pre) rest (pos + pre.length) false := by
  have hrej : ∀ h ∈ [some ',', some ';', some ' '], Gen.multilot_with_aliquot_regex.rejH h = true := by decide +kernel
  induction pre generalizing prev pos with
  | nil => rfl
  | cons c t ih =>
    have hc : Gen.multilot_with_aliquot_regex.rejH (some c) = true := by
      rcases hpre c (by simp) with rfl | rfl | rfl <;> exact hrej _ (by simp)
    rw [List.cons_append, scan_cons_none _ _ _ _ _ _ (matchHere_none_of_rejH _ prev (c :: (t ++ rest)) pos false hc),
      ih (fun d hd => hpre d (List.mem_cons_of_mem _ hd))]
    have e : pos + 1 + t.length = pos + (c :: t).length := by simp only [List.length_cons]; omega
    rw [e]; rfl

/-- "ALL" is no lot -/
theorem mwa_scan_all (rest : Str) (prev : Option Char) (pos : Nat) :
    scan Gen.multilot_with_aliquot_regex prev ('A' :: 'L' :: 'L' :: rest) pos false =
      scan Gen.multilot_with_aliquot_regex (some 'L') rest (pos + 3) false := by
  have h1 : Gen.multilot_with_aliquot_regex.rejH (some 'A') = true := by decide +kernel
  have h2 : Gen.multilot_with_aliquot_regex.rej (some 'A') (some 'L') = true := by decide +kernel
  have h3 : Gen.multilot_with_aliquot_regex.rej (some 'L') (some 'L') = true := by decide +kernel
  rw [scan_cons_none _ _ _ _ _ _ (matchHere_none_of_rejH _ prev ('A' :: 'L' :: 'L' :: rest) pos false h1),
    scan_cons_none _ _ _ _ _ _ (matchHere_none_of_rej _ (some 'A') ('L' :: 'L' :: rest) (pos + 1) false h2),
    scan_cons_none _ _ _ _ _ _ (matchHere_none_of_rej _ (some 'L') ('L' :: rest) (pos + 1 + 1) false h3)]

theorem mwa_scan_nil (prev : Option Char) (pos : Nat) :
    scan Gen.multilot_with_aliquot_regex prev [] pos false = none := by
  rw [scan_nil]
  exact matchHere_none_of_rejH _ _ [] _ _ (by decide +kernel)

/-! ### the two extraction loops on chains followed by an inert tail ("" or ", ALL") -/

/-- a tail in which pattern `r` finds nothing -/
def DeadTail (r : Rx) (tail : Str) : Prop := ∀ prev pos, scan r prev tail pos false = none

theorem commaHead_elems (es : List (Sep × List Comp)) (tail : Str) (ht : CommaHead tail) :
    CommaHead (elemsText (chainsElems es) ++ tail) := by
  cases es with
  | nil => simpa [elemsText, chainsElems] using ht
  | cons e es =>
    cases e with
    | mk sp c =>
      cases sp <;> simp only [chainsElems, List.map_cons, elemsText_cons, Sep.text, Sep.tok, Tok.text, List.cons_append]
      · exact CommaHead.cons _ (Or.inl rfl)
      · exact CommaHead.cons _ (Or.inr rfl)

theorem mwa_scan_elems (es : List (Sep × List Comp)) (tail : Str) (ht : CommaHead tail) : ∀ (prev : Option Char) (pos : Nat),
    ∃ prev' pos', scan Gen.multilot_with_aliquot_regex prev (elemsText (chainsElems es) ++ tail) pos false =
      scan Gen.multilot_with_aliquot_regex prev' tail pos' false := by
  induction es with
  | nil => intro prev pos; exact ⟨prev, pos, by simp [elemsText, chainsElems]⟩
  | cons e es ih =>
    intro prev pos
    obtain ⟨p', q', h⟩ := ih (lastOr (lastOr prev e.1.text) (chainText e.2)) (pos + e.1.text.length + (chainText e.2).length)
    refine ⟨p', q', ?_⟩
    have : chainsElems (e :: es) = (e.1.text, e.2) :: chainsElems es := rfl
    rw [this, elemsText_cons, List.append_assoc, List.append_assoc, mwa_scan_seps _ _ e.1.text_sepChar,
      mwa_scan_chain e.2 _ (commaHead_elems es tail ht), h]

/-- the first extraction loop finds no lot in chains followed by an inert tail -/
theorem extractLots_chains_tail (c0 : List Comp) (es : List (Sep × List Comp)) (tail : Str) (ht : CommaHead tail)
    (hd : DeadTail Gen.multilot_with_aliquot_regex tail) (n : Nat) :
    extractLots (n + 1) (chainsText c0 es ++ tail) [] = some (chainsText c0 es ++ tail, []) := by
  have : multilotWithAliquot.rx.search (chainsText c0 es ++ tail) = none := by
    rw [search_eq_scan]
    show scan Gen.multilot_with_aliquot_regex none (chainsText c0 es ++ tail) 0 false = none
    rw [chainsText_eq_elems, List.append_assoc, mwa_scan_chain c0 _ (commaHead_elems es tail ht)]
    obtain ⟨p', q', h⟩ := mwa_scan_elems es tail ht (lastOr none (chainText c0)) (0 + (chainText c0).length)
    rw [h, hd]
  rw [extractLots, this]

theorem deadTail_nil_mwa : DeadTail Gen.multilot_with_aliquot_regex [] := fun prev pos => mwa_scan_nil prev pos

theorem deadTail_all_mwa (sp : Sep) : DeadTail Gen.multilot_with_aliquot_regex (sepChr sp :: ' ' :: ['A', 'L', 'L']) := by
  intro prev pos
  have := mwa_scan_seps [sepChr sp, ' '] ['A', 'L', 'L'] (by cases sp <;> simp [SepChar, sepChr]) prev pos
  simp only [List.cons_append, List.nil_append] at this
  rw [this, mwa_scan_all, mwa_scan_nil]

/-- the second loop with a tail: the chains are taken out, the tail stays -/
theorem extractAliquots_elems_tail (tail : Str) (hst : SepHead tail) (hd : DeadTail Gen.aliquot_unpacker_regex tail)
    (es : List (Str × List Comp)) : ∀ (pre : Str) (acc : List Str) (fuel : Nat),
    es.length < fuel → (∀ c ∈ pre, SepChar c) → ElemsOK es →
    extractAliquots fuel (pre ++ (elemsText es ++ tail)) acc =
      some (pre ++ (elemsPatched es ++ tail), acc ++ es.map (fun e => chainText e.2)) := by
  induction es with
  | nil =>
    intro pre acc fuel hf hpre _
    obtain ⟨n, rfl⟩ : ∃ n, fuel = n + 1 := ⟨fuel - 1, by simp at hf; omega⟩
    simp only [elemsText, elemsPatched, List.flatMap_nil, List.nil_append, List.map_nil, List.append_nil]
    have : aliquotUnpacker.rx.search (pre ++ tail) = none := by
      rw [search_eq_scan]
      show scan Gen.aliquot_unpacker_regex none (pre ++ tail) 0 false = none
      rw [au_scan_skip pre tail hpre none 0, hd]
    rw [extractAliquots, this]
  | cons e es ih =>
    intro pre acc fuel hf hpre hok
    obtain ⟨n, rfl⟩ : ∃ n, fuel = n + 1 := ⟨fuel - 1, by simp at hf; omega⟩
    obtain ⟨_, hs, hne⟩ := hok e (by simp)
    have hok' : ElemsOK es := fun x hx => hok x (List.mem_cons_of_mem _ hx)
    have hpre1 : ∀ c ∈ pre ++ e.1, SepChar c := by
      intro c hc
      rcases List.mem_append.mp hc with hc | hc
      · exact hpre c hc
      · exact hs c hc
    have hpre2 : ∀ c ∈ (pre ++ e.1) ++ ";;".toList, SepChar c := by
      intro c hc
      rcases List.mem_append.mp hc with hc | hc
      · exact hpre1 c hc
      · exact sepChar_patch c hc
    have hsh : SepHead (elemsText es ++ tail) := by
      cases es with
      | nil => simpa [elemsText] using hst
      | cons e' es' =>
        have := elemsText_sepHead (e' :: es') hok'
        intro c hc
        apply this c
        obtain ⟨hne', _, _⟩ := hok' e' (by simp)
        rw [elemsText_cons] at hc ⊢
        cases h1 : e'.1 with
        | nil => exact absurd h1 hne'
        | cons x t => rw [h1] at hc; simpa using hc
    rw [elemsText_cons, List.append_assoc, List.append_assoc, ← List.append_assoc pre,
      extractAliquots_step n (pre ++ e.1) hpre1 e.2 hne (elemsText es ++ tail) hsh acc,
      ih _ _ n (by simpa using hf) hpre2 hok', elemsPatched_cons]
    simp

theorem au_deadTail_nil : DeadTail Gen.aliquot_unpacker_regex [] := by
  intro prev pos
  rw [scan_nil]
  exact au_matchHere_sepHead [] SepHead.nil _ _ _

theorem au_deadTail_all (sp : Sep) : DeadTail Gen.aliquot_unpacker_regex (sepChr sp :: ' ' :: ['A', 'L', 'L']) := by
  intro prev pos
  have h1 : Gen.aliquot_unpacker_regex.rejH (some 'A') = true := by decide +kernel
  have h2 : Gen.aliquot_unpacker_regex.rejH (some 'L') = true := by decide +kernel
  have := au_scan_skip [sepChr sp, ' '] ['A', 'L', 'L'] (by cases sp <;> simp [SepChar, sepChr]) prev pos
  simp only [List.cons_append, List.nil_append] at this
  rw [this,
    scan_cons_none _ _ _ _ _ _ (matchHere_none_of_rejH _ _ ('A' :: 'L' :: 'L' :: []) _ false h1),
    scan_cons_none _ _ _ _ _ _ (matchHere_none_of_rejH _ _ ('L' :: 'L' :: []) _ false h2),
    scan_cons_none _ _ _ _ _ _ (matchHere_none_of_rejH _ _ ('L' :: []) _ false h2), scan_nil]
  exact au_matchHere_sepHead [] SepHead.nil _ _ _

theorem extractAliquots_chains_tail (c0 : List Comp) (es : List (Sep × List Comp)) (h0 : c0 ≠ []) (hes : ∀ e ∈ es, e.2 ≠ [])
    (tail : Str) (hst : SepHead tail) (hd : DeadTail Gen.aliquot_unpacker_regex tail) (n : Nat) (hn : es.length < n) :
    extractAliquots (n + 1) (chainsText c0 es ++ tail) [] =
      some (";;".toList ++ (elemsPatched (chainsElems es) ++ tail), (chainsOf c0 es).map chainText) := by
  have hok := chainsElems_ok es hes
  have hsh : SepHead (elemsText (chainsElems es) ++ tail) := by
    cases es with
    | nil => simpa [elemsText, chainsElems] using hst
    | cons e es' =>
      have := elemsText_sepHead _ hok
      intro c hc
      apply this c
      have hne' := e.1.text_ne_nil
      have e1 : chainsElems (e :: es') = (e.1.text, e.2) :: chainsElems es' := rfl
      rw [e1, elemsText_cons] at hc ⊢
      cases h1 : e.1.text with
      | nil => exact absurd h1 hne'
      | cons x t => simp only [h1] at hc ⊢; simpa using hc
  have := extractAliquots_step n [] (by simp) c0 h0 (elemsText (chainsElems es) ++ tail) hsh []
  rw [chainsText_eq_elems, List.append_assoc]
  simp only [List.nil_append] at this
  rw [this, extractAliquots_elems_tail tail hst hd (chainsElems es) _ _ n (by simpa [chainsElems] using hn) sepChar_patch hok]
  simp [chainsOf, chainsElems, Function.comp_def]

/-! ### `re.sub(r'\s+', ' ', text)` on words separated by single blanks -/

/-- words joined by single blanks -/
def wordsText : List Str → Str
  | [] => []
  | [u] => u
  | u :: v :: t => u ++ ' ' :: wordsText (v :: t)

def WordsOK (cs : CharSet) (us : List Str) : Prop := ∀ u ∈ us, u ≠ [] ∧ ∀ c ∈ u, cs.mem c = false

theorem plus_none_cons (cs : CharSet) (p : Option Char) (c : Char) (t : Str) (pos : Nat) (adv : Bool)
    (h : cs.mem c = false) : matchHere (.rep (.chr cs) 1 none) ⟨p, c :: t, pos, []⟩ adv = none := by
  unfold matchHere
  rw [e_rep_c, e_loop_c]
  simp [m_chr_cons, h]

theorem plus_none_nil (cs : CharSet) (p : Option Char) (pos : Nat) (adv : Bool) :
    matchHere (.rep (.chr cs) 1 none) ⟨p, [], pos, []⟩ adv = none := by
  unfold matchHere
  rw [e_rep_n, e_loop_n]
  simp [m_chr_nil]

theorem plus_hit_blank (cs : CharSet) (hsp : cs.mem ' ' = true) (p : Option Char) (c : Char) (t : Str) (pos : Nat)
    (adv : Bool) (h : cs.mem c = false) :
    matchHere (.rep (.chr cs) 1 none) ⟨p, ' ' :: c :: t, pos, []⟩ adv = some ⟨pos, pos + 1, []⟩ := by
  unfold matchHere
  rw [e_rep_c, e_loop_c]
  simp only [Nat.zero_lt_one, if_true, m_chr_cons, hsp]
  have e : (c :: t).length + 1 + 1 = ((c :: t).length + 1) + 1 := rfl
  rw [e_loop_c]
  simp [m_chr_cons, h, canMore]

theorem plus_scan_word (cs : CharSet) (u rest : Str) (hu : ∀ c ∈ u, cs.mem c = false) (p : Option Char) (pos : Nat) :
    scan (.rep (.chr cs) 1 none) p (u ++ rest) pos false =
      scan (.rep (.chr cs) 1 none) (lastOr p u) rest (pos + u.length) false := by
  apply scan_skipG
  intro ps hps pos'
  have : ∀ (w : Str) (q : Option Char), (∀ c ∈ w, cs.mem c = false) → ∀ ps ∈ innerStates q w,
      matchHere (.rep (.chr cs) 1 none) ⟨ps.1, ps.2 ++ rest, pos', []⟩ false = none := by
    intro w
    induction w with
    | nil => intro q _ ps hps; simp [innerStates] at hps
    | cons c t ih =>
      intro q hw ps hps
      simp only [innerStates, List.mem_cons] at hps
      rcases hps with rfl | hps
      · exact plus_none_cons cs _ c _ _ _ (hw c (by simp))
      · exact ih (some c) (fun d hd => hw d (List.mem_cons_of_mem _ hd)) ps hps
  exact this u p hu ps hps

theorem wordsText_head (cs : CharSet) (v : Str) (t : List Str) (h : WordsOK cs (v :: t)) :
    ∃ c W', wordsText (v :: t) = c :: W' ∧ cs.mem c = false := by
  obtain ⟨hne, hv⟩ := h v (by simp)
  cases v with
  | nil => exact absurd rfl hne
  | cons c v' =>
    cases t with
    | nil => exact ⟨c, v', rfl, hv c (by simp)⟩
    | cons w t' => exact ⟨c, v' ++ ' ' :: wordsText (w :: t'), rfl, hv c (by simp)⟩

theorem plus_subgo (cs : CharSet) (hsp : cs.mem ' ' = true) : ∀ (us : List Str), WordsOK cs us →
    ∀ (fuel : Nat) (prev : Option Char) (pre : Str) (i : Nat) (acc : Str), i ≤ pre.length →
      Rx.subWith.go (pre ++ wordsText us) (fun _ => [' '])
        (finditerAux (.rep (.chr cs) 1 none) fuel prev (wordsText us) pre.length false) i acc =
      acc ++ (pre ++ wordsText us).drop i := by
  intro us
  induction us with
  | nil =>
    intro _ fuel prev pre i acc _
    have : scan (.rep (.chr cs) 1 none) prev (wordsText []) pre.length false = none := by
      show scan _ prev [] pre.length false = none
      rw [scan_nil]; exact plus_none_nil cs _ _ _
    cases fuel with
    | zero => rfl
    | succ n => rw [finditerAux_none _ _ _ _ _ _ this]; rfl
  | cons u rest ih =>
    intro hok fuel prev pre i acc hi
    obtain ⟨hune, hu⟩ := hok u (by simp)
    cases rest with
    | nil =>
      have : scan (.rep (.chr cs) 1 none) prev (wordsText [u]) pre.length false = none := by
        show scan _ prev u pre.length false = none
        have := plus_scan_word cs u [] hu prev pre.length
        rw [List.append_nil] at this
        rw [this, scan_nil]; exact plus_none_nil cs _ _ _
      cases fuel with
      | zero => rfl
      | succ n => rw [finditerAux_none _ _ _ _ _ _ this]; rfl
    | cons v t =>
      have hok' : WordsOK cs (v :: t) := fun w hw => hok w (List.mem_cons_of_mem _ hw)
      obtain ⟨c, W', hW, hc⟩ := wordsText_head cs v t hok'
      cases fuel with
      | zero => rfl
      | succ n =>
        have htxt : wordsText (u :: v :: t) = u ++ ' ' :: wordsText (v :: t) := rfl
        have hsc : scan (.rep (.chr cs) 1 none) prev (wordsText (u :: v :: t)) pre.length false =
            some ⟨pre.length + u.length, pre.length + u.length + 1, []⟩ := by
          rw [htxt, plus_scan_word cs u _ hu, hW]
          exact scan_hit _ _ _ _ _ _ (plus_hit_blank cs hsp _ c W' _ false hc)
        rw [finditerAux, hsc]
        simp only []
        have e : pre.length + u.length + 1 - pre.length = (u ++ [' ']).length + 0 := by simp; omega
        have htxt2 : wordsText (u :: v :: t) = (u ++ [' ']) ++ wordsText (v :: t) := by rw [htxt]; simp
        rw [e, htxt2, advance_append]
        simp only [advance]
        rw [Rx.subWith.go]
        simp only []
        have hlen : pre.length + u.length + 1 = (pre ++ (u ++ [' '])).length := by simp; omega
        have hassoc : pre ++ ((u ++ [' ']) ++ wordsText (v :: t)) = (pre ++ (u ++ [' '])) ++ wordsText (v :: t) := by simp
        have hne : (pre.length + u.length + 1 == pre.length + u.length) = false := by
          simp only [beq_eq_false_iff_ne, ne_eq]; omega
        rw [hne, hlen, hassoc, ih hok' n _ (pre ++ (u ++ [' '])) _ _ (Nat.le_refl _)]
        have hp : pre.length + u.length = (pre ++ u).length := by simp
        have hd1 : ((pre ++ (u ++ [' '])) ++ wordsText (v :: t)).drop (pre ++ (u ++ [' '])).length = wordsText (v :: t) := by simp
        have hsplit := slice_drop_split ((pre ++ (u ++ [' '])) ++ wordsText (v :: t)) i (pre ++ u).length (by simp; omega)
        have hd2 : ((pre ++ (u ++ [' '])) ++ wordsText (v :: t)).drop (pre ++ u).length = ' ' :: wordsText (v :: t) := by
          have : (pre ++ (u ++ [' '])) ++ wordsText (v :: t) = (pre ++ u) ++ (' ' :: wordsText (v :: t)) := by simp
          rw [this]; simp
        rw [hd1, ← hsplit, hd2, hp]
        simp

/-- `re.sub(r'\s+', ' ', …)` returns words separated by single blanks unchanged -/
theorem plus_sub_words (cs : CharSet) (hsp : cs.mem ' ' = true) (us : List Str) (h : WordsOK cs us) :
    (Rx.rep (.chr cs) 1 none).sub [' '] (wordsText us) = wordsText us := by
  show Rx.subWith.go (wordsText us) (fun _ => [' ']) ((Rx.rep (.chr cs) 1 none).finditer (wordsText us)) 0 [] = _
  rw [finditer_default]
  have := plus_subgo cs hsp us h (2 * (wordsText us).length + 2) none [] 0 [] (Nat.le_refl _)
  simpa using this

theorem all_hit (prev : Option Char) (hp : prev = none ∨ prev = some ' ') (pos : Nat) :
    matchHere Gen.all_regex ⟨prev, ['A', 'L', 'L'], pos, []⟩ false = some ⟨pos, pos + 3, [(1, pos, pos + 3)]⟩ := by
  rcases hp with rfl | rfl <;> rxe [matchHere, Gen.all_regex]

def wsSet : CharSet := match Gen.inl_tract_parse_TractParser_parse_0 with
  | .rep (.chr cs) _ _ => cs
  | _ => []
theorem ws_shape : Gen.inl_tract_parse_TractParser_parse_0 = .rep (.chr wsSet) 1 none := rfl

/-- words made of ';' and ',' -/
def PatchWords (ws : List Str) : Prop := ∀ w ∈ ws, w ≠ [] ∧ ∀ c ∈ w, c = ';' ∨ c = ','

theorem all_scan_words (ws : List Str) (h : PatchWords ws) : ∀ (prev : Option Char) (pos : Nat),
    (prev = none ∨ prev = some ' ') →
    ∃ p, scan Gen.all_regex prev (wordsText (ws ++ [['A', 'L', 'L']])) pos false = some ⟨p, p + 3, [(1, p, p + 3)]⟩ := by
  have hrej : ∀ x ∈ [';', ',', ' '], Gen.all_regex.rejH (some x) = true := by decide +kernel
  induction ws with
  | nil =>
    intro prev pos hp
    exact ⟨pos, scan_hit _ _ _ _ _ _ (all_hit prev hp pos)⟩
  | cons w ws' ih =>
    intro prev pos hp
    obtain ⟨hne, hw⟩ := h w (by simp)
    obtain ⟨v, t, hvt⟩ : ∃ v t, ws' ++ [['A', 'L', 'L']] = v :: t := by
      cases ws' with
      | nil => exact ⟨_, _, rfl⟩
      | cons a b => exact ⟨a, b ++ [['A', 'L', 'L']], rfl⟩
    have htxt : wordsText ((w :: ws') ++ [['A', 'L', 'L']]) = w ++ ' ' :: wordsText (ws' ++ [['A', 'L', 'L']]) := by
      rw [List.cons_append, hvt]; rfl
    obtain ⟨p, hp'⟩ := ih (fun x hx => h x (List.mem_cons_of_mem _ hx)) (some ' ') (pos + w.length + 1) (Or.inr rfl)
    refine ⟨p, ?_⟩
    have hskip : scan Gen.all_regex prev (w ++ ' ' :: wordsText (ws' ++ [['A', 'L', 'L']])) pos false =
        scan Gen.all_regex (lastOr prev w) (' ' :: wordsText (ws' ++ [['A', 'L', 'L']])) (pos + w.length) false := by
      apply scan_skipG
      intro ps hps pos'
      have : ∀ (u : Str) (q : Option Char), (∀ c ∈ u, c = ';' ∨ c = ',') → ∀ ps ∈ innerStates q u,
          matchHere Gen.all_regex ⟨ps.1, ps.2 ++ (' ' :: wordsText (ws' ++ [['A', 'L', 'L']])), pos', []⟩ false = none := by
        intro u
        induction u with
        | nil => intro q _ ps hps; simp [innerStates] at hps
        | cons c t ih' =>
          intro q hu ps hps
          simp only [innerStates, List.mem_cons] at hps
          rcases hps with rfl | hps
          · apply matchHere_none_of_rejH
            rcases hu c (by simp) with rfl | rfl <;> exact hrej _ (by simp)
          · exact ih' (some c) (fun d hd => hu d (List.mem_cons_of_mem _ hd)) ps hps
      exact this w prev hw ps hps
    rw [htxt, hskip, scan_cons_none _ _ _ _ _ _ (matchHere_none_of_rejH _ _ (' ' :: _) _ false (hrej ' ' (by simp)))]
    exact hp'

theorem pyStrip_id (a b : Char) (mid : Str) (ha : pyIsSpace a = false) (hb : pyIsSpace b = false) :
    pyStrip (a :: (mid ++ [b])) = a :: (mid ++ [b]) := by
  unfold pyStrip stripBy rstripBy
  have h1 : lstripBy pyIsSpace (a :: (mid ++ [b])) = a :: (mid ++ [b]) := by simp [lstripBy, ha]
  rw [h1]
  have h2 : (a :: (mid ++ [b])).reverse = b :: (a :: mid).reverse := by simp
  rw [h2]
  simp [lstripBy, hb]

/-- words of ';' / ',' followed by the word "ALL": the leftover says ALL, without context -/
theorem aliquotBlocksOf_words_all (blocks : List Str) (ws : List Str) (h : PatchWords ws) :
    aliquotBlocksOf blocks (wordsText (ws ++ [['A', 'L', 'L']])) = blocks ++ ["ALL".toList] := by
  have hwsfacts : wsSet.mem ' ' = true ∧ wsSet.mem ';' = false ∧ wsSet.mem ',' = false ∧ wsSet.mem 'A' = false ∧
      wsSet.mem 'L' = false := by decide +kernel
  have hok : WordsOK wsSet (ws ++ [['A', 'L', 'L']]) := by
    intro u hu
    rcases List.mem_append.mp hu with hu | hu
    · obtain ⟨hne, hc⟩ := h u hu
      refine ⟨hne, fun c hcm => ?_⟩
      rcases hc c hcm with rfl | rfl
      · exact hwsfacts.2.1
      · exact hwsfacts.2.2.1
    · simp only [List.mem_cons, List.not_mem_nil, or_false] at hu
      subst hu
      refine ⟨by simp, fun c hcm => ?_⟩
      simp only [List.mem_cons, List.not_mem_nil, or_false] at hcm
      rcases hcm with rfl | rfl | rfl
      · exact hwsfacts.2.2.2.1
      · exact hwsfacts.2.2.2.2
      · exact hwsfacts.2.2.2.2
  have hsub : Gen.inl_tract_parse_TractParser_parse_0.sub " ".toList (wordsText (ws ++ [['A', 'L', 'L']])) =
      wordsText (ws ++ [['A', 'L', 'L']]) := by
    rw [ws_shape]
    exact plus_sub_words wsSet hwsfacts.1 _ hok
  -- the text begins with a non-blank and ends with 'L'
  have hshape : ∃ a mid, wordsText (ws ++ [['A', 'L', 'L']]) = a :: (mid ++ ['L']) ∧ pyIsSpace a = false := by
    have hend : ∀ (us : List Str), ∃ pre, wordsText (us ++ [['A', 'L', 'L']]) = pre ++ ['A', 'L', 'L'] := by
      intro us
      induction us with
      | nil => exact ⟨[], rfl⟩
      | cons u us' ih =>
        obtain ⟨pre, hpre⟩ := ih
        obtain ⟨v, t, hvt⟩ : ∃ v t, us' ++ [['A', 'L', 'L']] = v :: t := by
          cases us' with
          | nil => exact ⟨_, _, rfl⟩
          | cons a b => exact ⟨a, b ++ [['A', 'L', 'L']], rfl⟩
        refine ⟨u ++ ' ' :: pre, ?_⟩
        have : wordsText ((u :: us') ++ [['A', 'L', 'L']]) = u ++ ' ' :: wordsText (us' ++ [['A', 'L', 'L']]) := by
          rw [List.cons_append, hvt]; rfl
        rw [this, hpre]; simp
    obtain ⟨pre, hpre⟩ := hend ws
    obtain ⟨c, W', hW, hc⟩ : ∃ c W', wordsText (ws ++ [['A', 'L', 'L']]) = c :: W' ∧ wsSet.mem c = false := by
      obtain ⟨v, t, hvt⟩ : ∃ v t, ws ++ [['A', 'L', 'L']] = v :: t := by
        cases ws with
        | nil => exact ⟨_, _, rfl⟩
        | cons a b => exact ⟨a, b ++ [['A', 'L', 'L']], rfl⟩
      rw [hvt]
      exact wordsText_head wsSet v t (by rw [← hvt]; exact hok)
    have hcs : pyIsSpace c = false := by
      -- the first character is ';', ',' or 'A'
      have : c = ';' ∨ c = ',' ∨ c = 'A' := by
        cases ws with
        | nil => simp [wordsText] at hW; exact Or.inr (Or.inr hW.1.symm)
        | cons w ws' =>
          obtain ⟨hne, hwc⟩ := h w (by simp)
          obtain ⟨v, t, hvt⟩ : ∃ v t, ws' ++ [['A', 'L', 'L']] = v :: t := by
            cases ws' with
            | nil => exact ⟨_, _, rfl⟩
            | cons a b => exact ⟨a, b ++ [['A', 'L', 'L']], rfl⟩
          have : wordsText ((w :: ws') ++ [['A', 'L', 'L']]) = w ++ ' ' :: wordsText (ws' ++ [['A', 'L', 'L']]) := by
            rw [List.cons_append, hvt]; rfl
          rw [this] at hW
          cases w with
          | nil => exact absurd rfl hne
          | cons x w' =>
            simp only [List.cons_append, List.cons.injEq] at hW
            rcases hwc x (by simp) with hx | hx
            · exact Or.inl (hW.1 ▸ hx)
            · exact Or.inr (Or.inl (hW.1 ▸ hx))
      rcases this with rfl | rfl | rfl <;> decide
    rw [hpre] at hW ⊢
    cases pre with
    | nil =>
      simp only [List.nil_append, List.cons.injEq] at hW
      exact ⟨'A', ['L'], rfl, by decide⟩
    | cons x pre' =>
      simp only [List.cons_append, List.cons.injEq] at hW
      refine ⟨x, pre' ++ ['A', 'L'], by simp, ?_⟩
      rw [hW.1]; exact hcs
  obtain ⟨a, mid, hsh, ha⟩ := hshape
  have hstrip : pyStrip (wordsText (ws ++ [['A', 'L', 'L']])) = wordsText (ws ++ [['A', 'L', 'L']]) := by
    rw [hsh]; exact pyStrip_id a 'L' mid ha (by decide)
  obtain ⟨p, hp⟩ := all_scan_words ws h none 0 (Or.inl rfl)
  have hsearch : allRx.rx.search (wordsText (ws ++ [['A', 'L', 'L']])) = some ⟨p, p + 3, [(1, p, p + 3)]⟩ := by
    rw [search_eq_scan]; exact hp
  have : (allRx.group ⟨p, p + 3, [(1, p, p + 3)]⟩ (wordsText (ws ++ [['A', 'L', 'L']])) "context").isNone = true := by
    simp [Pat.group, Pat.idx?, allRx, Gen.all_regex_groups, Match.group?, Match.span?]
  unfold aliquotBlocksOf
  simp only []
  rw [hsub, hstrip, hsearch]
  simp only [this, if_true]

/-! ### Goal 3: "ALL" as the last element -/

theorem xtoksText_toks (l : List Tok) : xtoksText (l.map XTok.tok) = toksText l := by
  induction l with
  | nil => rfl
  | cons t l ih => rw [List.map_cons, xtoksText_cons, ih, toksText_cons]; rfl

/-- the words left over by the second extraction loop when ", ALL" follows the chains -/
def patchWordsOf (sp : Sep) : List (Sep × List Comp) → List Str
  | [] => [[';', ';', sepChr sp]]
  | e :: es => [';', ';', sepChr e.1] :: patchWordsOf sp es

theorem patchWordsOf_ok (sp : Sep) (es : List (Sep × List Comp)) : PatchWords (patchWordsOf sp es) := by
  induction es with
  | nil => intro w hw; simp [patchWordsOf] at hw; subst hw; cases sp <;> simp [sepChr]
  | cons e es ih =>
    intro w hw
    simp only [patchWordsOf, List.mem_cons] at hw
    rcases hw with rfl | hw
    · cases e.1 <;> simp [sepChr]
    · exact ih w hw

theorem patched_all_words (sp : Sep) (es : List (Sep × List Comp)) :
    ";;".toList ++ (elemsPatched (chainsElems es) ++ (sepChr sp :: ' ' :: ['A', 'L', 'L'])) =
      wordsText (patchWordsOf sp es ++ [['A', 'L', 'L']]) := by
  induction es with
  | nil => rfl
  | cons e es ih =>
    obtain ⟨v, t, hvt⟩ : ∃ v t, patchWordsOf sp es ++ [['A', 'L', 'L']] = v :: t := by
      cases es with
      | nil => exact ⟨_, _, rfl⟩
      | cons a b => exact ⟨_, _, rfl⟩
    have e1 : chainsElems (e :: es) = (e.1.text, e.2) :: chainsElems es := rfl
    have e2 : wordsText (patchWordsOf sp (e :: es) ++ [['A', 'L', 'L']]) =
        [';', ';', sepChr e.1] ++ ' ' :: wordsText (patchWordsOf sp es ++ [['A', 'L', 'L']]) := by
      show wordsText (([';', ';', sepChr e.1] :: patchWordsOf sp es) ++ [['A', 'L', 'L']]) = _
      rw [List.cons_append, hvt]; rfl
    rw [e1, elemsPatched_cons, e2, ← ih, Sep.text_eq]
    rfl

/-- **C06 ("ALL" last)**: canonical chains separated by ", " / "; " and then ", ALL": the chains are read independently and "ALL"
    is added as a last aliquot block -/
theorem C06_chains_then_all_parse (c0 : List Comp) (es : List (Sep × List Comp)) (h0 : c0 ≠ []) (hes : ∀ e ∈ es, e.2 ≠ [])
    (sp : Sep) (a : ParseArgs) (inh : Flags) :
    tractParseRaw (chainsText c0 es ++ (sepChr sp :: ' ' :: ['A', 'L', 'L'])) a inh = .ok
      { text := chainsText c0 es ++ (sepChr sp :: ' ' :: ['A', 'L', 'L']), lots := [],
        qqs := (qqsOf a.depth ((chainsOf c0 es).map chainText ++ ["ALL".toList])).1, lotAcres := [],
        aliquotsWhole := (chainsOf c0 es).map (fun c => removeFractions (chainText c)),
        flags := dupFlags inh [] (qqsOf a.depth ((chainsOf c0 es).map chainText ++ ["ALL".toList])).1,
        diverged := (qqsOf a.depth ((chainsOf c0 es).map chainText ++ ["ALL".toList])).2 } := by
  have hfix : scrubAliquots (chainsText c0 es ++ (sepChr sp :: ' ' :: ['A', 'L', 'L'])) a.cleanQQ =
      some (chainsText c0 es ++ (sepChr sp :: ' ' :: ['A', 'L', 'L'])) := by
    have : chainsText c0 es ++ (sepChr sp :: ' ' :: ['A', 'L', 'L']) =
        xtoksText ((chainsToksOf c0 es).map XTok.tok ++ [XTok.tok sp.tok, XTok.all]) := by
      unfold xtoksText
      rw [show textOf XTok.text ((chainsToksOf c0 es).map XTok.tok ++ [XTok.tok sp.tok, XTok.all]) =
        xtoksText ((chainsToksOf c0 es).map XTok.tok) ++ xtoksText [XTok.tok sp.tok, XTok.all] by simp [xtoksText, textOf],
        xtoksText_toks, ← chainsText_eq_toks]
      cases sp <;> rfl
    rw [this]; exact C06_xtoks_fixed _ _
  have hlen := chainsText_length c0 es
  have hct : CommaHead (sepChr sp :: ' ' :: ['A', 'L', 'L']) := CommaHead.cons _ (by cases sp <;> simp [sepChr])
  have hst : SepHead (sepChr sp :: ' ' :: ['A', 'L', 'L']) := SepHead.cons _ (by cases sp <;> simp [sepChr, SepChar])
  unfold tractParseRaw
  rw [hfix]
  simp only []
  rw [show (chainsText c0 es ++ (sepChr sp :: ' ' :: ['A', 'L', 'L'])).length + 2 =
      ((chainsText c0 es ++ (sepChr sp :: ' ' :: ['A', 'L', 'L'])).length + 1) + 1 from rfl,
    extractLots_chains_tail c0 es _ hct (deadTail_all_mwa sp)]
  simp only [lotBlocksFold]
  rw [extractAliquots_chains_tail c0 es h0 hes _ hst (au_deadTail_all sp) _ (by simp only [List.length_append]; omega)]
  simp only [patched_all_words sp, aliquotBlocksOf_words_all _ _ (patchWordsOf_ok sp es), List.map_map, Bool.false_or,
    Function.comp_def]

/-- "ALL" on its own -/
theorem C06_all_alone_parse (a : ParseArgs) (inh : Flags) :
    tractParseRaw ['A', 'L', 'L'] a inh = .ok
      { text := ['A', 'L', 'L'], lots := [], qqs := (qqsOf a.depth ["ALL".toList]).1, lotAcres := [],
        aliquotsWhole := [], flags := dupFlags inh [] (qqsOf a.depth ["ALL".toList]).1,
        diverged := (qqsOf a.depth ["ALL".toList]).2 } := by
  have hfix : scrubAliquots ['A', 'L', 'L'] a.cleanQQ = some ['A', 'L', 'L'] := C06_xtoks_fixed [XTok.all] _
  have h1 : multilotWithAliquot.rx.search ['A', 'L', 'L'] = none := by
    rw [search_eq_scan]
    show scan Gen.multilot_with_aliquot_regex none ['A', 'L', 'L'] 0 false = none
    rw [mwa_scan_all, mwa_scan_nil]
  have h2 : aliquotUnpacker.rx.search ['A', 'L', 'L'] = none := by
    rw [search_eq_scan]
    show scan Gen.aliquot_unpacker_regex none ['A', 'L', 'L'] 0 false = none
    have hA : Gen.aliquot_unpacker_regex.rejH (some 'A') = true := by decide +kernel
    have hL : Gen.aliquot_unpacker_regex.rejH (some 'L') = true := by decide +kernel
    rw [scan_cons_none _ _ _ _ _ _ (matchHere_none_of_rejH _ _ ('A' :: 'L' :: 'L' :: []) _ false hA),
      scan_cons_none _ _ _ _ _ _ (matchHere_none_of_rejH _ _ ('L' :: 'L' :: []) _ false hL),
      scan_cons_none _ _ _ _ _ _ (matchHere_none_of_rejH _ _ ('L' :: []) _ false hL), scan_nil]
    exact au_matchHere_sepHead [] SepHead.nil _ _ _
  unfold tractParseRaw
  rw [hfix]
  simp only []
  rw [show (['A', 'L', 'L'] : Str).length + 2 = 4 + 1 from rfl, extractLots, h1]
  simp only [lotBlocksFold]
  rw [extractAliquots, h2]
  have := aliquotBlocksOf_words_all [] [] (by intro w hw; cases hw)
  simp only [List.nil_append] at this
  have e : wordsText [['A', 'L', 'L']] = ['A', 'L', 'L'] := rfl
  rw [e] at this
  simp only [this, List.map_nil, Bool.false_or]

theorem parseAlone_all (a : ParseArgs) :
    parseAlone ['A', 'L', 'L'] a =
      { text := ['A', 'L', 'L'], lots := [], qqs := (qqsOf a.depth ["ALL".toList]).1, lotAcres := [],
        aliquotsWhole := [], flags := dupFlags {} [] (qqsOf a.depth ["ALL".toList]).1,
        diverged := (qqsOf a.depth ["ALL".toList]).2 } := by
  unfold parseAlone
  rw [C06_all_alone_parse a {}]

theorem joined_all_eq (sep : Sep) (c0 : List Comp) (cs : List (List Comp)) :
    sep.text.intercalate ((c0 :: cs).map chainText ++ [['A', 'L', 'L']]) =
      chainsText c0 (cs.map (fun c => (sep, c))) ++ (sepChr sep :: ' ' :: ['A', 'L', 'L']) := by
  rw [List.map_cons, List.cons_append, intercalate_cons_flatMap, List.flatMap_append]
  simp [chainsText, List.flatMap_map, Sep.text_eq]

/-- **C06_chains_all_compositional ("ALL" as last element)**: non-empty canonical chains joined by ", " (or "; ") and a final
    "ALL": every chain is recognised independently and "ALL" is recognised as the last aliquot — the QQs are the concatenation of
    what the parser reports for each chain on its own, followed by what it reports for "ALL" on its own. -/
theorem C06_chains_all_compositional (sep : Sep) (chains : List (List Comp)) (hne : ∀ c ∈ chains, c ≠ [])
    (a : ParseArgs) (inh : Flags) :
    ∃ r, tractParseRaw (sep.text.intercalate (chains.map chainText ++ [['A', 'L', 'L']])) a inh = .ok r ∧
      r.text = sep.text.intercalate (chains.map chainText ++ [['A', 'L', 'L']]) ∧ r.lots = [] ∧ r.lotAcres = [] ∧
      r.qqs = chains.flatMap (fun c => (parseAlone (chainText c) a).qqs) ++ (parseAlone ['A', 'L', 'L'] a).qqs ∧
      r.aliquotsWhole = chains.flatMap (fun c => (parseAlone (chainText c) a).aliquotsWhole) ++
        (parseAlone ['A', 'L', 'L'] a).aliquotsWhole ∧
      r.diverged = (chains.any (fun c => (parseAlone (chainText c) a).diverged) || (parseAlone ['A', 'L', 'L'] a).diverged) ∧
      r.flags = dupFlags inh [] r.qqs := by
  cases chains with
  | nil =>
    refine ⟨_, C06_all_alone_parse a inh, rfl, rfl, rfl, ?_, ?_, ?_, rfl⟩
    · rw [parseAlone_all]; rfl
    · rw [parseAlone_all]; rfl
    · rw [parseAlone_all]; rfl
  | cons c0 cs =>
    have h0 := hne c0 (by simp)
    have hes : ∀ e ∈ cs.map (fun c => (sep, c)), e.2 ≠ [] := by
      intro e he; simp only [List.mem_map] at he; obtain ⟨c, hc, rfl⟩ := he; exact hne c (by simp [hc])
    have hall := chainsOf_ne_nil c0 _ h0 hes
    rw [chainsOf_map] at hall
    rw [joined_all_eq]
    refine ⟨_, C06_chains_then_all_parse c0 _ h0 hes sep a inh, rfl, rfl, rfl, ?_, ?_, ?_, rfl⟩
    · show (qqsOf a.depth ((chainsOf c0 (cs.map (fun c => (sep, c)))).map chainText ++ ["ALL".toList])).1 = _
      rw [chainsOf_map, qqsOf_blocks, List.flatMap_append, List.flatMap_map, parseAlone_all, qqsOf_one]
      show List.flatMap _ (c0 :: cs) ++ List.flatMap _ ["ALL".toList] =
        List.flatMap _ (c0 :: cs) ++ (blockQQ a.depth "ALL".toList).1
      congr 1
      · apply flatMap_congr_mem
        intro c hc
        rw [parseAlone_chain c (hall c hc), qqsOf_one]
      · simp
    · show (chainsOf c0 (cs.map (fun c => (sep, c)))).map (fun c => removeFractions (chainText c)) = _
      rw [chainsOf_map, parseAlone_all, List.append_nil, ← List.flatMap_singleton' ((c0 :: cs).map _), List.flatMap_map]
      apply flatMap_congr_mem
      intro c hc
      rw [parseAlone_chain c (hall c hc)]
    · show (qqsOf a.depth ((chainsOf c0 (cs.map (fun c => (sep, c)))).map chainText ++ ["ALL".toList])).2 = _
      rw [chainsOf_map, qqsOf_blocks, List.any_append, List.any_map, parseAlone_all, qqsOf_one]
      show ((c0 :: cs).any _ || ["ALL".toList].any _) = ((c0 :: cs).any _ || (blockQQ a.depth "ALL".toList).2)
      congr 1
      · apply any_congr_mem
        intro c hc
        simp only [Function.comp_def]
        rw [parseAlone_chain c (hall c hc), qqsOf_one]
      · simp

/-- under the documented depth domain "ALL" yields the whole section, divided to the minimum depth (C02), and no divergence -/
theorem C06_chains_all_no_diverge (sep : Sep) (chains : List (List Comp)) (hne : ∀ c ∈ chains, c ≠ [])
    (a : ParseArgs) (inh : Flags) (hd : a.depth.qqDepth = none) (hmin : 1 ≤ a.depth.qqMin)
    (hmax : a.depth.qqMax = none ∨ (∃ m, a.depth.qqMax = some m ∧ a.depth.qqMin ≤ m)) :
    ∃ r allPieces, tractParseRaw (sep.text.intercalate (chains.map chainText ++ [['A', 'L', 'L']])) a inh = .ok r ∧
      r.diverged = false ∧
      Aliquot.parseAliquot (S "ALL") a.depth = some allPieces ∧
      r.qqs = chains.flatMap (chainPieces a.depth) ++ allPieces ∧
      (∀ c ∈ chains, TilesChain a.depth c (chainPieces a.depth c)) := by
  obtain ⟨r, hr, _, _, _, hq, _, hdv, _⟩ := C06_chains_all_compositional sep chains hne a inh
  obtain ⟨allPieces, hall, _⟩ := C02_parseAliquot_ALL a.depth hd hmin hmax
  have hallQ : blockQQ a.depth "ALL".toList = (allPieces, false) := by
    unfold blockQQ
    have : ("ALL".toList : Str) = S "ALL" := rfl
    rw [this, hall]
  have hone : ∀ c ∈ chains, Aliquot.parseAliquot (chainText c) a.depth = some (chainPieces a.depth c) ∧
      TilesChain a.depth c (chainPieces a.depth c) ∧ (blockQQ a.depth (chainText c)).2 = false := by
    intro c hc
    obtain ⟨pieces, hp, ht⟩ := C02_parseAliquot_canonical_tiling c a.depth (hne c hc) hd hmin hmax
    have hb : blockQQ a.depth (chainText c) = (pieces, false) := by unfold blockQQ; rw [hp]
    have hcp : chainPieces a.depth c = pieces := by unfold chainPieces; rw [hb]
    rw [hcp, hb]
    exact ⟨hp, ht, rfl⟩
  refine ⟨r, allPieces, hr, ?_, hall, ?_, fun c hc => (hone c hc).2.1⟩
  · rw [hdv, parseAlone_all, qqsOf_one, hallQ, Bool.or_false, List.any_eq_false]
    intro c hc
    rw [parseAlone_chain c (hne c hc), qqsOf_one, (hone c hc).2.2]
    simp
  · rw [hq, parseAlone_all, qqsOf_one, hallQ]
    congr 1
    apply flatMap_congr_mem
    intro c hc
    rw [parseAlone_chain c (hne c hc), qqsOf_one]
    rfl

/-! ### Goal 2: lots — digits as variables -/

/-- `c` is a decimal digit -/
def IsDig (c : Char) : Prop := c ∈ digitChars
def digitsAllIn (cs : CharSet) : Bool := digitChars.all (fun d => cs.mem d)
def digitsNoneIn (cs : CharSet) : Bool := digitChars.all (fun d => !cs.mem d)
theorem mem_of_allIn (cs : CharSet) (c : Char) (h : IsDig c) (ha : digitsAllIn cs = true) : cs.mem c = true := by
  simp only [digitsAllIn, List.all_eq_true] at ha
  exact ha c h
theorem mem_of_noneIn (cs : CharSet) (c : Char) (h : IsDig c) (ha : digitsNoneIn cs = true) : cs.mem c = false := by
  simp only [digitsNoneIn, List.all_eq_true, Bool.not_eq_true'] at ha
  exact ha c h

open Lean Meta Simp in
/-- `cs.mem d` for a closed set `cs` and a variable `d` known (by a hypothesis `IsDig d`) to be a digit, when `cs` contains all
    digits or none (decided by kernel evaluation) -/
simproc memDigit (CharSet.mem _ _) := fun e => do
  let args := e.getAppArgs
  if args.size != 2 then return .continue
  let cs := args[0]!
  let c := args[1]!
  unless c.isFVar do return .continue
  if cs.hasFVar || cs.hasMVar then return .continue
  let lctx ← getLCtx
  let mut hyp? : Option Expr := none
  for ldecl in lctx do
    if ldecl.isImplementationDetail then continue
    let ty ← instantiateMVars ldecl.type
    if ty.isAppOfArity ``PyTRS.IsDig 1 && ty.appArg! == c then
      hyp? := some ldecl.toExpr
      break
  let some h := hyp? | return .continue
  let evalB (t : Expr) : MetaM (Option Bool) := do
    match Kernel.whnf (← getEnv) {} t with
    | .ok v => if v.isConstOf ``Bool.true then return some true else if v.isConstOf ``Bool.false then return some false else return none
    | .error _ => return none
  let allE := mkApp (mkConst ``PyTRS.digitsAllIn) cs
  let noneE := mkApp (mkConst ``PyTRS.digitsNoneIn) cs
  let tt := toExpr true
  let reflT := mkApp2 (mkConst ``Eq.refl [1]) (mkConst ``Bool) tt
  if (← evalB allE) == some true then
    let ha ← mkExpectedTypeHint reflT (← mkEq allE tt)
    return .done { expr := tt, proof? := some (mkApp4 (mkConst ``PyTRS.mem_of_allIn) cs c h ha) }
  if (← evalB noneE) == some true then
    let ha ← mkExpectedTypeHint reflT (← mkEq noneE tt)
    return .done { expr := toExpr false, proof? := some (mkApp4 (mkConst ``PyTRS.mem_of_noneIn) cs c h ha) }
  return .continue

/-! ### runs of lots: `Lot 1, Lots 2 - 4, Lot 7` -/

theorem or_of_isSome {α : Type} (o o' : Option α) (h : o.isSome = true) : o.or o' = o := by
  cases o with
  | none => cases h
  | some x => rfl

/-- what one iteration of the multi-lot loop consumes (after the first lot) -/
inductive RTok where
  | lot (n : Digs)      -- ", Lot 12"
  | lots (a : Digs)     -- ", Lots 12 " (the left end of a range; the loop takes the blank before '-')
  | thru (b : Digs)     -- "- 12" (the right end of a range)

def RTok.text : RTok → Str
  | .lot n => [',', ' ', 'L', 'o', 't', ' '] ++ n.ds
  | .lots a => [',', ' ', 'L', 'o', 't', 's', ' '] ++ a.ds ++ [' ']
  | .thru b => ['-', ' '] ++ b.ds

/-- offset and length of the number inside the token -/
def RTok.numOff : RTok → Nat
  | .lot _ => 6
  | .lots _ => 7
  | .thru _ => 2
def RTok.numLen : RTok → Nat
  | .lot n | .lots n | .thru n => n.ds.length

/-- what may follow the token: nothing, or the next token / a separator -/
def RTok.TailOK : RTok → Str → Prop
  | .lot _, tail | .thru _, tail => tail = [] ∨ ∃ t, tail = ',' :: t
  | .lots _, tail => tail = [] ∨ ∃ t, tail = '-' :: t

def rtoksText (l : List RTok) : Str := l.flatMap RTok.text

/-- the properties of the loop body that the analysis uses -/
structure IterSpec (ITER : Rx) (gI gN gF : Nat) : Prop where
  step : ∀ (tok : RTok) (prev : Option Char) (tail : Str) (pos : Nat) (caps : List (Nat × Nat × Nat))
    (k : St → Option Match), tok.TailOK tail →
    (∀ caps', (k ⟨lastOr prev tok.text, tail, pos + tok.text.length, caps'⟩).isSome = true) →
    ∃ caps', ITER.m ⟨prev, tok.text ++ tail, pos, caps⟩ k = k ⟨lastOr prev tok.text, tail, pos + tok.text.length, caps'⟩ ∧
      caps'.find? (fun c => c.1 == gI) = some (gI, pos, pos + 2) ∧
      caps'.find? (fun c => c.1 == gN) = some (gN, pos + tok.numOff, pos + tok.numOff + tok.numLen) ∧
      caps'.find? (fun c => c.1 == gF) = caps.find? (fun c => c.1 == gF)

/-- a sequence of tokens in which each is followed by what it may be followed by, ending before `tailF` -/
def RunOK : List RTok → Str → Prop
  | [], _ => True
  | t :: ts, tailF => t.TailOK (rtoksText ts ++ tailF) ∧ RunOK ts tailF

/-- the spans recorded by the last token of the run that starts at `pos` -/
def lastSpans : Nat → List RTok → Option ((Nat × Nat) × (Nat × Nat))
  | _, [] => none
  | pos, [t] => some ((pos, pos + 2), (pos + t.numOff, pos + t.numOff + t.numLen))
  | pos, t :: t' :: ts => lastSpans (pos + t.text.length) (t' :: ts)

theorem lastSpans_cons (t : RTok) (ts : List RTok) : ∀ pos, ∃ x, lastSpans pos (t :: ts) = some x := by
  induction ts generalizing t with
  | nil => intro pos; exact ⟨_, rfl⟩
  | cons t' ts' ih => intro pos; exact ih t' _

theorem rtok_text_pos (t : RTok) : 0 < t.text.length := by
  cases t <;> simp [RTok.text]

theorem run_loop (ITER : Rx) (gI gN gF : Nat) (spec : IterSpec ITER gI gN gF) (tailF : Str)
    (hend : ∀ (prev : Option Char) (pos : Nat) (caps : List (Nat × Nat × Nat)) (k : St → Option Match),
      ITER.m ⟨prev, tailF, pos, caps⟩ k = none)
    (K : St → Option Match) :
    ∀ (toks : List RTok) (fuel count : Nat) (last : Option Nat) (prev : Option Char) (pos : Nat)
      (caps : List (Nat × Nat × Nat)), toks.length < fuel → (∀ l, last = some l → l < pos) → RunOK toks tailF →
      (∀ caps', (K ⟨lastOr prev (rtoksText toks), tailF, pos + (rtoksText toks).length, caps'⟩).isSome = true) →
      ∃ caps', repLoop ITER.m 0 none fuel count last ⟨prev, rtoksText toks ++ tailF, pos, caps⟩ K =
          K ⟨lastOr prev (rtoksText toks), tailF, pos + (rtoksText toks).length, caps'⟩ ∧
        caps'.find? (fun c => c.1 == gF) = caps.find? (fun c => c.1 == gF) ∧
        (match lastSpans pos toks with
         | none => caps' = caps
         | some (si, sn) => caps'.find? (fun c => c.1 == gI) = some (gI, si.1, si.2) ∧
             caps'.find? (fun c => c.1 == gN) = some (gN, sn.1, sn.2)) := by
  intro toks
  induction toks with
  | nil =>
    intro fuel count last prev pos caps hf hl _ hK
    obtain ⟨n, rfl⟩ : ∃ n, fuel = n + 1 := ⟨fuel - 1, by simp at hf; omega⟩
    refine ⟨caps, ?_, rfl, rfl⟩
    show repLoop ITER.m 0 none (n + 1) count last ⟨prev, tailF, pos, caps⟩ K = K ⟨prev, tailF, pos + 0, caps⟩
    rw [repLoop_succ]
    simp only [Nat.not_lt_zero, if_false, hend, Option.none_or, ite_self, Nat.add_zero]
  | cons t ts ih =>
    intro fuel count last prev pos caps hf hl hrun hK
    obtain ⟨n, rfl⟩ : ∃ n, fuel = n + 1 := ⟨fuel - 1, by simp at hf; omega⟩
    have hn : ts.length < n := by simpa using hf
    have htxt : rtoksText (t :: ts) = t.text ++ rtoksText ts := by simp [rtoksText]
    have hlast : (last != some pos) = true := by
      cases last with
      | none => rfl
      | some l =>
        have := hl l rfl
        simp only [bne_iff_ne, ne_eq, Option.some.injEq]
        omega
    have htp := rtok_text_pos t
    -- the rest of the run, from the state after `t`
    have hrest : ∀ caps1, ∃ caps', repLoop ITER.m 0 none n (count + 1) (some pos)
          ⟨lastOr prev t.text, rtoksText ts ++ tailF, pos + t.text.length, caps1⟩ K =
          K ⟨lastOr prev (rtoksText (t :: ts)), tailF, pos + (rtoksText (t :: ts)).length, caps'⟩ ∧
        caps'.find? (fun c => c.1 == gF) = caps1.find? (fun c => c.1 == gF) ∧
        (match lastSpans (pos + t.text.length) ts with
         | none => caps' = caps1
         | some (si, sn) => caps'.find? (fun c => c.1 == gI) = some (gI, si.1, si.2) ∧
             caps'.find? (fun c => c.1 == gN) = some (gN, sn.1, sn.2)) := by
      intro caps1
      obtain ⟨caps', h1, h2, h3⟩ := ih n (count + 1) (some pos) (lastOr prev t.text) (pos + t.text.length) caps1 hn
        (by intro l hl'; cases hl'; omega) hrun.2
        (by intro c'; have := hK c'; rw [htxt, lastOr_append, List.length_append, ← Nat.add_assoc] at this; exact this)
      refine ⟨caps', ?_, h2, h3⟩
      rw [h1, htxt, lastOr_append, List.length_append, Nat.add_assoc]
    obtain ⟨caps1, hs1, hsI, hsN, hsF⟩ := spec.step t prev (rtoksText ts ++ tailF) pos caps
      (fun s' => repLoop ITER.m 0 none n (count + 1) (some pos) s' K) hrun.1
      (by
        intro c'
        obtain ⟨caps', h, _⟩ := hrest c'
        rw [h]; exact hK caps')
    obtain ⟨caps', hr1, hr2, hr3⟩ := hrest caps1
    refine ⟨caps', ?_, by rw [hr2, hsF], ?_⟩
    · rw [htxt, List.append_assoc, repLoop_succ]
      simp only [Nat.not_lt_zero, if_false, canMore, hlast, Bool.and_self, if_true]
      rw [hs1, hr1]
      exact or_of_isSome _ _ (hK caps')
    · cases ts with
      | nil =>
        simp only [lastSpans] at hr3 ⊢
        subst hr3
        exact ⟨hsI, hsN⟩
      | cons t' ts' =>
        simp only [lastSpans]
        obtain ⟨x, hx⟩ := lastSpans_cons t' ts' (pos + t.text.length)
        rw [hx] at hr3 ⊢
        exact hr3


def mlFIRST : Rx := headOf Gen.multilot_regex
def mlITER : Rx := match tailOf Gen.multilot_regex with | .rep b _ _ => b | _ => .fail
theorem ml_shape : Gen.multilot_regex = .seq mlFIRST (.rep mlITER 0 none) := rfl

def mwaMULTI : Rx := match mwaLOTS with | .grp _ m => m | _ => .fail
def mwaFIRST : Rx := headOf mwaMULTI
def mwaITER : Rx := match tailOf mwaMULTI with | .rep b _ _ => b | _ => .fail
theorem mwaLOTS_shape : mwaLOTS = .grp 9 (.seq mwaFIRST (.rep mwaITER 0 none)) := rfl

/-- a written number has one, two or three digits -/
theorem digs_cases (ds : Str) (ne : ds ≠ []) (dig : ∀ c ∈ ds, c ∈ digitChars) (le3 : ds.length ≤ 3) :
    (∃ d1, IsDig d1 ∧ ds = [d1]) ∨ (∃ d1 d2, IsDig d1 ∧ IsDig d2 ∧ ds = [d1, d2]) ∨
      (∃ d1 d2 d3, IsDig d1 ∧ IsDig d2 ∧ IsDig d3 ∧ ds = [d1, d2, d3]) := by
  rcases ds with _ | ⟨d1, _ | ⟨d2, _ | ⟨d3, _ | ⟨d4, t⟩⟩⟩⟩
  · exact absurd rfl ne
  · exact Or.inl ⟨d1, dig d1 (by simp), rfl⟩
  · exact Or.inr (Or.inl ⟨d1, d2, dig d1 (by simp), dig d2 (by simp), rfl⟩)
  · exact Or.inr (Or.inr ⟨d1, d2, d3, dig d1 (by simp), dig d2 (by simp), dig d3 (by simp), rfl⟩)
  · simp at le3

/-- evaluation of one token (all digit counts, all admissible tails) -/
macro "iter_eval" "[" ts:Lean.Parser.Tactic.simpLemma,* "]" : tactic =>
  `(tactic| (
      simp only [RTok.text, RTok.numOff, RTok.numLen, List.cons_append, List.nil_append, lastOr,
        List.length_cons, List.length_nil] at *
      rxe [$ts,*, memDigit, tailOf, headOf, or_of_isSome]
      exact ⟨_, rfl, rfl, rfl, rfl⟩))

set_option maxHeartbeats 1600000 in
theorem ml_iterSpec : IterSpec mlITER 11 20 99 := by
  constructor
  intro tok prev tail pos caps k htail hk
  cases tok with
  | lot n =>
    obtain ⟨ds, ne, dig, le3⟩ := n
    rcases digs_cases ds ne dig le3 with ⟨d1, h1, rfl⟩ | ⟨d1, d2, h1, h2, rfl⟩ | ⟨d1, d2, d3, h1, h2, h3, rfl⟩ <;>
      rcases htail with rfl | ⟨t, rfl⟩ <;> iter_eval [mlITER, Gen.multilot_regex, hk]
  | lots n =>
    obtain ⟨ds, ne, dig, le3⟩ := n
    rcases digs_cases ds ne dig le3 with ⟨d1, h1, rfl⟩ | ⟨d1, d2, h1, h2, rfl⟩ | ⟨d1, d2, d3, h1, h2, h3, rfl⟩ <;>
      rcases htail with rfl | ⟨t, rfl⟩ <;> iter_eval [mlITER, Gen.multilot_regex, hk]
  | thru n =>
    obtain ⟨ds, ne, dig, le3⟩ := n
    rcases digs_cases ds ne dig le3 with ⟨d1, h1, rfl⟩ | ⟨d1, d2, h1, h2, rfl⟩ | ⟨d1, d2, d3, h1, h2, h3, rfl⟩ <;>
      rcases htail with rfl | ⟨t, rfl⟩ <;> iter_eval [mlITER, Gen.multilot_regex, hk]

set_option maxHeartbeats 1600000 in
theorem mwa_iterSpec : IterSpec mwaITER 20 29 3 := by
  constructor
  intro tok prev tail pos caps k htail hk
  cases tok with
  | lot n =>
    obtain ⟨ds, ne, dig, le3⟩ := n
    rcases digs_cases ds ne dig le3 with ⟨d1, h1, rfl⟩ | ⟨d1, d2, h1, h2, rfl⟩ | ⟨d1, d2, d3, h1, h2, h3, rfl⟩ <;>
      rcases htail with rfl | ⟨t, rfl⟩ <;>
      iter_eval [mwaITER, mwaMULTI, mwaLOTS, Gen.multilot_with_aliquot_regex, hk]
  | lots n =>
    obtain ⟨ds, ne, dig, le3⟩ := n
    rcases digs_cases ds ne dig le3 with ⟨d1, h1, rfl⟩ | ⟨d1, d2, h1, h2, rfl⟩ | ⟨d1, d2, d3, h1, h2, h3, rfl⟩ <;>
      rcases htail with rfl | ⟨t, rfl⟩ <;>
      iter_eval [mwaITER, mwaMULTI, mwaLOTS, Gen.multilot_with_aliquot_regex, hk]
  | thru n =>
    obtain ⟨ds, ne, dig, le3⟩ := n
    rcases digs_cases ds ne dig le3 with ⟨d1, h1, rfl⟩ | ⟨d1, d2, h1, h2, rfl⟩ | ⟨d1, d2, d3, h1, h2, h3, rfl⟩ <;>
      rcases htail with rfl | ⟨t, rfl⟩ <;>
      iter_eval [mwaITER, mwaMULTI, mwaLOTS, Gen.multilot_with_aliquot_regex, hk]

/-- the first lot of a run -/
inductive FTok where
  | lot (n : Digs)      -- "Lot 12"
  | lots (a : Digs)     -- "Lots 12 "

def FTok.text : FTok → Str
  | .lot n => ['L', 'o', 't', ' '] ++ n.ds
  | .lots a => ['L', 'o', 't', 's', ' '] ++ a.ds ++ [' ']
def FTok.numOff : FTok → Nat
  | .lot _ => 4
  | .lots _ => 5
def FTok.numLen : FTok → Nat
  | .lot n | .lots n => n.ds.length
def FTok.TailOK : FTok → Str → Prop
  | .lot _, tail => tail = [] ∨ ∃ t, tail = ',' :: t
  | .lots _, tail => tail = [] ∨ ∃ t, tail = '-' :: t

structure FirstSpec (FIRST : Rx) (gL gI gN gF : Nat) : Prop where
  step : ∀ (tok : FTok) (prev : Option Char) (tail : Str) (pos : Nat) (caps : List (Nat × Nat × Nat))
    (k : St → Option Match), (prev = none ∨ prev = some ' ') → tok.TailOK tail →
    (∀ caps', (k ⟨lastOr prev tok.text, tail, pos + tok.text.length, caps'⟩).isSome = true) →
    ∃ caps', FIRST.m ⟨prev, tok.text ++ tail, pos, caps⟩ k = k ⟨lastOr prev tok.text, tail, pos + tok.text.length, caps'⟩ ∧
      caps'.find? (fun c => c.1 == gL) = some (gL, pos + tok.numOff, pos + tok.numOff + tok.numLen) ∧
      caps'.find? (fun c => c.1 == gI) = caps.find? (fun c => c.1 == gI) ∧
      caps'.find? (fun c => c.1 == gN) = caps.find? (fun c => c.1 == gN) ∧
      caps'.find? (fun c => c.1 == gF) = caps.find? (fun c => c.1 == gF)

macro "first_eval" "[" ts:Lean.Parser.Tactic.simpLemma,* "]" : tactic =>
  `(tactic| (
      simp only [FTok.text, FTok.numOff, FTok.numLen, List.cons_append, List.nil_append, lastOr,
        List.length_cons, List.length_nil] at *
      rxe [$ts,*, memDigit, tailOf, headOf, or_of_isSome]
      exact ⟨_, rfl, rfl, rfl, rfl, rfl⟩))

set_option maxHeartbeats 1600000 in
theorem ml_firstSpec : FirstSpec mlFIRST 6 11 20 99 := by
  constructor
  intro tok prev tail pos caps k hprev htail hk
  cases tok with
  | lot n =>
    obtain ⟨ds, ne, dig, le3⟩ := n
    rcases digs_cases ds ne dig le3 with ⟨d1, h1, rfl⟩ | ⟨d1, d2, h1, h2, rfl⟩ | ⟨d1, d2, d3, h1, h2, h3, rfl⟩ <;>
      rcases htail with rfl | ⟨t, rfl⟩ <;> rcases hprev with rfl | rfl <;> first_eval [mlFIRST, Gen.multilot_regex, hk]
  | lots n =>
    obtain ⟨ds, ne, dig, le3⟩ := n
    rcases digs_cases ds ne dig le3 with ⟨d1, h1, rfl⟩ | ⟨d1, d2, h1, h2, rfl⟩ | ⟨d1, d2, d3, h1, h2, h3, rfl⟩ <;>
      rcases htail with rfl | ⟨t, rfl⟩ <;> rcases hprev with rfl | rfl <;> first_eval [mlFIRST, Gen.multilot_regex, hk]

set_option maxHeartbeats 1600000 in
theorem mwa_firstSpec : FirstSpec mwaFIRST 15 20 29 3 := by
  constructor
  intro tok prev tail pos caps k hprev htail hk
  cases tok with
  | lot n =>
    obtain ⟨ds, ne, dig, le3⟩ := n
    rcases digs_cases ds ne dig le3 with ⟨d1, h1, rfl⟩ | ⟨d1, d2, h1, h2, rfl⟩ | ⟨d1, d2, d3, h1, h2, h3, rfl⟩ <;>
      rcases htail with rfl | ⟨t, rfl⟩ <;> rcases hprev with rfl | rfl <;>
      first_eval [mwaFIRST, mwaMULTI, mwaLOTS, Gen.multilot_with_aliquot_regex, hk]
  | lots n =>
    obtain ⟨ds, ne, dig, le3⟩ := n
    rcases digs_cases ds ne dig le3 with ⟨d1, h1, rfl⟩ | ⟨d1, d2, h1, h2, rfl⟩ | ⟨d1, d2, d3, h1, h2, h3, rfl⟩ <;>
      rcases htail with rfl | ⟨t, rfl⟩ <;> rcases hprev with rfl | rfl <;>
      first_eval [mwaFIRST, mwaMULTI, mwaLOTS, Gen.multilot_with_aliquot_regex, hk]

/-- where a run ends: at the end of the text, or before ", " and a component -/
def EndTail (tailF : Str) : Prop :=
  tailF = [] ∨ (∃ c t, tailF = ',' :: ' ' :: c :: t ∧ c ∈ ['N', 'S', 'E', 'W']) ∨ tailF = [',', ' ', 'A', 'L', 'L']

theorem ml_iter_end (tailF : Str) (h : EndTail tailF) (prev : Option Char) (pos : Nat) (caps : List (Nat × Nat × Nat))
    (k : St → Option Match) : mlITER.m ⟨prev, tailF, pos, caps⟩ k = none := by
  rcases h with rfl | ⟨c, t, rfl, hc⟩ | rfl
  · rxe [mlITER, Gen.multilot_regex, tailOf]
  · simp only [List.mem_cons, List.not_mem_nil, or_false] at hc
    rcases hc with rfl | rfl | rfl | rfl <;> rxe [mlITER, Gen.multilot_regex, tailOf]
  · rxe [mlITER, Gen.multilot_regex, tailOf]

theorem mwa_iter_end (tailF : Str) (h : EndTail tailF) (prev : Option Char) (pos : Nat) (caps : List (Nat × Nat × Nat))
    (k : St → Option Match) : mwaITER.m ⟨prev, tailF, pos, caps⟩ k = none := by
  rcases h with rfl | ⟨c, t, rfl, hc⟩ | rfl
  · rxe [mwaITER, mwaMULTI, mwaLOTS, Gen.multilot_with_aliquot_regex, tailOf]
  · simp only [List.mem_cons, List.not_mem_nil, or_false] at hc
    rcases hc with rfl | rfl | rfl | rfl <;> rxe [mwaITER, mwaMULTI, mwaLOTS, Gen.multilot_with_aliquot_regex, tailOf]
  · rxe [mwaITER, mwaMULTI, mwaLOTS, Gen.multilot_with_aliquot_regex, tailOf]

theorem rtoks_length_le (toks : List RTok) : toks.length ≤ (rtoksText toks).length := by
  induction toks with
  | nil => simp [rtoksText]
  | cons t ts ih =>
    have := rtok_text_pos t
    simp only [rtoksText, List.flatMap_cons, List.length_append, List.length_cons] at ih ⊢
    omega

/-- the first lot and the loop over the rest of the run, for any pattern with the two specifications -/
theorem run_match (FIRST ITER : Rx) (gL gI gN gF : Nat) (fs : FirstSpec FIRST gL gI gN gF) (is : IterSpec ITER gI gN gF)
    (tailF : Str)
    (hend : ∀ (prev : Option Char) (pos : Nat) (caps : List (Nat × Nat × Nat)) (k : St → Option Match),
      ITER.m ⟨prev, tailF, pos, caps⟩ k = none)
    (ft : FTok) (toks : List RTok) (hft : ft.TailOK (rtoksText toks ++ tailF)) (hrun : RunOK toks tailF)
    (prev : Option Char) (hprev : prev = none ∨ prev = some ' ') (pos : Nat) (caps : List (Nat × Nat × Nat))
    (K : St → Option Match)
    (hK : ∀ caps', (K ⟨lastOr prev (ft.text ++ rtoksText toks), tailF, pos + (ft.text ++ rtoksText toks).length, caps'⟩).isSome = true) :
    ∃ caps', (Rx.seq FIRST (.rep ITER 0 none)).m ⟨prev, ft.text ++ (rtoksText toks ++ tailF), pos, caps⟩ K =
        K ⟨lastOr prev (ft.text ++ rtoksText toks), tailF, pos + (ft.text ++ rtoksText toks).length, caps'⟩ ∧
      caps'.find? (fun c => c.1 == gF) = caps.find? (fun c => c.1 == gF) ∧
      (match lastSpans (pos + ft.text.length) toks with
       | none => caps'.find? (fun c => c.1 == gL) = some (gL, pos + ft.numOff, pos + ft.numOff + ft.numLen) ∧
           caps'.find? (fun c => c.1 == gI) = caps.find? (fun c => c.1 == gI) ∧
           caps'.find? (fun c => c.1 == gN) = caps.find? (fun c => c.1 == gN)
       | some (si, sn) => caps'.find? (fun c => c.1 == gI) = some (gI, si.1, si.2) ∧
           caps'.find? (fun c => c.1 == gN) = some (gN, sn.1, sn.2)) := by
  have hlen := rtoks_length_le toks
  have hloop : ∀ caps1, ∃ caps', (Rx.rep ITER 0 none).m ⟨lastOr prev ft.text, rtoksText toks ++ tailF, pos + ft.text.length, caps1⟩ K =
        K ⟨lastOr prev (ft.text ++ rtoksText toks), tailF, pos + (ft.text ++ rtoksText toks).length, caps'⟩ ∧
      caps'.find? (fun c => c.1 == gF) = caps1.find? (fun c => c.1 == gF) ∧
      (match lastSpans (pos + ft.text.length) toks with
       | none => caps' = caps1
       | some (si, sn) => caps'.find? (fun c => c.1 == gI) = some (gI, si.1, si.2) ∧
           caps'.find? (fun c => c.1 == gN) = some (gN, sn.1, sn.2)) := by
    intro caps1
    rw [m_rep]
    obtain ⟨caps', h1, h2, h3⟩ := run_loop ITER gI gN gF is tailF hend K toks ((rtoksText toks ++ tailF).length + 0 + 2) 0 none
      (lastOr prev ft.text) (pos + ft.text.length) caps1 (by simp only [List.length_append]; omega) (by simp) hrun
      (by intro c'; have := hK c'; rw [lastOr_append, List.length_append, ← Nat.add_assoc] at this; exact this)
    refine ⟨caps', ?_, h2, h3⟩
    rw [h1, lastOr_append, List.length_append, Nat.add_assoc]
  rw [m_seq]
  obtain ⟨caps1, hs, hL, hI, hN, hF⟩ := fs.step ft prev (rtoksText toks ++ tailF) pos caps
    (fun s' => (Rx.rep ITER 0 none).m s' K) hprev hft
    (by intro c'; obtain ⟨caps', h, _⟩ := hloop c'; rw [h]; exact hK caps')
  obtain ⟨caps', h1, h2, h3⟩ := hloop caps1
  refine ⟨caps', by rw [hs, h1], by rw [h2, hF], ?_⟩
  cases hsp : lastSpans (pos + ft.text.length) toks with
  | none =>
    rw [hsp] at h3
    simp only [] at h3 ⊢
    subst h3
    exact ⟨hL, hI, hN⟩
  | some x =>
    rw [hsp] at h3
    exact h3

theorem ftok_head (ft : FTok) : ∃ t, ft.text = 'L' :: t := by
  cases ft <;> exact ⟨_, rfl⟩

theorem mwaLB_pass (prev : Option Char) (hprev : prev = none ∨ prev = some ' ') (t : Str) (pos : Nat)
    (k : St → Option Match) :
    mwaLB.m ⟨prev, 'L' :: t, pos, []⟩ k = k ⟨prev, 'L' :: t, pos, [(1, pos, pos)]⟩ := by
  rcases hprev with rfl | rfl <;> rxe [mwaLB, Gen.multilot_with_aliquot_regex, headOf]

/-- at the beginning of a run of lots (at the start of the text or after ", "), `multilot_with_aliquot_regex` matches exactly the
    run: no leading aliquot, the group `lots` is the whole match -/
theorem mwa_matchHere_run (ft : FTok) (toks : List RTok) (tailF : Str) (hend : EndTail tailF)
    (hft : ft.TailOK (rtoksText toks ++ tailF)) (hrun : RunOK toks tailF)
    (prev : Option Char) (hprev : prev = none ∨ prev = some ' ') (pos : Nat) :
    ∃ caps, matchHere Gen.multilot_with_aliquot_regex ⟨prev, ft.text ++ (rtoksText toks ++ tailF), pos, []⟩ false =
        some ⟨pos, pos + (ft.text ++ rtoksText toks).length, caps⟩ ∧
      caps.find? (fun c => c.1 == 3) = none ∧
      caps.find? (fun c => c.1 == 9) = some (9, pos, pos + (ft.text ++ rtoksText toks).length) := by
  obtain ⟨t, ht⟩ := ftok_head ft
  have hOPT : ∀ q ∈ [none, some ' '], (match mwaOPT with | .rep b _ _ => b | _ => .fail).rej q (some 'L') = true := by
    decide +kernel
  have hq : prev ∈ [none, some ' '] := by rcases hprev with rfl | rfl <;> simp
  obtain ⟨caps', hm, hF, _⟩ := run_match mwaFIRST mwaITER 15 20 29 3 mwa_firstSpec mwa_iterSpec tailF
    (mwa_iter_end tailF hend) ft toks hft hrun prev hprev pos [(1, pos, pos)]
    (fun s' => (fun s'' : St => if (false && s''.pos == pos) = true then none else some ⟨pos, s''.pos, s''.caps⟩)
      ⟨s'.prev, s'.rest, s'.pos, (9, pos, s'.pos) :: s'.caps⟩)
    (by intro c'; rfl)
  refine ⟨(9, pos, pos + (ft.text ++ rtoksText toks).length) :: caps', ?_, ?_, ?_⟩
  · unfold matchHere
    rw [mwa_shape, m_seq]
    have e1 : ft.text ++ (rtoksText toks ++ tailF) = 'L' :: (t ++ (rtoksText toks ++ tailF)) := by rw [ht]; rfl
    rw [e1, mwaLB_pass prev hprev, m_seq, ← e1]
    have hskip : ∀ (K : St → Option Match), mwaOPT.m ⟨prev, ft.text ++ (rtoksText toks ++ tailF), pos, [(1, pos, pos)]⟩ K =
        K ⟨prev, ft.text ++ (rtoksText toks ++ tailF), pos, [(1, pos, pos)]⟩ := by
      intro K
      have : mwaOPT = .rep (match mwaOPT with | .rep b _ _ => b | _ => .fail) 0 (some 1) := rfl
      rw [this]
      exact opt_skip _ _ prev (some 'L') _ K (hOPT prev hq) rfl (by rw [e1]; rfl)
    rw [hskip, mwaLOTS_shape, m_grp]
    exact hm
  · simp only [List.find?_cons]
    rw [hF]
    rfl
  · rfl

/-! ### `unpack_lots` on a run -/

/-- the token after `t` is what `t` may be followed by: the left end of a range by its right end, anything else by a new lot -/
def RTok.adjOK : RTok → RTok → Prop
  | .lots _, .thru _ => True
  | .lots _, _ => False
  | _, .thru _ => False
  | _, _ => True

def FTok.adjOK : FTok → RTok → Prop
  | .lots _, .thru _ => True
  | .lots _, _ => False
  | .lot _, .thru _ => False
  | .lot _, _ => True

def RunValid : List RTok → Prop
  | [] => True
  | [_] => True
  | t :: t' :: ts => t.adjOK t' ∧ RunValid (t' :: ts)

theorem RunValid.tail {t : RTok} {ts : List RTok} (h : RunValid (t :: ts)) : RunValid ts := by
  cases ts with
  | nil => trivial
  | cons t' ts' => exact h.2

theorem rtoksText_cons (t : RTok) (ts : List RTok) : rtoksText (t :: ts) = t.text ++ rtoksText ts := by
  simp [rtoksText]

theorem rtoksText_append (a b : List RTok) : rtoksText (a ++ b) = rtoksText a ++ rtoksText b := by
  simp [rtoksText]

theorem tailOK_of_adj (t t' : RTok) (h : t.adjOK t') (rest : Str) : t.TailOK (t'.text ++ rest) := by
  cases t <;> cases t' <;> simp only [RTok.adjOK] at h <;>
    simp only [RTok.TailOK, RTok.text, List.cons_append] <;> exact Or.inr ⟨_, rfl⟩

theorem ftailOK_of_adj (ft : FTok) (t' : RTok) (h : ft.adjOK t') (rest : Str) : ft.TailOK (t'.text ++ rest) := by
  cases ft <;> cases t' <;> simp only [FTok.adjOK] at h <;>
    simp only [FTok.TailOK, RTok.text, List.cons_append] <;> exact Or.inr ⟨_, rfl⟩

theorem tailOK_nil (t : RTok) : t.TailOK [] := by cases t <;> exact Or.inl rfl
theorem ftailOK_nil (ft : FTok) : ft.TailOK [] := by cases ft <;> exact Or.inl rfl

/-- a valid sequence is a run that may stop anywhere (truncation at `endpos`) -/
theorem runOK_nil_of_valid : ∀ (toks : List RTok), RunValid toks → RunOK toks []
  | [], _ => trivial
  | [t], _ => ⟨by simpa [rtoksText] using tailOK_nil t, trivial⟩
  | t :: t' :: ts, h => by
    refine ⟨?_, runOK_nil_of_valid (t' :: ts) h.2⟩
    rw [rtoksText_cons, List.append_nil]
    exact tailOK_of_adj t t' h.1 _

theorem RunValid.prefix : ∀ (a b : List RTok), RunValid (a ++ b) → RunValid a
  | [], _, _ => trivial
  | [t], _, _ => trivial
  | t :: t' :: ts, b, h => ⟨h.1, RunValid.prefix (t' :: ts) b h.2⟩

theorem lastSpans_snoc (t : RTok) : ∀ (ts : List RTok) (pos : Nat),
    lastSpans pos (ts ++ [t]) = some ((pos + (rtoksText ts).length, pos + (rtoksText ts).length + 2),
      (pos + (rtoksText ts).length + t.numOff, pos + (rtoksText ts).length + t.numOff + t.numLen)) := by
  intro ts
  induction ts with
  | nil => intro pos; simp [lastSpans, rtoksText]
  | cons u us ih =>
    intro pos
    have : (u :: us) ++ [t] = u :: (us ++ [t]) := rfl
    rw [this]
    obtain ⟨v, w, hvw⟩ : ∃ v w, us ++ [t] = v :: w := by
      cases us with
      | nil => exact ⟨t, [], rfl⟩
      | cons a b => exact ⟨a, b ++ [t], rfl⟩
    rw [hvw]
    simp only [lastSpans]
    rw [← hvw, ih, rtoksText_cons, List.length_append]
    simp only [Nat.add_assoc]

theorem ml_idx : multilot.idx? ("lot" ++ "num_rightmost") = some 20 ∧ multilot.idx? ("lot" ++ "num") = some 6 ∧
    multilot.idx? "intervener" = some 11 := by decide

theorem span_of_find (m : Match) (g a b : Nat) (hg : g ≠ 0) (h : m.caps.find? (fun c => c.1 == g) = some (g, a, b)) :
    m.span? g = some (a, b) := by
  unfold Match.span?
  have : (g == 0) = false := by simpa using hg
  simp [this, h]

theorem span_of_find_none (m : Match) (g : Nat) (hg : g ≠ 0) (h : m.caps.find? (fun c => c.1 == g) = none) :
    m.span? g = none := by
  unfold Match.span?
  have : (g == 0) = false := by simpa using hg
  simp [this, h]

/-- what `lotLoop` observes when only the first lot is inside `endpos` -/
theorem lotView_first (B : Str) (e : Nat) (caps : List (Nat × Nat × Nat)) (a b : Nat)
    (hs : multilot.rx.search B 0 e = some ⟨0, e, caps⟩)
    (h20 : caps.find? (fun c => c.1 == 20) = none) (h11 : caps.find? (fun c => c.1 == 11) = none)
    (h6 : caps.find? (fun c => c.1 == 6) = some (6, a, b)) :
    lotView B e = some ((pyInt? (slice B a b)).getD 0, false, 0, false) := by
  obtain ⟨i20, i6, i11⟩ := ml_idx
  have s20 := span_of_find_none ⟨0, e, caps⟩ 20 (by decide) h20
  have s11 := span_of_find_none ⟨0, e, caps⟩ 11 (by decide) h11
  have s6 := span_of_find ⟨0, e, caps⟩ 6 a b (by decide) h6
  unfold lotView
  rw [hs]
  simp only [getRightmost, isMulti, startOfRightmost, thruRightmost, Pat.has, Pat.group, Pat.start?, i20, i6, i11,
    Match.group?, s20, s11, s6, Option.isSome_some, Option.isSome_none, Bool.not_true, Bool.false_eq_true, if_false,
    Option.map_none, Option.getD_some, Bool.not_false]
  simp

/-- … and when the last thing inside `endpos` is a later number -/
theorem lotView_iter (B : Str) (e : Nat) (caps : List (Nat × Nat × Nat)) (a b s s' : Nat)
    (hs : multilot.rx.search B 0 e = some ⟨0, e, caps⟩)
    (h20 : caps.find? (fun c => c.1 == 20) = some (20, a, b)) (h11 : caps.find? (fun c => c.1 == 11) = some (11, s, s')) :
    lotView B e = some ((pyInt? (slice B a b)).getD 0, true, s,
      (Gen.through_regex.search (pyStrip (slice B s s'))).isSome) := by
  obtain ⟨i20, i6, i11⟩ := ml_idx
  have s20 := span_of_find ⟨0, e, caps⟩ 20 a b (by decide) h20
  have s11 := span_of_find ⟨0, e, caps⟩ 11 s s' (by decide) h11
  unfold lotView
  rw [hs]
  simp only [getRightmost, isMulti, startOfRightmost, thruRightmost, Pat.has, Pat.group, Pat.start?, i20, i6, i11,
    Match.group?, s20, s11, Option.isSome_some, Bool.not_true, Bool.false_eq_true, if_false,
    Option.map_some, Option.getD_some, if_true]
  simp

def Digs.val (n : Digs) : Int := (pyInt? n.ds).getD 0

def RTok.digs : RTok → Digs
  | .lot n | .lots n | .thru n => n
def FTok.digs : FTok → Digs
  | .lot n | .lots n => n
def RTok.isThru : RTok → Bool
  | .thru _ => true
  | _ => false
/-- the separator or connective at the beginning of the token -/
def RTok.iv : RTok → Str
  | .thru _ => ['-', ' ']
  | _ => [',', ' ']
def RTok.pre : RTok → Str
  | .lot _ => [',', ' ', 'L', 'o', 't', ' ']
  | .lots _ => [',', ' ', 'L', 'o', 't', 's', ' ']
  | .thru _ => ['-', ' ']
def RTok.post : RTok → Str
  | .lots _ => [' ']
  | _ => []
def FTok.pre : FTok → Str
  | .lot _ => ['L', 'o', 't', ' ']
  | .lots _ => ['L', 'o', 't', 's', ' ']
def FTok.post : FTok → Str
  | .lots _ => [' ']
  | .lot _ => []

theorem RTok.text_split (t : RTok) : t.text = t.pre ++ (t.digs.ds ++ t.post) ∧ t.pre.length = t.numOff ∧
    t.digs.ds.length = t.numLen ∧ ∃ r, t.text = t.iv ++ r := by
  cases t <;> refine ⟨by simp [RTok.text, RTok.pre, RTok.post, RTok.digs], rfl, rfl, ?_⟩ <;> exact ⟨_, rfl⟩

theorem FTok.text_split (t : FTok) : t.text = t.pre ++ (t.digs.ds ++ t.post) ∧ t.pre.length = t.numOff ∧
    t.digs.ds.length = t.numLen := by
  cases t <;> exact ⟨by simp [FTok.text, FTok.pre, FTok.post, FTok.digs], rfl, rfl⟩

theorem through_iv (t : RTok) : (Gen.through_regex.search (pyStrip t.iv)).isSome = t.isThru := by
  cases t <;> simp only [RTok.iv, RTok.isThru] <;> decide +kernel

/-- `multilot_regex` on a (possibly truncated) run: the whole text, with the groups of the last token -/
theorem ml_matchHere_run (ft : FTok) (toks : List RTok) (hft : ft.TailOK (rtoksText toks)) (hrun : RunOK toks []) :
    ∃ caps, matchHere Gen.multilot_regex ⟨none, ft.text ++ rtoksText toks, 0, []⟩ false =
        some ⟨0, (ft.text ++ rtoksText toks).length, caps⟩ ∧
      (match lastSpans ft.text.length toks with
       | none => caps.find? (fun c => c.1 == 6) = some (6, ft.numOff, ft.numOff + ft.numLen) ∧
           caps.find? (fun c => c.1 == 11) = none ∧ caps.find? (fun c => c.1 == 20) = none
       | some (si, sn) => caps.find? (fun c => c.1 == 11) = some (11, si.1, si.2) ∧
           caps.find? (fun c => c.1 == 20) = some (20, sn.1, sn.2)) := by
  obtain ⟨caps', hm, _, h3⟩ := run_match mlFIRST mlITER 6 11 20 99 ml_firstSpec ml_iterSpec [] (ml_iter_end [] (Or.inl rfl))
    ft toks (by simpa using hft) hrun none (Or.inl rfl) 0 []
    (fun s' => if (false && s'.pos == 0) = true then none else some ⟨0, s'.pos, s'.caps⟩) (by intro c'; rfl)
  refine ⟨caps', ?_, ?_⟩
  · unfold matchHere
    rw [ml_shape]
    simp only [List.append_nil, Nat.zero_add] at hm
    rw [hm]
    simp
  · simp only [Nat.zero_add] at h3
    cases hsp : lastSpans ft.text.length toks with
    | none => rw [hsp] at h3; simpa using h3
    | some x => rw [hsp] at h3; exact h3

theorem search_take (r : Rx) (pre post : Str) (m : Match)
    (h : matchHere r ⟨none, pre, 0, []⟩ false = some m) : r.search (pre ++ post) 0 pre.length = some m := by
  unfold Rx.search
  simp only [cursorAt, take_pre, List.drop_zero]
  split
  · rename_i hlt; simp at hlt
  · exact scan_hit _ _ _ _ _ _ h

def RTok.pair (t : RTok) : Int × Bool := (t.digs.val, t.isThru)

theorem lotView_zero (B : Str) : lotView B 0 = none := by
  have : multilot.rx.search B 0 0 = none := by
    unfold Rx.search
    simp only [cursorAt, List.take_zero, List.drop_zero]
    split
    · rfl
    · show scan Gen.multilot_regex none [] 0 false = none
      rw [scan_nil]
      exact matchHere_none_of_rejH _ _ [] _ _ (by decide +kernel)
  unfold lotView
  rw [this]

theorem slice_at3 (X pre mid post : Str) :
    slice (X ++ (pre ++ (mid ++ post))) (X.length + pre.length) (X.length + pre.length + mid.length) = mid := by
  have : X ++ (pre ++ (mid ++ post)) = (X ++ pre) ++ (mid ++ post) := by simp
  rw [this, ← List.length_append]
  exact C02_slice_mid _ _ _

/-- reading a run right to left from any token boundary: the numbers met are those of the tokens, each `thru` flagged -/
theorem lexList_run (ft : FTok) (toks : List RTok) (hfadj : ∀ t ts, toks = t :: ts → ft.adjOK t) (hv : RunValid toks) :
    ∀ (revInit rem : List RTok), toks = revInit.reverse ++ rem →
      LexList (lotView (ft.text ++ rtoksText toks)) (ft.text ++ rtoksText revInit.reverse).length
        (revInit.map RTok.pair ++ [(ft.digs.val, false)]) := by
  have hsearch : ∀ (init rem : List RTok), toks = init ++ rem →
      ∃ caps, multilot.rx.search (ft.text ++ rtoksText toks) 0 (ft.text ++ rtoksText init).length =
          some ⟨0, (ft.text ++ rtoksText init).length, caps⟩ ∧
        (match lastSpans ft.text.length init with
         | none => caps.find? (fun c => c.1 == 6) = some (6, ft.numOff, ft.numOff + ft.numLen) ∧
             caps.find? (fun c => c.1 == 11) = none ∧ caps.find? (fun c => c.1 == 20) = none
         | some (si, sn) => caps.find? (fun c => c.1 == 11) = some (11, si.1, si.2) ∧
             caps.find? (fun c => c.1 == 20) = some (20, sn.1, sn.2)) := by
    intro init rem htoks
    have hft : ft.TailOK (rtoksText init) := by
      cases init with
      | nil => exact ftailOK_nil ft
      | cons t ts =>
        rw [rtoksText_cons]
        exact ftailOK_of_adj ft t (hfadj t (ts ++ rem) (by rw [htoks]; rfl)) _
    have hvi : RunValid init := RunValid.prefix init rem (htoks ▸ hv)
    obtain ⟨caps, hm, hc⟩ := ml_matchHere_run ft init hft (runOK_nil_of_valid init hvi)
    refine ⟨caps, ?_, hc⟩
    have : ft.text ++ rtoksText toks = (ft.text ++ rtoksText init) ++ rtoksText rem := by
      rw [htoks, rtoksText_append, List.append_assoc]
    rw [this]
    exact search_take _ _ _ _ hm
  intro revInit
  induction revInit with
  | nil =>
    intro rem htoks
    obtain ⟨caps, hs, hc⟩ := hsearch [] rem (by simpa using htoks)
    simp only [lastSpans] at hc
    obtain ⟨hsplit, hoff, hlen⟩ := ft.text_split
    have hnum : slice (ft.text ++ rtoksText toks) ft.numOff (ft.numOff + ft.numLen) = ft.digs.ds := by
      have := slice_at3 [] ft.pre ft.digs.ds (ft.post ++ rtoksText toks)
      simp only [List.nil_append, List.length_nil, Nat.zero_add] at this
      rw [hsplit, ← hoff, ← hlen]
      simpa [List.append_assoc] using this
    have hview := lotView_first _ _ caps _ _ hs hc.2.2 hc.2.1 hc.1
    rw [hnum] at hview
    exact LexList.last _ _ _ _ hview (lotView_zero _)
  | cons t revInit' ih =>
    intro rem htoks
    have htoks' : toks = revInit'.reverse ++ (t :: rem) := by
      rw [htoks]; simp
    have hinit : (t :: revInit').reverse = revInit'.reverse ++ [t] := by simp
    obtain ⟨caps, hs, hc⟩ := hsearch (revInit'.reverse ++ [t]) rem (by rw [htoks]; simp)
    rw [lastSpans_snoc] at hc
    simp only [] at hc
    obtain ⟨hsplit, hoff, hlen, r, hiv⟩ := t.text_split
    have hB : ft.text ++ rtoksText toks = (ft.text ++ rtoksText revInit'.reverse) ++ (t.text ++ rtoksText rem) := by
      rw [htoks', rtoksText_append, rtoksText_cons, List.append_assoc]
    have hnum : slice (ft.text ++ rtoksText toks) (ft.text.length + (rtoksText revInit'.reverse).length + t.numOff)
        (ft.text.length + (rtoksText revInit'.reverse).length + t.numOff + t.numLen) = t.digs.ds := by
      have := slice_at3 (ft.text ++ rtoksText revInit'.reverse) t.pre t.digs.ds (t.post ++ rtoksText rem)
      rw [hB, hsplit, ← hoff, ← hlen, ← List.length_append]
      simpa [List.append_assoc] using this
    have hivs : slice (ft.text ++ rtoksText toks) (ft.text.length + (rtoksText revInit'.reverse).length)
        (ft.text.length + (rtoksText revInit'.reverse).length + 2) = t.iv := by
      have hl : t.iv.length = 2 := by cases t <;> rfl
      have := C02_slice_mid (ft.text ++ rtoksText revInit'.reverse) t.iv (r ++ rtoksText rem)
      rw [hB, hiv, ← List.length_append, ← hl]
      simpa [List.append_assoc] using this
    have hview := lotView_iter _ _ caps _ _ _ _ hs hc.2 hc.1
    rw [hnum, hivs, through_iv] at hview
    rw [hinit, rtoksText_append]
    have hlt : (ft.text ++ rtoksText revInit'.reverse).length < (ft.text ++ (rtoksText revInit'.reverse ++ rtoksText [t])).length := by
      have := rtok_text_pos t
      simp only [List.length_append, rtoksText, List.flatMap_cons, List.flatMap_nil, List.append_nil]
      omega
    have hview' : lotView (ft.text ++ rtoksText toks) (ft.text ++ (rtoksText revInit'.reverse ++ rtoksText [t])).length =
        some (t.digs.val, true, (ft.text ++ rtoksText revInit'.reverse).length, t.isThru) := by
      rw [← rtoksText_append, List.length_append (as := ft.text) (bs := rtoksText revInit'.reverse)]
      exact hview
    exact LexList.more _ _ _ _ _ hview' hlt (ih (t :: rem) htoks')

/-- a lot element as written: "Lot 12" or "Lots 3 - 7" -/
inductive LotItem where
  | single (n : Digs)
  | range (a b : Digs)

def LotItem.text : LotItem → Str
  | .single n => ['L', 'o', 't', ' '] ++ n.ds
  | .range a b => ['L', 'o', 't', 's', ' '] ++ a.ds ++ ([' ', '-', ' '] ++ b.ds)

def LotItem.item : LotItem → Item
  | .single n => .single n.val
  | .range a b => .range a.val b.val

def LotItem.rtoks : LotItem → List RTok
  | .single n => [.lot n]
  | .range a b => [.lots a, .thru b]
def LotItem.ftok : LotItem → FTok
  | .single n => .lot n
  | .range a _ => .lots a
def LotItem.frest : LotItem → List RTok
  | .single _ => []
  | .range _ b => [.thru b]

/-- a run of lot elements: "Lot 1, Lots 3 - 7, Lot 12" -/
def runText (i0 : LotItem) (is : List LotItem) : Str := i0.text ++ is.flatMap (fun i => [',', ' '] ++ i.text)
def runToks (i0 : LotItem) (is : List LotItem) : List RTok := i0.frest ++ is.flatMap LotItem.rtoks

theorem item_rtoks_text (i : LotItem) : rtoksText i.rtoks = [',', ' '] ++ i.text := by
  cases i <;> simp [LotItem.rtoks, rtoksText, RTok.text, LotItem.text]

theorem runText_eq (i0 : LotItem) (is : List LotItem) : runText i0 is = i0.ftok.text ++ rtoksText (runToks i0 is) := by
  have h1 : i0.text = i0.ftok.text ++ rtoksText i0.frest := by
    cases i0 <;> simp [LotItem.text, LotItem.ftok, LotItem.frest, FTok.text, rtoksText, RTok.text]
  have h2 : ∀ (l : List LotItem), l.flatMap (fun i => [',', ' '] ++ i.text) = rtoksText (l.flatMap LotItem.rtoks) := by
    intro l
    induction l with
    | nil => rfl
    | cons i l ih => rw [List.flatMap_cons, List.flatMap_cons, rtoksText_append, ih, item_rtoks_text]
  rw [runText, runToks, rtoksText_append, h1, h2, List.append_assoc]

/-- a token that begins a new lot -/
def RTok.isNew : RTok → Prop
  | .thru _ => False
  | _ => True

theorem items_valid (is : List LotItem) :
    RunValid (is.flatMap LotItem.rtoks) ∧ ∀ t ts, is.flatMap LotItem.rtoks = t :: ts → t.isNew := by
  induction is with
  | nil => exact ⟨trivial, fun t ts h => by cases h⟩
  | cons i is ih =>
    obtain ⟨hv, hh⟩ := ih
    rw [List.flatMap_cons]
    cases i with
    | single n =>
      refine ⟨?_, fun t ts h => by simp only [LotItem.rtoks, List.cons_append, List.nil_append, List.cons.injEq] at h; rw [← h.1]; trivial⟩
      cases hr : is.flatMap LotItem.rtoks with
      | nil => trivial
      | cons t ts =>
        rw [hr] at hv
        have := hh t ts hr
        exact ⟨by cases t <;> first | trivial | exact this, hv⟩
    | range a b =>
      refine ⟨?_, fun t ts h => by simp only [LotItem.rtoks, List.cons_append, List.nil_append, List.cons.injEq] at h; rw [← h.1]; trivial⟩
      cases hr : is.flatMap LotItem.rtoks with
      | nil => exact ⟨trivial, trivial⟩
      | cons t ts =>
        rw [hr] at hv
        have := hh t ts hr
        exact ⟨trivial, by cases t <;> first | trivial | exact this, hv⟩

theorem run_valid (i0 : LotItem) (is : List LotItem) :
    RunValid (runToks i0 is) ∧ ∀ t ts, runToks i0 is = t :: ts → i0.ftok.adjOK t := by
  obtain ⟨hv, hh⟩ := items_valid is
  unfold runToks
  cases i0 with
  | single n =>
    refine ⟨by simpa [LotItem.frest] using hv, ?_⟩
    intro t ts h
    have := hh t ts (by simpa [LotItem.frest] using h)
    cases t <;> first | trivial | exact this
  | range a b =>
    constructor
    · show RunValid (RTok.thru b :: is.flatMap LotItem.rtoks)
      cases hr : is.flatMap LotItem.rtoks with
      | nil => trivial
      | cons t ts =>
        rw [hr] at hv
        have := hh t ts hr
        exact ⟨by cases t <;> first | trivial | exact this, hv⟩
    · intro t ts h
      simp only [LotItem.frest, List.cons_append, List.nil_append, List.cons.injEq] at h
      rw [← h.1]; trivial

theorem run_tokens (i0 : LotItem) (is : List LotItem) :
    tokens ((i0 :: is).map LotItem.item) = (i0.ftok.digs.val, false) :: (runToks i0 is).map RTok.pair := by
  have h2 : ∀ (l : List LotItem), tokens (l.map LotItem.item) = (l.flatMap LotItem.rtoks).map RTok.pair := by
    intro l
    induction l with
    | nil => rfl
    | cons i l ih =>
      rw [List.map_cons, tokens_cons, ih, List.flatMap_cons, List.map_append]
      cases i <;> rfl
  rw [List.map_cons, tokens_cons, h2, runToks, List.map_append]
  cases i0 <;> rfl

/-- **`unpack_lots` on a run of canonical lot elements**: the lots are the concatenation, in order, of what each element denotes -/
theorem unpackLots_run (i0 : LotItem) (is : List LotItem) :
    (unpackLots (runText i0 is)).lotList = (expand ((i0 :: is).map LotItem.item)).map lotName ∧
      (unpackLots (runText i0 is)).diverged = false := by
  obtain ⟨hv, hadj⟩ := run_valid i0 is
  have hl := lexList_run i0.ftok (runToks i0 is) hadj hv (runToks i0 is).reverse [] (by simp)
  rw [List.reverse_reverse, ← runText_eq] at hl
  apply unpackLots_expand
  rw [run_tokens, List.reverse_cons, ← List.map_reverse]
  exact hl

/-! ### Goal 2: runs of lots and chains, joined by ", " -/

def commaSp : Str := [',', ' ']
/-- `', '.join(...)` -/
def joinC (l : List Str) : Str := commaSp.intercalate l

theorem joinC_nil : joinC [] = [] := rfl

theorem joinC_split (A : List Str) (x : Str) (B : List Str) :
    joinC (A ++ x :: B) = A.flatMap (fun a => a ++ commaSp) ++ (x ++ B.flatMap (fun b => commaSp ++ b)) := by
  induction A with
  | nil => simp [joinC, intercalate_cons_flatMap]
  | cons a A ih =>
    have h1 : joinC ((a :: A) ++ x :: B) = a ++ commaSp ++ joinC (A ++ x :: B) := by
      unfold joinC
      obtain ⟨v, w, hvw⟩ : ∃ v w, A ++ x :: B = v :: w := by
        cases A with
        | nil => exact ⟨x, B, rfl⟩
        | cons a' A' => exact ⟨a', A' ++ x :: B, rfl⟩
      rw [List.cons_append, hvw]
      simp [List.intercalate, List.intersperse]
    rw [h1, ih]
    simp

theorem joinC_cons2 (a b : Str) (t : List Str) : joinC (a :: b :: t) = a ++ commaSp ++ joinC (b :: t) := by
  simp [joinC, List.intercalate, List.intersperse]

/-- a processed unit: a chain, or the ";;" that replaces an extracted block -/
inductive PU where
  | patch
  | chain (c : List Comp)

def PU.text : PU → Str
  | .patch => ";;".toList
  | .chain c => chainText c

def PU.OK : PU → Prop
  | .patch => True
  | .chain c => c ≠ []

def pusPrefix (A : List PU) : Str := A.flatMap (fun u => u.text ++ commaSp)

theorem commaSp_sep : ∀ c ∈ commaSp, SepChar c := by
  intro c hc; simp [commaSp] at hc; rcases hc with rfl | rfl <;> simp [SepChar]

/-- scanning over processed units (each followed by ", ") finds no lot -/
theorem mwa_scan_pus (A : List PU) (hA : ∀ u ∈ A, u.OK) (rest : Str) : ∀ (prev : Option Char) (pos : Nat),
    ∃ p', (A = [] → p' = prev) ∧ (A ≠ [] → p' = some ' ') ∧
      scan Gen.multilot_with_aliquot_regex prev (pusPrefix A ++ rest) pos false =
        scan Gen.multilot_with_aliquot_regex p' rest (pos + (pusPrefix A).length) false := by
  induction A with
  | nil => intro prev pos; exact ⟨prev, fun _ => rfl, fun h => absurd rfl h, rfl⟩
  | cons u A ih =>
    intro prev pos
    have hq : scan Gen.multilot_with_aliquot_regex prev (u.text ++ (commaSp ++ (pusPrefix A ++ rest))) pos false =
        scan Gen.multilot_with_aliquot_regex (some ' ') (pusPrefix A ++ rest) (pos + (u.text ++ commaSp).length) false := by
      cases u with
      | patch =>
        have := mwa_scan_seps (";;".toList ++ commaSp) (pusPrefix A ++ rest) (by
          intro c hc
          rcases List.mem_append.mp hc with hc | hc
          · exact sepChar_patch c hc
          · exact commaSp_sep c hc) prev pos
        simpa [PU.text, List.append_assoc, commaSp, lastOr] using this
      | chain c =>
        have h1 := mwa_scan_chain c (commaSp ++ (pusPrefix A ++ rest)) (CommaHead.cons _ (Or.inl rfl)) prev pos
        have h2 := mwa_scan_seps commaSp (pusPrefix A ++ rest) commaSp_sep (lastOr prev (chainText c)) (pos + (chainText c).length)
        show scan _ prev (chainText c ++ _) pos false = _
        rw [h1, h2]
        simp [commaSp, lastOr, List.length_append, Nat.add_assoc, PU.text]
    obtain ⟨p', h1, h2, h3⟩ := ih (fun v hv => hA v (List.mem_cons_of_mem _ hv)) (some ' ') (pos + (u.text ++ commaSp).length)
    refine ⟨some ' ', (fun h => nomatch h), (fun _ => rfl), ?_⟩
    have hp' : scan Gen.multilot_with_aliquot_regex p' rest (pos + (u.text ++ commaSp).length + (pusPrefix A).length) false =
        scan Gen.multilot_with_aliquot_regex (some ' ') rest (pos + (pusPrefix (u :: A)).length) false := by
      have e : pos + (u.text ++ commaSp).length + (pusPrefix A).length = pos + (pusPrefix (u :: A)).length := by
        simp [pusPrefix, List.length_append]; omega
      rw [e]
      cases A with
      | nil => rw [h1 rfl]
      | cons v A' => rw [h2 (by simp)]
    have hpre : pusPrefix (u :: A) ++ rest = u.text ++ (commaSp ++ (pusPrefix A ++ rest)) := by
      simp [pusPrefix, List.append_assoc]
    rw [hpre, hq, h3, hp']

/-- a block of the description: a chain, or a maximal run of lot elements -/
inductive Blk where
  | chain (c : List Comp)
  | run (i0 : LotItem) (is : List LotItem)

def Blk.text : Blk → Str
  | .chain c => chainText c
  | .run i0 is => runText i0 is

/-- what the first extraction loop leaves of the block -/
def Blk.pu : Blk → PU
  | .chain c => .chain c
  | .run _ _ => .patch

/-- the list does not begin with a run -/
def NoRunHead : List Blk → Prop
  | .run _ _ :: _ => False
  | _ => True

/-- chains are non-empty, and two runs are never adjacent (a run is maximal) -/
def ValidBlks : List Blk → Prop
  | [] => True
  | .chain c :: rest => c ≠ [] ∧ ValidBlks rest
  | .run _ _ :: rest => NoRunHead rest ∧ ValidBlks rest

def runBlocks : List Blk → List (Str × Option Str)
  | [] => []
  | .chain _ :: rest => runBlocks rest
  | .run i0 is :: rest => (runText i0 is, none) :: runBlocks rest

def nRuns : List Blk → Nat
  | [] => 0
  | .chain _ :: rest => nRuns rest
  | .run _ _ :: rest => nRuns rest + 1

theorem pusPrefix_eq (A : List PU) : (A.map PU.text).flatMap (fun a => a ++ commaSp) = pusPrefix A := by
  simp [pusPrefix, List.flatMap_map]

theorem list_snoc_cases {α : Type} (l : List α) : l = [] ∨ ∃ l' x, l = l' ++ [x] := by
  induction l with
  | nil => exact Or.inl rfl
  | cons a t ih =>
    right
    rcases ih with rfl | ⟨l', x, rfl⟩
    · exact ⟨[], a, rfl⟩
    · exact ⟨a :: l', x, rfl⟩

/-- the optional last element: nothing, or ", ALL" -/
def TailAll (tail : Str) : Prop := tail = [] ∨ tail = commaSp ++ ['A', 'L', 'L']

theorem TailAll.commaHead {tail : Str} (h : TailAll tail) : CommaHead tail := by
  rcases h with rfl | rfl
  · exact CommaHead.nil
  · exact CommaHead.cons _ (Or.inl rfl)

theorem TailAll.sepHead {tail : Str} (h : TailAll tail) : SepHead tail := by
  rcases h with rfl | rfl
  · exact SepHead.nil
  · exact SepHead.cons _ (Or.inl rfl)

theorem TailAll.dead_mwa {tail : Str} (h : TailAll tail) : DeadTail Gen.multilot_with_aliquot_regex tail := by
  rcases h with rfl | rfl
  · exact deadTail_nil_mwa
  · exact deadTail_all_mwa .comma

theorem TailAll.dead_au {tail : Str} (h : TailAll tail) : DeadTail Gen.aliquot_unpacker_regex tail := by
  rcases h with rfl | rfl
  · exact au_deadTail_nil
  · exact au_deadTail_all .comma

/-- no lot in a text of processed units (and an optional final ", ALL") -/
theorem mwa_search_pus (A : List PU) (hA : ∀ u ∈ A, u.OK) (tail : Str) (ht : TailAll tail) :
    multilotWithAliquot.rx.search (joinC (A.map PU.text) ++ tail) = none := by
  rw [search_eq_scan]
  show scan Gen.multilot_with_aliquot_regex none (joinC (A.map PU.text) ++ tail) 0 false = none
  rcases list_snoc_cases A with rfl | ⟨A', u, rfl⟩
  · exact ht.dead_mwa _ _
  · have : joinC ((A' ++ [u]).map PU.text) ++ tail = pusPrefix A' ++ (u.text ++ tail) := by
      rw [List.map_append, List.map_cons, List.map_nil, joinC_split, pusPrefix_eq]; simp
    rw [this]
    obtain ⟨p', _, _, h⟩ := mwa_scan_pus A' (fun v hv => hA v (by simp [hv])) (u.text ++ tail) none 0
    rw [h]
    cases u with
    | patch =>
      have := mwa_scan_seps ";;".toList tail sepChar_patch p' (0 + (pusPrefix A').length)
      show scan _ p' (";;".toList ++ tail) _ false = none
      rw [this, ht.dead_mwa]
    | chain c =>
      show scan _ p' (chainText c ++ tail) _ false = none
      rw [mwa_scan_chain c tail ht.commaHead, ht.dead_mwa]

theorem ftok_tailOK_run (i0 : LotItem) (is : List LotItem) (tailF : Str) (ht : tailF = [] ∨ ∃ t, tailF = ',' :: t) :
    i0.ftok.TailOK (rtoksText (runToks i0 is) ++ tailF) := by
  obtain ⟨_, hadj⟩ := run_valid i0 is
  cases hr : runToks i0 is with
  | nil =>
    cases i0 with
    | single n => simpa [rtoksText, LotItem.ftok, FTok.TailOK] using ht
    | range a b => simp [runToks, LotItem.frest] at hr
  | cons t ts =>
    rw [rtoksText_cons, List.append_assoc]
    exact ftailOK_of_adj _ t (hadj t ts hr) _

/-- a run built from elements never ends with the left end of a range -/
theorem runOK_items (tailF : Str) (ht : tailF = [] ∨ ∃ t, tailF = ',' :: t) :
    ∀ (toks : List RTok), RunValid toks → (∀ a, toks.getLast? ≠ some (.lots a)) → RunOK toks tailF
  | [], _, _ => trivial
  | [t], _, hl => by
    refine ⟨?_, trivial⟩
    cases t with
    | lots a => exact absurd rfl (hl a)
    | lot n => simpa [rtoksText, RTok.TailOK] using ht
    | thru b => simpa [rtoksText, RTok.TailOK] using ht
  | t :: t' :: ts, hv, hl => by
    refine ⟨?_, runOK_items tailF ht (t' :: ts) hv.2 (by simpa using hl)⟩
    rw [rtoksText_cons, List.append_assoc]
    exact tailOK_of_adj t t' hv.1 _

theorem runToks_last (i0 : LotItem) (is : List LotItem) : ∀ a, (runToks i0 is).getLast? ≠ some (.lots a) := by
  have hitems : ∀ (l : List LotItem) (a : Digs), (l.flatMap LotItem.rtoks).getLast? ≠ some (.lots a) := by
    intro l
    induction l with
    | nil => intro a; simp
    | cons i l ih =>
      intro a
      rw [List.flatMap_cons, List.getLast?_append]
      cases hl : (l.flatMap LotItem.rtoks).getLast? with
      | some x => rw [hl] at ih; simpa using ih a
      | none => cases i <;> simp [LotItem.rtoks]
  intro a
  unfold runToks
  rw [List.getLast?_append]
  cases hl : (is.flatMap LotItem.rtoks).getLast? with
  | some x => have := hitems is a; rw [hl] at this; simpa using this
  | none => cases i0 <;> simp [LotItem.frest]

/-- what follows a run in a valid description: nothing, or ", " and a chain (or the final "ALL") -/
theorem endTail_after_run (rest : List Blk) (hv : ValidBlks rest) (hnr : NoRunHead rest) (tail : Str) (ht : TailAll tail) :
    EndTail ((rest.map Blk.text).flatMap (fun b => commaSp ++ b) ++ tail) := by
  cases rest with
  | nil =>
    rcases ht with rfl | rfl
    · exact Or.inl rfl
    · exact Or.inr (Or.inr rfl)
  | cons b rest' =>
    cases b with
    | run i0 is => exact absurd hnr (by simp [NoRunHead])
    | chain c =>
      right; left
      obtain ⟨hc, _⟩ := hv
      obtain ⟨ch, t, hct, _⟩ := chain_head_word c hc
      have hch : ch ∈ ['N', 'S', 'E', 'W'] := by
        cases c with
        | nil => exact absurd rfl hc
        | cons x xs =>
          rw [C02_chainText_cons, compText_eq] at hct
          cases x <;> simp at hct <;> simp [← hct.1]
      refine ⟨ch, t ++ ((rest'.map Blk.text).flatMap (fun b => commaSp ++ b) ++ tail), ?_, hch⟩
      simp [Blk.text, hct, commaSp]

theorem mwa_idx : multilotWithAliquot.idx? "aliquot" = some 3 ∧ multilotWithAliquot.idx? "lots" = some 9 := by decide

/-- one pass of the first loop: the leftmost run is taken out whole (no leading aliquot) and replaced by ";;" -/
theorem extractLots_step (fuel : Nat) (A : List PU) (hA : ∀ u ∈ A, u.OK) (i0 : LotItem) (is : List LotItem)
    (rest : List Str) (tail : Str) (hend : EndTail (rest.flatMap (fun b => commaSp ++ b) ++ tail))
    (acc : List (Str × Option Str)) :
    extractLots (fuel + 1) (joinC (A.map PU.text ++ runText i0 is :: rest) ++ tail) acc =
      extractLots fuel (joinC ((A ++ [PU.patch]).map PU.text ++ rest) ++ tail) (acc ++ [(runText i0 is, none)]) := by
  obtain ⟨hv, _⟩ := run_valid i0 is
  have htl : rest.flatMap (fun b => commaSp ++ b) ++ tail = [] ∨ ∃ t, rest.flatMap (fun b => commaSp ++ b) ++ tail = ',' :: t := by
    rcases hend with h | ⟨c, t, h, _⟩ | h
    · exact Or.inl h
    · exact Or.inr ⟨_, h⟩
    · exact Or.inr ⟨_, h⟩
  have hft := ftok_tailOK_run i0 is _ htl
  have hrun := runOK_items _ htl (runToks i0 is) hv (runToks_last i0 is)
  obtain ⟨p', hp1, hp2, hscan⟩ := mwa_scan_pus A hA (runText i0 is ++ (rest.flatMap (fun b => commaSp ++ b) ++ tail)) none 0
  have hp' : p' = none ∨ p' = some ' ' := by
    cases A with
    | nil => exact Or.inl (hp1 rfl)
    | cons u A' => exact Or.inr (hp2 (by simp))
  obtain ⟨caps, hm, h3, h9⟩ := mwa_matchHere_run i0.ftok (runToks i0 is) _ hend hft hrun p' hp' (0 + (pusPrefix A).length)
  have htext : joinC (A.map PU.text ++ runText i0 is :: rest) ++ tail =
      pusPrefix A ++ (runText i0 is ++ (rest.flatMap (fun b => commaSp ++ b) ++ tail)) := by
    rw [joinC_split, pusPrefix_eq]; simp
  have etxt : i0.ftok.text ++ (rtoksText (runToks i0 is) ++ (rest.flatMap (fun b => commaSp ++ b) ++ tail)) =
      runText i0 is ++ (rest.flatMap (fun b => commaSp ++ b) ++ tail) := by rw [runText_eq, List.append_assoc]
  rw [← runText_eq] at hm h9
  rw [etxt] at hm
  have hsearch : multilotWithAliquot.rx.search (joinC (A.map PU.text ++ runText i0 is :: rest) ++ tail) =
      some ⟨(pusPrefix A).length, (pusPrefix A).length + (runText i0 is).length, caps⟩ := by
    rw [search_eq_scan, htext]
    show scan Gen.multilot_with_aliquot_regex none _ 0 false = _
    rw [hscan, scan_hit _ _ _ _ _ _ hm]
    simp
  obtain ⟨i3, i9⟩ := mwa_idx
  have hlead : multilotWithAliquot.group ⟨(pusPrefix A).length, (pusPrefix A).length + (runText i0 is).length, caps⟩
      (joinC (A.map PU.text ++ runText i0 is :: rest) ++ tail) "aliquot" = none := by
    simp only [Pat.group, i3, Match.group?]
    rw [span_of_find_none _ 3 (by decide) h3]
  have hlots : multilotWithAliquot.group ⟨(pusPrefix A).length, (pusPrefix A).length + (runText i0 is).length, caps⟩
      (joinC (A.map PU.text ++ runText i0 is :: rest) ++ tail) "lots" = some (runText i0 is) := by
    simp only [Pat.group, i9, Match.group?]
    rw [span_of_find _ 9 _ _ (by decide) (by simpa using h9), htext]
    simp only [C02_slice_mid]
  rw [extractLots, hsearch]
  simp only [hlead, hlots, Option.getD_some]
  have hrem : (joinC (A.map PU.text ++ runText i0 is :: rest) ++ tail).take (pusPrefix A).length ++ ";;".toList ++
      (joinC (A.map PU.text ++ runText i0 is :: rest) ++ tail).drop ((pusPrefix A).length + (runText i0 is).length) =
      joinC ((A ++ [PU.patch]).map PU.text ++ rest) ++ tail := by
    rw [htext, take_pre, drop_pre_mid]
    cases rest with
    | nil =>
      rw [List.append_nil, List.map_append, List.map_cons, List.map_nil, joinC_split, pusPrefix_eq]
      simp [PU.text]
    | cons r rest' =>
      have : (A ++ [PU.patch]).map PU.text ++ r :: rest' = A.map PU.text ++ ";;".toList :: (r :: rest') := by
        simp [PU.text]
      rw [this, joinC_split, pusPrefix_eq]
      simp
  rw [hrem]

theorem extractLots_blks (tail : Str) (ht : TailAll tail) : ∀ (B : List Blk), ValidBlks B → ∀ (A : List PU), (∀ u ∈ A, u.OK) →
    ∀ (acc : List (Str × Option Str)) (fuel : Nat), nRuns B < fuel →
    extractLots fuel (joinC (A.map PU.text ++ B.map Blk.text) ++ tail) acc =
      some (joinC (A.map PU.text ++ B.map (fun b => b.pu.text)) ++ tail, acc ++ runBlocks B) := by
  intro B
  induction B with
  | nil =>
    intro _ A hA acc fuel hf
    obtain ⟨n, rfl⟩ : ∃ n, fuel = n + 1 := ⟨fuel - 1, by omega⟩
    simp only [List.map_nil, List.append_nil, runBlocks]
    rw [extractLots, mwa_search_pus A hA tail ht]
  | cons b B ih =>
    intro hv A hA acc fuel hf
    cases b with
    | chain c =>
      obtain ⟨hc, hv'⟩ := hv
      have h1 : A.map PU.text ++ (Blk.chain c :: B).map Blk.text = (A ++ [PU.chain c]).map PU.text ++ B.map Blk.text := by
        simp [Blk.text, PU.text]
      have h2 : A.map PU.text ++ (Blk.chain c :: B).map (fun b => b.pu.text) =
          (A ++ [PU.chain c]).map PU.text ++ B.map (fun b => b.pu.text) := by
        simp [Blk.pu, PU.text]
      rw [h1, h2]
      exact ih hv' (A ++ [PU.chain c]) (by
        intro u hu
        rcases List.mem_append.mp hu with hu | hu
        · exact hA u hu
        · simp at hu; subst hu; exact hc) acc fuel (by simpa [nRuns] using hf)
    | run i0 is =>
      obtain ⟨hnr, hv'⟩ := hv
      obtain ⟨n, rfl⟩ : ∃ n, fuel = n + 1 := ⟨fuel - 1, by simp [nRuns] at hf; omega⟩
      have h1 : A.map PU.text ++ (Blk.run i0 is :: B).map Blk.text = A.map PU.text ++ runText i0 is :: B.map Blk.text := by
        simp [Blk.text]
      have h2 : A.map PU.text ++ (Blk.run i0 is :: B).map (fun b => b.pu.text) =
          (A ++ [PU.patch]).map PU.text ++ B.map (fun b => b.pu.text) := by
        simp [Blk.pu, PU.text]
      rw [h1, h2, extractLots_step n A hA i0 is _ tail (endTail_after_run B hv' hnr tail ht) acc,
        ih hv' (A ++ [PU.patch]) (by
          intro u hu
          rcases List.mem_append.mp hu with hu | hu
          · exact hA u hu
          · simp at hu; subst hu; trivial) _ n (by simpa [nRuns] using hf)]
      simp [runBlocks]

/-! #### the second loop on what the first loop left -/

def puChains : List PU → List Str
  | [] => []
  | .patch :: rest => puChains rest
  | .chain c :: rest => chainText c :: puChains rest

def nChains : List PU → Nat
  | [] => 0
  | .patch :: rest => nChains rest
  | .chain _ :: rest => nChains rest + 1

def AllPatch (A : List PU) : Prop := ∀ u ∈ A, u = PU.patch

theorem pusPrefix_sep (A : List PU) (hA : AllPatch A) : ∀ c ∈ pusPrefix A, SepChar c := by
  intro c hc
  unfold pusPrefix at hc
  rw [List.mem_flatMap] at hc
  obtain ⟨u, hu, hc⟩ := hc
  rw [hA u hu] at hc
  rcases List.mem_append.mp hc with hc | hc
  · exact sepChar_patch c hc
  · exact commaSp_sep c hc

theorem joinC_patches_sep (A : List PU) (hA : AllPatch A) : ∀ c ∈ joinC (A.map PU.text), SepChar c := by
  rcases list_snoc_cases A with rfl | ⟨A', u, rfl⟩
  · intro c hc; simp [joinC] at hc
  · have : joinC ((A' ++ [u]).map PU.text) = pusPrefix A' ++ (u.text ++ []) := by
      rw [List.map_append, List.map_cons, List.map_nil, joinC_split, pusPrefix_eq]; simp
    rw [this]
    intro c hc
    rcases List.mem_append.mp hc with hc | hc
    · exact pusPrefix_sep A' (fun v hv => hA v (by simp [hv])) c hc
    · rw [hA u (by simp)] at hc
      exact sepChar_patch c (by simpa [PU.text] using hc)

theorem extractAliquots_pus (tail : Str) (ht : TailAll tail) : ∀ (B : List PU), (∀ u ∈ B, u.OK) → ∀ (A : List PU), AllPatch A →
    ∀ (acc : List Str) (fuel : Nat), nChains B < fuel →
    extractAliquots fuel (joinC (A.map PU.text ++ B.map PU.text) ++ tail) acc =
      some (joinC (A.map PU.text ++ B.map (fun _ => ";;".toList)) ++ tail, acc ++ puChains B) := by
  intro B
  induction B with
  | nil =>
    intro _ A hA acc fuel hf
    obtain ⟨n, rfl⟩ : ∃ n, fuel = n + 1 := ⟨fuel - 1, by omega⟩
    simp only [List.map_nil, List.append_nil, puChains]
    have : aliquotUnpacker.rx.search (joinC (A.map PU.text) ++ tail) = none := by
      rw [search_eq_scan]
      show scan Gen.aliquot_unpacker_regex none (joinC (A.map PU.text) ++ tail) 0 false = none
      rw [au_scan_skip _ tail (joinC_patches_sep A hA) none 0, ht.dead_au]
    rw [extractAliquots, this]
  | cons b B ih =>
    intro hB A hA acc fuel hf
    have hB' : ∀ u ∈ B, u.OK := fun u hu => hB u (List.mem_cons_of_mem _ hu)
    have hA' : AllPatch (A ++ [PU.patch]) := by
      intro u hu
      rcases List.mem_append.mp hu with hu | hu
      · exact hA u hu
      · simpa using hu
    cases b with
    | patch =>
      have h1 : A.map PU.text ++ (PU.patch :: B).map PU.text = (A ++ [PU.patch]).map PU.text ++ B.map PU.text := by simp
      have h2 : A.map PU.text ++ (PU.patch :: B).map (fun _ => ";;".toList) =
          (A ++ [PU.patch]).map PU.text ++ B.map (fun _ => ";;".toList) := by simp [PU.text]
      rw [h1, h2]
      exact ih hB' (A ++ [PU.patch]) hA' acc fuel (by simpa [nChains] using hf)
    | chain c =>
      obtain ⟨n, rfl⟩ : ∃ n, fuel = n + 1 := ⟨fuel - 1, by simp [nChains] at hf; omega⟩
      have hc : c ≠ [] := hB (PU.chain c) (by simp)
      have htext : joinC (A.map PU.text ++ (PU.chain c :: B).map PU.text) ++ tail =
          pusPrefix A ++ (chainText c ++ ((B.map PU.text).flatMap (fun b => commaSp ++ b) ++ tail)) := by
        rw [List.map_cons, joinC_split, pusPrefix_eq]; simp [PU.text]
      have hsh : SepHead ((B.map PU.text).flatMap (fun b => commaSp ++ b) ++ tail) := by
        cases B with
        | nil => simpa using ht.sepHead
        | cons u B' =>
          simp only [List.map_cons, List.flatMap_cons, commaSp, List.cons_append]; exact SepHead.cons _ (Or.inl rfl)
      have hrem : (pusPrefix A ++ ";;".toList) ++ ((B.map PU.text).flatMap (fun b => commaSp ++ b) ++ tail) =
          joinC ((A ++ [PU.patch]).map PU.text ++ B.map PU.text) ++ tail := by
        cases hBm : B.map PU.text with
        | nil =>
          rw [List.append_nil, List.map_append, List.map_cons, List.map_nil, joinC_split, pusPrefix_eq]
          simp [PU.text]
        | cons r rest' =>
          have : (A ++ [PU.patch]).map PU.text ++ r :: rest' = A.map PU.text ++ ";;".toList :: (r :: rest') := by
            simp [PU.text]
          rw [this, joinC_split, pusPrefix_eq]
          simp
      have h2 : A.map PU.text ++ (PU.chain c :: B).map (fun _ => ";;".toList) =
          (A ++ [PU.patch]).map PU.text ++ B.map (fun _ => ";;".toList) := by simp [PU.text]
      rw [htext, extractAliquots_step n (pusPrefix A) (pusPrefix_sep A hA) c hc _ hsh acc, hrem, h2,
        ih hB' (A ++ [PU.patch]) hA' _ n (by simpa [nChains] using hf)]
      simp [puChains]

/-! #### the fold over the lot blocks -/

theorem lotBlocksFold_runs (a : ParseArgs) : ∀ (blocks : List (Str × Option Str)), (∀ bl ∈ blocks, bl.2 = none) →
    ∀ (st : LotAcc), ∃ st', lotBlocksFold a st blocks = .ok st' ∧
      st'.lots = st.lots ++ blocks.flatMap (fun bl => (unpackLots bl.1).lotList) ∧
      st'.dv = (st.dv || blocks.any (fun bl => (unpackLots bl.1).diverged)) := by
  intro blocks
  induction blocks with
  | nil => intro _ st; exact ⟨st, rfl, by simp, by simp⟩
  | cons bl rest ih =>
    intro hn st
    have hbl : bl.2 = none := hn bl (by simp)
    have hstep : ∃ st1, lotBlockStep a st bl = .ok st1 ∧ st1.lots = st.lots ++ (unpackLots bl.1).lotList ∧
        st1.dv = (st.dv || (unpackLots bl.1).diverged) := by
      unfold lotBlockStep
      simp only [blockLots, hbl]
      exact ⟨_, rfl, rfl, rfl⟩
    obtain ⟨st1, h1, h2, h3⟩ := hstep
    obtain ⟨st', h4, h5, h6⟩ := ih (fun b hb => hn b (List.mem_cons_of_mem _ hb)) st1
    refine ⟨st', ?_, ?_, ?_⟩
    · simp only [lotBlocksFold, h1]; exact h4
    · rw [h5, h2]; simp
    · rw [h6, h3]; simp [Bool.or_assoc]

/-! #### the text as extended canonical tokens (for the normalisation) -/

def LotItem.xtok : LotItem → XTok
  | .single n => .lot n
  | .range a b => .lots a b

theorem LotItem.xtok_text (i : LotItem) : i.xtok.text = i.text := by cases i <;> rfl

def Blk.xtoks : Blk → List XTok
  | .chain c => (c.map Tok.comp).map XTok.tok
  | .run i0 is => ([XTok.tok .comma] : List XTok).intercalate ((i0 :: is).map (fun i => [i.xtok]))

theorem intercalate_cons_flatMap' {α : Type} (sep a : List α) (l : List (List α)) :
    sep.intercalate (a :: l) = a ++ l.flatMap (fun b => sep ++ b) := by
  induction l generalizing a with
  | nil => simp [List.intercalate, List.intersperse]
  | cons b t ih =>
    have e : sep.intercalate (a :: b :: t) = a ++ sep ++ sep.intercalate (b :: t) := by
      simp [List.intercalate, List.intersperse]
    rw [e, ih]
    simp

theorem xtoksText_append (a b : List XTok) : xtoksText (a ++ b) = xtoksText a ++ xtoksText b := by
  simp [xtoksText, textOf]

theorem xtoks_join (Ls : List (List XTok)) :
    xtoksText (([XTok.tok .comma] : List XTok).intercalate Ls) = joinC (Ls.map xtoksText) := by
  cases Ls with
  | nil => rfl
  | cons a l =>
    rw [intercalate_cons_flatMap', List.map_cons, joinC, intercalate_cons_flatMap, xtoksText_append]
    congr 1
    induction l with
    | nil => rfl
    | cons b l ih =>
      rw [List.flatMap_cons, xtoksText_append, ih, List.map_cons, List.flatMap_cons, xtoksText_append]
      rfl

theorem runText_join (i0 : LotItem) (is : List LotItem) : runText i0 is = joinC ((i0 :: is).map LotItem.text) := by
  rw [joinC, List.map_cons, intercalate_cons_flatMap, runText, List.flatMap_map]
  rfl

theorem Blk.text_xtoks (b : Blk) : b.text = xtoksText b.xtoks := by
  cases b with
  | chain c => simp only [Blk.text, Blk.xtoks, xtoksText_toks, toksText_comps]
  | run i0 is =>
    simp only [Blk.text, Blk.xtoks]
    rw [xtoks_join, runText_join, List.map_map]
    congr 1
    apply List.map_congr_left
    intro i _
    simp [xtoksText, textOf, LotItem.xtok_text]

theorem blocks_text_xtoks (B : List Blk) :
    joinC (B.map Blk.text) = xtoksText (([XTok.tok .comma] : List XTok).intercalate (B.map Blk.xtoks)) := by
  rw [xtoks_join, List.map_map]
  congr 1
  apply List.map_congr_left
  intro b _
  exact b.text_xtoks

/-! #### the whole parse -/

/-- the lots a block denotes -/
def Blk.lots : Blk → List Str
  | .chain _ => []
  | .run i0 is => (expand ((i0 :: is).map LotItem.item)).map lotName

/-- the chains of the description, in order -/
def blkChains : List Blk → List (List Comp)
  | [] => []
  | .chain c :: rest => c :: blkChains rest
  | .run _ _ :: rest => blkChains rest

theorem puChains_blks (B : List Blk) : puChains (B.map Blk.pu) = (blkChains B).map chainText := by
  induction B with
  | nil => rfl
  | cons b B ih => cases b <;> simp [Blk.pu, puChains, blkChains, ih]

theorem runBlocks_none (B : List Blk) : ∀ bl ∈ runBlocks B, bl.2 = none := by
  induction B with
  | nil => intro bl h; simp [runBlocks] at h
  | cons b B ih =>
    cases b with
    | chain c => simpa [runBlocks] using ih
    | run i0 is =>
      intro bl h
      simp only [runBlocks, List.mem_cons] at h
      rcases h with rfl | h
      · rfl
      · exact ih bl h

theorem runBlocks_lots (B : List Blk) :
    (runBlocks B).flatMap (fun bl => (unpackLots bl.1).lotList) = B.flatMap Blk.lots ∧
    (runBlocks B).any (fun bl => (unpackLots bl.1).diverged) = false := by
  induction B with
  | nil => exact ⟨rfl, rfl⟩
  | cons b B ih =>
    cases b with
    | chain c => simpa [runBlocks, Blk.lots] using ih
    | run i0 is =>
      obtain ⟨h1, h2⟩ := unpackLots_run i0 is
      simp [runBlocks, h1, h2, ih.1, ih.2, Blk.lots]

theorem nRuns_le (B : List Blk) : nRuns B ≤ B.length := by
  induction B with
  | nil => simp [nRuns]
  | cons b B ih => cases b <;> simp [nRuns] <;> omega

theorem nChains_le (A : List PU) : nChains A ≤ A.length := by
  induction A with
  | nil => simp [nChains]
  | cons b B ih => cases b <;> simp [nChains] <;> omega

theorem Blk.text_ne_nil (b : Blk) (h : ∀ c, b = .chain c → c ≠ []) : b.text ≠ [] := by
  cases b with
  | chain c =>
    have := C02_chainText_length c
    have hc := h c rfl
    intro he
    simp only [Blk.text] at he
    rw [he] at this
    cases c with
    | nil => exact hc rfl
    | cons x xs => simp at this
  | run i0 is => cases i0 <;> simp [Blk.text, runText, LotItem.text]

theorem flatMap_comma_length (t : List Str) : t.length ≤ (t.flatMap (fun b => commaSp ++ b)).length := by
  induction t with
  | nil => simp
  | cons b t ih =>
    rw [List.flatMap_cons, List.length_append, List.length_cons]
    have : 2 ≤ (commaSp ++ b).length := by simp [commaSp]
    omega

theorem joinC_length (l : List Str) (h : ∀ x ∈ l, x ≠ []) : l.length ≤ (joinC l).length := by
  cases l with
  | nil => simp
  | cons a t =>
    have ha := List.length_pos_iff.mpr (h a (by simp))
    have e : joinC (a :: t) = a ++ t.flatMap (fun b => commaSp ++ b) := intercalate_cons_flatMap _ _ _
    have e2 := flatMap_comma_length t
    rw [e, List.length_append, List.length_cons]
    omega

theorem validBlks_ne (B : List Blk) (hv : ValidBlks B) : ∀ b ∈ B, ∀ c, b = .chain c → c ≠ [] := by
  induction B with
  | nil => intro b hb; cases hb
  | cons x B ih =>
    intro b hb c hbc
    cases x with
    | chain c' =>
      rcases List.mem_cons.mp hb with h | h
      · rw [hbc] at h; cases h; exact hv.1
      · exact ih hv.2 b h c hbc
    | run i0 is =>
      rcases List.mem_cons.mp hb with h | h
      · rw [hbc] at h; cases h
      · exact ih hv.2 b h c hbc

theorem pus_ok_blks (B : List Blk) (hv : ValidBlks B) : ∀ u ∈ B.map Blk.pu, u.OK := by
  intro u hu
  rw [List.mem_map] at hu
  obtain ⟨b, hb, rfl⟩ := hu
  cases b with
  | chain c => exact validBlks_ne B hv _ hb c rfl
  | run i0 is => trivial

/-- the patches (each followed by ",") and the final word "ALL" -/
theorem patches_all_words (n : Nat) :
    joinC (List.replicate (n + 1) ";;".toList) ++ (commaSp ++ ['A', 'L', 'L']) =
      wordsText (List.replicate (n + 1) [';', ';', ','] ++ [['A', 'L', 'L']]) := by
  induction n with
  | zero => rfl
  | succ n ih =>
    have e1 : joinC (List.replicate (n + 1 + 1) ";;".toList) = ";;".toList ++ commaSp ++ joinC (List.replicate (n + 1) ";;".toList) := by
      rw [List.replicate_succ, List.replicate_succ, joinC_cons2, ← List.replicate_succ]
    have e2 : wordsText (List.replicate (n + 1 + 1) [';', ';', ','] ++ [['A', 'L', 'L']]) =
        [';', ';', ','] ++ ' ' :: wordsText (List.replicate (n + 1) [';', ';', ','] ++ [['A', 'L', 'L']]) := by
      rw [List.replicate_succ, List.cons_append, List.replicate_succ, List.cons_append]
      rfl
    rw [e1, e2, ← ih]
    simp [commaSp]

/-- what `ALL` adds: nothing without it, the block "ALL" with it -/
def allBlock (tail : Str) : List Str := if tail = [] then [] else ["ALL".toList]

/-- **C06 (lots, chains and a final "ALL" on text)**: a description made of runs of lot elements ("Lot n", "Lots a - b") and
    canonical chains, all separated by ", ", optionally followed by ", ALL": every element is recognised independently — the lots
    are the concatenation, in order, of what each lot element denotes, the QQs the concatenation of `parse_aliquot` of each chain
    (and of "ALL" last). -/
theorem C06_blocks_parse (B : List Blk) (hv : ValidBlks B) (hB : B ≠ []) (tail : Str) (ht : TailAll tail)
    (a : ParseArgs) (inh : Flags) :
    ∃ r, tractParseRaw (joinC (B.map Blk.text) ++ tail) a inh = .ok r ∧
      r.text = joinC (B.map Blk.text) ++ tail ∧
      r.lots = B.flatMap Blk.lots ∧
      r.qqs = (qqsOf a.depth ((blkChains B).map chainText ++ allBlock tail)).1 ∧
      r.aliquotsWhole = (blkChains B).map (fun c => removeFractions (chainText c)) ∧
      r.diverged = (qqsOf a.depth ((blkChains B).map chainText ++ allBlock tail)).2 := by
  have hfix : scrubAliquots (joinC (B.map Blk.text) ++ tail) a.cleanQQ = some (joinC (B.map Blk.text) ++ tail) := by
    rcases ht with rfl | rfl
    · rw [List.append_nil, blocks_text_xtoks]; exact C06_xtoks_fixed _ _
    · have : joinC (B.map Blk.text) ++ (commaSp ++ ['A', 'L', 'L']) =
          xtoksText (([XTok.tok .comma] : List XTok).intercalate (B.map Blk.xtoks) ++ [XTok.tok .comma, XTok.all]) := by
        rw [xtoksText_append, ← blocks_text_xtoks]; rfl
      rw [this]; exact C06_xtoks_fixed _ _
  have hne : ∀ x ∈ B.map Blk.text, x ≠ [] := by
    intro x hx
    rw [List.mem_map] at hx
    obtain ⟨b, hb, rfl⟩ := hx
    exact b.text_ne_nil (validBlks_ne B hv b hb)
  have hlen1 := joinC_length _ hne
  rw [List.length_map] at hlen1
  have hruns := nRuns_le B
  have hEL := extractLots_blks tail ht B hv [] (by intro u hu; cases hu) [] ((joinC (B.map Blk.text) ++ tail).length + 2)
    (by simp only [List.length_append]; omega)
  simp only [List.map_nil, List.nil_append] at hEL
  obtain ⟨st', hfold, hlots, hdv⟩ := lotBlocksFold_runs a (runBlocks B) (runBlocks_none B) { fl := inh }
  obtain ⟨hl1, hl2⟩ := runBlocks_lots B
  have hpne : ∀ x ∈ (B.map Blk.pu).map PU.text, x ≠ [] := by
    intro x hx
    simp only [List.mem_map] at hx
    obtain ⟨u, ⟨b, hb, rfl⟩, rfl⟩ := hx
    cases b with
    | chain c => exact (Blk.chain c).text_ne_nil (validBlks_ne B hv _ hb)
    | run i0 is => simp [Blk.pu, PU.text]
  have hlen2 := joinC_length _ hpne
  simp only [List.length_map] at hlen2
  have hch := nChains_le (B.map Blk.pu)
  rw [List.length_map] at hch
  have hEA := extractAliquots_pus tail ht (B.map Blk.pu) (pus_ok_blks B hv) [] (by intro u hu; cases hu) []
    ((joinC ((B.map Blk.pu).map PU.text) ++ tail).length + 2) (by simp only [List.length_append]; omega)
  simp only [List.map_nil, List.nil_append, List.map_map, Function.comp_def] at hEA
  -- the leftover: patches, and the optional ", ALL"
  have hblocks : ∀ (blocks : List Str),
      aliquotBlocksOf blocks (joinC (B.map (fun _ => ";;".toList)) ++ tail) = blocks ++ allBlock tail := by
    intro blocks
    rcases ht with rfl | rfl
    · have hrem2 : ∀ c ∈ joinC (B.map (fun _ => ";;".toList)) ++ [], SepChar c := by
        have := joinC_patches_sep (B.map (fun _ => PU.patch)) (by intro u hu; simp at hu; exact hu.2.symm)
        simpa [List.map_map, Function.comp_def, PU.text] using this
      rw [aliquotBlocksOf_seps _ _ hrem2]
      simp [allBlock]
    · obtain ⟨n, hn⟩ : ∃ n, B.length = n + 1 := ⟨B.length - 1, by
        have : 0 < B.length := List.length_pos_iff.mpr hB
        omega⟩
      have hrep : B.map (fun _ => ";;".toList) = List.replicate (n + 1) ";;".toList := by
        rw [← hn]
        exact List.map_const'
      rw [hrep, patches_all_words, aliquotBlocksOf_words_all blocks _ (by
        intro w hw
        rw [List.mem_replicate] at hw
        rw [hw.2]
        simp)]
      simp [allBlock, commaSp]
  unfold tractParseRaw
  rw [hfix]
  simp only []
  rw [hEL]
  simp only []
  rw [hfold, hEA]
  simp only [hblocks, puChains_blks]
  refine ⟨_, rfl, rfl, ?_, rfl, ?_, ?_⟩
  · show st'.lots = _
    rw [hlots, hl1]; rfl
  · simp [List.map_map, Function.comp_def]
  · show (st'.dv || _) = _
    rw [hdv, hl2]; rfl

/-! #### the flat list of elements -/

/-- an element of the description: a chain of aliquot components, or a lot element -/
inductive Elem where
  | chain (c : List Comp)
  | lot (i : LotItem)

def Elem.text : Elem → Str
  | .chain c => chainText c
  | .lot i => i.text

/-- the lots the element denotes -/
def Elem.lots : Elem → List Str
  | .chain _ => []
  | .lot i => i.item.expand.map lotName

def Elem.OK : Elem → Prop
  | .chain c => c ≠ []
  | .lot _ => True

/-- consecutive lot elements form one run -/
def groupElems : List Elem → List Blk
  | [] => []
  | .chain c :: rest => .chain c :: groupElems rest
  | .lot i :: rest =>
    match groupElems rest with
    | .run i0 is :: bs => .run i (i0 :: is) :: bs
    | bs => .run i [] :: bs

def tailC (l : List Str) : Str := l.flatMap (fun b => commaSp ++ b)

theorem joinC_eq_tailC (l : List Str) : joinC l = (tailC l).drop 2 := by
  cases l with
  | nil => rfl
  | cons a t =>
    rw [joinC, intercalate_cons_flatMap]
    simp [tailC, commaSp]

theorem runText_cons (i i0 : LotItem) (is : List LotItem) :
    runText i (i0 :: is) = i.text ++ (commaSp ++ runText i0 is) := by
  simp [runText, commaSp]

theorem runText_single (i : LotItem) : runText i [] = i.text := by simp [runText]

theorem group_tailC (es : List Elem) : tailC ((groupElems es).map Blk.text) = tailC (es.map Elem.text) := by
  induction es with
  | nil => rfl
  | cons e es ih =>
    cases e with
    | chain c =>
      simp only [groupElems, List.map_cons, tailC, List.flatMap_cons] at ih ⊢
      rw [ih]; rfl
    | lot i =>
      cases hg : groupElems es with
      | nil =>
        rw [hg] at ih
        simp only [groupElems, hg, List.map_cons, List.map_nil, tailC, List.flatMap_cons, List.flatMap_nil] at ih ⊢
        rw [← ih]; simp [Blk.text, Elem.text, runText_single]
      | cons b bs =>
        rw [hg] at ih
        cases b with
        | chain c =>
          simp only [groupElems, hg, List.map_cons, tailC, List.flatMap_cons] at ih ⊢
          rw [← ih]; simp [Blk.text, Elem.text, runText_single]
        | run i0 is =>
          simp only [groupElems, hg, List.map_cons, tailC, List.flatMap_cons] at ih ⊢
          rw [← ih]; simp [Blk.text, Elem.text, runText_cons, List.append_assoc]

theorem group_text (es : List Elem) : joinC ((groupElems es).map Blk.text) = joinC (es.map Elem.text) := by
  rw [joinC_eq_tailC, joinC_eq_tailC, group_tailC]

theorem group_valid (es : List Elem) (h : ∀ e ∈ es, e.OK) : ValidBlks (groupElems es) := by
  induction es with
  | nil => trivial
  | cons e es ih =>
    have ih' := ih (fun x hx => h x (List.mem_cons_of_mem _ hx))
    cases e with
    | chain c => exact ⟨h (.chain c) (by simp), ih'⟩
    | lot i =>
      cases hg : groupElems es with
      | nil => simp only [groupElems, hg]; exact ⟨trivial, trivial⟩
      | cons b bs =>
        rw [hg] at ih'
        cases b with
        | chain c => simp only [groupElems, hg]; exact ⟨trivial, ih'⟩
        | run i0 is => simp only [groupElems, hg]; exact ih'

theorem group_lots (es : List Elem) : (groupElems es).flatMap Blk.lots = es.flatMap Elem.lots := by
  induction es with
  | nil => rfl
  | cons e es ih =>
    cases e with
    | chain c => simp only [groupElems, List.flatMap_cons, ih, Blk.lots, Elem.lots]
    | lot i =>
      cases hg : groupElems es with
      | nil =>
        rw [hg] at ih
        simp only [groupElems, hg, List.flatMap_cons, List.flatMap_nil] at ih ⊢
        rw [← ih]; simp [Blk.lots, Elem.lots, expand]
      | cons b bs =>
        rw [hg] at ih
        cases b with
        | chain c =>
          simp only [groupElems, hg, List.flatMap_cons] at ih ⊢
          rw [← ih]; simp [Blk.lots, Elem.lots, expand]
        | run i0 is =>
          simp only [groupElems, hg, List.flatMap_cons] at ih ⊢
          rw [← ih]; simp [Blk.lots, Elem.lots, expand]

def elemChains : List Elem → List (List Comp)
  | [] => []
  | .chain c :: rest => c :: elemChains rest
  | .lot _ :: rest => elemChains rest

theorem group_chains (es : List Elem) : blkChains (groupElems es) = elemChains es := by
  induction es with
  | nil => rfl
  | cons e es ih =>
    cases e with
    | chain c => simp only [groupElems, blkChains, elemChains, ih]
    | lot i =>
      cases hg : groupElems es with
      | nil => rw [hg] at ih; simp only [groupElems, hg, blkChains, elemChains]; exact ih
      | cons b bs =>
        rw [hg] at ih
        cases b with
        | chain c => simp only [groupElems, hg, blkChains, elemChains] at ih ⊢; exact ih
        | run i0 is => simp only [groupElems, hg, blkChains, elemChains] at ih ⊢; exact ih

theorem group_ne_nil (es : List Elem) (h : es ≠ []) : groupElems es ≠ [] := by
  cases es with
  | nil => exact absurd rfl h
  | cons e es =>
    cases e with
    | chain c => simp [groupElems]
    | lot i =>
      simp only [groupElems]
      split <;> simp

/-- the parse of a text made of lot elements and chains separated by ", ", optionally followed by ", ALL" -/
theorem C06_lots_chains_all_parse (es : List Elem) (hok : ∀ e ∈ es, e.OK) (hne : es ≠ []) (tail : Str) (ht : TailAll tail)
    (a : ParseArgs) (inh : Flags) :
    ∃ r, tractParseRaw (joinC (es.map Elem.text) ++ tail) a inh = .ok r ∧
      r.text = joinC (es.map Elem.text) ++ tail ∧
      r.lots = es.flatMap Elem.lots ∧
      r.qqs = (qqsOf a.depth ((elemChains es).map chainText ++ allBlock tail)).1 ∧
      r.aliquotsWhole = (elemChains es).map (fun c => removeFractions (chainText c)) ∧
      r.diverged = (qqsOf a.depth ((elemChains es).map chainText ++ allBlock tail)).2 := by
  have := C06_blocks_parse (groupElems es) (group_valid es hok) (group_ne_nil es hne) tail ht a inh
  rwa [group_text, group_lots, group_chains] at this

/-- the parse of a text made of lot elements and chains separated by ", " -/
theorem C06_lots_and_chains_parse (es : List Elem) (hok : ∀ e ∈ es, e.OK) (a : ParseArgs) (inh : Flags) :
    ∃ r, tractParseRaw (joinC (es.map Elem.text)) a inh = .ok r ∧
      r.text = joinC (es.map Elem.text) ∧
      r.lots = es.flatMap Elem.lots ∧
      r.qqs = (qqsOf a.depth ((elemChains es).map chainText)).1 ∧
      r.aliquotsWhole = (elemChains es).map (fun c => removeFractions (chainText c)) ∧
      r.diverged = (qqsOf a.depth ((elemChains es).map chainText)).2 := by
  cases es with
  | nil => exact ⟨_, tractParseRaw_nil a inh, rfl, rfl, rfl, rfl, rfl⟩
  | cons e es =>
    have := C06_lots_chains_all_parse (e :: es) hok (by simp) [] (Or.inl rfl) a inh
    simpa [allBlock] using this

/-- a lot element on its own -/
theorem parseAlone_lot (i : LotItem) (a : ParseArgs) :
    (parseAlone i.text a).lots = (Elem.lot i).lots ∧ (parseAlone i.text a).qqs = [] ∧
      (parseAlone i.text a).aliquotsWhole = [] ∧ (parseAlone i.text a).diverged = false := by
  obtain ⟨r, hr, _, hl, hq, hw, hd⟩ := C06_lots_and_chains_parse [.lot i] (by intro e he; simp at he; subst he; trivial) a {}
  have ht : joinC ([Elem.lot i].map Elem.text) = i.text := by simp [joinC, Elem.text, List.intercalate, List.intersperse]
  rw [ht] at hr
  unfold parseAlone
  rw [hr]
  simp only [elemChains, List.map_nil] at hq hw hd
  refine ⟨by rw [hl]; simp, by rw [hq]; rfl, hw, by rw [hd]; rfl⟩

theorem elem_alone (e : Elem) (he : e.OK) (a : ParseArgs) :
    (parseAlone e.text a).lots = e.lots ∧
    (parseAlone e.text a).qqs = (match e with | .chain c => (blockQQ a.depth (chainText c)).1 | .lot _ => []) ∧
    (parseAlone e.text a).aliquotsWhole = (match e with | .chain c => [removeFractions (chainText c)] | .lot _ => []) ∧
    (parseAlone e.text a).diverged = (match e with | .chain c => (blockQQ a.depth (chainText c)).2 | .lot _ => false) := by
  cases e with
  | chain c =>
    simp only [Elem.text]
    rw [parseAlone_chain c he, qqsOf_one]
    exact ⟨rfl, rfl, rfl, rfl⟩
  | lot i => exact parseAlone_lot i a

/-- **C06_lots_and_chains_compositional**: in a description made of lot elements ("Lot n", "Lots a - b", n of one to three digits)
    and non-empty canonical chains separated by ", ", each element is recognised independently: the reported lots (in order) and the
    reported QQs (in order) are literally the concatenations of what the parser reports for each element on its own; the
    recorded text is the text; the parse diverges iff the parse of some element alone does. -/
theorem C06_lots_and_chains_compositional (es : List Elem) (hok : ∀ e ∈ es, e.OK) (a : ParseArgs) (inh : Flags) :
    ∃ r, tractParseRaw (joinC (es.map Elem.text)) a inh = .ok r ∧
      r.text = joinC (es.map Elem.text) ∧
      r.lots = es.flatMap (fun e => (parseAlone e.text a).lots) ∧
      r.qqs = es.flatMap (fun e => (parseAlone e.text a).qqs) ∧
      r.aliquotsWhole = es.flatMap (fun e => (parseAlone e.text a).aliquotsWhole) ∧
      r.diverged = es.any (fun e => (parseAlone e.text a).diverged) := by
  obtain ⟨r, hr, ht, hl, hq, hw, hd⟩ := C06_lots_and_chains_parse es hok a inh
  refine ⟨r, hr, ht, ?_, ?_, ?_, ?_⟩
  · rw [hl]
    apply flatMap_congr_mem
    intro e he
    exact ((elem_alone e (hok e he) a).1).symm
  · rw [hq, qqsOf_blocks]
    show List.flatMap _ ((elemChains es).map chainText) = _
    clear hr ht hl hq hw hd
    induction es with
    | nil => rfl
    | cons e es ih =>
      have ih' := ih (fun x hx => hok x (List.mem_cons_of_mem _ hx))
      have h1 := (elem_alone e (hok e (by simp)) a).2.1
      cases e with
      | chain c => simp only [elemChains, List.map_cons, List.flatMap_cons, ih', h1]
      | lot i => simp only [elemChains, List.flatMap_cons, ih', h1, List.nil_append]
  · rw [hw]
    clear hr ht hl hq hw hd
    induction es with
    | nil => rfl
    | cons e es ih =>
      have ih' := ih (fun x hx => hok x (List.mem_cons_of_mem _ hx))
      have h1 := (elem_alone e (hok e (by simp)) a).2.2.1
      cases e with
      | chain c => simp only [elemChains, List.map_cons, List.flatMap_cons, ih', h1]; rfl
      | lot i => simp only [elemChains, List.flatMap_cons, ih', h1, List.nil_append]
  · rw [hd, qqsOf_blocks]
    show List.any ((elemChains es).map chainText) _ = _
    clear hr ht hl hq hw hd
    induction es with
    | nil => rfl
    | cons e es ih =>
      have ih' := ih (fun x hx => hok x (List.mem_cons_of_mem _ hx))
      have h1 := (elem_alone e (hok e (by simp)) a).2.2.2
      cases e with
      | chain c => simp only [elemChains, List.map_cons, List.any_cons, ih', h1]
      | lot i => simp only [elemChains, List.any_cons, ih', h1, Bool.false_or]

theorem elemChains_ne (es : List Elem) (hok : ∀ e ∈ es, e.OK) : ∀ c ∈ elemChains es, c ≠ [] := by
  induction es with
  | nil => intro c hc; simp [elemChains] at hc
  | cons e es ih =>
    intro c hc
    have ih' := ih (fun x hx => hok x (List.mem_cons_of_mem _ hx))
    cases e with
    | chain c' =>
      simp only [elemChains, List.mem_cons] at hc
      rcases hc with rfl | hc
      · exact hok (.chain c) (by simp)
      · exact ih' c hc
    | lot i => exact ih' c (by simpa [elemChains] using hc)

/-- **C06 + C02 (geometry, lots and chains)**: under the documented depth domain the parse does not diverge, the QQs are the
    concatenation of the chains' pieces, and each chain's pieces tile the region the chain describes -/
theorem C06_lots_and_chains_tiling (es : List Elem) (hok : ∀ e ∈ es, e.OK) (a : ParseArgs) (inh : Flags)
    (hd : a.depth.qqDepth = none) (hmin : 1 ≤ a.depth.qqMin)
    (hmax : a.depth.qqMax = none ∨ (∃ m, a.depth.qqMax = some m ∧ a.depth.qqMin ≤ m)) :
    ∃ r, tractParseRaw (joinC (es.map Elem.text)) a inh = .ok r ∧ r.diverged = false ∧
      r.lots = es.flatMap Elem.lots ∧
      r.qqs = (elemChains es).flatMap (chainPieces a.depth) ∧
      ∀ c ∈ elemChains es, Aliquot.parseAliquot (chainText c) a.depth = some (chainPieces a.depth c) ∧
        TilesChain a.depth c (chainPieces a.depth c) := by
  obtain ⟨r, hr, _, hl, hq, _, hdv⟩ := C06_lots_and_chains_parse es hok a inh
  have hne := elemChains_ne es hok
  have hone : ∀ c ∈ elemChains es, Aliquot.parseAliquot (chainText c) a.depth = some (chainPieces a.depth c) ∧
      TilesChain a.depth c (chainPieces a.depth c) ∧ (blockQQ a.depth (chainText c)).2 = false := by
    intro c hc
    obtain ⟨pieces, hp, ht⟩ := C02_parseAliquot_canonical_tiling c a.depth (hne c hc) hd hmin hmax
    have hb : blockQQ a.depth (chainText c) = (pieces, false) := by unfold blockQQ; rw [hp]
    have hcp : chainPieces a.depth c = pieces := by unfold chainPieces; rw [hb]
    rw [hcp, hb]
    exact ⟨hp, ht, rfl⟩
  refine ⟨r, hr, ?_, hl, ?_, fun c hc => ⟨(hone c hc).1, (hone c hc).2.1⟩⟩
  · rw [hdv, qqsOf_blocks]
    show List.any ((elemChains es).map chainText) _ = false
    rw [List.any_map, List.any_eq_false]
    intro c hc
    simp only [Function.comp_def]
    rw [(hone c hc).2.2]
    simp
  · rw [hq, qqsOf_blocks]
    show List.flatMap _ ((elemChains es).map chainText) = _
    rw [List.flatMap_map]
    rfl

theorem elems_alone_qqs (es : List Elem) (hok : ∀ e ∈ es, e.OK) (a : ParseArgs) :
    ((elemChains es).map chainText).flatMap (fun b => (blockQQ a.depth b).1) = es.flatMap (fun e => (parseAlone e.text a).qqs) ∧
    (elemChains es).map (fun c => removeFractions (chainText c)) = es.flatMap (fun e => (parseAlone e.text a).aliquotsWhole) ∧
    ((elemChains es).map chainText).any (fun b => (blockQQ a.depth b).2) = es.any (fun e => (parseAlone e.text a).diverged) := by
  induction es with
  | nil => exact ⟨rfl, rfl, rfl⟩
  | cons e es ih =>
    obtain ⟨i1, i2, i3⟩ := ih (fun x hx => hok x (List.mem_cons_of_mem _ hx))
    obtain ⟨_, h1, h2, h3⟩ := elem_alone e (hok e (by simp)) a
    cases e with
    | chain c =>
      refine ⟨?_, ?_, ?_⟩
      · simp only [elemChains, List.map_cons, List.flatMap_cons, i1, h1]
      · simp only [elemChains, List.map_cons, List.flatMap_cons, i2, h2]; rfl
      · simp only [elemChains, List.map_cons, List.any_cons, i3, h3]
    | lot i =>
      refine ⟨?_, ?_, ?_⟩
      · simp only [elemChains, List.flatMap_cons, i1, h1, List.nil_append]
      · simp only [elemChains, List.flatMap_cons, i2, h2, List.nil_append]
      · simp only [elemChains, List.any_cons, i3, h3, Bool.false_or]

/-- **C06_lots_chains_all_compositional**: lot elements and chains separated by ", ", then ", ALL": lots and QQs are the
    concatenations, in order, of what the parser reports for each element on its own, "ALL" (the whole section) last -/
theorem C06_lots_chains_all_compositional (es : List Elem) (hok : ∀ e ∈ es, e.OK) (hne : es ≠ []) (a : ParseArgs) (inh : Flags) :
    ∃ r, tractParseRaw (joinC (es.map Elem.text) ++ (commaSp ++ ['A', 'L', 'L'])) a inh = .ok r ∧
      r.text = joinC (es.map Elem.text) ++ (commaSp ++ ['A', 'L', 'L']) ∧
      r.lots = es.flatMap (fun e => (parseAlone e.text a).lots) ++ (parseAlone ['A', 'L', 'L'] a).lots ∧
      r.qqs = es.flatMap (fun e => (parseAlone e.text a).qqs) ++ (parseAlone ['A', 'L', 'L'] a).qqs ∧
      r.aliquotsWhole = es.flatMap (fun e => (parseAlone e.text a).aliquotsWhole) ++
        (parseAlone ['A', 'L', 'L'] a).aliquotsWhole ∧
      r.diverged = (es.any (fun e => (parseAlone e.text a).diverged) || (parseAlone ['A', 'L', 'L'] a).diverged) := by
  obtain ⟨r, hr, ht, hl, hq, hw, hd⟩ := C06_lots_chains_all_parse es hok hne _ (Or.inr rfl) a inh
  obtain ⟨e1, e2, e3⟩ := elems_alone_qqs es hok a
  have hall : allBlock (commaSp ++ ['A', 'L', 'L']) = ["ALL".toList] := by simp [allBlock, commaSp]
  rw [hall] at hq hd
  refine ⟨r, hr, ht, ?_, ?_, ?_, ?_⟩
  · rw [hl, parseAlone_all, List.append_nil]
    apply flatMap_congr_mem
    intro e he
    exact ((elem_alone e (hok e he) a).1).symm
  · rw [hq, qqsOf_blocks, parseAlone_all, qqsOf_one]
    show List.flatMap _ (_ ++ _) = _
    rw [List.flatMap_append, e1]
    simp
  · rw [hw, parseAlone_all, List.append_nil, e2]
  · rw [hd, qqsOf_blocks, parseAlone_all, qqsOf_one]
    show List.any (_ ++ _) _ = _
    rw [List.any_append, e3]
    simp

/-- **C06 (`unpack_lots` on a run)**, under its property name -/
theorem C06_unpackLots_run (i0 : LotItem) (is : List LotItem) :
    (unpackLots (runText i0 is)).lotList = (expand ((i0 :: is).map LotItem.item)).map lotName ∧
      (unpackLots (runText i0 is)).diverged = false := unpackLots_run i0 is

/-! ### non-vacuity and axioms -/
--NONVAC-BEGIN

/-! Goal 1 -/
example : Sep.comma.text.intercalate ([[Comp.N, .NE], [.S, .SW], [.NE]].map chainText) = "N½NE¼, S½SW¼, NE¼".toList := by
  decide
/-- the hypotheses are satisfiable, and the parts are what Python returns (`Tract('N½NE¼, S½SW¼, NE¼', parse_qq=True).qqs ==
    ['NENE','NWNE','SESW','SWSW','NENE','NWNE','SENE','SWNE']`, `w_flags == ['dup_qq<NENE,NWNE>']`) -/
example := C06_chains_text_compositional .comma [[.N, .NE], [.S, .SW], [.NE]] (by decide) {} {}
example : (parseAlone (chainText [.N, .NE]) {}).qqs = ["NENE".toList, "NWNE".toList] := by decide +kernel
example : (parseAlone (chainText [.S, .SW]) {}).qqs = ["SESW".toList, "SWSW".toList] := by decide +kernel
example : (parseAlone (chainText [.NE]) {}).qqs = ["NENE".toList, "NWNE".toList, "SENE".toList, "SWNE".toList] := by
  decide +kernel
example : (match tractParseRaw "N½NE¼, S½SW¼, NE¼".toList {} {} with
    | .ok r => r.qqs == ["NENE", "NWNE", "SESW", "SWSW", "NENE", "NWNE", "SENE", "SWNE"].map String.toList &&
        r.flags.w == [.str "dup_qq<NENE,NWNE>".toList] && r.lots == []
    | .error _ => false) = true := by
  decide +kernel
example := C06_chains_text_dup_flag .comma [[.N, .NE], [.S, .SW], [.NE]] (by decide) {} {}
example := C06_chains_text_tiling .semi [[.N, .NE], [.S]] (by decide) {} {} rfl (by decide) (Or.inl rfl)
example : chainsText [.E] [(.comma, [.NW, .SE]), (.semi, [.S])] = "E½, NW¼SE¼; S½".toList := by decide
example := C06_chains_text_compositional_mixed [.E] [(.comma, [.NW, .SE]), (.semi, [.S])] (by decide) (by decide) {} {}

/-! Goal 3 -/
example : Sep.comma.text.intercalate ([[Comp.NE], [.S, .SW]].map chainText ++ [['A', 'L', 'L']]) = "NE¼, S½SW¼, ALL".toList := by
  decide
/-- (`Tract('NE¼, ALL', parse_qq=True).qqs` = the 4 QQs of NE¼ followed by the 16 QQs of the section, `dup_qq` warning) -/
example := C06_chains_all_compositional .comma [[.NE], [.S, .SW]] (by decide) {} {}
example := C06_chains_all_no_diverge .comma [[.NE], [.S, .SW]] (by decide) {} {} rfl (by decide) (Or.inl rfl)
example : (match tractParseRaw "NE¼, ALL".toList {} {} with
    | .ok r => r.qqs.length == 20 && r.aliquotsWhole == ["NE".toList] && r.lots == []
    | .error _ => false) = true := by
  decide +kernel
example : (parseAlone ['A', 'L', 'L'] {}).qqs.length = 16 := by decide +kernel

/-! Goal 2 -/
def d1 : Digs := ⟨['1'], by decide, by decide, by decide⟩
def d2 : Digs := ⟨['2'], by decide, by decide, by decide⟩
def d4 : Digs := ⟨['4'], by decide, by decide, by decide⟩
def d12 : Digs := ⟨['1', '2'], by decide, by decide, by decide⟩
def exElems : List Elem :=
  [.lot (.single d1), .chain [.N, .NE], .lot (.range d2 d4), .lot (.single d12), .chain [.S]]
theorem exElems_ok : ∀ e ∈ exElems, e.OK := by
  intro e he
  simp only [exElems, List.mem_cons, List.not_mem_nil, or_false] at he
  rcases he with rfl | rfl | rfl | rfl | rfl <;> simp [Elem.OK]
example : joinC (exElems.map Elem.text) = "Lot 1, N½NE¼, Lots 2 - 4, Lot 12, S½".toList := by decide
/-- the hypotheses are satisfiable; `Tract('Lot 1, N½NE¼, Lots 2 - 4, Lot 12, S½', parse_qq=True).lots ==
    ['L1','L2','L3','L4','L12']`, 10 QQs, no flag -/
example := C06_lots_and_chains_compositional exElems exElems_ok {} {}
example := C06_lots_and_chains_tiling exElems exElems_ok {} {} rfl (by decide) (Or.inl rfl)
example : exElems.flatMap Elem.lots = ["L1", "L2", "L3", "L4", "L12"].map String.toList := by decide +kernel
example : (groupElems exElems).length = 4 := by decide
example : (match tractParseRaw "Lot 1, N½NE¼, Lots 2 - 4, Lot 12, S½".toList {} {} with
    | .ok r => r.lots == ["L1", "L2", "L3", "L4", "L12"].map String.toList && r.qqs.length == 10 && r.flags.w == []
    | .error _ => false) = true := by
  decide +kernel
/-- lots, chains and a final "ALL" (`Tract('Lot 1, N½NE¼, Lots 2 - 4, Lot 12, S½, ALL', parse_qq=True)`: the same lots, 10 + 16 QQs) -/
example := C06_lots_chains_all_compositional exElems exElems_ok (by decide) {} {}
example : joinC (exElems.map Elem.text) ++ (commaSp ++ ['A', 'L', 'L']) = "Lot 1, N½NE¼, Lots 2 - 4, Lot 12, S½, ALL".toList := by
  decide
example : (match tractParseRaw "Lot 1, ALL".toList {} {} with
    | .ok r => r.lots == ["L1".toList] && r.qqs.length == 16 && r.flags.w == []
    | .error _ => false) = true := by
  decide +kernel
/-- a descending range is within the domain: the element alone and in context yields the same lots (and a warning) -/
example : (Elem.lot (.range d4 d2)).lots = ["L4", "L3", "L2"].map String.toList := by decide +kernel

#print axioms C06_chains_text_parse
#print axioms C06_chains_text_compositional_mixed
#print axioms C06_chains_text_compositional
#print axioms C06_chains_text_dup_flag
#print axioms C06_chains_text_tiling
#print axioms C06_xtoks_fixed
#print axioms C06_chains_then_all_parse
#print axioms C06_all_alone_parse
#print axioms C06_chains_all_compositional
#print axioms C06_chains_all_no_diverge
#print axioms unpackLots_run
#print axioms C06_blocks_parse
#print axioms C06_lots_and_chains_parse
#print axioms C06_lots_and_chains_compositional
#print axioms C06_lots_and_chains_tiling
#print axioms C06_lots_chains_all_parse
#print axioms C06_lots_chains_all_compositional
#print axioms C06_unpackLots_run
--NONVAC-END

end PyTRS
